(* Harness/H20.v — correspondence harness of C20: case records, boolean checks evaluated by
   vm_compute, the EXACT residual checker for the float eigendecomposition model, and the fixed
   family of symmetric matrices on which it is evaluated (Examples = TESTS, not theorems:
   there is no universal theorem for Q diag(d) Q^T = C, see META.level_note of the driver). *)
From Coq Require Import ZArith QArith List Bool PrimFloat.
Import ListNotations.
From PV Require Import Base.Num Model.LSolve Model.EigSort Model.EigFloat.
Open Scope Z_scope.

Definition FUEL : nat := 400%nat.

(* ---------------------------------------------------------------------- *)
(* exact dyadic rationals  m * 2^e  (no rounding anywhere below)           *)
(* ---------------------------------------------------------------------- *)
Definition dyad := (Z * Z)%type.
Definition d0 : dyad := (0, 0).
Definition d1 : dyad := (1, 0).
Definition dmul (a b : dyad) : dyad := (fst a * fst b, snd a + snd b).
Definition dalign (a b : dyad) : Z * Z * Z :=
  let e := Z.min (snd a) (snd b) in (Z.shiftl (fst a) (snd a - e), Z.shiftl (fst b) (snd b - e), e).
Definition dadd (a b : dyad) : dyad := let '(x, y, e) := dalign a b in (x + y, e).
Definition dsub (a b : dyad) : dyad := let '(x, y, e) := dalign a b in (x - y, e).
Definition dabs (a : dyad) : dyad := (Z.abs (fst a), snd a).
Definition dleb (a b : dyad) : bool := let '(x, y, _) := dalign a b in x <=? y.
Definition dmax (a b : dyad) : dyad := if dleb a b then b else a.
Definition dsum (l : list dyad) : dyad := fold_left dadd l d0.
Definition dmaxl (l : list dyad) : dyad := fold_left dmax l d0.
(* the rational it denotes (Base.Num.dy) *)
Definition dQ (a : dyad) : Q := dy (fst a) (snd a).

Fixpoint opt_all {A} (l : list (option A)) : option (list A) :=
  match l with
  | [] => Some []
  | Some a :: t => match opt_all t with Some r => Some (a :: r) | None => None end
  | None :: _ => None
  end.
Definition vexact (v : vec) : option (list dyad) := opt_all (map fexact v).
Definition mexact (M : mtx) : option (list (list dyad)) := opt_all (map vexact M).

Definition dnth (l : list dyad) (i : nat) : dyad := nth i l d0.
Definition dmat (M : list (list dyad)) (i j : nat) : dyad := dnth (nth i M []) j.

(* ||R||_inf (max row sum) of R_ij = f i j, i,j < n *)
Definition norm_inf (n : nat) (f : nat -> nat -> dyad) : dyad :=
  dmaxl (map (fun i => dsum (map (fun j => dabs (f i j)) (seq 0 n))) (seq 0 n)).

Definition tolexp : Z := -40.

(* C symmetric input (its lower triangle is what CMAES.eigendecomposition reads),
   V, d the computed eigenvectors (columns of V) and eigenvalues:
     || V diag(d) V^T - C ||_inf <= 2^-40 * ||C||_inf
     || V^T V - I ||_inf         <= 2^-40 * n
     d ascending                                                         *)
Definition residual_ok (C V : list (list dyad)) (d : list dyad) : bool :=
  let n := length C in
  let Cs := fun i j => if Nat.leb j i then dmat C i j else dmat C j i in
  let R := fun i j => dsub (dsum (map (fun k => dmul (dmul (dmat V i k) (dnth d k)) (dmat V j k)) (seq 0 n))) (Cs i j) in
  let O := fun i j => dsub (dsum (map (fun k => dmul (dmat V k i) (dmat V k j)) (seq 0 n)))
                           (if Nat.eqb i j then d1 else d0) in
  let asc := forallb (fun i => dleb (dnth d i) (dnth d (S i))) (seq 0 (n - 1)) in
  Nat.eqb (length V) n && Nat.eqb (length d) n && forallb (fun r => Nat.eqb (length r) n) V &&
  dleb (norm_inf n R) (dmul (1, tolexp) (norm_inf n Cs)) &&
  dleb (norm_inf n O) (dmul (1, tolexp) (Z.of_nat n, 0)) &&
  asc.

(* run the float model (squares as x*x) from d0 = [1.0]*n as CMAES does and test the result exactly *)
Definition eig_accept_with (start : nat -> nat) (C : mtx) : bool :=
  match eig sq_mul start FUEL C (repeat one (length C)) with
  | Ok (V, d, _) =>
      match mexact C, mexact V, vexact d with
      | Some Cx, Some Vx, Some dx => residual_ok Cx Vx dx
      | _, _, _ => false
      end
  | Err _ => false
  end.
Definition eig_accept : mtx -> bool := eig_accept_with start_fixed.

(* ---------------------------------------------------------------------- *)
(* correspondence cases                                                    *)
(* ---------------------------------------------------------------------- *)
Definition perr_eqb (a b : perr) : bool :=
  match a, b with
  | IndexError, IndexError | ZeroDivisionError, ZeroDivisionError | ValueError, ValueError
  | UnboundLocalError, UnboundLocalError | OutOfFuel, OutOfFuel => true
  | _, _ => false
  end.

(* what the implementation did: returned (V, d, e after tred2+tql2) or raised *)
Inductive eout := EOk (V : mtx) (d e : vec) | ERaised (k : perr) | EOther.
(* input matrix C, initial diag_D, observed values of libm pow(x,2.0) where != x*x, outcome *)
Record eigcase := EC { ec_C : mtx; ec_d0 : vec; ec_sq : list (float * float); ec_out : eout }.

Definition c20_eig_model (k : eigcase) := eig (sq_tab (ec_sq k)) start_fixed FUEL (ec_C k) (ec_d0 k).

(* bit-for-bit agreement, no tolerance *)
Definition c20_eig_check (k : eigcase) : bool :=
  match c20_eig_model k, ec_out k with
  | Ok (V, d, e), EOk V' d' e' => msame V V' && vsame d d' && vsame e e'
  | Err a, ERaised b => perr_eqb a b
  | _, _ => false
  end.

(* the model's own output passes the exact residual test (evaluated inside Coq) *)
Definition c20_eig_residual_check (k : eigcase) : bool :=
  match c20_eig_model k with
  | Ok (V, d, _) =>
      match mexact (ec_C k), mexact V, vexact d with
      | Some Cx, Some Vx, Some dx => residual_ok Cx Vx dx
      | _, _, _ => false
      end
  | Err _ => false
  end.

(* lsolve, binary64: result and the state A, b are left in (the code works in place) *)
Inductive lfout := LFSolved (x : vec) (U : mtx) (c : vec) | LFSingular | LFDivZero | LFOther.
Record lfcase := LF { lf_A : mtx; lf_b : vec; lf_out : lfout }.

Definition c20_lsolveF_check (k : lfcase) : bool :=
  match lsolveF (lf_A k) (lf_b k), lf_out k with
  | Solved x, LFSolved x' U' c' =>
      vsame x x' &&
      match eliminateF (lf_A k) (lf_b k) with
      | Elim U c => msame U U' && vsame c c'
      | _ => false
      end
  | Singular, LFSingular => true
  | DivZero, LFDivZero => true
  | _, _ => false
  end.

(* lsolve, exact: inputs on which the implementation's float run was exact *)
Inductive lqout := LQSolved (x : list Q) (U : list (list Q)) (c : list Q) | LQSingular.
Record lqcase := LQ { lq_A : list (list Q); lq_b : list Q; lq_out : lqout }.

Fixpoint qvsame (u v : list Q) : bool :=
  match u, v with
  | [], [] => true
  | a :: u', b :: v' => Qeq_bool a b && qvsame u' v'
  | _, _ => false
  end.
Fixpoint qmsame (A B : list (list Q)) : bool :=
  match A, B with
  | [], [] => true
  | a :: A', b :: B' => qvsame a b && qmsame A' B'
  | _, _ => false
  end.

Definition c20_lsolveQ_check (k : lqcase) : bool :=
  match lsolveQ EPSILON_Q (lq_A k) (lq_b k), lq_out k with
  | Solved x, LQSolved x' U' c' =>
      qvsame x x' &&
      match eliminateQ EPSILON_Q (lq_A k) (lq_b k) with
      | Elim U c => qmsame U U' && qvsame c c'
      | _ => false
      end
  | Singular, LQSingular => true
  | _, _ => false
  end.

(* the literal constructor [fl] is exact: compared with Coq's own hexadecimal float parser *)
Record flcase := FLT { ft_m : Z; ft_e : Z; ft_hex : float }.
Definition c20_fl_check (k : flcase) : bool := fsame (fl (ft_m k) (ft_e k)) (ft_hex k).

(* ---------------------------------------------------------------------- *)
(* fixed family (TESTS): the float model evaluated in Coq, exact residuals *)
(* ---------------------------------------------------------------------- *)
Definition fam_diagonal : list mtx := [
   [[(fl 3 0)]];
   [[(fl (-5) (-1))]];
   [[(fl 0 0)]];
   [[(fl 1 1); (fl 0 0)];
    [(fl 0 0); (fl (-1) 0)]];
   [[fnz; (fl 0 0); (fl 0 0); (fl 0 0); (fl 0 0)];
    [(fl 0 0); (fl 5 0); (fl 0 0); (fl 0 0); (fl 0 0)];
    [(fl 0 0); (fl 0 0); (fl (-1) 1); (fl 0 0); (fl 0 0)];
    [(fl 0 0); (fl 0 0); (fl 0 0); (fl 5 0); (fl 0 0)];
    [(fl 0 0); (fl 0 0); (fl 0 0); (fl 0 0); (fl (-1) 2)]];
   [[(fl (-1) (-1)); (fl 0 0); (fl 0 0); (fl 0 0); (fl 0 0); (fl 0 0); (fl 0 0); (fl 0 0); (fl 0 0); (fl 0 0); (fl 0 0); (fl 0 0)];
    [(fl 0 0); (fl 3 (-3)); (fl 0 0); (fl 0 0); (fl 0 0); (fl 0 0); (fl 0 0); (fl 0 0); (fl 0 0); (fl 0 0); (fl 0 0); (fl 0 0)];
    [(fl 0 0); (fl 0 0); (fl (-1) (-2)); (fl 0 0); (fl 0 0); (fl 0 0); (fl 0 0); (fl 0 0); (fl 0 0); (fl 0 0); (fl 0 0); (fl 0 0)];
    [(fl 0 0); (fl 0 0); (fl 0 0); (fl 5 (-3)); (fl 0 0); (fl 0 0); (fl 0 0); (fl 0 0); (fl 0 0); (fl 0 0); (fl 0 0); (fl 0 0)];
    [(fl 0 0); (fl 0 0); (fl 0 0); (fl 0 0); (fl 0 0); (fl 0 0); (fl 0 0); (fl 0 0); (fl 0 0); (fl 0 0); (fl 0 0); (fl 0 0)];
    [(fl 0 0); (fl 0 0); (fl 0 0); (fl 0 0); (fl 0 0); (fl 7 (-3)); (fl 0 0); (fl 0 0); (fl 0 0); (fl 0 0); (fl 0 0); (fl 0 0)];
    [(fl 0 0); (fl 0 0); (fl 0 0); (fl 0 0); (fl 0 0); (fl 0 0); (fl 1 (-2)); (fl 0 0); (fl 0 0); (fl 0 0); (fl 0 0); (fl 0 0)];
    [(fl 0 0); (fl 0 0); (fl 0 0); (fl 0 0); (fl 0 0); (fl 0 0); (fl 0 0); (fl (-3) (-3)); (fl 0 0); (fl 0 0); (fl 0 0); (fl 0 0)];
    [(fl 0 0); (fl 0 0); (fl 0 0); (fl 0 0); (fl 0 0); (fl 0 0); (fl 0 0); (fl 0 0); (fl 1 (-1)); (fl 0 0); (fl 0 0); (fl 0 0)];
    [(fl 0 0); (fl 0 0); (fl 0 0); (fl 0 0); (fl 0 0); (fl 0 0); (fl 0 0); (fl 0 0); (fl 0 0); (fl (-1) (-3)); (fl 0 0); (fl 0 0)];
    [(fl 0 0); (fl 0 0); (fl 0 0); (fl 0 0); (fl 0 0); (fl 0 0); (fl 0 0); (fl 0 0); (fl 0 0); (fl 0 0); (fl 3 (-2)); (fl 0 0)];
    [(fl 0 0); (fl 0 0); (fl 0 0); (fl 0 0); (fl 0 0); (fl 0 0); (fl 0 0); (fl 0 0); (fl 0 0); (fl 0 0); (fl 0 0); (fl 1 (-3))]]
].
(* dimensions: 1, 1, 1, 2, 5, 12 *)
Definition fam_integer : list mtx := [
   [[(fl 5 0)]];
   [[(fl (-3) 0); (fl (-1) 0)];
    [(fl (-1) 0); (fl 5 0)]];
   [[(fl 5 0); (fl (-1) 2); (fl 1 2)];
    [(fl (-1) 2); (fl 0 0); (fl (-3) 0)];
    [(fl 1 2); (fl (-3) 0); (fl (-5) 0)]];
   [[(fl 1 0); (fl 1 0); (fl (-1) 2); (fl 1 1)];
    [(fl 1 0); (fl (-1) 2); (fl (-3) 0); (fl 1 2)];
    [(fl (-1) 2); (fl (-3) 0); (fl 0 0); (fl 1 1)];
    [(fl 1 1); (fl 1 2); (fl 1 1); (fl 1 0)]];
   [[(fl (-1) 1); (fl (-1) 1); (fl 5 0); (fl 0 0); (fl 3 0)];
    [(fl (-1) 1); (fl 0 0); (fl 5 0); (fl 1 0); (fl 1 1)];
    [(fl 5 0); (fl 5 0); (fl 0 0); (fl (-1) 2); (fl 1 0)];
    [(fl 0 0); (fl 1 0); (fl (-1) 2); (fl 5 0); (fl (-1) 2)];
    [(fl 3 0); (fl 1 1); (fl 1 0); (fl (-1) 2); (fl (-1) 1)]];
   [[(fl 1 2); (fl (-1) 1); (fl (-1) 1); (fl (-1) 1); (fl (-1) 0); (fl (-1) 0)];
    [(fl (-1) 1); (fl (-5) 0); (fl (-1) 2); (fl (-1) 0); (fl (-3) 0); (fl (-1) 1)];
    [(fl (-1) 1); (fl (-1) 2); (fl (-1) 2); (fl (-1) 0); (fl 1 2); (fl (-1) 1)];
    [(fl (-1) 1); (fl (-1) 0); (fl (-1) 0); (fl (-1) 0); (fl (-1) 2); (fl 1 2)];
    [(fl (-1) 0); (fl (-3) 0); (fl 1 2); (fl (-1) 2); (fl (-5) 0); (fl (-1) 1)];
    [(fl (-1) 0); (fl (-1) 1); (fl (-1) 1); (fl 1 2); (fl (-1) 1); (fl (-5) 0)]];
   [[(fl (-5) 0); (fl 5 0); (fl (-1) 0); (fl 5 0); (fl (-3) 0); (fl (-3) 0); (fl 1 0)];
    [(fl 5 0); (fl 1 2); (fl (-1) 0); (fl 0 0); (fl 5 0); (fl (-3) 0); (fl 0 0)];
    [(fl (-1) 0); (fl (-1) 0); (fl (-3) 0); (fl 1 2); (fl (-1) 0); (fl 1 0); (fl (-1) 1)];
    [(fl 5 0); (fl 0 0); (fl 1 2); (fl 1 1); (fl 3 0); (fl (-1) 2); (fl (-1) 2)];
    [(fl (-3) 0); (fl 5 0); (fl (-1) 0); (fl 3 0); (fl 1 0); (fl (-3) 0); (fl 1 2)];
    [(fl (-3) 0); (fl (-3) 0); (fl 1 0); (fl (-1) 2); (fl (-3) 0); (fl 1 2); (fl (-5) 0)];
    [(fl 1 0); (fl 0 0); (fl (-1) 1); (fl (-1) 2); (fl 1 2); (fl (-5) 0); (fl 3 0)]];
   [[(fl (-1) 1); (fl 1 0); (fl (-3) 0); (fl (-1) 0); (fl 5 0); (fl 5 0); (fl (-5) 0); (fl 5 0)];
    [(fl 1 0); (fl (-3) 0); (fl (-1) 2); (fl (-5) 0); (fl 1 0); (fl (-3) 0); (fl (-1) 2); (fl (-1) 2)];
    [(fl (-3) 0); (fl (-1) 2); (fl (-1) 2); (fl 5 0); (fl 1 1); (fl (-1) 2); (fl 1 2); (fl 5 0)];
    [(fl (-1) 0); (fl (-5) 0); (fl 5 0); (fl 0 0); (fl 3 0); (fl 1 1); (fl (-1) 2); (fl (-1) 0)];
    [(fl 5 0); (fl 1 0); (fl 1 1); (fl 3 0); (fl (-5) 0); (fl 3 0); (fl (-1) 2); (fl 5 0)];
    [(fl 5 0); (fl (-3) 0); (fl (-1) 2); (fl 1 1); (fl 3 0); (fl 0 0); (fl 0 0); (fl (-5) 0)];
    [(fl (-5) 0); (fl (-1) 2); (fl 1 2); (fl (-1) 2); (fl (-1) 2); (fl 0 0); (fl (-1) 0); (fl (-5) 0)];
    [(fl 5 0); (fl (-1) 2); (fl 5 0); (fl (-1) 0); (fl 5 0); (fl (-5) 0); (fl (-5) 0); (fl (-1) 1)]];
   [[(fl (-1) 1); (fl 3 0); (fl (-5) 0); (fl 5 0); (fl (-3) 0); (fl (-1) 2); (fl (-1) 0); (fl 1 1); (fl (-1) 2)];
    [(fl 3 0); (fl 3 0); (fl (-3) 0); (fl 3 0); (fl 1 0); (fl (-1) 1); (fl (-3) 0); (fl 1 1); (fl (-1) 0)];
    [(fl (-5) 0); (fl (-3) 0); (fl (-5) 0); (fl (-3) 0); (fl (-1) 0); (fl (-1) 1); (fl 3 0); (fl (-5) 0); (fl (-1) 1)];
    [(fl 5 0); (fl 3 0); (fl (-3) 0); (fl (-1) 0); (fl (-1) 2); (fl (-1) 1); (fl 1 0); (fl (-3) 0); (fl 0 0)];
    [(fl (-3) 0); (fl 1 0); (fl (-1) 0); (fl (-1) 2); (fl 1 0); (fl (-1) 1); (fl (-3) 0); (fl (-1) 1); (fl 1 2)];
    [(fl (-1) 2); (fl (-1) 1); (fl (-1) 1); (fl (-1) 1); (fl (-1) 1); (fl (-1) 2); (fl 5 0); (fl 5 0); (fl (-1) 0)];
    [(fl (-1) 0); (fl (-3) 0); (fl 3 0); (fl 1 0); (fl (-3) 0); (fl 5 0); (fl (-1) 2); (fl (-1) 0); (fl (-3) 0)];
    [(fl 1 1); (fl 1 1); (fl (-5) 0); (fl (-3) 0); (fl (-1) 1); (fl 5 0); (fl (-1) 0); (fl 1 0); (fl 5 0)];
    [(fl (-1) 2); (fl (-1) 0); (fl (-1) 1); (fl 0 0); (fl 1 2); (fl (-1) 0); (fl (-3) 0); (fl 5 0); (fl (-1) 2)]];
   [[(fl (-5) 0); (fl (-1) 0); (fl 1 0); (fl 1 0); (fl 1 2); (fl (-1) 2); (fl (-1) 0); (fl (-1) 1); (fl 1 1); (fl (-1) 0)];
    [(fl (-1) 0); (fl (-5) 0); (fl 0 0); (fl 1 1); (fl 1 1); (fl 3 0); (fl (-1) 0); (fl 1 2); (fl (-5) 0); (fl (-5) 0)];
    [(fl 1 0); (fl 0 0); (fl (-1) 0); (fl (-1) 2); (fl (-1) 1); (fl 1 2); (fl 1 2); (fl 1 0); (fl 5 0); (fl 1 1)];
    [(fl 1 0); (fl 1 1); (fl (-1) 2); (fl (-1) 2); (fl (-5) 0); (fl 0 0); (fl (-1) 2); (fl 1 2); (fl (-3) 0); (fl (-1) 2)];
    [(fl 1 2); (fl 1 1); (fl (-1) 1); (fl (-5) 0); (fl 3 0); (fl (-5) 0); (fl (-5) 0); (fl (-1) 2); (fl 1 2); (fl 1 2)];
    [(fl (-1) 2); (fl 3 0); (fl 1 2); (fl 0 0); (fl (-5) 0); (fl (-3) 0); (fl (-5) 0); (fl 1 2); (fl 1 0); (fl 1 1)];
    [(fl (-1) 0); (fl (-1) 0); (fl 1 2); (fl (-1) 2); (fl (-5) 0); (fl (-5) 0); (fl (-1) 1); (fl 0 0); (fl 3 0); (fl 0 0)];
    [(fl (-1) 1); (fl 1 2); (fl 1 0); (fl 1 2); (fl (-1) 2); (fl 1 2); (fl 0 0); (fl (-1) 0); (fl 1 0); (fl (-1) 1)];
    [(fl 1 1); (fl (-5) 0); (fl 5 0); (fl (-3) 0); (fl 1 2); (fl 1 0); (fl 3 0); (fl 1 0); (fl 1 0); (fl (-1) 1)];
    [(fl (-1) 0); (fl (-5) 0); (fl 1 1); (fl (-1) 2); (fl 1 2); (fl 1 1); (fl 0 0); (fl (-1) 1); (fl (-1) 1); (fl (-1) 0)]];
   [[(fl 1 1); (fl 0 0); (fl (-1) 1); (fl 0 0); (fl (-5) 0); (fl (-3) 0); (fl 0 0); (fl 1 1); (fl 5 0); (fl 1 1); (fl 5 0)];
    [(fl 0 0); (fl 1 0); (fl 1 2); (fl (-3) 0); (fl (-1) 2); (fl (-1) 0); (fl 3 0); (fl (-1) 1); (fl (-1) 0); (fl 5 0); (fl 5 0)];
    [(fl (-1) 1); (fl 1 2); (fl (-5) 0); (fl (-1) 2); (fl 1 1); (fl (-5) 0); (fl (-3) 0); (fl 1 0); (fl 1 2); (fl (-1) 1); (fl 5 0)];
    [(fl 0 0); (fl (-3) 0); (fl (-1) 2); (fl 0 0); (fl (-1) 1); (fl (-3) 0); (fl (-5) 0); (fl 1 0); (fl (-1) 2); (fl 1 1); (fl 3 0)];
    [(fl (-5) 0); (fl (-1) 2); (fl 1 1); (fl (-1) 1); (fl 3 0); (fl 5 0); (fl (-1) 1); (fl 3 0); (fl 5 0); (fl (-3) 0); (fl (-1) 2)];
    [(fl (-3) 0); (fl (-1) 0); (fl (-5) 0); (fl (-3) 0); (fl 5 0); (fl 0 0); (fl 1 0); (fl (-1) 0); (fl 1 1); (fl 0 0); (fl (-1) 0)];
    [(fl 0 0); (fl 3 0); (fl (-3) 0); (fl (-5) 0); (fl (-1) 1); (fl 1 0); (fl 3 0); (fl 3 0); (fl (-1) 0); (fl 0 0); (fl 5 0)];
    [(fl 1 1); (fl (-1) 1); (fl 1 0); (fl 1 0); (fl 3 0); (fl (-1) 0); (fl 3 0); (fl 1 2); (fl 0 0); (fl 5 0); (fl (-5) 0)];
    [(fl 5 0); (fl (-1) 0); (fl 1 2); (fl (-1) 2); (fl 5 0); (fl 1 1); (fl (-1) 0); (fl 0 0); (fl (-3) 0); (fl 3 0); (fl 3 0)];
    [(fl 1 1); (fl 5 0); (fl (-1) 1); (fl 1 1); (fl (-3) 0); (fl 0 0); (fl 0 0); (fl 5 0); (fl 3 0); (fl (-3) 0); (fl (-1) 1)];
    [(fl 5 0); (fl 5 0); (fl 5 0); (fl 3 0); (fl (-1) 2); (fl (-1) 0); (fl 5 0); (fl (-5) 0); (fl 3 0); (fl (-1) 1); (fl 0 0)]];
   [[(fl 1 0); (fl (-1) 1); (fl 3 0); (fl 5 0); (fl (-1) 0); (fl (-3) 0); (fl (-1) 2); (fl (-1) 2); (fl 3 0); (fl (-3) 0); (fl (-1) 0); (fl (-1) 1)];
    [(fl (-1) 1); (fl 3 0); (fl (-1) 0); (fl (-3) 0); (fl (-5) 0); (fl 0 0); (fl (-3) 0); (fl 1 1); (fl 5 0); (fl 1 1); (fl (-1) 2); (fl (-1) 1)];
    [(fl 3 0); (fl (-1) 0); (fl 1 1); (fl (-3) 0); (fl 1 2); (fl (-1) 0); (fl (-1) 0); (fl (-5) 0); (fl (-1) 2); (fl 1 1); (fl (-1) 1); (fl (-1) 0)];
    [(fl 5 0); (fl (-3) 0); (fl (-3) 0); (fl (-3) 0); (fl 5 0); (fl (-1) 1); (fl (-1) 0); (fl 3 0); (fl 5 0); (fl 5 0); (fl 1 1); (fl (-1) 1)];
    [(fl (-1) 0); (fl (-5) 0); (fl 1 2); (fl 5 0); (fl (-1) 2); (fl 5 0); (fl (-1) 2); (fl (-5) 0); (fl (-3) 0); (fl 3 0); (fl 1 0); (fl 3 0)];
    [(fl (-3) 0); (fl 0 0); (fl (-1) 0); (fl (-1) 1); (fl 5 0); (fl 0 0); (fl (-3) 0); (fl 1 1); (fl (-1) 0); (fl 1 1); (fl 1 1); (fl (-1) 0)];
    [(fl (-1) 2); (fl (-3) 0); (fl (-1) 0); (fl (-1) 0); (fl (-1) 2); (fl (-3) 0); (fl (-1) 0); (fl 1 1); (fl 3 0); (fl (-3) 0); (fl (-1) 2); (fl 1 0)];
    [(fl (-1) 2); (fl 1 1); (fl (-5) 0); (fl 3 0); (fl (-5) 0); (fl 1 1); (fl 1 1); (fl 1 0); (fl 3 0); (fl (-3) 0); (fl (-1) 0); (fl 1 1)];
    [(fl 3 0); (fl 5 0); (fl (-1) 2); (fl 5 0); (fl (-3) 0); (fl (-1) 0); (fl 3 0); (fl 3 0); (fl 1 0); (fl (-1) 1); (fl 5 0); (fl (-1) 2)];
    [(fl (-3) 0); (fl 1 1); (fl 1 1); (fl 5 0); (fl 3 0); (fl 1 1); (fl (-3) 0); (fl (-3) 0); (fl (-1) 1); (fl (-1) 1); (fl 3 0); (fl 0 0)];
    [(fl (-1) 0); (fl (-1) 2); (fl (-1) 1); (fl 1 1); (fl 1 0); (fl 1 1); (fl (-1) 2); (fl (-1) 0); (fl 5 0); (fl 3 0); (fl (-1) 2); (fl 3 0)];
    [(fl (-1) 1); (fl (-1) 1); (fl (-1) 0); (fl (-1) 1); (fl 3 0); (fl (-1) 0); (fl 1 0); (fl 1 1); (fl (-1) 2); (fl 0 0); (fl 3 0); (fl (-1) 1)]]
].
(* dimensions: 1, 2, 3, 4, 5, 6, 7, 8, 9, 10, 11, 12 *)
Definition fam_repeated : list mtx := [
   [[(fl 1 1); (fl 0 0); (fl 0 0)];
    [(fl 0 0); (fl 1 1); (fl 0 0)];
    [(fl 0 0); (fl 0 0); (fl 1 1)]];
   [[(fl (-3) (-2)); (fl 0 0); (fl 0 0); (fl 0 0); (fl 0 0); (fl 0 0); (fl 0 0)];
    [(fl 0 0); (fl (-3) (-2)); (fl 0 0); (fl 0 0); (fl 0 0); (fl 0 0); (fl 0 0)];
    [(fl 0 0); (fl 0 0); (fl (-3) (-2)); (fl 0 0); (fl 0 0); (fl 0 0); (fl 0 0)];
    [(fl 0 0); (fl 0 0); (fl 0 0); (fl (-3) (-2)); (fl 0 0); (fl 0 0); (fl 0 0)];
    [(fl 0 0); (fl 0 0); (fl 0 0); (fl 0 0); (fl (-3) (-2)); (fl 0 0); (fl 0 0)];
    [(fl 0 0); (fl 0 0); (fl 0 0); (fl 0 0); (fl 0 0); (fl (-3) (-2)); (fl 0 0)];
    [(fl 0 0); (fl 0 0); (fl 0 0); (fl 0 0); (fl 0 0); (fl 0 0); (fl (-3) (-2))]];
   [[(fl 1 0); (fl 1 0)];
    [(fl 1 0); (fl 1 0)]];
   [[(fl 1 0); (fl 1 0); (fl 1 0)];
    [(fl 1 0); (fl 1 0); (fl 1 0)];
    [(fl 1 0); (fl 1 0); (fl 1 0)]];
   [[(fl 1 0); (fl 1 0); (fl 1 0); (fl 1 0); (fl 1 0); (fl 1 0)];
    [(fl 1 0); (fl 1 0); (fl 1 0); (fl 1 0); (fl 1 0); (fl 1 0)];
    [(fl 1 0); (fl 1 0); (fl 1 0); (fl 1 0); (fl 1 0); (fl 1 0)];
    [(fl 1 0); (fl 1 0); (fl 1 0); (fl 1 0); (fl 1 0); (fl 1 0)];
    [(fl 1 0); (fl 1 0); (fl 1 0); (fl 1 0); (fl 1 0); (fl 1 0)];
    [(fl 1 0); (fl 1 0); (fl 1 0); (fl 1 0); (fl 1 0); (fl 1 0)]];
   [[(fl 1 0); (fl 1 0); (fl 1 0); (fl 1 0); (fl 1 0); (fl 1 0); (fl 1 0); (fl 1 0); (fl 1 0); (fl 1 0)];
    [(fl 1 0); (fl 1 0); (fl 1 0); (fl 1 0); (fl 1 0); (fl 1 0); (fl 1 0); (fl 1 0); (fl 1 0); (fl 1 0)];
    [(fl 1 0); (fl 1 0); (fl 1 0); (fl 1 0); (fl 1 0); (fl 1 0); (fl 1 0); (fl 1 0); (fl 1 0); (fl 1 0)];
    [(fl 1 0); (fl 1 0); (fl 1 0); (fl 1 0); (fl 1 0); (fl 1 0); (fl 1 0); (fl 1 0); (fl 1 0); (fl 1 0)];
    [(fl 1 0); (fl 1 0); (fl 1 0); (fl 1 0); (fl 1 0); (fl 1 0); (fl 1 0); (fl 1 0); (fl 1 0); (fl 1 0)];
    [(fl 1 0); (fl 1 0); (fl 1 0); (fl 1 0); (fl 1 0); (fl 1 0); (fl 1 0); (fl 1 0); (fl 1 0); (fl 1 0)];
    [(fl 1 0); (fl 1 0); (fl 1 0); (fl 1 0); (fl 1 0); (fl 1 0); (fl 1 0); (fl 1 0); (fl 1 0); (fl 1 0)];
    [(fl 1 0); (fl 1 0); (fl 1 0); (fl 1 0); (fl 1 0); (fl 1 0); (fl 1 0); (fl 1 0); (fl 1 0); (fl 1 0)];
    [(fl 1 0); (fl 1 0); (fl 1 0); (fl 1 0); (fl 1 0); (fl 1 0); (fl 1 0); (fl 1 0); (fl 1 0); (fl 1 0)];
    [(fl 1 0); (fl 1 0); (fl 1 0); (fl 1 0); (fl 1 0); (fl 1 0); (fl 1 0); (fl 1 0); (fl 1 0); (fl 1 0)]];
   [[(fl 1 1); (fl 1 0); (fl 0 0); (fl 0 0)];
    [(fl 1 0); (fl 1 1); (fl 0 0); (fl 0 0)];
    [(fl 0 0); (fl 0 0); (fl 1 1); (fl (-1) 0)];
    [(fl 0 0); (fl 0 0); (fl (-1) 0); (fl 1 1)]];
   [[(fl 29 (-4)); (fl (-3) (-4)); (fl (-3) (-4)); (fl (-15) (-4)); (fl (-15) (-4)); (fl 9 (-4)); (fl 9 (-4)); (fl 9 (-4))];
    [(fl (-3) (-4)); (fl 29 (-4)); (fl (-3) (-4)); (fl (-15) (-4)); (fl (-15) (-4)); (fl 9 (-4)); (fl 9 (-4)); (fl 9 (-4))];
    [(fl (-3) (-4)); (fl (-3) (-4)); (fl 29 (-4)); (fl (-15) (-4)); (fl (-15) (-4)); (fl 9 (-4)); (fl 9 (-4)); (fl 9 (-4))];
    [(fl (-15) (-4)); (fl (-15) (-4)); (fl (-15) (-4)); (fl 53 (-4)); (fl (-27) (-4)); (fl (-3) (-4)); (fl (-3) (-4)); (fl (-3) (-4))];
    [(fl (-15) (-4)); (fl (-15) (-4)); (fl (-15) (-4)); (fl (-27) (-4)); (fl 53 (-4)); (fl (-3) (-4)); (fl (-3) (-4)); (fl (-3) (-4))];
    [(fl 9 (-4)); (fl 9 (-4)); (fl 9 (-4)); (fl (-3) (-4)); (fl (-3) (-4)); (fl 5 (-4)); (fl 21 (-4)); (fl 21 (-4))];
    [(fl 9 (-4)); (fl 9 (-4)); (fl 9 (-4)); (fl (-3) (-4)); (fl (-3) (-4)); (fl 21 (-4)); (fl 5 (-4)); (fl 21 (-4))];
    [(fl 9 (-4)); (fl 9 (-4)); (fl 9 (-4)); (fl (-3) (-4)); (fl (-3) (-4)); (fl 21 (-4)); (fl 21 (-4)); (fl 5 (-4))]];
   [[(fl 15 (-3)); (fl 7 (-3)); (fl 7 (-4)); (fl 7 (-4)); (fl (-5) (-4)); (fl (-5) (-4)); (fl (-5) (-4)); (fl (-5) (-4)); (fl (-5) (-4)); (fl 11 (-4)); (fl 0 0); (fl 0 0)];
    [(fl 7 (-3)); (fl 15 (-3)); (fl 7 (-4)); (fl 7 (-4)); (fl (-5) (-4)); (fl (-5) (-4)); (fl (-5) (-4)); (fl (-5) (-4)); (fl (-5) (-4)); (fl 11 (-4)); (fl 0 0); (fl 0 0)];
    [(fl 7 (-4)); (fl 7 (-4)); (fl 39 (-5)); (fl 7 (-5)); (fl (-5) (-5)); (fl (-5) (-5)); (fl (-5) (-5)); (fl (-5) (-5)); (fl (-5) (-5)); (fl 11 (-5)); (fl 0 0); (fl 0 0)];
    [(fl 7 (-4)); (fl 7 (-4)); (fl 7 (-5)); (fl 39 (-5)); (fl (-5) (-5)); (fl (-5) (-5)); (fl (-5) (-5)); (fl (-5) (-5)); (fl (-5) (-5)); (fl 11 (-5)); (fl 0 0); (fl 0 0)];
    [(fl (-5) (-4)); (fl (-5) (-4)); (fl (-5) (-5)); (fl (-5) (-5)); (fl 111 (-5)); (fl (-17) (-5)); (fl (-17) (-5)); (fl (-17) (-5)); (fl (-17) (-5)); (fl (-1) (-5)); (fl 0 0); (fl 0 0)];
    [(fl (-5) (-4)); (fl (-5) (-4)); (fl (-5) (-5)); (fl (-5) (-5)); (fl (-17) (-5)); (fl 111 (-5)); (fl (-17) (-5)); (fl (-17) (-5)); (fl (-17) (-5)); (fl (-1) (-5)); (fl 0 0); (fl 0 0)];
    [(fl (-5) (-4)); (fl (-5) (-4)); (fl (-5) (-5)); (fl (-5) (-5)); (fl (-17) (-5)); (fl (-17) (-5)); (fl 111 (-5)); (fl (-17) (-5)); (fl (-17) (-5)); (fl (-1) (-5)); (fl 0 0); (fl 0 0)];
    [(fl (-5) (-4)); (fl (-5) (-4)); (fl (-5) (-5)); (fl (-5) (-5)); (fl (-17) (-5)); (fl (-17) (-5)); (fl (-17) (-5)); (fl 111 (-5)); (fl (-17) (-5)); (fl (-1) (-5)); (fl 0 0); (fl 0 0)];
    [(fl (-5) (-4)); (fl (-5) (-4)); (fl (-5) (-5)); (fl (-5) (-5)); (fl (-17) (-5)); (fl (-17) (-5)); (fl (-17) (-5)); (fl (-17) (-5)); (fl 111 (-5)); (fl (-1) (-5)); (fl 0 0); (fl 0 0)];
    [(fl 11 (-4)); (fl 11 (-4)); (fl 11 (-5)); (fl 11 (-5)); (fl (-1) (-5)); (fl (-1) (-5)); (fl (-1) (-5)); (fl (-1) (-5)); (fl (-1) (-5)); (fl 15 (-5)); (fl 0 0); (fl 0 0)];
    [(fl 0 0); (fl 0 0); (fl 0 0); (fl 0 0); (fl 0 0); (fl 0 0); (fl 0 0); (fl 0 0); (fl 0 0); (fl 0 0); (fl 0 0); (fl 0 0)];
    [(fl 0 0); (fl 0 0); (fl 0 0); (fl 0 0); (fl 0 0); (fl 0 0); (fl 0 0); (fl 0 0); (fl 0 0); (fl 0 0); (fl 0 0); (fl 9 0)]];
   [[(fl 7 (-2)); (fl (-7) (-2)); (fl 7 (-2)); (fl 7 (-2))];
    [(fl (-7) (-2)); (fl 7 (-2)); (fl (-7) (-2)); (fl (-7) (-2))];
    [(fl 7 (-2)); (fl (-7) (-2)); (fl 7 (-2)); (fl 7 (-2))];
    [(fl 7 (-2)); (fl (-7) (-2)); (fl 7 (-2)); (fl 7 (-2))]]
].
(* dimensions: 3, 7, 2, 3, 6, 10, 4, 8, 12, 4 *)
Definition fam_near_singular : list mtx := [
   [[(fl 1 0); (fl 1 0)];
    [(fl 1 0); (fl 1099511627777 (-40))]];
   [[(fl 1 (-60))]];
   [[(fl 6442450945 (-32)); (fl 4294967295 (-32)); (fl 1 (-32)); (fl (-2147483647) (-32))];
    [(fl 4294967295 (-32)); (fl 6442450945 (-32)); (fl 2147483647 (-32)); (fl (-1) (-32))];
    [(fl 1 (-32)); (fl 2147483647 (-32)); (fl 6442450945 (-32)); (fl (-4294967295) (-32))];
    [(fl (-2147483647) (-32)); (fl (-1) (-32)); (fl (-4294967295) (-32)); (fl 6442450945 (-32))]];
   [[(fl 1266637395197953 (-49)); (fl 562949953421313 (-49)); (fl 422212465065985 (-49)); (fl 281474976710657 (-49)); (fl 140737488355329 (-49)); (fl 1 (-49)); (fl (-140737488355327) (-49)); (fl 844424930131965 (-49))];
    [(fl 562949953421313 (-49)); (fl 1548112371908609 (-49)); (fl 281474976710657 (-49)); (fl 140737488355329 (-49)); (fl 1 (-49)); (fl (-140737488355327) (-49)); (fl (-281474976710655) (-49)); (fl 703687441776637 (-49))];
    [(fl 422212465065985 (-49)); (fl 281474976710657 (-49)); (fl 1829587348619265 (-49)); (fl 1 (-49)); (fl (-140737488355327) (-49)); (fl (-281474976710655) (-49)); (fl (-422212465065983) (-49)); (fl 562949953421309 (-49))];
    [(fl 281474976710657 (-49)); (fl 140737488355329 (-49)); (fl 1 (-49)); (fl 2111062325329921 (-49)); (fl (-281474976710655) (-49)); (fl (-422212465065983) (-49)); (fl (-562949953421311) (-49)); (fl 422212465065981 (-49))];
    [(fl 140737488355329 (-49)); (fl 1 (-49)); (fl (-140737488355327) (-49)); (fl (-281474976710655) (-49)); (fl 2392537302040577 (-49)); (fl (-562949953421311) (-49)); (fl (-703687441776639) (-49)); (fl 281474976710653 (-49))];
    [(fl 1 (-49)); (fl (-140737488355327) (-49)); (fl (-281474976710655) (-49)); (fl (-422212465065983) (-49)); (fl (-562949953421311) (-49)); (fl 2674012278751233 (-49)); (fl (-844424930131967) (-49)); (fl 140737488355325 (-49))];
    [(fl (-140737488355327) (-49)); (fl (-281474976710655) (-49)); (fl (-422212465065983) (-49)); (fl (-562949953421311) (-49)); (fl (-703687441776639) (-49)); (fl (-844424930131967) (-49)); (fl 2955487255461889 (-49)); (fl (-3) (-49))];
    [(fl 844424930131965 (-49)); (fl 703687441776637 (-49)); (fl 562949953421309 (-49)); (fl 422212465065981 (-49)); (fl 281474976710653 (-49)); (fl 140737488355325 (-49)); (fl (-3) (-49)); (fl 985162418487305 (-49))]];
   [[(fl 1 2); (fl 5 (-1)); (fl 1 0); (fl 3 (-2)); (fl 1 (-1)); (fl 1 (-2)); (fl 0 0); (fl (-1) (-2)); (fl (-1) (-1)); (fl (-3) (-2)); (fl 0 0); (fl 0 0)];
    [(fl 5 (-1)); (fl 1 2); (fl 3 (-2)); (fl 1 (-1)); (fl 1 (-2)); (fl 0 0); (fl (-1) (-2)); (fl (-1) (-1)); (fl (-3) (-2)); (fl (-1) 0); (fl 0 0); (fl 0 0)];
    [(fl 1 0); (fl 3 (-2)); (fl 13 (-2)); (fl 1 (-3)); (fl 0 0); (fl (-1) (-3)); (fl (-1) (-2)); (fl (-3) (-3)); (fl (-1) (-1)); (fl (-5) (-3)); (fl 0 0); (fl 0 0)];
    [(fl 3 (-2)); (fl 1 (-1)); (fl 1 (-3)); (fl 1 2); (fl (-1) (-3)); (fl (-1) (-2)); (fl (-3) (-3)); (fl (-1) (-1)); (fl (-5) (-3)); (fl (-3) (-2)); (fl 0 0); (fl 0 0)];
    [(fl 1 (-1)); (fl 1 (-2)); (fl 0 0); (fl (-1) (-3)); (fl 19 (-2)); (fl (-3) (-3)); (fl (-1) (-1)); (fl (-5) (-3)); (fl (-3) (-2)); (fl (-7) (-3)); (fl 0 0); (fl 0 0)];
    [(fl 1 (-2)); (fl 0 0); (fl (-1) (-3)); (fl (-1) (-2)); (fl (-3) (-3)); (fl 11 (-1)); (fl (-5) (-3)); (fl (-3) (-2)); (fl (-7) (-3)); (fl (-1) 0); (fl 0 0); (fl 0 0)];
    [(fl 0 0); (fl (-1) (-2)); (fl (-1) (-2)); (fl (-3) (-3)); (fl (-1) (-1)); (fl (-5) (-3)); (fl 25 (-2)); (fl (-7) (-3)); (fl (-1) 0); (fl (-9) (-3)); (fl 0 0); (fl 0 0)];
    [(fl (-1) (-2)); (fl (-1) (-1)); (fl (-3) (-3)); (fl (-1) (-1)); (fl (-5) (-3)); (fl (-3) (-2)); (fl (-7) (-3)); (fl 7 0); (fl (-9) (-3)); (fl (-5) (-2)); (fl 0 0); (fl 0 0)];
    [(fl (-1) (-1)); (fl (-3) (-2)); (fl (-1) (-1)); (fl (-5) (-3)); (fl (-3) (-2)); (fl (-7) (-3)); (fl (-1) 0); (fl (-9) (-3)); (fl 31 (-2)); (fl (-11) (-3)); (fl 0 0); (fl 0 0)];
    [(fl (-3) (-2)); (fl (-1) 0); (fl (-5) (-3)); (fl (-3) (-2)); (fl (-7) (-3)); (fl (-1) 0); (fl (-9) (-3)); (fl (-5) (-2)); (fl (-11) (-3)); (fl 17 (-1)); (fl 0 0); (fl 0 0)];
    [(fl 0 0); (fl 0 0); (fl 0 0); (fl 0 0); (fl 0 0); (fl 0 0); (fl 0 0); (fl 0 0); (fl 0 0); (fl 0 0); (fl 1 (-35)); (fl 0 0)];
    [(fl 0 0); (fl 0 0); (fl 0 0); (fl 0 0); (fl 0 0); (fl 0 0); (fl 0 0); (fl 0 0); (fl 0 0); (fl 0 0); (fl 0 0); (fl (-1) (-38))]];
   [[(fl 1 2); (fl 1 1); (fl 3 1)];
    [(fl 1 1); (fl 17592186044417 (-44)); (fl 3 0)];
    [(fl 3 1); (fl 3 0); (fl 9 0)]];
   [[(fl 68719476737 (-36)); (fl 1 1); (fl 3 0); (fl 1 2); (fl 5 0)];
    [(fl 1 1); (fl 274877906945 (-36)); (fl 3 1); (fl 1 3); (fl 5 1)];
    [(fl 3 0); (fl 3 1); (fl 618475290625 (-36)); (fl 3 2); (fl 15 0)];
    [(fl 1 2); (fl 1 3); (fl 3 2); (fl 1099511627777 (-36)); (fl 5 2)];
    [(fl 5 0); (fl 5 1); (fl 15 0); (fl 5 2); (fl 1717986918401 (-36))]]
].
(* dimensions: 2, 1, 4, 8, 12, 3, 5 *)
Definition fam_dyadic : list mtx := [
   [[(fl (-17) (-5))]];
   [[(fl 31 (-5)); (fl 21 (-6))];
    [(fl 21 (-6)); (fl (-51) (-6))]];
   [[(fl (-123) (-6)); (fl 43 (-6)); (fl (-53) (-6))];
    [(fl 43 (-6)); (fl 65 (-6)); (fl 17 (-6))];
    [(fl (-53) (-6)); (fl 17 (-6)); (fl (-63) (-6))]];
   [[(fl (-95) (-6)); (fl (-37) (-6)); (fl (-69) (-6)); (fl (-83) (-6))];
    [(fl (-37) (-6)); (fl (-55) (-5)); (fl 15 (-6)); (fl (-15) (-5))];
    [(fl (-69) (-6)); (fl 15 (-6)); (fl 85 (-6)); (fl 49 (-5))];
    [(fl (-83) (-6)); (fl (-15) (-5)); (fl 49 (-5)); (fl 99 (-6))]];
   [[(fl 5 (-2)); (fl (-53) (-5)); (fl (-5) (-3)); (fl 3 (-3)); (fl (-9) (-6))];
    [(fl (-53) (-5)); (fl (-39) (-6)); (fl (-5) (-2)); (fl (-47) (-6)); (fl (-17) (-4))];
    [(fl (-5) (-3)); (fl (-5) (-2)); (fl 63 (-5)); (fl (-1) (-4)); (fl (-5) (-2))];
    [(fl 3 (-3)); (fl (-47) (-6)); (fl (-1) (-4)); (fl 3 (-4)); (fl 25 (-4))];
    [(fl (-9) (-6)); (fl (-17) (-4)); (fl (-5) (-2)); (fl 25 (-4)); (fl 93 (-6))]];
   [[(fl 43 (-6)); (fl (-7) (-6)); (fl (-25) (-4)); (fl (-29) (-4)); (fl 55 (-6)); (fl 29 (-5))];
    [(fl (-7) (-6)); (fl (-43) (-6)); (fl 103 (-6)); (fl 9 (-5)); (fl 3 (-5)); (fl (-121) (-6))];
    [(fl (-25) (-4)); (fl 103 (-6)); (fl (-83) (-6)); (fl (-113) (-6)); (fl 29 (-6)); (fl (-97) (-6))];
    [(fl (-29) (-4)); (fl 9 (-5)); (fl (-113) (-6)); (fl 1 (-5)); (fl 77 (-6)); (fl (-37) (-6))];
    [(fl 55 (-6)); (fl 3 (-5)); (fl 29 (-6)); (fl 77 (-6)); (fl (-3) (-1)); (fl (-3) (-2))];
    [(fl 29 (-5)); (fl (-121) (-6)); (fl (-97) (-6)); (fl (-37) (-6)); (fl (-3) (-2)); (fl (-11) (-6))]];
   [[(fl (-23) (-4)); (fl 97 (-6)); (fl (-107) (-6)); (fl 71 (-6)); (fl 109 (-6)); (fl (-1) (-1)); (fl (-25) (-6))];
    [(fl 97 (-6)); (fl 87 (-6)); (fl (-1) 1); (fl 27 (-4)); (fl 23 (-6)); (fl (-13) (-4)); (fl (-9) (-4))];
    [(fl (-107) (-6)); (fl (-1) 1); (fl (-17) (-6)); (fl (-81) (-6)); (fl 5 (-3)); (fl (-17) (-4)); (fl (-13) (-6))];
    [(fl 71 (-6)); (fl 27 (-4)); (fl (-81) (-6)); (fl 9 (-5)); (fl (-75) (-6)); (fl (-111) (-6)); (fl 21 (-6))];
    [(fl 109 (-6)); (fl 23 (-6)); (fl 5 (-3)); (fl (-75) (-6)); (fl 25 (-4)); (fl 13 (-4)); (fl (-1) 1)];
    [(fl (-1) (-1)); (fl (-13) (-4)); (fl (-17) (-4)); (fl (-111) (-6)); (fl 13 (-4)); (fl (-33) (-6)); (fl (-65) (-6))];
    [(fl (-25) (-6)); (fl (-9) (-4)); (fl (-13) (-6)); (fl 21 (-6)); (fl (-1) 1); (fl (-65) (-6)); (fl (-51) (-5))]];
   [[(fl (-7) (-5)); (fl 45 (-5)); (fl 13 (-6)); (fl 35 (-6)); (fl 115 (-6)); (fl (-1) 0); (fl 55 (-5)); (fl 13 (-4)); (fl 35 (-6))];
    [(fl 45 (-5)); (fl 65 (-6)); (fl 23 (-5)); (fl (-101) (-6)); (fl (-19) (-5)); (fl (-53) (-6)); (fl (-3) (-3)); (fl 29 (-6)); (fl 9 (-5))];
    [(fl 13 (-6)); (fl 23 (-5)); (fl (-61) (-6)); (fl (-123) (-6)); (fl (-53) (-6)); (fl 21 (-6)); (fl (-85) (-6)); (fl 29 (-5)); (fl 7 (-2))];
    [(fl 35 (-6)); (fl (-101) (-6)); (fl (-123) (-6)); (fl (-81) (-6)); (fl (-21) (-6)); (fl (-77) (-6)); (fl (-17) (-4)); (fl (-117) (-6)); (fl 13 (-3))];
    [(fl 115 (-6)); (fl (-19) (-5)); (fl (-53) (-6)); (fl (-21) (-6)); (fl 25 (-5)); (fl (-41) (-6)); (fl (-49) (-6)); (fl 5 (-6)); (fl 31 (-6))];
    [(fl (-1) 0); (fl (-53) (-6)); (fl 21 (-6)); (fl (-77) (-6)); (fl (-41) (-6)); (fl 27 (-6)); (fl (-115) (-6)); (fl (-115) (-6)); (fl (-51) (-5))];
    [(fl 55 (-5)); (fl (-3) (-3)); (fl (-85) (-6)); (fl (-17) (-4)); (fl (-49) (-6)); (fl (-115) (-6)); (fl (-49) (-6)); (fl 25 (-4)); (fl (-29) (-4))];
    [(fl 13 (-4)); (fl 29 (-6)); (fl 29 (-5)); (fl (-117) (-6)); (fl 5 (-6)); (fl (-115) (-6)); (fl 25 (-4)); (fl (-1) 1); (fl (-111) (-6))];
    [(fl 35 (-6)); (fl 9 (-5)); (fl 7 (-2)); (fl 13 (-3)); (fl 31 (-6)); (fl (-51) (-5)); (fl (-29) (-4)); (fl (-111) (-6)); (fl (-85) (-6))]];
   [[(fl (-59) (-5)); (fl 29 (-6)); (fl 15 (-6)); (fl (-85) (-6)); (fl 73 (-6)); (fl (-63) (-5)); (fl 21 (-5)); (fl (-1) (-6)); (fl 51 (-5)); (fl (-9) (-5)); (fl 3 (-1))];
    [(fl 29 (-6)); (fl 87 (-6)); (fl 107 (-6)); (fl 91 (-6)); (fl (-15) (-3)); (fl 33 (-6)); (fl (-115) (-6)); (fl 25 (-5)); (fl 27 (-4)); (fl (-3) (-6)); (fl 31 (-4))];
    [(fl 15 (-6)); (fl 107 (-6)); (fl 15 (-6)); (fl (-23) (-4)); (fl 1 (-4)); (fl (-19) (-4)); (fl (-61) (-5)); (fl 31 (-5)); (fl 127 (-6)); (fl (-13) (-5)); (fl (-1) 1)];
    [(fl (-85) (-6)); (fl 91 (-6)); (fl (-23) (-4)); (fl (-29) (-4)); (fl (-121) (-6)); (fl 125 (-6)); (fl (-17) (-4)); (fl (-93) (-6)); (fl (-53) (-5)); (fl (-3) (-5)); (fl 25 (-6))];
    [(fl 73 (-6)); (fl (-15) (-3)); (fl 1 (-4)); (fl (-121) (-6)); (fl (-47) (-5)); (fl 23 (-4)); (fl (-111) (-6)); (fl (-17) (-4)); (fl (-27) (-4)); (fl 9 (-5)); (fl (-17) (-4))];
    [(fl (-63) (-5)); (fl 33 (-6)); (fl (-19) (-4)); (fl 125 (-6)); (fl 23 (-4)); (fl (-75) (-6)); (fl (-11) (-6)); (fl (-95) (-6)); (fl 27 (-4)); (fl (-27) (-4)); (fl 7 (-3))];
    [(fl 21 (-5)); (fl (-115) (-6)); (fl (-61) (-5)); (fl (-17) (-4)); (fl (-111) (-6)); (fl (-11) (-6)); (fl 103 (-6)); (fl (-3) (-6)); (fl (-43) (-5)); (fl (-61) (-6)); (fl (-27) (-6))];
    [(fl (-1) (-6)); (fl 25 (-5)); (fl 31 (-5)); (fl (-93) (-6)); (fl (-17) (-4)); (fl (-95) (-6)); (fl (-3) (-6)); (fl 0 0); (fl (-35) (-6)); (fl 49 (-6)); (fl 17 (-6))];
    [(fl 51 (-5)); (fl 27 (-4)); (fl 127 (-6)); (fl (-53) (-5)); (fl (-27) (-4)); (fl 27 (-4)); (fl (-43) (-5)); (fl (-35) (-6)); (fl (-3) (-2)); (fl 105 (-6)); (fl (-53) (-6))];
    [(fl (-9) (-5)); (fl (-3) (-6)); (fl (-13) (-5)); (fl (-3) (-5)); (fl 9 (-5)); (fl (-27) (-4)); (fl (-61) (-6)); (fl 49 (-6)); (fl 105 (-6)); (fl 1 (-1)); (fl (-37) (-6))];
    [(fl 3 (-1)); (fl 31 (-4)); (fl (-1) 1); (fl 25 (-6)); (fl (-17) (-4)); (fl 7 (-3)); (fl (-27) (-6)); (fl 17 (-6)); (fl (-53) (-6)); (fl (-37) (-6)); (fl (-49) (-5))]];
   [[(fl (-9) (-6)); (fl 1 (-5)); (fl (-111) (-6)); (fl (-1) (-1)); (fl 11 (-6)); (fl 17 (-6)); (fl 45 (-5)); (fl 19 (-5)); (fl (-17) (-6)); (fl (-17) (-4)); (fl 7 (-5)); (fl 87 (-6))];
    [(fl 1 (-5)); (fl (-37) (-6)); (fl (-123) (-6)); (fl (-37) (-5)); (fl (-3) (-4)); (fl 41 (-6)); (fl (-95) (-6)); (fl (-13) (-4)); (fl (-13) (-3)); (fl (-15) (-3)); (fl 1 (-1)); (fl 39 (-6))];
    [(fl (-111) (-6)); (fl (-123) (-6)); (fl (-37) (-5)); (fl 115 (-6)); (fl (-49) (-5)); (fl 15 (-5)); (fl (-3) (-3)); (fl 105 (-6)); (fl 119 (-6)); (fl (-15) (-4)); (fl (-17) (-6)); (fl 61 (-6))];
    [(fl (-1) (-1)); (fl (-37) (-5)); (fl 115 (-6)); (fl 53 (-5)); (fl 47 (-5)); (fl (-3) (-6)); (fl (-3) (-3)); (fl 19 (-4)); (fl 3 (-6)); (fl (-91) (-6)); (fl (-3) (-4)); (fl (-87) (-6))];
    [(fl 11 (-6)); (fl (-3) (-4)); (fl (-49) (-5)); (fl 47 (-5)); (fl (-1) (-6)); (fl 25 (-5)); (fl (-17) (-6)); (fl (-95) (-6)); (fl (-127) (-6)); (fl (-7) (-5)); (fl 85 (-6)); (fl (-83) (-6))];
    [(fl 17 (-6)); (fl 41 (-6)); (fl 15 (-5)); (fl (-3) (-6)); (fl 25 (-5)); (fl 123 (-6)); (fl 63 (-5)); (fl (-29) (-4)); (fl (-73) (-6)); (fl 35 (-5)); (fl (-13) (-3)); (fl 37 (-5))];
    [(fl 45 (-5)); (fl (-95) (-6)); (fl (-3) (-3)); (fl (-3) (-3)); (fl (-17) (-6)); (fl 63 (-5)); (fl 111 (-6)); (fl (-55) (-6)); (fl 27 (-4)); (fl (-57) (-5)); (fl 1 (-6)); (fl 57 (-5))];
    [(fl 19 (-5)); (fl (-13) (-4)); (fl 105 (-6)); (fl 19 (-4)); (fl (-95) (-6)); (fl (-29) (-4)); (fl (-55) (-6)); (fl 57 (-5)); (fl (-27) (-4)); (fl 47 (-6)); (fl (-123) (-6)); (fl (-37) (-6))];
    [(fl (-17) (-6)); (fl (-13) (-3)); (fl 119 (-6)); (fl 3 (-6)); (fl (-127) (-6)); (fl (-73) (-6)); (fl 27 (-4)); (fl (-27) (-4)); (fl (-13) (-6)); (fl (-3) (-3)); (fl (-7) (-6)); (fl 9 (-6))];
    [(fl (-17) (-4)); (fl (-15) (-3)); (fl (-15) (-4)); (fl (-91) (-6)); (fl (-7) (-5)); (fl 35 (-5)); (fl (-57) (-5)); (fl 47 (-6)); (fl (-3) (-3)); (fl 3 (-6)); (fl 97 (-6)); (fl (-1) 0)];
    [(fl 7 (-5)); (fl 1 (-1)); (fl (-17) (-6)); (fl (-3) (-4)); (fl 85 (-6)); (fl (-13) (-3)); (fl 1 (-6)); (fl (-123) (-6)); (fl (-7) (-6)); (fl 97 (-6)); (fl 45 (-6)); (fl (-45) (-5))];
    [(fl 87 (-6)); (fl 39 (-6)); (fl 61 (-6)); (fl (-87) (-6)); (fl (-83) (-6)); (fl 37 (-5)); (fl 57 (-5)); (fl (-37) (-6)); (fl 9 (-6)); (fl (-1) 0); (fl (-45) (-5)); (fl (-51) (-6))]];
   [[(fl (-53) (-5)); (fl (-59) (-6)); (fl (-17) (-4)); (fl (-41) (-5)); (fl 121 (-6)); (fl 107 (-6)); (fl (-23) (-4)); (fl 1 1); (fl 11 (-4)); (fl 57 (-5)); (fl (-9) (-5)); (fl (-21) (-4))];
    [(fl (-59) (-6)); (fl (-3) (-4)); (fl (-29) (-4)); (fl 41 (-6)); (fl (-11) (-6)); (fl 1 (-6)); (fl 91 (-6)); (fl (-3) (-6)); (fl (-21) (-5)); (fl 17 (-6)); (fl 67 (-6)); (fl (-59) (-6))];
    [(fl (-17) (-4)); (fl (-29) (-4)); (fl (-5) (-4)); (fl (-3) (-5)); (fl (-29) (-5)); (fl (-3) (-3)); (fl 49 (-5)); (fl 1 (-1)); (fl 43 (-5)); (fl (-19) (-4)); (fl (-17) (-4)); (fl 73 (-6))];
    [(fl (-41) (-5)); (fl 41 (-6)); (fl (-3) (-5)); (fl (-53) (-5)); (fl 73 (-6)); (fl (-103) (-6)); (fl 89 (-6)); (fl (-5) (-2)); (fl 47 (-6)); (fl 39 (-6)); (fl (-11) (-5)); (fl 119 (-6))];
    [(fl 121 (-6)); (fl (-11) (-6)); (fl (-29) (-5)); (fl 73 (-6)); (fl (-73) (-6)); (fl 35 (-6)); (fl 85 (-6)); (fl (-117) (-6)); (fl (-103) (-6)); (fl (-91) (-6)); (fl (-41) (-5)); (fl (-99) (-6))];
    [(fl 107 (-6)); (fl 1 (-6)); (fl (-3) (-3)); (fl (-103) (-6)); (fl 35 (-6)); (fl 73 (-6)); (fl (-65) (-6)); (fl (-1) (-1)); (fl (-5) (-5)); (fl (-11) (-6)); (fl 3 (-1)); (fl 105 (-6))];
    [(fl (-23) (-4)); (fl 91 (-6)); (fl 49 (-5)); (fl 89 (-6)); (fl 85 (-6)); (fl (-65) (-6)); (fl (-15) (-6)); (fl (-63) (-5)); (fl (-51) (-6)); (fl 13 (-3)); (fl 39 (-5)); (fl (-1) (-6))];
    [(fl 1 1); (fl (-3) (-6)); (fl 1 (-1)); (fl (-5) (-2)); (fl (-117) (-6)); (fl (-1) (-1)); (fl (-63) (-5)); (fl (-107) (-6)); (fl 5 (-6)); (fl (-15) (-6)); (fl 59 (-5)); (fl (-81) (-6))];
    [(fl 11 (-4)); (fl (-21) (-5)); (fl 43 (-5)); (fl 47 (-6)); (fl (-103) (-6)); (fl (-5) (-5)); (fl (-51) (-6)); (fl 5 (-6)); (fl 13 (-5)); (fl 9 (-5)); (fl 85 (-6)); (fl 17 (-4))];
    [(fl 57 (-5)); (fl 17 (-6)); (fl (-19) (-4)); (fl 39 (-6)); (fl (-91) (-6)); (fl (-11) (-6)); (fl 13 (-3)); (fl (-15) (-6)); (fl 9 (-5)); (fl (-121) (-6)); (fl (-21) (-6)); (fl 9 (-4))];
    [(fl (-9) (-5)); (fl 67 (-6)); (fl (-17) (-4)); (fl (-11) (-5)); (fl (-41) (-5)); (fl 3 (-1)); (fl 39 (-5)); (fl 59 (-5)); (fl 85 (-6)); (fl (-21) (-6)); (fl (-59) (-6)); (fl (-93) (-6))];
    [(fl (-21) (-4)); (fl (-59) (-6)); (fl 73 (-6)); (fl 119 (-6)); (fl (-99) (-6)); (fl 105 (-6)); (fl (-1) (-6)); (fl (-81) (-6)); (fl 17 (-4)); (fl 9 (-4)); (fl (-93) (-6)); (fl (-43) (-5))]]
].
(* dimensions: 1, 2, 3, 4, 5, 6, 7, 9, 11, 12, 12 *)

Example eig_family_diagonal : forallb eig_accept fam_diagonal = true.
Proof. vm_compute. reflexivity. Qed.
Example eig_family_integer : forallb eig_accept fam_integer = true.
Proof. vm_compute. reflexivity. Qed.
Example eig_family_repeated : forallb eig_accept fam_repeated = true.
Proof. vm_compute. reflexivity. Qed.
Example eig_family_near_singular : forallb eig_accept fam_near_singular = true.
Proof. vm_compute. reflexivity. Qed.
Example eig_family_dyadic : forallb eig_accept fam_dyadic = true.
Proof. vm_compute. reflexivity. Qed.

(* The defect repaired by /repo commit 9b609a5 (tql2 scanned from m = 1 instead of m = l):
   the same model with the OLD start index fails the exact residual test on a concrete 4x4
   matrix (||V diag(d) V^T - C|| is about 6.4), raises IndexError for dimension 1 and
   ZeroDivisionError for a 2x2 diagonal matrix; with the repaired start index all three pass. *)
Definition M4 : mtx :=
  [[fl (-2) 0; fl 0 0; fl 0 0; fl 3 0];
   [fl 0 0; fl 2 0; fl 3 0; fl 1 0];
   [fl 0 0; fl 3 0; fl 2 0; fl (-1) 0];
   [fl 3 0; fl 1 0; fl (-1) 0; fl 1 0]].

Example tql2_m1_refuted : eig_accept_with start_old M4 = false /\ eig_accept_with start_fixed M4 = true.
Proof. split; vm_compute; reflexivity. Qed.

Example tql2_m1_dim1_IndexError :
  eig sq_mul start_old FUEL [[fl 3 0]] [one] = Err IndexError /\ eig_accept [[fl 3 0]] = true.
Proof. split; vm_compute; reflexivity. Qed.

Example tql2_m1_diag2_ZeroDivisionError :
  eig sq_mul start_old FUEL [[fl 2 0; fl 0 0]; [fl 0 0; fl (-1) 0]] [one; one] = Err ZeroDivisionError /\
  eig_accept [[fl 2 0; fl 0 0]; [fl 0 0; fl (-1) 0]] = true.
Proof. split; vm_compute; reflexivity. Qed.
