(* Correspondence harness for C19: case records + boolean checks run by vm_compute.
   Instance of the model: a float is its IEEE-754 bit pattern (Z), so tokens are compared bit for bit
   (+0.0 / -0.0 differ) and printing/parsing is the identity; Constraint(op string) is the table the
   driver read off the real Constraint objects. *)
From Coq Require Import ZArith QArith Bool List String.
Import ListNotations.
From PV Require Import Base.Num Model.JsonModel.
Open Scope Z_scope.

Definition zid (z : Z) : Z := z.

(* ---- decidable equalities ---- *)
Fixpoint list_eqb {A B} (eqb : A -> B -> bool) (a : list A) (b : list B) : bool :=
  match a, b with
  | [], [] => true
  | x :: a', y :: b' => eqb x y && list_eqb eqb a' b'
  | _, _ => false
  end.

Fixpoint jeqb (a b : jvalue Z) {struct a} : bool :=
  match a, b with
  | JNull, JNull => true
  | JBool x, JBool y => Bool.eqb x y
  | JInt x, JInt y => Z.eqb x y
  | JNum x, JNum y => Z.eqb x y
  | JStr x, JStr y => String.eqb x y
  | JArr la, JArr lb =>
      (fix go (la lb : list (jvalue Z)) : bool :=
         match la, lb with
         | [], [] => true
         | x :: la', y :: lb' => jeqb x y && go la' lb'
         | _, _ => false
         end) la lb
  | JObj ka, JObj kb =>
      (fix go (ka kb : list (string * jvalue Z)) : bool :=
         match ka, kb with
         | [], [] => true
         | (k1, x) :: ka', (k2, y) :: kb' => String.eqb k1 k2 && jeqb x y && go ka' kb'
         | _, _ => false
         end) ka kb
  | _, _ => false
  end.

Definition opt_eqb {A} (eqb : A -> A -> bool) (a b : option A) : bool :=
  match a, b with Some x, Some y => eqb x y | None, None => true | _, _ => false end.
Definition cdecl_eqb (a b : cdecl) : bool :=
  match a, b with DOp x, DOp y => String.eqb x y | DFun x, DFun y => Z.eqb x y | _, _ => false end.
Definition dir_eqb (a b : direction) : bool :=
  match a, b with Minimize, Minimize => true | Maximize, Maximize => true | _, _ => false end.
(* Python cannot tell a placeholder from a rebuilt problem by identity: both are "not the supplied object" *)
Definition origin_eqb (a b : porigin) : bool :=
  match a, b with Supplied, Supplied => true | Supplied, _ => false | _, Supplied => false | _, _ => true end.
(* what the property speaks about: identity w.r.t. the supplied problem, shape, directions, constraint declarations
   (name / function / types of a placeholder or rebuilt problem are not part of the statement and are not compared) *)
Definition problem_eqb (a b : problem) : bool :=
  origin_eqb (p_origin a) (p_origin b) &&
  Nat.eqb (p_nvars a) (p_nvars b) && Nat.eqb (p_nobjs a) (p_nobjs b) && Nat.eqb (p_nconstrs a) (p_nconstrs b) &&
  list_eqb dir_eqb (p_dirs a) (p_dirs b) && list_eqb cdecl_eqb (p_cons a) (p_cons b).
Definition fval_same (a b : js_fval) : bool := opt_eqb xsame a b.

(* ---- literals the driver writes ---- *)
Definition dummy_problem : problem := mkProblem Supplied "" 0 0 0 None [] [] [].
(* a solution as the encoder sees it (only the three arrays are read) *)
Definition S19 (vars objs cons : list (jvalue Z)) : psol Z := mkSol Z dummy_problem vars objs cons None false.

(* a solution as the real loader returned it *)
Record lsol := L19 {
  l_vars : list (jvalue Z); l_objs : list (jvalue Z); l_cons : list (jvalue Z);
  l_cvzero : bool;              (* constraint_violation == 0.0 *)
  l_cv : option js_fval;           (* Some v: the float computation was exact (driver-checked), v its value (None = NaN) *)
  l_feas : bool;                (* feasible *)
  l_prob : problem              (* solution.problem, origin Supplied iff it IS the supplied object *)
}.

Record c19case := K19 {
  k_saved : saved Z;                       (* what save_json was handed *)
  k_supplied : option problem;             (* problem= argument of load_json *)
  k_ctab : list (string * (js_cop * xq));     (* declaration text -> (operator, threshold) of the in-memory Constraint objects *)
  k_ftab : list (Z * (Z * xq));            (* callable key -> (shape, t) of the driver's test callables (JsonModel.js_shape) *)
  k_file : jvalue Z;                       (* the written file as plain json (no hooks) reads it *)
  k_loaded : list lsol;                    (* what load_json returned *)
  k_oneprob : bool                         (* all loaded solutions share ONE problem object *)
}.

Definition sol_matches (o : psol Z) (l : lsol) : bool :=
  list_eqb jeqb (ps_vars Z o) (l_vars l) && list_eqb jeqb (ps_objs Z o) (l_objs l) &&
  list_eqb jeqb (ps_cons Z o) (l_cons l) &&
  Bool.eqb (js_fzero (ps_cv Z o)) (l_cvzero l) &&
  match l_cv l with Some v => fval_same (ps_cv Z o) v | None => true end &&
  Bool.eqb (ps_feas Z o) (l_feas l) &&
  problem_eqb (ps_prob Z o) (l_prob l).

Fixpoint sols_match (vs : list (pval Z)) (ls : list lsol) : bool :=
  match vs, ls with
  | [], [] => true
  | PSol _ o :: vs', l :: ls' => sol_matches o l && sols_match vs' ls'
  | _, _ => false
  end.

(* the model keeps one problem per load; identity across solutions is the driver's k_oneprob *)
Definition c19_encoder_ok (k : c19case) : bool :=
  match encode Z (k_saved k) with Ok j => jeqb j (k_file k) | Err _ => false end.
Definition c19_decoder_ok (k : c19case) : bool :=
  match decode Z f64_val (ctab_lookup (k_ctab k)) (ftab_lookup (k_ftab k)) false (k_supplied k) (k_file k) with
  | Ok (_, PList _ vs) => sols_match vs (k_loaded k)
  | _ => false
  end.
Definition c19_roundtrip_ok (k : c19case) : bool :=
  match save_then_load Z f64_val (ctab_lookup (k_ctab k)) (ftab_lookup (k_ftab k)) Z zid zid false (k_supplied k) (k_saved k) with
  | Ok (_, PList _ vs) => sols_match vs (k_loaded k)
  | _ => false
  end.
(* THE correspondence obligation: the model's load_json (save_json x) predicts what the real
   load_json (save_json x) returned (this is the composite the theorems speak about; it does not depend on
   the file layout) *)
Definition c19_check (k : c19case) : bool := c19_roundtrip_ok k && k_oneprob k.
(* finer, informational tie of the two halves at tree level (reported in the evidence, not an obligation:
   a change of the file layout that keeps the round trip is not a violation of the property) *)
Definition c19_tree_ok (k : c19case) : bool := c19_encoder_ok k && c19_decoder_ok k.

(* ---- objectives text file ---- *)
Record c19ocase := KO19 {
  ko_objs : list (list Z);                 (* objectives (bit patterns) of the solutions handed to save_objectives *)
  ko_supplied : option problem;
  ko_lines : list (list Z);                (* the written file: per line, float(token) of each token *)
  ko_loaded : list (problem * list (jvalue Z))
}.

Definition osol_matches (o : osol Z) (l : problem * list (jvalue Z)) : bool :=
  problem_eqb (os_prob Z o) (fst l) && list_eqb jeqb (os_objs Z o) (snd l).

Definition c19o_check (k : c19ocase) : bool :=
  let sols := map (fun os => S19 [] (map (fun b => JNum b) os) []) (ko_objs k) in
  match save_objectives Z Z zid sols with
  | Ok lines => list_eqb (list_eqb Z.eqb) lines (ko_lines k)
  | Err _ => false
  end &&
  list_eqb osol_matches (load_objectives Z Z zid (ko_supplied k) (ko_lines k)) (ko_loaded k).
