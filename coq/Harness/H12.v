(* Correspondence harness for C12: case records + boolean checks run by vm_compute. *)
From Coq Require Import ZArith Bool List.
Import ListNotations.
From PV Require Import Base.Num Model.Chunks Model.Futures Model.MPI.
Open Scope Z_scope.

Fixpoint list_eqb {A : Type} (eqb : A -> A -> bool) (a b : list A) : bool :=
  match a, b with
  | [], [] => true
  | x :: a', y :: b' => eqb x y && list_eqb eqb a' b'
  | _, _ => false
  end.

Definition opt_eqb {A : Type} (eqb : A -> A -> bool) (a b : option A) : bool :=
  match a, b with
  | None, None => true
  | Some x, Some y => eqb x y
  | _, _ => false
  end.

(* ---- _chunks: chunk size, items, what list(_chunks(items, n)) returned ---- *)
Record c12chunk := CK { ck_n : Z; ck_items : list Z; ck_impl : list (list Z) }.
Definition c12_chunk_check (k : c12chunk) : bool :=
  list_eqb (list_eqb Z.eqb) (chunks (ck_n k) (ck_items k)) (ck_impl k).

(* ---- evaluators: the job function of the harness jobs is x |-> 3x+1 ----
   kind 0: Submit/Apply shape (futures); fu_sched = the completion order observed on the real pool
   kind 1: Map shape; the pool's map is taken to be in order (that is MPI.v / the pool's contract) *)
Definition hjob (x : Z) : Z := 3 * x + 1.
Record c12fut := FU { fu_kind : Z; fu_jobs : list Z; fu_sched : list Z; fu_lf : option Z; fu_impl : list Z }.
Definition c12_fut_check (k : c12fut) : bool :=
  if fu_kind k =? 0 then
    opt_eqb (list_eqb Z.eqb) (submit_evaluate hjob (fu_lf k) (fu_jobs k) (map Z.to_nat (fu_sched k))) (Some (fu_impl k))
  else
    list_eqb Z.eqb (map_evaluate (map hjob) (fu_lf k) (fu_jobs k)) (fu_impl k).

(* ---- MPIPool sessions: one pool, consecutive map calls, the logged event trace of each ---- *)
Definition eF (w : Z) : ev := EMSendFun (Z.to_nat w).
Definition eS (w t : Z) : ev := EMSend (Z.to_nat w) (Z.to_nat t).
Definition eM (w t : Z) : ev := EMRecv (Z.to_nat w) (Z.to_nat t).
Definition eR : ev := EMRet.
Definition eWf (w : Z) : ev := EWRecv (Z.to_nat w) None.
Definition eWt (w t : Z) : ev := EWRecv (Z.to_nat w) (Some (Z.to_nat t)).
Definition eA (w t : Z) : ev := EWSend (Z.to_nat w) (Z.to_nat t).

(* c12_mpi.task_fn *)
Definition hfn (g : nat) (t : Z) : Z := Z.of_nat g * 100003 + 7 * t + 1.

Record c12batch := Bt { bt_g : Z; bt_tasks : list Z; bt_evs : list ev; bt_ret : list (option Z) }.
Record c12sess := Sess { se_W : Z; se_lb : bool; se_batches : list c12batch }.

(* accepts: every batch's trace is a run of the transition system (Model.MPI.run_session, the
   function c12_mpi_session_safety is about) from the state the previous batch left the pool in, ends
   with map returned, and the model's results are the lists the real map calls returned *)
Definition c12_sess_check (s : c12sess) : bool :=
  let W := Z.to_nat (se_W s) in
  match run_session hfn W (se_lb s) 0 (fresh_workers W)
          (map (fun b => (Z.to_nat (bt_g b), bt_tasks b, bt_evs b)) (se_batches s)) with
  | Some rs => list_eqb (list_eqb (opt_eqb Z.eqb)) rs (map bt_ret (se_batches s))
  | None => false
  end.

(* ---- evaluate_all pairing: solutions before, what the evaluator returned, solutions after ---- *)
Definition sol_eqb (a b : sol) : bool :=
  Nat.eqb (s_id a) (s_id b) && list_eqb Z.eqb (s_vars a) (s_vars b) &&
  list_eqb Z.eqb (s_objs a) (s_objs b) && Bool.eqb (s_eval a) (s_eval b).
Definition mkS (id : Z) (v o : list Z) (e : bool) : sol := Sol (Z.to_nat id) v o e.
Record c12pair := PR { pr_before : list sol; pr_results : list sol; pr_after : option (list sol) }.
Definition c12_pair_check (k : c12pair) : bool :=
  opt_eqb (list_eqb sol_eqb) (evaluate_all (fun _ => pr_results k) (pr_before k)) (pr_after k).

(* ---- experiment filing: evaluated jobs in the order the evaluator returned them, the nested dict ---- *)
Definition mkJ (a p r : Z) : ejob := EJ (Z.to_nat a) (Z.to_nat p) r.
Definition mkP (p : Z) (l : list Z) : nat * list Z := (Z.to_nat p, l).
Definition mkA (a : Z) (pt : ptable) : nat * ptable := (Z.to_nat a, pt).
Definition ptab_eqb (a b : ptable) : bool :=
  list_eqb (fun x y => Nat.eqb (fst x) (fst y) && list_eqb Z.eqb (snd x) (snd y)) a b.
Definition rtab_eqb (a b : rtable) : bool :=
  list_eqb (fun x y => Nat.eqb (fst x) (fst y) && ptab_eqb (snd x) (snd y)) a b.
Record c12file := FL { fl_jobs : list ejob; fl_impl : rtable }.
Definition c12_file_check (k : c12file) : bool := rtab_eqb (file_all (fl_jobs k)) (fl_impl k).

(* ---- experiment(): algorithm declarations -> the jobs the evaluator handed back ----
   hres is what a result of harness/props/c12_jobs.py reveals about its producer: algorithm type,
   EFFECTIVE configuration (kwargs 0 = {} gives the class default: 8 for type 3 = TagNSGAII's
   population_size, 1 = batch otherwise), problem, replicate *)
Definition dB (ty : Z) : adecl := DBare (Z.to_nat ty).
Definition dT1 (ty : Z) : adecl := DTup1 (Z.to_nat ty).
Definition dT2 (ty kw : Z) : adecl := DTup2 (Z.to_nat ty) kw.
Definition dT3 (ty kw nm : Z) : adecl := DTup3 (Z.to_nat ty) kw (Z.to_nat nm).
Definition hres (ty : nat) (kw : Z) (p k : nat) : Z :=
  let cfg := if kw =? 0 then (if Nat.eqb ty 3 then 8 else 1) else kw in
  Z.of_nat ty * 100000 + cfg * 1000 + Z.of_nat p * 100 + Z.of_nat k.
Definition ejob_eqb (a b : ejob) : bool :=
  Nat.eqb (j_alg a) (j_alg b) && Nat.eqb (j_prob a) (j_prob b) && Z.eqb (j_res a) (j_res b).
Record c12decl := FD { fd_decls : list adecl; fd_probs : list Z; fd_seeds : Z; fd_jobs : list ejob }.
Definition c12_decl_check (k : c12decl) : bool :=
  opt_eqb (list_eqb ejob_eqb)
    (decl_jobs (fd_decls k) (map Z.to_nat (fd_probs k)) (Z.to_nat (fd_seeds k)) hres) (Some (fd_jobs k)).
