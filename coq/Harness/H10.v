(* Correspondence harness for C10: every case carries what the REAL code returned for the
   original and for the flipped form; the check evaluates the models on both forms and
   requires agreement with the implementation on both (hence also original = flipped). *)
From Coq Require Import ZArith QArith Qabs Bool List.
Import ListNotations.
From PV Require Import Base.Num Model.Dominance Model.Archive Model.Epsilon Model.NDSort
                       Model.Indicators Model.Hypervolume Model.Negation Harness.H16.
Open Scope Q_scope.

Definition oz_eqb (a b : option Z) : bool :=
  match a, b with Some x, Some y => Z.eqb x y | None, None => true | _, _ => false end.
Definition ob_eqb (a b : option bool) : bool :=
  match a, b with Some x, Some y => Bool.eqb x y | None, None => true | _, _ => false end.
Fixpoint nl_eqb (a b : list nat) : bool :=
  match a, b with
  | x :: r, y :: s => Nat.eqb x y && nl_eqb r s
  | [], [] => true
  | _, _ => false
  end.
Fixpoint onl_eqb (a : list (option nat)) (b : list nat) : bool :=
  match a, b with
  | Some x :: r, y :: s => Nat.eqb x y && onl_eqb r s
  | [], [] => true
  | _, _ => false
  end.

(* ---------- discrete components ---------- *)
(* d_pool: object i = (objectives, violation), finite dyadic values; d_pairs: (i, j, ParetoDominance.compare orig/flipped,
   EpsilonDominance.compare orig/flipped, same_box orig/flipped);  d_order: the insertion / population order (identities);
   d_arch: members of Archive() after `archive += population` orig/flipped; d_ebox: members and improvements of
   EpsilonBoxArchive(eps); d_ranks: rank of every population entry after nondominated_sort *)
Record c10disc := K10D { d_con : bool; d_dirs : list bool; d_J : list bool; d_eps : list Q;
                         d_pool : list (list Q * Q);
                         d_pairs : list (nat * nat * (Z * Z) * (option Z * option Z) * (option bool * option bool));
                         d_order : list nat;
                         d_arch : list nat * list nat;
                         d_ebox : (list nat * nat) * (list nat * nat);
                         d_ranks : list nat * list nat }.

Fixpoint mk_x (i : nat) (p : list (list Q * Q)) : list xsol :=
  match p with [] => [] | (o, v) :: r => Build_sol i (map Fin o) (Fin v) :: mk_x (S i) r end.
Fixpoint mk_e (i : nat) (p : list (list Q * Q)) : list esol :=
  match p with [] => [] | (o, v) :: r => ESol i o v :: mk_e (S i) r end.
Fixpoint pick {A} (pool : list A) (ids : list nat) : option (list A) :=
  match ids with
  | [] => Some []
  | i :: r => match nth_error pool i, pick pool r with Some x, Some l => Some (x :: l) | _, _ => None end
  end.

Definition pair_ok (k : c10disc) (px : list xsol) (pe : list esol)
           (p : nat * nat * (Z * Z) * (option Z * option Z) * (option bool * option bool)) : bool :=
  match p with
  | (i, j, (p1, p2), (e1, e2), (b1, b2)) =>
      match nth_error px i, nth_error px j, nth_error pe i, nth_error pe j with
      | Some xi, Some xj, Some ei, Some ej =>
          let c := ECfg (d_eps k) (d_dirs k) (d_con k) in
          Z.eqb (x_sol_cmp (d_con k) (d_dirs k) xi xj) p1
          && Z.eqb (x_sol_cmp (d_con k) (flipd (d_J k) (d_dirs k)) (flip_xsol (d_J k) xi) (flip_xsol (d_J k) xj)) p2
          && oz_eqb (eps_compare c ei ej) e1
          && oz_eqb (eps_compare (flip_ecfg (d_J k) c) (flip_esol (d_J k) ei) (flip_esol (d_J k) ej)) e2
          && ob_eqb (same_box c ei ej) b1
          && ob_eqb (same_box (flip_ecfg (d_J k) c) (flip_esol (d_J k) ei) (flip_esol (d_J k) ej)) b2
      | _, _, _, _ => false
      end
  end.

Definition ebox_ok (r : option (list esol * nat)) (i : list nat * nat) : bool :=
  match r with Some (a, imp) => nl_eqb (map e_sid a) (fst i) && Nat.eqb imp (snd i) | None => false end.
Definition ranks_ok (r : option (list (option nat))) (i : list nat) : bool :=
  match r with Some l => onl_eqb l i | None => false end.

Definition c10_disc_check (k : c10disc) : bool :=
  let px := mk_x 0 (d_pool k) in
  let pe := mk_e 0 (d_pool k) in
  let c := ECfg (d_eps k) (d_dirs k) (d_con k) in
  forallb (pair_ok k px pe) (d_pairs k)
  && match pick px (d_order k), pick pe (d_order k) with
     | Some lx, Some le =>
         nl_eqb (map sid (x_archive (d_con k) (d_dirs k) lx)) (fst (d_arch k))
         && nl_eqb (map sid (x_archive (d_con k) (flipd (d_J k) (d_dirs k)) (map (flip_xsol (d_J k)) lx))) (snd (d_arch k))
         && ebox_ok (eps_box_run c le) (fst (d_ebox k))
         && ebox_ok (eps_box_run (flip_ecfg (d_J k) c) (map (flip_esol (d_J k)) le)) (snd (d_ebox k))
         && ranks_ok (x_ranks (d_con k) (d_dirs k) lx) (fst (d_ranks k))
         && ranks_ok (x_ranks (d_con k) (flipd (d_J k) (d_dirs k)) (map (flip_xsol (d_J k)) lx)) (snd (d_ranks k))
     | _, _ => false
     end.

(* ---------- indicators ---------- *)
(* n_eps: EpsilonIndicator(ref)(set) orig/flipped; n_hvr: Hypervolume(reference_set=ref)(set); n_hvb: Hypervolume(minimum,
   maximum)(set) with the explicit bounds n_bounds (flipped form: min' = -max, max' = -min on J); n_gd / n_igd:
   GenerationalDistance(ref, d=2)(set) / InvertedGenerationalDistance(ref, d=2)(set).  n_hv = false: fewer than two objectives,
   hypervolume not part of the case. *)
Record c10ind := K10I { n_nobjs : nat; n_dirs : list bool; n_J : list bool; n_ref : list isol; n_set : list isol;
                        n_bounds : list Q * list Q; n_hv : bool;
                        n_eps : res xval * res xval; n_hvr : res Q * res Q; n_hvb : res Q * res Q;
                        n_gd : res xval * res xval; n_igd : res xval * res xval }.

Definition rx_eqb (a b : res xval) : bool :=
  match a, b with Ok x, Ok y => xval_eqb x y | Err e, Err e' => ierr_eqb e e' | _, _ => false end.
Definition rq_eqb (a b : res Q) : bool :=
  match a, b with Ok x, Ok y => Qeq_bool x y | Err e, Err e' => ierr_eqb e e' | _, _ => false end.

(* d = 2: (value * n)^2 = sum of the squared nearest distances, up to the framework's only tolerance *)
Definition gd2_ok (ing : res ingredients) (impl : res xval) : bool :=
  match ing, impl with
  | Err e, Err e' => ierr_eqb e e'
  | Ok IInf, Ok XInf => true
  | Ok (ITerms ts n), Ok (XFin v) => let vn := v * inject_Z (Z.of_nat n) in close (vn * vn) (qsum ts)
  | _, _ => false
  end.
Definition terms_same (a b : res ingredients) : bool :=
  match a, b with
  | Ok IInf, Ok IInf => true
  | Ok (ITerms ts n), Ok (ITerms ts' n') => qlist_eqb ts ts' && Nat.eqb n n'
  | Err e, Err e' => ierr_eqb e e'
  | _, _ => false
  end.

Definition c10_ind_check (k : c10ind) : bool :=
  let J := n_J k in
  let d' := flipd J (n_dirs k) in
  let r' := map (flip_isol J) (n_ref k) in
  let s' := map (flip_isol J) (n_set k) in
  rx_eqb (eps_indicator (n_nobjs k) (n_dirs k) (n_ref k) (n_set k)) (fst (n_eps k))
  && rx_eqb (eps_indicator (n_nobjs k) d' r' s') (snd (n_eps k))
  && (if n_hv k then
        rq_eqb (hv_indicator repaired (n_nobjs k) (n_dirs k) (inr (n_ref k)) (n_set k)) (fst (n_hvr k))
        && rq_eqb (hv_indicator repaired (n_nobjs k) d' (flip_hv_bounds J (inr (n_ref k))) s') (snd (n_hvr k))
        && rq_eqb (hv_indicator repaired (n_nobjs k) (n_dirs k) (inl (n_bounds k)) (n_set k)) (fst (n_hvb k))
        && rq_eqb (hv_indicator repaired (n_nobjs k) d' (flip_hv_bounds J (inl (n_bounds k))) s') (snd (n_hvb k))
      else true)
  && gd2_ok (gd_indicator (n_nobjs k) (n_ref k) (n_set k)) (fst (n_gd k))
  && gd2_ok (gd_indicator (n_nobjs k) r' s') (snd (n_gd k))
  && terms_same (gd_indicator (n_nobjs k) (n_ref k) (n_set k)) (gd_indicator (n_nobjs k) r' s')
  && gd2_ok (igd_indicator (n_nobjs k) (n_ref k) (n_set k)) (fst (n_igd k))
  && gd2_ok (igd_indicator (n_nobjs k) r' s') (snd (n_igd k))
  && terms_same (igd_indicator (n_nobjs k) (n_ref k) (n_set k)) (igd_indicator (n_nobjs k) r' s').
