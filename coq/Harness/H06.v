(* Correspondence harness for C06 (tape replay): operator descriptors, their
   interpretation by the models of Model/Operators.v and Model/RealOps.v at the
   executable instance (elements = Z, payload = objectives), the case record and the
   boolean check evaluated by vm_compute on every logged call of the real operators. *)
From Coq Require Import ZArith QArith Bool List.
Import ListNotations.
From PV Require Import Base.Num Base.FVal Base.Tape Model.Operators Model.RealOps.
Open Scope res_scope.

Definition zvar := var Z.
Definition ztype := vtype Z.
Definition zpay := list xq.                 (* objectives (the copied, untouched part) *)
Definition zsol := sol Z zpay.
Definition zoperator := operator Z zpay.
Definition zmutation := mutation Z zpay.

(* Only what the control structure depends on is a parameter: distribution indices, step
   sizes, perturbation, zeta/eta, expansion do not occur (the models — hence the theorems —
   hold for all their values). *)
Inductive opdesc :=
  | OPM (p : prob) | OUM (p : prob) | OUniformMutation (p : xq) | ONonUniformMutation (p : xq)
  | OSBX (p : xq) | ODE (cr : xq)
  | OPCX (nparents noff : nat) | OUNDX (nparents noff : nat) | OSPX (nparents noff : nat)
  | OBitFlip (p : prob) | OHUX (p : xq) | OSwap (p : xq) | OInsertion (p : xq)
  | OPMX (p : xq) | OReplace (p : xq) | OSSX (p : xq)
  | OGA (variation mutation : opdesc)
  | OCompoundOperator (l : list opdesc)
  | OCompoundMutation (l : list opdesc)
  | OMultimethod (l : list opdesc) (next : nat).

Definition bad_mutation : zmutation := fun _ _ _ => Err EType.
Definition bad_operator : zoperator := fun _ _ _ => Err EType.

Section Interp.
  Variable types : list ztype.

  (* X.mutate for the Mutation subclasses *)
  Fixpoint as_mutation (o : opdesc) : zmutation :=
    match o with
    | OPM p => pm Z zpay p types
    | OUM p => um Z zpay p types
    | OUniformMutation p => uniform_mutation Z zpay p types
    | ONonUniformMutation p => non_uniform_mutation Z zpay p types
    | OBitFlip p => bitflip Z zpay p types
    | OSwap p => swap Z zpay p types
    | OInsertion p => insertion Z zpay p types
    | OReplace p => replace Z zpay Z.eqb p types
    | OCompoundMutation l => compound_mutation Z zpay (map as_mutation l)
    | _ => bad_mutation
    end.

  Definition is_mutation (o : opdesc) : bool :=
    match o with
    | OPM _ | OUM _ | OUniformMutation _ | ONonUniformMutation _ | OBitFlip _ | OSwap _
    | OInsertion _ | OReplace _ | OCompoundMutation _ => true
    | _ => false
    end.

  Fixpoint arity_of (o : opdesc) : nat :=
    match o with
    | OSBX _ | OHUX _ | OPMX _ | OSSX _ => 2
    | ODE _ => 4
    | OPCX k _ | OUNDX k _ | OSPX k _ => k
    | OGA v _ => arity_of v
    | OCompoundOperator l => match l with v :: _ => arity_of v | [] => 0 end
    | OMultimethod l next => nth next (map arity_of l) 0%nat
    | _ => 1
    end.

  (* X.evolve *)
  Fixpoint as_operator (o : opdesc) : zoperator :=
    match o with
    | OSBX p => sbx Z zpay p types
    | ODE cr => de Z zpay cr types
    | OPCX _ noff => pcx Z zpay noff types
    | OUNDX _ noff => undx Z zpay noff types
    | OSPX _ noff => spx Z zpay noff types
    | OHUX p => hux Z zpay p types
    | OPMX p => pmx Z zpay Z.eqb p types
    | OSSX p => ssx Z zpay Z.eqb p types
    | OGA v m => ga_operator Z zpay (as_operator v) (as_mutation m)
    | OCompoundOperator l =>
        compound_operator Z zpay (map (fun v => mkMember (arity_of v) (as_operator v)) l)
    | OMultimethod l next =>
        fun fresh ps t =>
          '(cs, _, f, t') <- multimethod Z zpay (map (fun v => mkMember (arity_of v) (as_operator v)) l) next fresh ps t ;;
          Ok (cs, f, t')
    | _ => if is_mutation o then map_mutate Z zpay (as_mutation o) else bad_operator
    end.

  (* next_variator after Multimethod.evolve (0 for every other operator) *)
  Definition next_of (o : opdesc) (fresh : nat) (ps : list zsol) (t : tape) : nat :=
    match o with
    | OMultimethod l next =>
        match multimethod Z zpay (map (fun v => mkMember (arity_of v) (as_operator v)) l) next fresh ps t with
        | Ok (_, nx, _, _) => nx
        | Err _ => 0
        end
    | _ => 0
    end.
End Interp.

(* ------------------------------------------------------------------ comparison *)
Fixpoint list_same {A B} (f : A -> B -> bool) (a : list A) (b : list B) : bool :=
  match a, b with
  | [], [] => true
  | x :: r, y :: s => f x y && list_same f r s
  | _, _ => false
  end.

Definition var_same (a b : zvar) : bool :=
  match a, b with
  | VReal x, VReal y => fsame x y
  | VBits x, VBits y => list_same Bool.eqb x y
  | VPerm x, VPerm y => list_same Z.eqb x y
  | VSub x, VSub y => list_same Z.eqb x y
  | _, _ => false
  end.

(* a solution as shipped: variables, evaluated, objectives, identity
   (identity of a child: index of the parent object it IS, or -1 for a new object) *)
Record ksol := KS { ks_vars : list zvar; ks_eval : bool; ks_objs : list xq; ks_alias : Z }.

Record c06case := K6 {
  k_op : opdesc;
  k_types : list ztype;
  k_parents : list ksol;
  k_tape : tape;
  k_children : list ksol;       (* what the implementation returned *)
  k_next : nat                  (* Multimethod.next_variator afterwards, else 0 *)
}.

Fixpoint mk_parents (i : nat) (l : list ksol) : list zsol :=
  match l with
  | [] => []
  | k :: r => mkSol i (ks_vars k) (ks_eval k) (ks_objs k) :: mk_parents (S i) r
  end.

Definition child_same (nparents : nat) (c : zsol) (k : ksol) : bool :=
  list_same var_same (vars c) (ks_vars k)
  && Bool.eqb (evaluated c) (ks_eval k)
  && list_same xsame (payload c) (ks_objs k)
  && (if Nat.ltb (sid c) nparents then Z.eqb (Z.of_nat (sid c)) (ks_alias k)
      else Z.eqb (ks_alias k) (-1)).

Fixpoint sids_distinct (l : list nat) : bool :=
  match l with
  | [] => true
  | x :: r => negb (existsb (Nat.eqb x) r) && sids_distinct r
  end.

Definition c06_run (k : c06case) : res (list zsol * nat * tape) :=
  let ps := mk_parents 0 (k_parents k) in
  as_operator (k_types k) (k_op k) (length ps) ps (k_tape k).

(* the model replays the logged tape, consumes it entirely and reproduces the children
   (variables, flags, copied objectives, object identity) *)
Definition c06_check (k : c06case) : bool :=
  let ps := mk_parents 0 (k_parents k) in
  let n := length ps in
  match c06_run k with
  | Ok (cs, _, rest) =>
      match rest with [] => true | _ => false end
      && list_same (child_same n) cs (k_children k)
      && sids_distinct (filter (fun s => negb (Nat.ltb s n)) (map sid cs))
      && Nat.eqb (next_of (k_types k) (k_op k) n ps (k_tape k)) (k_next k)
  | Err _ => false
  end.

(* what the model says on a case (printed for disagreeing cases) *)
Definition c06_model_flags (k : c06case) : res (list bool) :=
  '(cs, _, _) <- c06_run k ;; Ok (map evaluated cs).

(* ================================================================ guard traces of the scalar formulas
   (Model/RealFormulas.v).  The driver traces the locals of PM.pm_mutation, SBX.sbx_crossover and
   NonUniformMutation._delta in the REAL run; every traced guard quantity is checked against the
   model's step applied to the traced inputs of that step (so no rounding error is carried from
   one step to the next) up to a relative 2^-44, and against the range the theorems prove for it.
   [p] is the value of the power the code takes at that point (recomputed by the driver from the
   traced base with the same float operation). *)
From Coq Require Import Qabs.
From PV Require Import Model.RealFormulas.
Open Scope Q_scope.

Definition gtol : Q := 1 # (2 ^ 44).
Definition qclose (a b : Q) : bool :=
  Qle_bool (Qabs (a - b)) (gtol * (if Qle_bool 1 (Qabs a) then Qabs a else 1)).
Definition in01 (q : Q) : bool := Qle_bool 0 q && Qle_bool q 1.
Definition res_close (r : res Q) (v : Q) : bool := match r with Ok q => qclose q v | Err _ => false end.

Inductive gcase :=
  (* lo = (u < 0.5);  traced: dx, frac (bl / bu), b *)
  | GPM (lo : bool) (x lb ub u eta p dx frac b : Q)
  (* SBX not recombined: abs(x2 - x1) <= EPSILON *)
  | GSBX0 (x1 x2 : Q)
  (* one side of a recombination; upper = the ub side; bnd = lb / ub; first = the `rand <= 1/alpha` branch;
     traced: beta, alpha (= 2 - p), arand (= alpha*rand), base (= arand, or 1/(2 - arand)) *)
  | GSIDE (upper : bool) (x1 x2 y1 y2 bnd rand eta p : Q) (first : bool) (beta alpha arand base : Q)
  (* NonUniformMutation._delta: traced fraction *)
  | GNUM (nfe swarm maxit fraction : Q).

Definition g06_check (g : gcase) : bool :=
  match g with
  | GPM lo x lb ub u eta p dx frac b =>
      Bool.eqb lo (Qltb u (1 # 2)) && Qle_bool 0 u && Qltb u 1 && Qle_bool 0 eta
      && qclose (ub - lb) dx && Qltb 0 dx
      && res_close (pm_fraction (if lo then x - lb else ub - x) dx) frac && in01 frac
      && in01 p
      && qclose (if lo then pm_base_lo u p else pm_base_hi u p) b && in01 b
  | GSBX0 x1 x2 => negb (sbx_test x1 x2)
  | GSIDE upper x1 x2 y1 y2 bnd rand eta p first beta alpha arand base =>
      sbx_test x1 x2
      && Qeq_bool y1 (if Qltb x1 x2 then x1 else x2) && Qeq_bool y2 (if Qltb x1 x2 then x2 else x1)
      && Qltb EPSILON (y2 - y1)
      && Qle_bool 0 rand && Qltb rand 1 && Qle_bool 0 eta
      && res_close (sbx_beta (if upper then bnd - y2 else y1 - bnd) (y2 - y1)) beta
      && Qle_bool 0 beta && Qle_bool beta 1
      && in01 p
      && qclose (sbx_alpha p) alpha && Qle_bool 1 alpha && Qle_bool alpha 2
      && match sbx_first_branch rand alpha with Ok f => Bool.eqb f first | Err _ => false end
      && qclose (sbx_arand alpha rand) arand && Qle_bool 0 arand && Qltb arand 2
      && (if first then qclose arand base && Qle_bool base 1 else res_close (sbx_inv arand) base && Qltb 0 base)
      && Qle_bool 0 base
  | GNUM nfe swarm maxit fraction =>
      res_close (num_fraction nfe swarm maxit) fraction && in01 fraction
  end.
