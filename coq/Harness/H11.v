(* Correspondence harness for C11: case types and checks run by vm_compute.
   Strings are shipped as lists of code points (< 256).  Python's float() on a token is
   shipped as a table: for every suffix of the declared string (and every suffix minus a
   final newline) on which the REAL float() returned a finite value, the pair
   (suffix, value); the model's regex decides by itself which token it asks about. *)
From Coq Require Import ZArith NArith QArith Qabs Bool List Ascii.
Import ListNotations.
From PV Require Import Base.Num Model.Constraint.
Open Scope Z_scope.

Definition str_of (l : list Z) : list ascii := map (fun z => ascii_of_N (Z.to_N z)) l.

Definition ftable := list (list Z * Q).
Definition pf_of (t : ftable) (tok : list ascii) : option Q :=
  match find (fun e => str_eqb (str_of (fst e)) tok) t with
  | Some e => Some (snd e)
  | None => None
  end.

(* the callables the driver passes (exact in floats): 0: x, 1: -x, 2: 0, 3: x - 1 *)
Definition fn (k : Z) : Q -> Q :=
  if k =? 0 then (fun x => x)
  else if k =? 1 then (fun x => Qopp x)
  else if k =? 2 then (fun _ => 0%Q)
  else (fun x => (x - 1)%Q).

Inductive spelling :=
| SpStr (s : list Z) (t : ftable)     (* Constraint("<= 5"), also the predefined constants (string read from the real class) *)
| SpPair (o : list Z) (v : Q)         (* Constraint("<=", 5); v = float(5) *)
| SpCopy (sp : spelling)              (* Constraint(Constraint(...)) *)
| SpFun (k : Z).                      (* Constraint(callable) *)

Fixpoint build (sp : spelling) : option constr :=
  match sp with
  | SpStr s t => construct (pf_of t) (AStr (str_of s))
  | SpPair o v => construct (fun _ => None) (APair (str_of o) v)
  | SpCopy sp' => match build sp' with
                  | Some c => construct (fun _ => None) (ACopy c)
                  | None => None
                  end
  | SpFun k => construct (fun _ => None) (ACallable (fn k))
  end.

Fixpoint build_all (sps : list spelling) : option (list constr) :=
  match sps with
  | [] => Some []
  | sp :: r => match build sp, build_all r with
               | Some c, Some cs => Some (c :: cs)
               | _, _ => None
               end
  end.

Definition op_index (op : cop) : Z :=
  match op with OpEq => 0 | OpLeq => 1 | OpGeq => 2 | OpNeq => 3 | OpLt => 4 | OpGt => 5 end.

(* binary64 overflow: an exact result of at least 2^1024 - 2^970 (largest double + half an ulp) rounds to +inf.
   The Q model does not round, so "finite violations whose float sum (or difference) overflows" shows up as
   implementation = +inf against a finite model value at or beyond that threshold. *)
Definition overflow_threshold : Q := inject_Z (2 ^ 1024 - 2 ^ 970).

(* magnitude test for cases where the float computation rounded: relative 2^-40, or overflow to +inf *)
Definition close (model impl : xq) : bool :=
  match model, impl with
  | PInf, PInf => true
  | Fin a, Fin b => Qle_bool (Qabs (a - b) * (1099511627776 # 1)) a && negb (Qle_bool overflow_threshold a)
  | Fin a, PInf => Qle_bool overflow_threshold a
  | _, _ => false
  end.

Definition nonneg (a : xq) : bool := negb (xltb a (Fin 0)).

Definition agree (exact : bool) (model impl : xq) : bool :=
  Bool.eqb (x_is_zero model) (x_is_zero impl) && nonneg impl
  && (if exact then xsame model impl else close model impl).

Inductive c11case :=
  (* declaration: None = the constructor raised; Some (i, y) = functools.partial(OPERATORS-entry i, y=y) *)
| KDecl (sp : spelling) (impl : option (Z * Q))
  (* one call c(x) of a declared constraint *)
| KCall (sp : spelling) (x : xq) (impl : xq) (exact : bool)
  (* Problem.__call__ on a solution with these constraint values *)
| KEval (sps : list spelling) (xs : list xq) (impl_cv : xq) (impl_feasible : bool) (exact : bool)
  (* the class attributes the model transcribes: predefined constant i (0 EQUALS_ZERO, 1 LEQ_ZERO, 2 GEQ_ZERO,
     3 LESS_THAN_ZERO, 4 GREATER_THAN_ZERO), the OPERATORS dict (key, function index) in dict order,
     the default delta of _constraint_lt / _constraint_gt *)
| KConst (i : Z) (s : list Z)
| KTable (entries : list (list Z * Z))
| KDelta (lt_default gt_default : Q).

Fixpoint table_eqb (a : list (list ascii * cop)) (b : list (list Z * Z)) : bool :=
  match a, b with
  | [], [] => true
  | (k, op) :: a', (k', i) :: b' => str_eqb k (str_of k') && Z.eqb (op_index op) i && table_eqb a' b'
  | _, _ => false
  end.

Definition c11_check (k : c11case) : bool :=
  match k with
  | KDecl sp impl =>
      match build sp, impl with
      | None, None => true
      | Some (CPartial op y), Some (i, y') => Z.eqb (op_index op) i && Qeq_bool y y'
      | _, _ => false
      end
  | KCall sp x impl exact =>
      match build sp with
      | Some c => match x_call c x with
                  | Some m => (* a single call returns the signed value; only callables can be negative *)
                      match c with
                      | CPartial _ _ => agree exact m impl
                      | CFun _ => xsame m impl
                      end
                  | None => false
                  end
      | None => false
      end
  | KEval sps xs impl_cv impl_feasible exact =>
      match build_all sps with
      | Some cs => match x_total cs xs with
                   | Some t => agree exact t impl_cv && Bool.eqb (x_is_zero t) impl_feasible
                   | None => false
                   end
      | None => false
      end
  | KConst i s =>
      match nth_error [EQUALS_ZERO; LEQ_ZERO; GEQ_ZERO; LESS_THAN_ZERO; GREATER_THAN_ZERO] (Z.to_nat i) with
      | Some c => (0 <=? i) && str_eqb c (str_of s)
      | None => false
      end
  | KTable entries => table_eqb OPERATORS entries
  | KDelta a b => Qeq_bool delta0 a && Qeq_bool delta0 b
  end.
