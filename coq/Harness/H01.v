(* Correspondence harness for C01: one case = one traced run of a real algorithm.
   The snapshots of solutions are shipped once, in a table, and referenced by index.
   Two checks per run: the generic skeleton ([accepts], proved sound) and the data flow of the
   algorithm's own step model, attribute by attribute (Model/AlgSteps.v, [iter_rules]). *)
From Coq Require Import ZArith Bool List.
Import ListNotations.
From PV Require Import Base.Num Model.Evaluate Model.AlgSkeleton Model.AlgSteps Proofs.AlgSkeletonProofs.
Open Scope Z_scope.

Definition c01batch := (list nat * list (option nat) * list nat)%type.   (* before, provenance, after *)
Definition c01step := (list c01batch * list (attr * list nat))%type.      (* batches, what each exposed attribute holds *)
Record c01case := K1 {
  k_alg : algid;
  k_types : list ev_ty;
  k_cons : list ev_cdecl;            (* declared constraints *)
  k_tab : list ev_call;              (* every call of the user function logged during the run *)
  k_sols : list ev_sol;              (* distinct snapshots *)
  k_init : list nat;                 (* injected solutions *)
  k_steps : list c01step }.

Definition c01_dflt : ev_sol := mkSol 0%nat [] [] [] ev_zero false false.
Definition c01_get (k : c01case) (i : nat) : ev_sol := nth i (k_sols k) c01_dflt.
Definition c01_exposed (k : c01case) (st : c01step) : list ev_sol := map (c01_get k) (flat_map snd (snd st)).
Definition c01_trace (k : c01case) : trace ev_val ev_num :=
  mkTrace (map (c01_get k) (k_init k))
          (map (fun st : c01step =>
                  mkStep (map (fun b : c01batch =>
                                 mkBatch (map (c01_get k) (fst (fst b))) (snd (fst b)) (map (c01_get k) (snd b)))
                              (fst st))
                         (c01_exposed k st))
               (k_steps k)).

(* the logged run is a trace of the skeleton (and the injected solutions are consistent) *)
Definition c01_check (k : c01case) : bool :=
  forallb ev_wf_ty_b (k_types k) &&
  forallb (ev_safe_b (k_types k) (k_tab k) (k_cons k)) (t_init (c01_trace k)) &&
  ev_accepts (k_types k) (k_tab k) (k_cons k) (c01_trace k).

(* every logged step has the data flow of the algorithm's own step model *)
Definition ev_sol_eqb : ev_sol -> ev_sol -> bool := sol_eqb ev_val ev_num ev_val_eqb ev_num_eqb.
Fixpoint c01_flow_steps (k : c01case) (first : bool) (old : amap ev_sol) (steps : list c01step) : bool :=
  match steps with
  | [] => true
  | st :: r =>
      let new := map (fun p : attr * list nat => (fst p, map (c01_get k) (snd p))) (snd st) in
      let afters := map (fun b : c01batch => map (c01_get k) (snd b)) (fst st) in
      shape_ok ev_sol ev_sol_eqb sid (if first then init_rules (k_alg k) else iter_rules (k_alg k)) old new afters
      && c01_flow_steps k false new r
  end.
Definition c01_flow_check (k : c01case) : bool := c01_flow_steps k true [] (k_steps k).

Definition c01_check_both (k : c01case) : bool := c01_check k && c01_flow_check k.

(* "model first" search when a trace is rejected: is some exposed snapshot not Good? *)
Definition c01_exposed_good (k : c01case) : bool :=
  forallb (fun st => forallb (ev_good_b (k_types k) (k_tab k) (k_cons k)) (s_exposed st)) (t_steps (c01_trace k)).
