(* Correspondence harness for C01: one case = one traced run of a real algorithm.
   The snapshots of solutions are shipped once, in a table, and referenced by index. *)
From Coq Require Import ZArith Bool List.
Import ListNotations.
From PV Require Import Base.Num Model.Evaluate Model.AlgSkeleton Proofs.AlgSkeletonProofs.
Open Scope Z_scope.

Definition c01batch := (list nat * list (option nat) * list nat)%type.   (* before, provenance, after *)
Definition c01step := (list c01batch * list nat)%type.                    (* batches, exposed *)
Record c01case := K1 {
  k_types : list ev_ty;
  k_cons : list ev_cdecl;            (* declared constraints *)
  k_tab : list ev_call;              (* every call of the user function logged during the run *)
  k_sols : list ev_sol;              (* distinct snapshots *)
  k_init : list nat;                 (* injected solutions *)
  k_steps : list c01step }.

Definition c01_dflt : ev_sol := mkSol 0%nat [] [] [] ev_zero false false.
Definition c01_get (k : c01case) (i : nat) : ev_sol := nth i (k_sols k) c01_dflt.
Definition c01_trace (k : c01case) : trace ev_val ev_num :=
  mkTrace (map (c01_get k) (k_init k))
          (map (fun st : c01step =>
                  mkStep (map (fun b : c01batch =>
                                 mkBatch (map (c01_get k) (fst (fst b))) (snd (fst b)) (map (c01_get k) (snd b)))
                              (fst st))
                         (map (c01_get k) (snd st)))
               (k_steps k)).

(* the logged run is a trace of the skeleton (and the injected solutions are consistent) *)
Definition c01_check (k : c01case) : bool :=
  forallb ev_wf_ty_b (k_types k) &&
  forallb (ev_safe_b (k_types k) (k_tab k) (k_cons k)) (t_init (c01_trace k)) &&
  ev_accepts (k_types k) (k_tab k) (k_cons k) (c01_trace k).

(* "model first" search when a trace is rejected: is some exposed snapshot not Good? *)
Definition c01_exposed_good (k : c01case) : bool :=
  forallb (fun st => forallb (ev_good_b (k_types k) (k_tab k) (k_cons k)) (s_exposed st)) (t_steps (c01_trace k)).
