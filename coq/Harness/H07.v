(* Correspondence harness for C07. *)
From Coq Require Import ZArith Bool List.
Import ListNotations.
From PV Require Import Base.Num Model.Evaluate Model.AlgSkeleton.
Open Scope Z_scope.

(* every argument vector the user function received during one traced run;
   k7_expect = false for negative controls (vectors known to be out of domain) *)
Record c07case := K7 { k7_types : list ev_ty; k7_calls : list (list ev_val); k7_expect : bool }.
Definition c07_check (k : c07case) : bool :=
  Bool.eqb (forallb (in_domain_b (k7_types k)) (k7_calls k)) (k7_expect k).

(* default operator registry: type classes of a problem, what PlatypusConfig chose *)
Record c07reg := K7R { r_types : list tcls; r_variator : option opname; r_mutator : option opname }.
Definition opname_eqb (a b : opname) : bool :=
  match a, b with
  | Op_SBX_PM, Op_SBX_PM | Op_HUX_BitFlip, Op_HUX_BitFlip | Op_PMX_Insertion_Swap, Op_PMX_Insertion_Swap
  | Op_SSX_Replace, Op_SSX_Replace | Op_PM, Op_PM | Op_BitFlip, Op_BitFlip | Op_Insertion_Swap, Op_Insertion_Swap
  | Op_Replace, Op_Replace => true
  | _, _ => false
  end.
Definition oop_eqb (a b : option opname) : bool :=
  match a, b with Some x, Some y => opname_eqb x y | None, None => true | _, _ => false end.
Definition c07reg_check (k : c07reg) : bool :=
  oop_eqb (default_variator (r_types k)) (r_variator k) && oop_eqb (default_mutator (r_types k)) (r_mutator k).

(* ParticleSwarm._update_positions on one particle: candidate values (position + velocity as
   computed by the implementation), velocities, and what the implementation stored *)
Record c07pso := K7P { p_types : list ev_ty; p_values : list ev_num; p_vels : list ev_num;
                       p_newpos : list ev_val; p_newvels : list ev_num }.
Fixpoint nums_eqb (a b : list ev_num) : bool :=
  match a, b with [], [] => true | x :: a', y :: b' => ev_num_eqb x y && nums_eqb a' b' | _, _ => false end.
Definition c07pso_check (k : c07pso) : bool :=
  let r := pso_update_positions (p_types k) (p_values k) (p_vels k) in
  ev_vals_eqb (fst r) (p_newpos k) && nums_eqb (snd r) (p_newvels k).

(* CMAES.sample for one solution: the successive candidate vectors, what was stored *)
Record c07cma := K7C { c_types : list ev_ty; c_tape : list (list ev_num); c_result : list ev_val }.
Definition c07cma_check (k : c07cma) : bool :=
  match cma_sample (S (length (c_tape k))) (c_types k) (c_tape k) with
  | Some v => ev_vals_eqb v (c_result k)
  | None => false
  end.
