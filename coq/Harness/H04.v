(* Correspondence harness for C04: one population, the (rank, crowding_distance) the real
   nondominated_sort left on every member, and for every target size k what the real
   nondominated_truncate / nondominated_split / nondominated_prune / truncate_fitness returned;
   replayed on the model by vm_compute. *)
From Coq Require Import ZArith QArith Bool List.
Import ListNotations.
From PV Require Import Base.Num Model.Dominance Model.Archive Model.NDSort Model.Truncate Harness.H03.
Open Scope Z_scope.

(* k4_pool  : the solution objects, object number i (identity) at position i: (objectives, violation)
   k4_pop   : the population handed to the functions, as identities (an object may be listed twice)
   k4_attrs : (rank, crowding_distance) of k4_pop's members after nondominated_sort(population)
   k4_cuts  : per size k: identities returned by nondominated_truncate, by nondominated_split (first, last),
              and (identity, crowding_distance afterwards) of nondominated_prune's result
   k4_fit   : fitness attribute of object i;  k4_fcuts : (k, larger_preferred, identities of truncate_fitness) *)
Record c04case := C4 { k4_con : bool; k4_dirs : list bool;
                       k4_pool : list (list xq * xq);
                       k4_pop : list nat;
                       k4_attrs : list (nat * xq);
                       k4_cuts : list (nat * list nat * (list nat * list nat) * list (nat * xq));
                       k4_fit : list xq;
                       k4_fcuts : list (nat * bool * list nat) }.

Definition asids (l : list asol) : list nat := map (fun a => sid (a_sol a)) l.

Fixpoint attrs_eqb (m : list asol) (i : list (nat * xq)) : bool :=
  match m, i with
  | [], [] => true
  | a :: m', (r, c) :: i' => Nat.eqb (a_rank a) r && xsame (a_crowd a) c && attrs_eqb m' i'
  | _, _ => false
  end.

Fixpoint sidcrowd_eqb (m : list asol) (i : list (nat * xq)) : bool :=
  match m, i with
  | [], [] => true
  | a :: m', (s, c) :: i' => Nat.eqb (sid (a_sol a)) s && xsame (a_crowd a) c && sidcrowd_eqb m' i'
  | _, _ => false
  end.

Definition cut_ok (nobjs : nat) (ann : list asol) (cut : nat * list nat * (list nat * list nat) * list (nat * xq)) : bool :=
  match cut with
  | (k, tr, (sf, sl), pr) =>
      nats_eqb (asids (nondominated_truncate ann k)) tr
      && match nondominated_split ann k with
         | Some (f, l) => nats_eqb (asids f) sf && nats_eqb (asids l) sl
         | None => false
         end
      && match nondominated_prune nobjs ann k with
         | Some out => sidcrowd_eqb out pr
         | None => false
         end
  end.

Fixpoint zip_fit (pop : list xsol) (fit : list xq) (ids : list nat) : option (list (nat * xq)) :=
  match ids with
  | [] => Some []
  | i :: r => match nth_error fit i, zip_fit pop fit r with
              | Some f, Some l => Some ((i, f) :: l)
              | _, _ => None
              end
  end.

Definition fcut_ok (fpop : list (nat * xq)) (fc : nat * bool * list nat) : bool :=
  match fc with
  | (k, larger, out) => nats_eqb (map fst (truncate_fitness snd fpop k larger)) out
  end.

Definition c04_check (k : c04case) : bool :=
  let pool := mk_pool 0 (k4_pool k) in
  match get_all pool (k4_pop k) with
  | None => false
  | Some pop =>
      match x_nd_sort (k4_con k) (k4_dirs k) pop with
      | None => false
      | Some ann =>
          attrs_eqb ann (k4_attrs k)
          && forallb (cut_ok (length (k4_dirs k)) ann) (k4_cuts k)
          && match zip_fit pop (k4_fit k) (k4_pop k) with
             | None => false
             | Some fpop => forallb (fcut_ok fpop) (k4_fcuts k)
             end
      end
  end.
