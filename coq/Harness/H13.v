(* Correspondence harness for C13: one split of a real seeded run at a step boundary, checked against the
   composition law of the run-loop model by vm_compute (compose_check, Model/Resume.v). *)
From Coq Require Import Arith Bool List.
Import ListNotations.
From PV Require Import Base.Num Model.RunLoop Model.Resume.

(* budgets of the two consecutive calls; evaluations per step logged during each of them (same object, in-memory
   continuation — the continuation in a new process after save/load logged the same list, checked by the driver);
   evaluations per step of the uninterrupted single call; does the property claim composition for this algorithm *)
Record c13case := T13 { s_N1 : nat; s_N2 : nat; s_sizes1 : list nat; s_sizes2 : list nat;
                        s_single : list nat; s_claimed : bool }.

Definition c13_check (c : c13case) : bool :=
  compose_check (s_N1 c) (s_N2 c) (s_sizes1 c) (s_sizes2 c) (s_single c) (s_claimed c).
