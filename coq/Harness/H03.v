(* Correspondence harness for C03: an operation history on a real Archive, with the
   value returned and the full contents (as identities) observed after EVERY
   operation, replayed on the model by vm_compute. *)
From Coq Require Import ZArith Bool List.
Import ListNotations.
From PV Require Import Base.Num Model.Dominance Model.Archive.
Open Scope Z_scope.

(* k3_pool : the solution objects of the case, object number i (its identity, sid) at position i,
             each (objectives, constraint_violation)
   k3_ops  : (kind, sids) with kind 0 = add, 1 = append, 2 = extend, 3 = "+= list", 4 = "+= solution"
   k3_impl : per operation, what the implementation returned (Some b for add) and list(archive) as sids
   k3_nd   : sids returned by nondominated(<everything offered, in order>) *)
Record c03case := C3 { k3_con : bool; k3_dirs : list bool;
                       k3_pool : list (list xq * xq);
                       k3_ops : list (nat * list nat);
                       k3_impl : list (option bool * list nat);
                       k3_nd : list nat }.

Fixpoint mk_pool (i : nat) (p : list (list xq * xq)) : list xsol :=
  match p with
  | [] => []
  | (o, v) :: r => Build_sol i o v :: mk_pool (S i) r
  end.

Fixpoint get_all (pool : list xsol) (ids : list nat) : option (list xsol) :=
  match ids with
  | [] => Some []
  | i :: r => match nth_error pool i, get_all pool r with
              | Some s, Some l => Some (s :: l)
              | _, _ => None
              end
  end.

Definition mk_op (pool : list xsol) (o : nat * list nat) : option (op xsol) :=
  match get_all pool (snd o) with
  | None => None
  | Some l =>
      match fst o, l with
      | 0%nat, [s] => Some (OAdd s)
      | 1%nat, [s] => Some (OAppend s)
      | 2%nat, _ => Some (OExtend l)
      | 3%nat, _ => Some (OIaddList l)
      | 4%nat, [s] => Some (OIaddOne s)
      | _, _ => None
      end
  end.

Fixpoint mk_ops (pool : list xsol) (os : list (nat * list nat)) : option (list (op xsol)) :=
  match os with
  | [] => Some []
  | o :: r => match mk_op pool o, mk_ops pool r with
              | Some x, Some l => Some (x :: l)
              | _, _ => None
              end
  end.

Definition obool_eqb (a b : option bool) : bool :=
  match a, b with
  | None, None => true
  | Some x, Some y => Bool.eqb x y
  | _, _ => false
  end.

Fixpoint nats_eqb (a b : list nat) : bool :=
  match a, b with
  | [], [] => true
  | x :: r, y :: s => Nat.eqb x y && nats_eqb r s
  | _, _ => false
  end.

Fixpoint trace_eqb (m : list (option bool * list xsol)) (i : list (option bool * list nat)) : bool :=
  match m, i with
  | [], [] => true
  | (r, a) :: m', (r', a') :: i' => obool_eqb r r' && nats_eqb (map sid a) a' && trace_eqb m' i'
  | _, _ => false
  end.

Definition c03_check (k : c03case) : bool :=
  let pool := mk_pool 0 (k3_pool k) in
  match mk_ops pool (k3_ops k) with
  | None => false
  | Some ops =>
      trace_eqb (x_trace (k3_con k) (k3_dirs k) ops []) (k3_impl k)
      && nats_eqb (map sid (x_nondominated (k3_con k) (k3_dirs k) (offered xsol ops))) (k3_nd k)
  end.
