(* Correspondence harness for C08: a logged sequence of run() calls on one real algorithm object,
   checked against the run-loop model by vm_compute (accepts, Model/RunLoop.v section 5;
   meaning of acceptance: Props/C08.v c08_accepts_sound). *)
From Coq Require Import Arith Bool List.
Import ListNotations.
From PV Require Import Base.Num Model.RunLoop.

(* algorithm kind; the logged calls [(N, steps, nfe after the call)], each step =
   batches of (solution identity, evaluated flag when submitted), nfe after, identities really evaluated,
   configuration before the step, skeleton applicable? *)
Record c08case := T8 { k_kind : akind; k_calls : list lcall }.

Definition c08_check (c : c08case) : bool := accepts (k_kind c) (k_calls c).
