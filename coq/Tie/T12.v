(* Tie/T12.v — _chunks GENERATED from platypus/evaluator.py (Gen/Core.v, regenerated from the source text on every
   run) is [chunks] of Model/Chunks.v: the list of chunks the generator yields, for every element type, every
   item list and every integer n (including n <= 0).  The generator is read as the list of the values it yields;
   "it = iter(items); try: while True: ... next(it) ... except StopIteration: ..." is read as
   "for x in items: ... ; <handler>" (see harness/translate/py2coq_core.py). *)
From Coq Require Import ZArith Bool List Lia.
Import ListNotations.
From PV Require Import Base.PyCore Gen.Core Model.Chunks.
Open Scope Z_scope.

Section T12.
  Variable T : Type.
  Variable n : Z.

  (* one iteration of the model on the state (chunks yielded so far, chunk being filled) *)
  Definition chunk_step (st : list (list T) * list T) (x : T) : list (list T) * list T :=
    let acc' := snd st ++ [x] in
    if Z.of_nat (length acc') =? n then (fst st ++ [acc'], []) else (fst st, acc').

  Definition flush (st : list (list T) * list T) : list (list T) :=
    match snd st with [] => fst st | _ :: _ => fst st ++ [snd st] end.

  Lemma chunk_fold : forall (l : list T) (out : list (list T)) (acc : list T),
    flush (fold_left chunk_step l (out, acc)) = out ++ chunks_aux n acc l.
  Proof.
    induction l as [|x l IH]; intros out acc; cbn [fold_left chunks_aux].
    - unfold flush. cbn [fst snd]. destruct acc; [now rewrite app_nil_r|reflexivity].
    - unfold chunk_step at 2. cbn [fst snd].
      destruct (Z.of_nat (length (acc ++ [x])) =? n).
      + rewrite IH. rewrite <- app_assoc. reflexivity.
      + apply IH.
  Qed.

  Theorem tie_chunks : forall items : list T, Core.chunks T items n = Some (chunks n items).
  Proof.
    intro items. unfold Core.chunks, chunks. cbv zeta.
    erewrite for_list_ext; [rewrite (for_list_total chunk_step)|].
    2: { intros x [out acc]. unfold chunk_step, py_len. cbn [fst snd].
         destruct (Z.of_nat (length (acc ++ [x])) =? n); reflexivity. }
    cbn [bind].
    pose proof (chunk_fold items [] []) as H. cbn [app] in H. rewrite <- H.
    destruct (fold_left chunk_step items ([], [])) as [out acc]. unfold flush, py_len. cbn [fst snd].
    destruct acc as [|a acc]; [reflexivity|].
    assert (E : (Z.of_nat (length (a :: acc)) >? 0) = true) by (rewrite Z.gtb_ltb; apply Z.ltb_lt; cbn [length]; lia).
    rewrite E. reflexivity.
  Qed.
End T12.

(* ---- C12 (chunking clause) stated about the GENERATED _chunks: the definition produced from the source text
   always answers; the chunks it yields, concatenated, are the jobs in their original order; no chunk is empty;
   for n > 0 every chunk but the last has exactly n jobs and the last between 1 and n. ---- *)
From PV Require Import Props.C12.

Theorem tie_c12_generated_chunks_concat : forall (A : Type) (n : Z) (l : list A),
  exists cs, Core.chunks A l n = Some cs /\ concat cs = l /\ Forall (fun c => c <> []) cs.
Proof.
  intros A n l. exists (chunks n l). split; [apply tie_chunks|].
  split; [apply c12_chunks_concat|apply c12_chunks_nonempty].
Qed.

Theorem tie_c12_generated_chunks_sizes : forall (A : Type) (n : Z) (l : list A) (pre : list (list A)) (last : list A),
  (0 < n)%Z -> Core.chunks A l n = Some (pre ++ [last]) ->
  Forall (fun c => Z.of_nat (length c) = n) pre /\ (0 < Z.of_nat (length last) <= n)%Z.
Proof.
  intros A n l pre last Hn H. rewrite tie_chunks in H. injection H as H.
  exact (c12_chunks_sizes A n l pre last Hn H).
Qed.

Print Assumptions tie_c12_generated_chunks_concat.
Print Assumptions tie_c12_generated_chunks_sizes.
