(* Tie/T09.v — GeneticAlgorithm.iterate, EvolutionaryStrategy.iterate and GDE3.survival GENERATED from
   platypus/algorithms.py (Gen/Core.v, regenerated from the source text on every run) against Model/Survival.v.

   Reading (declared in harness/translate/py2coq_core.py): self.selector.select, self.variator.evolve and
   self.evaluate_all are EFFECTS on an opaque world (RNG, nfe, evaluator state) that return / update lists of
   solutions; solutions are values of an opaque type; sorted(l, key=functools.cmp_to_key(c)) is the stable sort by
   "c(a, b) < 0".  The models of Survival.v describe what happens AFTER evaluate_all; the part before it (the
   offspring loop) has no hand model and appears on both sides as the same loop over the declared effects.
   So the theorems say: the generated function = offspring loop ; evaluate_all ; the model's survival step. *)
From Coq Require Import ZArith Bool List Lia.
Import ListNotations.
From PV Require Import Base.Num Base.StableSort Base.PyCore Gen.Core Model.Truncate Model.Survival.
Open Scope Z_scope.

Section T09.
  Variables T W : Type.
  Variable cmp : T -> T -> Z.                         (* self.comparator / self.dominance.compare *)

  Local Notation py_sorted := (fun (l : list T) (k : T -> T -> bool) => ssort k l).

  (* ---------------- GeneticAlgorithm.iterate ---------------- *)
  Section GA.
    Variable select : W -> Z -> list T -> W * list T.
    Variable evolve : W -> list T -> W * list T.
    Variable evaluate_all : W -> list T -> W * list T.
    Variables arity offspring_size : Z.

    (* while len(offspring) < self.offspring_size: parents = select(arity, population); offspring.extend(evolve(parents)) *)
    Definition ga_offspring (R : Type) (fuel : nat) (world : W) (population : list T) : ctl (list T * W) R :=
      while_fuel fuel (fun '(offspring, w) => py_len offspring <? offspring_size)
                 (fun '(offspring, w) =>
                    let '(w1, parents) := select w arity population in
                    let '(w2, children) := evolve w1 parents in
                    Next (offspring ++ children, w2))
                 ([], world).

    Theorem tie_ga_iterate : forall (fuel : nat) (world : W) (n : nat) (population : list T) (fittest : T),
      Core.GeneticAlgorithm_iterate T (T -> T -> bool) (T -> T -> Z) W fuel world select evolve arity evaluate_all
                                    offspring_size (Z.of_nat n) py_sorted cmp_key_lt cmp population fittest
      = match ga_offspring (W * list T * T) fuel world population with
        | Next (offspring, w) =>
            let '(w', evaluated) := evaluate_all w offspring in
            match ga_iterate cmp evaluated fittest n with
            | Some (population', fittest') => Some (w', population', fittest')
            | None => None
            end
        | Ret r => Some r            (* never happens: the loop body has no return *)
        | Raise => None              (* out of fuel *)
        end.
    Proof.
      intros fuel world n population fittest.
      unfold Core.GeneticAlgorithm_iterate, ga_offspring. cbv zeta.
      match goal with |- context [bind ?loop _] => destruct loop as [[offspring w]| |] end; cbn [bind finish]; try reflexivity.
      destruct (evaluate_all w offspring) as [w' evaluated].
      unfold ga_iterate, sort_cmp. rewrite py_upto_z_nat.
      destruct (firstn n (ssort (cmp_key_lt cmp) (evaluated ++ [fittest]))) as [|f r]; reflexivity.
    Qed.
  End GA.

  (* ---------------- EvolutionaryStrategy.iterate ---------------- *)
  Section ES.
    Variable evolve : W -> list T -> W * list T.
    Variable evaluate_all : W -> list T -> W * list T.
    Variable offspring_size : Z.

    (* for i in range(self.offspring_size): parents = [population[i % len(population)]]; offspring.extend(evolve(parents)) *)
    Definition es_offspring (R : Type) (world : W) (population : list T) : ctl (list T * W) R :=
      for_range offspring_size
                (fun i '(offspring, w) =>
                   get (py_mod i (py_len population)) (fun k =>
                   get (py_index population k) (fun parent =>
                   let '(w2, children) := evolve w [parent] in
                   Next (offspring ++ children, w2))))
                ([], world).

    Theorem tie_es_iterate : forall (world : W) (n : nat) (population : list T),
      Core.EvolutionaryStrategy_iterate T (T -> T -> bool) (T -> T -> Z) W world evolve evaluate_all
                                        offspring_size (Z.of_nat n) py_sorted cmp_key_lt cmp population
      = match es_offspring (W * list T) world population with
        | Next (offspring, w) =>
            let '(w', evaluated) := evaluate_all w offspring in
            Some (w', es_iterate cmp evaluated population n)
        | Ret r => Some r            (* never happens: the loop body has no return *)
        | Raise => None              (* ZeroDivisionError (empty population) *)
        end.
    Proof.
      intros world n population.
      unfold Core.EvolutionaryStrategy_iterate, es_offspring. cbv zeta.
      match goal with |- context [bind ?loop _] => destruct loop as [[offspring w]| |] end; cbn [bind finish]; try reflexivity.
      destruct (evaluate_all w offspring) as [w' evaluated].
      unfold es_iterate, sort_cmp. now rewrite py_upto_z_nat.
    Qed.
  End ES.

  (* ---------------- GDE3.survival ---------------- *)
  Definition gde3_pick (o p : T) : list T :=
    (if cmp o p <=? 0 then [o] else []) ++ (if cmp o p >=? 0 then [p] else []).

  Lemma gde3_loop : forall (R : Type) (n : nat) (offspring population : list T)
                           (body : Z -> list T -> ctl (list T) R) (acc : list T),
    (forall i a, body (Z.of_nat i) a =
                 match nth_error offspring i, nth_error population i with
                 | Some o, Some p => Next (a ++ gde3_pick o p)
                 | _, _ => Raise
                 end) ->
    for_range (Z.of_nat n) body acc
    = match gde3_select cmp n offspring population with
      | Some r => Next (acc ++ r)
      | None => Raise
      end.
  Proof.
    intros R. induction n as [|n IH]; intros offspring population body acc Hb.
    - cbn [gde3_select]. rewrite for_range_0. now rewrite app_nil_r.
    - rewrite for_range_succ. pose proof (Hb 0%nat acc) as H0. change (Z.of_nat 0) with 0 in H0. rewrite H0.
      cbn [gde3_select]. destruct offspring as [|o os]; [reflexivity|]. destruct population as [|p ps]; [reflexivity|].
      cbn [nth_error bind].
      rewrite (IH os ps (fun i => body (Z.succ i))).
      + destruct (gde3_select cmp n os ps) as [rest|]; [|reflexivity].
        unfold gde3_pick. now rewrite <- !app_assoc.
      + intros i a. rewrite <- Nat2Z.inj_succ. rewrite Hb. reflexivity.
  Qed.

  Theorem tie_gde3_survival : forall (nd_sort : list T -> option (list T)) (prune : list T -> Z -> option (list T))
                                     (n : nat) (population offspring : list T),
    Core.GDE3_survival T cmp nd_sort prune (Z.of_nat n) population offspring
    = match gde3_select cmp n offspring population with
      | None => None
      | Some next =>
          match nd_sort next with
          | None => None
          | Some ranked => prune ranked (Z.of_nat n)
          end
      end.
  Proof.
    intros nd_sort prune n population offspring. unfold Core.GDE3_survival. cbv zeta.
    rewrite (gde3_loop _ n offspring population).
    - destruct (gde3_select cmp n offspring population) as [next|]; cbn [bind finish app]; [|reflexivity].
      destruct (nd_sort next) as [ranked|]; cbn [get finish]; [|reflexivity].
      destruct (prune ranked (Z.of_nat n)); reflexivity.
    - intros i a. rewrite !py_index_nat.
      destruct (nth_error offspring i) as [o|]; cbn [get]; [|reflexivity].
      destruct (nth_error population i) as [p|]; cbn [get]; [|reflexivity].
      unfold gde3_pick.
      destruct (cmp o p <=? 0); destruct (cmp o p >=? 0); cbn [get bind app]; rewrite ?app_nil_r, <- ?app_assoc; reflexivity.
  Qed.
End T09.

(* at the executable carrier of C09: the first stage and the two callees are Model/Survival.gde3_survival's *)

(* ---- C09 (single-objective clause) stated about the GENERATED GeneticAlgorithm.iterate and
   EvolutionaryStrategy.iterate: whatever selection, variation and evaluation do (opaque callees, only required to
   hand back solutions satisfying P), if the definition produced from the source text finishes a generation then
   the old fittest does not beat the new fittest, which belongs to the new population (GA); no parent beats the head
   of the new population (ES).  [lt] = compare(a, b) < 0 under functools.cmp_to_key, a strict weak order on P. ---- *)
From PV Require Import Proofs.SurvivalProofs Props.C09.
Open Scope Z_scope.

Section C09_generated.
  Variables T W : Type.
  Variable cmp : T -> T -> Z.
  Variable P : T -> Prop.
  Notation lt := (cmp_key_lt cmp).
  Hypothesis lt_irrefl : forall x, P x -> lt x x = false.
  Hypothesis lt_trans : forall x y z, P x -> P y -> P z -> lt x y = true -> lt y z = true -> lt x z = true.
  Hypothesis lt_cotrans : forall x y z, P x -> P y -> P z -> lt x y = true -> lt x z = true \/ lt z y = true.
  Variable select : W -> Z -> list T -> W * list T.
  Variable evolve : W -> list T -> W * list T.
  Variable evaluate_all : W -> list T -> W * list T.
  Hypothesis evaluated_ok : forall w l, Forall P (snd (evaluate_all w l)).
  Variables arity offspring_size : Z.
  Local Notation py_sorted := (fun (l : list T) (k : T -> T -> bool) => ssort k l).

  Theorem tie_c09_generated_ga_best_monotone : forall (fuel : nat) (world : W) (n : nat) (population : list T) (fittest : T) w' pop' f',
    P fittest ->
    Core.GeneticAlgorithm_iterate T (T -> T -> bool) (T -> T -> Z) W fuel world select evolve arity evaluate_all
                                  offspring_size (Z.of_nat n) py_sorted cmp_key_lt cmp population fittest
      = Some (w', pop', f') ->
    lt fittest f' = false /\ (forall y, In y pop' -> lt y f' = false) /\ In f' pop' /\ (length pop' <= n)%nat.
  Proof.
    intros fuel world n population fittest w' pop' f' Pf H.
    rewrite (tie_ga_iterate T W cmp select evolve evaluate_all arity offspring_size) in H.
    destruct (ga_offspring T W select evolve arity offspring_size (W * list T * T) fuel world population) as [[offspring w]|r|] eqn:EL;
      [| |discriminate].
    - pose proof (evaluated_ok w offspring) as He.
      destruct (evaluate_all w offspring) as [w1 evaluated]. cbn [snd] in He.
      destruct (ga_iterate cmp evaluated fittest n) as [[p1 f1]|] eqn:E; [|discriminate].
      injection H as _ Hp Hf. subst p1 f1.
      assert (HP : Forall P (evaluated ++ [fittest])) by (apply Forall_app; split; [exact He|constructor; [exact Pf|constructor]]).
      destruct (c09_ga_best_monotone T cmp P lt_irrefl lt_trans lt_cotrans evaluated fittest n pop' f' HP E)
        as [A [_ [B [C [_ D]]]]].
      repeat split; assumption.
    - exfalso. clear H.
      unfold ga_offspring in EL. revert EL.
      generalize (@nil T, world). induction fuel as [|f IH]; intros [o w]; cbn [while_fuel].
      + destruct (py_len o <? offspring_size); discriminate.
      + destruct (py_len o <? offspring_size); [|discriminate].
        destruct (select w arity population) as [w1 parents]. destruct (evolve w1 parents) as [w2 children]. apply IH.
  Qed.

  Theorem tie_c09_generated_es_best_monotone : forall (world : W) (n : nat) (population : list T) w' h r,
    Forall P population ->
    Core.EvolutionaryStrategy_iterate T (T -> T -> bool) (T -> T -> Z) W world evolve evaluate_all
                                      offspring_size (Z.of_nat n) py_sorted cmp_key_lt cmp population
      = Some (w', h :: r) ->
    (forall p, In p population -> lt p h = false) /\ (forall y, In y (h :: r) -> lt y h = false).
  Proof.
    intros world n population w' h r Pp H.
    rewrite (tie_es_iterate T W cmp evolve evaluate_all offspring_size) in H.
    destruct (es_offspring T W evolve offspring_size (W * list T) world population) as [[offspring w]|r0|] eqn:EL;
      [| |discriminate].
    - pose proof (evaluated_ok w offspring) as He.
      destruct (evaluate_all w offspring) as [w1 evaluated]. cbn [snd] in He.
      injection H as _ Hp.
      assert (HP : Forall P (evaluated ++ population)) by (apply Forall_app; split; assumption).
      destruct (c09_es_best_monotone T cmp P lt_irrefl lt_trans lt_cotrans evaluated population n h r HP Hp)
        as [A [_ [B _]]].
      split; assumption.
    - exfalso. clear H.
      unfold es_offspring, for_range in EL. revert EL.
      generalize (@nil T, world). induction (zrange offspring_size) as [|i l IH]; intros [o w]; cbn [for_list]; [discriminate|].
      destruct (py_mod i (py_len population)) as [k|]; cbn [get]; [|discriminate].
      destruct (py_index population k) as [parent|]; cbn [get]; [|discriminate].
      destruct (evolve w [parent]) as [w2 children]. apply IH.
  Qed.
End C09_generated.

Print Assumptions tie_c09_generated_ga_best_monotone.
Print Assumptions tie_c09_generated_es_best_monotone.
