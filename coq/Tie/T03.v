(* Tie/T03.v — Archive.add GENERATED from platypus/core.py (Gen/Core.v, regenerated from the source text on every
   run) is [add] of Model/Archive.v, for every element type and every comparator.  The generated definition takes
   self._dominance.compare as a parameter that may raise (option); the model's comparator is total, so it is
   passed as  fun x y => Some (cmp x y)  and the generated function then never answers None.  The result is the
   pair (new self._contents, returned bool), as in the model. *)
From Coq Require Import ZArith Bool List Lia.
Import ListNotations.
From PV Require Import Base.PyCore Gen.Core Model.Archive.
Open Scope Z_scope.

Lemma py_compress_is_compress {A} (data : list A) (sel : list bool) : py_compress data sel = compress data sel.
Proof.
  revert sel. induction data as [|d data IH]; intros [|b sel]; cbn [py_compress compress]; rewrite ?IH; reflexivity.
Qed.

Theorem tie_archive_add : forall (T : Type) (cmp : T -> T -> Z) (a : list T) (s : T),
  Core.Archive_add T (fun x y => Some (cmp x y)) a s = Some (add T cmp a s).
Proof.
  intros T cmp a s. unfold Core.Archive_add, add.
  rewrite (map_opt_total (fun m => cmp s m)). cbn [get]. cbv zeta.
  unfold py_any. rewrite py_compress_is_compress.
  match goal with |- context [existsb ?f ?l] => destruct (existsb f l) end; reflexivity.
Qed.

(* a comparator that raises makes add raise (the model has no such case: its comparator is total) *)
Example archive_add_propagates_exception : forall (T : Type) (s m : T),
  Core.Archive_add T (fun _ _ => None) [m] s = None.
Proof. reflexivity. Qed.

(* ---- C03 stated about the GENERATED Archive.add: offering l one by one to an empty archive through the
   definition produced from the source text leaves exactly the non-dominated subset of l (order and
   multiplicity included), for every comparator with the laws of a strict dominance (Props/C03.v). ---- *)
From PV Require Import Props.C03.

Definition gen_offer {T} (cmp : T -> T -> Z) (acc : option (list T)) (s : T) : option (list T) :=
  match acc with
  | Some a => match Core.Archive_add T (fun x y => Some (cmp x y)) a s with
              | Some (a', _) => Some a'
              | None => None
              end
  | None => None
  end.

Lemma gen_offer_fold {T} (cmp : T -> T -> Z) : forall l a,
  fold_left (gen_offer cmp) l (Some a) = Some (fold_left (fun a s => fst (add T cmp a s)) l a).
Proof.
  induction l as [|s l IH]; intro a; cbn [fold_left]; [reflexivity|].
  unfold gen_offer at 2. rewrite tie_archive_add. destruct (add T cmp a s) as [a' b] eqn:E. cbn [fst].
  apply IH.
Qed.

Theorem tie_c03_generated_archive_char : forall (T : Type) (cmp : T -> T -> Z) (P : T -> Prop),
  (forall x y, cmp x y = -1 \/ cmp x y = 0 \/ cmp x y = 1) ->
  (forall x y, P x -> P y -> cmp y x = - cmp x y) ->
  (forall x y z, P x -> P y -> P z -> dom T cmp x y = true -> dom T cmp y z = true -> dom T cmp x z = true) ->
  (forall x, P x -> dom T cmp x x = false) ->
  forall l, Forall P l -> fold_left (gen_offer cmp) l (Some []) = Some (filter (nd T cmp l) l).
Proof.
  intros T cmp P H1 H2 H3 H4 l Hl. rewrite gen_offer_fold. f_equal.
  exact (c03_archive_char T cmp P H1 H2 H3 H4 l Hl).
Qed.

Print Assumptions tie_c03_generated_archive_char.
