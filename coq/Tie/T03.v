(* Tie/T03.v — Archive.add GENERATED from platypus/core.py (Gen/Core.v, regenerated from the source text on every
   run) is [add] of Model/Archive.v, for every element type and every comparator.  The generated definition takes
   self._dominance.compare as a parameter that may raise (option); the model's comparator is total, so it is
   passed as  fun x y => Some (cmp x y)  and the generated function then never answers None.  The result is the
   pair (new self._contents, returned bool), as in the model. *)
From Coq Require Import ZArith Bool List Lia.
Import ListNotations.
From PV Require Import Base.PyCore Gen.Core Model.Archive.
Open Scope Z_scope.

Lemma py_compress_is_compress {A} (data : list A) (sel : list bool) : py_compress data sel = compress data sel.
Proof.
  revert sel. induction data as [|d data IH]; intros [|b sel]; cbn [py_compress compress]; rewrite ?IH; reflexivity.
Qed.

Theorem tie_archive_add : forall (T : Type) (cmp : T -> T -> Z) (a : list T) (s : T),
  Core.Archive_add T (fun x y => Some (cmp x y)) a s = Some (add T cmp a s).
Proof.
  intros T cmp a s. unfold Core.Archive_add, add.
  rewrite (map_opt_total (fun m => cmp s m)). cbn [get]. cbv zeta.
  unfold py_any. rewrite py_compress_is_compress.
  match goal with |- context [existsb ?f ?l] => destruct (existsb f l) end; reflexivity.
Qed.

(* a comparator that raises makes add raise (the model has no such case: its comparator is total) *)
Example archive_add_propagates_exception : forall (T : Type) (s m : T),
  Core.Archive_add T (fun _ _ => None) [m] s = None.
Proof. reflexivity. Qed.
