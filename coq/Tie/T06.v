(* Tie/T06.v — clip GENERATED from platypus/_math.py (Gen/Core.v, regenerated from the source text on every run)
   is the hand model Base/FVal.clip, on float VALUES INCLUDING NaN: for every record of operations over
   [fval] whose "<" is [fltb] (every comparison with NaN is false).  Python's min(a, b) / max(a, b) keep their
   FIRST argument unless the second is strictly smaller / larger (py_min / py_max of Base/PyCore.v), so the
   argument order of the source is part of the statement: min(max(v, lb), ub) is a different function
   (FVal.clip_reordered_nan). *)
From Coq Require Import ZArith QArith Bool List.
From PV Require Import Base.Num Base.FVal Base.PyCore Gen.Core.

Theorem tie_clip : forall (O : NumOps fval), n_lt O = fltb ->
  forall value min_value max_value : fval,
  Core.clip fval O value min_value max_value = FVal.clip value min_value max_value.
Proof.
  intros O H v lb ub.
  unfold Core.clip, py_max, py_min, FVal.clip, fmax, fmin, fgtb. rewrite H. cbv zeta.
  repeat match goal with
         | |- context [if fltb ?a ?b then _ else _] => destruct (fltb a b) eqn:?
         end; congruence.
Qed.

(* such a record exists (only "<" is used by clip) *)
Example fval_record_exists : exists O : NumOps fval, n_lt O = fltb.
Proof.
  exists {| n_lt := fltb; n_le := fleb; n_eq := feqb; n_neg := fun a => a;
            n_add := fun a _ => a; n_sub := fun a _ => a; n_mul := fun a _ => a; n_div := fun a _ => a;
            n_abs := fun a => a; n_floor := fun _ => 0%Z; n_of_Z := fun z => FX (FZ z); n_lit := fun q => FX (Fin q) |}.
  reflexivity.
Qed.

(* what the tie buys: the clip theorems of FVal.v hold of the generated function *)
Corollary generated_clip_in_bounds : forall (O : NumOps fval), n_lt O = fltb ->
  forall v lb ub, xleb lb ub = true -> in_bounds lb ub (Core.clip fval O v (FX lb) (FX ub)).
Proof. intros O H v lb ub Hle. rewrite (tie_clip O H). now apply clip_in_bounds. Qed.
