(* Tie/T05.v — EpsilonDominance.same_box / EpsilonDominance.compare GENERATED from platypus/core.py (Gen/Core.v,
   regenerated from the source text on every run) are [same_box] / [eps_compare] of Model/Epsilon.v, at the
   exact-rational record [Qops] (Qle_bool / Qeq_bool / Qfloor / exact + - * /), including every exception:
   IndexError on a too-short objective vector or an empty epsilon list and ZeroDivisionError on epsilon = 0 are
   None on both sides.  problem.nobjs is the length of problem.directions (the model has no separate nobjs).
   Also: Archive.add generated from the source, given a comparator that may raise, is [eps_arch_add].
   Scripts: one generic induction per loop for ANY body that agrees with the model's step at every index; the
   generated bodies are compared with the steps by case analysis.  Qfloor / Qdiv are never unfolded. *)
From Coq Require Import ZArith QArith Qround Qabs Bool List Lia.
Import ListNotations.
From PV Require Import Base.Num Base.PyCore Gen.Core Model.Epsilon.
Open Scope Z_scope.

(* self.epsilons[i if i < len(self.epsilons) else -1] *)
Lemma eps_index (es : list Q) (i : nat) :
  py_index es (if Z.of_nat i <? py_len es then Z.of_nat i else -1) = eps_at es i.
Proof.
  unfold eps_at, py_len.
  destruct (i <? length es)%nat eqn:E.
  - apply Nat.ltb_lt in E. assert (H : (Z.of_nat i <? Z.of_nat (length es)) = true) by (apply Z.ltb_lt; lia).
    rewrite H. apply py_index_nat.
  - apply Nat.ltb_ge in E. assert (H : (Z.of_nat i <? Z.of_nat (length es)) = false) by (apply Z.ltb_ge; lia).
    rewrite H. destruct es as [|e es]; [reflexivity|]. apply py_index_last. discriminate.
Qed.

(* math.floor(o / epsilon) *)
Lemma div_floor {S R} (e o : Q) (k : Z -> ctl S R) :
  get (py_div Qops o e) (fun t => k (n_floor Qops t))
  = match box_index e o with Some i => k i | None => Raise end.
Proof.
  unfold py_div, box_index. cbn [n_eq n_lit n_div n_floor Qops].
  destruct (Qeq_bool e 0); reflexivity.
Qed.

Section Loops.
  Variable es : list Q.

  (* ---------------- first loop (core.py:888-909, 934-955): box indices, two flags, early exit *)
  Variable R : Type.
  Variable r0 : R.           (* the value of the early "return" : 0 in compare, False in same_box *)

  Definition eps_step (i : nat) (mx : bool) (oa ob : option Q) (d1 d2 : bool) : ctl (bool * bool) R :=
    match oa, ob with
    | Some a, Some b =>
        match eps_at es i with
        | None => Raise
        | Some e =>
            match box_index e (eps_adj mx a), box_index e (eps_adj mx b) with
            | Some i1, Some i2 =>
                if i1 <? i2 then (if d2 then Ret r0 else Next (true, d2))
                else if i1 >? i2 then (if d1 then Ret r0 else Next (d1, true))
                else Next (d1, d2)
            | _, _ => Raise
            end
        end
    | _, _ => Raise
    end.

  Definition scan_ctl (r : option scanres) : ctl (bool * bool) R :=
    match r with
    | None => Raise
    | Some SExit => Ret r0
    | Some (SFlags d1 d2) => Next (d1, d2)
    end.

  Lemma eps_scan_loop : forall (dirs : list bool) (o1 o2 : list Q) (j : nat)
                               (body : Z -> bool * bool -> ctl (bool * bool) R) (d1 d2 : bool),
    (forall i mx e1 e2, nth_error dirs i = Some mx ->
        body (Z.of_nat i) (e1, e2) = eps_step (j + i) mx (nth_error o1 i) (nth_error o2 i) e1 e2) ->
    for_range (Z.of_nat (length dirs)) body (d1, d2) = scan_ctl (eps_scan es j dirs o1 o2 d1 d2).
  Proof.
    induction dirs as [|mx dirs IH]; intros o1 o2 j body d1 d2 Hb.
    - reflexivity.
    - cbn [length]. rewrite for_range_succ.
      pose proof (Hb 0%nat mx d1 d2 eq_refl) as H0. change (Z.of_nat 0) with 0 in H0. rewrite H0. clear H0.
      rewrite Nat.add_0_r.
      destruct o1 as [|a o1]; [reflexivity|]. destruct o2 as [|b o2]; [reflexivity|].
      cbn [nth_error eps_scan]. unfold eps_step.
      assert (Hb' : forall i mx' e1 e2, nth_error dirs i = Some mx' ->
                body (Z.succ (Z.of_nat i)) (e1, e2) = eps_step (S j + i) mx' (nth_error o1 i) (nth_error o2 i) e1 e2).
      { intros i mx' e1 e2 A. rewrite <- Nat2Z.inj_succ. rewrite (Hb (S i) mx' e1 e2 A).
        cbn [nth_error]. now rewrite Nat.add_succ_r. }
      destruct (eps_at es j) as [e|]; [|reflexivity].
      destruct (box_index e (eps_adj mx a)) as [i1|]; [|reflexivity].
      destruct (box_index e (eps_adj mx b)) as [i2|]; [|reflexivity].
      destruct (i1 <? i2).
      + destruct d2; [reflexivity|]. cbn [bind]. now apply IH.
      + destruct (i1 >? i2).
        * destruct d1; [reflexivity|]. cbn [bind]. now apply IH.
        * cbn [bind]. now apply IH.
  Qed.

  (* ---------------- second loop (core.py:958-981): Pareto flags inside the box and corner distances *)
  Definition dist_step (i : nat) (mx : bool) (oa ob : option Q) (dist1 dist2 : Q) (better1 better2 : bool)
    : ctl (Q * Q * bool * bool) R :=
    match oa, ob with
    | Some a, Some b =>
        let a' := eps_adj mx a in
        let b' := eps_adj mx b in
        let better1' := if Qltb a' b' then true else better1 in
        let better2' := if Qltb a' b' then better2 else if Qltb b' a' then true else better2 in
        match eps_at es i with
        | None => Raise
        | Some e =>
            match box_index e a', box_index e b' with
            | Some i1, Some i2 =>
                let t1 := (a' - inject_Z i1 * e)%Q in
                let t2 := (b' - inject_Z i2 * e)%Q in
                Next ((dist1 + t1 * t1)%Q, (dist2 + t2 * t2)%Q, better1', better2')
            | _, _ => Raise
            end
        end
    | _, _ => Raise
    end.

  Lemma eps_dist_loop : forall (dirs : list bool) (o1 o2 : list Q) (j : nat)
                               (body : Z -> Q * Q * bool * bool -> ctl (Q * Q * bool * bool) R)
                               (dist1 dist2 : Q) (b1 b2 : bool),
    (forall i mx x1 x2 c1 c2, nth_error dirs i = Some mx ->
        body (Z.of_nat i) (x1, x2, c1, c2) = dist_step (j + i) mx (nth_error o1 i) (nth_error o2 i) x1 x2 c1 c2) ->
    for_range (Z.of_nat (length dirs)) body (dist1, dist2, b1, b2)
    = match eps_dist es j dirs o1 o2 dist1 dist2 b1 b2 with Some st => Next st | None => Raise end.
  Proof.
    induction dirs as [|mx dirs IH]; intros o1 o2 j body dist1 dist2 b1 b2 Hb.
    - reflexivity.
    - cbn [length]. rewrite for_range_succ.
      pose proof (Hb 0%nat mx dist1 dist2 b1 b2 eq_refl) as H0. change (Z.of_nat 0) with 0 in H0. rewrite H0. clear H0.
      rewrite Nat.add_0_r.
      destruct o1 as [|a o1]; [reflexivity|]. destruct o2 as [|b o2]; [reflexivity|].
      cbn [nth_error eps_dist]. unfold dist_step. cbv zeta.
      assert (Hb' : forall i mx' x1 x2 c1 c2, nth_error dirs i = Some mx' ->
                body (Z.succ (Z.of_nat i)) (x1, x2, c1, c2)
                = dist_step (S j + i) mx' (nth_error o1 i) (nth_error o2 i) x1 x2 c1 c2).
      { intros i mx' x1 x2 c1 c2 A. rewrite <- Nat2Z.inj_succ. rewrite (Hb (S i) mx' x1 x2 c1 c2 A).
        cbn [nth_error]. now rewrite Nat.add_succ_r. }
      destruct (eps_at es j) as [e|]; [|reflexivity].
      destruct (box_index e (eps_adj mx a)) as [i1|]; [|reflexivity].
      destruct (box_index e (eps_adj mx b)) as [i2|]; [|reflexivity].
      cbn [bind]. now apply IH.
  Qed.
End Loops.

(* the generated loop bodies read objs1[i], objs2[i], directions[i], the epsilon, the two box indices;
   to be called after  intros i mx <state components> A  with A : nth_error dirs i = Some mx *)
Ltac body_tac step mx A :=
  rewrite !py_index_nat, A;
  unfold step; rewrite Nat.add_0_l;
  repeat match goal with
         | |- context [nth_error ?l ?i] => destruct (nth_error l i)
         end; cbn [get]; try reflexivity;
  destruct mx; cbn [eps_adj n_neg n_lt Qops]; unfold Qltb;
  repeat match goal with
         | |- context [Qle_bool ?a ?b] => destruct (Qle_bool a b)
         end; cbn [negb]; cbv iota beta;
  rewrite eps_index;
  match goal with |- context [eps_at ?es ?i] => destruct (eps_at es i) end; cbn [get]; try reflexivity;
  unfold py_div, box_index; cbn [n_eq n_lit n_div n_floor n_lt n_add n_sub n_mul n_of_Z Qops]; cbv zeta;
  match goal with |- context [Qeq_bool ?e 0%Q] => destruct (Qeq_bool e 0%Q) end; cbn [get]; try reflexivity.

Ltac cases_tac :=
  repeat match goal with
         | |- context [if ?a <? ?b then _ else _] => destruct (a <? b)
         | |- context [if ?a >? ?b then _ else _] => destruct (a >? b)
         | |- context [if Qltb ?a ?b then _ else _] => destruct (Qltb a b)
         end.

Theorem tie_same_box : forall (c : ecfg) (nconstrs : Z) (s1 s2 : esol),
  e_con c = (nconstrs >? 0) ->
  Core.EpsilonDominance_same_box Q Qops (e_eps c) nconstrs (Z.of_nat (length (e_dirs c))) (e_dirs c)
                                 (e_cv s1) (e_objs s1) (e_cv s2) (e_objs s2)
  = same_box c s1 s2.
Proof.
  intros [es dirs con] nconstrs [id1 o1 c1] [id2 o2 c2] Hcon. cbn [e_eps e_dirs e_con e_cv e_objs] in *.
  unfold Core.EpsilonDominance_same_box, same_box, eps_ladder, Qltb.
  cbn [e_eps e_dirs e_con e_cv e_objs n_eq n_lt n_lit Qops]. subst con.
  assert (HL : forall body,
    (forall i mx e1 e2, nth_error dirs i = Some mx ->
        body (Z.of_nat i) (e1, e2) = eps_step es bool false (0 + i) mx (nth_error o1 i) (nth_error o2 i) e1 e2) ->
    finish (bind (for_range (Z.of_nat (length dirs)) body (false, false))
                 (fun '(dominate1, dominate2) => if negb dominate1 && negb dominate2 then Ret true else Ret false))
    = match eps_scan es 0 dirs o1 o2 false false with
      | None => None
      | Some SExit => Some false
      | Some (SFlags d1 d2) => Some (negb d1 && negb d2)
      end).
  { intros body Hb. rewrite (eps_scan_loop es bool false dirs o1 o2 0 body false false Hb).
    destruct (eps_scan es 0 dirs o1 o2 false false) as [[|d1 d2]|]; cbn [scan_ctl bind finish]; try reflexivity.
    destruct d1, d2; reflexivity. }
  destruct (nconstrs >? 0); cbn [andb];
    repeat match goal with
           | |- context [Qeq_bool ?a ?b] => destruct (Qeq_bool a b)
           end; cbn [negb];
    repeat match goal with
           | |- context [if negb (Qle_bool ?a ?b) then _ else _] => destruct (Qle_bool a b); cbn [negb]
           end; cbn [bind finish]; try reflexivity.
  all: apply HL.
  all: intros i mx e1 e2 A; body_tac eps_step mx A; cases_tac; destruct e1, e2; reflexivity.
Qed.

Theorem tie_eps_compare : forall (c : ecfg) (nconstrs : Z) (s1 s2 : esol),
  e_con c = (nconstrs >? 0) ->
  Core.EpsilonDominance_compare Q Qops (e_eps c) nconstrs (Z.of_nat (length (e_dirs c))) (e_dirs c)
                                (e_cv s1) (e_objs s1) (e_cv s2) (e_objs s2)
  = eps_compare c s1 s2.
Proof.
  intros [es dirs con] nconstrs [id1 o1 c1] [id2 o2 c2] Hcon. cbn [e_eps e_dirs e_con e_cv e_objs] in *.
  unfold Core.EpsilonDominance_compare, eps_compare, eps_ladder.
  cbn [e_eps e_dirs e_con e_cv e_objs n_eq n_lt n_lit Qops]. subst con.
  fold (Qltb c1 c2). fold (Qltb c2 c1).
  (* the part after the constraint ladder: both loops and the final decisions *)
  assert (HL : forall body1 body2,
    (forall i mx e1 e2, nth_error dirs i = Some mx ->
        body1 (Z.of_nat i) (e1, e2) = eps_step es Z 0 (0 + i) mx (nth_error o1 i) (nth_error o2 i) e1 e2) ->
    (forall i mx x1 x2 b1 b2, nth_error dirs i = Some mx ->
        body2 (Z.of_nat i) (x1, x2, b1, b2) = dist_step es Z (0 + i) mx (nth_error o1 i) (nth_error o2 i) x1 x2 b1 b2) ->
    finish (bind (for_range (Z.of_nat (length dirs)) body1 (false, false))
                 (fun '(dominate1, dominate2) =>
                    if negb dominate1 && negb dominate2 then
                      bind (for_range (Z.of_nat (length dirs)) body2 (0%Q, 0%Q, false, false))
                           (fun '(dist1, dist2, better1, better2) =>
                              if better1 && negb better2 then Ret (-1)
                              else if better2 && negb better1 then Ret 1
                              else if negb (Qle_bool dist2 dist1) then Ret (-1) else Ret 1)
                    else if dominate1 then Ret (-1) else Ret 1))
    = match eps_scan es 0 dirs o1 o2 false false with
      | None => None
      | Some SExit => Some 0
      | Some (SFlags d1 d2) =>
          if negb d1 && negb d2 then
            match eps_dist es 0 dirs o1 o2 0%Q 0%Q false false with
            | None => None
            | Some (dist1, dist2, better1, better2) =>
                if better1 && negb better2 then Some (-1)
                else if better2 && negb better1 then Some 1
                else if Qltb dist1 dist2 then Some (-1)
                else Some 1
            end
          else if d1 then Some (-1)
          else Some 1
      end).
  { intros body1 body2 Hb1 Hb2.
    rewrite (eps_scan_loop es Z 0 dirs o1 o2 0 body1 false false Hb1).
    destruct (eps_scan es 0 dirs o1 o2 false false) as [[|d1 d2]|]; cbn [scan_ctl bind finish]; try reflexivity.
    destruct d1, d2; cbn [negb andb]; try reflexivity.
    rewrite (eps_dist_loop es Z dirs o1 o2 0 body2 0%Q 0%Q false false Hb2).
    destruct (eps_dist es 0 dirs o1 o2 0%Q 0%Q false false) as [[[[x1 x2] b1] b2]|]; cbn [bind finish]; [|reflexivity].
    unfold Qltb. destruct b1, b2; cbn [negb andb]; try reflexivity.
    all: destruct (Qle_bool x2 x1); reflexivity. }
  destruct (nconstrs >? 0); cbn [andb];
    repeat match goal with
           | |- context [Qeq_bool ?a ?b] => destruct (Qeq_bool a b)
           end; cbn [negb];
    repeat match goal with
           | |- context [if Qltb ?a ?b then _ else _] => destruct (Qltb a b)
           end; cbn [bind finish]; try reflexivity.
  all: apply HL.
  all: try (intros i mx e1 e2 A; body_tac eps_step mx A; cases_tac; destruct e1, e2; reflexivity).
  all: intros i mx x1 x2 b1 b2 A; body_tac dist_step mx A.
Qed.

(* ---------------- Archive.add with a comparator that may raise = eps_arch_add *)
Lemma map_opt_is_eps_map_opt {A B} (f : A -> option B) (l : list A) : map_opt f l = eps_map_opt f l.
Proof.
  induction l as [|x l IH]; cbn [map_opt eps_map_opt]; [reflexivity|].
  destruct (f x); [|reflexivity]. now rewrite IH.
Qed.

Lemma py_compress_is_eps_compress {A} (l : list A) (sel : list bool) : py_compress l sel = eps_compress l sel.
Proof.
  revert sel. induction l as [|x l IH]; intros [|b sel]; cbn [py_compress eps_compress]; rewrite ?IH; reflexivity.
Qed.

Lemma existsb_map {A B} (f : A -> B) (p : B -> bool) (l : list A) : existsb p (map f l) = existsb (fun x => p (f x)) l.
Proof. induction l as [|x l IH]; cbn [map existsb]; [reflexivity|]. now rewrite IH. Qed.

Lemma map_opt_ext {A B} (f g : A -> option B) (l : list A) : (forall x, f x = g x) -> map_opt f l = map_opt g l.
Proof.
  intro H. induction l as [|x l IH]; cbn [map_opt]; [reflexivity|]. now rewrite H, IH.
Qed.

Theorem tie_eps_archive_add : forall (cmp : esol -> esol -> option Z) (a : list esol) (s : esol),
  Core.Archive_add esol cmp a s = eps_arch_add cmp a s.
Proof.
  intros cmp a s. unfold Core.Archive_add, eps_arch_add.
  rewrite map_opt_is_eps_map_opt.
  change (fun s0 : esol => cmp s s0) with (cmp s).
  destruct (eps_map_opt (cmp s) a) as [flags|]; cbn [get finish]; [|reflexivity].
  cbv zeta. unfold py_any. rewrite existsb_map, py_compress_is_eps_compress.
  destruct (existsb (fun x => x >? 0) flags); reflexivity.
Qed.

(* Archive(EpsilonDominance(epsilons)).add, everything generated from the source: compare and add *)
Corollary tie_eps_plain_add : forall (c : ecfg) (nconstrs : Z) (a : list esol) (s : esol),
  e_con c = (nconstrs >? 0) ->
  Core.Archive_add esol
    (fun x y => Core.EpsilonDominance_compare Q Qops (e_eps c) nconstrs (Z.of_nat (length (e_dirs c))) (e_dirs c)
                                              (e_cv x) (e_objs x) (e_cv y) (e_objs y)) a s
  = eps_plain_add c a s.
Proof.
  intros c nconstrs a s H. unfold eps_plain_add. rewrite <- tie_eps_archive_add.
  unfold Core.Archive_add.
  rewrite (map_opt_ext _ (fun m => eps_compare c s m)); [reflexivity|].
  intro m. apply tie_eps_compare. exact H.
Qed.

(* ---- C05 stated about the GENERATED code: an Archive whose add is the definition produced from Archive.add and
   whose comparator is the definition produced from EpsilonDominance.compare, offered ANY list of well-formed
   solutions one by one, always answers, and its contents satisfy the invariant EInv of Props/C05.v
   (one member per box, no member's box dominated by another's, everything offered is epsilon-covered);
   the generated comparator itself is transitive on "dominates". ---- *)
From PV Require Import Proofs.EpsilonProofs Props.C05.

Definition gen_eps_cmp (c : ecfg) (nconstrs : Z) (s1 s2 : esol) : option Z :=
  Core.EpsilonDominance_compare Q Qops (e_eps c) nconstrs (Z.of_nat (length (e_dirs c))) (e_dirs c)
                                (e_cv s1) (e_objs s1) (e_cv s2) (e_objs s2).

Fixpoint gen_eps_run_from (c : ecfg) (nconstrs : Z) (a : list esol) (l : list esol) : option (list esol) :=
  match l with
  | [] => Some a
  | s :: r => match Core.Archive_add esol (gen_eps_cmp c nconstrs) a s with
              | None => None
              | Some (a', _) => gen_eps_run_from c nconstrs a' r
              end
  end.

Lemma eps_map_opt_ext {A B} (f g : A -> option B) : (forall x, f x = g x) -> forall l, eps_map_opt f l = eps_map_opt g l.
Proof. intros H l. induction l as [|x r IH]; cbn [eps_map_opt]; [reflexivity|]. now rewrite H, IH. Qed.

Lemma gen_eps_run_is_model : forall c nconstrs, e_con c = (nconstrs >? 0) ->
  forall l a, gen_eps_run_from c nconstrs a l = eps_plain_run_from c a l.
Proof.
  intros c nconstrs Hcon. induction l as [|s r IH]; intro a; cbn [gen_eps_run_from eps_plain_run_from]; [reflexivity|].
  rewrite tie_eps_archive_add. unfold eps_plain_add, eps_arch_add.
  rewrite (eps_map_opt_ext (gen_eps_cmp c nconstrs s) (eps_compare c s)) by (intro x; apply tie_eps_compare; exact Hcon).
  destruct (eps_map_opt (eps_compare c s) a) as [flags|]; [|reflexivity].
  destruct (existsb (fun x => x >? 0) flags); apply IH.
Qed.

Theorem tie_c05_generated_archive_invariant : forall c nconstrs l, e_con c = (nconstrs >? 0) ->
  wf_cfg c -> Forall (wf_sol c) l ->
  exists a imp, gen_eps_run_from c nconstrs [] l = Some a /\ EInv c l a imp.
Proof.
  intros c nconstrs l Hcon Hc Hl.
  destruct (c05_einv_all_histories c l Hc Hl) as [a [imp [Hr HI]]].
  exists a, imp. split; [|exact HI].
  rewrite (gen_eps_run_is_model c nconstrs Hcon). fold (eps_plain_run c l).
  rewrite (c05_plain_archive_same_contents c l Hc Hl), Hr. reflexivity.
Qed.

Theorem tie_c05_generated_eps_dominates_trans : forall c nconstrs x y z, e_con c = (nconstrs >? 0) ->
  wf_cfg c -> wf_sol c x -> wf_sol c y -> wf_sol c z ->
  gen_eps_cmp c nconstrs x y = Some (-1) -> gen_eps_cmp c nconstrs y z = Some (-1) -> gen_eps_cmp c nconstrs x z = Some (-1).
Proof.
  intros c nconstrs x y z Hcon Hc Hx Hy Hz. unfold gen_eps_cmp. rewrite !(tie_eps_compare c nconstrs _ _ Hcon).
  exact (c05_eps_dominates_trans c x y z Hc Hx Hy Hz).
Qed.

Print Assumptions tie_c05_generated_archive_invariant.
Print Assumptions tie_c05_generated_eps_dominates_trans.
