(* Tie/T16.v — distance.manhattan_dist and distance.euclidean_dist GENERATED from platypus/distance.py (Gen/Core.v,
   regenerated from the source text on every run), at the exact-rational record [Qops], agree with [l1dist] and with
   [sqdist] (the argument of math.sqrt; sqrt itself is an opaque parameter of the generated definition) of
   Model/Indicators.v, including the IndexError when y is shorter than x.
   The generated code adds the terms left to right starting from the int 0 (Python's sum); the model adds from the
   right: the two rationals are EQUAL AS NUMBERS (Qeq, "=="), not syntactically, so the statements are up to ==.
   Reading: the arguments are objective vectors (the isinstance(x, Solution) unwrapping is declared not taken). *)
From Coq Require Import ZArith QArith Qabs Bool List Lia.
Import ListNotations.
From PV Require Import Base.Num Base.PyCore Gen.Core Model.Indicators.
Open Scope Z_scope.

Fixpoint zipw {A B C} (f : A -> B -> C) (a : list A) (b : list B) : list C :=
  match a, b with x :: a', y :: b' => f x y :: zipw f a' b' | _, _ => [] end.

(* [f(x[i], y[i]) for i in range(len(x))]: IndexError when y is shorter *)
Lemma index_zip {A B C} (f : A -> B -> C) : forall (l1 : list A) (l2 : list B) (g : Z -> option C),
  (forall i, g (Z.of_nat i) = obind (nth_error l1 i) (fun a => obind (nth_error l2 i) (fun b => Some (f a b)))) ->
  map_opt g (zrange (Z.of_nat (length l1)))
  = if Nat.leb (length l1) (length l2) then Some (zipw f l1 l2) else None.
Proof.
  induction l1 as [|a l1 IH]; intros l2 g Hg; [reflexivity|].
  cbn [length]. rewrite zrange_succ. cbn [map_opt].
  pose proof (Hg 0%nat) as H0. change (Z.of_nat 0) with 0 in H0. rewrite H0. cbn [nth_error obind].
  destruct l2 as [|b l2]; cbn [nth_error obind length Nat.leb zipw]; [reflexivity|].
  rewrite map_opt_map. rewrite (IH l2 (fun i => g (Z.succ i))).
  - destruct (Nat.leb (length l1) (length l2)); reflexivity.
  - intro i. rewrite <- Nat2Z.inj_succ. rewrite Hg. reflexivity.
Qed.

Lemma sum_left_right (l : list Q) (a : Q) : (fold_left Qplus l a == a + fold_right Qplus 0 l)%Q.
Proof.
  revert a. induction l as [|x l IH]; intro a; cbn [fold_left fold_right]; [ring|].
  rewrite IH. ring.
Qed.

Definition agrees (g : option Q) (m : res Q) : Prop :=
  match g, m with
  | Some a, Ok b => (a == b)%Q
  | None, Err _ => True
  | _, _ => False
  end.

Lemma dist_model (term : Q -> Q -> Q) (model : list Q -> list Q -> res Q) :
  (forall x y, model x y = match x with
                           | [] => Ok 0%Q
                           | a :: x' => match y with
                                        | [] => Err EIndex
                                        | b :: y' => Indicators.bind (model x' y') (fun r => Ok (term a b + r)%Q)
                                        end
                           end) ->
  forall x y, model x y = if Nat.leb (length x) (length y) then Ok (fold_right Qplus 0%Q (zipw term x y)) else Err EIndex.
Proof.
  intros H. induction x as [|a x IH]; intro y; rewrite H; [reflexivity|].
  destruct y as [|b y]; [reflexivity|]. cbn [length Nat.leb zipw fold_right]. rewrite IH.
  destruct (Nat.leb (length x) (length y)); reflexivity.
Qed.

Theorem tie_manhattan_dist : forall x y : list Q, agrees (Core.manhattan_dist Q Qops x y) (l1dist x y).
Proof.
  intros x y. unfold Core.manhattan_dist, py_len.
  rewrite (index_zip (fun a b => Qabs (a - b)) x y); [|intro i; now rewrite !py_index_nat].
  rewrite (dist_model (fun a b => Qabs (a - b)) l1dist); [|intros [|a x'] [|b y']; reflexivity].
  destruct (Nat.leb (length x) (length y)); cbn [get finish agrees]; [|exact I].
  unfold py_sum. cbn [n_add n_lit Qops]. rewrite sum_left_right. ring.
Qed.

(* euclidean_dist = sqrt(radicand); the radicand is the model's sqdist *)
Theorem tie_euclidean_dist : forall (sqrt : Q -> Q) (x y : list Q),
  match sqdist x y with
  | Ok r => exists r', (r' == r)%Q /\ Core.euclidean_dist Q Qops sqrt x y = Some (sqrt r')
  | Err _ => Core.euclidean_dist Q Qops sqrt x y = None
  end.
Proof.
  intros sqrt x y. unfold Core.euclidean_dist, py_len. cbv zeta.
  rewrite (index_zip (fun a b => (a - b) * (a - b))%Q x y); [|intro i; now rewrite !py_index_nat].
  rewrite (dist_model (fun a b => (a - b) * (a - b))%Q sqdist); [|intros [|a x'] [|b y']; reflexivity].
  destruct (Nat.leb (length x) (length y)); cbn [get finish]; [|reflexivity].
  eexists. split; [|reflexivity]. unfold py_sum. cbn [n_add n_lit Qops]. rewrite sum_left_right. ring.
Qed.
