(* Tie/T17.v — Integer.decode / Integer.encode GENERATED from platypus/types.py (Gen/Core.v, regenerated from the
   source text on every run) are [decode] / [encode] of Model/Gray.v.  The generated definitions take the functions
   they call (bin2int, gray2bin, bin2gray, int2bin) as parameters; here they are given the model's. *)
From Coq Require Import ZArith Bool List Lia.
Import ListNotations.
From PV Require Import Base.PyCore Gen.Core Model.Gray Proofs.GrayProofs.
Open Scope Z_scope.

(* decode: value = bin2int(gray2bin(value)); the wrap test  value > max - min ; min + value *)
Theorem tie_integer_decode : forall (t : integer) (bits : list bool),
  Core.Integer_decode (fun b => Some (Gray.bin2int b)) Gray.gray2bin (i_min t) (i_max t) bits = decode t bits.
Proof.
  intros t bits. unfold Core.Integer_decode, decode.
  destruct (Gray.gray2bin bits) as [b|]; cbn [get finish]; [|reflexivity].
  cbv zeta.
  destruct (Gray.bin2int b >? i_max t - i_min t); reflexivity.
Qed.

(* encode: bin2gray(int2bin(value - self.min_value, self.nbits)) *)
Theorem tie_integer_encode : forall (t : integer) (value : Z),
  Core.Integer_encode Gray.bin2gray (fun n k => Gray.int2bin n (Z.to_nat k)) (i_min t) (Z.of_nat (i_nbits t)) value
  = encode t value.
Proof.
  intros t value. unfold Core.Integer_encode, encode. rewrite Nat2Z.id.
  destruct (Gray.int2bin (value - i_min t) (i_nbits t)); reflexivity.
Qed.

(* ---------------- the bit-string conversions, generated from the source ---------------- *)
(* bin2int: i = 0; for bit in bits: i = i * 2 + bit *)
Theorem tie_bin2int : forall bits : list bool, Core.bin2int bits = Some (Gray.bin2int bits).
Proof.
  intro bits. unfold Core.bin2int, Gray.bin2int. cbv zeta.
  rewrite (for_list_total (fun i bit => i * 2 + PyCore.b2z bit)). reflexivity.
Qed.

(* bin2gray: bits[:1] + [i ^ ishift for i, ishift in zip(bits[:-1], bits[1:])] *)
Theorem tie_bin2gray : forall bits : list bool, Core.bin2gray bits = Gray.bin2gray bits.
Proof.
  intro bits. unfold Core.bin2gray, Gray.bin2gray, py_upto, py_from, py_but_last, py_zip.
  f_equal. replace (skipn 1 bits) with (tl bits) by (destruct bits; reflexivity).
  apply map_ext. intros [i j]. reflexivity.
Qed.

(* gray2bin: b = [bits[0]]; for nextb in bits[1:]: b.append(b[-1] ^ nextb)   (IndexError on [] = None) *)
Lemma gray2bin_loop : forall (rest b : list bool), b <> [] ->
  for_list (fun (nextb : bool) (b : list bool) =>
              get (py_index b (-1)) (fun t => @Next (list bool) (list bool) (b ++ [xorb t nextb]))) rest b
  = Next (fold_left gray2bin_step rest b).
Proof.
  induction rest as [|x rest IH]; intros b Hb; cbn [for_list fold_left]; [reflexivity|].
  rewrite (py_index_m1 b false Hb). cbn [get]. apply IH.
  destruct b; discriminate.
Qed.

Theorem tie_gray2bin : forall bits : list bool, Core.gray2bin bits = Gray.gray2bin bits.
Proof.
  intros [|b0 rest]; [reflexivity|].
  unfold Core.gray2bin, Gray.gray2bin. rewrite py_index_0. cbn [get]. cbv zeta.
  unfold py_from. cbn [skipn]. rewrite gray2bin_loop by discriminate. reflexivity.
Qed.

(* Integer.decode with the GENERATED bin2int / gray2bin: nothing of the decoding path is hand-written *)
Corollary tie_integer_decode_generated : forall (t : integer) (bits : list bool),
  Core.Integer_decode Core.bin2int Core.gray2bin (i_min t) (i_max t) bits = decode t bits.
Proof.
  intros t bits. rewrite <- tie_integer_decode. unfold Core.Integer_decode.
  rewrite tie_gray2bin. destruct (Gray.gray2bin bits) as [b|]; [|reflexivity].
  cbn [get]. now rewrite tie_bin2int.
Qed.

(* ---------------- int2bin: two while loops on explicit fuel ---------------- *)
(* while n: n, remainder = divmod(n, 2); bits.insert(0, bool(remainder))
   — for ANY condition/body that read as the model's step on the state (bits, n) *)
Lemma int2bin_while1 : forall (cond : list bool * Z -> bool) (body : list bool * Z -> ctl (list bool * Z) (list bool)),
  (forall b m, cond (b, m) = negb (m =? 0)) ->
  (forall b m, body (b, m) = Next (negb (m mod 2 =? 0) :: b, m / 2)) ->
  forall fuel n acc,
  while_fuel fuel cond body (acc, n)
  = match int2bin_loop fuel n acc with Some b => Next (b, 0) | None => Raise end.
Proof.
  intros cond body Hc Hb. induction fuel as [|f IH]; intros n acc; cbn [while_fuel int2bin_loop]; rewrite Hc;
    destruct (n =? 0) eqn:E; cbn [negb]; try reflexivity.
  - apply Z.eqb_eq in E. now subst.
  - apply Z.eqb_eq in E. now subst.
  - rewrite Hb. apply IH.
Qed.

Lemma repeat_false_shift (k : nat) (acc : list bool) : repeat false k ++ false :: acc = false :: repeat false k ++ acc.
Proof. induction k as [|k IH]; cbn [repeat app]; [reflexivity|]. now rewrite IH. Qed.

(* while len(bits) < nbits: bits.insert(0, False) *)
Lemma int2bin_while2 : forall (nbits : nat) (cond : list bool -> bool) (body : list bool -> ctl (list bool) (list bool)),
  (forall b, cond b = (py_len b <? Z.of_nat nbits)) ->
  (forall b, body b = Next (false :: b)) ->
  forall fuel acc, (nbits - length acc <= fuel)%nat ->
  while_fuel fuel cond body acc = Next (pad_left acc nbits).
Proof.
  intros nbits cond body Hc Hb. unfold pad_left, py_len in *.
  induction fuel as [|f IH]; intros acc Hf; cbn [while_fuel]; rewrite Hc.
  - assert (E : (Z.of_nat (length acc) <? Z.of_nat nbits) = false) by (apply Z.ltb_ge; lia).
    rewrite E. replace (nbits - length acc)%nat with 0%nat by lia. reflexivity.
  - destruct (Z.of_nat (length acc) <? Z.of_nat nbits) eqn:E.
    + apply Z.ltb_lt in E. rewrite Hb. rewrite IH by (cbn [length]; lia). cbn [length].
      replace (nbits - length acc)%nat with (S (nbits - S (length acc))) by lia.
      cbn [repeat app]. now rewrite repeat_false_shift.
    + apply Z.ltb_ge in E. replace (nbits - length acc)%nat with 0%nat by lia. reflexivity.
Qed.

Lemma int2bin_loop_mono : forall f n acc r, int2bin_loop f n acc = Some r ->
  forall f', (f <= f')%nat -> int2bin_loop f' n acc = Some r.
Proof.
  induction f as [|f IH]; intros n acc r H f' Hf; cbn [int2bin_loop] in H.
  - destruct (n =? 0) eqn:E; [|discriminate]. destruct f'; cbn [int2bin_loop]; now rewrite E.
  - destruct f' as [|f']; [lia|]. cbn [int2bin_loop]. destruct (n =? 0); [exact H|].
    apply (IH _ _ _ H). lia.
Qed.

(* enough fuel: one iteration per binary digit of n for the first loop, nbits for the second *)
Theorem tie_int2bin : forall (fuel : nat) (n : Z) (nbits : nat),
  0 <= n -> (int2bin_fuel n <= fuel)%nat -> (nbits <= fuel)%nat ->
  Core.int2bin fuel n (Z.of_nat nbits) = Gray.int2bin n nbits.
Proof.
  intros fuel n nbits Hn Hf1 Hf2. unfold Core.int2bin, Gray.int2bin. cbv zeta.
  destruct (GrayProofs.loop_spec (int2bin_fuel n) n [] (conj Hn (GrayProofs.fuel_enough n Hn))) as [d [L1 _]].
  rewrite L1.
  erewrite int2bin_while1; [|intros; reflexivity|intros; reflexivity].
  rewrite (int2bin_loop_mono _ _ _ _ L1 fuel Hf1). cbn [bind].
  erewrite int2bin_while2; [reflexivity|intros; reflexivity|intros; reflexivity|lia].
Qed.

(* a negative n never leaves the first loop: out of fuel on both sides, whatever the fuel *)
Theorem tie_int2bin_negative : forall (fuel : nat) (n nbits : Z) (k : nat),
  n < 0 -> Core.int2bin fuel n nbits = None /\ Gray.int2bin n k = None.
Proof.
  intros fuel n nbits k Hn. unfold Core.int2bin, Gray.int2bin. cbv zeta.
  erewrite int2bin_while1; [|intros; reflexivity|intros; reflexivity].
  rewrite !(GrayProofs.int2bin_negative_diverges _ n [] Hn). split; reflexivity.
Qed.

(* Integer.encode with the GENERATED bin2gray / int2bin *)
Corollary tie_integer_encode_generated : forall (t : integer) (value : Z) (fuel : nat),
  0 <= value - i_min t -> (int2bin_fuel (value - i_min t) <= fuel)%nat -> (i_nbits t <= fuel)%nat ->
  Core.Integer_encode Core.bin2gray (Core.int2bin fuel) (i_min t) (Z.of_nat (i_nbits t)) value = encode t value.
Proof.
  intros t value fuel H0 H1 H2. unfold Core.Integer_encode, encode.
  rewrite (tie_int2bin fuel _ _ H0 H1 H2).
  destruct (Gray.int2bin (value - i_min t) (i_nbits t)); cbn [get finish]; [|reflexivity].
  now rewrite tie_bin2gray.
Qed.

(* ---- C17 stated about the GENERATED code: with every function of the path (Integer.decode/encode, bin2int,
   gray2bin, bin2gray, int2bin) produced from the source text, every bit string of the variable's length decodes
   into [min,max], and encode-then-decode is the identity on [min,max].  [fuel] bounds the two while loops of
   int2bin (any fuel at least the bit length of the offset and the variable's bit count). ---- *)
From PV Require Import Props.C17.

Theorem tie_c17_generated_decode_in_range : forall mn mx t bits, integer_init mn mx = Some t ->
  length bits = i_nbits t ->
  exists v, Core.Integer_decode Core.bin2int Core.gray2bin (i_min t) (i_max t) bits = Some v /\ mn <= v <= mx.
Proof.
  intros mn mx t bits Ht Hl. rewrite tie_integer_decode_generated.
  exact (c17_decode_in_range mn mx t bits Ht Hl).
Qed.

Theorem tie_c17_generated_decode_encode : forall mn mx t v fuel, integer_init mn mx = Some t -> mn <= v <= mx ->
  (int2bin_fuel (v - i_min t) <= fuel)%nat -> (i_nbits t <= fuel)%nat ->
  exists bits,
    Core.Integer_encode Core.bin2gray (Core.int2bin fuel) (i_min t) (Z.of_nat (i_nbits t)) v = Some bits /\
    length bits = i_nbits t /\
    Core.Integer_decode Core.bin2int Core.gray2bin (i_min t) (i_max t) bits = Some v.
Proof.
  intros mn mx t v fuel Ht Hv Hf1 Hf2.
  destruct (c17_nbits_minimal mn mx t Ht) as [Hmin _].
  rewrite tie_integer_encode_generated; [|rewrite Hmin; lia|exact Hf1|exact Hf2].
  destruct (c17_decode_encode mn mx t v Ht Hv) as [bits [He [Hl Hd]]].
  exists bits. rewrite tie_integer_decode_generated. repeat split; assumption.
Qed.

Print Assumptions tie_c17_generated_decode_in_range.
Print Assumptions tie_c17_generated_decode_encode.
