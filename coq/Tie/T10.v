(* Tie/T10.v — C10 stated DIRECTLY about the comparison code GENERATED from the source text
   (Gen/Core.v, regenerated from platypus/core.py on every run), not about the hand models:
   flipping the directions on a mask J and negating the objectives on J leaves the answers of
     ParetoDominance.compare, EpsilonDominance.same_box, EpsilonDominance.compare
   unchanged.  Each statement composes the tie of the generated definition to its model
   (Tie/T02.v, Tie/T05.v) with the law proved on the model (Props/C10.v), so a source change that
   breaks either the tie or the law breaks this file.
   Carriers: Pareto over xq (every non-NaN float value incl. +-inf) with any operation record whose
   <, ==, unary - and literal 0 are the xq ones (T02.xq_record_exists shows one exists);
   epsilon dominance over exact Q (Qops).  Reading of the hypotheses: objective vectors have the
   declared number of objectives (what Problem.__call__ / Solution guarantee). *)
From Coq Require Import ZArith QArith Bool List.
Import ListNotations.
From PV Require Import Base.Num Base.PyCore Gen.Core Model.Dominance Model.Epsilon Model.Negation
                       Proofs.NegationProofs Tie.T02 Tie.T05 Props.C10.
Open Scope Z_scope.

Theorem tie_c10_generated_pareto_flip : forall (O : NumOps xq),
  n_lt O = xltb -> n_neg O = xneg -> n_eq O = xeqb -> n_lit O 0%Q = xzero ->
  forall (nconstrs : Z) (dirs J : list bool) (s1 s2 : xdsol),
  length (d_objs s1) = length dirs -> length (d_objs s2) = length dirs ->
  Core.ParetoDominance_compare xq O nconstrs (Z.of_nat (length dirs)) (flipd J dirs)
                               (d_cv s1) (flipx J (d_objs s1)) (d_cv s2) (flipx J (d_objs s2))
  = Core.ParetoDominance_compare xq O nconstrs (Z.of_nat (length dirs)) dirs
                               (d_cv s1) (d_objs s1) (d_cv s2) (d_objs s2).
Proof.
  intros O Hlt Hneg Heq Hz nconstrs dirs J s1 s2 L1 L2.
  rewrite (tie_pareto_compare_xq O Hlt Hneg Heq Hz nconstrs dirs s1 s2 L1 L2).
  pose proof (tie_pareto_compare_xq O Hlt Hneg Heq Hz nconstrs (flipd J dirs)
                (flip_dsol xneg J s1) (flip_dsol xneg J s2)) as H.
  rewrite flipd_length in H. cbn [flip_dsol d_objs d_cv] in H. unfold flipx.
  rewrite H; [|rewrite flipv_length; exact L1|rewrite flipv_length; exact L2].
  f_equal. apply c10_pareto_flip_xq.
Qed.

Theorem tie_c10_generated_same_box_flip : forall (c : ecfg) (nconstrs : Z) (J : list bool) (s1 s2 : esol),
  e_con c = (nconstrs >? 0) ->
  Core.EpsilonDominance_same_box Q Qops (e_eps c) nconstrs (Z.of_nat (length (e_dirs c))) (flipd J (e_dirs c))
                                 (e_cv s1) (flipq J (e_objs s1)) (e_cv s2) (flipq J (e_objs s2))
  = Core.EpsilonDominance_same_box Q Qops (e_eps c) nconstrs (Z.of_nat (length (e_dirs c))) (e_dirs c)
                                 (e_cv s1) (e_objs s1) (e_cv s2) (e_objs s2).
Proof.
  intros c nconstrs J s1 s2 Hcon.
  rewrite (tie_same_box c nconstrs s1 s2 Hcon).
  pose proof (tie_same_box (flip_ecfg J c) nconstrs (flip_esol J s1) (flip_esol J s2)) as H.
  cbn [flip_ecfg flip_esol e_eps e_dirs e_con e_cv e_objs] in H. rewrite flipd_length in H.
  rewrite (H Hcon). apply c10_same_box_flip.
Qed.

Theorem tie_c10_generated_eps_compare_flip : forall (c : ecfg) (nconstrs : Z) (J : list bool) (s1 s2 : esol),
  e_con c = (nconstrs >? 0) ->
  Core.EpsilonDominance_compare Q Qops (e_eps c) nconstrs (Z.of_nat (length (e_dirs c))) (flipd J (e_dirs c))
                                (e_cv s1) (flipq J (e_objs s1)) (e_cv s2) (flipq J (e_objs s2))
  = Core.EpsilonDominance_compare Q Qops (e_eps c) nconstrs (Z.of_nat (length (e_dirs c))) (e_dirs c)
                                (e_cv s1) (e_objs s1) (e_cv s2) (e_objs s2).
Proof.
  intros c nconstrs J s1 s2 Hcon.
  rewrite (tie_eps_compare c nconstrs s1 s2 Hcon).
  pose proof (tie_eps_compare (flip_ecfg J c) nconstrs (flip_esol J s1) (flip_esol J s2)) as H.
  cbn [flip_ecfg flip_esol e_eps e_dirs e_con e_cv e_objs] in H. rewrite flipd_length in H.
  rewrite (H Hcon). apply c10_eps_compare_flip.
Qed.

(* non-vacuity: a maximised second objective, flipped; the generated code answers -1 both ways *)
Example tie_c10_generated_value :
  let dirs := [false; true] in let J := [false; true] in
  let s1 := Build_dsol [Fin 1%Q; Fin 5%Q] (Fin 0%Q) in
  let s2 := Build_dsol [Fin 2%Q; Fin 3%Q] (Fin 0%Q) in
  x_pareto_compare false dirs s1 s2 = (-1) /\
  x_pareto_compare false (flipd J dirs) (flip_dsol xneg J s1) (flip_dsol xneg J s2) = (-1).
Proof. vm_compute. split; reflexivity. Qed.

Print Assumptions tie_c10_generated_pareto_flip.
Print Assumptions tie_c10_generated_same_box_flip.
Print Assumptions tie_c10_generated_eps_compare_flip.
