(* Tie/T11.v — the six violation functions GENERATED from platypus/core.py (Gen/Core.v, regenerated from the
   source text on every run) are the hand model of Model/Constraint.v, at the exact-rational record [Qops]
   (every field of it is the standard-library operation on Q the model uses).  The default value of `delta`
   read from the source is the model's [delta0] (the exact binary64 value of 0.0001).
   Scripts: unfold both sides, case on every atomic comparison once, compute. *)
From Coq Require Import ZArith QArith Qabs Bool List.
From PV Require Import Base.Num Base.PyCore Gen.Core Model.Constraint.

Ltac tie_q :=
  intros; cbv beta delta [Core.constraint_eq Core.constraint_leq Core.constraint_geq Core.constraint_neq
                          Core.constraint_lt Core.constraint_gt c_eq c_leq c_geq c_neq c_lt c_gt Qltb Qops
                          n_lt n_le n_eq n_add n_sub n_abs n_lit] iota zeta;
  repeat match goal with
         | |- context [Qle_bool ?a ?b] => destruct (Qle_bool a b)
         | |- context [Qeq_bool ?a ?b] => destruct (Qeq_bool a b)
         end;
  reflexivity.

Theorem tie_constraint_eq : forall x y : Q, Core.constraint_eq Q Qops x y = c_eq x y.
Proof. tie_q. Qed.

Theorem tie_constraint_leq : forall x y : Q, Core.constraint_leq Q Qops x y = c_leq x y.
Proof. tie_q. Qed.

Theorem tie_constraint_geq : forall x y : Q, Core.constraint_geq Q Qops x y = c_geq x y.
Proof. tie_q. Qed.

Theorem tie_constraint_neq : forall x y : Q, Core.constraint_neq Q Qops x y = c_neq x y.
Proof. tie_q. Qed.

Theorem tie_constraint_lt : forall delta x y : Q, Core.constraint_lt Q Qops x y delta = c_lt delta x y.
Proof. tie_q. Qed.

Theorem tie_constraint_gt : forall delta x y : Q, Core.constraint_gt Q Qops x y delta = c_gt delta x y.
Proof. tie_q. Qed.

(* def _constraint_lt(x, y, delta=0.0001): the literal, read as its exact binary64 value *)
Theorem tie_constraint_lt_default_delta : Core.constraint_lt_default_delta Q Qops = delta0.
Proof. reflexivity. Qed.

Theorem tie_constraint_gt_default_delta : Core.constraint_gt_default_delta Q Qops = delta0.
Proof. reflexivity. Qed.

(* hence Constraint.OPERATORS[op] called with the default delta is the model's op_fun *)
Theorem tie_op_fun : forall (op : cop) (x y : Q),
  op_fun op x y =
  match op with
  | OpEq => Core.constraint_eq Q Qops x y
  | OpLeq => Core.constraint_leq Q Qops x y
  | OpGeq => Core.constraint_geq Q Qops x y
  | OpNeq => Core.constraint_neq Q Qops x y
  | OpLt => Core.constraint_lt Q Qops x y (Core.constraint_lt_default_delta Q Qops)
  | OpGt => Core.constraint_gt Q Qops x y (Core.constraint_gt_default_delta Q Qops)
  end.
Proof.
  intros op x y.
  destruct op; cbn [op_fun];
    rewrite ?tie_constraint_lt_default_delta, ?tie_constraint_gt_default_delta;
    symmetry;
    [apply tie_constraint_eq | apply tie_constraint_leq | apply tie_constraint_geq
    | apply tie_constraint_neq | apply tie_constraint_lt | apply tie_constraint_gt].
Qed.

(* ---- C11 stated about the GENERATED violation functions (with the default delta read from the source):
   the function produced from the source text for each operator answers 0 exactly when the relation holds,
   a strictly positive number otherwise, and never a negative one. ---- *)
From PV Require Import Proofs.ConstraintProofs Props.C11.

Definition gen_op_fun (op : cop) (x y : Q) : Q :=
  match op with
  | OpEq => Core.constraint_eq Q Qops x y
  | OpLeq => Core.constraint_leq Q Qops x y
  | OpGeq => Core.constraint_geq Q Qops x y
  | OpNeq => Core.constraint_neq Q Qops x y
  | OpLt => Core.constraint_lt Q Qops x y (Core.constraint_lt_default_delta Q Qops)
  | OpGt => Core.constraint_gt Q Qops x y (Core.constraint_gt_default_delta Q Qops)
  end.

Theorem tie_c11_generated_viol_zero_iff : forall op x y, (gen_op_fun op x y == 0)%Q <-> holds op x y.
Proof. intros op x y. unfold gen_op_fun. rewrite <- tie_op_fun. apply c11_viol_zero_iff. Qed.

Theorem tie_c11_generated_viol_pos : forall op x y, ~ holds op x y -> (0 < gen_op_fun op x y)%Q.
Proof. intros op x y H. unfold gen_op_fun. rewrite <- tie_op_fun. apply c11_viol_pos. exact H. Qed.

Theorem tie_c11_generated_viol_nonneg : forall op x y, (0 <= gen_op_fun op x y)%Q.
Proof. intros op x y. unfold gen_op_fun. rewrite <- tie_op_fun. apply c11_viol_nonneg. Qed.

Print Assumptions tie_c11_generated_viol_zero_iff.
Print Assumptions tie_c11_generated_viol_pos.
Print Assumptions tie_c11_generated_viol_nonneg.
