(* Tie/T08.v — MaxEvaluations.shouldTerminate GENERATED from platypus/core.py (Gen/Core.v, regenerated from the
   source text on every run) is [should_terminate] of Model/RunLoop.v.  The generated function computes on Python
   ints (Z):  algorithm.nfe - self.starting_nfe >= self.nfe ; the model uses natural numbers with truncated
   subtraction, which is the same whenever the counter has not gone below its value at initialize()
   (nfe never decreases: RunLoop's standing assumption). *)
From Coq Require Import ZArith Arith Bool List Lia.
From PV Require Import Base.PyCore Gen.Core Model.RunLoop.

Theorem tie_should_terminate : forall (St : Type) (nfe : St -> nat) (start N : nat) (s : St),
  (start <= nfe s)%nat ->
  Core.MaxEvaluations_shouldTerminate (Z.of_nat N) (Z.of_nat start) (Z.of_nat (nfe s))
  = should_terminate St nfe start N s.
Proof.
  intros St nfe start N s H.
  unfold Core.MaxEvaluations_shouldTerminate, should_terminate. cbv zeta.
  rewrite Z.geb_leb.
  destruct (N <=? nfe s - start)%nat eqn:E.
  - apply Nat.leb_le in E. apply Z.leb_le. lia.
  - apply Nat.leb_gt in E. apply Z.leb_gt. lia.
Qed.

(* the hypothesis is needed only for N = 0: with a positive budget the two agree unconditionally *)
Theorem tie_should_terminate_pos : forall (St : Type) (nfe : St -> nat) (start N : nat) (s : St),
  (0 < N)%nat ->
  Core.MaxEvaluations_shouldTerminate (Z.of_nat N) (Z.of_nat start) (Z.of_nat (nfe s))
  = should_terminate St nfe start N s.
Proof.
  intros St nfe start N s H.
  unfold Core.MaxEvaluations_shouldTerminate, should_terminate. cbv zeta.
  rewrite Z.geb_leb.
  destruct (N <=? nfe s - start)%nat eqn:E.
  - apply Nat.leb_le in E. apply Z.leb_le. lia.
  - apply Nat.leb_gt in E. apply Z.leb_gt. lia.
Qed.
