(* Tie/T08.v — MaxEvaluations.shouldTerminate GENERATED from platypus/core.py (Gen/Core.v, regenerated from the
   source text on every run) is [should_terminate] of Model/RunLoop.v.  The generated function computes on Python
   ints (Z):  algorithm.nfe - self.starting_nfe >= self.nfe ; the model uses natural numbers with truncated
   subtraction, which is the same whenever the counter has not gone below its value at initialize()
   (nfe never decreases: RunLoop's standing assumption). *)
From Coq Require Import ZArith Arith Bool List Lia.
From PV Require Import Base.PyCore Gen.Core Model.RunLoop.

Theorem tie_should_terminate : forall (St : Type) (nfe : St -> nat) (start N : nat) (s : St),
  (start <= nfe s)%nat ->
  Core.MaxEvaluations_shouldTerminate (Z.of_nat N) (Z.of_nat start) (Z.of_nat (nfe s))
  = should_terminate St nfe start N s.
Proof.
  intros St nfe start N s H.
  unfold Core.MaxEvaluations_shouldTerminate, should_terminate. cbv zeta.
  rewrite Z.geb_leb.
  destruct (N <=? nfe s - start)%nat eqn:E.
  - apply Nat.leb_le in E. apply Z.leb_le. lia.
  - apply Nat.leb_gt in E. apply Z.leb_gt. lia.
Qed.

(* the hypothesis is needed only for N = 0: with a positive budget the two agree unconditionally *)
Theorem tie_should_terminate_pos : forall (St : Type) (nfe : St -> nat) (start N : nat) (s : St),
  (0 < N)%nat ->
  Core.MaxEvaluations_shouldTerminate (Z.of_nat N) (Z.of_nat start) (Z.of_nat (nfe s))
  = should_terminate St nfe start N s.
Proof.
  intros St nfe start N s H.
  unfold Core.MaxEvaluations_shouldTerminate, should_terminate. cbv zeta.
  rewrite Z.geb_leb.
  destruct (N <=? nfe s - start)%nat eqn:E.
  - apply Nat.leb_le in E. apply Z.leb_le. lia.
  - apply Nat.leb_gt in E. apply Z.leb_gt. lia.
Qed.

(* ================================================================================================
   Phase 2: Algorithm.run GENERATED from platypus/core.py is [run] of Model/RunLoop.v.
   Reading (declared in harness/translate/py2coq_core.py, printed above the generated definition): `self` is an
   opaque state that every extension hook, step() and the callback transform; self._extensions is read from the
   current state each time a hook loop starts; `condition` is a TerminationCondition (not an int), an opaque
   object that initialize(self) updates and that is called as condition(self).  The while loop runs on explicit fuel.
   Tie: for the MaxEvaluations condition (state = (starting_nfe, nfe budget), initialize records nfe, the call is
   should_terminate) with the model's hooks being the folds of the per-extension hooks over the extension list.
   Two generated definitions come from the one function: callback given / callback is None. *)
Section RunTie.
  Variables St Ext : Type.
  Variable nfe : St -> nat.
  Variable exts : St -> list Ext.
  Variables e_start e_pre e_post e_end : Ext -> St -> St.
  Variables alg_step callback : St -> St.

  (* "for extension in self._extensions: extension.h(self)" *)
  Definition hooks (h : Ext -> St -> St) (s : St) : St := fold_left (fun w e => h e w) (exts s) s.

  Definition me_initialize (c : nat * nat) (s : St) : nat * nat := (nfe s, snd c).
  Definition me_call (c : nat * nat) (s : St) : bool := should_terminate St nfe (fst c) (snd c) s.

  Lemma run_while : forall (cb : St -> St) (cond : St -> bool) (body : St -> ctl St (St * (nat * nat))) (start N : nat),
    (forall w, cond w = negb (should_terminate St nfe start N w)) ->
    (forall w, body w = Next (step St (hooks e_pre) (hooks e_post) alg_step cb w)) ->
    forall fuel s,
    while_fuel fuel cond body s
    = match loop St nfe (hooks e_pre) (hooks e_post) alg_step cb fuel start N s with
      | Some s' => Next s'
      | None => Raise
      end.
  Proof.
    intros cb cond body start N Hc Hb.
    induction fuel as [|f IH]; intro s; cbn [while_fuel loop]; rewrite Hc;
      destruct (should_terminate St nfe start N s); cbn [negb]; try reflexivity.
    rewrite Hb. apply IH.
  Qed.

  Theorem tie_run : forall (N : nat) (s : St) (c0 : nat),
    Core.Algorithm_run St Ext (nat * nat) N exts e_start e_pre e_post e_end alg_step me_initialize me_call callback s (c0, N)
    = match run St nfe (hooks e_start) (hooks e_end) (hooks e_pre) (hooks e_post) alg_step callback N s with
      | Some s' => Some (s', (nfe s, N))
      | None => None
      end.
  Proof.
    intros N s c0. unfold Core.Algorithm_run, run. cbv zeta.
    rewrite for_list_hook. cbn [bind]. fold (hooks e_start s).
    rewrite (run_while callback _ _ (nfe s) N); [| intro w; reflexivity |].
    2: { intro w. rewrite for_list_hook. cbn [bind]. rewrite for_list_hook. cbn [bind]. reflexivity. }
    destruct (loop St nfe (hooks e_pre) (hooks e_post) alg_step callback N (nfe s) N (hooks e_start s)) as [s'|];
      cbn [bind finish]; [|reflexivity].
    rewrite for_list_hook. reflexivity.
  Qed.

  (* callback=None: the model's callback is the identity *)
  Theorem tie_run_no_callback : forall (N : nat) (s : St) (c0 : nat) (unused : St -> St),
    Core.Algorithm_run_no_callback St Ext (nat * nat) N exts e_start e_pre e_post e_end alg_step me_initialize me_call unused s (c0, N)
    = match run St nfe (hooks e_start) (hooks e_end) (hooks e_pre) (hooks e_post) alg_step (fun w => w) N s with
      | Some s' => Some (s', (nfe s, N))
      | None => None
      end.
  Proof.
    intros N s c0 unused. unfold Core.Algorithm_run_no_callback, run. cbv zeta.
    rewrite for_list_hook. cbn [bind]. fold (hooks e_start s).
    rewrite (run_while (fun w => w) _ _ (nfe s) N); [| intro w; reflexivity |].
    2: { intro w. rewrite for_list_hook. cbn [bind]. rewrite for_list_hook. cbn [bind]. reflexivity. }
    destruct (loop St nfe (hooks e_pre) (hooks e_post) alg_step (fun w => w) N (nfe s) N (hooks e_start s)) as [s'|];
      cbn [bind finish]; [|reflexivity].
    rewrite for_list_hook. reflexivity.
  Qed.
End RunTie.

(* ---- C08 stated about the GENERATED Algorithm.run (MaxEvaluations condition, hooks = folds of the per-extension
   hooks over the extension list): for every state type, step and extensions that are well behaved (Props/C08.v),
   the definition produced from the source text terminates within fuel N, stops at the FIRST step boundary at which
   the evaluations counted since the call reach N, and run(0) makes no step.  The second component of the result
   is the condition object after initialize() (starting nfe, budget). ---- *)
From PV Require Import Proofs.RunLoopProofs Props.C08.

Section C08_generated.
  Variables St Ext : Type.
  Variables nfe calls : St -> nat.
  Variable exts : St -> list Ext.
  Variables e_start e_pre e_post e_end : Ext -> St -> St.
  Variables alg_step callback : St -> St.
  Variable Inv : St -> Prop.
  Notation h_start := (hooks St Ext exts e_start).
  Notation h_end := (hooks St Ext exts e_end).
  Notation h_pre := (hooks St Ext exts e_pre).
  Notation h_post := (hooks St Ext exts e_post).
  Hypothesis WB : well_behaved St nfe calls h_start h_end h_pre h_post alg_step callback Inv.
  Notation gen_run N s c0 :=
    (Core.Algorithm_run St Ext (nat * nat) N exts e_start e_pre e_post e_end alg_step
                        (me_initialize St nfe) (me_call St nfe) callback s (c0, N%nat)).
  Notation iter := (RunLoop.iter St h_pre h_post alg_step callback).

  Theorem tie_c08_generated_run_stops_first : forall N s c0, Inv s ->
    exists k, gen_run N s c0 = Some (h_end (iter k (h_start s)), (nfe s, N))
              /\ (k <= N)%nat
              /\ (N <= nfe (iter k (h_start s)) - nfe s)%nat
              /\ (forall j, (j < k)%nat -> (nfe (iter j (h_start s)) - nfe s < N)%nat).
  Proof.
    intros N s c0 HI.
    destruct (c08_run_stops_first St nfe calls h_start h_end h_pre h_post alg_step callback Inv WB N s HI)
      as [k [Hr [Hk [Hge Hlt]]]].
    exists k. rewrite tie_run, Hr. repeat split; assumption.
  Qed.

  Theorem tie_c08_generated_run_zero : forall s c0,
    gen_run 0%nat s c0 = Some (h_end (h_start s), (nfe s, 0%nat)).
  Proof.
    intros s c0. rewrite tie_run.
    rewrite (c08_run_zero St nfe h_start h_end h_pre h_post alg_step callback s). reflexivity.
  Qed.
End C08_generated.

Print Assumptions tie_c08_generated_run_stops_first.
Print Assumptions tie_c08_generated_run_zero.
