(* Tie/T02.v — ParetoDominance.compare and AttributeDominance.compare GENERATED from platypus/core.py
   (Gen/Core.v, regenerated from the source text on every run) are the hand model of Model/Dominance.v.

   For EVERY carrier V and EVERY record O of operations whose "==" is the order equivalence of its "<"
   (not (a < b) and not (b < a): true of floats without NaN, of Q, of xq), with the model instantiated at
   ltb := n_lt O, neg := n_neg O, zero := the literal 0.  No order law is used.
   The generated loop indexes the lists (IndexError = None); the model recurses on them: the two agree when
   the objective vectors have the length of problem.directions and problem.nobjs is that length.
   Scripts: one generic induction over the direction list for ANY loop body that agrees with [scan_step] at
   every index; the generated body is then compared with [scan_step] by case analysis on each comparison. *)
From Coq Require Import ZArith QArith Bool List Lia.
Import ListNotations.
From PV Require Import Base.Num Base.PyCore Gen.Core Model.Dominance.
Open Scope Z_scope.

Section T02.
  Variable V : Type.
  Variable O : NumOps V.
  Hypothesis Heq : forall a b, n_eq O a b = veq V (n_lt O) a b.

  Local Notation ltb := (n_lt O).
  Local Notation neg := (n_neg O).
  Local Notation zero := (n_lit O 0%Q).

  (* one iteration of the model's scan, as a loop step *)
  Definition scan_step (mx : bool) (a b : V) (d1 d2 : bool) : ctl (bool * bool) Z :=
    let a' := adj V neg mx a in
    let b' := adj V neg mx b in
    if ltb a' b' then (if d2 then Ret 0 else Next (true, d2))
    else if ltb b' a' then (if d1 then Ret 0 else Next (d1, true))
    else Next (d1, d2).

  Lemma scan_loop : forall (dirs : list bool) (o1 o2 : list V) (body : Z -> bool * bool -> ctl (bool * bool) Z)
                           (d1 d2 : bool) (k : bool * bool -> ctl unit Z),
    length o1 = length dirs -> length o2 = length dirs ->
    (forall i mx a b e1 e2, nth_error dirs i = Some mx -> nth_error o1 i = Some a -> nth_error o2 i = Some b ->
                            body (Z.of_nat i) (e1, e2) = scan_step mx a b e1 e2) ->
    (forall e1 e2, k (e1, e2) = Ret (if Bool.eqb e1 e2 then 0 else if e1 then -1 else 1)) ->
    bind (for_range (Z.of_nat (length dirs)) body (d1, d2)) k = Ret (scan V ltb neg dirs o1 o2 d1 d2).
  Proof.
    induction dirs as [|mx dirs IH]; intros o1 o2 body d1 d2 k L1 L2 Hb Hk.
    - rewrite for_range_0. cbn [bind scan]. apply Hk.
    - destruct o1 as [|a o1]; [discriminate|]. destruct o2 as [|b o2]; [discriminate|].
      cbn [length] in *. rewrite for_range_succ.
      pose proof (Hb 0%nat mx a b d1 d2 eq_refl eq_refl eq_refl) as H0. change (Z.of_nat 0) with 0 in H0. rewrite H0. clear H0.
      assert (Hb' : forall i mx' a' b' e1 e2, nth_error dirs i = Some mx' -> nth_error o1 i = Some a' ->
                      nth_error o2 i = Some b' -> body (Z.succ (Z.of_nat i)) (e1, e2) = scan_step mx' a' b' e1 e2).
      { intros i mx' a' b' e1 e2 A B C. rewrite <- Nat2Z.inj_succ. apply Hb; assumption. }
      unfold scan_step. cbn [scan].
      destruct (ltb (adj V neg mx a) (adj V neg mx b)).
      + destruct d2; cbn [bind]; [reflexivity|]. apply IH; auto; lia.
      + destruct (ltb (adj V neg mx b) (adj V neg mx a)).
        * destruct d1; cbn [bind]; [reflexivity|]. apply IH; auto; lia.
        * cbn [bind]. apply IH; auto; lia.
  Qed.

  Theorem tie_pareto_compare : forall (nconstrs : Z) (dirs : list bool) (s1 s2 : dsol V),
    length (d_objs s1) = length dirs -> length (d_objs s2) = length dirs ->
    Core.ParetoDominance_compare V O nconstrs (Z.of_nat (length dirs)) dirs
                                 (d_cv s1) (d_objs s1) (d_cv s2) (d_objs s2)
    = Some (pareto_compare V ltb neg zero (nconstrs >? 0) dirs s1 s2).
  Proof.
    intros nconstrs dirs [o1 c1] [o2 c2] L1 L2. cbn [d_objs d_cv] in *.
    unfold Core.ParetoDominance_compare, pareto_compare, cv_ladder. cbn [d_objs d_cv].
    rewrite !Heq.
    destruct (nconstrs >? 0); cbn [andb];
      repeat match goal with
             | |- context [veq V ltb ?a ?b] => destruct (veq V ltb a b)
             end; cbn [negb];
      repeat match goal with
             | |- context [if ltb ?a ?b then _ else _] => destruct (ltb a b)
             end; cbn [bind finish]; try reflexivity.
    all: (erewrite scan_loop; [reflexivity | exact L1 | exact L2 | | ]).
    all: try (intros e1 e2; destruct e1, e2; reflexivity).
    all: intros i mx a b e1 e2 A B C; rewrite !py_index_nat, A, B, C; cbn [get];
         unfold scan_step, adj; destruct mx;
         repeat match goal with
                | |- context [if ltb ?x ?y then _ else _] => destruct (ltb x y)
                end;
         destruct e1, e2; reflexivity.
  Qed.

  (* AttributeDominance.compare: a = self.getter(solution1), b = self.getter(solution2) *)
  Theorem tie_attribute_compare : forall (T : Type) (getter : T -> V) (larger_preferred : bool) (s1 s2 : T),
    Core.AttributeDominance_compare V O T getter larger_preferred s1 s2
    = attr_compare V ltb neg larger_preferred (getter s1) (getter s2).
  Proof.
    intros T getter lp s1 s2. unfold Core.AttributeDominance_compare, attr_compare. cbv zeta.
    destruct lp;
      repeat match goal with
             | |- context [if ltb ?x ?y then _ else _] => destruct (ltb x y)
             end; reflexivity.
  Qed.
End T02.

(* ---- instances ---- *)
(* the executable carrier of the correspondence check: xq = Q + {-inf, +inf} with xltb / xneg / xzero, "==" = xeqb *)
Theorem tie_pareto_compare_xq : forall (O : NumOps xq),
  n_lt O = xltb -> n_neg O = xneg -> n_eq O = xeqb -> n_lit O 0%Q = xzero ->
  forall (nconstrs : Z) (dirs : list bool) (s1 s2 : xdsol),
  length (d_objs s1) = length dirs -> length (d_objs s2) = length dirs ->
  Core.ParetoDominance_compare xq O nconstrs (Z.of_nat (length dirs)) dirs (d_cv s1) (d_objs s1) (d_cv s2) (d_objs s2)
  = Some (x_pareto_compare (nconstrs >? 0) dirs s1 s2).
Proof.
  intros O Hlt Hneg Heq Hz nconstrs dirs s1 s2 L1 L2.
  rewrite (tie_pareto_compare xq O); [|intros a b; rewrite Heq, Hlt; reflexivity|exact L1|exact L2].
  unfold x_pareto_compare. rewrite Hlt, Hneg, Hz. reflexivity.
Qed.

(* the hypotheses are satisfiable: such a record exists (the arithmetic fields are not used by the comparison code) *)
Example xq_record_exists : exists O : NumOps xq,
  n_lt O = xltb /\ n_neg O = xneg /\ n_eq O = xeqb /\ n_lit O 0%Q = xzero.
Proof.
  exists {| n_lt := xltb; n_le := xleb; n_eq := xeqb; n_neg := xneg;
            n_add := fun a _ => a; n_sub := fun a _ => a; n_mul := fun a _ => a; n_div := fun a _ => a;
            n_abs := fun a => a; n_floor := fun _ => 0; n_of_Z := FZ; n_lit := Fin |}.
  repeat split.
Qed.

(* exact rationals: "==" of Qops (Qeq_bool) is the order equivalence of its "<" *)
Example Qops_eq_is_order_equivalence : forall a b : Q, n_eq Qops a b = veq Q (n_lt Qops) a b.
Proof.
  intros a b. unfold veq. cbn [n_eq n_lt Qops]. rewrite !negb_involutive.
  destruct (Qeq_bool a b) eqn:E.
  - apply Qeq_bool_iff in E. symmetry. apply andb_true_iff.
    split; apply Qle_bool_iff; rewrite E; apply Qle_refl.
  - destruct (Qle_bool b a) eqn:E1, (Qle_bool a b) eqn:E2; try reflexivity.
    apply Qle_bool_iff in E1, E2. assert (H : (a == b)%Q) by (apply Qle_antisym; assumption).
    apply Qeq_bool_iff in H. congruence.
Qed.

(* ---- C02 stated about the GENERATED ParetoDominance.compare on the executable carrier xq (every non-NaN
   float value incl. +-inf): the definition produced from the source text always answers, with the specified
   value; swapping the arguments negates the answer; nothing beats itself; "dominates" is transitive.
   [wf] = objective vector of the declared length and a constraint violation that is >= 0 (Props/C02.v). ---- *)
From PV Require Import Proofs.DominanceProofs Props.C02.

Section C02_generated.
  Variable O : NumOps xq.
  Hypothesis Hlt : n_lt O = xltb.
  Hypothesis Hneg : n_neg O = xneg.
  Hypothesis Heq : n_eq O = xeqb.
  Hypothesis Hz : n_lit O 0%Q = xzero.
  Notation gen nconstrs dirs s1 s2 :=
    (Core.ParetoDominance_compare xq O nconstrs (Z.of_nat (length dirs)) dirs (d_cv s1) (d_objs s1) (d_cv s2) (d_objs s2)).
  Notation xwf := (wf xq xltb xzero).
  Notation xbetter := (better xq xltb xneg).

  Lemma gen_is_model : forall nconstrs dirs (s1 s2 : xdsol), xwf dirs s1 -> xwf dirs s2 ->
    gen nconstrs dirs s1 s2 = Some (x_pareto_compare (nconstrs >? 0) dirs s1 s2).
  Proof.
    intros nconstrs dirs s1 s2 [L1 _] [L2 _]. exact (tie_pareto_compare_xq O Hlt Hneg Heq Hz nconstrs dirs s1 s2 L1 L2).
  Qed.

  Theorem tie_c02_generated_spec : forall nconstrs dirs (s1 s2 : xdsol), xwf dirs s1 -> xwf dirs s2 ->
    gen nconstrs dirs s1 s2 =
      Some (if xbetter (nconstrs >? 0) dirs s1 s2 then -1 else if xbetter (nconstrs >? 0) dirs s2 s1 then 1 else 0).
  Proof.
    intros nconstrs dirs s1 s2 W1 W2. rewrite (gen_is_model _ _ _ _ W1 W2). f_equal.
    exact (c02_xq_compare_spec (nconstrs >? 0) dirs s1 s2 W1 W2).
  Qed.

  Theorem tie_c02_generated_antisym : forall nconstrs dirs (s1 s2 : xdsol), xwf dirs s1 -> xwf dirs s2 ->
    exists z, gen nconstrs dirs s1 s2 = Some z /\ gen nconstrs dirs s2 s1 = Some (- z).
  Proof.
    intros nconstrs dirs s1 s2 W1 W2. eexists. split; [exact (gen_is_model _ _ _ _ W1 W2)|].
    rewrite (gen_is_model _ _ _ _ W2 W1). f_equal.
    exact (c02_antisym xq xltb xneg xzero c02_instance_xq (nconstrs >? 0) dirs s1 s2 W1 W2).
  Qed.

  Theorem tie_c02_generated_irrefl : forall nconstrs dirs (s : xdsol), xwf dirs s -> gen nconstrs dirs s s = Some 0.
  Proof.
    intros nconstrs dirs s W. rewrite (gen_is_model _ _ _ _ W W). f_equal.
    exact (c02_irrefl xq xltb xneg xzero c02_instance_xq (nconstrs >? 0) dirs s W).
  Qed.

  Theorem tie_c02_generated_dominates_trans : forall nconstrs dirs (s1 s2 s3 : xdsol),
    xwf dirs s1 -> xwf dirs s2 -> xwf dirs s3 ->
    gen nconstrs dirs s1 s2 = Some (-1) -> gen nconstrs dirs s2 s3 = Some (-1) -> gen nconstrs dirs s1 s3 = Some (-1).
  Proof.
    intros nconstrs dirs s1 s2 s3 W1 W2 W3 H12 H23.
    rewrite (gen_is_model _ _ _ _ W1 W2) in H12. rewrite (gen_is_model _ _ _ _ W2 W3) in H23.
    rewrite (gen_is_model _ _ _ _ W1 W3). f_equal.
    injection H12 as H12. injection H23 as H23.
    exact (c02_dominates_trans xq xltb xneg xzero c02_instance_xq (nconstrs >? 0) dirs s1 s2 s3 W1 W2 W3 H12 H23).
  Qed.
End C02_generated.

Print Assumptions tie_c02_generated_spec.
Print Assumptions tie_c02_generated_antisym.
Print Assumptions tie_c02_generated_irrefl.
Print Assumptions tie_c02_generated_dominates_trans.
