(* Tie/T15.v — the array primitives of the hypervolume indicator GENERATED from platypus/indicators.py (Gen/Core.v,
   regenerated from the source text on every run) are those of Model/Hypervolume.v, at the exact-rational record
   [Qops]:  Hypervolume.dominates, Hypervolume.swap, Hypervolume.surface_unchanged_to.
   Reading (declared in harness/translate/py2coq_core.py): a solution is REPRESENTED BY its normalized_objectives
   vector (the attribute is read as the object itself), the `solutions` array is a list owned by the call
   (solutions[i] = v is a functional update; the updated list is the result).
   The generated code raises IndexError (None) where an index is out of range; the model reads a default there:
   the two agree on well-formed arguments (indices below the lengths), which is what the theorems assume. *)
From Coq Require Import ZArith QArith Bool List Lia.
Import ListNotations.
From PV Require Import Base.Num Base.PyCore Gen.Core Model.Indicators Model.Hypervolume.
Open Scope Z_scope.

Lemma aset_is_list_upd (a : list point) (i : nat) (v : point) : aset a i v = list_upd a i v.
Proof. revert i. induction a as [|x a IH]; intros [|i]; cbn [aset list_upd]; try reflexivity. now rewrite IH. Qed.

Lemma Z_ltb_nat (a b : nat) : (Z.of_nat a <? Z.of_nat b) = Nat.ltb a b.
Proof.
  destruct (Nat.ltb a b) eqn:E.
  - apply Nat.ltb_lt in E. apply Z.ltb_lt. lia.
  - apply Nat.ltb_ge in E. apply Z.ltb_ge. lia.
Qed.

(* ---- swap: solutions[i], solutions[j] = solutions[j], solutions[i] ---- *)
Theorem tie_hv_swap : forall (a : list point) (i j : nat), (i < length a)%nat -> (j < length a)%nat ->
  Core.Hypervolume_swap Q a (Z.of_nat i) (Z.of_nat j) = Some (swap a i j).
Proof.
  intros a i j Hi Hj. unfold Core.Hypervolume_swap, swap, aget. unfold point in *.
  rewrite !py_index_nat, (nth_error_nth' a j [] Hj), (nth_error_nth' a i [] Hi). cbn [get].
  rewrite (py_set_nat a i _ Hi). cbn [get].
  rewrite py_set_nat by (now rewrite list_upd_length). cbn [get finish].
  now rewrite !aset_is_list_upd.
Qed.

(* ---- dominates: for i in range(nobjs): if s1[i] > s2[i]: better = True else: worse = True; break ---- *)
Section Dominates.
  Variables p q : point.

  Lemma dom_stuck : forall (n : nat) (body : Z -> bool * bool * bool -> ctl (bool * bool * bool) bool) (b w : bool),
    (forall i b' w', body i (b', w', true) = Next (b', w', true)) ->
    for_range (Z.of_nat n) body (b, w, true) = Next (b, w, true).
  Proof.
    induction n as [|n IH]; intros body b w H; [reflexivity|].
    rewrite for_range_succ, H. cbn [PyCore.bind]. apply IH. intros; apply H.
  Qed.

  Lemma dom_loop : forall (n k0 : nat) (body : Z -> bool * bool * bool -> ctl (bool * bool * bool) bool) (b : bool),
    (forall i b' w', body i (b', w', true) = Next (b', w', true)) ->
    (forall i b', (i < n)%nat ->
        body (Z.of_nat i) (b', false, false)
        = if Qltb (coord q (k0 + i)) (coord p (k0 + i)) then Next (true, false, false) else Next (b', true, true)) ->
    PyCore.bind (for_range (Z.of_nat n) body (b, false, false)) (fun '(b', w', _) => @Ret unit bool (negb w' && b'))
    = Ret (dom_scan p q (seq k0 n) b).
  Proof.
    induction n as [|n IH]; intros k0 body b Hs Hb.
    - rewrite for_range_0. reflexivity.
    - rewrite for_range_succ. pose proof (Hb 0%nat b ltac:(lia)) as H0. change (Z.of_nat 0) with 0 in H0.
      rewrite H0, Nat.add_0_r. cbn [seq dom_scan].
      destruct (Qltb (coord q k0) (coord p k0)); cbn [PyCore.bind].
      + apply IH; [intros; apply Hs|]. intros i b' Hi. rewrite <- Nat2Z.inj_succ, Hb by lia.
        now rewrite Nat.add_succ_r.
      + rewrite dom_stuck by (intros; apply Hs). reflexivity.
  Qed.

  Theorem tie_hv_dominates : forall nobjs : nat, (nobjs <= length p)%nat -> (nobjs <= length q)%nat ->
    Core.Hypervolume_dominates Q Qops p q (Z.of_nat nobjs) = Some (dominates p q nobjs).
  Proof.
    intros nobjs Hp Hq. unfold Core.Hypervolume_dominates, dominates. unfold point in *. cbv zeta.
    match goal with |- finish ?t = _ => assert (E : t = Ret (dom_scan p q (seq 0 nobjs) false)); [|now rewrite E] end.
    apply dom_loop.
    - intros i b' w'. reflexivity.
    - intros i b' Hi. cbn [Nat.add]. rewrite !py_index_nat.
      rewrite (nth_error_nth' p i 0%Q) by lia. rewrite (nth_error_nth' q i 0%Q) by lia. cbn [get n_lt Qops].
      unfold coord, Qltb. destruct (Qle_bool (nth i p 0%Q) (nth i q 0%Q)); reflexivity.
  Qed.
End Dominates.

(* ---- surface_unchanged_to: min([solutions[i].normalized_objectives[obj] for i in range(nsols)]) ---- *)
Lemma map_opt_range {C} (g : Z -> option C) (f : nat -> C) (n : nat) :
  (forall i, (i < n)%nat -> g (Z.of_nat i) = Some (f i)) ->
  map_opt g (zrange (Z.of_nat n)) = Some (map f (seq 0 n)).
Proof.
  intro H. unfold zrange. rewrite Nat2Z.id, map_opt_map.
  rewrite (map_opt_ext_in _ (fun i => Some (f i))); [apply map_opt_total|].
  intros i Hi. apply in_seq in Hi. apply H. lia.
Qed.

Lemma list_min_is_qmin (m : Q) (l : list Q) : fold_left (py_min Qops) l m = qmin_from m l.
Proof. revert m. induction l as [|x l IH]; intro m; cbn [fold_left qmin_from]; [reflexivity|]. rewrite IH. reflexivity. Qed.

Theorem tie_hv_surface_unchanged_to : forall (a : list point) (nsols obj : nat),
  (nsols <= length a)%nat -> (forall i, (i < nsols)%nat -> (obj < length (aget a i))%nat) ->
  match surface_unchanged_to a nsols obj with
  | Ok r => Core.Hypervolume_surface_unchanged_to Q Qops a (Z.of_nat nsols) (Z.of_nat obj) = Some r
  | Err _ => Core.Hypervolume_surface_unchanged_to Q Qops a (Z.of_nat nsols) (Z.of_nat obj) = None
  end.
Proof.
  intros a nsols obj Hn Hobj. unfold Core.Hypervolume_surface_unchanged_to, surface_unchanged_to. unfold point in *.
  rewrite (map_opt_range _ (fun i => coord (aget a i) obj) nsols).
  - cbn [get]. destruct (map (fun i => coord (aget a i) obj) (seq 0 nsols)) as [|x l]; cbn [qminl py_list_min get finish];
      [reflexivity|]. now rewrite list_min_is_qmin.
  - intros i Hi. rewrite py_index_nat, (nth_error_nth' a i []) by lia. cbn [obind].
    pose proof (Hobj i Hi) as Hl. unfold aget in *.
    rewrite py_index_nat. rewrite (nth_error_nth' (nth i a []) obj 0%Q) by exact Hl. reflexivity.
Qed.

(* ---- reduce_set: while i < n: if solutions[i][obj] <= threshold: n -= 1; swap(solutions, i, n)   ; i += 1 ---- *)
Section ReduceSet.
  Variable obj : nat.
  Variable thr : Q.

  Definition rs_ok (a : list (list Q)) : Prop := Forall (fun p => (obj < length p)%nat) a.

  Lemma rs_ok_nth (a : list (list Q)) (i : nat) : rs_ok a -> (i < length a)%nat -> (obj < length (nth i a []))%nat.
  Proof. intros H Hi. unfold rs_ok in H. rewrite Forall_forall in H. apply H. now apply nth_In. Qed.

  Lemma rs_ok_upd (a : list (list Q)) (i : nat) (v : list Q) : rs_ok a -> (obj < length v)%nat -> rs_ok (list_upd a i v).
  Proof.
    unfold rs_ok. revert i. induction a as [|x a IH]; intros [|i] H Hv; cbn [list_upd]; auto;
      inversion H; subst; constructor; auto.
  Qed.

  Lemma rs_ok_swap (a : list (list Q)) (i j : nat) : rs_ok a -> (i < length a)%nat -> (j < length a)%nat -> rs_ok (swap a i j).
  Proof.
    intros H Hi Hj. unfold swap, aget. rewrite !aset_is_list_upd.
    apply rs_ok_upd; [apply rs_ok_upd|]; auto using rs_ok_nth.
  Qed.

  Lemma swap_length (a : list (list Q)) (i j : nat) : length (swap a i j) = length a.
  Proof. unfold swap. now rewrite !aset_is_list_upd, !list_upd_length. Qed.

  Definition rs_state := (Z * Z * list (list Q))%type.

  Lemma rs_while : forall (cond : rs_state -> bool) (body : rs_state -> ctl rs_state (list (list Q) * Z))
                          (k : rs_state -> ctl unit (list (list Q) * Z)),
    (forall i n a, cond (i, n, a) = (i <? n)) ->
    (forall (i n : nat) a, (i < n)%nat -> (n <= length a)%nat -> rs_ok a ->
        body (Z.of_nat i, Z.of_nat n, a)
        = if Qle_bool (coord (aget a i) obj) thr
          then Next (Z.of_nat (S i), Z.of_nat (n - 1), swap a i (n - 1))
          else Next (Z.of_nat (S i), Z.of_nat n, a)) ->
    (forall i n a, k (i, n, a) = Ret (a, n)) ->
    forall (fuel : nat) (a : list (list Q)) (i n : nat), (n <= length a)%nat -> rs_ok a ->
    PyCore.bind (while_fuel fuel cond body (Z.of_nat i, Z.of_nat n, a)) k
    = match rs_loop (S fuel) obj thr a i n with
      | Ok (n', a') => Ret (a', Z.of_nat n')
      | Err _ => Raise
      end.
  Proof.
    intros cond body k Hc Hb Hk.
    induction fuel as [|f IH]; intros a i n Hn Hok.
    - cbn [while_fuel rs_loop]. rewrite Hc, Z_ltb_nat. destruct (Nat.ltb i n); cbn [PyCore.bind]; [destruct (Qle_bool (coord (aget a i) obj) thr); reflexivity|apply Hk].
    - cbn [while_fuel]. rewrite Hc, Z_ltb_nat.
      change (rs_loop (S (S f)) obj thr a i n) with
        (if Nat.ltb i n then
           if Qle_bool (coord (aget a i) obj) thr then rs_loop (S f) obj thr (swap a i (n - 1)) (S i) (n - 1)
           else rs_loop (S f) obj thr a (S i) n
         else Ok (n, a)).
      destruct (Nat.ltb i n) eqn:E; cbn [PyCore.bind]; [|apply Hk].
      apply Nat.ltb_lt in E. rewrite (Hb i n a E Hn Hok).
      destruct (Qle_bool (coord (aget a i) obj) thr).
      + apply IH; [rewrite swap_length; lia|apply rs_ok_swap; auto; lia].
      + apply IH; auto.
  Qed.
End ReduceSet.

(* the callee self.swap as reduce_set sees it (ints in, IndexError impossible on the indices it is given) *)
Definition swap_callee (a : list (list Q)) (i j : Z) : option (list (list Q)) := Some (swap a (Z.to_nat i) (Z.to_nat j)).

Theorem tie_hv_reduce_set : forall (fuel : nat) (a : list point) (nsols obj : nat) (thr : Q),
  (nsols <= length a)%nat -> rs_ok obj a ->
  Core.Hypervolume_reduce_set Q Qops fuel swap_callee a (Z.of_nat nsols) (Z.of_nat obj) thr
  = match rs_loop (S fuel) obj thr a 0 nsols with
    | Ok (n', a') => Some (a', Z.of_nat n')
    | Err _ => None
    end.
Proof.
  intros fuel a nsols obj thr Hn Hok. unfold Core.Hypervolume_reduce_set. unfold point in *. cbv zeta.
  match goal with
  | |- finish (PyCore.bind (while_fuel fuel ?c ?b _) ?k) = _ =>
      assert (H : PyCore.bind (while_fuel fuel c b (Z.of_nat 0, Z.of_nat nsols, a)) k
                  = match rs_loop (S fuel) obj thr a 0 nsols with
                    | Ok (n', a') => Ret (a', Z.of_nat n')
                    | Err _ => Raise
                    end)
  end.
  { apply (rs_while obj thr).
    - intros i n a0. reflexivity.
    - intros i n a0 Hi Hl Hok0.
      rewrite py_index_nat, (nth_error_nth' a0 i []) by lia. cbn [get].
      rewrite py_index_nat, (nth_error_nth' (nth i a0 []) obj 0%Q) by (apply rs_ok_nth; auto; lia). cbn [get n_le Qops].
      unfold coord, aget, swap_callee. unfold point in *.
      destruct (Qle_bool (nth obj (nth i a0 []) 0%Q) thr); cbn [get PyCore.bind].
      + replace (Z.of_nat n - 1) with (Z.of_nat (n - 1)) by lia. rewrite !Nat2Z.id.
        replace (Z.of_nat i + 1) with (Z.of_nat (S i)) by lia. reflexivity.
      + replace (Z.of_nat i + 1) with (Z.of_nat (S i)) by lia. reflexivity.
    - intros i n a0. reflexivity.
    - exact Hn.
    - exact Hok. }
  change (Z.of_nat 0) with 0 in H.
  etransitivity; [apply (f_equal finish); exact H|].
  destruct (rs_loop (S fuel) obj thr a 0 nsols) as [[n' a']|]; reflexivity.
Qed.

(* with the model's fuel: Model/Hypervolume.reduce_set *)
Corollary tie_hv_reduce_set_model : forall (a : list point) (nsols obj : nat) (thr : Q),
  (nsols <= length a)%nat -> rs_ok obj a ->
  Core.Hypervolume_reduce_set Q Qops nsols swap_callee a (Z.of_nat nsols) (Z.of_nat obj) thr
  = match reduce_set a nsols obj thr with
    | Ok (n', a') => Some (a', Z.of_nat n')
    | Err _ => None
    end.
Proof. intros. now apply tie_hv_reduce_set. Qed.
