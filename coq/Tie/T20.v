(* Tie/T20.v — lsolve GENERATED from platypus/_math.py (Gen/Core.v, regenerated from the source text on every run) is
   [lsolve] of Model/LSolve.v at exact rationals ([Qops] / lsolveQ), on well-formed systems: A has N rows of length
   N and N = len(b).  (Outside that, the code raises IndexError where the model reads a default.)
   Reading: A and b are lists owned by the call (item stores are functional updates; rows of A are not shared);
   every exception (SingularError, ZeroDivisionError) is None, the model's Singular / DivZero. *)
From Coq Require Import ZArith QArith Qabs Bool List Lia.
Import ListNotations.
From PV Require Import Base.Num Base.PyCore Gen.Core Model.LSolve.
Open Scope Z_scope.

(* ---------------- generic: a loop over nat indices whose body is a (partial) function of an abstract state ---- *)
Section Generic.
  Context {S S' R : Type}.
  Variable Inv : S' -> Prop.
  Variable emb : S' -> S.

  Lemma loop_total (f : S' -> nat -> S') (body : Z -> S -> ctl S R) : forall (l : list nat) (s : S'),
    (forall i s, In i l -> Inv s -> body (Z.of_nat i) (emb s) = Next (emb (f s i)) /\ Inv (f s i)) -> Inv s ->
    for_list body (map Z.of_nat l) (emb s) = Next (emb (fold_left f l s)) /\ Inv (fold_left f l s).
  Proof.
    induction l as [|i l IH]; intros s H Hs; cbn [map for_list fold_left]; [auto|].
    destruct (H i s (or_introl eq_refl) Hs) as [E Hi]. rewrite E. apply IH; auto.
    intros j s' Hj. apply H. now right.
  Qed.

  Definition ostep (f : S' -> nat -> option S') (st : option S') (i : nat) : option S' :=
    match st with Some s => f s i | None => None end.

  Lemma ostep_none f l : fold_left (ostep f) l None = None.
  Proof. induction l; cbn; auto. Qed.

  Lemma loop_partial (f : S' -> nat -> option S') (body : Z -> S -> ctl S R) : forall (l : list nat) (s : S'),
    (forall i s, In i l -> Inv s ->
        match f s i with
        | Some s' => body (Z.of_nat i) (emb s) = Next (emb s') /\ Inv s'
        | None => body (Z.of_nat i) (emb s) = Raise
        end) -> Inv s ->
    match fold_left (ostep f) l (Some s) with
    | Some s' => for_list body (map Z.of_nat l) (emb s) = Next (emb s') /\ Inv s'
    | None => for_list body (map Z.of_nat l) (emb s) = Raise
    end.
  Proof.
    induction l as [|i l IH]; intros s H Hs; cbn [map for_list fold_left ostep]; [auto|].
    pose proof (H i s (or_introl eq_refl) Hs) as Hi. destruct (f s i) as [s'|].
    - destruct Hi as [E Hs']. rewrite E. apply IH; auto. intros j s'' Hj. apply H. now right.
    - rewrite Hi, ostep_none. reflexivity.
  Qed.
End Generic.

(* ---------------- ranges ---------------- *)
Lemma seq_from (a n : nat) : map Z.of_nat (seq a n) = map (fun k => Z.of_nat a + Z.of_nat k) (seq 0 n).
Proof.
  revert a. induction n as [|n IH]; intro a; [reflexivity|].
  cbn [seq map]. f_equal; [lia|]. rewrite <- (seq_shift n 0), map_map, (IH (S a)). apply map_ext. intro k. lia.
Qed.

Lemma zrange2_nat (a N : nat) : zrange2 (Z.of_nat a) (Z.of_nat N) = map Z.of_nat (seq a (N - a)).
Proof. unfold zrange2. rewrite seq_from. f_equal. f_equal. lia. Qed.

Lemma zrange_nat (N : nat) : zrange (Z.of_nat N) = map Z.of_nat (seq 0 N).
Proof. unfold zrange. now rewrite Nat2Z.id. Qed.

Lemma zrange_down_nat (N : nat) : zrange_down (Z.of_nat N - 1) (-1) = map Z.of_nat (rev (seq 0 N)).
Proof.
  unfold zrange_down. replace (Z.to_nat (Z.of_nat N - 1 - -1)) with N by lia.
  induction N as [|N IH]; [reflexivity|].
  replace (rev (seq 0 (S N))) with (N :: rev (seq 0 N)) by (rewrite seq_S, rev_app_distr; reflexivity).
  cbn [seq map]. f_equal; [lia|].
  rewrite <- IH. rewrite <- (seq_shift N 0), map_map. apply map_ext_in. intros k Hk. lia.
Qed.

(* ---------------- lists: in-range reads and writes ---------------- *)
Lemma idx {X} (l : list X) (i : nat) (d : X) : (i < length l)%nat -> py_index l (Z.of_nat i) = Some (nth i l d).
Proof. intro H. rewrite py_index_nat. now apply nth_error_nth'. Qed.

Lemma upd_eq {X} (l : list X) (i : nat) (v : X) : upd l i v = list_upd l i v.
Proof. revert i. induction l as [|x l IH]; intros [|i]; cbn [upd list_upd]; rewrite ?IH; reflexivity. Qed.

Lemma nth_upd {X} (l : list X) (i j : nat) (v d : X) :
  nth j (list_upd l i v) d = if Nat.eqb i j && Nat.ltb i (length l) then v else nth j l d.
Proof.
  revert i j. induction l as [|x l IH]; intros i j; cbn [list_upd length].
  - destruct i, j; cbn; rewrite ?andb_false_r; reflexivity.
  - destruct i as [|i], j as [|j]; cbn [list_upd nth Nat.eqb andb]; try reflexivity.
    rewrite IH. replace (Nat.ltb (S i) (S (length l))) with (Nat.ltb i (length l)); [reflexivity|].
    destruct (Nat.ltb i (length l)) eqn:E; symmetry; [apply Nat.ltb_lt; apply Nat.ltb_lt in E; lia|apply Nat.ltb_ge; apply Nat.ltb_ge in E; lia].
Qed.

Lemma nth_upd_eq {X} (l : list X) (i : nat) (v d : X) : (i < length l)%nat -> nth i (list_upd l i v) d = v.
Proof. intro H. rewrite nth_upd, Nat.eqb_refl. cbn [andb]. apply Nat.ltb_lt in H. now rewrite H. Qed.

Lemma nth_upd_neq {X} (l : list X) (i j : nat) (v d : X) : i <> j -> nth j (list_upd l i v) d = nth j l d.
Proof. intro H. rewrite nth_upd. apply Nat.eqb_neq in H. now rewrite H. Qed.

Lemma list_upd_same {X} (l : list X) (i : nat) (d : X) : list_upd l i (nth i l d) = l.
Proof. revert i. induction l as [|x l IH]; intros [|i]; cbn [list_upd nth]; try reflexivity. now rewrite IH. Qed.

Lemma list_upd_twice {X} (l : list X) (i : nat) (v w : X) : list_upd (list_upd l i v) i w = list_upd l i w.
Proof. revert i. induction l as [|x l IH]; intros [|i]; cbn [list_upd]; try reflexivity. now rewrite IH. Qed.

(* well-formed: N rows of length N *)
Definition wfA (N : nat) (A : list (list Q)) : Prop := length A = N /\ forall i, (i < N)%nat -> length (nth i A []) = N.

Lemma wf_upd N A i r : wfA N A -> length r = N -> wfA N (list_upd A i r).
Proof.
  intros [L R] Hr. split; [now rewrite list_upd_length|]. intros j Hj. rewrite nth_upd.
  destruct (Nat.eqb i j && Nat.ltb i (length A)); auto.
Qed.

(* the model at Q, step functions as partial functions of the state *)
Local Notation getQ := (LSolve.get Q 0%Q).
Local Notation rowQ := (LSolve.row Q).

Definition rowf (N p : nat) (st : list (list Q) * list Q) (i : nat) : option (list (list Q) * list Q) :=
  let '(A, b) := st in
  let app := getQ (rowQ A p) p in
  if Qeq0 app then None
  else let alpha := (getQ (rowQ A i) p / app)%Q in
       Some (upd A i (row_elimQ N p alpha (rowQ A i) (rowQ A p)), upd b i (getQ b i - alpha * getQ b p)%Q).

Lemma elim_rows_fold N p A b : elim_rowsQ N p A b = fold_left (ostep (rowf N p)) (seq (S p) (N - S p)) (Some (A, b)).
Proof.
  unfold elim_rowsQ, elim_rows. generalize (seq (S p) (N - S p)) (Some (A, b)).
  induction l as [|i l IH]; intro st; cbn [fold_left]; [reflexivity|]. rewrite IH. f_equal; try (destruct st as [[A' b']|]; reflexivity).
Qed.

Definition toopt (e : eres Q) : option (list (list Q) * list Q) := match e with Elim A b => Some (A, b) | _ => None end.
Definition stepo (eps : Q) (N : nat) (st : list (list Q) * list Q) (p : nat) := toopt (stepQ eps N (Elim (fst st) (snd st)) p).

Lemma eliminate_fold eps N : forall l e, toopt (fold_left (stepQ eps N) l e) = fold_left (ostep (stepo eps N)) l (toopt e).
Proof.
  induction l as [|p l IH]; intro e; cbn [fold_left]; [reflexivity|]. rewrite IH. f_equal; try (destruct e as [| |A b]; reflexivity).
Qed.

Definition backf (N : nat) (A : list (list Q)) (b : list Q) (x : list Q) (i : nat) : option (list Q) :=
  let s := back_sumQ N i (rowQ A i) x in
  let aii := getQ (rowQ A i) i in
  if Qeq0 aii then None else Some (upd x i ((getQ b i - s) / aii)%Q).

Lemma backsub_fold N A b : forall l st, fold_left (back_stepQ N A b) l st = fold_left (ostep (backf N A b)) l st.
Proof.
  induction l as [|i l IH]; intro st; cbn [fold_left]; [reflexivity|]. rewrite IH. f_equal; try (destruct st; reflexivity).
Qed.

Definition InvAB (N : nat) (s : list (list Q) * list Q) : Prop := wfA N (fst s) /\ length (snd s) = N.

Ltac zsucc := repeat match goal with |- context [Z.of_nat ?p + 1] => replace (Z.of_nat p + 1) with (Z.of_nat (S p)) by lia end.

Theorem tie_lsolve : forall (eps : Q) (A : list (list Q)) (b : list Q), wfA (length b) A ->
  match lsolveQ eps A b with
  | Solved x => exists A' b', Core.lsolve Q Qops eps A b = Some (A', b', x)
  | _ => Core.lsolve Q Qops eps A b = None
  end.
Proof.
  intros eps A b HwA. set (N := length b) in *.
  unfold Core.lsolve, py_len. fold N. cbv zeta. unfold for_range. rewrite zrange_nat.
  match goal with
  | |- context [for_list ?body (map Z.of_nat (seq 0 N)) (A, b)] =>
      pose proof (loop_partial (R := list (list Q) * list Q * list Q) (InvAB N) (fun s => s) (stepo eps N) body (seq 0 N) (A, b)) as HO
  end.
  assert (HO' : InvAB N (A, b)) by (split; [exact HwA|reflexivity]).
  match type of HO with ?P -> _ => assert (Hprem : P) end.
  { clear HO. intros p [A1 b1] Hp [HwA1 Hb1]. cbn [fst snd] in *. apply in_seq in Hp.
    destruct HwA1 as [LA1 RA1].
    zsucc. unfold for_range2. rewrite !zrange2_nat.
    (* pivot search *)
    match goal with
    | |- context [for_list ?pb (map Z.of_nat (seq (S p) (N - S p))) (Z.of_nat p)] =>
        destruct (loop_total (R := list (list Q) * list Q * list Q) (fun mx : nat => (mx < N)%nat) Z.of_nat
                    (fun mx i => if Qgtb (Qabs (getQ (rowQ A1 i) p)) (Qabs (getQ (rowQ A1 mx) p)) then i else mx)
                    pb (seq (S p) (N - S p)) p) as [Epiv Hpiv]
    end.
    { intros i mx Hi Hmx. apply in_seq in Hi.
      rewrite (idx A1 i []) by lia. cbn [PyCore.get]. rewrite (idx (nth i A1 []) p 0%Q) by (rewrite RA1; lia). cbn [PyCore.get].
      rewrite (idx A1 mx []) by lia. cbn [PyCore.get]. rewrite (idx (nth mx A1 []) p 0%Q) by (rewrite RA1; lia). cbn [PyCore.get].
      unfold LSolve.get, LSolve.row, Qgtb. cbn [n_lt n_abs Qops].
      destruct (Qle_bool (Qabs (nth p (nth i A1 []) 0%Q)) (Qabs (nth p (nth mx A1 []) 0%Q))); cbn [negb]; split; try reflexivity; lia. }
    { lia. }
    rewrite Epiv. cbn [PyCore.bind]. clear Epiv.
    change (fold_left _ (seq (S p) (N - S p)) p) with (pivotQ A1 N p) in *.
    set (mx := pivotQ A1 N p) in *.
    unfold stepo, stepQ, step. cbn [fst snd]. fold (pivotQ A1 N p). fold mx.
    (* the two swaps *)
    rewrite (idx A1 mx []), (idx A1 p []) by lia. cbn [PyCore.get].
    rewrite (py_set_nat A1 p) by lia. cbn [PyCore.get].
    rewrite py_set_nat by (rewrite list_upd_length; lia). cbn [PyCore.get].
    rewrite (idx b1 mx 0%Q), (idx b1 p 0%Q) by lia. cbn [PyCore.get].
    rewrite (py_set_nat b1 p) by lia. cbn [PyCore.get].
    rewrite py_set_nat by (rewrite list_upd_length; lia). cbn [PyCore.get].
    unfold swap. repeat rewrite (upd_eq (X := list Q)). repeat rewrite (upd_eq (X := Q)).
    change (upd A1 p (nth mx A1 [])) with (list_upd A1 p (nth mx A1 [])).
    change (upd b1 p (nth mx b1 0%Q)) with (list_upd b1 p (nth mx b1 0%Q)).
    set (A2 := list_upd (list_upd A1 p (nth mx A1 [])) mx (nth p A1 [])).
    set (b2 := list_upd (list_upd b1 p (nth mx b1 0%Q)) mx (nth p b1 0%Q)).
    assert (HwA2 : wfA N A2).
    { apply wf_upd; [apply wf_upd; [split; assumption|]|]; apply RA1; lia. }
    assert (Hb2 : length b2 = N) by (unfold b2; now rewrite !list_upd_length).
    destruct HwA2 as [LA2 RA2].
    rewrite (idx A2 p []) by lia. cbn [PyCore.get]. rewrite (idx (nth p A2 []) p 0%Q) by (rewrite RA2; lia). cbn [PyCore.get].
    unfold LSolve.get, LSolve.row. cbn [n_le n_abs Qops].
    destruct (Qle_bool (Qabs (nth p (nth p A2 []) 0%Q)) eps); cbv iota; cbn [toopt]; [reflexivity|].
    change (elim_rows Q 0%Q Qminus Qmult Qdiv Qeq0 N p A2 b2) with (elim_rowsQ N p A2 b2). rewrite elim_rows_fold.
    (* elimination of the rows below the pivot *)
    match goal with
    | |- context [for_list ?rb (map Z.of_nat (seq (S p) (N - S p))) (A2, b2)] =>
        pose proof (loop_partial (R := list (list Q) * list Q * list Q) (InvAB N) (fun s => s) (rowf N p) rb
                                 (seq (S p) (N - S p)) (A2, b2)) as HR
    end.
    match type of HR with ?P -> _ => assert (HRp : P) end.
    { clear HR. intros i [A3 b3] Hi [[LA3 RA3] Hb3]. cbn [fst snd] in *. apply in_seq in Hi.
      unfold rowf.
      rewrite (idx A3 i []) by lia. cbn [PyCore.get]. rewrite (idx (nth i A3 []) p 0%Q) by (rewrite RA3; lia). cbn [PyCore.get].
      rewrite (idx A3 p []) by lia. cbn [PyCore.get]. rewrite (idx (nth p A3 []) p 0%Q) by (rewrite RA3; lia). cbn [PyCore.get].
      unfold py_div, Qeq0, LSolve.get, LSolve.row. cbn [n_eq n_lit n_div n_sub n_mul Qops].
      destruct (Qeq_bool (nth p (nth p A3 []) 0%Q) 0%Q); [reflexivity|]. cbn [PyCore.get]. cbv zeta.
      set (alpha := (nth p (nth i A3 []) 0 / nth p (nth p A3 []) 0)%Q).
      rewrite (idx b3 i 0%Q), (idx b3 p 0%Q) by lia. cbn [PyCore.get].
      rewrite (py_set_nat b3 i) by lia. cbn [PyCore.get].
      (* innermost loop: the row i, as a function of the row alone *)
      set (rp := nth p A3 []).
      match goal with
      | |- context [for_list ?jb (map Z.of_nat (seq p (N - p))) A3] =>
          destruct (loop_total (R := list (list Q) * list Q * list Q) (fun r : list Q => length r = N) (fun r => list_upd A3 i r)
                      (fun r j => upd r j (Qminus (getQ r j) (Qmult alpha (getQ rp j))))
                      jb (seq p (N - p)) (nth i A3 [])) as [Erow Hrow]
      end.
      { intros j r Hj Hr. apply in_seq in Hj.
        rewrite (idx (list_upd A3 i r) i []) by (rewrite list_upd_length; lia). rewrite nth_upd_eq by lia. cbn [PyCore.get].
        rewrite (idx r j 0%Q) by lia. cbn [PyCore.get].
        rewrite (idx (list_upd A3 i r) p []) by (rewrite list_upd_length; lia). rewrite nth_upd_neq by lia. cbn [PyCore.get].
        fold rp. rewrite (idx rp j 0%Q) by (unfold rp; rewrite RA3; lia). cbn [PyCore.get].
        rewrite (py_set_nat r j) by lia. cbn [PyCore.get].
        rewrite py_set_nat by (rewrite list_upd_length; lia). cbn [PyCore.get].
        rewrite list_upd_twice. unfold LSolve.get. split; [reflexivity|]. rewrite upd_eq. now rewrite list_upd_length. }
      { apply RA3. lia. }
      rewrite list_upd_same in Erow. rewrite Erow. cbn [PyCore.bind].
      change (fold_left _ (seq p (N - p)) (nth i A3 [])) with (row_elimQ N p alpha (nth i A3 []) rp) in *.
      split; [reflexivity|]. rewrite !upd_eq.
      split; cbn [fst snd]; [apply wf_upd; [split; assumption|exact Hrow]|now rewrite list_upd_length]. }
    specialize (HR HRp (conj (conj LA2 RA2) Hb2)).
    destruct (fold_left (ostep (rowf N p)) (seq (S p) (N - S p)) (Some (A2, b2))) as [[A4 b4]|]; cbn [toopt].
    - destruct HR as [E I]. rewrite E. cbn [PyCore.bind]. split; [reflexivity|exact I].
    - rewrite HR. reflexivity. }
  specialize (HO Hprem HO'). clear Hprem.
  cbv beta in HO.
  unfold lsolveQ, lsolve, eliminate. cbv zeta. fold N.
  change (fold_left (step Q 0%Q Qminus Qmult Qdiv Qabs Qgtb Qle_bool Qeq0 eps N) (seq 0 N) (Elim A b))
    with (fold_left (stepQ eps N) (seq 0 N) (Elim A b)).
  pose proof (eliminate_fold eps N (seq 0 N) (Elim A b)) as HE. cbn [toopt] in HE. rewrite <- HE in HO. clear HE.
  destruct (fold_left (stepQ eps N) (seq 0 N) (Elim A b)) as [| |U c]; cbn [toopt] in HO;
    [rewrite HO; reflexivity | rewrite HO; reflexivity |].
  destruct HO as [EO [[LU RU] Hc]]. cbn [fst snd] in *. rewrite EO. cbn [PyCore.bind]. clear EO.
  (* back substitution *)
  unfold backsub. cbv zeta. rewrite Hc.
  change (backsub_from Q 0%Q Qplus Qminus Qmult Qdiv Qeq0 N U c (repeat 0%Q N) N)
    with (fold_left (back_stepQ N U c) (rev (seq 0 N)) (Some (repeat 0%Q N))).
  rewrite backsub_fold.
  unfold for_range_down, py_repeat. rewrite zrange_down_nat, Nat2Z.id. cbn [n_lit Qops].
  match goal with
  | |- context [for_list ?bb (map Z.of_nat (rev (seq 0 N))) (repeat 0%Q N)] =>
      pose proof (loop_partial (R := list (list Q) * list Q * list Q) (fun x : list Q => length x = N) (fun x => x)
                               (backf N U c) bb (rev (seq 0 N)) (repeat 0%Q N)) as HB
  end.
  match type of HB with ?P -> _ => assert (HBp : P) end.
  { clear HB. intros i x Hi Hx. apply in_rev, in_seq in Hi. unfold backf.
    zsucc. unfold for_range2. rewrite zrange2_nat.
    match goal with
    | |- context [for_list ?sb (map Z.of_nat (seq (S i) (N - S i))) 0%Q] =>
        destruct (loop_total (R := list (list Q) * list Q * list Q) (fun _ : Q => True) (fun q => q)
                    (fun s j => Qplus s (Qmult (getQ (rowQ U i) j) (getQ x j)))
                    sb (seq (S i) (N - S i)) 0%Q) as [Esum _]
    end.
    { intros j s Hj _. apply in_seq in Hj.
      rewrite (idx U i []) by lia. cbn [PyCore.get]. rewrite (idx (nth i U []) j 0%Q) by (rewrite RU; lia). cbn [PyCore.get].
      rewrite (idx x j 0%Q) by lia. cbn [PyCore.get n_add n_mul Qops]. split; [reflexivity|exact I]. }
    { exact I. }
    rewrite Esum. cbn [PyCore.bind]. clear Esum.
    change (fold_left _ (seq (S i) (N - S i)) 0%Q) with (back_sumQ N i (rowQ U i) x).
    set (sm := back_sumQ N i (rowQ U i) x).
    rewrite (idx c i 0%Q) by lia. cbn [PyCore.get].
    rewrite (idx U i []) by lia. cbn [PyCore.get]. rewrite (idx (nth i U []) i 0%Q) by (rewrite RU; lia). cbn [PyCore.get].
    unfold py_div, Qeq0, LSolve.get, LSolve.row. cbn [n_eq n_lit n_div n_sub Qops].
    destruct (Qeq_bool (nth i (nth i U []) 0%Q) 0%Q); [reflexivity|]. cbn [PyCore.get].
    rewrite (py_set_nat x i) by lia. cbn [PyCore.get].
    split; [reflexivity|]. rewrite upd_eq. now rewrite list_upd_length. }
  specialize (HB HBp (repeat_length 0%Q N)). clear HBp.
  destruct (fold_left (ostep (backf N U c)) (rev (seq 0 N)) (Some (repeat 0%Q N))) as [x|].
  - destruct HB as [EB _]. rewrite EB. cbn [PyCore.bind finish]. exists U, c. reflexivity.
  - rewrite HB. reflexivity.
Qed.

(* the hypothesis is satisfiable, and the generated function computes on a concrete well-formed system *)
Example wfA_identity : wfA 2 [[1; 0]; [0; 1]]%Q.
Proof. split; [reflexivity|]. intros [|[|i]] H; try reflexivity. cbn in H. lia. Qed.

Example generated_lsolve_runs :
  match Core.lsolve Q Qops EPSILON_Q [[2; 0]; [0; 4]]%Q [2; 4]%Q with
  | Some (_, _, x) => map Qred x = [1; 1]%Q
  | None => False
  end.
Proof. vm_compute. reflexivity. Qed.

(* ---- C20 (linear solver) stated about the GENERATED lsolve over exact rationals: on a square system and with any
   threshold >= 0, whatever the definition produced from the source text returns solves A x = b (A, b = the
   arguments as passed); if some non-zero y has A y = 0 it raises; it never fails with a division by zero that
   the model would not report (every failure is the model's Singular). ---- *)
From PV Require Import Proofs.LSolveProofs Props.C20.

Lemma square_is_wfA : forall A b, square_system A b -> wfA (length b) A.
Proof.
  intros A b [HL HR]. split; [exact HL|]. intros i Hi.
  rewrite Forall_forall in HR. apply HR. apply nth_In. rewrite HL. exact Hi.
Qed.

Theorem tie_c20_generated_lsolve_sound : forall eps A b A' b' x, (0 <= eps)%Q -> square_system A b ->
  Core.lsolve Q Qops eps A b = Some (A', b', x) -> length x = length b /\ veq (mat_vec A x) b.
Proof.
  intros eps A b A' b' x He Hs H.
  pose proof (tie_lsolve eps A b (square_is_wfA A b Hs)) as T.
  destruct (lsolveQ eps A b) as [| |x0] eqn:E.
  - rewrite T in H. discriminate.
  - rewrite T in H. discriminate.
  - destruct T as [A0 [b0 T]]. rewrite T in H. injection H as _ _ Hx. subst x0.
    exact (c20_lsolve_sound eps A b x He Hs E).
Qed.

Theorem tie_c20_generated_lsolve_singular : forall eps A b y, (0 <= eps)%Q -> square_system A b ->
  length y = length b -> veq (mat_vec A y) (zeros (length b)) -> ~ veq y (zeros (length b)) ->
  Core.lsolve Q Qops eps A b = None.
Proof.
  intros eps A b y He Hs Hy H0 Hn.
  pose proof (tie_lsolve eps A b (square_is_wfA A b Hs)) as T.
  rewrite (c20_lsolve_singular eps A b y He Hs Hy H0 Hn) in T. exact T.
Qed.

Print Assumptions tie_c20_generated_lsolve_sound.
Print Assumptions tie_c20_generated_lsolve_singular.
