(* Tie/T04.v — nondominated_sort_cmp GENERATED from platypus/core.py (Gen/Core.v, regenerated from the source text
   on every run) is [nd_sort_cmp] of Model/Truncate.v: ranks are Python ints (the model's naturals, injected), crowding
   distances live in xq (incl. +inf) with "<" = xltb and unary minus = xneg. *)
From Coq Require Import ZArith QArith Arith Bool List Lia.
Import ListNotations.
From PV Require Import Base.Num Base.PyCore Gen.Core Model.NDSort Model.Truncate.
Open Scope Z_scope.

Lemma Z_eqb_of_nat (a b : nat) : (Z.of_nat a =? Z.of_nat b) = Nat.eqb a b.
Proof.
  destruct (Nat.eqb a b) eqn:E.
  - apply Nat.eqb_eq in E. subst. apply Z.eqb_refl.
  - apply Nat.eqb_neq in E. apply Z.eqb_neq. lia.
Qed.

Lemma Z_ltb_of_nat (a b : nat) : (Z.of_nat a <? Z.of_nat b) = Nat.ltb a b.
Proof.
  destruct (Nat.ltb a b) eqn:E.
  - apply Nat.ltb_lt in E. apply Z.ltb_lt. lia.
  - apply Nat.ltb_ge in E. apply Z.ltb_ge. lia.
Qed.

Theorem tie_nd_sort_cmp : forall (O : NumOps xq), n_lt O = xltb -> n_neg O = xneg ->
  forall x y : asol,
  Core.nondominated_sort_cmp xq O (Z.of_nat (a_rank x)) (a_crowd x) (Z.of_nat (a_rank y)) (a_crowd y)
  = nd_sort_cmp x y.
Proof.
  intros O Hlt Hneg x y.
  unfold Core.nondominated_sort_cmp, nd_sort_cmp. cbv zeta.
  rewrite Hlt, Hneg, ?Z.gtb_ltb, Z_eqb_of_nat, !Z_ltb_of_nat.
  destruct (Nat.eqb (a_rank x) (a_rank y));
    repeat match goal with
           | |- context [if xltb ?a ?b then _ else _] => destruct (xltb a b)
           | |- context [if Nat.ltb ?a ?b then _ else _] => destruct (Nat.ltb a b)
           end; reflexivity.
Qed.

Example nd_record_exists : exists O : NumOps xq, n_lt O = xltb /\ n_neg O = xneg.
Proof.
  exists {| n_lt := xltb; n_le := xleb; n_eq := xeqb; n_neg := xneg;
            n_add := fun a _ => a; n_sub := fun a _ => a; n_mul := fun a _ => a; n_div := fun a _ => a;
            n_abs := fun a => a; n_floor := fun _ => 0; n_of_Z := FZ; n_lit := Fin |}.
  split; reflexivity.
Qed.

(* ================================================================================================
   Phase 2: filters.matches / filters.truncate and core.nondominated_truncate / truncate_fitness /
   nondominated_split, generated from platypus/filters.py and platypus/core.py
   ================================================================================================ *)

(* ---- _matches (a generator: the list of the solutions it yields) and matches ---- *)
Lemma filter_fold {A} (p : A -> bool) (l acc : list A) :
  fold_left (fun out s => if p s then out ++ [s] else out) l acc = acc ++ filter p l.
Proof.
  revert acc. induction l as [|s l IH]; intro acc; cbn [fold_left filter]; [now rewrite app_nil_r|].
  rewrite IH. destruct (p s); [now rewrite <- app_assoc|reflexivity].
Qed.

Theorem tie_matches_gen : forall (A : Type) (key : A -> Z) (l : list A) (value : Z),
  Core.matches_gen A l value key = Some (filter (fun s => key s =? value) l).
Proof.
  intros A key l value. unfold Core.matches_gen. cbv zeta.
  rewrite (for_list_ext _ (fun s out => Next (if key s =? value then out ++ [s] else out))).
  2: { intros s out. destruct (key s =? value); reflexivity. }
  rewrite (for_list_total (fun out s => if key s =? value then out ++ [s] else out)).
  rewrite filter_fold. reflexivity.
Qed.

(* with the keys the code uses it on (rank_key: a natural number) this is Model/Truncate.matches *)
Theorem tie_matches : forall (A : Type) (rank : A -> nat) (l : list A) (value : nat),
  Core.matches A (Core.matches_gen A) l (Z.of_nat value) (fun s => Z.of_nat (rank s)) = Some (matches rank l value).
Proof.
  intros A rank l value. unfold Core.matches. rewrite tie_matches_gen. cbn [get finish]. unfold matches.
  f_equal. apply filter_ext. intro s. apply Z_eqb_of_nat.
Qed.

(* ---- truncate: sorted(solutions, key=key, reverse=reverse)[:size]; Python's sorted is the stable sort [sorted_by] ---- *)
Theorem tie_truncate : forall (A : Type) (lt : A -> A -> bool) (reverse : bool) (l : list A) (size : nat),
  Core.truncate A (A -> A -> bool) (fun l k r => sorted_by k r l) l (Z.of_nat size) lt reverse = truncate lt reverse l size.
Proof. intros. unfold Core.truncate, truncate. apply py_upto_z_nat. Qed.

Theorem tie_truncate_default_reverse : Core.truncate_default_reverse = false.
Proof. reflexivity. Qed.

(* the callee [truncate] as the callers below see it: key by "less than", size an int *)
Definition truncate_callee {A} (l : list A) (size : Z) (lt : A -> A -> bool) (reverse : bool) : list A :=
  truncate lt reverse l (Z.to_nat size).

(* ---- nondominated_truncate: truncate(solutions, size, key=functools.cmp_to_key(nondominated_sort_cmp)) ---- *)
Theorem tie_nondominated_truncate : forall (l : list asol) (size : nat),
  Core.nondominated_truncate asol (asol -> asol -> bool) (asol -> asol -> Z)
                             truncate_callee cmp_key_lt nd_sort_cmp l (Z.of_nat size)
  = nondominated_truncate l size.
Proof.
  intros. unfold Core.nondominated_truncate, truncate_callee, nondominated_truncate, nd_lt. now rewrite Nat2Z.id.
Qed.

(* ---- truncate_fitness: truncate(solutions, size, key=getter, reverse=larger_preferred) ---- *)
Theorem tie_truncate_fitness : forall (A : Type) (fitness : A -> xq) (l : list A) (size : nat) (larger_preferred : bool),
  Core.truncate_fitness A (A -> xq)
                        (fun l sz k r => truncate_callee l sz (fun a b => xltb (k a) (k b)) r) l (Z.of_nat size) larger_preferred fitness
  = truncate_fitness fitness l size larger_preferred.
Proof.
  intros. unfold Core.truncate_fitness, truncate_callee, truncate_fitness. now rewrite Nat2Z.id.
Qed.

Theorem tie_truncate_fitness_default : Core.truncate_fitness_default_larger_preferred = true.
Proof. reflexivity. Qed.

(* ---- nondominated_split: while loop with break and an early return, on explicit fuel ---- *)
Section Split.
  Variable A : Type.
  Variable rank : A -> nat.
  Variable l : list A.
  Variable size : nat.

  Definition split_state := (list A * Z * bool)%type.

  Lemma split_while : forall (cond : split_state -> bool) (body : split_state -> ctl split_state (list A * list A)),
    (forall res rk b, cond (res, rk, b) = negb b && (py_len res <? Z.of_nat size)) ->
    (forall res rk, body (res, Z.of_nat rk, false) =
        let front := matches rank l rk in
        if py_len front =? 0 then Next (res, Z.of_nat rk, true)
        else if py_len res + py_len front <=? Z.of_nat size then Next (res ++ front, Z.of_nat rk + 1, false)
        else Ret (res, front)) ->
    forall (k : split_state -> ctl unit (list A * list A)), (forall res z b, k (res, z, b) = Ret (res, [])) ->
    forall fuel res rk,
    bind (while_fuel fuel cond body (res, Z.of_nat rk, false)) k
    = match split_loop rank fuel l size res rk with
      | Some p => @Ret unit _ p
      | None => Raise
      end.
  Proof.
    intros cond body Hc Hb k Hk.
    assert (Hstop : forall fuel res z, while_fuel fuel cond body (res, z, true) = Next (res, z, true)).
    { intros [|f] res z; cbn [while_fuel]; rewrite Hc; reflexivity. }
    induction fuel as [|f IH]; intros res rk; cbn [while_fuel split_loop]; rewrite Hc; cbn [negb andb]; unfold py_len;
      rewrite Z_ltb_of_nat; destruct (Nat.ltb (length res) size); cbn [bind]; rewrite ?Hk; try reflexivity.
    rewrite Hb. cbv zeta. unfold py_len.
    change 0 with (Z.of_nat 0). rewrite Z_eqb_of_nat.
    destruct (Nat.eqb (length (matches rank l rk)) 0).
    - rewrite Hstop. cbn [bind]. now rewrite Hk.
    - rewrite <- Nat2Z.inj_add.
      assert (E : (Z.of_nat (length res + length (matches rank l rk)) <=? Z.of_nat size)
                  = Nat.leb (length res + length (matches rank l rk)) size).
      { destruct (Nat.leb (length res + length (matches rank l rk)) size) eqn:E.
        - apply Nat.leb_le in E. apply Z.leb_le. lia.
        - apply Nat.leb_gt in E. apply Z.leb_gt. lia. }
      rewrite E. destruct (Nat.leb (length res + length (matches rank l rk)) size); [|reflexivity].
      replace (Z.of_nat rk + 1) with (Z.of_nat (S rk)) by lia. apply IH.
  Qed.

  Theorem tie_nondominated_split : forall (fuel : nat) (K : Type) (rank_key : K),
    Core.nondominated_split A K fuel (fun sols v _ => matches rank sols (Z.to_nat v)) rank_key l (Z.of_nat size)
    = split_loop rank fuel l size [] 0%nat.
  Proof.
    intros fuel K rank_key. unfold Core.nondominated_split. cbv zeta.
    match goal with
    | |- context [while_fuel fuel ?c ?b _] =>
        assert (Hc : forall res rk b', c (res, rk, b') = negb b' && (py_len res <? Z.of_nat size)) by (intros; reflexivity);
        assert (Hb : forall res rk, b (res, Z.of_nat rk, false) =
                  let front := matches rank l rk in
                  if py_len front =? 0 then Next (res, Z.of_nat rk, true)
                  else if py_len res + py_len front <=? Z.of_nat size then Next (res ++ front, Z.of_nat rk + 1, false)
                  else Ret (res, front));
        [|match goal with |- context [bind _ ?k] =>
              pose proof (split_while c b Hc Hb k (fun res z b' => eq_refl) fuel [] 0%nat) as H end]
    end.
    - intros res rk. rewrite Nat2Z.id. cbv zeta.
      destruct (py_len (matches rank l rk) =? 0); [reflexivity|].
      destruct (py_len res + py_len (matches rank l rk) <=? Z.of_nat size); reflexivity.
    - change (Z.of_nat 0) with 0 in H.
      etransitivity; [apply (f_equal finish); exact H|].
      destruct (split_loop rank fuel l size [] 0%nat); reflexivity.
  Qed.

  (* with the fuel the model uses (one iteration per accepted front, at most [size]) this is nondominated_split's split_by *)
  Corollary tie_split_by : forall (K : Type) (rank_key : K),
    Core.nondominated_split A K size (fun sols v _ => matches rank sols (Z.to_nat v)) rank_key l (Z.of_nat size)
    = split_by rank l size.
  Proof. intros. apply tie_nondominated_split. Qed.
End Split.

(* ---- C04 (truncation clause) stated about the GENERATED nondominated_truncate (its callees: Python's stable
   sorted [sorted_by] and the comparator, tied above as tie_nd_sort_cmp): the definition produced from the source
   text keeps min(size, n) distinct members of the population, and whatever it keeps has rank <= whatever it drops,
   with crowding >= at equal rank. ---- *)
From PV Require Import Proofs.TruncateProofs Props.C04.

Notation gen_nd_truncate l size :=
  (Core.nondominated_truncate asol (asol -> asol -> bool) (asol -> asol -> Z) truncate_callee cmp_key_lt nd_sort_cmp l (Z.of_nat size)).

Theorem tie_c04_generated_truncate_length : forall l k, length (gen_nd_truncate l k) = Nat.min k (length l).
Proof. intros l k. rewrite tie_nondominated_truncate. apply c04_nd_truncate_length. Qed.

Theorem tie_c04_generated_truncate_sub : forall l k, NoDup (map asid l) ->
  NoDup (map asid (gen_nd_truncate l k)) /\ exists dropped, Permutation.Permutation (gen_nd_truncate l k ++ dropped) l.
Proof. intros l k H. rewrite tie_nondominated_truncate. exact (c04_truncate_sub l k H). Qed.

Theorem tie_c04_generated_truncate_rank_mono : forall l k x y, NoDup (map asid l) ->
  In x (gen_nd_truncate l k) -> In y l -> ~ In (asid y) (map asid (gen_nd_truncate l k)) ->
  (a_rank x <= a_rank y)%nat /\ (a_rank x = a_rank y -> xltb (a_crowd x) (a_crowd y) = false).
Proof. intros l k x y H. rewrite tie_nondominated_truncate. exact (c04_truncate_rank_mono l k x y H). Qed.

Print Assumptions tie_c04_generated_truncate_length.
Print Assumptions tie_c04_generated_truncate_sub.
Print Assumptions tie_c04_generated_truncate_rank_mono.
