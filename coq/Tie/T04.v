(* Tie/T04.v — nondominated_sort_cmp GENERATED from platypus/core.py (Gen/Core.v, regenerated from the source text
   on every run) is [nd_sort_cmp] of Model/Truncate.v: ranks are Python ints (the model's naturals, injected), crowding
   distances live in xq (incl. +inf) with "<" = xltb and unary minus = xneg. *)
From Coq Require Import ZArith QArith Arith Bool List Lia.
From PV Require Import Base.Num Base.PyCore Gen.Core Model.NDSort Model.Truncate.
Open Scope Z_scope.

Lemma Z_eqb_of_nat (a b : nat) : (Z.of_nat a =? Z.of_nat b) = Nat.eqb a b.
Proof.
  destruct (Nat.eqb a b) eqn:E.
  - apply Nat.eqb_eq in E. subst. apply Z.eqb_refl.
  - apply Nat.eqb_neq in E. apply Z.eqb_neq. lia.
Qed.

Lemma Z_ltb_of_nat (a b : nat) : (Z.of_nat a <? Z.of_nat b) = Nat.ltb a b.
Proof.
  destruct (Nat.ltb a b) eqn:E.
  - apply Nat.ltb_lt in E. apply Z.ltb_lt. lia.
  - apply Nat.ltb_ge in E. apply Z.ltb_ge. lia.
Qed.

Theorem tie_nd_sort_cmp : forall (O : NumOps xq), n_lt O = xltb -> n_neg O = xneg ->
  forall x y : asol,
  Core.nondominated_sort_cmp xq O (Z.of_nat (a_rank x)) (a_crowd x) (Z.of_nat (a_rank y)) (a_crowd y)
  = nd_sort_cmp x y.
Proof.
  intros O Hlt Hneg x y.
  unfold Core.nondominated_sort_cmp, nd_sort_cmp. cbv zeta.
  rewrite Hlt, Hneg, ?Z.gtb_ltb, Z_eqb_of_nat, !Z_ltb_of_nat.
  destruct (Nat.eqb (a_rank x) (a_rank y));
    repeat match goal with
           | |- context [if xltb ?a ?b then _ else _] => destruct (xltb a b)
           | |- context [if Nat.ltb ?a ?b then _ else _] => destruct (Nat.ltb a b)
           end; reflexivity.
Qed.

Example nd_record_exists : exists O : NumOps xq, n_lt O = xltb /\ n_neg O = xneg.
Proof.
  exists {| n_lt := xltb; n_le := xleb; n_eq := xeqb; n_neg := xneg;
            n_add := fun a _ => a; n_sub := fun a _ => a; n_mul := fun a _ => a; n_div := fun a _ => a;
            n_abs := fun a => a; n_floor := fun _ => 0; n_of_Z := FZ; n_lit := Fin |}.
  split; reflexivity.
Qed.
