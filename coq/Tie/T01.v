(* Tie/T01.v — Problem.__call__ GENERATED from platypus/core.py (Gen/Core.v, regenerated from the source text on
   every run) is [problem_call] of Model/Evaluate.v, for every value type, every variable-type class (decode /
   encode are parameters), every user function (self.evaluate(solution), read as a function from the decoded
   variables to the objectives and constraint values it stores), every list of constraint functions and every
   number carrier with its operations record: abs, +, the literal 0 that sum() starts from and "== 0.0" are the
   record's.  The generated code indexes problem.types and solution.variables by range(problem.nvars)
   (IndexError = None); the model zips them: the two agree when nvars is the number of types and the solution has
   that many variables.  The result is the final value of the six attributes of the solution the method stores. *)
From Coq Require Import ZArith QArith Bool List Lia.
Import ListNotations.
From PV Require Import Base.PyCore Gen.Core Model.Evaluate.
Open Scope Z_scope.

Lemma ev_map2_length {A B R} (f : A -> B -> R) (a : list A) (b : list B) :
  length b = length a -> length (ev_map2 f a b) = length a.
Proof.
  revert b. induction a as [|x a IH]; intros [|y b] H; cbn [ev_map2 length] in *; try discriminate; [reflexivity|].
  f_equal. apply IH. lia.
Qed.

(* [f(l1[i], l2[i]) for i in range(len l1)] is the zip when the lengths agree *)
Lemma index_map2 {A B C} (f : A -> B -> C) : forall (l1 : list A) (l2 : list B) (g : Z -> option C),
  length l2 = length l1 ->
  (forall i, g (Z.of_nat i) = obind (nth_error l1 i) (fun a => obind (nth_error l2 i) (fun b => Some (f a b)))) ->
  map_opt g (zrange (Z.of_nat (length l1))) = Some (ev_map2 f l1 l2).
Proof.
  induction l1 as [|a l1 IH]; intros [|b l2] g L Hg; cbn [length] in *; try discriminate; [reflexivity|].
  rewrite zrange_succ. cbn [map_opt ev_map2].
  pose proof (Hg 0%nat) as H0. change (Z.of_nat 0) with 0 in H0. rewrite H0. cbn [nth_error obind].
  rewrite map_opt_map. rewrite (IH l2 (fun i => g (Z.succ i))); [reflexivity|lia|].
  intro i. rewrite <- Nat2Z.inj_succ. rewrite Hg. reflexivity.
Qed.

Lemma zip_map2 {A B C} (h : A -> B -> C) (a : list A) (b : list B) :
  map (fun '(f, x) => h f x) (py_zip a b) = ev_map2 h a b.
Proof.
  unfold py_zip. revert b. induction a as [|x a IH]; intros [|y b]; cbn [combine map ev_map2]; try reflexivity.
  now rewrite IH.
Qed.

Section T01.
  Variable V : Type.
  Variable O : NumOps V.
  Variable Val Ty : Type.
  Variable decode encode : Ty -> Val -> Val.
  Variable F : list Val -> list V * list V.
  Variable C : list (V -> V).
  Variable types : list Ty.

  Local Notation model_call :=
    (problem_call Val V Ty decode encode F C (n_abs O) (n_add O) (n_lit O 0%Q) (fun v => n_eq O v (n_lit O 0%Q)) types).

  Theorem tie_problem_call : forall s : sol Val V,
    length (vars s) = length types ->
    Core.Problem_call V O Val Ty F decode encode types (Z.of_nat (length types)) C
                      (vars s) (objs s) (cons s) (cv s) (feasible s) (evaluated s)
    = Some (vars (model_call s), objs (model_call s), cons (model_call s),
            cv (model_call s), feasible (model_call s), evaluated (model_call s)).
  Proof.
    intros s L. unfold Core.Problem_call, problem_call. cbn [vars objs cons cv feasible evaluated].
    rewrite (index_map2 decode types (vars s)); [|exact L|intro i; now rewrite !py_index_nat].
    cbn [get]. fold (decode_vars Val Ty decode types (vars s)).
    destruct (F (decode_vars Val Ty decode types (vars s))) as [objs' cons'] eqn:EF.
    rewrite (index_map2 encode types (decode_vars Val Ty decode types (vars s)));
      [|unfold decode_vars; now apply ev_map2_length|intro i; now rewrite !py_index_nat].
    cbn [get finish fst snd]. unfold viol, py_sum, encode_vars. rewrite zip_map2. reflexivity.
  Qed.
End T01.

(* ---- C01 (clause 1) stated about the GENERATED Problem.__call__: whatever six attribute values the definition
   produced from the source text stores, the solution carrying them is Good (flag set; objectives and constraint
   values are the user's function of the solution's OWN decoded variables; violation and feasibility derived from
   them) and has the same decoded variables as before.  [roundtrip] is the types' decode/encode law
   (identity for Real/Binary/Permutation/Subset, C17 for Integer). ---- *)
From PV Require Import Model.AlgSkeleton Proofs.EvaluateProofs Props.C01.

Section C01_generated.
  Variable V : Type.
  Variable O : NumOps V.
  Variable Val Ty : Type.
  Variable decode encode : Ty -> Val -> Val.
  Variable F : list Val -> list V * list V.
  Variable C : list (V -> V).
  Variable types : list Ty.
  Hypothesis roundtrip : forall t v, In t types -> decode t (encode t (decode t v)) = decode t v.
  Local Notation nzero := (n_lit O 0%Q).
  Local Notation niszero := (fun v => n_eq O v (n_lit O 0%Q)).

  Theorem tie_c01_generated_problem_call_good : forall (s : sol Val V) v' o' c' cv' f' e',
    length (vars s) = length types ->
    Core.Problem_call V O Val Ty F decode encode types (Z.of_nat (length types)) C
                      (vars s) (objs s) (cons s) (cv s) (feasible s) (evaluated s) = Some (v', o', c', cv', f', e') ->
    Good Val V Ty decode F C (n_abs O) (n_add O) nzero niszero types (mkSol (sid s) v' o' c' cv' f' e') /\
    decode_vars Val Ty decode types v' = decode_vars Val Ty decode types (vars s).
  Proof.
    intros s v' o' c' cv' f' e' L H.
    rewrite (tie_problem_call V O Val Ty decode encode F C types s L) in H.
    pose proof (c01_problem_call_good Val V Ty decode encode F C (n_abs O) (n_add O) nzero niszero types roundtrip s) as G.
    pose proof (c01_problem_call_keeps_variables Val V Ty decode encode F C (n_abs O) (n_add O) nzero niszero types roundtrip s) as [Hs Hd].
    remember (problem_call Val V Ty decode encode F C (n_abs O) (n_add O) nzero niszero types s) as m eqn:Em.
    clear Em. destruct m as [i1 v1 o1 c1 cv1 f1 e1]. cbn [sid vars objs cons cv feasible evaluated] in *.
    injection H as Hv Ho Hc Hcv Hf He. subst v' o' c' cv' f' e' i1.
    split; [exact G|exact Hd].
  Qed.
End C01_generated.

Print Assumptions tie_c01_generated_problem_call_good.
