#!/bin/bash
# Regenerates _CoqProject (all .v files under the source directories) and the Makefile.
set -e
cd "$(dirname "$0")"
{
  echo "-Q . PV"
  echo "-arg -w -arg -notation-overridden,-deprecated-hint-without-locality,-deprecated-syntactic-definition,-ambiguous-paths"
  find Base Model Proofs Props Harness Gen Tie -name '*.v' 2>/dev/null | LC_ALL=C sort
} > _CoqProject.new
if ! cmp -s _CoqProject.new _CoqProject 2>/dev/null; then
  mv _CoqProject.new _CoqProject
  coq_makefile -f _CoqProject -o Makefile >/dev/null
else
  rm -f _CoqProject.new
  [ -f Makefile ] || coq_makefile -f _CoqProject -o Makefile >/dev/null
fi
