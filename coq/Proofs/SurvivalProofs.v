(* Proofs about Model/Survival.v (property C09).
   Part A  a counting lemma: a duplicate-free selection of min(n, |U|) members that never keeps a member
           while dropping one of smaller rank keeps ALL rank-0 members if they fit and ONLY rank-0 members otherwise
   Part B  rank 0 after nondominated_sort = C03's non-dominated filter F0
   Part C  NSGA-II / eps-NSGA-II
   Part D  GDE3
   Part E  NSGA-III (for every choice of the niche filling)
   Part F  SPEA2
   Part G  archives only improve (Pareto archive: C03's contract; epsilon archives: C05)
   Part H  GA / ES: the best held never gets worse
   Part I  non-vacuity examples *)
From Coq Require Import ZArith QArith Bool List Lia Permutation Sorted.
Import ListNotations.
From PV Require Import Base.Num Base.Order Base.StableSort Model.Dominance Proofs.DominanceProofs
     Model.Archive Proofs.ArchiveProofs Model.NDSort Proofs.NDSortProofs Model.Truncate Proofs.TruncateProofs
     Model.Epsilon Proofs.EpsilonProofs Model.Survival.
Open Scope nat_scope.

(* ------------------------------------------------------------------------- *)
(* Part A : the counting lemma                                                *)
(* ------------------------------------------------------------------------- *)
Section EliteSelect.
  Variable T : Type.
  Variable ident : T -> nat.
  Variable rk : T -> nat.
  Variables (U S : list T) (n : nat).
  Hypothesis HU : NoDup (map ident U).
  Hypothesis HS : NoDup S.
  Hypothesis Hincl : incl S U.
  Hypothesis Hlen : length S = min n (length U).
  Hypothesis Hmono : forall x y, In x S -> In y U -> ~ In y S -> rk x <= rk y.

  Definition rank0 : list T := filter (fun x => Nat.eqb (rk x) 0) U.

  Lemma ident_inj x y : In x U -> In y U -> ident x = ident y -> x = y.
  Proof.
    clear - HU. induction U as [|a l IH]; intros Hx Hy E; [contradiction|].
    simpl in HU. inversion HU as [|s m Hnotin Hnd]; subst.
    destruct Hx as [<-|Hx], Hy as [<-|Hy]; try reflexivity.
    - exfalso. apply Hnotin. rewrite E. now apply in_map.
    - exfalso. apply Hnotin. rewrite <- E. now apply in_map.
    - now apply IH.
  Qed.

  Lemma In_S_dec z : In z U -> In z S \/ ~ In z S.
  Proof.
    intro Hz. destruct (in_dec Nat.eq_dec (ident z) (map ident S)) as [H|H].
    - left. apply in_map_iff in H. destruct H as [s [E Hs]].
      assert (s = z) by (apply ident_inj; auto). now subst.
    - right. intro C. apply H. now apply in_map.
  Qed.

  Lemma rank0_In z : In z rank0 <-> In z U /\ rk z = 0.
  Proof. unfold rank0. rewrite filter_In, Nat.eqb_eq. tauto. Qed.

  Lemma NoDup_U : NoDup U.
  Proof. exact (NoDup_map_inv ident U HU). Qed.

  (* the rank-0 members fit: all of them are kept *)
  Lemma elite_all_kept : length rank0 <= n -> incl rank0 S.
  Proof.
    intros Hfit z Hz. pose proof Hz as Hz'. apply rank0_In in Hz'. destruct Hz' as [HzU Hz0].
    destruct (In_S_dec z HzU) as [H|H]; [exact H|exfalso].
    destruct (Nat.le_gt_cases (length U) n) as [Hsmall|Hbig].
    - (* everything fits *)
      apply H. apply (@NoDup_length_incl _ S U HS); [lia|exact Hincl|exact HzU].
    - assert (HlenS : length S = n) by lia.
      assert (HSZ : incl S rank0).
      { intros x Hx. apply rank0_In. split; [now apply Hincl|].
        pose proof (Hmono x z Hx HzU H). lia. }
      apply H. apply (@NoDup_length_incl _ S rank0 HS); [lia|exact HSZ|exact Hz].
  Qed.

  (* they do not fit: only rank-0 members are kept *)
  Lemma elite_only : n < length rank0 -> incl S rank0.
  Proof.
    intros Hbig x Hx. apply rank0_In. split; [now apply Hincl|].
    destruct (Nat.eq_dec (rk x) 0) as [E|NE]; [exact E|exfalso].
    assert (HZS : incl rank0 S).
    { intros z Hz. pose proof Hz as Hz'. apply rank0_In in Hz'. destruct Hz' as [HzU Hz0].
      destruct (In_S_dec z HzU) as [H|H]; [exact H|exfalso].
      pose proof (Hmono x z Hx HzU H). lia. }
    assert (HndZ : NoDup rank0) by (apply NoDup_filter, NoDup_U).
    pose proof (NoDup_incl_length HndZ HZS) as L1.
    pose proof (Nat.le_min_l n (length U)). lia.
  Qed.
End EliteSelect.

(* ------------------------------------------------------------------------- *)
(* Part B : rank 0 = non-dominated                                            *)
(* ------------------------------------------------------------------------- *)
(* the non-dominated front of l (C03's filter): the members no member dominates, in l's order *)
Definition F0 {T} (cmp : T -> T -> Z) (l : list T) : list T := filter (nd T cmp l) l.

Lemma F0_In {T} (cmp : T -> T -> Z) l x :
  In x (F0 cmp l) <-> In x l /\ forall y, In y l -> dom T cmp y x = false.
Proof. unfold F0. rewrite filter_In, nd_true_iff. tauto. Qed.

Lemma F0_incl {T} (cmp : T -> T -> Z) l : incl (F0 cmp l) l.
Proof. intros x H. apply F0_In in H. tauto. Qed.

(* the rank attribute of the object x after nondominated_sort (0 if x was not sorted) *)
Definition rank_in (ann : list asol) (x : xsol) : nat :=
  match find (fun a => Nat.eqb (asid a) (sid x)) ann with
  | Some a => a_rank a
  | None => 0
  end.

Lemma rank_in_member ann a : NoDup (map asid ann) -> In a ann -> rank_in ann (a_sol a) = a_rank a.
Proof.
  unfold rank_in. induction ann as [|b r IH]; intros Hnd Ha; [contradiction|].
  simpl in Hnd. inversion Hnd as [|s m Hnotin Hnd']; subst. simpl.
  destruct Ha as [->|Ha].
  - unfold asid at 1. now rewrite Nat.eqb_refl.
  - destruct (Nat.eqb (asid b) (sid (a_sol a))) eqn:E.
    + apply Nat.eqb_eq in E. exfalso. apply Hnotin. rewrite E. now apply (in_map asid).
    + now apply IH.
Qed.

Section SortedFront.
  Variable c : bool.
  Variable dirs : list bool.
  Variable U : list xsol.
  Variable ann : list asol.
  Notation wfs := (sol_wf xq xltb xzero dirs).
  Notation xcmp := (x_sol_cmp c dirs).
  Hypothesis Hwf : Forall wfs U.
  Hypothesis Hnd : NoDup (map sid U).
  Hypothesis Hsort : x_nd_sort c dirs U = Some ann.

  Lemma U_inj : sid_inj U.
  Proof. now apply NoDup_sid_inj. Qed.

  Lemma ann_NoDup : NoDup (map asid ann).
  Proof. rewrite (sorted_asid c dirs U ann Hsort). exact Hnd. Qed.

  Lemma F0_is_rank0 : F0 xcmp U = rank0 xsol (rank_in ann) U.
  Proof.
    unfold F0, rank0. apply filter_ext_in. intros x Hx.
    destruct (ann_of c dirs U ann Hsort x Hx) as [a [Ha Ea]].
    pose proof (x_rank_zero_iff c dirs U ann Hwf U_inj Hsort a Ha) as Z.
    rewrite <- Ea, (rank_in_member ann a ann_NoDup Ha).
    destruct (Nat.eqb (a_rank a) 0) eqn:E.
    - apply Nat.eqb_eq in E. apply nd_true_iff. intros y Hy.
      destruct (ann_of c dirs U ann Hsort y Hy) as [b [Hb Eb]]. rewrite <- Eb. now apply Z.
    - apply Nat.eqb_neq in E. destruct (nd xsol xcmp U (a_sol a)) eqn:N; [|reflexivity].
      exfalso. apply E. apply Z. intros b Hb. rewrite nd_true_iff in N. apply N.
      now apply (ann_In c dirs U ann Hsort).
  Qed.
End SortedFront.

(* ------------------------------------------------------------------------- *)
(* Part C : NSGA-II and eps-NSGA-II                                           *)
(* ------------------------------------------------------------------------- *)
Lemma NoDup_map_sol l : NoDup (map asid l) -> NoDup (map a_sol l).
Proof.
  intro H. apply (NoDup_map_inv sid). rewrite map_map. exact H.
Qed.

Section NSGA2.
  Variable c : bool.
  Variable dirs : list bool.
  Variables offspring population : list xsol.
  Variable n : nat.
  Variable surv : list xsol.
  Notation U := (offspring ++ population).
  Notation wfs := (sol_wf xq xltb xzero dirs).
  Notation xcmp := (x_sol_cmp c dirs).
  Hypothesis Hwf : Forall wfs U.
  Hypothesis Hnd : NoDup (map sid U).
  Hypothesis Hrun : nsga2_survive c dirs offspring population n = Some surv.

  Lemma nsga2_shape : exists ann, x_nd_sort c dirs U = Some ann /\ surv = map a_sol (nondominated_truncate ann n).
  Proof.
    unfold nsga2_survive in Hrun. destruct (x_nd_sort c dirs U) as [ann|]; [|discriminate].
    injection Hrun as <-. eauto.
  Qed.

  Lemma nsga2_facts :
    NoDup surv /\ incl surv U /\ length surv = min n (length U) /\
    exists ann, x_nd_sort c dirs U = Some ann /\
      forall x y, In x surv -> In y U -> ~ In y surv -> rank_in ann x <= rank_in ann y.
  Proof.
    destruct nsga2_shape as [ann [Hs ->]].
    pose proof (ann_NoDup c dirs U ann Hnd Hs) as HndA.
    pose proof (nd_truncate_sub ann n HndA) as [HndT _].
    assert (Hsub : forall a, In a (nondominated_truncate ann n) -> In a ann).
    { intros a Ha. eapply truncate_incl; exact Ha. }
    split; [now apply NoDup_map_sol|].
    split.
    { intros x Hx. apply in_map_iff in Hx. destruct Hx as [a [<- Ha]].
      apply (ann_In c dirs U ann Hs). now apply Hsub. }
    split.
    { rewrite map_length, nd_truncate_length, (sorted_length c dirs U ann Hs). reflexivity. }
    exists ann. split; [exact Hs|].
    intros x y Hx Hy Hny. apply in_map_iff in Hx. destruct Hx as [a [<- Ha]].
    destruct (ann_of c dirs U ann Hs y Hy) as [b [Hb <-]].
    rewrite (rank_in_member ann a HndA (Hsub a Ha)), (rank_in_member ann b HndA Hb).
    apply (nd_truncate_rank_mono ann n a b HndA Ha Hb).
    intro C. apply Hny. apply in_map_iff in C. destruct C as [o [Eo Ho]].
    apply in_map_iff. exists o. split; [|exact Ho].
    apply (U_inj U Hnd); [apply (ann_In c dirs U ann Hs); now apply Hsub|now apply (ann_In c dirs U ann Hs)|exact Eo].
  Qed.

  (* survivors are min(n, |U|) distinct members of U; the non-dominated front of U is kept entirely when it
     fits, and otherwise only members of that front survive *)
  Theorem nsga2_elitist :
    length surv = min n (length U) /\ NoDup surv /\ incl surv U /\
    (length (F0 xcmp U) <= n -> incl (F0 xcmp U) surv) /\
    (n < length (F0 xcmp U) -> incl surv (F0 xcmp U)).
  Proof.
    destruct nsga2_facts as [H1 [H2 [H3 [ann [Hs Hm]]]]].
    rewrite (F0_is_rank0 c dirs U ann Hwf Hnd Hs).
    repeat split; auto.
    - apply (elite_all_kept xsol sid (rank_in ann) U surv n); auto.
    - apply (elite_only xsol sid (rank_in ann) U surv n); auto.
  Qed.
End NSGA2.

(* nondominated_sort does not raise on finite objectives, so the step always yields a population *)
Theorem nsga2_total c dirs (offspring population : list xsol) n :
  Forall (sol_wf xq xltb xzero dirs) (offspring ++ population) -> NoDup (map sid (offspring ++ population)) ->
  (forall x, In x (offspring ++ population) -> finite_objs x) ->
  exists surv, nsga2_survive c dirs offspring population n = Some surv.
Proof.
  intros Hwf Hnd Hfin. unfold nsga2_survive.
  destruct (x_nd_sort_total c dirs _ Hwf (NoDup_sid_inj _ Hnd) Hfin) as [ann E]. eexists. rewrite E. reflexivity.
Qed.

(* ------------------------------------------------------------------------- *)
(* Part D : GDE3                                                              *)
(* ------------------------------------------------------------------------- *)
Section GDE3Select.
  Variable T : Type.
  Variable cmp : T -> T -> Z.
  Variable P : T -> Prop.
  Variable ident : T -> nat.
  Notation dom := (dom T cmp).
  Hypothesis cmp_range : forall x y, (cmp x y = -1 \/ cmp x y = 0 \/ cmp x y = 1)%Z.
  Hypothesis cmp_antisym : forall x y, P x -> P y -> (cmp y x = - cmp x y)%Z.

  (* the pairwise stage keeps a subset of offspring ++ population ... *)
  Lemma gde3_select_incl : forall n off pop next, gde3_select cmp n off pop = Some next ->
    incl next (firstn n off ++ firstn n pop).
  Proof.
    induction n as [|n IH]; intros off pop next H; simpl in H.
    - injection H as <-. intros x [].
    - destruct off as [|o os]; [discriminate|]. destruct pop as [|p ps]; [discriminate|].
      destruct (gde3_select cmp n os ps) as [rest|] eqn:E; [|discriminate]. injection H as <-.
      specialize (IH os ps rest E). simpl.
      intros x Hx. apply in_app_or in Hx. destruct Hx as [Hx|Hx].
      { destruct (cmp o p <=? 0)%Z; [|contradiction]. destruct Hx as [<-|[]]. now left. }
      apply in_app_or in Hx. destruct Hx as [Hx|Hx].
      { destruct (cmp o p >=? 0)%Z; [|contradiction]. destruct Hx as [<-|[]].
        right. apply in_or_app. right. now left. }
      apply IH in Hx. apply in_app_or in Hx. right. apply in_or_app.
      destruct Hx as [Hx|Hx]; [now left|right; now right].
  Qed.

  (* ... and discards a solution only when its partner, which is kept, dominates it *)
  Lemma gde3_select_keeps : forall n off pop next, gde3_select cmp n off pop = Some next ->
    Forall P (firstn n off) -> Forall P (firstn n pop) ->
    forall y, In y (firstn n off ++ firstn n pop) ->
    In y next \/ exists z, In z next /\ dom z y = true.
  Proof.
    induction n as [|n IH]; intros off pop next H Po Pp y Hy; simpl in H.
    - simpl in Hy. contradiction.
    - destruct off as [|o os]; [discriminate|]. destruct pop as [|p ps]; [discriminate|].
      destruct (gde3_select cmp n os ps) as [rest|] eqn:E; [|discriminate]. injection H as <-.
      simpl in Po, Pp. inversion Po as [|? ? Pon Pos]; subst. inversion Pp as [|? ? Ppn Pps]; subst.
      specialize (IH os ps rest E Pos Pps).
      assert (Hrest : forall y, In y (firstn n os ++ firstn n ps) ->
                 In y ((if (cmp o p <=? 0)%Z then [o] else []) ++ (if (cmp o p >=? 0)%Z then [p] else []) ++ rest) \/
                 exists z, In z ((if (cmp o p <=? 0)%Z then [o] else []) ++ (if (cmp o p >=? 0)%Z then [p] else []) ++ rest)
                           /\ dom z y = true).
      { intros y' Hy'. destruct (IH y' Hy') as [H|[z [Hz D]]].
        - left. apply in_or_app. right. apply in_or_app. now right.
        - right. exists z. split; [|exact D]. apply in_or_app. right. apply in_or_app. now right. }
      simpl in Hy. destruct Hy as [<-|Hy].
      + (* y = o *)
        destruct (cmp o p <=? 0)%Z eqn:E1.
        * left. now left.
        * right. exists p. apply Z.leb_gt in E1.
          assert (E2 : (cmp o p >=? 0)%Z = true) by (apply Z.geb_le; lia). rewrite E2.
          split; [simpl; now left|].
          unfold Archive.dom. rewrite (cmp_antisym o p Pon Ppn). destruct (cmp_range o p) as [C|[C|C]]; rewrite C in *; try lia; try reflexivity.
      + apply in_app_or in Hy. destruct Hy as [Hy|Hy].
        * apply Hrest. apply in_or_app. now left.
        * simpl in Hy. destruct Hy as [<-|Hy].
          -- (* y = p *)
             destruct (cmp o p >=? 0)%Z eqn:E2.
             ++ left. apply in_or_app. right. now left.
             ++ right. exists o.
                assert (E1 : (cmp o p <=? 0)%Z = true).
                { apply Z.leb_le. destruct (cmp o p >=? 0)%Z eqn:G; [discriminate|].
                  rewrite Z.geb_leb in G. apply Z.leb_gt in G. lia. }
                rewrite E1. split; [now left|].
                unfold Archive.dom. rewrite Z.geb_leb in E2. apply Z.leb_gt in E2.
                destruct (cmp_range o p) as [C|[C|C]]; rewrite C in *; try lia; try reflexivity.
          -- apply Hrest. apply in_or_app. now right.
  Qed.

  Lemma gde3_select_NoDup : forall n off pop next, gde3_select cmp n off pop = Some next ->
    NoDup (map ident (firstn n off ++ firstn n pop)) -> NoDup (map ident next).
  Proof.
    induction n as [|n IH]; intros off pop next H Hnd; simpl in H.
    - injection H as <-. constructor.
    - destruct off as [|o os]; [discriminate|]. destruct pop as [|p ps]; [discriminate|].
      destruct (gde3_select cmp n os ps) as [rest|] eqn:E; [|discriminate]. injection H as <-.
      pose proof (gde3_select_incl n os ps rest E) as Hin.
      simpl in Hnd. inversion Hnd as [|? ? Ho Hnd1]; subst.
      rewrite map_app in Hnd1, Ho. simpl in Hnd1, Ho.
      pose proof (NoDup_remove_1 _ _ _ Hnd1) as Hnd2.
      pose proof (NoDup_remove_2 _ _ _ Hnd1) as Hp.
      rewrite <- map_app in Hnd2, Hp.
      specialize (IH os ps rest E Hnd2).
      assert (Hr : forall i, In i (map ident rest) -> In i (map ident (firstn n os ++ firstn n ps))).
      { intros i Hi. apply in_map_iff in Hi. destruct Hi as [x [<- Hx]]. apply in_map. now apply Hin. }
      assert (Ho' : ~ In (ident o) (map ident rest)).
      { intro C. apply Ho. apply Hr in C. rewrite map_app in C. apply in_app_or in C.
        apply in_or_app. destruct C; [now left|right; now right]. }
      assert (Hop : ident o <> ident p).
      { intro C. apply Ho. apply in_or_app. right. left. now symmetry. }
      assert (Hp' : ~ In (ident p) (map ident rest)) by (intro C; apply Hp; now apply Hr).
      destruct (cmp o p <=? 0)%Z, (cmp o p >=? 0)%Z; simpl.
      + constructor; [simpl; intros [C|C]; [now apply Hop|now apply Ho']|]. constructor; assumption.
      + constructor; assumption.
      + constructor; assumption.
      + assumption.
  Qed.

  Lemma gde3_select_length : forall n off pop next, gde3_select cmp n off pop = Some next -> n <= length next.
  Proof.
    induction n as [|n IH]; intros off pop next H; simpl in H.
    - lia.
    - destruct off as [|o os]; [discriminate|]. destruct pop as [|p ps]; [discriminate|].
      destruct (gde3_select cmp n os ps) as [rest|] eqn:E; [|discriminate]. injection H as <-.
      specialize (IH os ps rest E). rewrite !app_length.
      destruct (cmp_range o p) as [C|[C|C]]; rewrite C; simpl; lia.
  Qed.

  Lemma gde3_select_total : forall n off pop, n <= length off -> n <= length pop ->
    exists next, gde3_select cmp n off pop = Some next.
  Proof.
    induction n as [|n IH]; intros off pop Ho Hp; simpl; [eauto|].
    destruct off as [|o os]; [simpl in Ho; lia|]. destruct pop as [|p ps]; [simpl in Hp; lia|].
    simpl in Ho, Hp. destruct (IH os ps) as [rest E]; try lia. rewrite E. eauto.
  Qed.

  (* consequently the non-dominated fronts of the merged population and of the selected one coincide *)
  Hypothesis dom_trans : forall x y z, P x -> P y -> P z -> dom x y = true -> dom y z = true -> dom x z = true.

  Lemma gde3_front_same n off pop next : gde3_select cmp n off pop = Some next ->
    length off = n -> length pop = n -> Forall P (off ++ pop) ->
    forall x, In x (F0 cmp next) <-> In x (F0 cmp (off ++ pop)).
  Proof.
    intros H Lo Lp HP x.
    assert (Fo : firstn n off = off) by (rewrite <- Lo; apply firstn_all).
    assert (Fp : firstn n pop = pop) by (rewrite <- Lp; apply firstn_all).
    pose proof (gde3_select_incl n off pop next H) as Hin. rewrite Fo, Fp in Hin.
    apply Forall_app in HP. destruct HP as [Po Pp].
    pose proof (gde3_select_keeps n off pop next H) as Hk. rewrite Fo, Fp in Hk. specialize (Hk Po Pp).
    assert (PU : forall y, In y (off ++ pop) -> P y).
    { intros y Hy. apply in_app_or in Hy. rewrite Forall_forall in Po, Pp. destruct Hy; auto. }
    rewrite !F0_In. split; intros [Hx Hd].
    - split; [now apply Hin|]. intros y Hy.
      destruct (Hk y Hy) as [Hy'|[z [Hz D]]]; [now apply Hd|].
      destruct (dom y x) eqn:Dy; [|reflexivity].
      rewrite <- (Hd z Hz). symmetry. apply (dom_trans z y x); auto.
    - split.
      + destruct (Hk x Hx) as [Hx'|[z [Hz D]]]; [exact Hx'|]. rewrite (Hd z (Hin z Hz)) in D. discriminate.
      + intros y Hy. apply Hd. now apply Hin.
  Qed.
End GDE3Select.

Lemma same_members_same_length {A} (l l' : list A) : NoDup l -> NoDup l' ->
  (forall x, In x l <-> In x l') -> length l = length l'.
Proof.
  intros H H' E. apply Nat.le_antisymm; apply NoDup_incl_length; auto; intros x Hx; now apply E.
Qed.

Section GDE3.
  Variable c : bool.
  Variable dirs : list bool.
  Variables offspring population : list xsol.
  Variable n : nat.
  Variable surv : list xsol.
  Notation U := (offspring ++ population).
  Notation wfs := (sol_wf xq xltb xzero dirs).
  Notation xcmp := (x_sol_cmp c dirs).
  Hypothesis Hwf : Forall wfs U.
  Hypothesis Hnd : NoDup (map sid U).
  Hypothesis Hlo : length offspring = n.
  Hypothesis Hlp : length population = n.
  Hypothesis Hrun : gde3_survival c dirs offspring population n = Some surv.

  Let R1 := scmp_range xq xltb xneg xzero xq_laws c dirs.
  Let R2 := scmp_antisym xq xltb xneg xzero xq_laws c dirs.
  Let R3 := sdom_trans xq xltb xneg xzero xq_laws c dirs.

  Lemma gde3_shape : exists next ann out,
    gde3_select xcmp n offspring population = Some next /\ x_nd_sort c dirs next = Some ann /\
    nondominated_prune (length dirs) ann n = Some out /\ surv = map a_sol out.
  Proof.
    unfold gde3_survival in Hrun.
    destruct (gde3_select xcmp n offspring population) as [next|] eqn:E1; [|discriminate].
    destruct (x_nd_sort c dirs next) as [ann|] eqn:E2; [|discriminate].
    destruct (nondominated_prune (length dirs) ann n) as [out|] eqn:E3; [|discriminate].
    injection Hrun as <-. exists next, ann, out. repeat split; auto.
  Qed.

  Theorem gde3_elitist :
    length surv = n /\ NoDup surv /\ incl surv U /\
    (length (F0 xcmp U) <= n -> incl (F0 xcmp U) surv) /\
    (n < length (F0 xcmp U) -> incl surv (F0 xcmp U)).
  Proof.
    destruct gde3_shape as [next [ann [out [Hsel [Hs [Hp ->]]]]]].
    assert (Fo : firstn n offspring = offspring) by (rewrite <- Hlo; apply firstn_all).
    assert (Fp : firstn n population = population) by (rewrite <- Hlp; apply firstn_all).
    pose proof (gde3_select_incl xsol xcmp n _ _ _ Hsel) as Hin. rewrite Fo, Fp in Hin.
    pose proof (gde3_select_NoDup xsol xcmp sid n _ _ _ Hsel) as HndN. rewrite Fo, Fp in HndN. specialize (HndN Hnd).
    pose proof (gde3_select_length xsol xcmp R1 n _ _ _ Hsel) as HlenN.
    assert (HwfN : Forall wfs next).
    { rewrite Forall_forall in *. intros x Hx. apply Hwf. now apply Hin. }
    pose proof (ann_NoDup c dirs next ann HndN Hs) as HndA.
    pose proof (U_inj next HndN) as HinjN.
    (* members of the pruned list are members of the sorted list, up to the rewritten crowding attribute *)
    assert (Hcore : forall o, In o out -> exists a, In a ann /\ a_sol a = a_sol o /\ a_rank a = a_rank o).
    { intros o Ho. destruct (prune_sub _ _ _ _ Hp) as [rest HP].
      assert (Hc : In (core o) (map core ann)).
      { eapply Permutation_in; [exact HP|]. apply in_or_app. left. now apply in_map. }
      apply in_map_iff in Hc. destruct Hc as [a [Ea Ha]]. exists a. unfold core in Ea. injection Ea as E1 E2. auto. }
    assert (HndS : NoDup (map a_sol out)) by (apply NoDup_map_sol, (prune_NoDup _ _ _ _ Hp HndA)).
    assert (HinS : incl (map a_sol out) next).
    { intros x Hx. apply in_map_iff in Hx. destruct Hx as [o [<- Ho]].
      destruct (Hcore o Ho) as [a [Ha [<- _]]]. now apply (ann_In c dirs next ann Hs). }
    assert (HlenS : length (map a_sol out) = min n (length next)).
    { rewrite map_length. apply (sorted_prune_length c dirs next ann HwfN HinjN Hs _ _ _ Hp). }
    assert (Hmono : forall x y, In x (map a_sol out) -> In y next -> ~ In y (map a_sol out) ->
                                rank_in ann x <= rank_in ann y).
    { intros x y Hx Hy Hny. apply in_map_iff in Hx. destruct Hx as [o [<- Ho]].
      destruct (Hcore o Ho) as [a [Ha [Ea Er]]].
      destruct (ann_of c dirs next ann Hs y Hy) as [b [Hb <-]].
      rewrite <- Ea, (rank_in_member ann a HndA Ha), (rank_in_member ann b HndA Hb), Er.
      apply (prune_rank_mono _ _ _ _ Hp o b Ho Hb). intro C. apply Hny. now apply in_map. }
    pose proof (gde3_front_same xsol xcmp wfs R1 R2 R3 n _ _ _ Hsel Hlo Hlp Hwf) as Hsame.
    assert (HlenF : length (F0 xcmp next) = length (F0 xcmp U)).
    { apply same_members_same_length; auto.
      - apply NoDup_filter. exact (NoDup_map_inv sid _ HndN).
      - apply NoDup_filter. exact (NoDup_map_inv sid _ Hnd). }
    split; [lia|]. split; [exact HndS|]. split; [intros x Hx; apply Hin; now apply HinS|].
    rewrite <- HlenF. split.
    - intros Hfit x Hx. rewrite (F0_is_rank0 c dirs next ann HwfN HndN Hs) in Hfit. apply Hsame in Hx. rewrite (F0_is_rank0 c dirs next ann HwfN HndN Hs) in Hx.
      revert x Hx. apply (elite_all_kept xsol sid (rank_in ann) next (map a_sol out) n); auto.
    - intros Hbig x Hx. rewrite (F0_is_rank0 c dirs next ann HwfN HndN Hs) in Hbig.
      apply Hsame. rewrite (F0_is_rank0 c dirs next ann HwfN HndN Hs).
      revert x Hx. apply (elite_only xsol sid (rank_in ann) next (map a_sol out) n); auto.
  Qed.
End GDE3.

(* ------------------------------------------------------------------------- *)
(* Part E : NSGA-III, for every choice made by the niche filling              *)
(* ------------------------------------------------------------------------- *)
(* a selection from a freshly sorted population that is duplicate-free, has min(n, |U|) members and never keeps
   a member while dropping one of smaller rank is elitist *)
Lemma ann_select_elitist c dirs (U : list xsol) ann out n :
  Forall (sol_wf xq xltb xzero dirs) U -> NoDup (map sid U) -> x_nd_sort c dirs U = Some ann ->
  (forall a, In a out -> In a ann) -> NoDup (map asid out) -> length out = min n (length ann) ->
  (forall x y, In x out -> In y ann -> ~ In (asid y) (map asid out) -> a_rank x <= a_rank y) ->
  length (map a_sol out) = min n (length U) /\ NoDup (map a_sol out) /\ incl (map a_sol out) U /\
  (length (F0 (x_sol_cmp c dirs) U) <= n -> incl (F0 (x_sol_cmp c dirs) U) (map a_sol out)) /\
  (n < length (F0 (x_sol_cmp c dirs) U) -> incl (map a_sol out) (F0 (x_sol_cmp c dirs) U)).
Proof.
  intros Hwf Hnd Hs Hsub HndO Hlen Hmono.
  pose proof (ann_NoDup c dirs U ann Hnd Hs) as HndA.
  assert (H1 : length (map a_sol out) = min n (length U)).
  { rewrite map_length, Hlen, (sorted_length c dirs U ann Hs). reflexivity. }
  assert (H2 : NoDup (map a_sol out)) by now apply NoDup_map_sol.
  assert (H3 : incl (map a_sol out) U).
  { intros x Hx. apply in_map_iff in Hx. destruct Hx as [a [<- Ha]].
    apply (ann_In c dirs U ann Hs). now apply Hsub. }
  assert (Hm : forall x y, In x (map a_sol out) -> In y U -> ~ In y (map a_sol out) -> rank_in ann x <= rank_in ann y).
  { intros x y Hx Hy Hny. apply in_map_iff in Hx. destruct Hx as [a [<- Ha]].
    destruct (ann_of c dirs U ann Hs y Hy) as [b [Hb <-]].
    rewrite (rank_in_member ann a HndA (Hsub a Ha)), (rank_in_member ann b HndA Hb).
    apply (Hmono a b Ha Hb).
    intro C. apply Hny. apply in_map_iff in C. destruct C as [o [Eo Ho]].
    apply in_map_iff. exists o. split; [|exact Ho].
    apply (U_inj U Hnd); [apply (ann_In c dirs U ann Hs); now apply Hsub|now apply (ann_In c dirs U ann Hs)|exact Eo]. }
  rewrite (F0_is_rank0 c dirs U ann Hwf Hnd Hs).
  repeat split; auto.
  - apply (elite_all_kept xsol sid (rank_in ann) U (map a_sol out) n); auto.
  - apply (elite_only xsol sid (rank_in ann) U (map a_sol out) n); auto.
Qed.

Lemma take_sid_perm i : forall l s r, take_sid i l = Some (s, r) -> Permutation (s :: r) l.
Proof.
  induction l as [|a l IH]; intros s r H; simpl in H; [discriminate|].
  destruct (Nat.eqb (sid (a_sol a)) i).
  - injection H as <- <-. apply Permutation_refl.
  - destruct (take_sid i l) as [[b r']|] eqn:E; [|discriminate]. injection H as <- <-.
    eapply perm_trans; [apply perm_swap|]. apply perm_skip. now apply IH.
Qed.

(* whatever the picks: the result is [result] followed by distinct members of [remaining], exactly [size] long *)
Lemma nsga3_fill_spec size : forall picks res rem out,
  nsga3_fill res rem size picks = Some out -> length res <= size ->
  exists added rest, out = res ++ added /\ Permutation (added ++ rest) rem /\ length out = size.
Proof.
  induction picks as [|i picks IH]; intros res rem out H Hle; simpl in H.
  - destruct (Nat.ltb (length res) size) eqn:E; [discriminate|]. injection H as <-.
    apply Nat.ltb_ge in E. exists [], rem. rewrite app_nil_r. repeat split; auto. lia.
  - destruct (Nat.ltb (length res) size) eqn:E; [|discriminate]. apply Nat.ltb_lt in E.
    destruct (take_sid i rem) as [[s rem']|] eqn:T; [|discriminate].
    destruct (IH (res ++ [s]) rem' out H) as [added [rest [E1 [P L]]]].
    { rewrite app_length. simpl. lia. }
    exists (s :: added), rest. split; [rewrite E1, <- app_assoc; reflexivity|]. split; [|exact L].
    simpl. eapply perm_trans; [apply perm_skip; exact P|]. now apply (take_sid_perm i).
Qed.

Lemma NoDup_filter_map {A B} (f : A -> B) (g : A -> bool) l : NoDup (map f l) -> NoDup (map f (filter g l)).
Proof.
  induction l as [|a l IH]; intro H; [constructor|].
  simpl in H. inversion H as [|? ? Hn Hr]; subst. simpl. destruct (g a); [|now apply IH].
  simpl. constructor; [|now apply IH].
  intro C. apply Hn. apply in_map_iff in C. destruct C as [x [E Hx]]. apply filter_In in Hx.
  rewrite <- E. apply in_map. tauto.
Qed.

Lemma NoDup_app_l {A} (l1 l2 : list A) : NoDup (l1 ++ l2) -> NoDup l1.
Proof.
  induction l1 as [|a l1 IH]; intro H; [constructor|].
  simpl in H. inversion H as [|? ? Hn Hr]; subst. constructor.
  - intro C. apply Hn. apply in_or_app. now left.
  - now apply IH.
Qed.

Section NSGA3.
  Variable c : bool.
  Variable dirs : list bool.
  Variables offspring population : list xsol.
  Variable n : nat.
  Variable picks : list nat.
  Variable surv : list xsol.
  Notation U := (offspring ++ population).
  Notation wfs := (sol_wf xq xltb xzero dirs).
  Notation xcmp := (x_sol_cmp c dirs).
  Hypothesis Hwf : Forall wfs U.
  Hypothesis Hnd : NoDup (map sid U).
  Hypothesis Hrun : nsga3_survive c dirs offspring population n picks = Some surv.

  Theorem nsga3_elitist :
    length surv = min n (length U) /\ NoDup surv /\ incl surv U /\
    (length (F0 xcmp U) <= n -> incl (F0 xcmp U) surv) /\
    (n < length (F0 xcmp U) -> incl surv (F0 xcmp U)).
  Proof.
    unfold nsga3_survive in Hrun.
    destruct (x_nd_sort c dirs U) as [ann|] eqn:Hs; [|discriminate].
    destruct (nsga3_truncate ann n picks) as [out|] eqn:Ht; [|discriminate].
    simpl in Hrun. injection Hrun as <-.
    pose proof (ann_NoDup c dirs U ann Hnd Hs) as HndA.
    apply (ann_select_elitist c dirs U ann out n Hwf Hnd Hs); unfold nsga3_truncate in Ht.
    - (* members *)
      destruct (Nat.ltb n (length ann)) eqn:E.
      + destruct (nd_split_spec ann n) as [r [last [Hsp Hpost]]]. rewrite Hsp in Ht.
        destruct (nsga3_fill_spec n picks _ _ _ Ht) as [added [rest [-> [P _]]]]; [apply Hpost|].
        intros a Ha. apply in_app_or in Ha. destruct Ha as [Ha|Ha].
        * apply fronts_upto_In in Ha. tauto.
        * assert (Hl : In a last) by (eapply Permutation_in; [exact P|apply in_or_app; now left]).
          destruct Hpost as [_ [_ [[-> _]|[-> _]]]]; [contradiction|].
          unfold matches in Hl. apply filter_In in Hl. tauto.
      + destruct picks; [|discriminate]. injection Ht as <-. auto.
    - (* distinct *)
      destruct (Nat.ltb n (length ann)) eqn:E.
      + destruct (nd_split_spec ann n) as [r [last [Hsp Hpost]]]. rewrite Hsp in Ht.
        destruct (nsga3_fill_spec n picks _ _ _ Ht) as [added [rest [-> [P _]]]]; [apply Hpost|].
        destruct Hpost as [_ [_ [[-> _]|[-> _]]]].
        * apply Permutation_sym, Permutation_nil in P. apply app_eq_nil in P. destruct P as [-> _]. rewrite app_nil_r.
          eapply Permutation_NoDup; [apply Permutation_sym, Permutation_map, fronts_upto_perm|].
          apply (NoDup_filter_map asid). exact HndA.
        * assert (PP : Permutation ((fronts_upto a_rank ann r ++ added) ++ rest)
                                   (filter (fun a => Nat.ltb (a_rank a) (S r)) ann)).
          { rewrite <- app_assoc. eapply perm_trans; [apply Permutation_app_head; exact P|].
            rewrite <- fronts_upto_S. apply fronts_upto_perm. }
          apply (Permutation_map asid) in PP. rewrite map_app in PP.
          apply (NoDup_app_l _ (map asid rest)).
          eapply Permutation_NoDup; [apply Permutation_sym; exact PP|].
          apply (NoDup_filter_map asid). exact HndA.
      + destruct picks; [|discriminate]. injection Ht as <-. exact HndA.
    - (* size *)
      destruct (Nat.ltb n (length ann)) eqn:E.
      + apply Nat.ltb_lt in E.
        destruct (nd_split_spec ann n) as [r [last [Hsp Hpost]]]. rewrite Hsp in Ht.
        destruct (nsga3_fill_spec n picks _ _ _ Ht) as [added [rest [_ [_ L]]]]; [apply Hpost|]. lia.
      + apply Nat.ltb_ge in E. destruct picks; [|discriminate]. injection Ht as <-. lia.
    - (* rank monotone *)
      destruct (Nat.ltb n (length ann)) eqn:E.
      + destruct (nd_split_spec ann n) as [r [last [Hsp Hpost]]]. rewrite Hsp in Ht.
        destruct (nsga3_fill_spec n picks _ _ _ Ht) as [added [rest [-> [P _]]]]; [apply Hpost|].
        intros x y Hx Hy Hny.
        assert (Hyr : r <= a_rank y).
        { destruct (Nat.le_gt_cases r (a_rank y)) as [|G]; [assumption|]. exfalso. apply Hny.
          apply in_map. apply in_or_app. left. apply fronts_upto_In. auto. }
        apply in_app_or in Hx. destruct Hx as [Hx|Hx].
        * apply fronts_upto_In in Hx. lia.
        * assert (Hl : In x last) by (eapply Permutation_in; [exact P|apply in_or_app; now left]).
          destruct Hpost as [_ [_ [[-> _]|[-> _]]]]; [contradiction|].
          unfold matches in Hl. apply filter_In in Hl. destruct Hl as [_ Hl]. apply Nat.eqb_eq in Hl. lia.
      + destruct picks; [|discriminate]. injection Ht as <-.
        intros x y _ Hy Hny. exfalso. apply Hny. now apply in_map.
  Qed.
End NSGA3.

(* ------------------------------------------------------------------------- *)
(* Part F : SPEA2                                                             *)
(* ------------------------------------------------------------------------- *)
Lemma add_at_length : forall l k v, length (add_at k v l) = length l.
Proof. induction l as [|a l IH]; intros [|k] v; simpl; auto. Qed.

Lemma nth_add_at : forall l k v j,
  nth j (add_at k v l) 0 = if Nat.eqb k j && Nat.ltb k (length l) then nth j l 0 + v else nth j l 0.
Proof.
  induction l as [|a l IH]; intros k v j.
  - destruct k, j; simpl; try reflexivity; now rewrite andb_false_r.
  - destruct k as [|k], j as [|j]; simpl; try reflexivity.
    rewrite IH. reflexivity.
Qed.

Fixpoint sum_list (l : list nat) : nat := match l with [] => 0 | a :: r => a + sum_list r end.

Lemma sum_list_zero l : sum_list l = 0 <-> forall a, In a l -> a = 0.
Proof.
  induction l as [|a l IH]; simpl; split; intro H.
  - intros a [].
  - reflexivity.
  - intros b [<-|Hb]; [lia|]. apply IH; [lia|exact Hb].
  - assert (a = 0) by (apply H; now left). assert (sum_list l = 0) by (apply IH; intros b Hb; apply H; now right). lia.
Qed.

Section SPEA2Proofs.
  Variable T : Type.
  Variable cmp : T -> T -> Z.
  Variable P : T -> Prop.
  Variable dist2 : T -> T -> option Q.
  Notation dom := (dom T cmp).
  Hypothesis cmp_range : forall x y, (cmp x y = -1 \/ cmp x y = 0 \/ cmp x y = 1)%Z.
  Hypothesis cmp_antisym : forall x y, P x -> P y -> (cmp y x = - cmp x y)%Z.
  Hypothesis dom_irrefl : forall x, P x -> dom x x = false.

  (* ---- the pair enumeration ---- *)
  Lemma pairs_with_In i x : forall r j a b c d,
    In (a, b, c, d) (pairs_with T i j x r) <-> a = i /\ c = x /\ j <= b /\ nth_error r (b - j) = Some d.
  Proof.
    induction r as [|y r IH]; intros j a b c d; simpl.
    - split; [intros []|]. intros [_ [_ [_ H]]]. destruct (b - j); discriminate.
    - rewrite IH. split.
      + intros [E|[-> [-> [Hj Hn]]]].
        * injection E as <- <- <- <-. rewrite Nat.sub_diag. repeat split; auto.
        * repeat split; auto; [lia|]. replace (b - j) with (S (b - S j)) by lia. exact Hn.
      + intros [-> [-> [Hj Hn]]]. destruct (Nat.eq_dec b j) as [->|NE].
        * left. rewrite Nat.sub_diag in Hn. simpl in Hn. now injection Hn as <-.
        * right. repeat split; auto; [lia|]. replace (b - j) with (S (b - S j)) in Hn by lia. exact Hn.
  Qed.

  Lemma all_pairs_In : forall (l : list T) i a b c d,
    In (a, b, c, d) (all_pairs i l) <->
    i <= a /\ a < b /\ nth_error l (a - i) = Some c /\ nth_error l (b - i) = Some d.
  Proof.
    induction l as [|x r IH]; intros i a b c d; simpl.
    - split; [intros []|]. intros [_ [_ [H _]]]. destruct (a - i); discriminate.
    - rewrite in_app_iff, pairs_with_In, IH. split.
      + intros [[-> [-> [Hb Hn]]]|[Ha [Hab [Hc Hd]]]].
        * rewrite Nat.sub_diag. split; [lia|]. split; [lia|]. split; [reflexivity|].
          replace (b - i) with (S (b - S i)) by lia. exact Hn.
        * split; [lia|]. split; [lia|]. split.
          -- replace (a - i) with (S (a - S i)) by lia. exact Hc.
          -- replace (b - i) with (S (b - S i)) by lia. exact Hd.
      + intros [Ha [Hab [Hc Hd]]]. destruct (Nat.eq_dec a i) as [->|NE].
        * left. rewrite Nat.sub_diag in Hc. simpl in Hc. injection Hc as <-.
          split; [reflexivity|]. split; [reflexivity|]. split; [lia|].
          replace (b - i) with (S (b - S i)) in Hd by lia. exact Hd.
        * right. split; [lia|]. split; [lia|]. split.
          -- replace (a - i) with (S (a - S i)) in Hc by lia. exact Hc.
          -- replace (b - i) with (S (b - S i)) in Hd by lia. exact Hd.
  Qed.

  (* (i, j, flag) is produced exactly for i < j < len with flag = compare(l[i], l[j]) *)
  Lemma flagged_In l i j f :
    In (i, j, f) (flagged cmp l) <->
    exists x y, i < j /\ nth_error l i = Some x /\ nth_error l j = Some y /\ f = cmp x y.
  Proof.
    unfold flagged. rewrite in_map_iff. split.
    - intros [[[[a b] x] y] [E H]]. injection E as <- <- <-. apply all_pairs_In in H.
      rewrite !Nat.sub_0_r in H. exists x, y. tauto.
    - intros [x [y [Hij [Hx [Hy ->]]]]]. exists (i, j, x, y). split; [reflexivity|].
      apply all_pairs_In. rewrite !Nat.sub_0_r. repeat split; auto; lia.
  Qed.

  Lemma flagged_bound l i j f : In (i, j, f) (flagged cmp l) -> i < length l /\ j < length l.
  Proof.
    intro H. apply flagged_In in H. destruct H as [x [y [_ [Hx [Hy _]]]]].
    split; apply nth_error_Some; congruence.
  Qed.

  (* ---- strength = number of pair entries won ---- *)
  Definition s_hit (k : nat) (e : nat * nat * Z) : bool :=
    match e with (i, j, f) => if (f <? 0)%Z then Nat.eqb i k else if (f >? 0)%Z then Nat.eqb j k else false end.

  Lemma strength_fold : forall es st k,
    (forall i j f, In (i, j, f) es -> i < length st /\ j < length st) ->
    nth k (fold_left strength_step es st) 0 = nth k st 0 + length (filter (s_hit k) es).
  Proof.
    induction es as [|[[i j] f] es IH]; intros st k Hb; simpl; [lia|].
    destruct (Hb i j f (or_introl eq_refl)) as [Hi Hj].
    rewrite IH.
    - destruct (f <? 0)%Z.
      + rewrite nth_add_at. apply Nat.ltb_lt in Hi. rewrite Hi, andb_true_r.
        destruct (Nat.eqb i k); simpl; lia.
      + destruct (f >? 0)%Z.
        * rewrite nth_add_at. apply Nat.ltb_lt in Hj. rewrite Hj, andb_true_r.
          destruct (Nat.eqb j k); simpl; lia.
        * simpl. lia.
    - intros i' j' f' H'. destruct (f <? 0)%Z; [|destruct (f >? 0)%Z]; rewrite ?add_at_length; apply (Hb i' j' f'); now right.
  Qed.

  Lemma strength_step_length st e : length (strength_step st e) = length st.
  Proof. destruct e as [[i j] f]. simpl. destruct (f <? 0)%Z; [|destruct (f >? 0)%Z]; now rewrite ?add_at_length. Qed.

  Lemma strengths_spec l k : nth k (strengths cmp l) 0 = length (filter (s_hit k) (flagged cmp l)).
  Proof.
    unfold strengths. rewrite strength_fold.
    - rewrite nth_repeat. reflexivity.
    - intros i j f H. rewrite repeat_length. now apply (flagged_bound l i j f).
  Qed.

  (* ---- raw fitness = sum of the strengths of the entries lost ---- *)
  Definition r_term (S : list nat) (k : nat) (e : nat * nat * Z) : nat :=
    match e with (i, j, f) =>
      if (f <? 0)%Z then (if Nat.eqb j k then nth i S 0 else 0)
      else if (f >? 0)%Z then (if Nat.eqb i k then nth j S 0 else 0) else 0 end.

  Lemma raw_fold S : forall es ft k,
    (forall i j f, In (i, j, f) es -> i < length ft /\ j < length ft) ->
    nth k (fold_left (raw_step S) es ft) 0 = nth k ft 0 + sum_list (map (r_term S k) es).
  Proof.
    induction es as [|[[i j] f] es IH]; intros ft k Hb; simpl; [lia|].
    destruct (Hb i j f (or_introl eq_refl)) as [Hi Hj].
    rewrite IH.
    - destruct (f <? 0)%Z.
      + rewrite nth_add_at. apply Nat.ltb_lt in Hj. rewrite Hj, andb_true_r.
        destruct (Nat.eqb j k); simpl; lia.
      + destruct (f >? 0)%Z.
        * rewrite nth_add_at. apply Nat.ltb_lt in Hi. rewrite Hi, andb_true_r.
          destruct (Nat.eqb i k); simpl; lia.
        * simpl. lia.
    - intros i' j' f' H'. destruct (f <? 0)%Z; [|destruct (f >? 0)%Z]; rewrite ?add_at_length; apply (Hb i' j' f'); now right.
  Qed.

  Lemma raws_spec l k : nth k (raws cmp l) 0 = sum_list (map (r_term (strengths cmp l) k) (flagged cmp l)).
  Proof.
    unfold raws. rewrite raw_fold.
    - rewrite nth_repeat. reflexivity.
    - intros i j f H. rewrite repeat_length. now apply (flagged_bound l i j f).
  Qed.

  Lemma raws_length l : length (raws cmp l) = length l.
  Proof.
    unfold raws. generalize (flagged cmp l) as es. intro es.
    assert (G : forall es ft, length (fold_left (raw_step (strengths cmp l)) es ft) = length ft).
    { clear. induction es as [|[[i j] f] es IH]; intro ft; simpl; [reflexivity|]. rewrite IH.
      destruct (f <? 0)%Z; [|destruct (f >? 0)%Z]; now rewrite ?add_at_length. }
    rewrite G. apply repeat_length.
  Qed.

  Lemma filter_hit_pos {A} (h : A -> bool) es e : In e es -> h e = true -> 1 <= length (filter h es).
  Proof.
    intros Hin Hh. assert (In e (filter h es)) by (apply filter_In; auto).
    destruct (filter h es); [contradiction|simpl; lia].
  Qed.

  (* raw fitness 0 <=> no member dominates: the crux of  fitness < 1 <=> non-dominated *)
  Theorem raw_zero_iff l k x : Forall P l -> nth_error l k = Some x ->
    (nth k (raws cmp l) 0 = 0 <-> forall y, In y l -> dom y x = false).
  Proof.
    intros HP Hk. rewrite Forall_forall in HP.
    assert (Px : P x) by (apply HP; eapply nth_error_In; eauto).
    rewrite raws_spec, sum_list_zero. split.
    - intros H y Hy. destruct (dom y x) eqn:D; [|reflexivity]. exfalso.
      destruct (In_nth_error _ _ Hy) as [m Hm]. assert (Py : P y) by now apply HP.
      unfold Archive.dom in D. apply Z.eqb_eq in D.
      destruct (Nat.lt_trichotomy m k) as [Hlt|[->|Hgt]].
      + (* y before x: entry (m, k, -1) *)
        assert (He : In (m, k, (-1)%Z) (flagged cmp l)).
        { apply flagged_In. exists y, x. repeat split; auto. }
        assert (Hs : 1 <= nth m (strengths cmp l) 0).
        { rewrite strengths_spec. apply (filter_hit_pos _ _ _ He). simpl. apply Nat.eqb_refl. }
        specialize (H (r_term (strengths cmp l) k (m, k, (-1)%Z))).
        simpl in H. rewrite Nat.eqb_refl in H.
        assert (nth m (strengths cmp l) 0 = 0); [|lia].
        apply H. apply in_map_iff. exists (m, k, (-1)%Z). split; [simpl; now rewrite Nat.eqb_refl|exact He].
      + (* y = x *)
        rewrite Hk in Hm. injection Hm as <-. pose proof (dom_irrefl x Px) as I.
        unfold Archive.dom in I. rewrite D in I. discriminate.
      + (* y after x: entry (k, m, 1) *)
        assert (C : cmp x y = 1%Z) by (rewrite (cmp_antisym y x Py Px), D; reflexivity).
        assert (He : In (k, m, 1%Z) (flagged cmp l)).
        { apply flagged_In. exists x, y. repeat split; auto. }
        assert (Hs : 1 <= nth m (strengths cmp l) 0).
        { rewrite strengths_spec. apply (filter_hit_pos _ _ _ He). simpl. apply Nat.eqb_refl. }
        specialize (H (r_term (strengths cmp l) k (k, m, 1%Z))).
        simpl in H. rewrite Nat.eqb_refl in H.
        assert (nth m (strengths cmp l) 0 = 0); [|lia].
        apply H. apply in_map_iff. exists (k, m, 1%Z). split; [simpl; now rewrite Nat.eqb_refl|exact He].
    - intros H a Ha. apply in_map_iff in Ha. destruct Ha as [[[i j] f] [<- He]].
      apply flagged_In in He. destruct He as [xi [xj [Hij [Hi [Hj ->]]]]].
      assert (Pi : P xi) by (apply HP; eapply nth_error_In; eauto).
      assert (Pj : P xj) by (apply HP; eapply nth_error_In; eauto).
      simpl. destruct (cmp_range xi xj) as [C|[C|C]]; rewrite C; simpl; try reflexivity.
      + (* xi dominates xj *)
        destruct (Nat.eqb j k) eqn:E; [|reflexivity]. apply Nat.eqb_eq in E. subst j.
        rewrite Hk in Hj. injection Hj as <-. exfalso.
        assert (D : dom xi x = false) by (apply H; eapply nth_error_In; eauto).
        unfold Archive.dom in D. rewrite C in D. discriminate.
      + destruct (Nat.eqb i k) eqn:E; [|reflexivity]. apply Nat.eqb_eq in E. subst i.
        rewrite Hk in Hi. injection Hi as <-. exfalso.
        assert (D : dom xj x = false) by (apply H; eapply nth_error_In; eauto).
        unfold Archive.dom in D. rewrite (cmp_antisym x xj Px Pj), C in D. discriminate.
  Qed.

  (* ---- the fitness attribute: the solutions in order, raw part taken from [raws] ---- *)
  Lemma attach_filter dm kk (q : T -> bool) : forall l rw i fs,
    attach_fitness T dm kk i l rw = Some fs ->
    (forall j x, nth_error l j = Some x -> Nat.eqb (nth j rw 0) 0 = q x) ->
    map fst fs = l /\
    map fst (filter (fun p => fit_lt1 (snd p)) fs) = filter q l /\
    map fst (filter (fun p => negb (fit_lt1 (snd p))) fs) = filter (fun x => negb (q x)) l.
  Proof.
    induction l as [|x l IH]; intros rw i fs H Hq; simpl in H.
    - injection H as <-. auto.
    - destruct rw as [|r rw]; [discriminate|].
      destruct (kth_distance dm i kk) as [d|]; [|discriminate].
      destruct (attach_fitness T dm kk (S i) l rw) as [rest|] eqn:E; [|discriminate]. injection H as <-.
      destruct (IH rw (S i) rest E) as [A [B C]].
      { intros j y Hy. apply (Hq (S j) y Hy). }
      pose proof (Hq 0 x eq_refl) as H0. simpl in H0.
      assert (E0 : fit_lt1 {| f_raw := r; f_dk2 := d |} = q x) by exact H0.
      cbn [filter snd fst map]. rewrite E0. destruct (q x); cbn [negb map fst]; rewrite A, B, C; auto.
  Qed.

  (* ---- del / thinning ---- *)
  Lemma del_nth_perm {A} : forall (l : list A) k, k < length l -> exists x, Permutation (x :: del_nth k l) l.
  Proof.
    induction l as [|a l IH]; intros k Hk; [simpl in Hk; lia|].
    destruct k as [|k]; simpl.
    - exists a. apply Permutation_refl.
    - simpl in Hk. destruct (IH k) as [x Px]; [lia|]. exists x.
      eapply perm_trans; [apply perm_swap|]. now apply perm_skip.
  Qed.

  Lemma thin_spec size : forall fuel (s : list T) dm out, thin fuel s dm size = Ok out ->
    (exists dropped, Permutation (out ++ dropped) s) /\ length out = min size (length s).
  Proof.
    induction fuel as [|fuel IH]; intros s dm out H; simpl in H.
    - destruct (Nat.ltb size (length s)) eqn:E; [discriminate|]. injection H as <-.
      apply Nat.ltb_ge in E. split; [exists []; now rewrite app_nil_r|lia].
    - destruct (Nat.ltb size (length s)) eqn:E.
      + apply Nat.ltb_lt in E.
        destruct (find_most_crowded dm) as [[mc|]|]; try discriminate.
        destruct (remove_point dm mc) as [dm'|]; [|discriminate].
        destruct (Nat.ltb mc (length s)) eqn:E2; [|discriminate]. apply Nat.ltb_lt in E2.
        destruct (IH _ _ _ H) as [[dropped Pd] L].
        destruct (del_nth_perm s mc E2) as [x Px].
        assert (Ld : length (del_nth mc s) = length s - 1).
        { apply Permutation_length in Px. simpl in Px. lia. }
        split; [|lia].
        exists (dropped ++ [x]). rewrite app_assoc.
        eapply perm_trans; [apply Permutation_app_tail; exact Pd|].
        eapply perm_trans; [apply Permutation_app_comm|]. exact Px.
      + injection H as <-. apply Nat.ltb_ge in E. split; [exists []; now rewrite app_nil_r|lia].
  Qed.

  (* the loop removes one member per pass: len(survivors) - size passes, never out of fuel *)
  Lemma thin_fuel size : forall fuel (s : list T) dm, length s - size <= fuel -> thin fuel s dm size <> OutOfFuel.
  Proof.
    induction fuel as [|fuel IH]; intros s dm Hf; simpl.
    - assert (E : Nat.ltb size (length s) = false) by (apply Nat.ltb_ge; lia). rewrite E. discriminate.
    - destruct (Nat.ltb size (length s)) eqn:E; [|discriminate]. apply Nat.ltb_lt in E.
      destruct (find_most_crowded dm) as [[mc|]|]; try discriminate.
      destruct (remove_point dm mc) as [dm'|]; [|discriminate].
      destruct (Nat.ltb mc (length s)) eqn:E2; [|discriminate]. apply Nat.ltb_lt in E2.
      apply IH. destruct (del_nth_perm s mc E2) as [x Px]. apply Permutation_length in Px. simpl in Px. lia.
  Qed.

  (* ---- the survival step ---- *)
  Theorem spea2_elitist k offspring population n surv :
    Forall P (offspring ++ population) ->
    spea2_survive cmp dist2 k offspring population n = Ok surv ->
    length surv = min n (length (offspring ++ population)) /\
    (exists dropped, Permutation (surv ++ dropped) (offspring ++ population)) /\
    (length (F0 cmp (offspring ++ population)) <= n -> incl (F0 cmp (offspring ++ population)) surv) /\
    (n < length (F0 cmp (offspring ++ population)) -> incl surv (F0 cmp (offspring ++ population))).
  Proof.
    set (U := offspring ++ population). intros HP H.
    unfold spea2_survive in H. fold U in H.
    destruct (assign_fitness cmp dist2 k U) as [fs|] eqn:Ha; [|discriminate].
    unfold assign_fitness in Ha. destruct (dm_build dist2 U) as [dm|]; [|discriminate].
    destruct (attach_filter dm k (nd T cmp U) U (raws cmp U) 0 fs Ha) as [A [B C]].
    { intros j x Hj. destruct (nd T cmp U x) eqn:N.
      - apply Nat.eqb_eq. apply (raw_zero_iff U j x HP Hj). now apply nd_true_iff.
      - apply Nat.eqb_neq. intro Hz. pose proof (proj1 (raw_zero_iff U j x HP Hj) Hz) as Hz'.
        apply nd_true_iff in Hz'. congruence. }
    fold (F0 cmp U) in B.
    unfold spea2_truncate in H.
    set (sv := filter (fun p : T * fit => fit_lt1 (snd p)) fs) in *.
    set (rm := filter (fun p : T * fit => negb (fit_lt1 (snd p))) fs) in *.
    assert (Lsv : length sv = length (F0 cmp U)) by (rewrite <- B; now rewrite map_length).
    assert (Pfs : Permutation (sv ++ rm) fs) by apply filter_partition_perm.
    assert (Lfs : length sv + length rm = length U).
    { apply Permutation_length in Pfs. rewrite app_length in Pfs. rewrite <- A, map_length. exact Pfs. }
    destruct (Nat.ltb (length sv) n) eqn:E.
    - (* the front is smaller than n: fill by fitness *)
      apply Nat.ltb_lt in E. injection H as <-.
      set (srt := ssort (fun a b : T * fit => fit_lt (snd a) (snd b)) rm).
      assert (Psrt : Permutation srt rm) by apply ssort_perm.
      rewrite map_app, B. split; [|split; [|split]].
      + rewrite app_length, !map_length, firstn_length, (Permutation_length Psrt). lia.
      + exists (map fst (skipn (n - length sv) srt)).
        rewrite <- app_assoc, <- map_app, firstn_skipn. rewrite <- B, <- map_app, <- A.
        apply Permutation_map. eapply perm_trans; [apply Permutation_app_head; exact Psrt|exact Pfs].
      + intros _ x Hx. apply in_or_app. now left.
      + intro Hbig. lia.
    - (* the front has at least n members: thin it *)
      apply Nat.ltb_ge in E.
      destruct (dm_build dist2 (map fst sv)) as [dm2|]; [|discriminate].
      destruct (thin_spec n _ _ _ _ H) as [[dropped Pd] L].
      rewrite B in Pd, L. rewrite <- Lsv.
      split; [lia|]. split; [|split].
      + exists (dropped ++ map fst rm). rewrite app_assoc.
        eapply perm_trans; [apply Permutation_app_tail; exact Pd|].
        rewrite <- B, <- map_app, <- A. now apply Permutation_map.
      + intros Hfit. assert (Ld : length dropped = 0).
        { apply Permutation_length in Pd. rewrite app_length in Pd. lia. }
        destruct dropped; [|discriminate]. rewrite app_nil_r in Pd.
        intros x Hx. eapply Permutation_in; [apply Permutation_sym; exact Pd|exact Hx].
      + intros _ x Hx. eapply Permutation_in; [exact Pd|]. apply in_or_app. now left.
  Qed.

  Theorem spea2_fuel_suffices k offspring population n :
    spea2_survive cmp dist2 k offspring population n <> OutOfFuel.
  Proof.
    unfold spea2_survive. destruct (assign_fitness cmp dist2 k (offspring ++ population)); [|discriminate].
    unfold spea2_truncate. destruct (Nat.ltb _ n); [discriminate|].
    destruct (dm_build dist2 _); [|discriminate].
    apply thin_fuel. rewrite map_length. lia.
  Qed.
End SPEA2Proofs.

(* ------------------------------------------------------------------------- *)
(* Part G : archives only improve                                             *)
(* ------------------------------------------------------------------------- *)
Section ArchiveMonotone.
  Variable T : Type.
  Variable cmp : T -> T -> Z.
  Variable P : T -> Prop.
  Notation dom := (dom T cmp).
  Notation add := (add T cmp).
  Notation archive := (archive T cmp).
  Hypothesis cmp_range : forall x y, (cmp x y = -1 \/ cmp x y = 0 \/ cmp x y = 1)%Z.
  Hypothesis cmp_antisym : forall x y, P x -> P y -> (cmp y x = - cmp x y)%Z.
  Hypothesis dom_trans : forall x y z, P x -> P y -> P z -> dom x y = true -> dom y z = true -> dom x z = true.
  Hypothesis dom_irrefl : forall x, P x -> dom x x = false.

  (* one insertion: a member stays, or the newcomer dominates it and is itself a member *)
  Lemma add_keeps_or_dominates a s m : Forall P a -> P s -> In m a ->
    In m (fst (add a s)) \/ (dom s m = true /\ In s (fst (add a s))).
  Proof.
    intros Ha Hs Hm. destruct (snd (add a s)) eqn:E.
    - rewrite (add_accept_contents T cmp P cmp_range a s Ha Hs E).
      destruct (dom s m) eqn:D.
      + right. split; [reflexivity|]. apply in_or_app. right. now left.
      + left. apply in_or_app. left. apply filter_In. split; [exact Hm|]. now rewrite D.
    - left. now rewrite (add_reject_unchanged T cmp a s E).
  Qed.

  Definition covered (a : list T) (m : T) : Prop := In m a \/ exists m', In m' a /\ dom m' m = true.

  Lemma fold_add_covered : forall l a m, Forall P a -> Forall P l -> P m -> covered a m ->
    covered (fold_left (fun a s => fst (add a s)) l a) m.
  Proof.
    induction l as [|s l IH]; intros a m Ha Hl Hm Hc; [exact Hc|].
    inversion Hl as [|? ? Hs Hl']; subst. simpl.
    apply IH; auto; [now apply (add_P T cmp P)|].
    rewrite Forall_forall in Ha.
    destruct Hc as [Hin|[m' [Hin D]]].
    - destruct (add_keeps_or_dominates a s m) as [H|[H1 H2]]; auto; [now apply Forall_forall|now left|].
      right. exists s. auto.
    - destruct (add_keeps_or_dominates a s m') as [H|[H1 H2]]; auto; [now apply Forall_forall| |].
      + right. exists m'. auto.
      + right. exists s. split; [exact H2|]. apply (dom_trans s m' m); auto.
  Qed.

  (* every member of an earlier archive is a member of every later archive, or is dominated by one of its
     members; and the members of an archive are mutually non-dominated *)
  Theorem archive_monotone h1 h2 : Forall P (h1 ++ h2) ->
    (forall m, In m (archive h1) -> covered (archive (h1 ++ h2)) m) /\
    pairwise_nd T cmp (archive (h1 ++ h2)).
  Proof.
    intro H. split; [|now apply (archive_pairwise T cmp P)].
    pose proof H as H'. apply Forall_app in H'. destruct H' as [H1 H2].
    intros m Hm. unfold Archive.archive. rewrite fold_left_app.
    assert (Pa : Forall P (archive h1)).
    { rewrite (archive_char T cmp P cmp_range cmp_antisym dom_trans dom_irrefl h1 H1). now apply Forall_filter. }
    apply fold_add_covered; auto; [|now left].
    rewrite Forall_forall in Pa. now apply Pa.
  Qed.

  (* the same for histories over the five entry points (add, append, extend, += list, += solution) *)
  Corollary history_monotone ops1 ops2 : Forall P (offered T (ops1 ++ ops2)) ->
    (forall m, In m (run_ops T cmp ops1 []) -> covered (run_ops T cmp (ops1 ++ ops2) []) m) /\
    pairwise_nd T cmp (run_ops T cmp (ops1 ++ ops2) []).
  Proof.
    intro H. rewrite !(run_ops_archive T cmp). unfold offered in *. rewrite flat_map_app in *.
    now apply archive_monotone.
  Qed.
End ArchiveMonotone.

(* ---- epsilon archives ---- *)
Lemma add_contents_keeps_or_dominates c a s m : Forall (wf_sol c) a -> wf_sol c s -> In m a ->
  In m (add_contents c a s) \/ (edom c s m /\ In s (add_contents c a s)).
Proof.
  intros Wa Ws Hm. unfold add_contents. destruct (rejects c a s) eqn:R; [now left|].
  rewrite Forall_forall in Wa.
  destruct (cmp_spec_range c s m) as [H|[H|H]].
  - right. split; [now apply (cmp_spec_first c s m Ws (Wa m Hm))|]. apply in_or_app. right. now left.
  - left. apply in_or_app. left. apply filter_In. split; [exact Hm|]. now rewrite H.
  - exfalso. exact (accepted_no_one c a s m R Hm H).
Qed.

Definition ecovered (c : ecfg) (a : list esol) (m : esol) : Prop :=
  In m a \/ exists m', In m' a /\ edom c m' m.

Lemma eps_run_from_covered c : wf_cfg c -> forall l a imp m,
  Forall (wf_sol c) a -> Forall (wf_sol c) l -> wf_sol c m -> ecovered c a m ->
  exists a' imp', eps_box_run_from c (a, imp) l = Some (a', imp') /\ Forall (wf_sol c) a' /\ ecovered c a' m.
Proof.
  intros Wc. induction l as [|s l IH]; intros a imp m Wa Wl Wm Hc.
  - exists a, imp. auto.
  - inversion Wl as [|? ? Ws Wl']; subst. cbn [eps_box_run_from].
    rewrite (eps_box_add_total c a imp s Wc Wa Ws).
    apply IH; auto; [now apply add_contents_wf|].
    pose proof Wa as Wa'. rewrite Forall_forall in Wa'.
    destruct Hc as [Hin|[m' [Hin D]]].
    + destruct (add_contents_keeps_or_dominates c a s m Wa Ws Hin) as [H|[H1 H2]]; [now left|].
      right. exists s. auto.
    + destruct (add_contents_keeps_or_dominates c a s m' Wa Ws Hin) as [H|[H1 H2]].
      * right. exists m'. auto.
      * right. exists s. split; [exact H2|]. apply (edom_trans c s m' m); auto.
Qed.

Lemma eps_box_run_from_app c : forall l1 l2 st,
  eps_box_run_from c st (l1 ++ l2) =
  match eps_box_run_from c st l1 with Some st' => eps_box_run_from c st' l2 | None => None end.
Proof.
  induction l1 as [|s l1 IH]; intros l2 st; [reflexivity|].
  cbn [app eps_box_run_from]. destruct (eps_box_add c st s) as [[st' b]|]; [apply IH|reflexivity].
Qed.

(* EpsilonBoxArchive: every member of the archive after h1 is a member after h1 ++ h2 or is
   epsilon-dominated by one; the members after any history do not epsilon-dominate one another *)
Theorem eps_archive_monotone c h1 h2 : wf_cfg c -> Forall (wf_sol c) (h1 ++ h2) ->
  exists a1 i1 a2 i2,
    eps_box_run c h1 = Some (a1, i1) /\ eps_box_run c (h1 ++ h2) = Some (a2, i2) /\
    (forall m, In m a1 -> ecovered c a2 m) /\
    (forall m m', In m a2 -> In m' a2 -> ~ edom c m m').
Proof.
  intros Wc W. pose proof W as W'. apply Forall_app in W'. destruct W' as [W1 W2].
  destruct (eps_box_run_inv c h1 Wc W1) as [a1 [i1 [E1 I1]]].
  destruct (eps_box_run_inv c (h1 ++ h2) Wc W) as [a2 [i2 [E2 I2]]].
  exists a1, i1, a2, i2. split; [exact E1|]. split; [exact E2|]. split.
  - intros m Hm.
    assert (Wa1 : Forall (wf_sol c) a1).
    { rewrite Forall_forall in *. intros x Hx. apply W1. now apply (ei_members_offered c h1 a1 i1 I1). }
    assert (Wm : wf_sol c m) by (rewrite Forall_forall in Wa1; now apply Wa1).
    destruct (eps_run_from_covered c Wc h2 a1 i1 m Wa1 W2 Wm (or_introl Hm)) as [a' [i' [E' [_ Hc]]]].
    unfold eps_box_run in E2. rewrite eps_box_run_from_app in E2. fold (eps_box_run c h1) in E2.
    rewrite E1, E' in E2. injection E2 as <- <-. exact Hc.
  - intros m m' Hm Hm'. apply (ei_members_nondominated c _ a2 i2 I2); [|exact Hm'].
    now apply (ei_members_offered c _ a2 i2 I2).
Qed.

(* Archive(EpsilonDominance(eps)) (OMOPSO, CMAES) holds the same contents, so the same is true of it *)
Corollary eps_plain_archive_monotone c h1 h2 : wf_cfg c -> Forall (wf_sol c) (h1 ++ h2) ->
  exists a1 a2,
    eps_plain_run c h1 = Some a1 /\ eps_plain_run c (h1 ++ h2) = Some a2 /\
    (forall m, In m a1 -> ecovered c a2 m) /\
    (forall m m', In m a2 -> In m' a2 -> ~ edom c m m').
Proof.
  intros Wc W. pose proof W as W'. apply Forall_app in W'. destruct W' as [W1 _].
  destruct (eps_archive_monotone c h1 h2 Wc W) as [a1 [i1 [a2 [i2 [E1 [E2 [A B]]]]]]].
  exists a1, a2. rewrite (eps_plain_run_eq c h1 Wc W1), (eps_plain_run_eq c _ Wc W), E1, E2. auto.
Qed.

(* "epsilon-dominates" is what the archive's comparator answers -1 for *)
Lemma edom_is_compare c a b : wf_cfg c -> wf_sol c a -> wf_sol c b ->
  (edom c a b <-> eps_compare c a b = Some (-1)%Z).
Proof. intros Wc Wa Wb. symmetry. now apply eps_compare_first_iff. Qed.

(* the archive updates of the algorithm models are these histories *)
Fixpoint esols_of (l : list xsol) : option (list esol) :=
  match l with
  | [] => Some []
  | x :: r => match esol_of x, esols_of r with Some e, Some es => Some (e :: es) | _, _ => None end
  end.

Lemma eps_offer_is_run cfg : forall l es st, esols_of l = Some es -> eps_offer cfg st l = eps_box_run_from cfg st es.
Proof.
  induction l as [|x l IH]; intros es st H; simpl in H.
  - injection H as <-. reflexivity.
  - destruct (esol_of x) as [e|] eqn:E; [|discriminate].
    destruct (esols_of l) as [es'|] eqn:E'; [|discriminate]. injection H as <-.
    cbn [eps_offer eps_box_run_from]. rewrite E. destruct (eps_box_add cfg st e) as [[st' b]|]; [|reflexivity].
    now apply IH.
Qed.

Lemma plain_offer_is_run cfg : forall l es a, esols_of l = Some es -> plain_offer cfg a l = eps_plain_run_from cfg a es.
Proof.
  induction l as [|x l IH]; intros es a H; simpl in H.
  - injection H as <-. reflexivity.
  - destruct (esol_of x) as [e|] eqn:E; [|discriminate].
    destruct (esols_of l) as [es'|] eqn:E'; [|discriminate]. injection H as <-.
    cbn [plain_offer eps_plain_run_from]. rewrite E. destruct (eps_plain_add cfg a e) as [[a' b]|]; [|reflexivity].
    now apply IH.
Qed.

(* ------------------------------------------------------------------------- *)
(* Part H : GA / ES — the best held never gets worse                          *)
(* ------------------------------------------------------------------------- *)
Section SingleObjectiveProofs.
  Variable T : Type.
  Variable cmp : T -> T -> Z.
  Variable P : T -> Prop.
  Notation lt := (cmp_key_lt cmp).       (* "a sorts strictly before b": compare(a, b) < 0 *)
  Hypothesis lt_irrefl : forall x, P x -> lt x x = false.
  Hypothesis lt_trans : forall x y z, P x -> P y -> P z -> lt x y = true -> lt y z = true -> lt x z = true.
  Hypothesis lt_cotrans : forall x y z, P x -> P y -> P z -> lt x y = true -> lt x z = true \/ lt z y = true.

  (* the first element of sorted(l) is not beaten by any member of l *)
  Lemma sorted_head_min : forall l h r, Forall P l -> sort_cmp cmp l = h :: r ->
    forall y, In y l -> lt y h = false.
  Proof.
    unfold sort_cmp. induction l as [|a l IH]; intros h r HP Hs y Hy; [contradiction|].
    inversion HP as [|? ? Pa Pl]; subst. rewrite Forall_forall in Pl.
    change (ssort lt (a :: l)) with (insert lt a (ssort lt l)) in Hs.
    destruct (ssort lt l) as [|h0 r0] eqn:E.
    - assert (l = []).
      { apply length_zero_iff_nil. rewrite <- (ssort_length _ lt l), E. reflexivity. }
      subst l. simpl in Hs. injection Hs as <- <-. destruct Hy as [<-|[]]. now apply lt_irrefl.
    - assert (Ph0 : P h0). { apply Pl. apply (ssort_In _ lt l h0). rewrite E. now left. }
      assert (IH' : forall y, In y l -> lt y h0 = false).
      { intros y' Hy'. apply (IH h0 r0); auto. now apply Forall_forall. }
      simpl in Hs. destruct (lt h0 a) eqn:L.
      + injection Hs as <- <-. destruct Hy as [<-|Hy]; [|now apply IH'].
        destruct (lt a h0) eqn:L2; [|reflexivity].
        pose proof (lt_trans h0 a h0 Ph0 Pa Ph0 L L2) as C. rewrite (lt_irrefl h0 Ph0) in C. discriminate.
      + injection Hs as <- <-. destruct Hy as [<-|Hy]; [now apply lt_irrefl|].
        destruct (lt y a) eqn:L2; [|reflexivity].
        destruct (lt_cotrans y a h0 (Pl y Hy) Pa Ph0 L2) as [C|C]; [|congruence].
        rewrite (IH' y Hy) in C. discriminate.
  Qed.

  Lemma firstn_head {A} n (l : list A) h r : firstn n l = h :: r -> exists r', l = h :: r'.
  Proof. destruct n, l; simpl; intro H; try discriminate. injection H as <- _. eauto. Qed.

  (* GA: the new fittest is a member of offspring + [old fittest] that none of them beats -- in particular the
     old fittest does not beat it -- and it heads the new population *)
  Theorem ga_best_monotone offspring fittest n pop f' :
    Forall P (offspring ++ [fittest]) -> ga_iterate cmp offspring fittest n = Some (pop, f') ->
    lt fittest f' = false /\ (forall y, In y offspring -> lt y f' = false) /\
    (forall y, In y pop -> lt y f' = false) /\ In f' pop /\ In f' (offspring ++ [fittest]) /\ length pop <= n.
  Proof.
    intros HP H. unfold ga_iterate in H.
    destruct (firstn n (sort_cmp cmp (offspring ++ [fittest]))) as [|f pop'] eqn:E; [discriminate|].
    injection H as <- <-.
    destruct (firstn_head _ _ _ _ E) as [r' Hs].
    pose proof (sorted_head_min _ _ _ HP Hs) as Hmin.
    assert (Hsub : forall y, In y (f :: pop') -> In y (offspring ++ [fittest])).
    { intros y Hy. apply (ssort_In _ lt). fold (sort_cmp cmp (offspring ++ [fittest])).
      rewrite <- (firstn_skipn n). apply in_or_app. left. now rewrite E. }
    split; [apply Hmin; apply in_or_app; right; now left|].
    split; [intros y Hy; apply Hmin; apply in_or_app; now left|].
    split; [intros y Hy; apply Hmin; now apply Hsub|].
    split; [now left|]. split; [apply Hsub; now left|].
    rewrite <- E. apply firstn_le_length.
  Qed.

  (* ES: the head of the new population is beaten by no parent and no offspring; so whatever member of the old
     population was its best, the new best is not worse *)
  Theorem es_best_monotone offspring population n h r :
    Forall P (offspring ++ population) -> es_iterate cmp offspring population n = h :: r ->
    (forall p, In p population -> lt p h = false) /\ (forall y, In y offspring -> lt y h = false) /\
    (forall y, In y (h :: r) -> lt y h = false) /\ In h (offspring ++ population).
  Proof.
    intros HP E. unfold es_iterate in E.
    destruct (firstn_head _ _ _ _ E) as [r' Hs].
    pose proof (sorted_head_min _ _ _ HP Hs) as Hmin.
    assert (Hsub : forall y, In y (h :: r) -> In y (offspring ++ population)).
    { intros y Hy. apply (ssort_In _ lt). fold (sort_cmp cmp (offspring ++ population)).
      rewrite <- (firstn_skipn n). apply in_or_app. left. now rewrite E. }
    split; [intros p Hp; apply Hmin; apply in_or_app; now right|].
    split; [intros y Hy; apply Hmin; apply in_or_app; now left|].
    split; [intros y Hy; apply Hmin; now apply Hsub|]. apply Hsub. now left.
  Qed.

  (* a non-empty population survives whenever n >= 1 and there is anything to choose from *)
  Lemma es_nonempty offspring population n : 1 <= n -> offspring ++ population <> [] ->
    exists h r, es_iterate cmp offspring population n = h :: r.
  Proof.
    intros Hn Hne. unfold es_iterate, sort_cmp.
    destruct (ssort lt (offspring ++ population)) as [|h r] eqn:E.
    - exfalso. apply Hne. apply length_zero_iff_nil. rewrite <- (ssort_length _ lt), E. reflexivity.
    - destruct n; [lia|]. simpl. eauto.
  Qed.
End SingleObjectiveProofs.

(* the comparator of GA / ES on a single-objective problem satisfies the three laws (a total preorder:
   constraint violation first, then the objective in its direction) *)
Section SingleObjectivePareto.
  Variable V : Type.
  Variable ltb : V -> V -> bool.
  Variable neg : V -> V.
  Variable zero : V.
  Hypothesis L : OrdLaws V ltb neg.
  Variable c : bool.
  Variable mx : bool.
  Notation scmp := (sol_cmp V ltb neg zero c [mx]).
  Notation wfs := (sol_wf V ltb zero [mx]).
  Notation lt := (cmp_key_lt scmp).

  Lemma so_lt_better x y : wfs x -> wfs y -> lt x y = better V ltb neg c [mx] (dsol_of x) (dsol_of y).
  Proof.
    intros Wx Wy. unfold cmp_key_lt, sol_cmp. rewrite (compare_spec V ltb neg zero L c [mx] _ _ Wx Wy).
    destruct (better V ltb neg c [mx] (dsol_of x) (dsol_of y)); [reflexivity|].
    destruct (better V ltb neg c [mx] (dsol_of y) (dsol_of x)); reflexivity.
  Qed.

  Lemma so_irrefl x : wfs x -> lt x x = false.
  Proof.
    intro W. unfold cmp_key_lt, sol_cmp. now rewrite (compare_irrefl V ltb neg zero L c [mx] _ W).
  Qed.

  Lemma so_trans x y z : wfs x -> wfs y -> wfs z -> lt x y = true -> lt y z = true -> lt x z = true.
  Proof.
    intros Wx Wy Wz. rewrite !so_lt_better by assumption.
    apply (better_trans V ltb neg zero L c [mx]); assumption.
  Qed.

  (* with ONE objective the order is total up to ties: if x sorts before y, any z sorts after x or before y *)
  Lemma so_cotrans x y z : wfs x -> wfs y -> wfs z -> lt x y = true -> lt x z = true \/ lt z y = true.
  Proof.
    intros Wx Wy Wz. rewrite !so_lt_better by assumption.
    destruct Wx as [Lx _], Wy as [Ly _], Wz as [Lz _].
    unfold better, pdom, dsol_of in *. cbn [d_objs d_cv] in *.
    destruct (s_objs x) as [|a [|]]; try discriminate.
    destruct (s_objs y) as [|b [|]]; try discriminate.
    destruct (s_objs z) as [|d [|]]; try discriminate.
    cbn [all_le some_lt]. rewrite !andb_true_r, !orb_false_r.
    set (a' := adj V neg mx a). set (b' := adj V neg mx b). set (d' := adj V neg mx d).
    set (cx := s_cv x). set (cy := s_cv y). set (cz := s_cv z).
    assert (OBJ : ltb a' b' = true -> negb (ltb d' a') && ltb a' d' = true \/ negb (ltb b' d') && ltb d' b' = true).
    { intro H. destruct (ol_cotrans _ _ _ L _ _ d' H) as [C|C].
      - left. now rewrite C, (ltb_asym L _ _ C).
      - right. now rewrite C, (ltb_asym L _ _ C). }
    destruct c; cbn [negb andb orb].
    - rewrite !orb_true_iff, !andb_true_iff. intros [H|[E [_ H]]].
      + destruct (ol_cotrans _ _ _ L _ _ cz H) as [C|C]; [left; now left|right; now left].
      + unfold veq in E. apply andb_true_iff in E. destruct E as [E1 E2]. apply negb_true_iff in E1, E2.
        destruct (ltb cx cz) eqn:A; [left; now left|].
        destruct (ltb cz cx) eqn:B.
        * right. left. destruct (ol_cotrans _ _ _ L _ _ cy B) as [C|C]; [exact C|congruence].
        * (* cz ~ cx ~ cy *)
          assert (A' : ltb cz cy = false).
          { destruct (ltb cz cy) eqn:C; [|reflexivity]. destruct (ol_cotrans _ _ _ L _ _ cx C); congruence. }
          assert (B' : ltb cy cz = false).
          { destruct (ltb cy cz) eqn:C; [|reflexivity]. destruct (ol_cotrans _ _ _ L _ _ cx C); congruence. }
          destruct (OBJ H) as [G|G]; apply andb_true_iff in G; destruct G as [G1 G2].
          -- left. right. unfold veq. rewrite A, B, G1, G2. auto.
          -- right. right. unfold veq. rewrite A', B', G1, G2. auto.
    - intro H. apply andb_true_iff in H. destruct H as [_ H].
      destruct (OBJ H) as [G|G]; rewrite G; auto.
  Qed.
End SingleObjectivePareto.

(* ---- GA / ES over any number of generations ---- *)
Section SingleObjectiveRuns.
  Variable T : Type.
  Variable cmp : T -> T -> Z.
  Variable P : T -> Prop.
  Notation lt := (cmp_key_lt cmp).
  Hypothesis lt_irrefl : forall x, P x -> lt x x = false.
  Hypothesis lt_trans : forall x y z, P x -> P y -> P z -> lt x y = true -> lt y z = true -> lt x z = true.
  Hypothesis lt_cotrans : forall x y z, P x -> P y -> P z -> lt x y = true -> lt x z = true \/ lt z y = true.

  (* "b does not beat a" composes *)
  Lemma not_beaten_trans x y z : P x -> P y -> P z -> lt x y = false -> lt y z = false -> lt x z = false.
  Proof.
    intros Px Py Pz A B. destruct (lt x z) eqn:C; [|reflexivity].
    destruct (lt_cotrans x z y Px Pz Py C); congruence.
  Qed.

  (* GA: generations = the evaluated offspring batches, one per iterate() *)
  Fixpoint ga_run (gens : list (list T)) (st : list T * T) (n : nat) : option (list T * T) :=
    match gens with
    | [] => Some st
    | off :: rest => match ga_iterate cmp off (snd st) n with
                     | None => None
                     | Some st' => ga_run rest st' n
                     end
    end.

  Theorem ga_run_best_monotone : forall gens pop f n pop' f',
    P f -> Forall (Forall P) gens -> ga_run gens (pop, f) n = Some (pop', f') ->
    P f' /\ lt f f' = false.
  Proof.
    induction gens as [|off rest IH]; intros pop f n pop' f' Pf Pg H; simpl in H.
    - injection H as <- <-. split; [exact Pf|now apply lt_irrefl].
    - inversion Pg as [|? ? Po Pr]; subst.
      destruct (ga_iterate cmp off f n) as [[pop1 f1]|] eqn:E; [|discriminate].
      assert (HP : Forall P (off ++ [f])) by (apply Forall_app; split; [exact Po|now constructor]).
      destruct (ga_best_monotone T cmp P lt_irrefl lt_trans lt_cotrans off f n pop1 f1 HP E) as [A [_ [_ [_ [B _]]]]].
      assert (Pf1 : P f1) by (rewrite Forall_forall in HP; now apply HP).
      destruct (IH pop1 f1 n pop' f' Pf1 Pr H) as [Pf' C].
      split; [exact Pf'|]. now apply (not_beaten_trans f f1 f').
  Qed.

  (* ES *)
  Fixpoint es_run (gens : list (list T)) (pop : list T) (n : nat) : list T :=
    match gens with
    | [] => pop
    | off :: rest => es_run rest (es_iterate cmp off pop n) n
    end.

  (* [b] is a best member of [l]: a member no member beats *)
  Definition is_best (l : list T) (b : T) : Prop := In b l /\ forall y, In y l -> lt y b = false.

  Theorem es_run_best_monotone : forall gens pop n b,
    1 <= n -> Forall P pop -> Forall (Forall P) gens -> is_best pop b ->
    exists b', is_best (es_run gens pop n) b' /\ P b' /\ lt b b' = false /\ Forall P (es_run gens pop n).
  Proof.
    induction gens as [|off rest IH]; intros pop n b Hn Pp Pg [Hb Hbest]; simpl.
    - exists b. pose proof Pp as Pp'. rewrite Forall_forall in Pp'.
      split; [split; assumption|]. split; [now apply Pp'|]. split; [|exact Pp].
      apply lt_irrefl. now apply Pp'.
    - inversion Pg as [|? ? Po Pr]; subst.
      assert (HP : Forall P (off ++ pop)) by (apply Forall_app; now split).
      destruct (es_nonempty T cmp off pop n Hn) as [h [r E]].
      { intro C. apply app_eq_nil in C. destruct C as [_ ->]. contradiction. }
      destruct (es_best_monotone T cmp P lt_irrefl lt_trans lt_cotrans off pop n h r HP E) as [A [_ [B D]]].
      assert (Pnew : Forall P (es_iterate cmp off pop n)).
      { rewrite Forall_forall in *. intros y Hy. apply HP. unfold es_iterate in Hy.
        apply (ssort_In _ lt). fold (sort_cmp cmp (off ++ pop)).
        rewrite <- (firstn_skipn n). apply in_or_app. now left. }
      destruct (IH (es_iterate cmp off pop n) n h Hn Pnew Pr) as [b' [Hb' [Pb' [C F]]]].
      { rewrite E. split; [now left|exact B]. }
      exists b'. split; [exact Hb'|]. split; [exact Pb'|]. split; [|exact F].
      rewrite Forall_forall in HP, Pp.
      apply (not_beaten_trans b h b'); auto.
  Qed.
End SingleObjectiveRuns.

(* ------------------------------------------------------------------------- *)
(* the executable instance (what the correspondence check runs)               *)
(* ------------------------------------------------------------------------- *)
Theorem x_spea2_elitist c dirs k (offspring population : list xsol) n surv :
  Forall (sol_wf xq xltb xzero dirs) (offspring ++ population) ->
  x_spea2_survive c dirs k offspring population n = Ok surv ->
  length surv = min n (length (offspring ++ population)) /\
  (exists dropped, Permutation (surv ++ dropped) (offspring ++ population)) /\
  (length (F0 (x_sol_cmp c dirs) (offspring ++ population)) <= n ->
     incl (F0 (x_sol_cmp c dirs) (offspring ++ population)) surv) /\
  (n < length (F0 (x_sol_cmp c dirs) (offspring ++ population)) ->
     incl surv (F0 (x_sol_cmp c dirs) (offspring ++ population))).
Proof.
  apply (spea2_elitist xsol (x_sol_cmp c dirs) (sol_wf xq xltb xzero dirs) x_dist2
           (scmp_range xq xltb xneg xzero xq_laws c dirs) (scmp_antisym xq xltb xneg xzero xq_laws c dirs)
           (sdom_irrefl xq xltb xneg xzero xq_laws c dirs)).
Qed.

Theorem x_ga_best_monotone c mx (offspring : list xsol) fittest n pop f' :
  Forall (sol_wf xq xltb xzero [mx]) (offspring ++ [fittest]) ->
  x_ga_iterate c [mx] offspring fittest n = Some (pop, f') ->
  (x_sol_cmp c [mx] fittest f' <? 0)%Z = false /\
  (forall y, In y pop -> (x_sol_cmp c [mx] y f' <? 0)%Z = false) /\ In f' pop /\ In f' (offspring ++ [fittest]).
Proof.
  intros HP H.
  destruct (ga_best_monotone xsol (x_sol_cmp c [mx]) (sol_wf xq xltb xzero [mx])
              (so_irrefl xq xltb xneg xzero xq_laws c mx) (so_trans xq xltb xneg xzero xq_laws c mx)
              (so_cotrans xq xltb xneg xzero xq_laws c mx) offspring fittest n pop f' HP H) as [A [_ [B [C [D _]]]]].
  auto.
Qed.

Theorem x_es_best_monotone c mx (offspring population : list xsol) n h r :
  Forall (sol_wf xq xltb xzero [mx]) (offspring ++ population) ->
  x_es_iterate c [mx] offspring population n = h :: r ->
  (forall p, In p population -> (x_sol_cmp c [mx] p h <? 0)%Z = false) /\
  (forall y, In y (h :: r) -> (x_sol_cmp c [mx] y h <? 0)%Z = false).
Proof.
  intros HP H.
  destruct (es_best_monotone xsol (x_sol_cmp c [mx]) (sol_wf xq xltb xzero [mx])
              (so_irrefl xq xltb xneg xzero xq_laws c mx) (so_trans xq xltb xneg xzero xq_laws c mx)
              (so_cotrans xq xltb xneg xzero xq_laws c mx) offspring population n h r HP H) as [A [_ [B _]]].
  auto.
Qed.

(* ------------------------------------------------------------------------- *)
(* Part I : non-vacuity                                                       *)
(* ------------------------------------------------------------------------- *)
(* two minimised objectives; front of the merged population = (1,5), (3,3), (5,1) *)
Definition ex9_off : list xsol := [ex_s 0 1 5; ex_s 1 3 3; ex_s 2 4 4].
Definition ex9_pop : list xsol := [ex_s 3 5 1; ex_s 4 2 6; ex_s 5 6 6].

Example ex9_wf : Forall (sol_wf xq xltb xzero [false; false]) (ex9_off ++ ex9_pop).
Proof. repeat constructor. Qed.

Example ex9_nodup : NoDup (map sid (ex9_off ++ ex9_pop)).
Proof. simpl. repeat (constructor; [simpl; intuition discriminate|]). constructor. Qed.

Example ex9_front : map sid (F0 (x_sol_cmp false [false; false]) (ex9_off ++ ex9_pop)) = [0; 1; 3].
Proof. vm_compute. reflexivity. Qed.

(* NSGA-II: the front (3 members) fits into n = 3 and is kept whole; with n = 2 only front members survive *)
Example ex9_nsga2 :
  option_map (map sid) (nsga2_survive false [false; false] ex9_off ex9_pop 3) = Some [0; 3; 1] /\
  option_map (map sid) (nsga2_survive false [false; false] ex9_off ex9_pop 2) = Some [0; 3] /\
  option_map (map sid) (nsga2_survive false [false; false] ex9_off ex9_pop 4) = Some [0; 3; 1; 2].
Proof. repeat split; vm_compute; reflexivity. Qed.

(* GDE3: pairs (0,3) and (1,4) and (2,5): (1,5)|(5,1) both kept, (3,3)|(2,6) both kept, (4,4) beats (6,6) *)
Example ex9_gde3 :
  option_map (map sid) (gde3_survival false [false; false] ex9_off ex9_pop 3) = Some [0; 3; 1].
Proof. vm_compute. reflexivity. Qed.

Example ex9_gde3_lengths : length ex9_off = 3 /\ length ex9_pop = 3.
Proof. split; reflexivity. Qed.

(* NSGA-III with n = 4: front 0 (3 members) is kept, one of front 1 = {(4,4), (2,6)} is picked; any other
   pick sequence is rejected *)
Example ex9_nsga3 :
  option_map (map sid) (nsga3_survive false [false; false] ex9_off ex9_pop 4 [4]) = Some [0; 1; 3; 4] /\
  option_map (map sid) (nsga3_survive false [false; false] ex9_off ex9_pop 4 [2]) = Some [0; 1; 3; 2] /\
  nsga3_survive false [false; false] ex9_off ex9_pop 4 [5] = None /\
  nsga3_survive false [false; false] ex9_off ex9_pop 4 [4; 2] = None /\
  option_map (map sid) (nsga3_survive false [false; false] ex9_off ex9_pop 2 [3; 0]) = Some [3; 0].
Proof. repeat split; vm_compute; reflexivity. Qed.

(* SPEA2 (k = 1): fill branch (n = 4: the front plus the best remaining by fitness) and thinning branch (n = 2) *)
Example ex9_spea2 :
  x_spea2_survive false [false; false] 1 ex9_off ex9_pop 4 = Ok [ex_s 0 1 5; ex_s 1 3 3; ex_s 3 5 1; ex_s 2 4 4] /\
  x_spea2_survive false [false; false] 1 ex9_off ex9_pop 2 = Ok [ex_s 0 1 5; ex_s 3 5 1] /\
  x_spea2_survive false [false; false] 1 ex9_off ex9_pop 3 = Ok [ex_s 0 1 5; ex_s 1 3 3; ex_s 3 5 1].
Proof. repeat split; vm_compute; reflexivity. Qed.

(* raw fitness: (4,4) is dominated by (3,3) (strength 2: it dominates (4,4) and (6,6)) *)
Example ex9_raws : raws (x_sol_cmp false [false; false]) (ex9_off ++ ex9_pop) = [0; 0; 2; 0; 2; 7].
Proof. vm_compute. reflexivity. Qed.

(* archives: Pareto *)
Example ex9_archive_monotone :
  map sid (x_archive false [false; false] [ex_s 2 4 4; ex_s 4 2 6]) = [2; 4] /\
  map sid (x_archive false [false; false] ([ex_s 2 4 4; ex_s 4 2 6] ++ [ex_s 1 3 3; ex_s 0 1 5])) = [1; 0].
Proof. split; vm_compute; reflexivity. Qed.

(* archives: epsilon boxes of width 2 — (4,4) [box (2,2)] is evicted by (3,3) [box (1,1)] *)
Definition ex9_cfg : ecfg := ECfg [2#1] [false; false] false.
Definition ex9_e (i : nat) (a b : Z) : esol := ESol i [inject_Z a; inject_Z b] 0.

Example ex9_eps_wf : wf_cfg ex9_cfg /\ Forall (wf_sol ex9_cfg) ([ex9_e 2 4 4; ex9_e 4 2 6] ++ [ex9_e 1 3 3; ex9_e 0 1 5]).
Proof.
  split; [split; [discriminate|repeat constructor]|].
  repeat constructor; apply Qle_refl.
Qed.

Example ex9_eps_archive :
  option_map (fun st => map e_sid (fst st)) (eps_box_run ex9_cfg [ex9_e 2 4 4; ex9_e 4 2 6]) = Some [2; 4] /\
  option_map (fun st => map e_sid (fst st)) (eps_box_run ex9_cfg ([ex9_e 2 4 4; ex9_e 4 2 6] ++ [ex9_e 1 3 3; ex9_e 0 1 5]))
    = Some [1; 0].
Proof. split; vm_compute; reflexivity. Qed.

(* GA / ES on one minimised objective with a constraint: violation first, then the objective *)
Definition ex9_so (i : nat) (o : Z) (v : Z) : xsol := Build_sol i [FZ o] (FZ v).

Example ex9_so_wf : Forall (sol_wf xq xltb xzero [false]) [ex9_so 0 5 0; ex9_so 1 1 2; ex9_so 2 7 0; ex9_so 3 4 0].
Proof. repeat constructor. Qed.

Example ex9_ga :
  option_map (fun r => (map sid (fst r), sid (snd r)))
    (x_ga_iterate true [false] [ex9_so 0 5 0; ex9_so 1 1 2; ex9_so 2 7 0] (ex9_so 3 4 0) 2) = Some ([3; 0], 3).
Proof. vm_compute. reflexivity. Qed.

Example ex9_es :
  map sid (x_es_iterate true [false] [ex9_so 1 1 2; ex9_so 2 7 0] [ex9_so 0 5 0; ex9_so 3 4 0] 2) = [3; 0].
Proof. vm_compute. reflexivity. Qed.

(* ------------------------------------------------------------------------- *)
(* eps-NSGA-II and NSGA-II with an archive: NSGA-II's step + the archive fold  *)
(* ------------------------------------------------------------------------- *)
Theorem epsnsga2_elitist cfg (offspring population : list xsol) n st pop' st' :
  Forall (sol_wf xq xltb xzero (e_dirs cfg)) (offspring ++ population) -> NoDup (map sid (offspring ++ population)) ->
  nsga2_iterate_eps cfg offspring population n st = Some (pop', st') ->
  (length pop' = min n (length (offspring ++ population)) /\ NoDup pop' /\ incl pop' (offspring ++ population) /\
   (length (F0 (x_sol_cmp (e_con cfg) (e_dirs cfg)) (offspring ++ population)) <= n ->
      incl (F0 (x_sol_cmp (e_con cfg) (e_dirs cfg)) (offspring ++ population)) pop') /\
   (n < length (F0 (x_sol_cmp (e_con cfg) (e_dirs cfg)) (offspring ++ population)) ->
      incl pop' (F0 (x_sol_cmp (e_con cfg) (e_dirs cfg)) (offspring ++ population)))) /\
  eps_offer cfg st pop' = Some st'.
Proof.
  intros Hwf Hnd H. unfold nsga2_iterate_eps in H.
  destruct (nsga2_survive (e_con cfg) (e_dirs cfg) offspring population n) as [p|] eqn:E; [|discriminate].
  destruct (eps_offer cfg st p) as [s|] eqn:E2; [|discriminate]. injection H as <- <-.
  split; [|exact E2]. exact (nsga2_elitist _ _ _ _ _ _ Hwf Hnd E).
Qed.

Theorem nsga2_archive_elitist c dirs (offspring population : list xsol) n arch pop' arch' :
  Forall (sol_wf xq xltb xzero dirs) (offspring ++ population) -> NoDup (map sid (offspring ++ population)) ->
  nsga2_iterate_pareto c dirs offspring population n arch = Some (pop', arch') ->
  (length pop' = min n (length (offspring ++ population)) /\ NoDup pop' /\ incl pop' (offspring ++ population) /\
   (length (F0 (x_sol_cmp c dirs) (offspring ++ population)) <= n ->
      incl (F0 (x_sol_cmp c dirs) (offspring ++ population)) pop') /\
   (n < length (F0 (x_sol_cmp c dirs) (offspring ++ population)) ->
      incl pop' (F0 (x_sol_cmp c dirs) (offspring ++ population)))) /\
  arch' = fold_left (fun a s => fst (add xsol (x_sol_cmp c dirs) a s)) pop' arch.
Proof.
  intros Hwf Hnd H. unfold nsga2_iterate_pareto in H.
  destruct (nsga2_survive c dirs offspring population n) as [p|] eqn:E; [|discriminate]. injection H as <- <-.
  split; [exact (nsga2_elitist _ _ _ _ _ _ Hwf Hnd E)|]. apply extend_fold.
Qed.

(* Pareto archives on any ordered carrier satisfy the contract of Part G *)
Section ParetoArchiveMonotone.
  Variable V : Type.
  Variable ltb : V -> V -> bool.
  Variable neg : V -> V.
  Variable zero : V.
  Hypothesis L : OrdLaws V ltb neg.
  Variable c : bool.
  Variable dirs : list bool.
  Notation S := (sol V).
  Notation scmp := (sol_cmp V ltb neg zero c dirs).
  Notation wfs := (sol_wf V ltb zero dirs).

  Theorem pareto_archive_monotone h1 h2 : Forall wfs (h1 ++ h2) ->
    (forall m, In m (archive S scmp h1) -> covered S scmp (archive S scmp (h1 ++ h2)) m) /\
    pairwise_nd S scmp (archive S scmp (h1 ++ h2)).
  Proof.
    apply (archive_monotone S scmp wfs (scmp_range V ltb neg zero L c dirs) (scmp_antisym V ltb neg zero L c dirs)
             (sdom_trans V ltb neg zero L c dirs) (sdom_irrefl V ltb neg zero L c dirs)).
  Qed.

  Theorem pareto_history_monotone ops1 ops2 : Forall wfs (offered S (ops1 ++ ops2)) ->
    (forall m, In m (run_ops S scmp ops1 []) -> covered S scmp (run_ops S scmp (ops1 ++ ops2) []) m) /\
    pairwise_nd S scmp (run_ops S scmp (ops1 ++ ops2) []).
  Proof.
    apply (history_monotone S scmp wfs (scmp_range V ltb neg zero L c dirs) (scmp_antisym V ltb neg zero L c dirs)
             (sdom_trans V ltb neg zero L c dirs) (sdom_irrefl V ltb neg zero L c dirs)).
  Qed.
End ParetoArchiveMonotone.

(* F0 is the content of a Pareto archive that was offered U (C03's characterisation) *)
Lemma front_is_archive c dirs (U : list xsol) : Forall (sol_wf xq xltb xzero dirs) U ->
  F0 (x_sol_cmp c dirs) U = x_archive c dirs U.
Proof.
  intro H. symmetry. exact (pareto_archive_char xq xltb xneg xzero xq_laws c dirs U H).
Qed.

(* ------------------------------------------------------------------------- *)
(* Part J : why SPEA2's fitness may be compared as the pair (raw, d_k^2)      *)
(* ------------------------------------------------------------------------- *)
(* In REAL arithmetic  fitness = raw + 1/(sqrt(d2) + 2)  with raw a natural number and d2 >= 0 the squared
   k-th nearest distance.  The density lies in (0, 1/2], so the integer part decides first and, at equal raw
   fitness, the LARGER distance gives the smaller fitness; fitness < 1 exactly when raw = 0.  (These three facts
   use the real-number axioms of the standard library; nothing else in this file does.) *)
From Coq Require Import Reals Lra Qreals.

Definition fitR (raw : nat) (d2 : R) : R := (INR raw + / (sqrt d2 + 2))%R.

Lemma density_bounds (d : R) : (0 <= d)%R -> (0 < / (sqrt d + 2) <= / 2)%R.
Proof.
  intro Hd. pose proof (sqrt_pos d) as Hs. split.
  - apply Rinv_0_lt_compat. lra.
  - apply Rinv_le_contravar; lra.
Qed.

Lemma INR_succ_le (a b : nat) : (a < b)%nat -> (INR a + 1 <= INR b)%R.
Proof. intro H. rewrite <- S_INR. apply le_INR. lia. Qed.

Theorem fitR_lt_iff r1 r2 d1 d2 : (0 <= d1)%R -> (0 <= d2)%R ->
  ((fitR r1 d1 < fitR r2 d2)%R <-> (r1 < r2)%nat \/ (r1 = r2 /\ (d2 < d1)%R)).
Proof.
  intros H1 H2. unfold fitR.
  destruct (density_bounds d1 H1) as [A1 B1]. destruct (density_bounds d2 H2) as [A2 B2].
  pose proof (sqrt_pos d1) as S1. pose proof (sqrt_pos d2) as S2.
  assert (Hhalf : (/ 2 < 1)%R) by lra.
  split.
  - intro H. destruct (Nat.lt_trichotomy r1 r2) as [L|[E|G]]; [now left| |].
    + right. split; [exact E|]. subst r2.
      assert (H' : (/ (sqrt d1 + 2) < / (sqrt d2 + 2))%R) by lra.
      apply sqrt_lt_0_alt.
      destruct (Rlt_le_dec (sqrt d2) (sqrt d1)) as [Hlt|Hle]; [exact Hlt|exfalso].
      assert (C : (/ (sqrt d2 + 2) <= / (sqrt d1 + 2))%R) by (apply Rinv_le_contravar; lra).
      lra.
    + exfalso. pose proof (INR_succ_le r2 r1 G). lra.
  - intros [L|[E L]].
    + pose proof (INR_succ_le r1 r2 L). lra.
    + subst r2. apply Rplus_lt_compat_l.
      apply Rinv_lt_contravar.
      * apply Rmult_lt_0_compat; lra.
      * apply Rplus_lt_compat_r. apply sqrt_lt_1_alt. lra.
Qed.

Theorem fitR_lt1_iff r d : (0 <= d)%R -> ((fitR r d < 1)%R <-> r = 0%nat).
Proof.
  intro Hd. unfold fitR. destruct (density_bounds d Hd) as [A B]. split.
  - intro H. destruct r as [|r]; [reflexivity|exfalso].
    rewrite S_INR in H. pose proof (pos_INR r). lra.
  - intros ->. simpl. lra.
Qed.

(* the model's comparisons are exactly these *)
Theorem fit_lt_is_real_order (a b : fit) : (0 <= f_dk2 a)%Q -> (0 <= f_dk2 b)%Q ->
  (fit_lt a b = true <-> (fitR (f_raw a) (Q2R (f_dk2 a)) < fitR (f_raw b) (Q2R (f_dk2 b)))%R).
Proof.
  intros Ha Hb.
  assert (Ra : (0 <= Q2R (f_dk2 a))%R) by (replace 0%R with (Q2R 0) by (unfold Q2R; simpl; lra); now apply Qle_Rle).
  assert (Rb : (0 <= Q2R (f_dk2 b))%R) by (replace 0%R with (Q2R 0) by (unfold Q2R; simpl; lra); now apply Qle_Rle).
  rewrite (fitR_lt_iff _ _ _ _ Ra Rb). unfold fit_lt.
  rewrite orb_true_iff, andb_true_iff, Nat.ltb_lt, Nat.eqb_eq, Qltb_lt.
  split; (intros [H|[E H]]; [now left|right; split; [exact E|]]).
  - now apply Qlt_Rlt.
  - now apply Rlt_Qlt.
Qed.

Theorem fit_lt1_is_real (a : fit) : (0 <= f_dk2 a)%Q ->
  (fit_lt1 a = true <-> (fitR (f_raw a) (Q2R (f_dk2 a)) < 1)%R).
Proof.
  intro Ha.
  assert (Ra : (0 <= Q2R (f_dk2 a))%R) by (replace 0%R with (Q2R 0) by (unfold Q2R; simpl; lra); now apply Qle_Rle).
  rewrite (fitR_lt1_iff _ _ Ra). unfold fit_lt1. apply Nat.eqb_eq.
Qed.

(* fitness is never exactly 1.0 in real arithmetic: "<= 1.0" would select the same members as "< 1.0" *)
Theorem fitR_le1_iff r d : (0 <= d)%R -> ((fitR r d <= 1)%R <-> r = 0%nat).
Proof.
  intro Hd. unfold fitR. destruct (density_bounds d Hd) as [A B]. split.
  - intro H. destruct r as [|r]; [reflexivity|exfalso].
    rewrite S_INR in H. pose proof (pos_INR r). lra.
  - intros ->. simpl. lra.
Qed.
