(* Proofs/ProblemsUF3.v — C18, part 8: the three-objective CEC-2009 problems UF8-10 and CF8-10 (every n >= 5):
   the loop over j = 3..n splits three ways on j mod 3 with accumulators (sum1, count1, sum2, count2, sum3, count3). *)
From Coq Require Import Reals List ZArith Lia Lra Bool.
Import ListNotations.
From PV Require Import Base.RList Gen.Problems Model.ProblemsRef Proofs.ProblemsProofs Proofs.ProblemsUF.
Open Scope R_scope.
Set Default Timeout 60.

Definition step3 (Y1 Y2 Y3 : Z -> R) (st : R * Z * R * Z * R * Z) (j : Z) : R * Z * R * Z * R * Z :=
  let '(s1, c1, s2, c2, s3, c3) := st in
  if (j mod 3 =? 1)%Z then (s1 + Y1 j, (c1 + 1)%Z, s2, c2, s3, c3)
  else if (j mod 3 =? 2)%Z then (s1, c1, s2 + Y2 j, (c2 + 1)%Z, s3, c3)
  else (s1, c1, s2, c2, s3 + Y3 j, (c3 + 1)%Z).
Definition psum3 (r : nat) (Y : Z -> R) (m : nat) : R :=
  big_sum (fun t => if Nat.eqb ((t + 3) mod 3) r then Y (3 + Z.of_nat t)%Z else 0) m.
Fixpoint pcnt3 (r : nat) (m : nat) : Z :=
  match m with O => 0%Z | S k => (pcnt3 r k + (if Nat.eqb ((k + 3) mod 3) r then 1 else 0))%Z end.

Lemma residue_shift : forall t (r : nat), ((3 + Z.of_nat t) mod 3 =? Z.of_nat r)%Z = Nat.eqb ((t + 3) mod 3) r.
Proof.
  intros t r. replace (3 + Z.of_nat t)%Z with (Z.of_nat (t + 3)) by lia.
  change 3%Z with (Z.of_nat 3). rewrite <- Nat2Z.inj_mod.
  destruct (Z.eqb_spec (Z.of_nat ((t + 3) mod 3)) (Z.of_nat r)); destruct (Nat.eqb_spec ((t + 3) mod 3) r); try reflexivity; lia.
Qed.

Lemma fold_step3 : forall Y1 Y2 Y3 m,
  fold_left (step3 Y1 Y2 Y3) (zrange 3 (3 + Z.of_nat m)) (0, 0%Z, 0, 0%Z, 0, 0%Z)
  = (psum3 1 Y1 m, pcnt3 1 m, psum3 2 Y2 m, pcnt3 2 m, psum3 0 Y3 m, pcnt3 0 m).
Proof.
  intros Y1 Y2 Y3 m. rewrite (zrange_from 3 (3 + Z.of_nat m) m) by lia.
  induction m as [|m IH]; [reflexivity|].
  rewrite seq_S, map_app, fold_left_app, IH. cbn [map fold_left Nat.add]. unfold step3.
  pose proof (residue_shift m 1) as R1. pose proof (residue_shift m 2) as R2. simpl (Z.of_nat _) in R1, R2.
  rewrite R1, R2. unfold psum3. cbn [big_sum pcnt3].
  pose proof (Nat.mod_upper_bound (m + 3) 3 ltac:(lia)) as B.
  destruct ((m + 3) mod 3) as [|[|[|r]]]; try lia; cbn [Nat.eqb]; repeat (f_equal; try ring).
Qed.

Lemma IZR_pcnt3 : forall r n, IZR (pcnt3 r (n - 2)) = cntK r n.
Proof.
  intros r n. unfold cntK. induction (n - 2)%nat as [|m IH]; [reflexivity|]. cbn [pcnt3 big_sum]. rewrite plus_IZR, IH.
  destruct (Nat.eqb ((m + 3) mod 3) r); reflexivity.
Qed.
Lemma psum3_sumK : forall r (Y : Z -> R) (y : nat -> R) n,
  (forall t, (t < n - 2)%nat -> Y (3 + Z.of_nat t)%Z = y (t + 3)%nat) -> psum3 r Y (n - 2) = sumK r y n.
Proof.
  intros r Y y n H. unfold psum3, sumK. apply big_sum_ext. intros t Ht.
  destruct (Nat.eqb ((t + 3) mod 3) r); [now apply H|reflexivity].
Qed.
Lemma cntK_pos : forall r n, (r < 3)%nat -> (5 <= n)%nat -> 1 <= cntK r n.
Proof.
  intros r n Hr Hn. unfold cntK. replace (n - 2)%nat with (3 + (n - 5))%nat by lia.
  assert (G : forall m, 1 <= big_sum (fun t => if Nat.eqb ((t + 3) mod 3) r then 1 else 0) (3 + m)).
  { induction m as [|m IH].
    - destruct r as [|[|[|r]]]; try lia; simpl; lra.
    - replace (3 + S m)%nat with (S (3 + m)) by lia. cbn [big_sum]. destruct (Nat.eqb ((3 + m + 3) mod 3) r); lra. }
  apply G.
Qed.

Ltac canon_loop3 :=
  match goal with
  | |- context [fold_left ?F ?L ?I] =>
      let Y1 := fresh "Y1" in let Y2 := fresh "Y2" in let Y3 := fresh "Y3" in
      evar (Y1 : Z -> R); evar (Y2 : Z -> R); evar (Y3 : Z -> R);
      let E := fresh "E" in
      assert (E : forall st j, F st j = step3 Y1 Y2 Y3 st j)
        by (intros [[[[[s1 c1] s2] c2] s3] c3] j; unfold step3, Y1, Y2, Y3; cbv beta iota zeta;
            destruct (j mod 3 =? 1)%Z; [reflexivity|destruct (j mod 3 =? 2)%Z; reflexivity]);
      rewrite (fold_left_ext_fun _ _ L I E); clear E
  end.

Section UF3obj.
  Variable n : nat.
  Variable x : list R.
  Hypothesis Hn : (5 <= n)%nat.
  Hypothesis Hl : length x = n.

  Ltac body3 t :=
    repeat rewrite (py_nth_eq x (3 + Z.of_nat t - 1)%Z (t + 2)) by lia;
    repeat rewrite (py_nth_eq x 0%Z 0) by reflexivity; repeat rewrite (py_nth_eq x 1%Z 1) by reflexivity;
    replace (3 + Z.of_nat t)%Z with (Z.of_nat (t + 3)) by lia;
    rewrite <- ?INR_IZR_INZ; rewrite ?Hl;
    replace (t + 3 - 1)%nat with (t + 2)%nat by lia.
  Ltac loop3 :=
    cbv zeta; canon_loop3;
    replace (Z.of_nat n + 1)%Z with (3 + Z.of_nat (n - 2))%Z by lia; rewrite fold_step3; cbv beta iota;
    rewrite !IZR_pcnt3.
  Ltac three_objs := apply cons_eq; [|apply cons_eq; [|apply cons_eq; [|reflexivity]]].
  Ltac finish3 :=
    unfold cec3_tail; cbv zeta; rewrite ?Hl; repeat rewrite (py_nth_eq x 0%Z 0) by reflexivity; repeat rewrite (py_nth_eq x 1%Z 1) by reflexivity; unfold X;
    pose proof (cntK_pos 0 n ltac:(lia) Hn); pose proof (cntK_pos 1 n ltac:(lia) Hn); pose proof (cntK_pos 2 n ltac:(lia) Hn);
    three_objs; real_eq.

  Lemma uf8_gen_eq_ref : UF8_eval 3 (Z.of_nat n) x = uf8_ref x.
  Proof.
    unfold UF8_eval. loop3.
    rewrite (psum3_sumK 1 Y1 (fun j => uf8_y x j ^ 2) n), (psum3_sumK 2 Y2 (fun j => uf8_y x j ^ 2) n), (psum3_sumK 0 Y3 (fun j => uf8_y x j ^ 2) n).
    2,3,4: intros t Ht; unfold Y1, Y2, Y3, uf8_y, X; cbv beta; body3 t; real_eq.
    unfold uf8_ref. finish3.
  Qed.

  Ltac sums3 Y1 Y2 Y3 h :=
    rewrite (psum3_sumK 1 Y1 (fun j => h (uf8_y x j)) n), (psum3_sumK 2 Y2 (fun j => h (uf8_y x j)) n), (psum3_sumK 0 Y3 (fun j => h (uf8_y x j)) n);
    [ | intros t Ht; unfold Y1, Y2, Y3, uf10_h, uf8_y, X; cbv beta; body3 t; real_eq .. ].

  Lemma uf9_gen_eq_ref : UF9_eval 3 (Z.of_nat n) x = uf9_ref x.
  Proof.
    unfold UF9_eval. loop3. sums3 Y1 Y2 Y3 (fun t : R => t ^ 2).
    unfold uf9_ref. cbv zeta. rewrite (Rmax_comm _ 0).
    unfold cec3_tail; rewrite ?Hl; repeat rewrite (py_nth_eq x 0%Z 0) by reflexivity; repeat rewrite (py_nth_eq x 1%Z 1) by reflexivity; unfold X.
    pose proof (cntK_pos 0 n ltac:(lia) Hn); pose proof (cntK_pos 1 n ltac:(lia) Hn); pose proof (cntK_pos 2 n ltac:(lia) Hn).
    same_arg' (Rmax 0). three_objs; real_eq.
  Qed.
  Lemma uf10_gen_eq_ref : UF10_eval 3 (Z.of_nat n) x = uf10_ref x.
  Proof. unfold UF10_eval. loop3. sums3 Y1 Y2 Y3 uf10_h. unfold uf10_ref. finish3. Qed.
  Lemma cf8_gen_eq_ref : CF8_eval 3 (Z.of_nat n) x = uf8_ref x.
  Proof. unfold CF8_eval. loop3. sums3 Y1 Y2 Y3 (fun t : R => t ^ 2). unfold uf8_ref. finish3. Qed.
  Lemma cf9_gen_eq_ref : CF9_eval 3 (Z.of_nat n) x = uf8_ref x.
  Proof. unfold CF9_eval. loop3. sums3 Y1 Y2 Y3 (fun t : R => t ^ 2). unfold uf8_ref. finish3. Qed.
  Lemma cf10_gen_eq_ref : CF10_eval 3 (Z.of_nat n) x = uf10_ref x.
  Proof. unfold CF10_eval. loop3. sums3 Y1 Y2 Y3 uf10_h. unfold uf10_ref. finish3. Qed.

  (* the constraint value is the published expression of the three objectives *)
  Ltac constr3 E :=
    cbv zeta in *; revert E;
    match goal with |- context [fold_left ?F ?L ?I] => destruct (fold_left F L I) as [[[[[? ?] ?] ?] ?] ?] end; intros E;
    match type of E with [?a; ?b; ?c] = _ => set (f1 := a) in *; set (f2 := b) in *; set (f3 := c) in * end;
    cbv zeta; unfold cf8910_q; rewrite <- E; cbn [nth]; apply cons_eq; [same_arg' Rabs; real_eq|reflexivity].
  Lemma cf8_constr_gen_eq_ref : CF8_constr_eval 3 (Z.of_nat n) x = cf8_constr x.
  Proof. pose proof cf8_gen_eq_ref as E. unfold CF8_eval in E. unfold CF8_constr_eval, cf8_constr. constr3 E. Qed.
  Lemma cf9_constr_gen_eq_ref : CF9_constr_eval 3 (Z.of_nat n) x = cf9_constr x.
  Proof. pose proof cf9_gen_eq_ref as E. unfold CF9_eval in E. unfold CF9_constr_eval, cf9_constr. constr3 E. Qed.
  Lemma cf10_constr_gen_eq_ref : CF10_constr_eval 3 (Z.of_nat n) x = cf10_constr x.
  Proof. pose proof cf10_gen_eq_ref as E. unfold CF10_eval in E. unfold CF10_constr_eval, cf10_constr. constr3 E. Qed.

  (* exactly three objectives (the CF8-10 defect e2b490f dropped f3) and one constraint *)
  Lemma uf8_out_length : length (UF8_eval 3 (Z.of_nat n) x) = 3%nat. Proof. now rewrite uf8_gen_eq_ref. Qed.
  Lemma uf9_out_length : length (UF9_eval 3 (Z.of_nat n) x) = 3%nat. Proof. now rewrite uf9_gen_eq_ref. Qed.
  Lemma uf10_out_length : length (UF10_eval 3 (Z.of_nat n) x) = 3%nat. Proof. now rewrite uf10_gen_eq_ref. Qed.
  Lemma cf8_out_length : length (CF8_eval 3 (Z.of_nat n) x) = 3%nat /\ length (CF8_constr_eval 3 (Z.of_nat n) x) = 1%nat.
  Proof. now rewrite cf8_gen_eq_ref, cf8_constr_gen_eq_ref. Qed.
  Lemma cf9_out_length : length (CF9_eval 3 (Z.of_nat n) x) = 3%nat /\ length (CF9_constr_eval 3 (Z.of_nat n) x) = 1%nat.
  Proof. now rewrite cf9_gen_eq_ref, cf9_constr_gen_eq_ref. Qed.
  Lemma cf10_out_length : length (CF10_eval 3 (Z.of_nat n) x) = 3%nat /\ length (CF10_constr_eval 3 (Z.of_nat n) x) = 1%nat.
  Proof. now rewrite cf10_gen_eq_ref, cf10_constr_gen_eq_ref. Qed.

  (* ---- no Python exception (UF8-10 have no sqrt/pow; only indices and the three non-empty index sets matter) *)
  Lemma pcnt3_ne0 : forall r, (r < 3)%nat -> IZR (pcnt3 r (n - 2)) <> 0.
  Proof. intros r Hr. rewrite IZR_pcnt3. pose proof (cntK_pos r n Hr Hn). lra. Qed.
  Lemma n_ne0_3 : IZR (Z.of_nat n) <> 0.
  Proof. rewrite <- INR_IZR_INZ. pose proof (le_INR 5 n Hn). simpl in H. lra. Qed.
  Ltac side3 :=
    lazymatch goal with
    | |- idx_ok _ _ => unfold idx_ok, zlen; rewrite Hl; lia
    | |- IZR (Z.of_nat n) <> 0 => exact n_ne0_3
    | |- IZR (pcnt3 _ _) <> 0 => apply pcnt3_ne0; lia
    | |- @eq Z _ _ => reflexivity
    | |- Z.le _ _ => unfold zlen; rewrite Hl; lia
    | |- Z.lt _ _ => unfold zlen; rewrite Hl; lia
    | |- _ => idtac
    end.
  Ltac defined3 :=
    cbv zeta; split;
    [ apply Forall_forall; intros j Hj; apply in_zrange in Hj; repeat split; side3
    | canon_loop3; replace (Z.of_nat n + 1)%Z with (3 + Z.of_nat (n - 2))%Z by lia; rewrite fold_step3; cbv beta iota;
      repeat split; side3 ].
  Lemma uf8_defined : UF8_defined 3 (Z.of_nat n) x. Proof. unfold UF8_defined. defined3. Qed.
  Lemma uf9_defined : UF9_defined 3 (Z.of_nat n) x. Proof. unfold UF9_defined. defined3. Qed.
  Lemma uf10_defined : UF10_defined 3 (Z.of_nat n) x. Proof. unfold UF10_defined. defined3. Qed.
End UF3obj.
