(* Proofs/ProblemsProofs.v — C18, part 1: shared lemmas/tactics and the ZDT family.
   Gen.Problems is REGENERATED from platypus/problems.py on every run; the scripts below therefore avoid
   naming the syntactic shape of generated arithmetic: accessor forms (py_nth/py_from/sum_list ...) are
   normalised by rewriting, then equalities are closed by [real_eq] (argument unification of sqrt/sin/cos/exp
   by ring/field/lra, then ring/field/lra, then congruence), so renaming locals or reordering commutative
   factors in the Python source does not break them. *)
From Coq Require Import Reals List ZArith Lia Lra Bool.
Import ListNotations.
From PV Require Import Base.RList Gen.Problems Model.ProblemsRef.
Open Scope R_scope.
Set Default Timeout 30.

(* ------------------------------------------------------------------ shared *)
Lemma cons_eq : forall (a b : R) l l', a = b -> l = l' -> a :: l = b :: l'.
Proof. intros; subst; reflexivity. Qed.

Lemma sum_list_skipn : forall l n, (n <= length l)%nat ->
  sum_list (skipn n l) = big_sum (fun j => nth (n + j) l 0) (length l - n).
Proof. intros l n H. rewrite <- (map_id (skipn n l)). now rewrite (sum_list_map_skipn (fun t => t)). Qed.
Lemma sum_list_firstn : forall l n, (n <= length l)%nat ->
  sum_list (firstn n l) = big_sum (fun j => nth j l 0) n.
Proof. intros l n H. rewrite <- (map_id (firstn n l)). now rewrite (sum_list_map_firstn (fun t => t)). Qed.
Lemma sum_list_map_zrange : forall (f : Z -> R) a b n, (b - a = Z.of_nat n)%Z ->
  sum_list (map f (zrange a b)) = big_sum (fun t => f (a + Z.of_nat t)%Z) n.
Proof. intros f a b n H. rewrite (zrange_from a b n H), map_map, sum_list_map_seq. reflexivity. Qed.
Lemma prod_list_map_zrange : forall (f : Z -> R) a b n, (b - a = Z.of_nat n)%Z ->
  prod_list (map f (zrange a b)) = big_prod (fun t => f (a + Z.of_nat t)%Z) n.
Proof. intros f a b n H. rewrite (zrange_from a b n H), map_map, prod_list_map_seq. reflexivity. Qed.
Lemma py_nth_eq : forall l i k, i = Z.of_nat k -> py_nth l i = nth k l 0.
Proof. intros l i k ->. apply py_nth_nat. Qed.
Lemma py_from_eq : forall l a k, a = Z.of_nat k -> py_from l a = skipn k l.
Proof. intros l a k ->. rewrite py_from_nonneg by lia. now rewrite Nat2Z.id. Qed.
Lemma py_upto_eq : forall l a k, a = Z.of_nat k -> py_upto l a = firstn k l.
Proof. intros l a k ->. rewrite py_upto_nonneg by lia. now rewrite Nat2Z.id. Qed.
Lemma idx_ok_nat : forall l i, (0 <= i < Z.of_nat (length l))%Z -> idx_ok l i.
Proof. intros l i H. unfold idx_ok, zlen. lia. Qed.

Ltac arg_eq := first [ reflexivity | ring | (field; lra) | lra | (progress f_equal; arg_eq) ].
Ltac same_arg' f :=
  repeat match goal with
  | |- context [f ?a] =>
      match goal with
      | |- context [f ?b] =>
          tryif constr_eq a b then fail else
          (let H := fresh in assert (H : a = b) by arg_eq; rewrite H; clear H)
      end
  end.
Ltac real_eq :=
  same_arg' sqrt; same_arg' sin; same_arg' cos; same_arg' exp;
  first [ reflexivity | ring | (field; lra) | lra | arg_eq ].

Lemma in01_nth : forall x i, in01 x -> 0 <= nth i x 0 <= 1.
Proof.
  intros x i H. destruct (Nat.lt_ge_cases i (length x)) as [L|L].
  - unfold in01 in H. rewrite Forall_forall in H. apply H. apply nth_In. exact L.
  - rewrite nth_overflow by lia. lra.
Qed.

Lemma py_rpow_quarter : forall t, 0 <= t -> py_rpow t (1 / 4) = sqrt (sqrt t).
Proof.
  intros t [P|Z].
  - unfold py_rpow. destruct (Req_EM_T t 0); [lra|].
    replace (1 / 4) with (/ 2 * / 2) by field.
    rewrite <- Rpower_mult. rewrite (Rpower_sqrt t) by assumption. rewrite Rpower_sqrt by (now apply sqrt_lt_R0). reflexivity.
  - subst t. unfold py_rpow. destruct (Req_EM_T 0 0); [|lra]. destruct (Req_EM_T (1/4) 0); [lra|].
    now rewrite sqrt_0, sqrt_0.
Qed.

Lemma div_nonneg : forall a b, 0 <= a -> 0 < b -> 0 <= a / b.
Proof. intros a b Ha Hb. unfold Rdiv. apply Rmult_le_pos; [assumption|]. apply Rlt_le, Rinv_0_lt_compat, Hb. Qed.

(* ------------------------------------------------------------------ ZDT1-4, ZDT6 *)
Section ZDT.
  Variable n : nat.
  Variable x : list R.
  Hypothesis Hn : (2 <= n)%nat.
  Hypothesis Hl : length x = n.
  Hypothesis Hx : in01 x.

  Lemma n_ge_2 : 2 <= INR n. Proof. apply (le_INR 2); exact Hn. Qed.

  (* ---- lower bounds: g >= 1 *)
  Lemma tail_sum_nonneg : 0 <= big_sum (fun i => X x (S i)) (length x - 1).
  Proof. apply big_sum_nonneg. intros i _. apply in01_nth, Hx. Qed.

  Lemma zdt_g123_ge_1 : 1 <= zdt_g123 x.
  Proof.
    unfold zdt_g123. pose proof n_ge_2. pose proof tail_sum_nonneg as TS. rewrite Hl in *.
    assert (0 <= 9 * big_sum (fun i => X x (S i)) (n - 1) / (INR n - 1)) by (apply div_nonneg; lra). lra.
  Qed.

  Lemma zdt_g4_ge_1 : 1 <= zdt_g4 x.
  Proof.
    unfold zdt_g4. rewrite Hl.
    assert (B : INR (n - 1) * (-10) <= big_sum (fun i => X x (S i) ^ 2 - 10 * cos (4 * PI * X x (S i))) (n - 1)).
    { apply big_sum_ge. intros i _. pose proof (COS_bound (4 * PI * X x (S i))) as [_ C].
      pose proof (pow2_ge_0 (X x (S i))). lra. }
    rewrite minus_INR in B by lia. simpl INR in B. lra.
  Qed.

  Lemma zdt_g6_ge_1 : 1 <= zdt_g6 x.
  Proof. unfold zdt_g6. pose proof (sqrt_pos (sqrt (big_sum (fun i => X x (S i)) (length x - 1) / (INR (length x) - 1)))). lra. Qed.

  (* ---- generated = published *)
  Ltac zdt_norm :=
    pose proof n_ge_2 as HnR; cbv zeta;
    repeat rewrite (py_from_eq x 1%Z 1) by reflexivity;
    repeat rewrite (py_nth_eq x 0%Z 0) by reflexivity;
    try rewrite sum_list_skipn by lia; try rewrite <- INR_IZR_INZ; try rewrite Hl; cbn [Nat.add].
  Ltac two_objs := apply cons_eq; [|apply cons_eq; [|reflexivity]].

  Lemma zdt1_gen_eq_ref : ZDT1_eval 2 (Z.of_nat n) x = zdt1_ref x.
  Proof. unfold ZDT1_eval, zdt1_ref, zdt_h1, zdt_g123, X. zdt_norm. two_objs; real_eq. Qed.
  Lemma zdt2_gen_eq_ref : ZDT2_eval 2 (Z.of_nat n) x = zdt2_ref x.
  Proof. unfold ZDT2_eval, zdt2_ref, zdt_h2, zdt_g123, X. zdt_norm. two_objs; real_eq. Qed.
  Lemma zdt3_gen_eq_ref : ZDT3_eval 2 (Z.of_nat n) x = zdt3_ref x.
  Proof. unfold ZDT3_eval, zdt3_ref, zdt_h3, zdt_g123, X. zdt_norm. two_objs; real_eq. Qed.

  Lemma zdt4_sum : forall (h : R -> R),
    sum_list (map (fun i => h (py_nth x i)) (zrange 1 (Z.of_nat n))) = big_sum (fun i => h (X x (S i))) (n - 1).
  Proof.
    intros h. rewrite (sum_list_map_zrange _ 1 (Z.of_nat n) (n - 1)) by lia.
    apply big_sum_ext. intros i _. unfold X. f_equal. apply py_nth_eq. lia.
  Qed.

  Lemma zdt4_gen_eq_ref : ZDT4_eval 2 (Z.of_nat n) x = zdt4_ref x.
  Proof.
    unfold ZDT4_eval, zdt4_ref, zdt_h1, zdt_g4. zdt_norm.
    rewrite (zdt4_sum (fun t => t ^ 2 - 10 * cos (4 * PI * t))).
    rewrite minus_IZR, <- INR_IZR_INZ. unfold X. two_objs; real_eq.
  Qed.

  Lemma tail_sum_nonneg_n : 0 <= big_sum (fun i => nth (S i) x 0) (n - 1).
  Proof. pose proof tail_sum_nonneg as TS. rewrite Hl in TS. exact TS. Qed.

  Lemma zdt6_gen_eq_ref : ZDT6_eval 2 (Z.of_nat n) x = zdt6_ref x.
  Proof.
    unfold ZDT6_eval, zdt6_ref, zdt_h2, zdt_g6, zdt6_f1, X. zdt_norm.
    rewrite py_rpow_quarter by (apply div_nonneg; [exact tail_sum_nonneg_n|lra]).
    two_objs; real_eq.
  Qed.

  (* ---- exactly two objectives *)
  Lemma zdt1_out_length : length (ZDT1_eval 2 (Z.of_nat n) x) = 2%nat. Proof. reflexivity. Qed.
  Lemma zdt2_out_length : length (ZDT2_eval 2 (Z.of_nat n) x) = 2%nat. Proof. reflexivity. Qed.
  Lemma zdt3_out_length : length (ZDT3_eval 2 (Z.of_nat n) x) = 2%nat. Proof. reflexivity. Qed.
  Lemma zdt4_out_length : length (ZDT4_eval 2 (Z.of_nat n) x) = 2%nat. Proof. reflexivity. Qed.
  Lemma zdt6_out_length : length (ZDT6_eval 2 (Z.of_nat n) x) = 2%nat. Proof. reflexivity. Qed.

  (* ---- no Python exception on in-bounds input *)
  Lemma x0_bounds : 0 <= nth 0 x 0 <= 1. Proof. apply in01_nth, Hx. Qed.
  Ltac side_goal :=
    lazymatch goal with
    | |- idx_ok _ _ => apply idx_ok_nat; rewrite ?Hl; lia
    | |- Forall _ _ => apply Forall_forall; intros ? ?In_; apply in_zrange in In_
    | |- _ <> _ => first [ lra | (apply Rgt_not_eq; lra) ]
    | |- 0 <= _ / _ => apply div_nonneg; lra
    | |- @eq Z _ _ => reflexivity
    | |- Z.le _ _ => unfold zlen; rewrite ?Hl; lia
    | |- Z.lt _ _ => unfold zlen; rewrite ?Hl; lia
    | |- _ => idtac
    end.

  Lemma zdt1_defined : ZDT1_defined 2 (Z.of_nat n) x.
  Proof.
    pose proof zdt_g123_ge_1 as G. pose proof x0_bounds as B. unfold zdt_g123, X in G. rewrite Hl in G.
    unfold ZDT1_defined. zdt_norm. repeat split; side_goal.
  Qed.
  Lemma zdt2_defined : ZDT2_defined 2 (Z.of_nat n) x.
  Proof.
    pose proof zdt_g123_ge_1 as G. pose proof x0_bounds as B. unfold zdt_g123, X in G. rewrite Hl in G.
    unfold ZDT2_defined. zdt_norm. repeat split; side_goal.
  Qed.
  Lemma zdt3_defined : ZDT3_defined 2 (Z.of_nat n) x.
  Proof.
    pose proof zdt_g123_ge_1 as G. pose proof x0_bounds as B. unfold zdt_g123, X in G. rewrite Hl in G.
    unfold ZDT3_defined. zdt_norm. repeat split; side_goal.
  Qed.
  Lemma zdt4_defined : ZDT4_defined 2 (Z.of_nat n) x.
  Proof.
    pose proof zdt_g4_ge_1 as G. pose proof x0_bounds as B. unfold zdt_g4, X in G. rewrite Hl in G.
    unfold ZDT4_defined. zdt_norm.
    rewrite (zdt4_sum (fun t => t ^ 2 - 10 * cos (4 * PI * t))). rewrite minus_IZR, <- INR_IZR_INZ. unfold X.
    repeat split; side_goal. apply idx_ok_nat. rewrite Hl. lia.
  Qed.
  Lemma zdt6_defined : ZDT6_defined 2 (Z.of_nat n) x.
  Proof.
    pose proof zdt_g6_ge_1 as G. unfold zdt_g6, X in G. rewrite Hl in G. pose proof tail_sum_nonneg_n as TS.
    unfold ZDT6_defined. zdt_norm.
    rewrite py_rpow_quarter by (apply div_nonneg; [exact TS|lra]).
    repeat split; side_goal.
    unfold rpow_ok. assert (Q : 0 <= big_sum (fun i => nth (S i) x 0) (n - 1) / (INR n - 1)) by (apply div_nonneg; [exact TS|lra]).
    destruct Q as [Q|Q]; [left; exact Q|right; split; [symmetry; exact Q|lra]].
  Qed.

  (* ---- no in-bounds point below the front: f2 >= front(f1) *)
  (* ZDT1, ZDT4: f2 = g (1 - sqrt(f1/g)) >= 1 - sqrt f1   for g >= 1, 0 <= f1 <= 1 *)
  Lemma front_sqrt : forall f1 g, 0 <= f1 <= 1 -> 1 <= g -> 1 - sqrt f1 <= g * zdt_h1 f1 g.
  Proof.
    intros f1 g F G. unfold zdt_h1.
    assert (g0 : 0 < g) by lra.
    rewrite sqrt_div_alt by assumption.
    set (s := sqrt f1). set (r := sqrt g).
    assert (Hr : r * r = g) by (apply sqrt_sqrt; lra).
    assert (Hs : 0 <= s) by apply sqrt_pos.
    assert (Hs1 : s <= 1). { unfold s. rewrite <- sqrt_1. apply sqrt_le_1_alt. lra. }
    assert (Hr1 : 1 <= r). { unfold r. rewrite <- sqrt_1. apply sqrt_le_1_alt. lra. }
    assert (E : g * (1 - s / r) = r * r - r * s). { rewrite <- Hr. field. lra. }
    rewrite E. nra.
  Qed.
  (* ZDT2: f2 = g (1 - (f1/g)^2) >= 1 - f1^2 *)
  Lemma front_sq : forall f1 g, 1 <= g -> 1 - f1 ^ 2 <= g * zdt_h2 f1 g.
  Proof.
    intros f1 g G. unfold zdt_h2.
    assert (E : g * (1 - (f1 / g) ^ 2) = g - f1 ^ 2 / g) by (field; lra). rewrite E.
    assert (f1 ^ 2 / g <= f1 ^ 2).
    { unfold Rdiv. rewrite <- (Rmult_1_r (f1 ^ 2)) at 2. apply Rmult_le_compat_l; [apply pow2_ge_0|].
      rewrite <- Rinv_1. apply Rinv_le_contravar; lra. }
    lra.
  Qed.

  (* the same on the generated functions: objective 2 is never below the published front at objective 1 *)
  Lemma zdt1_front : 1 - sqrt (nth 0 (ZDT1_eval 2 (Z.of_nat n) x) 0) <= nth 1 (ZDT1_eval 2 (Z.of_nat n) x) 0.
  Proof. rewrite zdt1_gen_eq_ref. unfold zdt1_ref. cbn [nth]. apply front_sqrt; [apply x0_bounds|apply zdt_g123_ge_1]. Qed.
  Lemma zdt2_front : 1 - nth 0 (ZDT2_eval 2 (Z.of_nat n) x) 0 ^ 2 <= nth 1 (ZDT2_eval 2 (Z.of_nat n) x) 0.
  Proof. rewrite zdt2_gen_eq_ref. unfold zdt2_ref. cbn [nth]. apply front_sq, zdt_g123_ge_1. Qed.
  Lemma zdt4_front : 1 - sqrt (nth 0 (ZDT4_eval 2 (Z.of_nat n) x) 0) <= nth 1 (ZDT4_eval 2 (Z.of_nat n) x) 0.
  Proof. rewrite zdt4_gen_eq_ref. unfold zdt4_ref. cbn [nth]. apply front_sqrt; [apply x0_bounds|apply zdt_g4_ge_1]. Qed.
  Lemma zdt6_front : 1 - nth 0 (ZDT6_eval 2 (Z.of_nat n) x) 0 ^ 2 <= nth 1 (ZDT6_eval 2 (Z.of_nat n) x) 0.
  Proof. rewrite zdt6_gen_eq_ref. unfold zdt6_ref. cbn [nth]. apply front_sq, zdt_g6_ge_1. Qed.
End ZDT.

(* non-vacuity: the hypotheses of the ZDT theorems hold for the centre of the declared box, 30 resp. 10 variables *)
Example zdt_hyps_30 : (2 <= 30)%nat /\ length (repeat (1 / 2) 30) = 30%nat /\ in01 (repeat (1 / 2) 30).
Proof. split; [lia|]. split; [apply repeat_length|]. unfold in01. apply Forall_forall. intros t Ht. apply repeat_spec in Ht. subst. lra. Qed.
Example zdt_hyps_10 : (2 <= 10)%nat /\ length (repeat (1 / 2) 10) = 10%nat /\ in01 (repeat (1 / 2) 10).
Proof. split; [lia|]. split; [apply repeat_length|]. unfold in01. apply Forall_forall. intros t Ht. apply repeat_spec in Ht. subst. lra. Qed.
