(* Proofs about Model/Dominance.v : specification equivalence and order laws. *)
From Coq Require Import ZArith Bool List Lia.
Import ListNotations.
From PV Require Import Base.Num Base.Order Model.Dominance.
Open Scope Z_scope.

Section DomProofs.
  Variable V : Type.
  Variable ltb : V -> V -> bool.
  Variable neg : V -> V.
  Variable zero : V.
  Hypothesis L : OrdLaws V ltb neg.

  Notation veq := (veq V ltb).
  Notation adj := (adj V neg).
  Notation scan := (scan V ltb neg).
  Notation cv_ladder := (cv_ladder V ltb zero).
  Notation pareto_compare := (pareto_compare V ltb neg zero).
  Notation dsol := (dsol V).

  (* ---------- specification ---------- *)
  (* no worse in every objective (direction-adjusted) *)
  Fixpoint all_le (dirs : list bool) (o1 o2 : list V) : bool :=
    match dirs, o1, o2 with
    | mx :: dr, a :: r1, b :: r2 => negb (ltb (adj mx b) (adj mx a)) && all_le dr r1 r2
    | _, _, _ => true
    end.
  (* strictly better in at least one *)
  Fixpoint some_lt (dirs : list bool) (o1 o2 : list V) : bool :=
    match dirs, o1, o2 with
    | mx :: dr, a :: r1, b :: r2 => ltb (adj mx a) (adj mx b) || some_lt dr r1 r2
    | _, _, _ => false
    end.

  Definition pdom (dirs : list bool) (o1 o2 : list V) : bool := all_le dirs o1 o2 && some_lt dirs o1 o2.

  (* violations are non-negative: cv >= zero *)
  Definition cv_ok (s : dsol) : Prop := ltb (d_cv s) zero = false.

  (* "first is better": constrained and strictly smaller violation, or equal
     violation / unconstrained and Pareto-better *)
  Definition better (constrained : bool) (dirs : list bool) (s1 s2 : dsol) : bool :=
    (constrained && ltb (d_cv s1) (d_cv s2))
    || ((negb constrained || veq (d_cv s1) (d_cv s2)) && pdom dirs (d_objs s1) (d_objs s2)).

  (* ---------- the scan ---------- *)
  Definition flags_result (d1 d2 : bool) : Z :=
    if Bool.eqb d1 d2 then 0 else if d1 then -1 else 1.

  Lemma scan_flags dirs : forall o1 o2 d1 d2,
    scan dirs o1 o2 d1 d2 =
    flags_result (d1 || some_lt dirs o1 o2) (d2 || some_lt dirs o2 o1).
  Proof.
    induction dirs as [|mx dr IH]; intros o1 o2 d1 d2.
    - simpl. now rewrite !orb_false_r.
    - destruct o1 as [|a r1], o2 as [|b r2]; simpl; try now rewrite !orb_false_r.
      destruct (ltb (adj mx a) (adj mx b)) eqn:E1.
      + rewrite (ltb_asym L _ _ E1). simpl. rewrite orb_true_r.
        destruct d2; simpl.
        * unfold flags_result. destruct d1; reflexivity.
        * rewrite IH. reflexivity.
      + destruct (ltb (adj mx b) (adj mx a)) eqn:E2; simpl.
        * rewrite orb_true_r. destruct d1; simpl.
          -- unfold flags_result. destruct d2; reflexivity.
          -- rewrite IH. reflexivity.
        * apply IH.
  Qed.

  Lemma some_lt_all_le dirs : forall o1 o2,
    length o1 = length dirs -> length o2 = length dirs ->
    some_lt dirs o2 o1 = negb (all_le dirs o1 o2).
  Proof.
    induction dirs as [|mx dr IH]; intros [|a r1] [|b r2] H1 H2; simpl in *; try discriminate; try reflexivity.
    rewrite negb_andb, negb_involutive. f_equal. apply IH; lia.
  Qed.

  (* the scan alone decides Pareto dominance on the adjusted objectives *)
  Lemma scan_spec dirs o1 o2 :
    length o1 = length dirs -> length o2 = length dirs ->
    scan dirs o1 o2 false false =
      if pdom dirs o1 o2 then -1 else if pdom dirs o2 o1 then 1 else 0.
  Proof.
    intros H1 H2. rewrite scan_flags. simpl. unfold pdom.
    rewrite (some_lt_all_le dirs o1 o2 H1 H2).
    rewrite (some_lt_all_le dirs o2 o1 H2 H1).
    destruct (all_le dirs o1 o2), (all_le dirs o2 o1); reflexivity.
  Qed.

  Lemma pdom_asym dirs o1 o2 :
    length o1 = length dirs -> length o2 = length dirs ->
    pdom dirs o1 o2 = true -> pdom dirs o2 o1 = false.
  Proof.
    intros H1 H2. unfold pdom. rewrite (some_lt_all_le dirs o2 o1 H2 H1), (some_lt_all_le dirs o1 o2 H1 H2).
    destruct (all_le dirs o1 o2), (all_le dirs o2 o1); simpl; congruence.
  Qed.

  (* ---------- the violation ladder ---------- *)
  Lemma cv_ladder_spec c s1 s2 : cv_ok s1 -> cv_ok s2 ->
    cv_ladder c (d_cv s1) (d_cv s2) =
      if c && ltb (d_cv s1) (d_cv s2) then Some (-1)
      else if c && ltb (d_cv s2) (d_cv s1) then Some 1 else None.
  Proof.
    unfold cv_ok, cv_ladder. intros K1 K2.
    set (c1 := d_cv s1) in *. set (c2 := d_cv s2) in *.
    destruct c; simpl; [|reflexivity].
    unfold Dominance.veq.
    destruct (ltb c1 c2) eqn:E12; simpl.
    - (* c1 < c2 *) rewrite K1. simpl.
      destruct (ltb zero c1) eqn:Z1; simpl; [|reflexivity].
      rewrite K2. simpl.
      rewrite (ol_trans _ _ _ L _ _ _ Z1 E12). simpl. reflexivity.
    - destruct (ltb c2 c1) eqn:E21; simpl; [|reflexivity].
      rewrite K1, K2. simpl.
      destruct (ltb zero c1) eqn:Z1; simpl.
      + destruct (ltb zero c2); reflexivity.
      + (* c1 = 0 but c2 < c1: impossible since c2 >= 0 *)
        exfalso.
        assert (ltb c2 zero = true).
        { destruct (ol_cotrans _ _ _ L _ _ zero E21) as [H|H]; [exact H|congruence]. }
        congruence.
  Qed.

  (* ---------- compare = specification ---------- *)
  Definition wf (dirs : list bool) (s : dsol) : Prop :=
    length (d_objs s) = length dirs /\ cv_ok s.

  Theorem compare_spec c dirs s1 s2 : wf dirs s1 -> wf dirs s2 ->
    pareto_compare c dirs s1 s2 =
      if better c dirs s1 s2 then -1 else if better c dirs s2 s1 then 1 else 0.
  Proof.
    intros [H1 K1] [H2 K2]. unfold pareto_compare, better.
    rewrite (cv_ladder_spec c s1 s2 K1 K2).
    rewrite (scan_spec dirs _ _ H1 H2).
    unfold Dominance.veq.
    set (c1 := d_cv s1). set (c2 := d_cv s2).
    destruct c; simpl.
    - destruct (ltb c1 c2) eqn:E12; simpl; [reflexivity|].
      destruct (ltb c2 c1) eqn:E21; simpl; [reflexivity|].
      destruct (pdom dirs (d_objs s1) (d_objs s2)); [reflexivity|].
      destruct (pdom dirs (d_objs s2) (d_objs s1)); reflexivity.
    - destruct (pdom dirs (d_objs s1) (d_objs s2)); [reflexivity|].
      destruct (pdom dirs (d_objs s2) (d_objs s1)); reflexivity.
  Qed.

  Lemma better_asym c dirs s1 s2 : wf dirs s1 -> wf dirs s2 ->
    better c dirs s1 s2 = true -> better c dirs s2 s1 = false.
  Proof.
    intros [H1 K1] [H2 K2]. unfold better, Dominance.veq.
    set (c1 := d_cv s1). set (c2 := d_cv s2).
    intro B.
    destruct c; simpl in *.
    - destruct (ltb c1 c2) eqn:E12; simpl in *.
      + rewrite (ltb_asym L _ _ E12). simpl. reflexivity.
      + destruct (ltb c2 c1) eqn:E21; simpl in *; [discriminate|].
        apply pdom_asym; assumption.
    - apply pdom_asym; assumption.
  Qed.

  Corollary compare_iff_first c dirs s1 s2 : wf dirs s1 -> wf dirs s2 ->
    (pareto_compare c dirs s1 s2 = -1 <-> better c dirs s1 s2 = true).
  Proof.
    intros W1 W2. rewrite (compare_spec c dirs s1 s2 W1 W2).
    destruct (better c dirs s1 s2) eqn:B; [tauto|].
    destruct (better c dirs s2 s1); split; intro; discriminate.
  Qed.

  Corollary compare_iff_second c dirs s1 s2 : wf dirs s1 -> wf dirs s2 ->
    (pareto_compare c dirs s1 s2 = 1 <-> better c dirs s2 s1 = true).
  Proof.
    intros W1 W2. rewrite (compare_spec c dirs s1 s2 W1 W2).
    destruct (better c dirs s1 s2) eqn:B.
    - rewrite (better_asym c dirs s1 s2 W1 W2 B). split; intro; discriminate.
    - destruct (better c dirs s2 s1); split; intro; try discriminate; reflexivity.
  Qed.

  Corollary compare_iff_neither c dirs s1 s2 : wf dirs s1 -> wf dirs s2 ->
    (pareto_compare c dirs s1 s2 = 0 <-> better c dirs s1 s2 = false /\ better c dirs s2 s1 = false).
  Proof.
    intros W1 W2. rewrite (compare_spec c dirs s1 s2 W1 W2).
    destruct (better c dirs s1 s2) eqn:B.
    - split; [discriminate|intros [? ?]; discriminate].
    - destruct (better c dirs s2 s1); split; try discriminate; try tauto. intros [? ?]; discriminate.
  Qed.

  Theorem compare_antisym c dirs s1 s2 : wf dirs s1 -> wf dirs s2 ->
    pareto_compare c dirs s2 s1 = - pareto_compare c dirs s1 s2.
  Proof.
    intros W1 W2. rewrite (compare_spec c dirs s1 s2 W1 W2), (compare_spec c dirs s2 s1 W2 W1).
    destruct (better c dirs s1 s2) eqn:B1.
    - rewrite (better_asym c dirs s1 s2 W1 W2 B1). reflexivity.
    - destruct (better c dirs s2 s1); reflexivity.
  Qed.

  Theorem compare_range c dirs s1 s2 :
    pareto_compare c dirs s1 s2 = -1 \/ pareto_compare c dirs s1 s2 = 0 \/ pareto_compare c dirs s1 s2 = 1.
  Proof.
    unfold pareto_compare, Dominance.cv_ladder.
    destruct (c && negb _).
    - destruct (Dominance.veq V ltb (d_cv s1) zero); auto.
      destruct (Dominance.veq V ltb (d_cv s2) zero); auto.
      destruct (ltb (d_cv s1) (d_cv s2)); auto.
      destruct (ltb (d_cv s2) (d_cv s1)); auto.
      rewrite scan_flags. unfold flags_result. destruct (Bool.eqb _ _); auto. destruct (false || _); auto.
    - rewrite scan_flags. unfold flags_result. destruct (Bool.eqb _ _); auto. destruct (false || _); auto.
  Qed.

  (* pointwise-equivalent objective vectors are indistinguishable *)
  Fixpoint vec_eqv (o1 o2 : list V) : bool :=
    match o1, o2 with
    | a :: r1, b :: r2 => veq a b && vec_eqv r1 r2
    | [], [] => true
    | _, _ => false
    end.

  Lemma adj_ltb mx a b : ltb (adj mx a) (adj mx b) = if mx then ltb b a else ltb a b.
  Proof. destruct mx; simpl; [apply (ol_neg _ _ _ L)|reflexivity]. Qed.

  Lemma some_lt_twin dirs : forall o1 o2, vec_eqv o1 o2 = true -> some_lt dirs o1 o2 = false.
  Proof.
    induction dirs as [|mx dr IH]; intros [|a r1] [|b r2] H; simpl in *; try reflexivity; try discriminate.
    apply andb_true_iff in H. destruct H as [E R].
    unfold Dominance.veq in E. apply andb_true_iff in E. destruct E as [E1 E2].
    apply negb_true_iff in E1, E2.
    rewrite adj_ltb. rewrite (IH _ _ R). destruct mx; rewrite ?E1, ?E2; reflexivity.
  Qed.

  Lemma vec_eqv_sym : forall o1 o2, vec_eqv o1 o2 = vec_eqv o2 o1.
  Proof.
    induction o1 as [|a r1 IH]; intros [|b r2]; simpl; try reflexivity.
    rewrite IH. f_equal. unfold Dominance.veq. apply andb_comm.
  Qed.

  (* no solution beats itself or an identical twin *)
  Theorem compare_twin c dirs s1 s2 : wf dirs s1 -> wf dirs s2 ->
    vec_eqv (d_objs s1) (d_objs s2) = true -> veq (d_cv s1) (d_cv s2) = true ->
    pareto_compare c dirs s1 s2 = 0.
  Proof.
    intros W1 W2 HO HC. rewrite (compare_spec c dirs s1 s2 W1 W2).
    unfold better, pdom.
    rewrite (some_lt_twin dirs _ _ HO).
    rewrite vec_eqv_sym in HO. rewrite (some_lt_twin dirs _ _ HO).
    rewrite !andb_false_r, !orb_false_r.
    unfold Dominance.veq in HC. apply andb_true_iff in HC. destruct HC as [A B].
    apply negb_true_iff in A, B. rewrite A, B. rewrite !andb_false_r. reflexivity.
  Qed.

  Lemma vec_eqv_refl o : vec_eqv o o = true.
  Proof. induction o as [|a r IH]; simpl; [reflexivity|]. rewrite IH, andb_true_r. apply (eqv_refl L). Qed.

  Corollary compare_irrefl c dirs s : wf dirs s -> pareto_compare c dirs s s = 0.
  Proof.
    intro W. apply compare_twin; auto. apply vec_eqv_refl. apply (eqv_refl L).
  Qed.

  (* ---------- transitivity ---------- *)
  Lemma all_le_trans dirs : forall o1 o2 o3,
    length o1 = length dirs -> length o2 = length dirs -> length o3 = length dirs ->
    all_le dirs o1 o2 = true -> all_le dirs o2 o3 = true -> all_le dirs o1 o3 = true.
  Proof.
    induction dirs as [|mx dr IH]; intros [|a r1] [|b r2] [|d r3] H1 H2 H3; simpl in *; try discriminate; auto.
    rewrite !andb_true_iff, !negb_true_iff. intros [A1 A2] [B1 B2]. split.
    - eapply (le_trans L); eauto.
    - apply (IH r1 r2 r3); try lia; assumption.
  Qed.

  Lemma pdom_trans dirs : forall o1 o2 o3,
    length o1 = length dirs -> length o2 = length dirs -> length o3 = length dirs ->
    pdom dirs o1 o2 = true -> pdom dirs o2 o3 = true -> pdom dirs o1 o3 = true.
  Proof.
    unfold pdom.
    induction dirs as [|mx dr IH]; intros [|a r1] [|b r2] [|d r3] H1 H2 H3; simpl in *; try discriminate; auto.
    rewrite !andb_true_iff, !negb_true_iff, !orb_true_iff.
    intros [[A1 A2] A3] [[B1 B2] B3].
    assert (LE : all_le dr r1 r3 = true) by (apply (all_le_trans dr r1 r2 r3); try lia; assumption).
    split; [split|].
    - eapply (le_trans L); eauto.
    - exact LE.
    - destruct A3 as [A3|A3].
      + left. eapply (lt_le_trans L); eauto.
      + destruct B3 as [B3|B3].
        * left. eapply (le_lt_trans L); eauto.
        * right.
          assert (X : all_le dr r1 r2 && some_lt dr r1 r2 = true) by (rewrite A2, A3; reflexivity).
          assert (Y : all_le dr r2 r3 && some_lt dr r2 r3 = true) by (rewrite B2, B3; reflexivity).
          assert (G := IH r1 r2 r3 ltac:(lia) ltac:(lia) ltac:(lia) X Y).
          apply andb_true_iff in G. tauto.
  Qed.

  Theorem better_trans c dirs s1 s2 s3 : wf dirs s1 -> wf dirs s2 -> wf dirs s3 ->
    better c dirs s1 s2 = true -> better c dirs s2 s3 = true -> better c dirs s1 s3 = true.
  Proof.
    intros [H1 K1] [H2 K2] [H3 K3]. unfold better.
    set (c1 := d_cv s1). set (c2 := d_cv s2). set (c3 := d_cv s3).
    destruct c; simpl.
    - rewrite !orb_true_iff, !andb_true_iff. intros [A|[A1 A2]] [B|[B1 B2]].
      + left. eapply (ol_trans _ _ _ L); eauto.
      + left. rewrite <- (ltb_eqv_r L _ _ _ B1). exact A.
      + left. rewrite (ltb_eqv_l L _ _ _ A1). exact B.
      + right. split; [eapply (eqv_trans L); eauto|].
        apply (pdom_trans dirs _ (d_objs s2) _); assumption.
    - intros A B. apply (pdom_trans dirs _ (d_objs s2) _); assumption.
  Qed.

  (* dominance in terms of compare: the form archives use *)
  Corollary dominates_trans c dirs s1 s2 s3 : wf dirs s1 -> wf dirs s2 -> wf dirs s3 ->
    pareto_compare c dirs s1 s2 = -1 -> pareto_compare c dirs s2 s3 = -1 ->
    pareto_compare c dirs s1 s3 = -1.
  Proof.
    intros W1 W2 W3 A B.
    apply (compare_iff_first c dirs s1 s2 W1 W2) in A.
    apply (compare_iff_first c dirs s2 s3 W2 W3) in B.
    apply (compare_iff_first c dirs s1 s3 W1 W3).
    apply (better_trans c dirs s1 s2 s3); assumption.
  Qed.
End DomProofs.
