(* Proofs/MPIProofs.v — safety and progress of the MPIPool.map transition system
   (Model/MPI.v), both branches, all schedules, all worker counts >= 1, all
   batch sizes. *)
From Coq Require Import List Bool Arith PeanoNat Lia.
Import ListNotations.
From PV Require Import Model.MPI.

(* ------------------------------------------------------------------------- *)
(* generic list facts                                                          *)
(* ------------------------------------------------------------------------- *)
Lemma upd_length : forall (A : Type) (l : list A) i x, length (upd l i x) = length l.
Proof. induction l as [|a l IH]; intros [|i] x; simpl; auto. Qed.

Lemma nth_error_upd_eq : forall (A : Type) (l : list A) i x, i < length l -> nth_error (upd l i x) i = Some x.
Proof.
  induction l as [|a l IH]; intros [|i] x H; simpl in *; try lia; [reflexivity|]. apply IH. lia.
Qed.

Lemma nth_error_upd_neq : forall (A : Type) (l : list A) i k x, k <> i -> nth_error (upd l i x) k = nth_error l k.
Proof.
  induction l as [|a l IH]; intros [|i] [|k] x H; simpl; try reflexivity; try congruence.
  apply IH. congruence.
Qed.

Lemma nth_error_lt : forall (A : Type) (l : list A) i x, nth_error l i = Some x -> i < length l.
Proof. intros A l i x H. apply nth_error_Some. congruence. Qed.

Lemma nth_error_ex : forall (A : Type) (l : list A) i, i < length l -> exists x, nth_error l i = Some x.
Proof.
  intros A l i H. destruct (nth_error l i) eqn:E; [eauto|]. apply nth_error_None in E. lia.
Qed.

Lemma nth_error_ext : forall (A : Type) (a b : list A), (forall i, nth_error a i = nth_error b i) -> a = b.
Proof.
  induction a as [|x a IH]; intros [|y b] H.
  - reflexivity.
  - specialize (H 0). discriminate.
  - specialize (H 0). discriminate.
  - pose proof (H 0) as H0. simpl in H0. injection H0 as ->. f_equal. apply IH.
    intros i. apply (H (S i)).
Qed.

Lemma firstn_S_nth : forall (A : Type) (l : list A) k x,
  nth_error l k = Some x -> firstn (S k) l = firstn k l ++ [x].
Proof.
  induction l as [|a l IH]; intros [|k] x H; simpl in *; try discriminate.
  - injection H as ->. reflexivity.
  - f_equal. apply IH. exact H.
Qed.

(* sum of a measure over the workers *)
Definition wsum {A : Type} (h : A -> nat) (l : list A) : nat := list_sum (map h l).

Lemma wsum_upd : forall (A : Type) (h : A -> nat) (l : list A) i a x,
  nth_error l i = Some a -> wsum h (upd l i x) + h a = wsum h l + h x.
Proof.
  unfold wsum. induction l as [|b l IH]; intros [|i] a x H; simpl in *; try discriminate.
  - injection H as ->. lia.
  - specialize (IH i a x H). lia.
Qed.

Lemma wsum_ge : forall (A : Type) (h : A -> nat) (l : list A) i a, nth_error l i = Some a -> h a <= wsum h l.
Proof.
  unfold wsum. induction l as [|b l IH]; intros [|i] a H; simpl in *; try discriminate.
  - injection H as ->. lia.
  - specialize (IH i a H). lia.
Qed.

Lemma wsum_pos : forall (A : Type) (h : A -> nat) (l : list A), 0 < wsum h l ->
  exists i a, nth_error l i = Some a /\ 0 < h a.
Proof.
  unfold wsum. induction l as [|b l IH]; intros H; simpl in *; [lia|].
  destruct (h b) eqn:E.
  - destruct IH as (i & a & H1 & H2); [lia|]. exists (S i), a. auto.
  - exists 0, b. simpl. split; [reflexivity|lia].
Qed.

Definition d1 (a b : nat) : nat := if Nat.eq_dec a b then 1 else 0.
Definition cnt (i : nat) (l : list nat) : nat := count_occ Nat.eq_dec l i.

Lemma cnt_app : forall i a b, cnt i (a ++ b) = cnt i a + cnt i b.
Proof. intros. apply count_occ_app. Qed.
Lemma cnt_cons : forall i x l, cnt i (x :: l) = d1 x i + cnt i l.
Proof. intros. unfold cnt, d1. simpl. destruct (Nat.eq_dec x i); reflexivity. Qed.
Lemma cnt_nil : forall i, cnt i [] = 0.
Proof. reflexivity. Qed.
Lemma cnt_pos_In : forall i l, 0 < cnt i l -> In i l.
Proof. intros i l H. apply (count_occ_In Nat.eq_dec). exact H. Qed.
Lemma In_cnt_pos : forall i l, In i l -> 0 < cnt i l.
Proof. intros i l H. apply (count_occ_In Nat.eq_dec) in H. exact H. Qed.

Ltac bools :=
  repeat match goal with
  | H : _ && _ = true |- _ => apply andb_prop in H; destruct H
  | H : negb _ = true |- _ => apply negb_true_iff in H
  | H : (_ =? _) = true |- _ => apply Nat.eqb_eq in H
  | H : (_ <? _) = true |- _ => apply Nat.ltb_lt in H
  | H : (_ <=? _) = true |- _ => apply Nat.leb_le in H
  | H : (_ =? _) = false |- _ => apply Nat.eqb_neq in H
  | H : (_ <? _) = false |- _ => apply Nat.ltb_ge in H
  | H : (_ <=? _) = false |- _ => apply Nat.leb_gt in H
  end.

Section MPIProofs.
  Variables (T R : Type).
  Variable fn : nat -> T -> R.
  Variable cfg : config T.
  Notation W := (c_W cfg).
  Notation g := (c_g cfg).
  Notation tasks := (c_tasks cfg).
  Notation n := (length (c_tasks cfg)).
  Notation lb := (use_lb cfg).
  Notation worker := (worker T R).
  Notation state := (state T R).
  Notation master := (master R).
  Notation step := (step fn cfg).
  Hypothesis Wpos : 0 < W.

  (* ---- where the task indices (tokens) are -------------------------------- *)
  Definition in_tags (q : list (wmsg T)) : list nat :=
    flat_map (fun m => match m with MTask tag _ => [tag] | MFun _ => [] end) q.
  Definition run_tags (s : wstate T) : list nat := match s with WRun tag _ => [tag] | WWait => [] end.
  (* indices in flight to w ++ running on w ++ in flight back to the master *)
  Definition wtok (wk : worker) : list nat := in_tags (w_in wk) ++ run_tags (w_st wk) ++ map fst (w_out wk).
  Definition wocc (i : nat) (wk : worker) : nat := cnt i (wtok wk).
  Definition socc (i : nat) (ws : list worker) : nat := wsum (wocc i) ws.
  Definition wload (ws : list worker) : nat := wsum (fun wk => length (wtok wk)) ws.

  Definition undisp (m : master) (i : nat) : nat := if (m_sent m <=? i) && (i <? n) then 1 else 0.
  Definition stored (m : master) (i : nat) : nat :=
    if lb then match nth_error (m_slots m) i with Some (Some _) => 1 | _ => 0 end
    else if i <? m_recvd m then 1 else 0.

  (* how many of the five places hold index i *)
  Definition occ (st : state) (i : nat) : nat :=
    undisp (st_m st) i + socc i (st_w st) + stored (st_m st) i.

  (* ---- the function a worker will apply ------------------------------------ *)
  Fixpoint eff (cur : nat) (q : list (wmsg T)) : nat :=
    match q with [] => cur | MFun g' :: r => eff g' r | MTask _ _ :: r => eff cur r end.
  Fixpoint fun_ok (cur : nat) (q : list (wmsg T)) : Prop :=
    match q with
    | [] => True
    | MFun g' :: r => fun_ok g' r
    | MTask _ _ :: r => cur = g /\ fun_ok cur r
    end.

  Lemma eff_app : forall q r cur, eff cur (q ++ r) = eff (eff cur q) r.
  Proof. induction q as [|[g'|tag t] q IH]; intros; simpl; auto. Qed.
  Lemma fun_ok_app : forall q r cur, fun_ok cur q -> fun_ok (eff cur q) r -> fun_ok cur (q ++ r).
  Proof.
    induction q as [|[g'|tag t] q IH]; intros r cur H1 H2; simpl in *; auto.
    destruct H1 as [E H1]. split; auto.
  Qed.

  Definition no_task (q : list (wmsg T)) : Prop := forall tag t, ~ In (MTask tag t) q.
  Lemma no_task_tags : forall q, no_task q -> in_tags q = [].
  Proof.
    induction q as [|[g'|tag t] q IH]; intros H; simpl; auto.
    - apply IH. intros tag t C. apply (H tag t). right. exact C.
    - exfalso. apply (H tag t). left. reflexivity.
  Qed.
  Lemma tags_no_task : forall q, in_tags q = [] -> no_task q.
  Proof.
    induction q as [|[g'|tag t] q IH]; intros H tg t' C; simpl in *; try discriminate; auto.
    destruct C as [C|C]; [discriminate|]. apply (IH H tg t' C).
  Qed.
  Lemma no_task_fun_ok : forall q cur, no_task q -> fun_ok cur q.
  Proof.
    induction q as [|[g'|tag t] q IH]; intros cur H; simpl; auto.
    - apply IH. intros tg t' C. apply (H tg t'). right. exact C.
    - exfalso. apply (H tag t). left. reflexivity.
  Qed.
  Lemma in_tags_app : forall q r, in_tags (q ++ r) = in_tags q ++ in_tags r.
  Proof. intros. unfold in_tags. apply flat_map_app. Qed.
  Lemma in_tags_In : forall q i, In i (in_tags q) -> exists t, In (MTask i t) q.
  Proof.
    induction q as [|[g'|tag t] q IH]; intros i H; simpl in *; [contradiction| |].
    - destruct (IH i H) as [t' Ht]. eauto.
    - destruct H as [->|H]; [eauto|]. destruct (IH i H) as [t' Ht]. eauto.
  Qed.

  (* ---- invariant ---------------------------------------------------------------- *)
  (* static branch: task i is only ever handled by worker i mod size *)
  Definition tag_ok (w tag : nat) : Prop := lb = false -> tag mod W = w.

  Record wk_ok (bc w : nat) (wk : worker) : Prop := {
    ok_in : forall tag t, In (MTask tag t) (w_in wk) -> nth_error tasks tag = Some t /\ tag_ok w tag;
    ok_run : forall tag t, w_st wk = WRun tag t -> nth_error tasks tag = Some t /\ tag_ok w tag /\ w_fun wk = g;
    ok_out : forall tag r, In (tag, r) (w_out wk) ->
               (exists t, nth_error tasks tag = Some t /\ r = fn g t) /\ tag_ok w tag;
    ok_fun : fun_ok (w_fun wk) (w_in wk);
    ok_eff : w < bc -> eff (w_fun wk) (w_in wk) = g }.

  Record m_ok (m : master) : Prop := {
    mk_bc : m_bc m <= W;
    mk_bc0 : m_bc m < W -> m_sent m = 0;
    mk_sent : m_sent m <= n;
    mk_static : lb = false ->
      m_pend m = None /\ (m_sent m < n -> m_recvd m = 0) /\ m_acc m = map (fn g) (firstn (m_recvd m) tasks);
    mk_lb : lb = true ->
      length (m_slots m) = n /\
      (forall i r, nth_error (m_slots m) i = Some (Some r) -> exists t, nth_error tasks i = Some t /\ r = fn g t) /\
      (m_sent m < W -> m_recvd m = 0 /\ m_pend m = None) /\
      (forall w, m_pend m = Some w -> w < W /\ m_sent m < n /\ W <= m_sent m /\ m_sent m + 1 = m_recvd m + W) /\
      (m_pend m = None -> W <= m_sent m -> m_sent m < n -> m_sent m = m_recvd m + W);
    mk_done : m_done m = true -> m_bc m = W /\ m_sent m = n /\ m_recvd m = n /\ m_pend m = None }.

  (* inv_occ is the statement "each task index is in exactly one of
     {undispatched, in flight to a worker, running on a worker, in flight to the
     master carrying fn g task_i, stored in the results}"; the payload parts are
     in wk_ok / m_ok *)
  Record Inv (st : state) : Prop := {
    inv_len : length (st_w st) = W;
    inv_m : m_ok (st_m st);
    inv_w : forall w wk, nth_error (st_w st) w = Some wk -> wk_ok (m_bc (st_m st)) w wk;
    inv_occ : forall i, occ st i = if i <? n then 1 else 0;
    inv_load : wload (st_w st) + m_recvd (st_m st) = m_sent (st_m st) }.

  (* the state a pool is in between two map calls *)
  Record idle (mf : nat) (wk : worker) : Prop := {
    id_st : w_st wk = WWait;
    id_out : w_out wk = [];
    id_in : no_task (w_in wk);
    id_eff : eff (w_fun wk) (w_in wk) = mf }.

  Lemma idle_wtok : forall mf wk, idle mf wk -> wtok wk = [].
  Proof.
    intros mf wk [A B C D]. unfold wtok. rewrite A, B, (no_task_tags _ C). reflexivity.
  Qed.

  Lemma wsum_zero_all : forall (h : worker -> nat) (ws : list worker),
    (forall wk, In wk ws -> h wk = 0) -> wsum h ws = 0.
  Proof.
    unfold wsum. induction ws as [|a ws IH]; intros H; simpl; [reflexivity|].
    rewrite (H a (or_introl eq_refl)), IH; [reflexivity|]. intros wk Hk. apply H. right. exact Hk.
  Qed.

  (* ---- Inv holds on entry of map ------------------------------------------------- *)
  Lemma inv_init : forall mf ws, length ws = W -> (forall wk, In wk ws -> idle mf wk) ->
    Inv (init cfg mf ws).
  Proof.
    intros mf ws L I. unfold init. constructor; simpl.
    - exact L.
    - constructor; simpl.
      + destruct (g =? mf); lia.
      + reflexivity.
      + lia.
      + intros _. repeat split.
      + intros LB. split; [apply repeat_length|]. split; [|split; [auto|split]].
        * intros i r H. exfalso.
          assert (In (Some r) (repeat (@None R) n)) as HI by (eapply nth_error_In; eauto).
          apply repeat_spec in HI. discriminate.
        * intros w C. discriminate.
        * intros _ C. lia.
      + discriminate.
    - intros w wk H. assert (ID : idle mf wk) by (apply I; eapply nth_error_In; eauto).
      destruct ID as [A B C D]. constructor.
      + intros tag t C'. exfalso. apply (C tag t C').
      + intros tag t C'. rewrite A in C'. discriminate.
      + intros tag r C'. rewrite B in C'. contradiction.
      + apply no_task_fun_ok. exact C.
      + intros Hw. destruct (g =? mf) eqn:E; [|lia]. apply Nat.eqb_eq in E. congruence.
    - intros i. unfold occ, undisp, stored, socc. simpl.
      rewrite wsum_zero_all.
      + assert (S0 : (if lb then match nth_error (repeat (@None R) n) i with Some (Some _) => 1 | _ => 0 end
                      else if i <? 0 then 1 else 0) = 0).
        { destruct lb.
          - destruct (nth_error (repeat (@None R) n) i) as [[r|]|] eqn:E; auto.
            exfalso. assert (In (Some r) (repeat (@None R) n)) as HI by (eapply nth_error_In; eauto).
            apply repeat_spec in HI. discriminate.
          - reflexivity. }
        rewrite S0. destruct (i <? n); reflexivity.
      + intros wk Hk. unfold wocc. rewrite (idle_wtok mf wk (I wk Hk)). reflexivity.
    - unfold wload. rewrite wsum_zero_all; [reflexivity|].
      intros wk Hk. rewrite (idle_wtok mf wk (I wk Hk)). reflexivity.
  Qed.
End MPIProofs.
