(* Proofs/MPIProofs.v — safety and progress of the MPIPool.map transition system
   (Model/MPI.v), both branches, all schedules, all worker counts >= 1, all
   batch sizes. *)
From Coq Require Import List Bool Arith PeanoNat Lia.
Import ListNotations.
From PV Require Import Model.MPI.
Arguments use_lb {T} _ : simpl never.
Arguments Nat.modulo : simpl never.
Arguments Nat.ltb : simpl never.
Arguments Nat.leb : simpl never.

(* ------------------------------------------------------------------------- *)
(* generic list facts                                                          *)
(* ------------------------------------------------------------------------- *)
Lemma upd_length : forall (A : Type) (l : list A) i x, length (upd l i x) = length l.
Proof. induction l as [|a l IH]; intros [|i] x; simpl; auto. Qed.

Lemma nth_error_upd_eq : forall (A : Type) (l : list A) i x, i < length l -> nth_error (upd l i x) i = Some x.
Proof.
  induction l as [|a l IH]; intros [|i] x H; simpl in *; try lia; [reflexivity|]. apply IH. lia.
Qed.

Lemma nth_error_upd_neq : forall (A : Type) (l : list A) i k x, k <> i -> nth_error (upd l i x) k = nth_error l k.
Proof.
  induction l as [|a l IH]; intros [|i] [|k] x H; simpl; try reflexivity; try congruence.
  apply IH. congruence.
Qed.

Lemma nth_error_lt : forall (A : Type) (l : list A) i x, nth_error l i = Some x -> i < length l.
Proof. intros A l i x H. apply nth_error_Some. congruence. Qed.

Lemma nth_error_ex : forall (A : Type) (l : list A) i, i < length l -> exists x, nth_error l i = Some x.
Proof.
  intros A l i H. destruct (nth_error l i) eqn:E; [eauto|]. apply nth_error_None in E. lia.
Qed.

Lemma nth_error_ext : forall (A : Type) (a b : list A), (forall i, nth_error a i = nth_error b i) -> a = b.
Proof.
  induction a as [|x a IH]; intros [|y b] H.
  - reflexivity.
  - specialize (H 0). discriminate.
  - specialize (H 0). discriminate.
  - pose proof (H 0) as H0. simpl in H0. injection H0 as ->. f_equal. apply IH.
    intros i. apply (H (S i)).
Qed.

Lemma firstn_S_nth : forall (A : Type) (l : list A) k x,
  nth_error l k = Some x -> firstn (S k) l = firstn k l ++ [x].
Proof.
  induction l as [|a l IH]; intros [|k] x H; simpl in *; try discriminate.
  - injection H as ->. reflexivity.
  - f_equal. apply IH. exact H.
Qed.

(* sum of a measure over the workers *)
Definition wsum {A : Type} (h : A -> nat) (l : list A) : nat := list_sum (map h l).

Lemma wsum_upd : forall (A : Type) (h : A -> nat) (l : list A) i a x,
  nth_error l i = Some a -> wsum h (upd l i x) + h a = wsum h l + h x.
Proof.
  unfold wsum. induction l as [|b l IH]; intros [|i] a x H; simpl in *; try discriminate.
  - injection H as ->. lia.
  - specialize (IH i a x H). lia.
Qed.

Lemma wsum_ge : forall (A : Type) (h : A -> nat) (l : list A) i a, nth_error l i = Some a -> h a <= wsum h l.
Proof.
  unfold wsum. induction l as [|b l IH]; intros [|i] a H; simpl in *; try discriminate.
  - injection H as ->. lia.
  - specialize (IH i a H). lia.
Qed.

Lemma wsum_pos : forall (A : Type) (h : A -> nat) (l : list A), 0 < wsum h l ->
  exists i a, nth_error l i = Some a /\ 0 < h a.
Proof.
  unfold wsum. induction l as [|b l IH]; intros H; simpl in *; [lia|].
  destruct (h b) eqn:E.
  - destruct IH as (i & a & H1 & H2); [lia|]. exists (S i), a. auto.
  - exists 0, b. simpl. split; [reflexivity|lia].
Qed.

Definition d1 (a b : nat) : nat := if Nat.eq_dec a b then 1 else 0.
Definition cnt (i : nat) (l : list nat) : nat := count_occ Nat.eq_dec l i.

Arguments cnt : simpl never.
Arguments d1 : simpl never.

Lemma cnt_app : forall i a b, cnt i (a ++ b) = cnt i a + cnt i b.
Proof. intros. apply count_occ_app. Qed.
Lemma cnt_cons : forall i x l, cnt i (x :: l) = d1 x i + cnt i l.
Proof. intros. unfold cnt, d1. cbn [count_occ]. destruct (Nat.eq_dec x i); reflexivity. Qed.
Lemma cnt_nil : forall i, cnt i [] = 0.
Proof. reflexivity. Qed.
Lemma cnt_pos_In : forall i l, 0 < cnt i l -> In i l.
Proof. intros i l H. apply (count_occ_In Nat.eq_dec). exact H. Qed.
Lemma In_cnt_pos : forall i l, In i l -> 0 < cnt i l.
Proof. intros i l H. apply (count_occ_In Nat.eq_dec) in H. exact H. Qed.

Ltac bools :=
  repeat match goal with
  | H : _ && _ = true |- _ => apply andb_prop in H; destruct H
  | H : negb _ = true |- _ => apply negb_true_iff in H
  | H : (_ =? _) = true |- _ => apply Nat.eqb_eq in H
  | H : (_ <? _) = true |- _ => apply Nat.ltb_lt in H
  | H : (_ <=? _) = true |- _ => apply Nat.leb_le in H
  | H : (_ =? _) = false |- _ => apply Nat.eqb_neq in H
  | H : (_ <? _) = false |- _ => apply Nat.ltb_ge in H
  | H : (_ <=? _) = false |- _ => apply Nat.leb_gt in H
  end.

Section MPIProofs.
  Variables (T R : Type).
  Variable fn : nat -> T -> R.
  Variable cfg : config T.
  Notation W := (c_W cfg).
  Notation g := (c_g cfg).
  Notation tasks := (c_tasks cfg).
  Notation n := (length (c_tasks cfg)).
  Notation lb := (use_lb cfg).
  Notation worker := (worker T R).
  Notation state := (state T R).
  Notation master := (master R).
  Notation step := (step fn cfg).
  Hypothesis Wpos : 0 < W.

  (* ---- where the task indices (tokens) are -------------------------------- *)
  Definition in_tags (q : list (wmsg T)) : list nat :=
    flat_map (fun m => match m with MTask tag _ => [tag] | MFun _ => [] end) q.
  Definition run_tags (s : wstate T) : list nat := match s with WRun tag _ => [tag] | WWait => [] end.
  (* indices in flight to w ++ running on w ++ in flight back to the master *)
  Definition wtok (wk : worker) : list nat := in_tags (w_in wk) ++ run_tags (w_st wk) ++ map fst (w_out wk).
  Definition wocc (i : nat) (wk : worker) : nat := cnt i (wtok wk).
  Definition socc (i : nat) (ws : list worker) : nat := wsum (wocc i) ws.
  Definition wload (ws : list worker) : nat := wsum (fun wk => length (wtok wk)) ws.

  Definition undisp (sent i : nat) : nat := if (sent <=? i) && (i <? n) then 1 else 0.
  Definition stored (slots : list (option R)) (recvd i : nat) : nat :=
    if lb then match nth_error slots i with Some (Some _) => 1 | _ => 0 end
    else if i <? recvd then 1 else 0.

  (* how many of the five places hold index i *)
  Definition occ (st : state) (i : nat) : nat :=
    undisp (m_sent (st_m st)) i + socc i (st_w st) + stored (m_slots (st_m st)) (m_recvd (st_m st)) i.

  (* ---- the function a worker will apply ------------------------------------ *)
  Fixpoint eff (cur : nat) (q : list (wmsg T)) : nat :=
    match q with [] => cur | MFun g' :: r => eff g' r | MTask _ _ :: r => eff cur r end.
  Fixpoint fun_ok (cur : nat) (q : list (wmsg T)) : Prop :=
    match q with
    | [] => True
    | MFun g' :: r => fun_ok g' r
    | MTask _ _ :: r => cur = g /\ fun_ok cur r
    end.

  Lemma eff_app : forall q r cur, eff cur (q ++ r) = eff (eff cur q) r.
  Proof. induction q as [|[g'|tag t] q IH]; intros; simpl; auto. Qed.
  Lemma fun_ok_app : forall q r cur, fun_ok cur q -> fun_ok (eff cur q) r -> fun_ok cur (q ++ r).
  Proof.
    induction q as [|[g'|tag t] q IH]; intros r cur H1 H2; simpl in *; auto.
    destruct H1 as [E H1]. split; auto.
  Qed.

  Definition no_task (q : list (wmsg T)) : Prop := forall tag t, ~ In (MTask tag t) q.
  Lemma no_task_tags : forall q, no_task q -> in_tags q = [].
  Proof.
    induction q as [|[g'|tag t] q IH]; intros H; simpl; auto.
    - apply IH. intros tag t C. apply (H tag t). right. exact C.
    - exfalso. apply (H tag t). left. reflexivity.
  Qed.
  Lemma tags_no_task : forall q, in_tags q = [] -> no_task q.
  Proof.
    induction q as [|[g'|tag t] q IH]; intros H tg t' C; simpl in *; try discriminate; auto.
    destruct C as [C|C]; [discriminate|]. apply (IH H tg t' C).
  Qed.
  Lemma no_task_fun_ok : forall q cur, no_task q -> fun_ok cur q.
  Proof.
    induction q as [|[g'|tag t] q IH]; intros cur H; simpl; auto.
    - apply IH. intros tg t' C. apply (H tg t'). right. exact C.
    - exfalso. apply (H tag t). left. reflexivity.
  Qed.
  Lemma in_tags_app : forall q r, in_tags (q ++ r) = in_tags q ++ in_tags r.
  Proof. intros. unfold in_tags. apply flat_map_app. Qed.
  Lemma in_tags_In : forall q i, In i (in_tags q) -> exists t, In (MTask i t) q.
  Proof.
    induction q as [|[g'|tag t] q IH]; intros i H; simpl in *; [contradiction| |].
    - destruct (IH i H) as [t' Ht]. eauto.
    - destruct H as [->|H]; [eauto|]. destruct (IH i H) as [t' Ht]. eauto.
  Qed.

  (* ---- invariant ---------------------------------------------------------------- *)
  (* static branch: task i is only ever handled by worker i mod size *)
  Definition tag_ok (w tag : nat) : Prop := lb = false -> tag mod W = w.

  Record wk_ok (bc w : nat) (wk : worker) : Prop := {
    ok_in : forall tag t, In (MTask tag t) (w_in wk) -> nth_error tasks tag = Some t /\ tag_ok w tag;
    ok_run : forall tag t, w_st wk = WRun tag t -> nth_error tasks tag = Some t /\ tag_ok w tag /\ w_fun wk = g;
    ok_out : forall tag r, In (tag, r) (w_out wk) ->
               (exists t, nth_error tasks tag = Some t /\ r = fn g t) /\ tag_ok w tag;
    ok_fun : fun_ok (w_fun wk) (w_in wk);
    ok_eff : w < bc -> eff (w_fun wk) (w_in wk) = g }.

  Record m_ok (m : master) : Prop := {
    mk_bc : m_bc m <= W;
    mk_bc0 : m_bc m < W -> m_sent m = 0;
    mk_sent : m_sent m <= n;
    mk_static : lb = false ->
      m_pend m = None /\ (m_sent m < n -> m_recvd m = 0) /\ m_acc m = map (fn g) (firstn (m_recvd m) tasks);
    mk_lb : lb = true ->
      length (m_slots m) = n /\
      (forall i r, nth_error (m_slots m) i = Some (Some r) -> exists t, nth_error tasks i = Some t /\ r = fn g t) /\
      (m_sent m < W -> m_recvd m = 0 /\ m_pend m = None) /\
      (forall w, m_pend m = Some w -> w < W /\ m_sent m < n /\ W <= m_sent m /\ m_sent m + 1 = m_recvd m + W) /\
      (m_pend m = None -> W <= m_sent m -> m_sent m < n -> m_sent m = m_recvd m + W);
    mk_done : m_done m = true -> m_bc m = W /\ m_sent m = n /\ m_recvd m = n /\ m_pend m = None }.

  (* inv_occ is the statement "each task index is in exactly one of
     {undispatched, in flight to a worker, running on a worker, in flight to the
     master carrying fn g task_i, stored in the results}"; the payload parts are
     in wk_ok / m_ok *)
  Record Inv (st : state) : Prop := {
    inv_len : length (st_w st) = W;
    inv_m : m_ok (st_m st);
    inv_w : forall w wk, nth_error (st_w st) w = Some wk -> wk_ok (m_bc (st_m st)) w wk;
    inv_occ : forall i, occ st i = if i <? n then 1 else 0;
    inv_load : wload (st_w st) + m_recvd (st_m st) = m_sent (st_m st) }.

  (* the state a pool is in between two map calls *)
  Record idle (mf : nat) (wk : worker) : Prop := {
    id_st : w_st wk = WWait;
    id_out : w_out wk = [];
    id_in : no_task (w_in wk);
    id_eff : eff (w_fun wk) (w_in wk) = mf }.

  Lemma idle_wtok : forall mf wk, idle mf wk -> wtok wk = [].
  Proof.
    intros mf wk [A B C D]. unfold wtok. rewrite A, B, (no_task_tags _ C). reflexivity.
  Qed.

  Lemma wsum_zero_all : forall (h : worker -> nat) (ws : list worker),
    (forall wk, In wk ws -> h wk = 0) -> wsum h ws = 0.
  Proof.
    unfold wsum. induction ws as [|a ws IH]; intros H; simpl; [reflexivity|].
    rewrite (H a (or_introl eq_refl)), IH; [reflexivity|]. intros wk Hk. apply H. right. exact Hk.
  Qed.

  (* ---- Inv holds on entry of map ------------------------------------------------- *)
  Lemma inv_init : forall mf ws, length ws = W -> (forall wk, In wk ws -> idle mf wk) ->
    Inv (init cfg mf ws).
  Proof.
    intros mf ws L I. unfold init. constructor; simpl.
    - exact L.
    - constructor; simpl.
      + destruct (g =? mf); lia.
      + reflexivity.
      + lia.
      + intros _. repeat split.
      + intros LB. split; [apply repeat_length|]. split; [|split; [auto|split]].
        * intros i r H. exfalso.
          assert (In (Some r) (repeat (@None R) n)) as HI by (eapply nth_error_In; eauto).
          apply repeat_spec in HI. discriminate.
        * intros w C. discriminate.
        * intros _ C. lia.
      + discriminate.
    - intros w wk H. assert (ID : idle mf wk) by (apply I; eapply nth_error_In; eauto).
      destruct ID as [A B C D]. constructor.
      + intros tag t C'. exfalso. apply (C tag t C').
      + intros tag t C'. rewrite A in C'. discriminate.
      + intros tag r C'. rewrite B in C'. contradiction.
      + apply no_task_fun_ok. exact C.
      + intros Hw. destruct (g =? mf) eqn:E; [|lia]. apply Nat.eqb_eq in E. congruence.
    - intros i. unfold occ, undisp, stored, socc. simpl.
      rewrite wsum_zero_all.
      + assert (S0 : match nth_error (repeat (@None R) n) i with Some (Some _) => 1 | _ => 0 end = 0).
        { destruct (nth_error (repeat (@None R) n) i) as [[r|]|] eqn:E; auto.
          exfalso. assert (In (Some r) (repeat (@None R) n)) as HI by (eapply nth_error_In; eauto).
          apply repeat_spec in HI. discriminate. }
        rewrite S0. destruct lb; destruct (i <? n); reflexivity.
      + intros wk Hk. unfold wocc. rewrite (idle_wtok mf wk (I wk Hk)). reflexivity.
    - unfold wload. rewrite wsum_zero_all; [reflexivity|].
      intros wk Hk. rewrite (idle_wtok mf wk (I wk Hk)). reflexivity.
  Qed.

  Ltac cntn := repeat (rewrite cnt_app || rewrite cnt_cons || rewrite cnt_nil).
  Ltac proj := cbn [st_m st_w m_bc m_sent m_recvd m_acc m_slots m_pend m_done w_fun w_st w_in w_out] in *.

  (* ---- how one worker's tokens change ------------------------------------------- *)
  Definition w_push (wk : worker) (m : wmsg T) : worker :=
    Wk (w_fun wk) (w_st wk) (w_in wk ++ [m]) (w_out wk).

  Lemma wtok_push_fun : forall wk g', wtok (w_push wk (MFun g')) = wtok wk.
  Proof.
    intros. unfold wtok, w_push. proj. rewrite in_tags_app. simpl. rewrite app_nil_r. reflexivity.
  Qed.

  Lemma wocc_push_task : forall wk tag t i, wocc i (w_push wk (MTask tag t)) = wocc i wk + d1 tag i.
  Proof.
    intros. unfold wocc, wtok, w_push. proj. rewrite in_tags_app. simpl.
    cntn. lia.
  Qed.

  Lemma wlen_push_task : forall wk tag t, length (wtok (w_push wk (MTask tag t))) = S (length (wtok wk)).
  Proof.
    intros. unfold wtok, w_push. proj. rewrite in_tags_app. simpl. rewrite !app_length. simpl. lia.
  Qed.

  Lemma wtok_recv_fun : forall wk g' q, w_st wk = WWait -> w_in wk = MFun g' :: q ->
    wtok (Wk g' WWait q (w_out wk)) = wtok wk.
  Proof. intros wk g' q H1 H2. unfold wtok. proj. rewrite H1, H2. reflexivity. Qed.

  Lemma wocc_recv_task : forall wk tag t q i, w_st wk = WWait -> w_in wk = MTask tag t :: q ->
    wocc i (Wk (w_fun wk) (WRun tag t) q (w_out wk)) = wocc i wk.
  Proof.
    intros wk tag t q i H1 H2. unfold wocc, wtok. proj. rewrite H1, H2. simpl.
    cntn. lia.
  Qed.

  Lemma wlen_recv_task : forall wk tag t q, w_st wk = WWait -> w_in wk = MTask tag t :: q ->
    length (wtok (Wk (w_fun wk) (WRun tag t) q (w_out wk))) = length (wtok wk).
  Proof.
    intros wk tag t q H1 H2. unfold wtok. proj. rewrite H1, H2. simpl. rewrite !app_length. simpl. lia.
  Qed.

  Lemma wocc_send : forall wk tag t r i, w_st wk = WRun tag t ->
    wocc i (Wk (w_fun wk) WWait (w_in wk) (w_out wk ++ [(tag, r)])) = wocc i wk.
  Proof.
    intros wk tag t r i H1. unfold wocc, wtok. proj. rewrite H1, map_app. simpl.
    cntn. lia.
  Qed.

  Lemma wlen_send : forall wk tag t r, w_st wk = WRun tag t ->
    length (wtok (Wk (w_fun wk) WWait (w_in wk) (w_out wk ++ [(tag, r)]))) = length (wtok wk).
  Proof.
    intros wk tag t r H1. unfold wtok. proj. rewrite H1, map_app. simpl. rewrite !app_length. simpl. lia.
  Qed.

  Lemma take_tag_spec : forall tag (out : list (nat * R)) r q, take_tag tag out = Some (r, q) ->
    In (tag, r) out /\ (forall x, In x q -> In x out) /\ length out = S (length q) /\
    forall i, cnt i (map fst out) = cnt i (map fst q) + d1 tag i.
  Proof.
    induction out as [|[t0 r0] out IH]; intros r q H; simpl in H; [discriminate|].
    destruct (t0 =? tag) eqn:E.
    - apply Nat.eqb_eq in E. subst t0. injection H as <- <-. repeat split; auto.
      + left. reflexivity.
      + intros x Hx. right. exact Hx.
      + intros i. simpl. rewrite cnt_cons. lia.
    - destruct (take_tag tag out) as [[r' q']|] eqn:Q; [|discriminate]. injection H as <- <-.
      destruct (IH r' q' eq_refl) as (A1 & A2 & A3 & A4). repeat split.
      + right. exact A1.
      + intros x [<-|Hx]; [left; reflexivity|right; apply A2; exact Hx].
      + simpl. lia.
      + intros i. simpl. rewrite !cnt_cons, A4. lia.
  Qed.

  Lemma take_tag_some : forall tag (out : list (nat * R)) r, In (tag, r) out ->
    exists r' q, take_tag tag out = Some (r', q).
  Proof.
    induction out as [|[t0 r0] out IH]; intros r H; [contradiction|]. simpl.
    destruct (t0 =? tag) eqn:E; [eauto|].
    destruct H as [H|H]; [injection H as -> _; rewrite Nat.eqb_refl in E; discriminate|].
    destruct (IH r H) as (r' & q & Q). rewrite Q. eauto.
  Qed.

  Lemma wocc_take : forall wk q tag i, (forall j, cnt j (map fst (w_out wk)) = cnt j (map fst q) + d1 tag j) ->
    wocc i wk = wocc i (Wk (w_fun wk) (w_st wk) (w_in wk) q) + d1 tag i.
  Proof.
    intros wk q tag i H. unfold wocc, wtok. proj. rewrite !cnt_app, H. lia.
  Qed.

  Lemma wlen_take : forall wk q, length (w_out wk) = S (length q) ->
    length (wtok wk) = S (length (wtok (Wk (w_fun wk) (w_st wk) (w_in wk) q))).
  Proof.
    intros wk q H. unfold wtok. proj. rewrite !app_length, !map_length, H. lia.
  Qed.

  (* ---- how one worker's wk_ok is kept ------------------------------------------- *)
  Lemma wk_ok_mono : forall bc bc' w wk, wk_ok bc w wk -> (w < bc' -> w < bc) -> wk_ok bc' w wk.
  Proof. intros bc bc' w wk [A B C D E] H. constructor; auto. Qed.

  Lemma wk_ok_push_fun : forall bc bc' w wk, wk_ok bc w wk -> wk_ok bc' w (w_push wk (MFun g)).
  Proof.
    intros bc bc' w wk [A B C D E]. constructor; unfold w_push; proj; auto.
    - intros tag t H. apply in_app_or in H. destruct H as [H|[H|[]]]; [auto|discriminate].
    - apply fun_ok_app; [exact D|exact I].
    - intros _. rewrite eff_app. reflexivity.
  Qed.

  Lemma wk_ok_push_task : forall bc w wk tag t, wk_ok bc w wk -> w < bc ->
    nth_error tasks tag = Some t -> tag_ok w tag -> wk_ok bc w (w_push wk (MTask tag t)).
  Proof.
    intros bc w wk tag t [A B C D E] Hw Ht Hk. constructor; unfold w_push; proj; auto.
    - intros tg t' H. apply in_app_or in H. destruct H as [H|[H|[]]]; [auto|].
      injection H as <- <-. auto.
    - apply fun_ok_app; [exact D|]. simpl. auto.
    - intros _. rewrite eff_app. simpl. auto.
  Qed.

  Lemma wk_ok_recv_fun : forall bc w wk g' q, wk_ok bc w wk -> w_st wk = WWait -> w_in wk = MFun g' :: q ->
    wk_ok bc w (Wk g' WWait q (w_out wk)).
  Proof.
    intros bc w wk g' q [A B C D E] H1 H2. rewrite H2 in *. constructor; proj; auto.
    - intros tag t H. apply A. right. exact H.
    - discriminate.
  Qed.

  Lemma wk_ok_recv_task : forall bc w wk tag t q, wk_ok bc w wk -> w_st wk = WWait -> w_in wk = MTask tag t :: q ->
    wk_ok bc w (Wk (w_fun wk) (WRun tag t) q (w_out wk)).
  Proof.
    intros bc w wk tag t q [A B C D E] H1 H2. rewrite H2 in *. simpl in D, E. destruct D as [D1 D2].
    constructor; proj; auto.
    - intros tg t' H. apply A. right. exact H.
    - intros tg t' H. injection H as <- <-. destruct (A tag t (or_introl eq_refl)). auto.
  Qed.

  Lemma wk_ok_send : forall bc w wk tag t, wk_ok bc w wk -> w_st wk = WRun tag t ->
    wk_ok bc w (Wk (w_fun wk) WWait (w_in wk) (w_out wk ++ [(tag, fn (w_fun wk) t)])).
  Proof.
    intros bc w wk tag t [A B C D E] H1. destruct (B tag t H1) as (B1 & B2 & B3).
    constructor; proj; auto.
    - discriminate.
    - intros tg r H. apply in_app_or in H. destruct H as [H|[H|[]]]; [auto|].
      injection H as <- <-. rewrite B3. split; [eauto|exact B2].
  Qed.

  Lemma wk_ok_out : forall bc w wk q, wk_ok bc w wk -> (forall x, In x q -> In x (w_out wk)) ->
    wk_ok bc w (Wk (w_fun wk) (w_st wk) (w_in wk) q).
  Proof. intros bc w wk q [A B C D E] H. constructor; proj; auto. Qed.

  Lemma all_upd : forall (P : nat -> worker -> Prop) ws w wk',
    (forall k x, k <> w -> nth_error ws k = Some x -> P k x) -> (w < length ws -> P w wk') ->
    forall k x, nth_error (upd ws w wk') k = Some x -> P k x.
  Proof.
    intros P ws w wk' H1 H2 k x Hk. destruct (Nat.eq_dec k w) as [->|N].
    - assert (L : w < length ws) by (rewrite <- (upd_length _ ws w wk'); eapply nth_error_lt; eauto).
      rewrite nth_error_upd_eq in Hk by exact L. injection Hk as <-. auto.
    - rewrite nth_error_upd_neq in Hk by exact N. eauto.
  Qed.

  Lemma socc_upd : forall ws w wk wk' i, nth_error ws w = Some wk ->
    socc i (upd ws w wk') + wocc i wk = socc i ws + wocc i wk'.
  Proof. intros. unfold socc. apply wsum_upd. assumption. Qed.
  Lemma wload_upd : forall ws w wk wk', nth_error ws w = Some wk ->
    wload (upd ws w wk') + length (wtok wk) = wload ws + length (wtok wk').
  Proof. intros. unfold wload. apply (wsum_upd _ (fun wk => length (wtok wk))). assumption. Qed.

  (* ---- deltas of the master-side counters --------------------------------------- *)
  Lemma undisp_S : forall sent i, sent < n -> undisp sent i = undisp (S sent) i + d1 sent i.
  Proof.
    intros sent i H. unfold undisp, d1.
    destruct (Nat.eq_dec sent i) as [E0|E0]; destruct (Nat.leb_spec sent i); destruct (Nat.leb_spec (S sent) i);
      destruct (Nat.ltb_spec i n); simpl; lia.
  Qed.

  Lemma stored_static_S : forall slots recvd i, lb = false ->
    stored slots (S recvd) i = stored slots recvd i + d1 recvd i.
  Proof.
    intros slots recvd i L. unfold stored, d1. rewrite L.
    destruct (Nat.eq_dec recvd i) as [E0|E0]; destruct (Nat.ltb_spec i (S recvd)); destruct (Nat.ltb_spec i recvd); lia.
  Qed.

  Lemma stored_lb_upd : forall slots recvd recvd' tag r i, lb = true -> tag < length slots ->
    stored slots recvd tag = 0 ->
    stored (upd slots tag (Some r)) recvd' i = stored slots recvd i + d1 tag i.
  Proof.
    intros slots recvd recvd' tag r i L Ht H0. unfold stored, d1 in *. rewrite L in *.
    destruct (Nat.eq_dec tag i) as [<-|N].
    - rewrite nth_error_upd_eq by exact Ht. destruct (nth_error slots tag) as [[x|]|]; [discriminate|reflexivity|reflexivity].
    - rewrite nth_error_upd_neq by congruence. lia.
  Qed.

  (* ---- every step preserves the invariant -------------------------------------- *)
  Lemma inv_worker_update : forall m ws w wk wk',
    Inv (St m ws) -> nth_error ws w = Some wk -> wk_ok (m_bc m) w wk' ->
    (forall i, wocc i wk' = wocc i wk) -> length (wtok wk') = length (wtok wk) ->
    Inv (St m (upd ws w wk')).
  Proof.
    intros m ws w wk wk' [L M WK O Ld] Hw OK Hocc Hlen. proj. constructor; proj.
    - rewrite upd_length. exact L.
    - exact M.
    - apply all_upd; auto.
    - intros i. specialize (O i). unfold occ in *. proj.
      pose proof (socc_upd ws w wk wk' i Hw) as S1. rewrite Hocc in S1. lia.
    - pose proof (wload_upd ws w wk wk' Hw) as S1. rewrite Hlen in S1. lia.
  Qed.

  Lemma inv_wrecv : forall st w k st', Inv st -> step st (EWRecv w k) = Some st' -> Inv st'.
  Proof.
    intros [m ws] w k st' I H. unfold MPI.step in H. proj.
    destruct (nth_error ws w) as [wk|] eqn:Hw; [|discriminate].
    pose proof (inv_w _ I w wk Hw) as OK. proj.
    destruct (w_st wk) as [|rtag rt] eqn:Hs; destruct (w_in wk) as [|[g'|tag t] q] eqn:Hi; destruct k as [tag'|];
      try discriminate.
    - injection H as <-.
      apply (inv_worker_update m ws w wk); auto.
      + apply wk_ok_recv_fun; auto.
      + intros i. unfold wocc. rewrite (wtok_recv_fun wk g' q); auto.
      + rewrite (wtok_recv_fun wk g' q); auto.
    - destruct (tag =? tag') eqn:E; [|discriminate]. injection H as <-.
      apply (inv_worker_update m ws w wk); auto.
      + apply wk_ok_recv_task; auto.
      + intros i. apply wocc_recv_task; auto.
      + apply wlen_recv_task; auto.
  Qed.

  Lemma inv_wsend : forall st w tag st', Inv st -> step st (EWSend w tag) = Some st' -> Inv st'.
  Proof.
    intros [m ws] w tag st' I H. unfold MPI.step in H. proj.
    destruct (nth_error ws w) as [wk|] eqn:Hw; [|discriminate].
    pose proof (inv_w _ I w wk Hw) as OK. proj.
    destruct (w_st wk) as [|tg t] eqn:Hs; [discriminate|].
    destruct (tg =? tag) eqn:E; [|discriminate]. injection H as <-.
    apply (inv_worker_update m ws w wk); auto.
    - apply wk_ok_send; auto.
    - intros i. apply (wocc_send wk tg t); auto.
    - apply (wlen_send wk tg t); auto.
  Qed.

  Lemma inv_sendfun : forall st d st', Inv st -> step st (EMSendFun d) = Some st' -> Inv st'.
  Proof.
    intros [[bc sent recvd acc slots pend done] ws] d st' I H. unfold MPI.step in H. proj.
    destruct (negb done && (bc <? W) && (d =? bc)) eqn:C; [|discriminate]. bools. subst d.
    unfold push_in in H. destruct (nth_error ws bc) as [wk|] eqn:Hw; [|discriminate]. injection H as <-.
    change (Wk (w_fun wk) (w_st wk) (w_in wk ++ [MFun g]) (w_out wk)) with (w_push wk (MFun g)).
    destruct I as [L M WK O Ld]. proj.
    assert (TK : wtok (w_push wk (MFun g)) = wtok wk) by apply wtok_push_fun.
    constructor; proj.
    - rewrite upd_length. exact L.
    - destruct M as [M1 M2 M3 M4 M5 M6]; proj. constructor; proj; auto; try lia.
      intros D. rewrite D in *. discriminate.
    - apply all_upd.
      + intros k x Nk Hk. apply (wk_ok_mono bc (S bc)); [apply WK; exact Hk|lia].
      + intros _. apply (wk_ok_push_fun bc). apply WK. exact Hw.
    - intros i. specialize (O i). unfold occ in *. proj.
      pose proof (socc_upd ws bc wk (w_push wk (MFun g)) i Hw) as S1.
      unfold wocc in S1. rewrite TK in S1. lia.
    - pose proof (wload_upd ws bc wk (w_push wk (MFun g)) Hw) as S1. rewrite TK in S1. lia.
  Qed.

  Lemma inv_send : forall st d tag st', Inv st -> step st (EMSend d tag) = Some st' -> Inv st'.
  Proof.
    intros [[bc sent recvd acc slots pend done] ws] d tag st' I H. unfold MPI.step in H. proj.
    match type of H with (if ?c then _ else _) = _ => destruct c eqn:C; [|discriminate] end.
    apply andb_prop in C. destruct C as [C HB]. bools. subst tag bc.
    destruct (nth_error tasks sent) as [t|] eqn:Ht; [|discriminate].
    unfold push_in in H. destruct (nth_error ws d) as [wk|] eqn:Hw; [|discriminate]. injection H as <-.
    change (Wk (w_fun wk) (w_st wk) (w_in wk ++ [MTask sent t]) (w_out wk)) with (w_push wk (MTask sent t)).
    destruct I as [L M WK O Ld]. proj.
    assert (Hd : d < W) by (rewrite <- L; eapply nth_error_lt; eauto).
    constructor; proj.
    - rewrite upd_length. exact L.
    - destruct M as [M1 M2 M3 M4 M5 M6]; proj. constructor; proj; auto; try lia.
      + intros LB. destruct (M4 LB) as (A1 & A2 & A3). repeat split; auto; intros; apply A2; lia.
      + intros LB. destruct (M5 LB) as (A1 & A2 & A3 & A4 & A5). rewrite LB in HB.
        split; [exact A1|]. split; [exact A2|]. split; [|split].
        * intros. split; [apply A3; lia|reflexivity].
        * intros w C. discriminate.
        * intros _ B1 B2. destruct pend as [w0|].
          -- destruct (A4 w0 eq_refl) as (_ & _ & _ & E). lia.
          -- bools. destruct (A3 ltac:(lia)). lia.
      + intros D. rewrite D in *. discriminate.
    - apply all_upd.
      + intros k x Nk Hk. apply WK. exact Hk.
      + intros _. apply wk_ok_push_task; auto.
        intros LB. rewrite LB in HB. bools. subst d. reflexivity.
    - intros i. specialize (O i). unfold occ in *. proj.
      pose proof (socc_upd ws d wk (w_push wk (MTask sent t)) i Hw) as S1.
      rewrite wocc_push_task in S1. pose proof (undisp_S sent i ltac:(lia)) as U. lia.
    - pose proof (wload_upd ws d wk (w_push wk (MTask sent t)) Hw) as S1.
      rewrite wlen_push_task in S1. lia.
  Qed.

  Lemma inv_recv : forall st src tag st', Inv st -> step st (EMRecv src tag) = Some st' -> Inv st'.
  Proof.
    intros [[bc sent recvd acc slots pend done] ws] src tag st' I H. unfold MPI.step in H. proj.
    destruct (negb done && (bc =? W) && (recvd <? n)) eqn:C; [|discriminate]. bools. subst bc.
    destruct (nth_error ws src) as [wk|] eqn:Hw; [|discriminate].
    destruct I as [L M WK O Ld]. proj.
    assert (Hd : src < W) by (rewrite <- L; eapply nth_error_lt; eauto).
    pose proof (WK src wk Hw) as OK.
    destruct M as [M1 M2 M3 M4 M5 M6]; proj.
    destruct lb eqn:LB.
    - (* load-balanced *)
      destruct ((W <=? sent) && is_none pend) eqn:C2; [|discriminate]. bools.
      destruct pend as [p|]; [discriminate|].
      destruct (w_out wk) as [|[tg r] q] eqn:Ho; [discriminate|].
      destruct ((tg =? tag) && (tag <? length slots)) eqn:C3; [|discriminate]. bools. subst tg.
      injection H as <-.
      destruct (M5 eq_refl) as (A1 & A2 & A3 & A4 & A5).
      assert (HIn : In (tag, r) (w_out wk)) by (rewrite Ho; left; reflexivity).
      destruct (ok_out _ _ _ OK tag r HIn) as [(t & Ht & Hr) _].
      assert (CN : forall j, cnt j (map fst (w_out wk)) = cnt j (map fst q) + d1 tag j).
      { intros j. rewrite Ho. simpl. rewrite cnt_cons. lia. }
      assert (ST0 : stored slots recvd tag = 0).
      { pose proof (O tag) as Ot. unfold occ in Ot. proj.
        pose proof (wsum_ge _ (wocc tag) ws src wk Hw) as G1. fold (socc tag ws) in G1.
        pose proof (wocc_take wk q tag tag CN) as G2.
        assert (d1 tag tag = 1) by (unfold d1; destruct (Nat.eq_dec tag tag); congruence).
        destruct (tag <? n); lia. }
      constructor; proj.
      + rewrite upd_length. exact L.
      + constructor; proj; auto; try lia.
        * intros C. congruence.
        * intros _. split; [rewrite upd_length; exact A1|]. split; [|split; [|split]].
          -- intros i r0 Hi. destruct (Nat.eq_dec i tag) as [->|N].
             ++ rewrite nth_error_upd_eq in Hi by assumption. injection Hi as <-. eauto.
             ++ rewrite nth_error_upd_neq in Hi by exact N. eauto.
          -- intros. lia.
          -- intros w Hp. destruct (Nat.ltb_spec sent n); [|discriminate]. injection Hp as <-.
             pose proof (A5 eq_refl ltac:(assumption) ltac:(assumption)). repeat split; auto; lia.
          -- intros Hp B1 B2. destruct (Nat.ltb_spec sent n); [discriminate|lia].
        * intros D. rewrite D in *. discriminate.
      + apply all_upd.
        * intros k x Nk Hk. apply WK. exact Hk.
        * intros _. apply wk_ok_out; auto. intros x Hx. rewrite Ho. right. exact Hx.
      + intros i. specialize (O i). unfold occ in *. proj.
        pose proof (socc_upd ws src wk (Wk (w_fun wk) (w_st wk) (w_in wk) q) i Hw) as S1.
        pose proof (wocc_take wk q tag i CN) as S2.
        pose proof (stored_lb_upd slots recvd (S recvd) tag r i LB ltac:(assumption) ST0) as S3.
        lia.
      + pose proof (wload_upd ws src wk (Wk (w_fun wk) (w_st wk) (w_in wk) q) Hw) as S1.
        pose proof (wlen_take wk q ltac:(rewrite Ho; reflexivity)) as S2. lia.
    - (* static *)
      destruct ((sent =? n) && (tag =? recvd) && (src =? recvd mod W)) eqn:C2; [|discriminate]. bools.
      subst tag src.
      destruct (take_tag recvd (w_out wk)) as [[r q]|] eqn:TT; [|discriminate]. injection H as <-.
      destruct (take_tag_spec _ _ _ _ TT) as (B1 & B2 & B3 & B4).
      destruct (ok_out _ _ _ OK recvd r B1) as [(t & Ht & Hr) _].
      destruct (M4 eq_refl) as (A1 & A2 & A3).
      constructor; proj.
      + rewrite upd_length. exact L.
      + constructor; proj; auto; try lia.
        * intros _. split; [exact A1|]. split; [intros; lia|].
          rewrite (firstn_S_nth _ _ _ _ Ht), map_app, <- A3, Hr. reflexivity.
        * intros C. congruence.
        * intros D. rewrite D in *. discriminate.
      + apply all_upd.
        * intros k x Nk Hk. apply WK. exact Hk.
        * intros _. apply wk_ok_out; auto.
      + intros i. specialize (O i). unfold occ in *. proj.
        pose proof (socc_upd ws (recvd mod W) wk (Wk (w_fun wk) (w_st wk) (w_in wk) q) i Hw) as S1.
        pose proof (wocc_take wk q recvd i B4) as S2.
        pose proof (stored_static_S slots recvd i LB) as S3. lia.
      + pose proof (wload_upd ws (recvd mod W) wk (Wk (w_fun wk) (w_st wk) (w_in wk) q) Hw) as S1.
        pose proof (wlen_take wk q B3) as S2. lia.
  Qed.

  Lemma inv_ret : forall st st', Inv st -> step st EMRet = Some st' -> Inv st'.
  Proof.
    intros [[bc sent recvd acc slots pend done] ws] st' I H. unfold MPI.step in H. proj.
    match type of H with (if ?c then _ else _) = _ => destruct c eqn:C; [|discriminate] end.
    apply andb_prop in C. destruct C as [C HB]. bools. injection H as <-.
    destruct pend; [discriminate|]. subst bc recvd.
    destruct I as [L M WK O Ld]. proj.
    constructor; proj; auto.
    destruct M as [M1 M2 M3 M4 M5 M6]; proj. constructor; proj; auto.
    intros _. repeat split; auto. lia.
  Qed.

  Theorem step_inv : forall st e st', Inv st -> step st e = Some st' -> Inv st'.
  Proof.
    intros st e st' I H. destruct e.
    - eapply inv_sendfun; eauto.
    - eapply inv_send; eauto.
    - eapply inv_recv; eauto.
    - eapply inv_ret; eauto.
    - eapply inv_wrecv; eauto.
    - eapply inv_wsend; eauto.
  Qed.

  Lemma run_inv : forall evs st st', Inv st -> run_schedule fn cfg st evs = Some st' -> Inv st'.
  Proof.
    induction evs as [|e evs IH]; intros st st' I H; simpl in H.
    - injection H as <-. exact I.
    - destruct (MPI.step fn cfg st e) as [st1|] eqn:S1; [|discriminate].
      eapply IH; [eapply step_inv; eauto|exact H].
  Qed.

  (* ---- what the invariant says once map has returned ------------------------------- *)
  Lemma wload_zero_wtok : forall ws w wk, wload ws = 0 -> nth_error ws w = Some wk -> wtok wk = [].
  Proof.
    intros ws w wk H Hw. pose proof (wsum_ge _ (fun wk => length (wtok wk)) ws w wk Hw) as G.
    unfold wload in H. cbv beta in G. apply length_zero_iff_nil. lia.
  Qed.

  Theorem inv_final : forall st, Inv st -> m_done (st_m st) = true ->
    result cfg st = map Some (map (fn g) tasks) /\ forall wk, In wk (st_w st) -> idle g wk.
  Proof.
    intros [[bc sent recvd acc slots pend done] ws] I D. proj. subst done.
    destruct I as [L M WK O Ld]. proj. destruct M as [M1 M2 M3 M4 M5 M6]. proj.
    destruct (M6 eq_refl) as (E1 & E2 & E3 & E4).
    assert (WL : wload ws = 0) by lia. clear Ld. subst bc sent recvd pend.
    assert (S0 : forall i, socc i ws = 0).
    { intros i. unfold socc. apply wsum_zero_all. intros wk Hk.
      destruct (In_nth_error _ _ Hk) as [w Hw]. unfold wocc. rewrite (wload_zero_wtok ws w wk WL Hw). reflexivity. }
    split.
    - unfold result. proj. destruct lb eqn:LB.
      + destruct (M5 eq_refl) as (A1 & A2 & _). apply nth_error_ext. intros i.
        destruct (Nat.lt_ge_cases i n) as [Hi|Hi].
        * pose proof (O i) as Oi. unfold occ in Oi. proj. rewrite S0 in Oi.
          unfold undisp, stored in Oi. rewrite LB in Oi.
          destruct (Nat.leb_spec n i); [lia|]. destruct (Nat.ltb_spec i n); [|lia]. simpl in Oi.
          destruct (nth_error slots i) as [[r|]|] eqn:Es; try discriminate.
          destruct (A2 i r Es) as (t & Ht & ->).
          symmetry. apply map_nth_error. apply map_nth_error. exact Ht.
        * assert (N1 : nth_error slots i = None) by (apply nth_error_None; lia).
          assert (N2 : nth_error (map Some (map (fn g) tasks)) i = None)
            by (apply nth_error_None; rewrite !map_length; lia).
          congruence.
      + destruct (M4 eq_refl) as (_ & _ & A3). rewrite A3, firstn_all. reflexivity.
    - intros wk Hk. destruct (In_nth_error _ _ Hk) as [w Hw].
      pose proof (wload_zero_wtok ws w wk WL Hw) as TK. unfold wtok in TK.
      apply app_eq_nil in TK. destruct TK as [T1 TK]. apply app_eq_nil in TK. destruct TK as [T2 T3].
      pose proof (WK w wk Hw) as OK. constructor.
      + destruct (w_st wk); [reflexivity|discriminate].
      + apply map_eq_nil in T3. exact T3.
      + apply tags_no_task. exact T1.
      + apply (ok_eff _ _ _ OK). rewrite <- L. eapply nth_error_lt; eauto.
  Qed.

  Lemma fresh_idle : forall k wk, In wk (@fresh_workers T R k) -> idle 0 wk.
  Proof.
    intros k wk H. apply repeat_spec in H. subst wk. constructor; simpl; auto. intros tag t [].
  Qed.

  (* ---- termination measure: every step strictly decreases it ---------------------- *)
  Definition msg_w (m : wmsg T) : nat := match m with MFun _ => 1 | MTask _ _ => 4 end.
  Definition mu_w (wk : worker) : nat :=
    list_sum (map msg_w (w_in wk)) + (match w_st wk with WRun _ _ => 3 | WWait => 0 end) + 2 * length (w_out wk).
  Definition mu_m (m : master) : nat :=
    2 * (W - m_bc m) + 5 * (n - m_sent m) + (match m_pend m with Some _ => 1 | None => 0 end) +
    (if m_done m then 0 else 1).
  Definition mu (st : state) : nat := mu_m (st_m st) + wsum mu_w (st_w st).

  Lemma mu_w_push : forall wk m, mu_w (w_push wk m) = mu_w wk + msg_w m.
  Proof.
    intros. unfold mu_w, w_push. proj. rewrite map_app, list_sum_app. simpl. lia.
  Qed.

  Theorem step_mu : forall st e st', step st e = Some st' -> mu st' < mu st.
  Proof.
    intros [[bc sent recvd acc slots pend done] ws] e st' H. unfold MPI.step in H. proj.
    destruct e as [d|d tag|src tag| |w k|w tag].
    - destruct (negb done && (bc <? W) && (d =? bc)) eqn:C; [|discriminate]. bools. subst d done.
      unfold push_in in H. destruct (nth_error ws bc) as [wk|] eqn:Hw; [|discriminate]. injection H as <-.
      pose proof (wsum_upd _ mu_w ws bc wk (w_push wk (MFun g)) Hw) as S1. rewrite mu_w_push in S1.
      unfold mu, mu_m. proj. unfold w_push in S1. simpl msg_w in S1. lia.
    - match type of H with (if ?c then _ else _) = _ => destruct c eqn:C; [|discriminate] end.
      apply andb_prop in C. destruct C as [C HB]. bools. subst tag bc done.
      destruct (nth_error tasks sent) as [t|] eqn:Ht; [|discriminate].
      unfold push_in in H. destruct (nth_error ws d) as [wk|] eqn:Hw; [|discriminate]. injection H as <-.
      pose proof (wsum_upd _ mu_w ws d wk (w_push wk (MTask sent t)) Hw) as S1. rewrite mu_w_push in S1.
      unfold mu, mu_m. proj. unfold w_push in S1. simpl msg_w in S1. destruct pend; lia.
    - destruct (negb done && (bc =? W) && (recvd <? n)) eqn:C; [|discriminate]. bools. subst bc done.
      destruct (nth_error ws src) as [wk|] eqn:Hw; [|discriminate].
      destruct lb.
      + destruct ((W <=? sent) && is_none pend) eqn:C2; [|discriminate]. bools.
        destruct pend as [p|]; [discriminate|].
        destruct (w_out wk) as [|[tg r] q] eqn:Ho; [discriminate|].
        destruct ((tg =? tag) && (tag <? length slots)) eqn:C3; [|discriminate]. injection H as <-.
        pose proof (wsum_upd _ mu_w ws src wk (Wk (w_fun wk) (w_st wk) (w_in wk) q) Hw) as S1.
        unfold mu, mu_m. proj.
        set (sa := wsum mu_w (upd _ _ _)) in *. set (sb := wsum mu_w ws) in *.
        unfold mu_w in S1. proj. rewrite Ho in S1. simpl length in S1.
        destruct (sent <? n); lia.
      + destruct ((sent =? n) && (tag =? recvd) && (src =? recvd mod W)) eqn:C2; [|discriminate].
        destruct (take_tag tag (w_out wk)) as [[r q]|] eqn:TT; [|discriminate]. injection H as <-.
        destruct (take_tag_spec _ _ _ _ TT) as (_ & _ & B3 & _).
        pose proof (wsum_upd _ mu_w ws src wk (Wk (w_fun wk) (w_st wk) (w_in wk) q) Hw) as S1.
        unfold mu, mu_m. proj.
        set (sa := wsum mu_w (upd _ _ _)) in *. set (sb := wsum mu_w ws) in *.
        unfold mu_w in S1. proj. rewrite B3 in S1. lia.
    - match type of H with (if ?c then _ else _) = _ => destruct c eqn:C; [|discriminate] end.
      apply andb_prop in C. destruct C as [C HB]. bools. subst done. injection H as <-.
      unfold mu, mu_m. proj. lia.
    - destruct (nth_error ws w) as [wk|] eqn:Hw; [|discriminate].
      destruct (w_st wk) as [|rtag rt] eqn:Hs; destruct (w_in wk) as [|[g'|tag t] q] eqn:Hi; destruct k as [tag'|];
        try discriminate.
      + injection H as <-.
        pose proof (wsum_upd _ mu_w ws w wk (Wk g' WWait q (w_out wk)) Hw) as S1.
        unfold mu. proj.
        set (sa := wsum mu_w (upd _ _ _)) in *. set (sb := wsum mu_w ws) in *.
        unfold mu_w in S1. proj. rewrite Hs, Hi in S1. simpl in S1. lia.
      + destruct (tag =? tag'); [|discriminate]. injection H as <-.
        pose proof (wsum_upd _ mu_w ws w wk (Wk (w_fun wk) (WRun tag t) q (w_out wk)) Hw) as S1.
        unfold mu. proj.
        set (sa := wsum mu_w (upd _ _ _)) in *. set (sb := wsum mu_w ws) in *.
        unfold mu_w in S1. proj. rewrite Hs, Hi in S1. simpl in S1. lia.
    - destruct (nth_error ws w) as [wk|] eqn:Hw; [|discriminate].
      destruct (w_st wk) as [|tg t] eqn:Hs; [discriminate|].
      destruct (tg =? tag); [|discriminate]. injection H as <-.
      pose proof (wsum_upd _ mu_w ws w wk (Wk (w_fun wk) WWait (w_in wk) (w_out wk ++ [(tg, fn (w_fun wk) t)])) Hw) as S1.
      unfold mu. proj.
        set (sa := wsum mu_w (upd _ _ _)) in *. set (sb := wsum mu_w ws) in *.
      unfold mu_w in S1. proj. rewrite Hs, app_length in S1. simpl in S1. lia.
  Qed.

  (* no schedule is longer than the measure of the entry state *)
  Theorem run_bounded : forall evs st st', run_schedule fn cfg st evs = Some st' -> length evs + mu st' <= mu st.
  Proof.
    induction evs as [|e evs IH]; intros st st' H; simpl in H.
    - injection H as <-. simpl. lia.
    - destruct (MPI.step fn cfg st e) as [st1|] eqn:S1; [|discriminate].
      pose proof (step_mu _ _ _ S1). pose proof (IH _ _ H). simpl. lia.
  Qed.

  (* ---- progress: a state in which map has not returned is never stuck ------------- *)
  Lemma worker_can_move : forall m ws w wk, nth_error ws w = Some wk ->
    (exists e st', step (St m ws) e = Some st') \/ (w_st wk = WWait /\ w_in wk = []).
  Proof.
    intros m ws w wk Hw. destruct (w_st wk) as [|tg t] eqn:Hs.
    - destruct (w_in wk) as [|[g'|tag t] q] eqn:Hi.
      + right. auto.
      + left. exists (EWRecv w None). unfold MPI.step. proj. rewrite Hw, Hs, Hi. eauto.
      + left. exists (EWRecv w (Some tag)). unfold MPI.step. proj. rewrite Hw, Hs, Hi, Nat.eqb_refl. eauto.
    - left. exists (EWSend w tg). unfold MPI.step. proj. rewrite Hw, Hs, Nat.eqb_refl. eauto.
  Qed.

  Theorem progress : forall st, Inv st -> m_done (st_m st) = false -> exists e st', step st e = Some st'.
  Proof.
    intros [[bc sent recvd acc slots pend done] ws] I D. proj. subst done.
    destruct I as [L M WK O Ld]. proj. destruct M as [M1 M2 M3 M4 M5 M6]. proj.
    destruct (Nat.lt_ge_cases bc W) as [Hb|Hb].
    - destruct (nth_error_ex _ ws bc ltac:(lia)) as [wk Hw].
      exists (EMSendFun bc). unfold MPI.step, push_in. proj.
      rewrite (proj2 (Nat.ltb_lt _ _) Hb), Nat.eqb_refl, Hw. simpl. eauto.
    - assert (bc = W) by lia. subst bc. clear M1 Hb M2.
      assert (Hrn : recvd <= n) by lia.
      destruct lb eqn:LB.
      + (* load-balanced branch *)
        destruct (M5 eq_refl) as (A1 & A2 & A3 & A4 & A5).
        assert (Wn : W < n).
        { unfold use_lb in LB. apply andb_prop in LB. destruct LB as [_ LB]. apply Nat.ltb_lt in LB. exact LB. }
        destruct pend as [p|].
        * destruct (A4 p eq_refl) as (B1 & B2 & B3 & B4).
          destruct (nth_error_ex _ tasks sent B2) as [t Ht].
          destruct (nth_error_ex _ ws p ltac:(lia)) as [wk Hw].
          exists (EMSend p sent). unfold MPI.step, push_in. proj.
          rewrite !Nat.eqb_refl, (proj2 (Nat.ltb_lt _ _) B2), LB, Ht, Hw. simpl. eauto.
        * destruct (Nat.lt_ge_cases sent W) as [Hs|Hs].
          -- destruct (nth_error_ex _ tasks sent ltac:(lia)) as [t Ht].
             destruct (nth_error_ex _ ws sent ltac:(lia)) as [wk Hw].
             exists (EMSend sent sent). unfold MPI.step, push_in. proj.
             rewrite !Nat.eqb_refl, (proj2 (Nat.ltb_lt sent n) ltac:(lia)), LB,
               (proj2 (Nat.ltb_lt _ _) Hs), Ht, Hw. simpl. eauto.
          -- destruct (Nat.eq_dec recvd n) as [E|E].
             ++ exists EMRet. unfold MPI.step. proj.
                rewrite !Nat.eqb_refl, (proj2 (Nat.eqb_eq _ _) E), LB, (proj2 (Nat.leb_le _ _) Hs). simpl. eauto.
             ++ assert (LP : 0 < wload ws).
                { destruct (Nat.lt_ge_cases sent n) as [Q|Q]; [pose proof (A5 eq_refl Hs Q)|]; lia. }
                destruct (wsum_pos _ _ ws LP) as (w & wk & Hw & Hpos).
                destruct (worker_can_move (Ms W sent recvd acc slots None false) ws w wk Hw) as [MV|[Hs' Hi]];
                  [exact MV|].
                unfold wtok in Hpos. rewrite Hs', Hi in Hpos. simpl in Hpos. rewrite map_length in Hpos.
                destruct (w_out wk) as [|[tg r] q] eqn:Ho; [simpl in Hpos; lia|].
                destruct (ok_out _ _ _ (WK w wk Hw) tg r ltac:(rewrite Ho; left; reflexivity)) as [(t & Ht & _) _].
                assert (Htg : tg < n) by (eapply nth_error_lt; eauto).
                exists (EMRecv w tg). unfold MPI.step. proj.
                rewrite !Nat.eqb_refl, (proj2 (Nat.ltb_lt recvd n) ltac:(lia)), Hw, LB,
                  (proj2 (Nat.leb_le _ _) Hs), Ho, A1, (proj2 (Nat.ltb_lt _ _) Htg), ?Nat.eqb_refl. simpl. eauto.
      + (* static branch *)
        destruct (M4 eq_refl) as (A1 & A2 & A3). subst pend.
        destruct (Nat.lt_ge_cases sent n) as [Hs|Hs].
        * destruct (nth_error_ex _ tasks sent Hs) as [t Ht].
          assert (Hm : sent mod W < W) by (apply Nat.mod_upper_bound; lia).
          destruct (nth_error_ex _ ws (sent mod W) ltac:(lia)) as [wk Hw].
          exists (EMSend (sent mod W) sent). unfold MPI.step, push_in. proj.
          rewrite !Nat.eqb_refl, (proj2 (Nat.ltb_lt _ _) Hs), LB, Ht, Hw. simpl. eauto.
        * assert (sent = n) by lia. revert Ld. subst sent. intros Ld.
          destruct (Nat.eq_dec recvd n) as [E|E].
          -- exists EMRet. unfold MPI.step. proj.
             rewrite !Nat.eqb_refl, (proj2 (Nat.eqb_eq _ _) E), LB. simpl. eauto.
          -- pose proof (O recvd) as Or. unfold occ in Or. proj. unfold undisp, stored in Or. rewrite LB in Or.
             destruct (Nat.leb_spec n recvd); [lia|]. destruct (Nat.ltb_spec recvd n); [|lia].
             destruct (Nat.ltb_spec recvd recvd); [lia|]. simpl in Or.
             assert (SP : 0 < wsum (wocc recvd) ws) by (unfold socc in Or; lia).
             destruct (wsum_pos _ _ ws SP) as (w & wk & Hw & Hpos).
             destruct (worker_can_move (Ms W n recvd acc slots None false) ws w wk Hw) as [MV|[Hs' Hi]];
               [exact MV|].
             apply cnt_pos_In in Hpos. unfold wtok in Hpos. rewrite Hs', Hi in Hpos. simpl in Hpos.
             apply in_map_iff in Hpos. destruct Hpos as ([tg r] & Etg & Hin). simpl in Etg. subst tg.
             destruct (ok_out _ _ _ (WK w wk Hw) recvd r Hin) as [_ TK].
             specialize (TK LB). subst w.
             destruct (take_tag_some recvd (w_out wk) r Hin) as (r' & q & TT).
             exists (EMRecv (recvd mod W) recvd). unfold MPI.step. proj.
             rewrite !Nat.eqb_refl, (proj2 (Nat.ltb_lt recvd n) ltac:(lia)), Hw, LB, TT. simpl. eauto.
  Qed.

  (* from every reachable state some schedule leads to map having returned, and
     (run_bounded) no schedule at all is longer than mu: every maximal run is
     finite and ends with map returned *)
  Theorem completes : forall k st, mu st <= k -> Inv st ->
    exists evs st', run_schedule fn cfg st evs = Some st' /\ m_done (st_m st') = true.
  Proof.
    induction k as [|k IH]; intros st Hk I.
    - destruct (m_done (st_m st)) eqn:D; [exists [], st; auto|].
      destruct (progress st I D) as (e & st1 & S1). pose proof (step_mu _ _ _ S1). lia.
    - destruct (m_done (st_m st)) eqn:D; [exists [], st; auto|].
      destruct (progress st I D) as (e & st1 & S1). pose proof (step_mu _ _ _ S1) as Lt.
      destruct (IH st1 ltac:(lia) (step_inv _ _ _ I S1)) as (evs & st' & R1 & R2).
      exists (e :: evs), st'. simpl. rewrite S1. auto.
  Qed.
End MPIProofs.

(* ------------------------------------------------------------------------- *)
(* closed statements                                                           *)
(* ------------------------------------------------------------------------- *)
Section Statements.
  Variables (T R : Type).
  Variable fn : nat -> T -> R.

  (* a pool between two map calls: every worker blocked in recv, nothing in
     flight except function wrappers, and the function each worker will have
     when it reaches its next task is the master's self.function (mf) *)
  Definition pool_idle (W mf : nat) (ws : list (worker T R)) : Prop :=
    length ws = W /\ forall wk, In wk ws -> idle T R mf wk.

  Lemma fresh_pool_idle : forall W, pool_idle W 0 (fresh_workers W).
  Proof.
    intros W. split; [apply repeat_length|]. intros wk H. eapply fresh_idle; eauto.
  Qed.

  Definition reachable (cfg : config T) (mf : nat) (ws : list (worker T R)) (st : state T R) : Prop :=
    exists evs, run_schedule fn cfg (init cfg mf ws) evs = Some st.

  Lemma reachable_inv : forall cfg mf ws st, 0 < c_W cfg -> pool_idle (c_W cfg) mf ws ->
    reachable cfg mf ws st -> Inv T R fn cfg st.
  Proof.
    intros cfg mf ws st HW [L I] [evs H].
    apply (run_inv T R fn cfg HW evs (init cfg mf ws) st); [apply inv_init; assumption|exact H].
  Qed.

  (* SAFETY.  Inv (whose clause inv_occ says: each task index is in exactly one
     of the five places) holds on entry, is preserved by every step, hence holds
     in every reachable state; when map has returned, for ALL schedules, the
     returned list is map f tasks and the pool is idle again with self.function
     = this batch's function (so the next batch starts from the same kind of state). *)
  Theorem mpi_safety_full : forall cfg mf ws, 0 < c_W cfg -> pool_idle (c_W cfg) mf ws ->
    Inv T R fn cfg (init cfg mf ws) /\
    (forall st e st', Inv T R fn cfg st -> step fn cfg st e = Some st' -> Inv T R fn cfg st') /\
    (forall st, reachable cfg mf ws st ->
       (forall i, occ T R cfg st i = if i <? length (c_tasks cfg) then 1 else 0) /\
       (m_done (st_m st) = true ->
          result cfg st = map Some (map (fn (c_g cfg)) (c_tasks cfg)) /\
          pool_idle (c_W cfg) (c_g cfg) (st_w st))).
  Proof.
    intros cfg mf ws HW PI. split; [destruct PI; apply inv_init; assumption|].
    split; [intros st e st'; apply step_inv; exact HW|].
    intros st Hr. pose proof (reachable_inv cfg mf ws st HW PI Hr) as I.
    split; [apply (inv_occ _ _ _ _ _ I)|].
    intros D. destruct (inv_final T R fn cfg HW st I D) as [A B].
    split; [exact A|]. split; [apply (inv_len _ _ _ _ _ I)|exact B].
  Qed.

  (* PROGRESS.  A reachable state in which map has not returned is never stuck;
     every step strictly decreases the measure mu, so no schedule is longer than
     mu of the entry state and every maximal schedule ends with map returned. *)
  Theorem mpi_progress_full : forall cfg mf ws st, 0 < c_W cfg -> pool_idle (c_W cfg) mf ws ->
    reachable cfg mf ws st ->
    (m_done (st_m st) = false -> exists e st', step fn cfg st e = Some st') /\
    (forall e st', step fn cfg st e = Some st' -> mu T R cfg st' < mu T R cfg st) /\
    (exists evs st', run_schedule fn cfg st evs = Some st' /\ m_done (st_m st') = true).
  Proof.
    intros cfg mf ws st HW PI Hr. pose proof (reachable_inv cfg mf ws st HW PI Hr) as I.
    split; [intros D; apply (progress T R fn cfg HW st I D)|].
    split; [intros e st'; apply step_mu; exact HW|].
    apply (completes T R fn cfg HW (mu T R cfg st)); [lia|exact I].
  Qed.

  Theorem mpi_schedules_bounded : forall cfg mf ws evs st, 0 < c_W cfg ->
    run_schedule fn cfg (init cfg mf ws) evs = Some st -> length evs <= mu T R cfg (init cfg mf ws).
  Proof. intros cfg mf ws evs st HW H. pose proof (run_bounded T R fn cfg HW evs _ _ H). lia. Qed.

  (* consecutive batches on one pool *)
  Theorem mpi_session_safety : forall W lbflag bs mf ws rs, 0 < W -> pool_idle W mf ws ->
    run_session fn W lbflag mf ws bs = Some rs ->
    rs = map (fun b => map Some (map (fn (fst (fst b))) (snd (fst b)))) bs.
  Proof.
    intros W lbflag. induction bs as [|[[gb tb] eb] bs IH]; intros mf ws rs HW PI H; simpl in H.
    - injection H as <-. reflexivity.
    - unfold accepts_run in H.
      destruct (run_schedule fn (Cfg W gb tb lbflag) (init (Cfg W gb tb lbflag) mf ws) eb) as [st|] eqn:RS;
        [|discriminate].
      destruct (m_done (st_m st)) eqn:D; [|discriminate].
      destruct (mpi_safety_full (Cfg W gb tb lbflag) mf ws HW PI) as (_ & _ & F).
      destruct (F st (ex_intro _ eb RS)) as [_ F2]. destruct (F2 D) as [A B]. simpl in A, B.
      destruct (run_session fn W lbflag gb (st_w st) bs) as [rs'|] eqn:RS2; [|discriminate].
      injection H as <-. simpl. rewrite A. f_equal. apply (IH gb (st_w st)); assumption.
  Qed.
End Statements.

(* non-vacuity: 2 workers, 3 tasks, both branches, on a fresh pool; in the
   load-balanced run worker 1 answers twice before worker 0 answers at all, so the
   results ARRIVE in the order 1,2,0 and are still returned in task order *)
Definition ex_fn (gnum : nat) (t : nat) : nat := gnum * 1000 + t.
Definition ex_static : list ev :=
  [EMSendFun 0; EMSendFun 1; EMSend 0 0; EMSend 1 1; EMSend 0 2; EWRecv 1 None; EWRecv 1 (Some 1); EWSend 1 1;
   EWRecv 0 None; EWRecv 0 (Some 0); EWSend 0 0; EWRecv 0 (Some 2); EWSend 0 2;
   EMRecv 0 0; EMRecv 1 1; EMRecv 0 2; EMRet].
Definition ex_lb : list ev :=
  [EMSendFun 0; EMSendFun 1; EMSend 0 0; EMSend 1 1; EWRecv 1 None; EWRecv 1 (Some 1); EWSend 1 1;
   EMRecv 1 1; EMSend 1 2; EWRecv 1 (Some 2); EWSend 1 2; EMRecv 1 2;
   EWRecv 0 None; EWRecv 0 (Some 0); EWSend 0 0; EMRecv 0 0; EMRet].
Example mpi_ex :
  option_map fst (accepts_run ex_fn (Cfg 2 1 [10;20;30] false) 0 (fresh_workers 2) ex_static)
    = Some [Some 1010; Some 1020; Some 1030] /\
  option_map fst (accepts_run ex_fn (Cfg 2 1 [10;20;30] true) 0 (fresh_workers 2) ex_lb)
    = Some [Some 1010; Some 1020; Some 1030] /\
  run_session ex_fn 2 true 0 (fresh_workers 2) [(1, [10;20;30], ex_lb); (1, [], [EMRet]); (2, [7], [EMSendFun 0; EMSendFun 1; EMSend 0 0; EWRecv 0 None; EWRecv 0 (Some 0); EWSend 0 0; EMRecv 0 0; EMRet])]
    = Some [[Some 1010; Some 1020; Some 1030]; []; [Some 2007]].
Proof. repeat split. Qed.
(* a state with the master blocked and nothing stored yet still has enabled events *)
Example mpi_enabled_ex :
  enabled ex_fn (Cfg 2 1 [10;20;30] true)
    (match run_schedule ex_fn (Cfg 2 1 [10;20;30] true) (init (Cfg 2 1 [10;20;30] true) 0 (fresh_workers 2))
             [EMSendFun 0; EMSendFun 1; EMSend 0 0; EMSend 1 1]
     with Some st => st | None => init (Cfg 2 1 [10;20;30] true) 0 (fresh_workers 2) end)
  = [EWRecv 0 None; EWRecv 1 None].
Proof. reflexivity. Qed.
