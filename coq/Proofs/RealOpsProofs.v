From PV Require Import Base.Num Base.FVal Base.Tape Model.Operators Model.RealOps.
