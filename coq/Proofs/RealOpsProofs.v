(* Proofs about Model/RealOps.v, for ALL tapes (i.e. whatever the unmodelled float arithmetic
   produced and whatever the random stream did):
   - every variable a real-valued operator writes is [clip candidate lb ub] (UM: the
     uniform(lb,ub) draw), hence inside its bounds and not NaN (Base/FVal.clip_range_x);
   - flag discipline per operator;
   - SBX treats its parents symmetrically on one-variable problems (and the pre-fix test
     `dx > EPSILON` does not: Example);
   - PCX / UNDX meet no zero divisor (exact rationals, repaired orthogonalize), and the
     pre-fix orthogonalize divides by zero on parents 1/4, 3/4, 1/2 (Example). *)
From Coq Require Import ZArith QArith Qabs Qreduction Bool List Lia Lqa Permutation.
From PV Require Import Base.Num Base.Order Base.FVal Base.Tape Model.Operators Model.RealOps Proofs.OperatorsProofs.
Import ListNotations.
Open Scope res_scope.

Section RealProofs.
  Variable E : Type.
  Variable P : Type.
  Notation var := (var E).
  Notation vtype := (vtype E).
  Notation sol := (sol E P).
  Notation valid_var := (valid_var E).
  Notation wf_type := (wf_type E).
  Notation valid_vars := (valid_vars E).
  Notation valid_sol := (valid_sol E P).
  Notation copied_from := (copied_from E P).

  Lemma clip_valid lb ub c : wf_type (TReal lb ub) -> valid_var (TReal lb ub) (VReal (clip c (FX lb) (FX ub))).
  Proof. intro W. simpl in *. now apply clip_in_bounds. Qed.

  (* ================================================================ PM / UM / UniformMutation / NonUniformMutation *)
  Lemma pm_step_valid pe : step_valid E (pm_step E pe).
  Proof.
    intros ty v t v' t1 W V H. destruct ty as [lb ub| | |]; simpl in H; try (inversion H; fail).
    destruct (get_unif t) as [[u t0]|]; simpl in H; [|discriminate].
    destruct (xleb u pe); [|inversion H].
    destruct v; try discriminate.
    destruct (get_unif t0) as [[u2 t2]|]; simpl in H; [|discriminate].
    destruct (get_val t2) as [[c t3]|]; simpl in H; [|discriminate].
    inversion H; subst. now apply clip_valid.
  Qed.

  Theorem pm_valid pr ts fresh p t c f t' :
    Forall wf_type ts -> valid_sol ts p -> pm E P pr ts fresh p t = Ok (c, f, t') ->
    valid_sol ts c /\ copied_from c p /\ sid c = fresh /\ f = S fresh.
  Proof.
    intros WF V H. unfold pm in H.
    destruct (eff_prob pr (count_real E ts)) as [pe|]; simpl in H; [|discriminate].
    eapply mutation_of_valid; eauto using pm_step_valid.
  Qed.

  (* over Q: the interpolation lb*(1-r) + ub*r stays inside [lb, ub] for r in [0, 1] *)
  Lemma um_interp_in_bounds (a b r : Q) : (a <= b)%Q -> (0 <= r)%Q -> (r <= 1)%Q ->
    (a <= a * (1 - r) + b * r)%Q /\ (a * (1 - r) + b * r <= b)%Q.
  Proof. intros. split; nra. Qed.

  Lemma xleb_Fin x y : xleb (Fin x) (Fin y) = true <-> (x <= y)%Q.
  Proof. unfold xleb. simpl. rewrite negb_true_iff. apply Qltb_false. Qed.

  Lemma um_value_valid lb ub t x t' : xleb lb ub = true -> um_value lb ub t = Ok (x, t') -> in_bounds lb ub x.
  Proof.
    intros W H. unfold um_value in H. destruct lb as [|a|], ub as [|b|]; try discriminate.
    apply xleb_Fin in W.
    destruct (Qle_bool FLOAT_OVERFLOW (b - a)).
    - destruct (get_rand t) as [[r t2]|] eqn:Er; cbn [bind] in H; [|discriminate].
      apply get_rand_ok in Er. destruct Er as (_ & R0 & R1). inversion H; subst.
      destruct (um_interp_in_bounds a b r W R0) as [A B]; [lra|].
      pose proof (Qred_correct (a * (1 - r) + b * r)) as Rq.
      unfold in_bounds, in_boundsb. apply andb_true_iff. split; apply xleb_Fin; rewrite Rq; assumption.
    - destruct (get_unif_in (Fin a) (Fin b) t) as [[q t2]|] eqn:Eq; cbn [bind] in H; [|discriminate].
      inversion H; subst. apply get_unif_in_ok in Eq. destruct Eq as (_ & A & B).
      unfold in_bounds, in_boundsb. now rewrite A, B.
  Qed.

  Lemma um_step_valid praw : step_valid E (um_step E praw).
  Proof.
    intros ty v t v' t1 W V H. destruct ty as [lb ub| | |]; simpl in H; try (inversion H; fail).
    destruct (get_unif t) as [[u t0]|]; simpl in H; [|discriminate].
    destruct (xleb u praw); [|inversion H].
    destruct v; try discriminate.
    destruct (um_value lb ub t0) as [[xv t2]|] eqn:Ev; cbn [bind] in H; [|discriminate].
    inversion H; subst. simpl. eapply um_value_valid; eauto.
  Qed.

  (* UM writes the uniform(lb, ub) draw itself (in bounds by the range contract of the primitive) or, when the
     width ub - lb overflows, the interpolation lb*(1-r) + ub*r with r = random.random() in [0,1) *)
  Theorem um_valid pr ts fresh p t c f t' :
    Forall wf_type ts -> valid_sol ts p -> um E P pr ts fresh p t = Ok (c, f, t') ->
    valid_sol ts c /\ copied_from c p /\ sid c = fresh /\ f = S fresh.
  Proof.
    intros WF V H. unfold um in H.
    destruct (eff_prob pr (count_real E ts)) as [pe|]; simpl in H; [|discriminate].
    eapply mutation_of_valid; eauto using um_step_valid.
  Qed.

  Lemma uniform_mutation_step_valid p : step_valid E (uniform_mutation_step E p).
  Proof.
    intros ty v t v' t1 W V H. unfold uniform_mutation_step in H.
    destruct (get_unif t) as [[u t0]|]; simpl in H; [|discriminate].
    destruct (xleb u p); [|inversion H].
    destruct ty as [lb ub| | |]; try discriminate. destruct v; try discriminate.
    destruct (get_unif t0) as [[u2 t2]|]; simpl in H; [|discriminate].
    destruct (get_val t2) as [[c t3]|]; simpl in H; [|discriminate].
    inversion H; subst. now apply clip_valid.
  Qed.

  Theorem uniform_mutation_valid p ts fresh s t c f t' :
    Forall wf_type ts -> valid_sol ts s -> uniform_mutation E P p ts fresh s t = Ok (c, f, t') ->
    valid_sol ts c /\ copied_from c s /\ sid c = fresh /\ f = S fresh.
  Proof. intros. eapply mutation_of_valid; eauto using uniform_mutation_step_valid. Qed.

  Lemma non_uniform_mutation_step_valid p : step_valid E (non_uniform_mutation_step E p).
  Proof.
    intros ty v t v' t1 W V H. unfold non_uniform_mutation_step in H.
    destruct (get_unif t) as [[u t0]|]; simpl in H; [|discriminate].
    destruct (xleb u p); [|inversion H].
    destruct ty as [lb ub| | |]; try discriminate. destruct v; try discriminate.
    destruct (get_bit t0) as [[b t2]|]; simpl in H; [|discriminate].
    destruct (get_unif t2) as [[u2 t3]|]; simpl in H; [|discriminate].
    destruct (get_val t3) as [[c t4]|]; simpl in H; [|discriminate].
    inversion H; subst. now apply clip_valid.
  Qed.

  Theorem non_uniform_mutation_valid p ts fresh s t c f t' :
    Forall wf_type ts -> valid_sol ts s -> non_uniform_mutation E P p ts fresh s t = Ok (c, f, t') ->
    valid_sol ts c /\ copied_from c s /\ sid c = fresh /\ f = S fresh.
  Proof. intros. eapply mutation_of_valid; eauto using non_uniform_mutation_step_valid. Qed.

  (* ================================================================ SBX *)
  Lemma sbx_step_gen_valid test : xstep_valid E (sbx_step_gen E test).
  Proof.
    intros ty a b t a' b' t1 W Va Vb H. destruct ty as [lb ub| | |]; simpl in H; try (inversion H; fail).
    destruct (get_unif t) as [[u t0]|]; simpl in H; [|discriminate].
    destruct (xleb u half); [|inversion H].
    destruct a as [[|[|x1|]]| | |]; try discriminate. destruct b as [[|[|x2|]]| | |]; try discriminate.
    destruct (test x1 x2).
    - destruct (get_unif t0) as [[u2 t2]|]; simpl in H; [|discriminate].
      destruct (get_bit t2) as [[bt t3]|]; simpl in H; [|discriminate].
      destruct (get_val t3) as [[c1 t4]|]; simpl in H; [|discriminate].
      destruct (get_val t4) as [[c2 t5]|]; simpl in H; [|discriminate].
      inversion H; subst. split; now apply clip_valid.
    - inversion H; subst. auto.
  Qed.

  Theorem sbx_valid pr ts fresh p1 p2 t cs f t' :
    Forall wf_type ts -> valid_sol ts p1 -> valid_sol ts p2 ->
    sbx E P pr ts fresh [p1; p2] t = Ok (cs, f, t') -> two_children_ok E P ts fresh p1 p2 cs f.
  Proof. intros. eapply guarded_crossover_of_valid; eauto using sbx_step_gen_valid. Qed.

  Lemma sbx_test_sym x1 x2 : sbx_test x1 x2 = sbx_test x2 x1.
  Proof. unfold sbx_test. now rewrite Qabs_Qminus. Qed.

  (* SBX on a one-variable problem: exchanging the parents under the same tape gives the same
     multiset of offspring values *)
  Theorem sbx_symmetric_1var pr lb ub fresh p1 p2 x1 x2 t cs f t' :
    vars p1 = [VReal (FX (Fin x1))] -> vars p2 = [VReal (FX (Fin x2))] ->
    sbx E P pr [TReal lb ub] fresh [p1; p2] t = Ok (cs, f, t') ->
    exists ds, sbx E P pr [TReal lb ub] fresh [p2; p1] t = Ok (ds, f, t') /\
               Permutation (map vars cs) (map vars ds).
  Proof.
    intros V1 V2 H. unfold sbx, guarded_crossover_of in *. simpl in *.
    destruct (get_unif t) as [[u t0]|]; simpl in *; [|discriminate].
    destruct (xleb u pr).
    - rewrite V1, V2 in *. simpl in *. unfold sbx_step, sbx_step_gen in *.
      destruct (get_unif t0) as [[u1 t1]|]; simpl in *; [|discriminate].
      destruct (xleb u1 half).
      + rewrite (sbx_test_sym x2 x1). destruct (sbx_test x1 x2).
        * destruct (get_unif t1) as [[u2 t2]|]; simpl in *; [|discriminate].
          destruct (get_bit t2) as [[bt t3]|]; simpl in *; [|discriminate].
          destruct (get_val t3) as [[c1 t4]|]; simpl in *; [|discriminate].
          destruct (get_val t4) as [[c2 t5]|]; simpl in *; [|discriminate].
          inversion H; subst. eexists. split; [reflexivity|]. simpl. reflexivity.
        * simpl in *. inversion H; subst. eexists. split; [reflexivity|]. simpl. apply perm_swap.
      + simpl in *. inversion H; subst. eexists. split; [reflexivity|]. simpl. apply perm_swap.
    - inversion H; subst. eexists. split; [reflexivity|]. simpl. rewrite V1, V2. apply perm_swap.
  Qed.

  (* ================================================================ DE *)
  Lemma de_loop_valid cr jrand p1 p2 p3 : forall ts vs j t vs' w t',
    Forall wf_type ts -> valid_vars ts vs ->
    de_loop E cr jrand p1 p2 p3 ts vs j t = Ok (vs', w, t') ->
    valid_vars ts vs' /\ (w = false -> vs' = vs).
  Proof.
    induction ts as [|ty ts IH]; intros vs j t vs' w t' WF V H.
    - simpl in H. inversion H; subst. auto.
    - inversion V as [|? v ? vr Hv Hr]; subst. inversion WF as [|? ? Wty Wts]; subst.
      cbn [de_loop] in H.
      destruct (get_unif t) as [[u t1]|]; cbn [bind] in H; [|discriminate].
      match type of H with bind ?X _ = _ => destruct X as [[o t2]|] eqn:Eo end; cbn [bind] in H; [|discriminate].
      destruct (de_loop E cr jrand p1 p2 p3 ts vr (S j) t2) as [[[vs2 w2] t3]|] eqn:El; cbn [bind] in H; [|discriminate].
      inversion H; subst; clear H.
      destruct (IH _ _ _ _ _ _ Wts Hr El) as [V2 F2].
      assert (Vo : match o with Some v' => valid_var ty v' | None => True end).
      { destruct (xleb u cr || Nat.eqb j jrand); [|inversion Eo; subst; exact I].
        destruct (nth_res p1 j); cbn [bind] in Eo; [|discriminate].
        destruct (nth_res p2 j); cbn [bind] in Eo; [|discriminate].
        destruct (nth_res p3 j); cbn [bind] in Eo; [|discriminate].
        destruct (is_real E a && is_real E a0 && is_real E a1); [|discriminate].
        destruct ty as [lb ub| | |]; try discriminate.
        destruct (get_val t1) as [[y ty']|]; cbn [bind] in Eo; [|discriminate].
        inversion Eo; subst. now apply clip_valid. }
      split.
      + constructor; auto. destruct o; auto.
      + destruct o; simpl; [discriminate|]. intro W. now rewrite (F2 W).
  Qed.

  Theorem de_valid cr ts fresh ps t cs f t' p0 :
    Forall wf_type ts -> nth_error ps 0 = Some p0 -> valid_sol ts p0 ->
    de E P cr ts fresh ps t = Ok (cs, f, t') ->
    exists c, cs = [c] /\ valid_sol ts c /\ copied_from c p0 /\ sid c = fresh.
  Proof.
    intros WF H0 V H. unfold de in H. unfold nth_res in H at 1. rewrite H0 in H. cbn [bind] in H.
    destruct (get_idx (length ts) t) as [[jr t1]|]; cbn [bind] in H; [|discriminate].
    destruct (nth_res ps 1) as [p1|]; cbn [bind] in H; [|discriminate].
    destruct (nth_res ps 2) as [p2|]; cbn [bind] in H; [|discriminate].
    destruct (nth_res ps 3) as [p3|]; cbn [bind] in H; [|discriminate].
    destruct (de_loop E cr jr (vars p1) (vars p2) (vars p3) ts (vars p0) 0 t1) as [[[vs w] t2]|] eqn:El;
      cbn [bind] in H; [|discriminate].
    inversion H; subst.
    destruct (de_loop_valid _ _ _ _ _ _ _ _ _ _ _ _ WF V El) as [V' F'].
    eexists. split; [reflexivity|]. split; [exact V'|]. split; [now apply copied_from_mk_child|reflexivity].
  Qed.

  (* ================================================================ PCX / UNDX / SPX: every variable through clip *)
  Lemma clip_all_valid : forall ts t vs t', Forall wf_type ts -> clip_all E ts t = Ok (vs, t') -> valid_vars ts vs.
  Proof.
    induction ts as [|ty ts IH]; intros t vs t' WF H; simpl in H.
    - inversion H; subst. constructor.
    - inversion WF as [|? ? Wty Wts]; subst. destruct ty as [lb ub| | |]; try discriminate.
      destruct (get_val t) as [[c t1]|]; simpl in H; [|discriminate].
      destruct (clip_all E ts t1) as [[l t2]|] eqn:El; simpl in H; [|discriminate].
      inversion H; subst. constructor; [now apply clip_valid|]. eapply IH; eauto.
  Qed.

  (* offspring of the multi-parent operators: valid, marked not evaluated, payload of a parent *)
  Definition fresh_children (ts : list vtype) (ps cs : list sol) : Prop :=
    Forall (fun c => valid_sol ts c /\ evaluated c = false /\ exists p, In p ps /\ payload c = payload p) cs.

  Lemma pcx_one_child skip ts fresh ps t c t' : Forall wf_type ts ->
    pcx_one E P skip ts fresh ps t = Ok (c, t') ->
    valid_sol ts c /\ evaluated c = false /\ exists p, In p ps /\ payload c = payload p.
  Proof.
    intros WF H. unfold pcx_one in H.
    destruct (nth_res ps 0); cbn [bind] in H; [|discriminate].
    destruct (qvecs_of E P ps) as [x|]; cbn [bind] in H; [|discriminate].
    destruct (centroid x (length ts)) as [g|]; cbn [bind] in H; [|discriminate].
    destruct (nth_res x (length ps - 1)) as [xl|]; cbn [bind] in H; [|discriminate].
    destruct (pcx_basis skip g (firstn (length ps - 1) x) [vsub xl g] t) as [[e_eta t1]|]; cbn [bind] in H; [|discriminate].
    destruct (qdiv 1 (inject_Z (Z.of_nat (length ps - 1)))); cbn [bind] in H; [|discriminate].
    destruct (get_gauss t1) as [[g1 t2]|]; cbn [bind] in H; [|discriminate].
    destruct (get_gauss t2) as [[g2 t3]|]; cbn [bind] in H; [|discriminate].
    destruct (nth_res ps (length ps - 1)) as [pl|] eqn:El; cbn [bind] in H; [|discriminate].
    destruct (clip_all E ts t3) as [[vs t4]|] eqn:Ec; cbn [bind] in H; [|discriminate].
    inversion H; subst. split; [|split; [reflexivity|]].
    - unfold valid_sol, OperatorsProofs.valid_sol. simpl. eapply clip_all_valid; eauto.
    - exists pl. split; [|reflexivity]. apply nth_res_ok in El. eapply nth_error_In; eauto.
  Qed.

  Theorem pcx_valid skip ts : Forall wf_type ts -> forall noff fresh ps t cs f t',
    pcx_loop E P skip ts noff fresh ps t = Ok (cs, f, t') -> fresh_children ts ps cs.
  Proof.
    intros WF. induction noff as [|m IH]; intros fresh ps t cs f t' H; cbn [pcx_loop] in H.
    - inversion H; subst. constructor.
    - destruct (get_idx (length ps) t) as [[index t1]|]; cbn [bind] in H; [|discriminate].
      destruct (nth_res ps index) as [pi|] eqn:Ei; cbn [bind] in H; [|discriminate].
      destruct (nth_res ps (length ps - 1)) as [pl|] eqn:El; cbn [bind] in H; [|discriminate].
      set (ps' := upd (length ps - 1) pi (upd index pl ps)) in *.
      destruct (pcx_one E P skip ts fresh ps' t1) as [[c t2]|] eqn:Eo; cbn [bind] in H; [|discriminate].
      destruct (pcx_loop E P skip ts m (S fresh) ps' t2) as [[[cs' f'] t3]|] eqn:Er; cbn [bind] in H; [|discriminate].
      inversion H; subst; clear H.
      assert (Inc : forall p, In p ps' -> In p ps).
      { intros p Hp. unfold ps' in Hp. apply nth_res_ok in Ei, El.
        apply upd_In in Hp. destruct Hp as [->|Hp]; [eapply nth_error_In; eauto|].
        apply upd_In in Hp. destruct Hp as [->|Hp]; [eapply nth_error_In; eauto|auto]. }
      constructor.
      + destruct (pcx_one_child _ _ _ _ _ _ _ WF Eo) as (A & B & p & Hp & Ep). repeat split; auto. eauto.
      + specialize (IH _ _ _ _ _ _ Er). unfold fresh_children in *. rewrite Forall_forall in *.
        intros x Hx. destruct (IH x Hx) as (A & B & p & Hp & Ep). repeat split; auto. eauto.
  Qed.

  Lemma undx_one_child skip ts fresh ps t c t' : Forall wf_type ts ->
    undx_one E P skip ts fresh ps t = Ok (c, t') ->
    valid_sol ts c /\ evaluated c = false /\ exists p, In p ps /\ payload c = payload p.
  Proof.
    intros WF H. unfold undx_one in H.
    destruct (nth_res ps 0); cbn [bind] in H; [|discriminate].
    destruct (qvecs_of E P ps) as [x|]; cbn [bind] in H; [|discriminate].
    destruct (centroid x (length ts)) as [g|]; cbn [bind] in H; [|discriminate].
    destruct (undx_zeta skip g (firstn (length ps - 1) x) [] t) as [[e_zeta t1]|]; cbn [bind] in H; [|discriminate].
    destruct (nth_res x (length ps - 1)) as [xl|]; cbn [bind] in H; [|discriminate].
    destruct (get_nonneg t1) as [[D t2]|]; cbn [bind] in H; [|discriminate].
    destruct (undx_eta skip (length ts) D (length ts - length e_zeta) [] t2) as [[e_eta t3]|]; cbn [bind] in H; [|discriminate].
    destruct (get_gausses (length e_zeta) t3) as [[g1 t4]|]; cbn [bind] in H; [|discriminate].
    destruct (get_gausses (length e_eta - 1) t4) as [[g2 t5]|]; cbn [bind] in H; [|discriminate].
    destruct (nth_res ps (length ps - 1)) as [pl|] eqn:El; cbn [bind] in H; [|discriminate].
    destruct (clip_all E ts t5) as [[vs t6]|] eqn:Ec; cbn [bind] in H; [|discriminate].
    inversion H; subst. split; [|split; [reflexivity|]].
    - unfold valid_sol, OperatorsProofs.valid_sol. simpl. eapply clip_all_valid; eauto.
    - exists pl. split; [|reflexivity]. apply nth_res_ok in El. eapply nth_error_In; eauto.
  Qed.

  Theorem undx_valid skip ts : Forall wf_type ts -> forall noff fresh ps t cs f t',
    undx_loop E P skip ts noff fresh ps t = Ok (cs, f, t') -> fresh_children ts ps cs.
  Proof.
    intros WF. induction noff as [|m IH]; intros fresh ps t cs f t' H; cbn [undx_loop] in H.
    - inversion H; subst. constructor.
    - destruct (undx_one E P skip ts fresh ps t) as [[c t1]|] eqn:Eo; cbn [bind] in H; [|discriminate].
      destruct (undx_loop E P skip ts m (S fresh) ps t1) as [[[cs' f'] t2]|] eqn:Er; cbn [bind] in H; [|discriminate].
      inversion H; subst; clear H. constructor; [eapply undx_one_child; eauto|eapply IH; eauto].
  Qed.

  Lemma spx_loop_valid ts plast n : Forall wf_type ts -> forall noff fresh t cs f t',
    spx_loop E P ts plast n noff fresh t = Ok (cs, f, t') ->
    Forall (fun c => valid_sol ts c /\ evaluated c = false /\ payload c = payload plast) cs.
  Proof.
    intros WF. induction noff as [|m IH]; intros fresh t cs f t' H; cbn [spx_loop] in H.
    - inversion H; subst. constructor.
    - destruct (get_unifs (n - 1) t) as [[us t1]|]; cbn [bind] in H; [|discriminate].
      destruct (clip_all E ts t1) as [[vs t2]|] eqn:Ec; cbn [bind] in H; [|discriminate].
      destruct (spx_loop E P ts plast n m (S fresh) t2) as [[[cs' f'] t3]|] eqn:Er; cbn [bind] in H; [|discriminate].
      inversion H; subst; clear H. constructor; [|eapply IH; eauto].
      split; [|split; reflexivity]. unfold valid_sol. simpl. eapply clip_all_valid; eauto.
  Qed.

  Theorem spx_valid ts noff fresh ps t cs f t' : Forall wf_type ts ->
    spx E P noff ts fresh ps t = Ok (cs, f, t') -> fresh_children ts ps cs.
  Proof.
    intros WF H. unfold spx in H.
    destruct (nth_res ps 0); cbn [bind] in H; [|discriminate].
    destruct (qvecs_of E P ps) as [x|]; cbn [bind] in H; [|discriminate].
    destruct (centroid x (length ts)); cbn [bind] in H; [|discriminate].
    destruct (nth_res ps (length ps - 1)) as [plast|] eqn:El; cbn [bind] in H; [|discriminate].
    pose proof (spx_loop_valid ts plast (length ps) WF _ _ _ _ _ _ H) as X.
    unfold fresh_children. rewrite Forall_forall in *. intros c Hc. destruct (X c Hc) as (A & B & C).
    repeat split; auto. exists plast. split; auto. apply nth_res_ok in El. eapply nth_error_In; eauto.
  Qed.
End RealProofs.

(* ================================================================ division safety of PCX / UNDX
   (vector algebra over exact Q) *)
Local Open Scope Q_scope.

Definition div_safe {A} (r : res A) : Prop :=
  match r with Err EZeroDiv => False | Err EValue => False | _ => True end.

Lemma div_safe_bind {A B} (r : res A) (f : A -> res B) :
  div_safe r -> (forall a, r = Ok a -> div_safe (f a)) -> div_safe (bind r f).
Proof. destruct r; simpl; auto. Qed.

Fixpoint sumsq (v : qvec) : Q := match v with [] => 0 | c :: r => c * c + sumsq r end.

Lemma sumsq_nonneg v : 0 <= sumsq v.
Proof. induction v as [|c r IH]; simpl; [lra|]. nra. Qed.

Lemma dot_from_self : forall v acc, dot_from acc v v == acc + sumsq v.
Proof.
  induction v as [|c r IH]; intro acc; simpl.
  - ring.
  - rewrite IH. setoid_rewrite (Qred_correct (acc + c * c)). ring.
Qed.

Lemma EPSILON_pos : 0 < EPSILON.
Proof. reflexivity. Qed.

(* a vector that fails is_zero has a component of magnitude >= EPSILON, so dot(v,v) > 0 *)
Lemma is_zero_false_sumsq v : is_zero v = false -> 0 < sumsq v.
Proof.
  induction v as [|c r IH]; simpl; [discriminate|].
  intro H. apply andb_false_iff in H. pose proof (sumsq_nonneg r) as N. destruct H as [H|H].
  - apply Qltb_false in H. pose proof EPSILON_pos as Ep.
    assert (0 < c * c).
    { destruct (Qlt_le_dec c 0) as [L|L].
      - nra.
      - rewrite Qabs_pos in H by exact L. nra. }
    lra.
  - specialize (IH H). nra.
Qed.

Lemma is_zero_false_dot v : is_zero v = false -> Qeq_bool (dot v v) 0 = false.
Proof.
  intro H. destruct (Qeq_bool (dot v v) 0) eqn:Eb; [|reflexivity].
  apply Qeq_bool_iff in Eb. unfold dot in Eb. rewrite dot_from_self in Eb.
  pose proof (is_zero_false_sumsq v H). lra.
Qed.

Lemma project_ok u v : is_zero v = false -> exists p, project u v = Ok p.
Proof.
  intro H. unfold project, qdiv. rewrite (is_zero_false_dot v H). simpl. eauto.
Qed.

(* the repaired orthogonalize never divides by zero — whatever vectors it is given *)
Lemma orthogonalize_total : forall vs u, exists u', orthogonalize u vs = Ok u'.
Proof.
  unfold orthogonalize. induction vs as [|w r IH]; intro u; cbn [orthogonalize_gen]; [eauto|].
  destruct (is_zero w) eqn:Ez; cbn [andb]; [apply IH|].
  destruct (project_ok u w Ez) as [p Ep]. rewrite Ep. cbn [bind]. apply IH.
Qed.

Lemma normalize_div_safe u t : is_zero u = false -> div_safe (normalize u t).
Proof.
  intro H. unfold normalize. rewrite H. unfold qdiv. rewrite (is_zero_false_dot u H). simpl.
  destruct t as [|[q0|n0|b0|q0|p0|l0|v0|q0] r]; simpl; auto. destruct v0 as [|[|q1|]]; simpl; auto. destruct (Qltb 0 q1); simpl; auto.
Qed.

Lemma get_val_div_safe t : div_safe (get_val t).
Proof. destruct t as [|[] r]; simpl; auto. Qed.
Lemma get_nonneg_div_safe t : div_safe (get_nonneg t).
Proof. destruct t as [|[q0|n0|b0|q0|p0|l0|v0|q0] r]; simpl; auto. destruct v0 as [|[|q1|]]; simpl; auto. destruct (Qle_bool 0 q1); simpl; auto. Qed.
Lemma get_gauss_div_safe t : div_safe (get_gauss t).
Proof. destruct t as [|[] r]; simpl; auto. Qed.
Lemma get_gausses_div_safe : forall n t, div_safe (get_gausses n t).
Proof.
  induction n as [|n IH]; intro t; simpl; auto.
  apply div_safe_bind; [apply get_gauss_div_safe|]. intros [q t1] _.
  apply div_safe_bind; [apply IH|]. intros [l t2] _. exact I.
Qed.
Lemma finite_all_div_safe : forall l, div_safe (finite_all l).
Proof.
  induction l as [|[|q|] r IH]; simpl; auto.
  apply div_safe_bind; auto. intros a _. exact I.
Qed.

Section DivSafe.
  Variable E : Type.
  Variable P : Type.
  Notation sol := (sol E P).

  Lemma qvec_of_div_safe : forall vs, div_safe (qvec_of E vs).
  Proof.
    induction vs as [|v r IH]; simpl; auto.
    destruct v as [[|[|q|]]| | |]; simpl; auto.
    apply div_safe_bind; auto. intros a _. exact I.
  Qed.
  Lemma qvecs_of_div_safe : forall ps : list sol, div_safe (qvecs_of E P ps).
  Proof.
    induction ps as [|p r IH]; simpl; auto.
    apply div_safe_bind; [apply qvec_of_div_safe|]. intros a _.
    apply div_safe_bind; auto. intros b _. exact I.
  Qed.
  Lemma clip_all_div_safe : forall ts t, div_safe (clip_all E ts t).
  Proof.
    induction ts as [|ty ts IH]; intro t; simpl; auto.
    destruct ty; simpl; auto.
    apply div_safe_bind; [apply get_val_div_safe|]. intros [c t1] _.
    apply div_safe_bind; [apply IH|]. intros [l t2] _. exact I.
  Qed.
  Lemma nth_res_div_safe {A} (l : list A) i : div_safe (nth_res l i).
  Proof. unfold nth_res. destruct (nth_error l i); simpl; auto. Qed.

  Lemma qvecs_of_length : forall (ps : list sol) x, qvecs_of E P ps = Ok x -> length x = length ps.
  Proof.
    induction ps as [|p r IH]; intros x H; simpl in H.
    - inversion H; reflexivity.
    - destruct (qvec_of E (vars p)); cbn [bind] in H; [|discriminate].
      destruct (qvecs_of E P r) eqn:Er; cbn [bind] in H; [|discriminate].
      inversion H; subst. simpl. f_equal. now apply IH.
  Qed.

  Lemma centroid_div_safe x n : x <> [] -> div_safe (centroid x n).
  Proof. intro H. unfold centroid. destruct x; [congruence|]. simpl. exact I. Qed.

  Lemma pcx_basis_div_safe g : forall xs e_eta t, div_safe (pcx_basis true g xs e_eta t).
  Proof.
    induction xs as [|x r IH]; intros e_eta t; cbn [pcx_basis]; [exact I|].
    destruct (negb (is_zero (vsub x g))); [|apply IH].
    destruct (orthogonalize_total e_eta (vsub x g)) as [e Ee]. unfold orthogonalize in Ee. rewrite Ee. cbn [bind].
    destruct (is_zero e) eqn:Ez; cbn [negb]; [apply IH|].
    apply div_safe_bind; [apply get_val_div_safe|]. intros [m t1] _.
    apply div_safe_bind; [now apply normalize_div_safe|]. intros [ne t2] _. apply IH.
  Qed.

  Lemma qdiv_nat_div_safe k : (1 <= k)%nat -> div_safe (qdiv 1 (inject_Z (Z.of_nat k))).
  Proof.
    intro H. unfold qdiv. destruct (Qeq_bool (inject_Z (Z.of_nat k)) 0) eqn:Eb; simpl; auto.
    apply Qeq_bool_iff in Eb. unfold Qeq, inject_Z in Eb. simpl in Eb. lia.
  Qed.

  Lemma pcx_one_div_safe ts fresh ps t : (2 <= length ps)%nat -> div_safe (pcx_one E P true ts fresh ps t).
  Proof.
    intro L. unfold pcx_one.
    apply div_safe_bind; [apply nth_res_div_safe|]. intros p0 _.
    apply div_safe_bind; [apply qvecs_of_div_safe|]. intros x Ex.
    apply div_safe_bind.
    { apply centroid_div_safe. apply qvecs_of_length in Ex. destruct x; simpl in *; [lia|congruence]. }
    intros g _.
    apply div_safe_bind; [apply nth_res_div_safe|]. intros xl _.
    apply div_safe_bind; [apply pcx_basis_div_safe|]. intros [e_eta t1] _.
    apply div_safe_bind; [apply qdiv_nat_div_safe; lia|]. intros q _.
    apply div_safe_bind; [apply get_gauss_div_safe|]. intros [g1 t2] _.
    apply div_safe_bind; [apply get_gauss_div_safe|]. intros [g2 t3] _.
    apply div_safe_bind; [apply nth_res_div_safe|]. intros pl _.
    apply div_safe_bind; [apply clip_all_div_safe|]. intros [vs t4] _. exact I.
  Qed.

  Lemma get_idx_div_safe n t : (0 < n)%nat -> div_safe (get_idx n t).
  Proof.
    intro H. unfold get_idx. destruct n; [lia|]. destruct t as [|[] r]; simpl; auto.
    destruct (Nat.ltb n0 (S n)); simpl; auto.
  Qed.

  (* PCX: with at least two parents — identical parents, the last parent at the centroid,
     collinear parents included — no division by zero (dot(v,v) in project, k-1, the
     magnitude in normalize, the k of the centroid) and no normalize of a zero vector,
     for every number of offspring and every tape *)
  Theorem pcx_division_safe ts : forall noff fresh ps t, (2 <= length ps)%nat ->
    div_safe (pcx E P noff ts fresh ps t).
  Proof.
    unfold pcx. induction noff as [|m IH]; intros fresh ps t L; cbn [pcx_loop]; [exact I|].
    apply div_safe_bind; [apply get_idx_div_safe; lia|]. intros [index t1] _.
    apply div_safe_bind; [apply nth_res_div_safe|]. intros pi _.
    apply div_safe_bind; [apply nth_res_div_safe|]. intros pl _.
    assert (L' : (2 <= length (upd (length ps - 1) pi (upd index pl ps)))%nat) by (now rewrite !upd_length).
    apply div_safe_bind; [now apply pcx_one_div_safe|]. intros [c t2] _.
    apply div_safe_bind; [now apply IH|]. intros [[cs f] t3] _. exact I.
  Qed.

  Lemma undx_zeta_div_safe g : forall xs e_zeta t, div_safe (undx_zeta true g xs e_zeta t).
  Proof.
    induction xs as [|x r IH]; intros e_zeta t; cbn [undx_zeta]; [exact I|].
    destruct (negb (is_zero (vsub x g))); [|apply IH].
    apply div_safe_bind; [apply get_nonneg_div_safe|]. intros [dbar t1] _.
    destruct (orthogonalize_total e_zeta (vsub x g)) as [e Ee]. unfold orthogonalize in Ee. rewrite Ee. cbn [bind].
    destruct (is_zero e) eqn:Ez; cbn [negb]; [apply IH|].
    apply div_safe_bind; [now apply normalize_div_safe|]. intros [ne t2] _. apply IH.
  Qed.

  Lemma undx_eta_div_safe n D : forall cnt e_eta t, div_safe (undx_eta true n D cnt e_eta t).
  Proof.
    induction cnt as [|c IH]; intros e_eta t; cbn [undx_eta]; [exact I|].
    apply div_safe_bind; [apply get_gausses_div_safe|]. intros [gs t1] _.
    apply div_safe_bind; [apply finite_all_div_safe|]. intros d _.
    destruct (negb (is_zero d)); [|apply IH].
    destruct (orthogonalize_total e_eta d) as [e Ee]. unfold orthogonalize in Ee. rewrite Ee. cbn [bind].
    destruct (is_zero e) eqn:Ez; cbn [negb]; [apply IH|].
    apply div_safe_bind; [now apply normalize_div_safe|]. intros [ne t2] _. apply IH.
  Qed.

  Lemma undx_one_div_safe ts fresh ps t : (1 <= length ps)%nat -> div_safe (undx_one E P true ts fresh ps t).
  Proof.
    intro L. unfold undx_one.
    apply div_safe_bind; [apply nth_res_div_safe|]. intros p0 _.
    apply div_safe_bind; [apply qvecs_of_div_safe|]. intros x Ex.
    apply div_safe_bind.
    { apply centroid_div_safe. apply qvecs_of_length in Ex. destruct x; simpl in *; [lia|congruence]. }
    intros g _.
    apply div_safe_bind; [apply undx_zeta_div_safe|]. intros [e_zeta t1] _.
    apply div_safe_bind; [apply nth_res_div_safe|]. intros xl _.
    apply div_safe_bind; [apply get_nonneg_div_safe|]. intros [D t2] _.
    apply div_safe_bind; [apply undx_eta_div_safe|]. intros [e_eta t3] _.
    apply div_safe_bind; [apply get_gausses_div_safe|]. intros [g1 t4] _.
    apply div_safe_bind; [apply get_gausses_div_safe|]. intros [g2 t5] _.
    apply div_safe_bind; [apply nth_res_div_safe|]. intros pl _.
    apply div_safe_bind; [apply clip_all_div_safe|]. intros [vs t6] _. exact I.
  Qed.

  (* UNDX: the same, incl. D = 0 (identical parents / last parent at the centroid), where the
     e_eta vectors are zero vectors and the repaired orthogonalize skips them *)
  Theorem undx_division_safe ts : forall noff fresh ps t, (2 <= length ps)%nat ->
    div_safe (undx E P noff ts fresh ps t).
  Proof.
    unfold undx. induction noff as [|m IH]; intros fresh ps t L; cbn [undx_loop]; [exact I|].
    apply div_safe_bind; [apply undx_one_div_safe; lia|]. intros [c t1] _.
    apply div_safe_bind; [now apply IH|]. intros [[cs f] t2] _. exact I.
  Qed.
End DivSafe.

Local Close Scope Q_scope.

(* ================================================================ concrete examples (E = Z, payload = unit) *)
Definition ex_sol (i : nat) (q : Q) : sol Z unit := mkSol i [VReal (FX (Fin q))] true tt.
Definition ex_types : list (vtype Z) := [TReal (FZ 0) (FZ 1)].
Definition ex_val (q : Q) : draw := DVal (FX (Fin q)).

(* the OLD orthogonalize (no is_zero skip) divides by zero on parents 1/4, 3/4, 1/2: the last
   parent is the centroid, e_eta[0] is the zero vector, project divides by dot(v,v) = 0 *)
Example pcx_old_divides_by_zero :
  pcx_old Z unit 1 ex_types 3%nat [ex_sol 0 (1#4); ex_sol 1 (3#4); ex_sol 2 (1#2)] [DIdx 2] = Err EZeroDiv.
Proof. vm_compute. reflexivity. Qed.

(* the repaired code returns an offspring on the same parents (non-vacuity of pcx_division_safe) *)
Example pcx_centroid_ok :
  exists c f, pcx Z unit 1 ex_types 3%nat [ex_sol 0 (1#4); ex_sol 1 (3#4); ex_sol 2 (1#2)]
                  [DIdx 2; ex_val (1#4); ex_val (1#4); DGauss (FZ 0); DGauss (FZ 0); ex_val (1#2)] = Ok ([c], f, [])
              /\ vars c = [VReal (FX (Fin (1#2)))] /\ evaluated c = false.
Proof. eexists _, _. vm_compute. repeat split. Qed.

Definition ex_types2 : list (vtype Z) := [TReal (FZ 0) (FZ 1); TReal (FZ 0) (FZ 1)].
Definition ex_sol2 (i : nat) (a b : Q) : sol Z unit := mkSol i [VReal (FX (Fin a)); VReal (FX (Fin b))] true tt.

(* UNDX, identical parents (D = 0): old code divides by zero, repaired code returns *)
Example undx_old_divides_by_zero :
  undx_old Z unit 1 ex_types2 2%nat [ex_sol2 0 (1#2) (1#4); ex_sol2 1 (1#2) (1#4)]
    [ex_val 0; DGauss (FZ 1); DGauss (FZ 0); ex_val 1; DGauss (FZ 0); DGauss (FZ 1)] = Err EZeroDiv.
Proof. vm_compute. reflexivity. Qed.

Example undx_identical_ok :
  exists c f, undx Z unit 1 ex_types2 2%nat [ex_sol2 0 (1#2) (1#4); ex_sol2 1 (1#2) (1#4)]
    [ex_val 0; DGauss (FZ 1); DGauss (FZ 0); ex_val 1; DGauss (FZ 0); DGauss (FZ 1); ex_val 1; DGauss (FZ 0);
     ex_val (1#2); ex_val (1#4)] = Ok ([c], f, []) /\ evaluated c = false.
Proof. eexists _, _. vm_compute. repeat split. Qed.

(* SBX before fix dbd2833 (`dx = x2 - x1; if dx > EPSILON`) is NOT symmetric: parents (0.8, 0.2)
   are returned unchanged, (0.2, 0.8) are recombined, under the same tape *)
Definition sbx_tape : tape := [DUnif (FZ 0); DUnif (FZ 0); DUnif (F 1 (-1)); DBit false; ex_val (3#10); ex_val (6#10)].

Example sbx_old_asymmetric :
  map vars (match sbx_old Z unit (FZ 1) ex_types 2%nat [ex_sol 0 (4#5); ex_sol 1 (1#5)] sbx_tape with Ok (cs, _, _) => cs | _ => [] end)
    = [[VReal (FX (Fin (4#5)))]; [VReal (FX (Fin (1#5)))]]
  /\ map vars (match sbx_old Z unit (FZ 1) ex_types 2%nat [ex_sol 0 (1#5); ex_sol 1 (4#5)] sbx_tape with Ok (cs, _, _) => cs | _ => [] end)
    = [[VReal (FX (Fin (3#10)))]; [VReal (FX (Fin (6#10)))]].
Proof. split; vm_compute; reflexivity. Qed.

(* the repaired SBX recombines both orders to the same offspring (non-vacuity of sbx_symmetric_1var) *)
Example sbx_symmetric_example :
  map vars (match sbx Z unit (FZ 1) ex_types 2%nat [ex_sol 0 (4#5); ex_sol 1 (1#5)] sbx_tape with Ok (cs, _, _) => cs | _ => [] end)
  = map vars (match sbx Z unit (FZ 1) ex_types 2%nat [ex_sol 0 (1#5); ex_sol 1 (4#5)] sbx_tape with Ok (cs, _, _) => cs | _ => [] end)
  /\ map vars (match sbx Z unit (FZ 1) ex_types 2%nat [ex_sol 0 (4#5); ex_sol 1 (1#5)] sbx_tape with Ok (cs, _, _) => cs | _ => [] end)
     = [[VReal (FX (Fin (3#10)))]; [VReal (FX (Fin (6#10)))]].
Proof. split; vm_compute; reflexivity. Qed.
