(* Proofs/FuturesProofs.v — result collection is in job order for every
   completion schedule; evaluate_all pairing; experiment filing. *)
From Coq Require Import ZArith List Bool Lia Permutation PeanoNat.
Import ListNotations.
From PV Require Import Model.Chunks Proofs.ChunksProofs Model.Futures.
Open Scope nat_scope.

(* ------------------------------------------------------------------------- *)
(* generic list facts                                                          *)
(* ------------------------------------------------------------------------- *)
Lemma firstn_S_nth_error : forall (A : Type) (l : list A) n x,
  nth_error l n = Some x -> firstn (S n) l = firstn n l ++ [x].
Proof.
  induction l as [|a l IH]; intros [|n] x H; simpl in *; try discriminate.
  - injection H as ->. reflexivity.
  - f_equal. apply IH. exact H.
Qed.

Section FuturesProofs.
  Variables (J R : Type).
  Variable f : J -> R.
  Notation cells := (list (option R)).

  (* ---- fill ---- *)
  Lemma fill_some : forall (cs : cells) i v, nth_error cs i = Some None -> exists cs', fill cs i v = Some cs'.
  Proof.
    induction cs as [|c cs IH]; intros [|i] v H; simpl in *; try discriminate.
    - injection H as ->. eexists; reflexivity.
    - destruct (IH i v H) as [cs' E]. rewrite E.
      destruct c; eexists; reflexivity.
  Qed.

  Lemma fill_spec : forall (cs : cells) i v cs', fill cs i v = Some cs' ->
    nth_error cs i = Some None /\ length cs' = length cs /\ nth_error cs' i = Some (Some v) /\
    forall k, k <> i -> nth_error cs' k = nth_error cs k.
  Proof.
    induction cs as [|c cs IH]; intros [|i] v cs' H; simpl in H; try discriminate.
    - destruct c; [discriminate|]. injection H as <-. repeat split.
      intros [|k] Hk; [congruence|reflexivity].
    - assert (E : option_map (cons c) (fill cs i v) = Some cs') by (destruct c; exact H).
      destruct (fill cs i v) as [cs1|] eqn:Q; [|discriminate]. injection E as <-.
      destruct (IH i v cs1 Q) as (A1 & A2 & A3 & A4). simpl. repeat split; auto.
      intros [|k] Hk; [reflexivity|]. simpl. apply A4. congruence.
  Qed.

  (* every filled cell i holds f(jobs[i]) *)
  Definition cells_ok (jobs : list J) (cs : cells) : Prop :=
    length cs = length jobs /\
    forall i v, nth_error cs i = Some (Some v) -> exists j, nth_error jobs i = Some j /\ v = f j.

  Lemma cells_ok_empty : forall jobs, cells_ok jobs (empty_cells (length jobs)).
  Proof.
    intros jobs. split; [apply repeat_length|].
    intros i v H. exfalso. unfold empty_cells in H.
    assert (In (Some v) (repeat (@None R) (length jobs))) as HI by (eapply nth_error_In; eauto).
    apply repeat_spec in HI. discriminate.
  Qed.

  Lemma empty_cells_nth : forall n i, i < n -> nth_error (@empty_cells R n) i = Some None.
  Proof.
    induction n as [|n IH]; intros [|i] H; simpl; try lia; [reflexivity|]. apply IH. lia.
  Qed.

  Lemma cells_ok_fill : forall jobs cs i j cs', cells_ok jobs cs -> nth_error jobs i = Some j ->
    fill cs i (f j) = Some cs' -> cells_ok jobs cs'.
  Proof.
    intros jobs cs i j cs' [L V] Hj E. destruct (fill_spec _ _ _ _ E) as (A1 & A2 & A3 & A4).
    split; [congruence|]. intros k v Hk. destruct (Nat.eq_dec k i) as [->|N].
    - rewrite A3 in Hk. injection Hk as <-. eauto.
    - rewrite A4 in Hk by exact N. eauto.
  Qed.

  (* ---- collect ---- *)
  Lemma collect_full : forall (cs : cells) jobs, cells_ok jobs cs ->
    (forall i, nth_error cs i <> Some None) -> collect cs = Some (map f jobs).
  Proof.
    induction cs as [|c cs IH]; intros jobs [L V] F.
    - destruct jobs; [reflexivity|discriminate].
    - destruct jobs as [|j jobs]; [discriminate|]. simpl in L.
      destruct c as [v|]; [|exfalso; apply (F 0%nat); reflexivity].
      simpl. rewrite (IH jobs).
      + destruct (V 0%nat v eq_refl) as (j' & Hj & ->). simpl in Hj. injection Hj as ->. reflexivity.
      + split; [lia|]. intros i w H. apply (V (S i) w H).
      + intros i. apply (F (S i)).
  Qed.

  Lemma collect_app : forall (a b : cells),
    collect (a ++ b) = match collect a, collect b with Some x, Some y => Some (x ++ y) | _, _ => None end.
  Proof.
    induction a as [|c a IH]; intros b; simpl.
    - destruct (collect b); reflexivity.
    - destruct c; [|reflexivity]. rewrite IH.
      destruct (collect a), (collect b); reflexivity.
  Qed.

  Lemma extend_all_concat : forall (chs : list cells) acc,
    extend_all acc chs = match collect (concat chs) with Some r => Some (acc ++ r) | None => None end.
  Proof.
    induction chs as [|ch chs IH]; intros acc; simpl.
    - rewrite app_nil_r. reflexivity.
    - rewrite collect_app. destruct (collect ch) as [got|]; [|reflexivity].
      rewrite IH. destruct (collect (concat chs)); [|reflexivity]. rewrite app_assoc. reflexivity.
  Qed.

  (* reading the futures chunk by chunk is reading them all in order, for every chunk size *)
  Lemma collect_chunked_eq : forall k (cs : cells), collect_chunked k cs = collect cs.
  Proof.
    intros k cs. unfold collect_chunked. rewrite extend_all_concat, chunks_concat.
    destruct (collect cs); reflexivity.
  Qed.

  (* ---- any completion order ---- *)
  Lemma run_fills_ok : forall jobs sched cs, cells_ok jobs cs -> NoDup sched ->
    (forall i, In i sched -> nth_error cs i = Some None) ->
    exists cs', run_fills f jobs cs sched = Some cs' /\ cells_ok jobs cs' /\
      forall i, nth_error cs' i = Some None -> nth_error cs i = Some None /\ ~ In i sched.
  Proof.
    intros jobs. induction sched as [|i s IH]; intros cs OK ND E.
    - exists cs. simpl. split; [reflexivity|]. split; [exact OK|]. intros i H. split; [exact H|intros []].
    - simpl. inversion ND as [|? ? NI ND']; subst.
      assert (Hi : nth_error cs i = Some None) by (apply E; left; reflexivity).
      assert (Hlt : (i < length jobs)%nat).
      { destruct OK as [L _]. rewrite <- L. apply nth_error_Some. congruence. }
      destruct (nth_error jobs i) as [j|] eqn:Hj; [|apply nth_error_None in Hj; lia].
      destruct (fill_some cs i (f j) Hi) as [cs1 F1]. rewrite F1.
      destruct (fill_spec _ _ _ _ F1) as (A1 & A2 & A3 & A4).
      destruct (IH cs1) as (cs' & R1 & R2 & R3).
      + eapply cells_ok_fill; eauto.
      + exact ND'.
      + intros k Hk. rewrite A4; [apply E; right; exact Hk|]. intros ->. contradiction.
      + exists cs'. split; [exact R1|]. split; [exact R2|]. intros k Hk.
        destruct (R3 k Hk) as [B1 B2]. split.
        * destruct (Nat.eq_dec k i) as [->|N]; [congruence|]. rewrite <- A4; assumption.
        * intros [<-|C]; [congruence|contradiction].
  Qed.

  (* MAIN: for EVERY schedule (order in which the pool completes the jobs) the
     evaluator returns exactly one result per job, in job order — with and
     without log_frequency chunking, for every chunk size (also <= 0). *)
  Theorem collect_in_order : forall (jobs : list J) (sched : list nat) (log_frequency : option Z),
    Permutation sched (seq 0 (length jobs)) ->
    submit_evaluate f log_frequency jobs sched = Some (map f jobs).
  Proof.
    intros jobs sched lf P. unfold submit_evaluate.
    destruct (run_fills_ok jobs sched (empty_cells (length jobs))) as (cs & R1 & R2 & R3).
    - apply cells_ok_empty.
    - eapply Permutation_NoDup; [apply Permutation_sym; exact P|apply seq_NoDup].
    - intros i Hi. apply empty_cells_nth.
      apply (Permutation_in _ P) in Hi. apply in_seq in Hi. lia.
    - rewrite R1.
      assert (C : collect cs = Some (map f jobs)).
      { apply collect_full; [exact R2|]. intros i Hn. destruct (R3 i Hn) as [B1 B2]. apply B2.
        apply (Permutation_in _ (Permutation_sym P)). apply in_seq.
        assert (i < length (@empty_cells R (length jobs)))%nat by (apply nth_error_Some; congruence).
        unfold empty_cells in H. rewrite repeat_length in H. lia. }
      destruct lf as [k|]; [rewrite collect_chunked_eq|]; exact C.
  Qed.

  Corollary collect_one_per_job : forall jobs sched lf r,
    Permutation sched (seq 0 (length jobs)) -> submit_evaluate f lf jobs sched = Some r ->
    length r = length jobs.
  Proof.
    intros jobs sched lf r P E. rewrite (collect_in_order jobs sched lf P) in E.
    injection E as <-. apply map_length.
  Qed.

  (* a schedule that never completes some job blocks the evaluator (no partial list is returned) *)
  Lemma collect_none_if_unfilled : forall (cs : cells) i, nth_error cs i = Some None -> collect cs = None.
  Proof.
    induction cs as [|c cs IH]; intros [|i] H; simpl in *; try discriminate.
    - injection H as ->. reflexivity.
    - destruct c; [|reflexivity]. rewrite (IH i H). reflexivity.
  Qed.

  (* ---- MapEvaluator ---- *)
  Lemma fold_extend : forall (mapf : list J -> list R) chs acc,
    fold_left (fun a ch => a ++ mapf ch) chs acc = acc ++ concat (map mapf chs).
  Proof.
    induction chs as [|ch chs IH]; intros acc; simpl.
    - rewrite app_nil_r. reflexivity.
    - rewrite IH, app_assoc. reflexivity.
  Qed.

  (* any map-like function that is in order on every (sub)list gives an in-order
     evaluator for every chunk size: serial map trivially, multiprocessing
     Pool.map by its contract, MPIPool.map by mpi_safety *)
  Theorem map_evaluate_in_order : forall (mapf : list J -> list R) lf jobs,
    (forall l, mapf l = map f l) -> map_evaluate mapf lf jobs = map f jobs.
  Proof.
    intros mapf lf jobs H. unfold map_evaluate. destruct lf as [k|]; [|apply H].
    rewrite fold_extend. simpl.
    rewrite (map_ext mapf (map f) H), <- concat_map, chunks_concat. reflexivity.
  Qed.

  (* ---- collector running concurrently with the pool ---- *)
  Definition finv (jobs : list J) (st : fstate R) : Prop :=
    cells_ok jobs (fs_cells st) /\ fs_out st = map f (firstn (length (fs_out st)) jobs).

  Lemma finv_step : forall jobs st e st', finv jobs st -> fstep f jobs st e = Some st' -> finv jobs st'.
  Proof.
    intros jobs [cs out] e st' [OK O] H. destruct e as [i|]; simpl in H.
    - destruct (nth_error jobs i) as [j|] eqn:Hj; [|discriminate].
      destruct (fill cs i (f j)) as [cs1|] eqn:F1; [|discriminate]. injection H as <-.
      split; [eapply cells_ok_fill; eauto|exact O].
    - destruct (nth_error cs (length out)) as [[v|]|] eqn:Hc; try discriminate. injection H as <-.
      split; [exact OK|]. simpl in *.
      destruct OK as [_ V]. destruct (V _ _ Hc) as (j & Hj & ->).
      rewrite app_length. simpl. rewrite Nat.add_1_r.
      rewrite (firstn_S_nth_error _ _ _ _ Hj), map_app, <- O. reflexivity.
  Qed.

  Lemma finv_run : forall jobs evs st st', finv jobs st -> frun f jobs st evs = Some st' -> finv jobs st'.
  Proof.
    intros jobs. induction evs as [|e evs IH]; intros st st' I H; simpl in H.
    - injection H as <-. exact I.
    - destruct (fstep f jobs st e) as [st1|] eqn:S1; [|discriminate].
      eapply IH; [eapply finv_step; eauto|exact H].
  Qed.

  (* whatever the interleaving of completions and reads, what has been read so
     far is the results of a PREFIX of the jobs, in job order; once as many
     results as jobs have been read, it is map f jobs *)
  Theorem collect_interleaved : forall jobs evs st,
    frun f jobs (finit jobs) evs = Some st ->
    fs_out st = map f (firstn (length (fs_out st)) jobs) /\
    (length (fs_out st) = length jobs -> fs_out st = map f jobs).
  Proof.
    intros jobs evs st H.
    assert (I : finv jobs st).
    { eapply finv_run; [|exact H]. split; [apply cells_ok_empty|reflexivity]. }
    destruct I as [_ O]. split; [exact O|]. intros L. rewrite O, L, firstn_all. reflexivity.
  Qed.
End FuturesProofs.

Open Scope Z_scope.
(* non-vacuity: four jobs completed in the order 3,1,0,2 (later jobs first), chunk size 3 *)
Example collect_ex :
  submit_evaluate (fun x => 10 * x) (Some 3) [1;2;3;4] [3;1;0;2]%nat = Some [10;20;30;40]
  /\ Permutation [3;1;0;2]%nat (seq 0 4).
Proof.
  split; [reflexivity|].
  change (seq 0 4) with [0;1;2;3]%nat.
  eapply perm_trans; [apply perm_swap|].
  eapply perm_trans; [apply perm_skip; apply perm_swap|].
  eapply perm_trans; [do 2 apply perm_skip; apply perm_swap|].
  apply perm_swap.
Qed.
(* the jobs need not be distinct (collect_in_order has no NoDup hypothesis; the schedule is over POSITIONS):
   the same job listed twice — adjacent, and first and last — yields one result per LISTED job *)
Example collect_repeated_ex :
  submit_evaluate (fun x => 10 * x) None [7;7;3;7] [3;1;0;2]%nat = Some [70;70;30;70]
  /\ submit_evaluate (fun x => 10 * x) (Some 2) [7;7;3;7] [2;0;3;1]%nat = Some [70;70;30;70].
Proof. split; reflexivity. Qed.
Example collect_interleaved_ex :
  option_map (fun st => fs_out st)
    (frun (fun x => 10 * x) [1;2;3] (finit [1;2;3]) [FFill 2; FFill 0; FRead; FFill 1; FRead; FRead]%nat)
  = Some [10;20;30]
  /\ frun (fun x => 10 * x) [1;2;3] (finit [1;2;3]) [FFill 2; FRead]%nat = None.   (* blocked: job 0 not done *)
Proof. split; reflexivity. Qed.

Close Scope Z_scope.
(* ------------------------------------------------------------------------- *)
(* evaluate_all pairing                                                        *)
(* ------------------------------------------------------------------------- *)
Section Pairing.
  Variable F : list Z -> list Z.      (* the problem function: objectives of a variable vector *)

  (* what an in-order evaluator delivers for the job of solution u *)
  Definition evaluated_of (u r : sol) : Prop :=
    s_vars r = s_vars u /\ s_objs r = F (s_vars u) /\ s_eval r = true.
  (* what the submitted solution must look like afterwards *)
  Definition kept (u u' : sol) : Prop :=
    s_id u' = s_id u /\ s_vars u' = s_vars u /\ s_objs u' = F (s_vars u) /\ s_eval u' = true.

  Lemma pair_one_kept : forall u r, evaluated_of u r -> kept u (pair_one u r).
  Proof.
    intros u r (A & B & C). unfold pair_one, kept.
    destruct (Nat.eqb (s_id u) (s_id r)) eqn:E; simpl; repeat split; auto.
    apply Nat.eqb_eq in E. congruence.
  Qed.

  Lemma pair_loop_ok : forall unev results, Forall2 evaluated_of unev results ->
    exists unev', pair_loop unev results = Some unev' /\ Forall2 kept unev unev'.
  Proof.
    induction 1 as [|u r us rs H1 H2 (unev' & E & K)].
    - exists []. split; [reflexivity|constructor].
    - exists (pair_one u r :: unev'). simpl. rewrite E. split; [reflexivity|].
      constructor; [apply pair_one_kept; exact H1|exact K].
  Qed.

  Definition after (s s' : sol) : Prop :=
    s_id s' = s_id s /\ s_vars s' = s_vars s /\
    (if s_eval s then s' = s else s_objs s' = F (s_vars s) /\ s_eval s' = true).

  Lemma write_back_ok : forall sols upd, Forall2 kept (unevaluated sols) upd ->
    Forall2 after sols (write_back sols upd).
  Proof.
    induction sols as [|s sols IH]; intros upd H; simpl.
    - constructor.
    - unfold unevaluated in H. simpl in H. destruct (s_eval s) eqn:E; simpl in H.
      + constructor; [|apply IH; exact H]. unfold after. rewrite E. auto.
      + inversion H as [|? u ? upd' K1 K2]; subst. constructor; [|apply IH; exact K2].
        destruct K1 as (A & B & C & D). unfold after. rewrite E. auto.
  Qed.

  (* MAIN: if the evaluator returns, in job order, the evaluation of (a copy
     of) each submitted solution, then after Algorithm.evaluate_all every
     solution is the same object with the same variables, previously evaluated
     ones are untouched and the others carry the objectives of THEIR variables *)
  Theorem pairing_keeps_variables : forall evaluator sols,
    Forall2 evaluated_of (unevaluated sols) (evaluator (unevaluated sols)) ->
    exists sols', evaluate_all evaluator sols = Some sols' /\ Forall2 after sols sols'.
  Proof.
    intros ev sols H. unfold evaluate_all.
    destruct (pair_loop_ok _ _ H) as (unev' & E & K). rewrite E.
    eexists; split; [reflexivity|]. apply write_back_ok. exact K.
  Qed.

  (* the hypothesis is what collect_in_order / mpi_safety provide: results = map ev jobs *)
  Corollary pairing_in_order_evaluator : forall (ev : sol -> sol) sols,
    (forall u, evaluated_of u (ev u)) ->
    exists sols', evaluate_all (map ev) sols = Some sols' /\ Forall2 after sols sols'.
  Proof.
    intros ev sols H. apply pairing_keeps_variables.
    induction (unevaluated sols); simpl; constructor; auto.
  Qed.

  Lemma after_ids_vars : forall sols sols', Forall2 after sols sols' ->
    map s_id sols' = map s_id sols /\ map s_vars sols' = map s_vars sols /\ length sols' = length sols.
  Proof.
    induction 1 as [|s s' l l' (A & B & _) _ (I1 & I2 & I3)]; simpl; [auto|].
    repeat split; congruence.
  Qed.
End Pairing.

Open Scope Z_scope.
(* non-vacuity, both evaluator kinds: in-place (same identity) and pickled copies (fresh identity);
   and the pairing is what matters: an evaluator returning the SAME results reversed
   leaves solution 1 with the variables of solution 3 *)
Definition ex_F (v : list Z) : list Z := [fold_right Z.add 0 v].
Definition ex_inplace (u : sol) : sol := Sol (s_id u) (s_vars u) (ex_F (s_vars u)) true.
Definition ex_copy (u : sol) : sol := Sol (100 + s_id u) (s_vars u) (ex_F (s_vars u)) true.
Definition ex_sols : list sol := [Sol 1 [1;2] [] false; Sol 2 [5;5] [10] true; Sol 3 [7;0] [] false].
Example pairing_ex :
  evaluate_all (map ex_inplace) ex_sols = Some [Sol 1 [1;2] [3] true; Sol 2 [5;5] [10] true; Sol 3 [7;0] [7] true]
  /\ evaluate_all (map ex_copy) ex_sols = Some [Sol 1 [1;2] [3] true; Sol 2 [5;5] [10] true; Sol 3 [7;0] [7] true]
  /\ evaluate_all (fun l => rev (map ex_copy l)) ex_sols
       = Some [Sol 1 [7;0] [7] true; Sol 2 [5;5] [10] true; Sol 3 [1;2] [3] true].
Proof. repeat split. Qed.

Close Scope Z_scope.
(* ------------------------------------------------------------------------- *)
(* experiment filing                                                           *)
(* ------------------------------------------------------------------------- *)
Lemma plookup_padd : forall pt p q v,
  plookup p (padd q v pt) = if Nat.eqb q p then plookup p pt ++ [v] else plookup p pt.
Proof.
  induction pt as [|[k l] pt IH]; intros p q v; simpl.
  - destruct (Nat.eqb q p); reflexivity.
  - destruct (Nat.eqb k q) eqn:E1; simpl.
    + apply Nat.eqb_eq in E1. subst k. destruct (Nat.eqb q p); reflexivity.
    + destruct (Nat.eqb k p) eqn:E2.
      * destruct (Nat.eqb q p) eqn:E3; [|reflexivity].
        apply Nat.eqb_eq in E2, E3. apply Nat.eqb_neq in E1. congruence.
      * apply IH.
Qed.

Lemma rlookup_radd : forall rt a p b q v,
  rlookup a p (radd b q v rt) =
    if Nat.eqb b a && Nat.eqb q p then rlookup a p rt ++ [v] else rlookup a p rt.
Proof.
  induction rt as [|[k pt] rt IH]; intros a p b q v; simpl.
  - destruct (Nat.eqb b a); simpl; [|reflexivity]. destruct (Nat.eqb q p); reflexivity.
  - destruct (Nat.eqb k b) eqn:E1; simpl.
    + apply Nat.eqb_eq in E1. subst k. destruct (Nat.eqb b a); simpl; [|reflexivity].
      apply plookup_padd.
    + destruct (Nat.eqb k a) eqn:E2.
      * destruct (Nat.eqb b a) eqn:E3; [|reflexivity].
        apply Nat.eqb_eq in E2, E3. apply Nat.eqb_neq in E1. congruence.
      * apply IH.
Qed.

Definition jmatch (a p : nat) (j : ejob) : bool := Nat.eqb (j_alg j) a && Nat.eqb (j_prob j) p.

Lemma file_fold_lookup : forall jobs rt a p,
  rlookup a p (fold_left file_one jobs rt) = rlookup a p rt ++ map j_res (filter (jmatch a p) jobs).
Proof.
  induction jobs as [|j jobs IH]; intros rt a p; simpl.
  - rewrite app_nil_r. reflexivity.
  - rewrite IH. unfold file_one. rewrite rlookup_radd. unfold jmatch at 2.
    destruct (Nat.eqb (j_alg j) a && Nat.eqb (j_prob j) p); simpl; [|reflexivity].
    rewrite <- app_assoc. reflexivity.
Qed.

(* whatever list of evaluated jobs comes back, results[a][p] holds exactly the
   results of the jobs of algorithm a on problem p, one entry per such job, in
   the order of the list *)
Lemma filing_general : forall jobs a p,
  rlookup a p (file_all jobs) = map j_res (filter (jmatch a p) jobs).
Proof. intros. unfold file_all. rewrite file_fold_lookup. reflexivity. Qed.

Lemma filter_flat_map : forall (A B : Type) (P : B -> bool) (g : A -> list B) l,
  filter P (flat_map g l) = flat_map (fun x => filter P (g x)) l.
Proof.
  induction l as [|x l IH]; simpl; [reflexivity|]. rewrite filter_app, IH. reflexivity.
Qed.

Lemma flat_map_single : forall (B : Type) (h : nat -> list B) a l,
  NoDup l -> In a l -> (forall x, x <> a -> h x = []) -> flat_map h l = h a.
Proof.
  induction l as [|x l IH]; intros ND HI HE; [contradiction|].
  inversion ND as [|? ? NI ND']; subst. simpl. destruct HI as [->|HI].
  - assert (Z0 : flat_map h l = []).
    { clear IH ND ND'. induction l as [|y l IHl]; [reflexivity|]. simpl.
      rewrite (HE y), IHl; [reflexivity| |].
      - intros C. apply NI. right. exact C.
      - intros ->. apply NI. left. reflexivity. }
    rewrite Z0, app_nil_r. reflexivity.
  - rewrite (HE x), (IH ND' HI HE); [reflexivity|]. intros ->. contradiction.
Qed.

Lemma filter_none : forall (B : Type) (P : B -> bool) l, (forall x, In x l -> P x = false) -> filter P l = [].
Proof.
  induction l as [|x l IH]; intros H; [reflexivity|]. simpl.
  rewrite (H x (or_introl eq_refl)). apply IH. intros y Hy. apply H. right. exact Hy.
Qed.

Lemma filter_all : forall (B : Type) (P : B -> bool) l, (forall x, In x l -> P x = true) -> filter P l = l.
Proof.
  induction l as [|x l IH]; intros H; [reflexivity|]. simpl.
  rewrite (H x (or_introl eq_refl)). f_equal. apply IH. intros y Hy. apply H. right. exact Hy.
Qed.

(* MAIN: with distinct algorithm names and distinct problem names (experiment()
   rejects duplicates, experimenter.py:89-90,114-115) and an evaluator that
   returns the jobs in generation order (collect_in_order / mpi_safety),
   results[a][p] has one entry per replicate, in seed order *)
Theorem experiment_filing : forall algs probs seeds resf a p,
  NoDup algs -> NoDup probs -> In a algs -> In p probs ->
  rlookup a p (file_all (gen_jobs algs probs seeds resf)) = map (resf a p) (seq 0 seeds).
Proof.
  intros algs probs seeds resf a p NA NP IA IP.
  rewrite filing_general. unfold gen_jobs. rewrite filter_flat_map.
  rewrite (flat_map_single _ _ a algs NA IA).
  - rewrite filter_flat_map. rewrite (flat_map_single _ _ p probs NP IP).
    + rewrite filter_all.
      * rewrite map_map. reflexivity.
      * intros x Hx. apply in_map_iff in Hx. destruct Hx as (k & <- & _).
        unfold jmatch. simpl. rewrite !Nat.eqb_refl. reflexivity.
    + intros q Hq. apply filter_none. intros x Hx. apply in_map_iff in Hx.
      destruct Hx as (k & <- & _). unfold jmatch. simpl.
      apply Nat.eqb_neq in Hq. rewrite Hq, andb_false_r. reflexivity.
  - intros b Hb. apply filter_none. intros x Hx. apply in_flat_map in Hx.
    destruct Hx as (q & _ & Hx). apply in_map_iff in Hx. destruct Hx as (k & <- & _).
    unfold jmatch. simpl. apply Nat.eqb_neq in Hb. rewrite Hb. reflexivity.
Qed.

Corollary experiment_one_per_replicate : forall algs probs seeds resf a p,
  NoDup algs -> NoDup probs -> In a algs -> In p probs ->
  length (rlookup a p (file_all (gen_jobs algs probs seeds resf))) = seeds.
Proof. intros. rewrite experiment_filing by assumption. rewrite map_length, seq_length. reflexivity. Qed.

Open Scope Z_scope.
(* non-vacuity: 2 algorithms x 2 problems x 3 seeds *)
Example filing_ex :
  file_all (gen_jobs [7;8]%nat [1;2]%nat 3 (fun a p k => Z.of_nat (100 * a + 10 * p + k)))
  = [(7%nat, [(1%nat, [710;711;712]); (2%nat, [720;721;722])]);
     (8%nat, [(1%nat, [810;811;812]); (2%nat, [820;821;822])])].
Proof. reflexivity. Qed.

(* ------------------------------------------------------------------------- *)
(* experiment filing with algorithm declarations (type / (type,) / (type, kwargs) / (type, kwargs, name)) *)
(* ------------------------------------------------------------------------- *)
Close Scope Z_scope.

Lemma flat_map_all_nil : forall (A B : Type) (h : A -> list B) l, (forall x, In x l -> h x = []) -> flat_map h l = [].
Proof.
  induction l as [|x l IH]; intros H; [reflexivity|]. simpl.
  rewrite (H x (or_introl eq_refl)), IH; [reflexivity|]. intros y Hy. apply H. right. exact Hy.
Qed.

Lemma flat_map_single_key : forall (A B : Type) (key : A -> nat) (h : A -> list B) a l,
  NoDup (map key l) -> In a l -> (forall x, In x l -> key x <> key a -> h x = []) -> flat_map h l = h a.
Proof.
  induction l as [|x l IH]; intros ND HI HE; [contradiction|].
  simpl in ND. inversion ND as [|? ? NI ND']; subst. simpl. destruct HI as [->|HI].
  - rewrite flat_map_all_nil; [apply app_nil_r|].
    intros y Hy. apply HE; [right; exact Hy|]. intros E. apply NI. rewrite <- E. apply in_map. exact Hy.
  - rewrite (HE x (or_introl eq_refl)).
    + simpl. apply IH; [exact ND'|exact HI|]. intros y Hy. apply HE. right. exact Hy.
    + intros E. apply NI. rewrite E. apply in_map. exact HI.
Qed.

Lemma existsb_eqb_false : forall a l, existsb (Nat.eqb a) l = false -> ~ In a l.
Proof.
  intros a l H C. assert (existsb (Nat.eqb a) l = true); [|congruence].
  apply existsb_exists. exists a. split; [exact C|apply Nat.eqb_refl].
Qed.

Lemma decl_jobs_go_spec : forall decls existing probs seeds resf js,
  decl_jobs_go existing decls probs seeds resf = Some js ->
  js = flat_map (decl_block probs seeds resf) decls /\ NoDup (map dname decls) /\
  forall d, In d decls -> ~ In (dname d) existing.
Proof.
  induction decls as [|d r IH]; intros existing probs seeds resf js H; simpl in H.
  - injection H as <-. split; [reflexivity|]. split; [constructor|intros d []].
  - destruct (existsb (Nat.eqb (dname d)) existing) eqn:E; [discriminate|].
    destruct (decl_jobs_go (dname d :: existing) r probs seeds resf) as [js'|] eqn:G; [|discriminate].
    injection H as <-. destruct (IH _ _ _ _ _ G) as (A & B & C).
    split; [simpl; rewrite A; reflexivity|]. split.
    + simpl. constructor; [|exact B]. intros HI. apply in_map_iff in HI. destruct HI as (d' & E' & Hd').
      apply (C d' Hd'). left. symmetry. exact E'.
    + intros d0 [<-|Hd0]; [apply existsb_eqb_false; exact E|].
      intros HI. apply (C d0 Hd0). right. exact HI.
Qed.

Lemma decl_jobs_some : forall decls existing probs seeds resf,
  NoDup (map dname decls) -> (forall d, In d decls -> ~ In (dname d) existing) ->
  exists js, decl_jobs_go existing decls probs seeds resf = Some js.
Proof.
  induction decls as [|d r IH]; intros existing probs seeds resf ND NE; simpl; [eauto|].
  simpl in ND. inversion ND as [|? ? NI ND']; subst.
  assert (E : existsb (Nat.eqb (dname d)) existing = false).
  { destruct (existsb (Nat.eqb (dname d)) existing) eqn:E; [|reflexivity]. exfalso.
    apply existsb_exists in E. destruct E as (x & Hx & Ex). apply Nat.eqb_eq in Ex. subst x.
    apply (NE d (or_introl eq_refl) Hx). }
  rewrite E. destruct (IH (dname d :: existing) probs seeds resf ND') as [js' G].
  - intros d0 Hd0 [C|C]; [apply NI; rewrite C; apply in_map; exact Hd0|apply (NE d0 (or_intror Hd0) C)].
  - rewrite G. eauto.
Qed.

(* MAIN: with distinct algorithm names and distinct problem names, the entries
   filed under [name of declaration d][p] are the replicates 0..seeds-1 of d's OWN
   type constructed with d's OWN kwargs (the default {} when d has none) on p *)
Theorem experiment_filing_decl : forall decls probs seeds resf js d p,
  decl_jobs decls probs seeds resf = Some js -> NoDup probs -> In d decls -> In p probs ->
  rlookup (dname d) p (file_all js) = map (resf (dty d) (dkw d) p) (seq 0 seeds).
Proof.
  intros decls probs seeds resf js d p H NP ID IP. unfold decl_jobs in H.
  destruct (decl_jobs_go_spec _ _ _ _ _ _ H) as (-> & ND & _).
  rewrite filing_general, filter_flat_map.
  rewrite (flat_map_single_key _ _ dname _ d decls ND ID).
  - unfold decl_block. rewrite filter_flat_map. rewrite (flat_map_single _ _ p probs NP IP).
    + rewrite filter_all.
      * rewrite map_map. reflexivity.
      * intros x Hx. apply in_map_iff in Hx. destruct Hx as (k & <- & _).
        unfold jmatch. simpl. rewrite !Nat.eqb_refl. reflexivity.
    + intros q Hq. apply filter_none. intros x Hx. apply in_map_iff in Hx.
      destruct Hx as (k & <- & _). unfold jmatch. simpl.
      apply Nat.eqb_neq in Hq. rewrite Hq, andb_false_r. reflexivity.
  - intros b _ Hb. apply filter_none. intros x Hx. unfold decl_block in Hx. apply in_flat_map in Hx.
    destruct Hx as (q & _ & Hx). apply in_map_iff in Hx. destruct Hx as (k & <- & _).
    unfold jmatch. simpl. apply Nat.eqb_neq in Hb. rewrite Hb. reflexivity.
Qed.

Theorem decl_jobs_defined : forall decls probs seeds resf,
  NoDup (map dname decls) -> exists js, decl_jobs decls probs seeds resf = Some js.
Proof. intros. apply decl_jobs_some; [assumption|intros d _ []]. Qed.

Open Scope Z_scope.
(* non-vacuity: (type 1, kwargs 4, name 9) BEFORE a bare type 1 and a (type 2,): the later
   declarations get the default kwargs 0, not the 4 of the first *)
Example filing_decl_ex :
  option_map file_all (decl_jobs [DTup3 1 4 9; DBare 1; DTup1 2] [1]%nat 2
                         (fun ty kw p k => Z.of_nat ty * 1000 + kw * 100 + Z.of_nat (10 * p + k)))
  = Some [(9%nat, [(1%nat, [1410; 1411])]); (1%nat, [(1%nat, [1010; 1011])]); (2%nat, [(1%nat, [2010; 2011])])]
  /\ decl_jobs [DBare 1; DTup2 1 4] [1]%nat 2 (fun _ _ _ _ => 0) = None.
Proof. split; reflexivity. Qed.
