(* Proofs about Model/Operators.v: validity of offspring, flag discipline, absence of Python
   errors, symmetry — for ALL tapes.

   "Parents unchanged" has no theorem: it is structural in a functional model (a model
   function cannot modify its arguments); the corresponding fact about the Python code is
   established by harness/translate/framecheck.py and by the driver's deep snapshots. *)
From Coq Require Import ZArith QArith Bool List Lia Permutation.
From PV Require Import Base.Num Base.FVal Base.Tape Model.Operators.
Import ListNotations.
Open Scope res_scope.

(* ------------------------------------------------------------------ small list facts *)
Lemma nth_res_ok {A} (l : list A) i x : nth_res l i = Ok x <-> nth_error l i = Some x.
Proof. unfold nth_res. destruct (nth_error l i); split; intro H; inversion H; subst; auto. Qed.

Lemma nth_res_lt {A} (l : list A) i : (i < length l)%nat -> exists x, nth_res l i = Ok x.
Proof.
  intro H. unfold nth_res. destruct (nth_error l i) eqn:E; eauto.
  apply nth_error_None in E. lia.
Qed.

Lemma nth_res_safe_lt {A} (l : list A) i : (i < length l)%nat -> py_safe (nth_res l i).
Proof. intro H. destruct (nth_res_lt l i H) as [x ->]. exact I. Qed.

Lemma upd_length {A} i (x : A) l : length (upd i x l) = length l.
Proof. revert i; induction l as [|y r IH]; intros [|i]; simpl; auto. Qed.

Lemma nth_error_upd_eq {A} i (x : A) l : (i < length l)%nat -> nth_error (upd i x l) i = Some x.
Proof. revert i; induction l as [|y r IH]; intros [|i] H; simpl in *; try lia; auto. apply IH. lia. Qed.

Lemma nth_error_upd_neq {A} i j (x : A) l : i <> j -> nth_error (upd i x l) j = nth_error l j.
Proof.
  revert i j; induction l as [|y r IH]; intros [|i] [|j] H; simpl; auto; try congruence.
Qed.

(* writing x at a position that held y: the multiset changes by exactly that *)
Lemma upd_perm {A} i (x y : A) l : nth_error l i = Some y -> Permutation (y :: upd i x l) (x :: l).
Proof.
  revert i; induction l as [|z r IH]; intros [|i] H; simpl in *; try discriminate.
  - inversion H; subst. apply perm_swap.
  - specialize (IH _ H).
    eapply perm_trans; [apply perm_swap|].
    eapply perm_trans; [apply perm_skip, IH|]. apply perm_swap.
Qed.

Lemma upd_In {A} i (x : A) l z : In z (upd i x l) -> z = x \/ In z l.
Proof.
  revert i; induction l as [|y r IH]; intros [|i]; simpl; auto.
  - intros [->|H]; auto.
  - intros [->|H]; auto. destruct (IH _ H); auto.
Qed.

Lemma upd_same {A} i (x : A) l : nth_error l i = Some x -> upd i x l = l.
Proof.
  revert i; induction l as [|y r IH]; intros [|i] H; simpl in *; try discriminate; auto.
  - now inversion H.
  - f_equal. auto.
Qed.

Section OpsProofs.
  Variable E : Type.
  Variable P : Type.
  Variable eqb : E -> E -> bool.
  Hypothesis eqb_spec : forall x y, eqb x y = true <-> x = y.

  Notation var := (var E).
  Notation vtype := (vtype E).
  Notation sol := (sol E P).
  Notation mem := (mem E eqb).

  Lemma mem_In x l : mem x l = true <-> In x l.
  Proof.
    unfold Operators.mem. rewrite existsb_exists. split.
    - intros (y & Hy & e). apply eqb_spec in e. now subst.
    - intro H. exists x. split; auto. now apply eqb_spec.
  Qed.
  Lemma mem_false x l : mem x l = false <-> ~ In x l.
  Proof. rewrite <- mem_In. destruct (mem x l); split; congruence. Qed.

  (* ---------------------------------------------------------------- validity *)
  (* a value valid for its declared type (the property's "valid offspring") *)
  Definition valid_var (ty : vtype) (v : var) : Prop :=
    match ty, v with
    | TReal lb ub, VReal x => in_bounds lb ub x                    (* inside the bounds, not NaN *)
    | TBinary n, VBits b => length b = n                           (* declared length *)
    | TPerm els, VPerm p => Permutation els p                      (* exactly the declared elements *)
    | TSubset els k, VSub s => NoDup s /\ length s = k /\ incl s els (* duplicate-free, declared size, declared elements *)
    | _, _ => False
    end.

  (* well-formed declarations (what a Problem may declare) *)
  Definition wf_type (ty : vtype) : Prop :=
    match ty with
    | TReal lb ub => xleb lb ub = true
    | TBinary _ => True
    | TPerm els => NoDup els /\ (0 < length els)%nat      (* Permutation([]) makes randrange(0) raise: rejected *)
    | TSubset els k => NoDup els /\ (0 < k)%nat
    end.

  Definition valid_vars (ts : list vtype) (vs : list var) : Prop := Forall2 valid_var ts vs.
  Definition valid_sol (ts : list vtype) (s : sol) : Prop := valid_vars ts (vars s).

  (* flag discipline: a child still marked evaluated is field-equal to the parent it was copied from *)
  Definition same_fields (c p : sol) : Prop :=
    vars c = vars p /\ payload c = payload p /\ evaluated c = evaluated p.
  Definition copied_from (c p : sol) : Prop :=
    payload c = payload p /\ (evaluated c = true -> same_fields c p).

  Lemma copied_from_deepcopy fresh p : copied_from (deepcopy E P fresh p) p.
  Proof. split; [reflexivity|]. intros _. repeat split. Qed.

  Lemma copied_from_mk_child fresh p vs w :
    (w = false -> vs = vars p) -> copied_from (mk_child E P fresh p vs w) p.
  Proof.
    intro H. split; [reflexivity|]. simpl. destruct w; [discriminate|].
    intros _. repeat split; simpl; auto.
  Qed.

  (* ---------------------------------------------------------------- the generic mutation loop *)
  Definition step_valid (step : mstep E) : Prop :=
    forall ty v t v' t1, wf_type ty -> valid_var ty v -> step ty v t = Ok (Some v', t1) -> valid_var ty v'.
  Definition step_safe (step : mstep E) : Prop :=
    forall ty v t, wf_type ty -> valid_var ty v -> py_safe (step ty v t).

  Lemma mut_loop_valid step ts : step_valid step ->
    forall vs t vs' w t', Forall wf_type ts -> valid_vars ts vs ->
    mut_loop E step ts vs t = Ok (vs', w, t') ->
    valid_vars ts vs' /\ (w = false -> vs' = vs).
  Proof.
    intros SV. induction ts as [|ty ts IH]; intros vs t vs' w t' WF V H.
    - simpl in H. inversion H; subst. split; auto.
    - inversion V as [|? v ? vr Hv Hr]; subst. inversion WF as [|? ? Wty Wts]; subst.
      simpl in H.
      destruct (step ty v t) as [[o t1]|] eqn:Es; simpl in H; [|discriminate].
      destruct (mut_loop E step ts vr t1) as [[[vs2 w2] t2]|] eqn:El; simpl in H; [|discriminate].
      inversion H; subst; clear H.
      destruct (IH _ _ _ _ _ Wts Hr El) as [V2 F2].
      split.
      + constructor; auto. destruct o as [v'|]; auto. eapply SV; eauto.
      + destruct o; simpl; [discriminate|]. intro W. now rewrite (F2 W).
  Qed.

  Lemma mut_loop_safe step ts : step_safe step ->
    forall vs t, Forall wf_type ts -> valid_vars ts vs -> py_safe (mut_loop E step ts vs t).
  Proof.
    intros SS. induction ts as [|ty ts IH]; intros vs t WF V.
    - exact I.
    - inversion V as [|? v ? vr Hv Hr]; subst. inversion WF as [|? ? Wty Wts]; subst.
      simpl. apply py_safe_bind; [now apply SS|].
      intros [o t1] _. apply py_safe_bind; [now apply IH|].
      intros [[vs2 w2] t2] _. exact I.
  Qed.

  Theorem mutation_of_valid step ts : step_valid step ->
    forall fresh p t c f t', Forall wf_type ts -> valid_sol ts p ->
    mutation_of E P step ts fresh p t = Ok (c, f, t') ->
    valid_sol ts c /\ copied_from c p /\ sid c = fresh /\ f = S fresh.
  Proof.
    intros SV fresh p t c f t' WF V H. unfold mutation_of in H.
    destruct (mut_loop E step ts (vars p) t) as [[[vs w] t1]|] eqn:El; simpl in H; [|discriminate].
    inversion H; subst; clear H.
    destruct (mut_loop_valid step ts SV _ _ _ _ _ WF V El) as [V' F'].
    split; [exact V'|]. split; [now apply copied_from_mk_child|]. split; reflexivity.
  Qed.

  Theorem mutation_of_safe step ts : step_safe step ->
    forall fresh p t, Forall wf_type ts -> valid_sol ts p -> py_safe (mutation_of E P step ts fresh p t).
  Proof.
    intros SS fresh p t WF V. unfold mutation_of.
    apply py_safe_bind; [now apply mut_loop_safe|]. intros [[vs w] t1] _. exact I.
  Qed.

  (* ---------------------------------------------------------------- the generic crossover loop *)
  Definition xstep_valid (step : xstep E) : Prop :=
    forall ty a b t a' b' t1, wf_type ty -> valid_var ty a -> valid_var ty b ->
      step ty a b t = Ok (Some (a', b'), t1) -> valid_var ty a' /\ valid_var ty b'.
  Definition xstep_safe (step : xstep E) : Prop :=
    forall ty a b t, wf_type ty -> valid_var ty a -> valid_var ty b -> py_safe (step ty a b t).

  Lemma cross_loop_valid step ts : xstep_valid step ->
    forall v1 v2 t r1 r2 w t', Forall wf_type ts -> valid_vars ts v1 -> valid_vars ts v2 ->
    cross_loop E step ts v1 v2 t = Ok (r1, r2, w, t') ->
    valid_vars ts r1 /\ valid_vars ts r2 /\ (w = false -> r1 = v1 /\ r2 = v2).
  Proof.
    intros SV. induction ts as [|ty ts IH]; intros v1 v2 t r1 r2 w t' WF V1 V2 H.
    - simpl in H. inversion H; subst. auto.
    - inversion V1 as [|? a ? ar Ha Har]; subst. inversion V2 as [|? b ? br Hb Hbr]; subst.
      inversion WF as [|? ? Wty Wts]; subst. simpl in H.
      destruct (step ty a b t) as [[o t1]|] eqn:Es; simpl in H; [|discriminate].
      destruct (cross_loop E step ts ar br t1) as [[[[s1 s2] w2] t2]|] eqn:El; simpl in H; [|discriminate].
      inversion H; subst; clear H.
      destruct (IH _ _ _ _ _ _ _ Wts Har Hbr El) as (A & B & F).
      destruct o as [[a' b']|].
      + destruct (SV _ _ _ _ _ _ _ Wty Ha Hb Es) as [Va Vb].
        split; [constructor; auto|]. split; [constructor; auto|]. simpl. discriminate.
      + split; [constructor; auto|]. split; [constructor; auto|]. simpl.
        intro W; destruct (F W); split; congruence.
  Qed.

  Lemma cross_loop_safe step ts : xstep_safe step ->
    forall v1 v2 t, Forall wf_type ts -> valid_vars ts v1 -> valid_vars ts v2 ->
    py_safe (cross_loop E step ts v1 v2 t).
  Proof.
    intros SS. induction ts as [|ty ts IH]; intros v1 v2 t WF V1 V2.
    - exact I.
    - inversion V1 as [|? a ? ar Ha Har]; subst. inversion V2 as [|? b ? br Hb Hbr]; subst.
      inversion WF as [|? ? Wty Wts]; subst. simpl.
      apply py_safe_bind; [now apply SS|]. intros [o t1] _.
      apply py_safe_bind; [now apply IH|]. intros [[[s1 s2] w2] t2] _. exact I.
  Qed.

  (* what a two-parent crossover guarantees *)
  Definition two_children_ok (ts : list vtype) (fresh : nat) (p1 p2 : sol) (cs : list sol) (f : nat) : Prop :=
    exists c1 c2, cs = [c1; c2] /\ valid_sol ts c1 /\ valid_sol ts c2 /\
                  copied_from c1 p1 /\ copied_from c2 p2 /\
                  sid c1 = fresh /\ sid c2 = S fresh /\ f = S (S fresh).

  Lemma two_children_intro ts fresh p1 p2 r1 r2 w :
    valid_vars ts r1 -> valid_vars ts r2 -> (w = false -> r1 = vars p1 /\ r2 = vars p2) ->
    two_children_ok ts fresh p1 p2 [mk_child E P fresh p1 r1 w; mk_child E P (S fresh) p2 r2 w] (S (S fresh)).
  Proof.
    intros A B F. exists (mk_child E P fresh p1 r1 w), (mk_child E P (S fresh) p2 r2 w).
    split; [reflexivity|]. split; [exact A|]. split; [exact B|].
    split; [apply copied_from_mk_child; intro W; now destruct (F W)|].
    split; [apply copied_from_mk_child; intro W; now destruct (F W)|].
    repeat split.
  Qed.

  Lemma two_children_deepcopy ts fresh p1 p2 :
    valid_sol ts p1 -> valid_sol ts p2 ->
    two_children_ok ts fresh p1 p2 [deepcopy E P fresh p1; deepcopy E P (S fresh) p2] (S (S fresh)).
  Proof.
    intros A B. exists (deepcopy E P fresh p1), (deepcopy E P (S fresh) p2).
    split; [reflexivity|]. split; [exact A|]. split; [exact B|].
    split; [apply copied_from_deepcopy|]. split; [apply copied_from_deepcopy|]. repeat split.
  Qed.

  Theorem crossover_of_valid step ts : xstep_valid step ->
    forall fresh p1 p2 t cs f t', Forall wf_type ts -> valid_sol ts p1 -> valid_sol ts p2 ->
    crossover_of E P step ts fresh [p1; p2] t = Ok (cs, f, t') ->
    two_children_ok ts fresh p1 p2 cs f.
  Proof.
    intros SV fresh p1 p2 t cs f t' WF V1 V2 H. unfold crossover_of in H. simpl in H.
    destruct (cross_loop E step ts (vars p1) (vars p2) t) as [[[[r1 r2] w] t1]|] eqn:El; simpl in H; [|discriminate].
    inversion H; subst; clear H.
    destruct (cross_loop_valid step ts SV _ _ _ _ _ _ _ WF V1 V2 El) as (A & B & F).
    now apply two_children_intro.
  Qed.

  Theorem crossover_of_safe step ts : xstep_safe step ->
    forall fresh p1 p2 t, Forall wf_type ts -> valid_sol ts p1 -> valid_sol ts p2 ->
    py_safe (crossover_of E P step ts fresh [p1; p2] t).
  Proof.
    intros SS fresh p1 p2 t WF V1 V2. unfold crossover_of. simpl.
    apply py_safe_bind; [now apply cross_loop_safe|]. intros [[[r1 r2] w] t1] _. exact I.
  Qed.

  Theorem guarded_crossover_of_valid pr step ts : xstep_valid step ->
    forall fresh p1 p2 t cs f t', Forall wf_type ts -> valid_sol ts p1 -> valid_sol ts p2 ->
    guarded_crossover_of E P pr step ts fresh [p1; p2] t = Ok (cs, f, t') ->
    two_children_ok ts fresh p1 p2 cs f.
  Proof.
    intros SV fresh p1 p2 t cs f t' WF V1 V2 H. unfold guarded_crossover_of in H. simpl in H.
    destruct (get_unif t) as [[u t0]|] eqn:Eu; simpl in H; [|discriminate].
    destruct (xleb u pr).
    - destruct (cross_loop E step ts (vars p1) (vars p2) t0) as [[[[r1 r2] w] t1]|] eqn:El; simpl in H; [|discriminate].
      inversion H; subst; clear H.
      destruct (cross_loop_valid step ts SV _ _ _ _ _ _ _ WF V1 V2 El) as (A & B & F).
      now apply two_children_intro.
    - inversion H; subst; clear H. now apply two_children_deepcopy.
  Qed.

  Theorem guarded_crossover_of_safe pr step ts : xstep_safe step ->
    forall fresh p1 p2 t, Forall wf_type ts -> valid_sol ts p1 -> valid_sol ts p2 ->
    py_safe (guarded_crossover_of E P pr step ts fresh [p1; p2] t).
  Proof.
    intros SS fresh p1 p2 t WF V1 V2. unfold guarded_crossover_of. simpl.
    apply py_safe_bind; [apply get_unif_safe|]. intros [u t0] _.
    destruct (xleb u pr); [|exact I].
    apply py_safe_bind; [now apply cross_loop_safe|]. intros [[[r1 r2] w] t1] _. exact I.
  Qed.

  (* ================================================================ BitFlip *)
  Lemma bitflip_bits_spec p : forall n bits t b' w t',
    bitflip_bits p n bits t = Ok (b', w, t') -> length b' = length bits /\ (w = false -> b' = bits).
  Proof.
    induction n as [|n IH]; intros bits t b' w t' H; simpl in H.
    - inversion H; subst. auto.
    - destruct bits as [|b r]; [discriminate|].
      destruct (get_unif t) as [[u t1]|]; simpl in H; [|discriminate].
      destruct (bitflip_bits p n r t1) as [[[r' w'] t2]|] eqn:Er; simpl in H; [|discriminate].
      destruct (IH _ _ _ _ _ Er) as [L F].
      destruct (xleb u p); inversion H; subst; simpl; split; auto; try discriminate.
      intro W. now rewrite (F W).
  Qed.

  Lemma bitflip_bits_safe p : forall n bits t, (n <= length bits)%nat -> py_safe (bitflip_bits p n bits t).
  Proof.
    induction n as [|n IH]; intros bits t L; simpl; [exact I|].
    destruct bits as [|b r]; simpl in L; [lia|].
    apply py_safe_bind; [apply get_unif_safe|]. intros [u t1] _.
    apply py_safe_bind; [apply IH; lia|]. intros [[r' w] t2] _. destruct (xleb u p); exact I.
  Qed.

  Lemma bitflip_step_valid p : step_valid (bitflip_step E p).
  Proof.
    intros ty v t v' t1 W V H. destruct ty; simpl in H; try (inversion H; fail).
    destruct v as [|bits| |]; simpl in V; try contradiction.
    destruct (bitflip_bits p nbits bits t) as [[[b' w] t2]|] eqn:Eb; simpl in H; [|discriminate].
    destruct (bitflip_bits_spec _ _ _ _ _ _ _ Eb) as [L _].
    destruct w; inversion H; subst. simpl. congruence.
  Qed.

  Lemma bitflip_step_safe p : step_safe (bitflip_step E p).
  Proof.
    intros ty v t W V. destruct ty; simpl; try exact I.
    destruct v as [|bits| |]; simpl in V; try contradiction.
    apply py_safe_bind; [apply bitflip_bits_safe; lia|]. intros [[b' w] t2] _. exact I.
  Qed.

  (* bit strings keep their declared length; flag discipline; fresh identity *)
  Theorem bitflip_valid pr ts fresh p t c f t' :
    Forall wf_type ts -> valid_sol ts p -> bitflip E P pr ts fresh p t = Ok (c, f, t') ->
    valid_sol ts c /\ copied_from c p /\ sid c = fresh /\ f = S fresh.
  Proof.
    intros WF V H. unfold bitflip in H.
    destruct (eff_prob pr (total_nbits E ts)) as [pe|]; simpl in H; [|discriminate].
    eapply mutation_of_valid; eauto using bitflip_step_valid.
  Qed.

  (* no Python error — except the ZeroDivisionError of an int probability on a problem without bits *)
  Theorem bitflip_safe pr ts fresh p t :
    Forall wf_type ts -> valid_sol ts p -> (forall z, pr = PInt z -> (0 < total_nbits E ts)%nat) ->
    py_safe (bitflip E P pr ts fresh p t).
  Proof.
    intros WF V HP. unfold bitflip.
    destruct pr as [z|q]; simpl.
    - specialize (HP z eq_refl). destruct (total_nbits E ts); [lia|]. simpl.
      apply mutation_of_safe; auto using bitflip_step_safe.
    - apply mutation_of_safe; auto using bitflip_step_safe.
  Qed.

  (* ================================================================ HUX *)
  Lemma hux_bits_spec : forall n b1 b2 t r1 r2 w t',
    hux_bits n b1 b2 t = Ok (r1, r2, w, t') ->
    length r1 = length b1 /\ length r2 = length b2 /\ (w = false -> r1 = b1 /\ r2 = b2).
  Proof.
    induction n as [|n IH]; intros b1 b2 t r1 r2 w t' H; simpl in H.
    - inversion H; subst. auto.
    - destruct b1 as [|x s1]; [discriminate|]. destruct b2 as [|y s2]; [discriminate|].
      destruct (negb (Bool.eqb x y)).
      + destruct (get_bit t) as [[c t1]|]; simpl in H; [|discriminate].
        destruct (hux_bits n s1 s2 t1) as [[[[q1 q2] w'] t2]|] eqn:El; simpl in H; [|discriminate].
        destruct (IH _ _ _ _ _ _ _ El) as (L1 & L2 & F).
        destruct c; inversion H; subst; simpl; (split; [congruence|]); (split; [congruence|]);
          try discriminate. intro W; destruct (F W); split; congruence.
      + destruct (hux_bits n s1 s2 t) as [[[[q1 q2] w'] t2]|] eqn:El; simpl in H; [|discriminate].
        destruct (IH _ _ _ _ _ _ _ El) as (L1 & L2 & F).
        inversion H; subst; simpl; (split; [congruence|]); (split; [congruence|]).
        intro W; destruct (F W); split; congruence.
  Qed.

  Lemma hux_bits_safe : forall n b1 b2 t, (n <= length b1)%nat -> (n <= length b2)%nat -> py_safe (hux_bits n b1 b2 t).
  Proof.
    induction n as [|n IH]; intros b1 b2 t L1 L2; simpl; [exact I|].
    destruct b1 as [|x s1]; simpl in L1; [lia|]. destruct b2 as [|y s2]; simpl in L2; [lia|].
    destruct (negb (Bool.eqb x y)).
    - apply py_safe_bind; [apply get_bit_safe|]. intros [c t1] _.
      apply py_safe_bind; [apply IH; lia|]. intros [[[q1 q2] w] t2] _. destruct c; exact I.
    - apply py_safe_bind; [apply IH; lia|]. intros [[[q1 q2] w] t2] _. exact I.
  Qed.

  Lemma hux_step_valid : xstep_valid (hux_step E).
  Proof.
    intros ty a b t a' b' t1 W Va Vb H. destruct ty; simpl in H; try (inversion H; fail).
    destruct a as [|b1| |]; simpl in Va; try contradiction.
    destruct b as [|b2| |]; simpl in Vb; try contradiction.
    destruct (hux_bits nbits b1 b2 t) as [[[[r1 r2] w] t2]|] eqn:Eb; simpl in H; [|discriminate].
    destruct (hux_bits_spec _ _ _ _ _ _ _ _ Eb) as (L1 & L2 & _).
    destruct w; inversion H; subst. simpl. split; congruence.
  Qed.

  Lemma hux_step_safe : xstep_safe (hux_step E).
  Proof.
    intros ty a b t W Va Vb. destruct ty; simpl; try exact I.
    destruct a as [|b1| |]; simpl in Va; try contradiction.
    destruct b as [|b2| |]; simpl in Vb; try contradiction.
    apply py_safe_bind; [apply hux_bits_safe; lia|]. intros [[[r1 r2] w] t2] _. exact I.
  Qed.

  Theorem hux_valid pr ts fresh p1 p2 t cs f t' :
    Forall wf_type ts -> valid_sol ts p1 -> valid_sol ts p2 ->
    hux E P pr ts fresh [p1; p2] t = Ok (cs, f, t') -> two_children_ok ts fresh p1 p2 cs f.
  Proof. intros. eapply guarded_crossover_of_valid; eauto using hux_step_valid. Qed.

  Theorem hux_safe pr ts fresh p1 p2 t :
    Forall wf_type ts -> valid_sol ts p1 -> valid_sol ts p2 -> py_safe (hux E P pr ts fresh [p1; p2] t).
  Proof. intros. apply guarded_crossover_of_safe; auto using hux_step_safe. Qed.

  (* ================================================================ two distinct indices *)
  Lemma redraw_spec n i : forall fuel j t j' t',
    (j < n)%nat -> redraw fuel n i j t = Ok (j', t') -> (j' < n)%nat /\ j' <> i.
  Proof.
    induction fuel as [|f IH]; intros j t j' t' L H; simpl in H.
    - destruct (Nat.eqb i j) eqn:Eij; [discriminate|]. inversion H; subst.
      apply Nat.eqb_neq in Eij. auto.
    - destruct (Nat.eqb i j) eqn:Eij.
      + destruct (get_idx n t) as [[j1 t1]|] eqn:Eg; simpl in H; [|discriminate].
        apply get_idx_ok in Eg. destruct Eg as [L1 _]. eapply IH; eauto.
      + inversion H; subst. apply Nat.eqb_neq in Eij. auto.
  Qed.

  (* the loop consumes draws equal to i until one differs *)
  Lemma redraw_consumes n i : forall fuel j t j' t',
    redraw fuel n i j t = Ok (j', t') ->
    j' <> i /\ ((j = j' /\ t = t') \/ (j = i /\ exists m, t = repeat (DIdx i) m ++ DIdx j' :: t')).
  Proof.
    induction fuel as [|f IH]; intros j t j' t' H; simpl in H.
    - destruct (Nat.eqb i j) eqn:Eij; [discriminate|]. inversion H; subst.
      apply Nat.eqb_neq in Eij. split; auto.
    - destruct (Nat.eqb i j) eqn:Eij.
      + apply Nat.eqb_eq in Eij. subst j.
        destruct (get_idx n t) as [[j1 t1]|] eqn:Eg; simpl in H; [|discriminate].
        apply get_idx_ok in Eg. destruct Eg as [_ ->].
        destruct (IH _ _ _ _ H) as [N [[A B]|[A [m B]]]].
        * subst. split; auto. right. split; auto. exists 0%nat. reflexivity.
        * subst. split; auto. right. split; auto. exists (S m). reflexivity.
      + inversion H; subst. apply Nat.eqb_neq in Eij. split; auto.
  Qed.

  (* with fuel above the tape length the loop never runs out of fuel *)
  Lemma redraw_safe n i : (0 < n)%nat -> forall fuel j t, (length t < fuel)%nat -> py_safe (redraw fuel n i j t).
  Proof.
    intros Hn. induction fuel as [|f IH]; intros j t L; [lia|]. simpl.
    destruct (Nat.eqb i j); [|exact I].
    apply py_safe_bind; [now apply get_idx_safe|].
    intros [j1 t1] Eg. apply get_idx_ok in Eg. destruct Eg as [_ ->]. apply IH. simpl in L. lia.
  Qed.

  Lemma draw_two_spec n t i j t' :
    draw_two n t = Ok (i, j, t') -> (i < n)%nat /\ (j < n)%nat /\ ((1 < n)%nat -> i <> j).
  Proof.
    unfold draw_two. intro H.
    destruct (get_idx n t) as [[i0 t1]|] eqn:E1; cbn [bind] in H; [|discriminate].
    destruct (get_idx n t1) as [[j0 t2]|] eqn:E2; cbn [bind] in H; [|discriminate].
    apply get_idx_ok in E1. apply get_idx_ok in E2. destruct E1 as [L1 _], E2 as [L2 _].
    destruct (Nat.ltb 1 n) eqn:E1n.
    - destruct (redraw (S (length t2)) n i0 j0 t2) as [[j1 t3]|] eqn:Er; cbn [bind] in H; [|discriminate].
      inversion H; subst. destruct (redraw_spec _ _ _ _ _ _ _ L2 Er) as [A B]. repeat split; auto.
    - inversion H; subst. repeat split; auto. intro C. apply Nat.ltb_lt in C. congruence.
  Qed.

  Lemma draw_two_safe n t : (0 < n)%nat -> py_safe (draw_two n t).
  Proof.
    intro Hn. unfold draw_two.
    apply py_safe_bind; [now apply get_idx_safe|]. intros [i0 t1] _.
    apply py_safe_bind; [now apply get_idx_safe|]. intros [j0 t2] _.
    destruct (Nat.ltb 1 n); [|exact I].
    apply py_safe_bind; [apply redraw_safe; auto|]. intros [j1 t3] _. exact I.
  Qed.

  (* ================================================================ Swap *)
  Lemma swap_upd_perm : forall (l : list E) i j x y,
    nth_error l i = Some x -> nth_error l j = Some y -> Permutation (upd j x (upd i y l)) l.
  Proof.
    induction l as [|a l IH]; intros [|i] [|j] x y Hi Hj; simpl in *; try discriminate.
    - inversion Hi; inversion Hj; subst. reflexivity.
    - inversion Hi; subst. apply (upd_perm j x y l Hj).
    - inversion Hj; subst. apply (upd_perm i y x l Hi).
    - apply perm_skip. now apply IH.
  Qed.

  Lemma swap_step_valid p : step_valid (swap_step E p).
  Proof.
    intros ty v t v' t1 W V H. destruct ty as [| |els|]; simpl in H; try (inversion H; fail).
    destruct (get_unif t) as [[u t0]|]; simpl in H; [|discriminate].
    destruct (xleb u p); [|inversion H].
    destruct v as [| |perm|]; simpl in V; try contradiction.
    destruct (draw_two (length perm) t0) as [[[i j] t2]|]; simpl in H; [|discriminate].
    destruct (nth_res perm i) as [x|] eqn:Ei; simpl in H; [|discriminate].
    destruct (nth_res perm j) as [y|] eqn:Ej; simpl in H; [|discriminate].
    inversion H; subst. simpl. apply nth_res_ok in Ei. apply nth_res_ok in Ej.
    eapply perm_trans; [exact V|]. symmetry. now apply swap_upd_perm.
  Qed.

  Lemma swap_step_safe p : step_safe (swap_step E p).
  Proof.
    intros ty v t W V. destruct ty as [| |els|]; simpl; try exact I.
    apply py_safe_bind; [apply get_unif_safe|]. intros [u t0] _.
    destruct (xleb u p); [|exact I].
    destruct v as [| |perm|]; simpl in V; try contradiction.
    destruct W as [_ Wl]. apply Permutation_length in V.
    apply py_safe_bind; [apply draw_two_safe; lia|]. intros [[i j] t2] Ed.
    apply draw_two_spec in Ed. destruct Ed as (Li & Lj & _).
    destruct (nth_res_lt perm i Li) as [x ->]. destruct (nth_res_lt perm j Lj) as [y ->]. exact I.
  Qed.

  (* Swap: the offspring permutation is a permutation of the declared elements *)
  Theorem swap_valid p ts fresh s t c f t' :
    Forall wf_type ts -> valid_sol ts s -> swap E P p ts fresh s t = Ok (c, f, t') ->
    valid_sol ts c /\ copied_from c s /\ sid c = fresh /\ f = S fresh.
  Proof. intros. eapply mutation_of_valid; eauto using swap_step_valid. Qed.

  Theorem swap_safe p ts fresh s t :
    Forall wf_type ts -> valid_sol ts s -> py_safe (swap E P p ts fresh s t).
  Proof. intros. apply mutation_of_safe; auto using swap_step_safe. Qed.

  (* ================================================================ Insertion *)
  (* loop invariant: the list holds every element of l0 except that position h holds a stale
     copy (z) while tmp is held aside *)
  Definition hole (l0 : list E) (tmp : E) (h : nat) (lk : list E) : Prop :=
    length lk = length l0 /\ exists z, nth_error lk h = Some z /\ Permutation (tmp :: lk) (z :: l0).

  Lemma hole_init l i tmp : nth_error l i = Some tmp -> hole l tmp i l.
  Proof. intro H. split; auto. exists tmp. split; auto. Qed.

  Lemma hole_step l0 tmp h h' lk a :
    hole l0 tmp h lk -> h <> h' -> nth_error lk h' = Some a -> hole l0 tmp h' (upd h a lk).
  Proof.
    intros [L (z & Hz & Pz)] N Ha. split; [now rewrite upd_length|].
    exists a. split; [now rewrite nth_error_upd_neq|].
    pose proof (upd_perm h a z lk Hz) as Q.
    apply (Permutation_cons_inv (a := z)).
    eapply perm_trans; [apply perm_swap|].
    eapply perm_trans; [apply perm_skip, Q|].
    eapply perm_trans; [apply perm_swap|].
    eapply perm_trans; [apply perm_skip, Pz|]. apply perm_swap.
  Qed.

  Lemma hole_final l0 tmp h lk : hole l0 tmp h lk -> Permutation (upd h tmp lk) l0.
  Proof.
    intros [L (z & Hz & Pz)]. pose proof (upd_perm h tmp z lk Hz) as Q.
    apply (Permutation_cons_inv (a := z)). eapply perm_trans; eauto.
  Qed.

  Lemma shift_down_ok l0 tmp : forall cnt l h,
    hole l0 tmp h l -> (h + cnt < length l0)%nat ->
    exists l', shift_down E l (S h) cnt = Ok l' /\ hole l0 tmp (h + cnt) l'.
  Proof.
    induction cnt as [|c IH]; intros l h Hh L; cbn [shift_down].
    - exists l. split; auto. now rewrite Nat.add_0_r.
    - destruct Hh as [Ll Hz].
      assert (Lk : (S h < length l)%nat) by lia.
      destruct (nth_res_lt l (S h) Lk) as [x Ex]. rewrite Ex. cbn [bind].
      replace (S h - 1)%nat with h by lia.
      apply nth_res_ok in Ex.
      assert (H2 : hole l0 tmp (S h) (upd h x l)) by (apply hole_step; auto; split; auto).
      destruct (IH _ _ H2) as (l' & El & Hl'); [lia|].
      exists l'. split; [exact El|].
      replace (S h + c)%nat with (h + S c)%nat in Hl' by lia. exact Hl'.
  Qed.

  Lemma shift_up_ok l0 tmp : forall cnt l h,
    hole l0 tmp h l -> (cnt <= h)%nat -> (h < length l0)%nat ->
    exists l', shift_up E l (h - 1) cnt = Ok l' /\ hole l0 tmp (h - cnt) l'.
  Proof.
    induction cnt as [|c IH]; intros l h Hh C L; cbn [shift_up].
    - exists l. split; auto. now rewrite Nat.sub_0_r.
    - destruct Hh as [Ll Hz].
      assert (Lk : (h - 1 < length l)%nat) by lia.
      destruct (nth_res_lt l (h - 1) Lk) as [x Ex]. rewrite Ex. cbn [bind].
      apply nth_res_ok in Ex.
      replace (S (h - 1)) with h by lia.
      assert (H2 : hole l0 tmp (h - 1) (upd h x l)) by (apply hole_step; auto; [split; auto|lia]).
      destruct (IH _ _ H2) as (l' & El & Hl'); [lia|lia|].
      exists l'. split; [exact El|].
      replace (h - 1 - c)%nat with (h - S c)%nat in Hl' by lia. exact Hl'.
  Qed.

  Lemma insert_at_ok perm i j : (i < length perm)%nat -> (j < length perm)%nat ->
    exists l, insert_at E perm i j = Ok l /\ Permutation l perm.
  Proof.
    intros Li Lj. unfold insert_at.
    destruct (nth_res_lt perm i Li) as [tmp Et]. rewrite Et. simpl. apply nth_res_ok in Et.
    pose proof (hole_init perm i tmp Et) as H0.
    destruct (Nat.ltb i j) eqn:Eij; [|destruct (Nat.ltb j i) eqn:Eji].
    - apply Nat.ltb_lt in Eij.
      destruct (shift_down_ok perm tmp (j - i) perm i H0) as (l' & El & Hl); [lia|].
      rewrite El. simpl. eexists. split; [reflexivity|].
      replace (i + (j - i))%nat with j in Hl by lia. now apply hole_final in Hl.
    - apply Nat.ltb_lt in Eji.
      destruct (shift_up_ok perm tmp (i - j) perm i H0) as (l' & El & Hl); [lia|lia|].
      rewrite El. simpl. eexists. split; [reflexivity|].
      replace (i - (i - j))%nat with j in Hl by lia. now apply hole_final in Hl.
    - apply Nat.ltb_ge in Eij. apply Nat.ltb_ge in Eji. assert (i = j) by lia. subst j.
      simpl. eexists. split; [reflexivity|]. now apply hole_final in H0.
  Qed.

  Lemma insertion_step_valid p : step_valid (insertion_step E p).
  Proof.
    intros ty v t v' t1 W V H. destruct ty as [| |els|]; simpl in H; try (inversion H; fail).
    destruct (get_unif t) as [[u t0]|]; simpl in H; [|discriminate].
    destruct (xleb u p); [|inversion H].
    destruct v as [| |perm|]; simpl in V; try contradiction.
    destruct (draw_two (length perm) t0) as [[[i j] t2]|] eqn:Ed; cbn [bind] in H; [|discriminate].
    apply draw_two_spec in Ed. destruct Ed as (Li & Lj & _).
    destruct (insert_at_ok perm i j Li Lj) as (l & El & Pl). rewrite El in H. simpl in H.
    inversion H; subst. simpl. eapply perm_trans; [exact V|]. now symmetry.
  Qed.

  Lemma insertion_step_safe p : step_safe (insertion_step E p).
  Proof.
    intros ty v t W V. destruct ty as [| |els|]; simpl; try exact I.
    apply py_safe_bind; [apply get_unif_safe|]. intros [u t0] _.
    destruct (xleb u p); [|exact I].
    destruct v as [| |perm|]; simpl in V; try contradiction.
    destruct W as [_ Wl]. apply Permutation_length in V.
    apply py_safe_bind; [apply draw_two_safe; lia|]. intros [[i j] t2] Ed.
    apply draw_two_spec in Ed. destruct Ed as (Li & Lj & _).
    destruct (insert_at_ok perm i j Li Lj) as (l & -> & _). exact I.
  Qed.

  (* Insertion (both shift directions): a permutation of the declared elements *)
  Theorem insertion_valid p ts fresh s t c f t' :
    Forall wf_type ts -> valid_sol ts s -> insertion E P p ts fresh s t = Ok (c, f, t') ->
    valid_sol ts c /\ copied_from c s /\ sid c = fresh /\ f = S fresh.
  Proof. intros. eapply mutation_of_valid; eauto using insertion_step_valid. Qed.

  Theorem insertion_safe p ts fresh s t :
    Forall wf_type ts -> valid_sol ts s -> py_safe (insertion E P p ts fresh s t).
  Proof. intros. apply mutation_of_safe; auto using insertion_step_safe. Qed.

  (* ================================================================ Replace *)
  Lemma NoDup_upd : forall (l : list E) i x, NoDup l -> ~ In x l -> NoDup (upd i x l).
  Proof.
    induction l as [|y r IH]; intros [|i] x ND NI; simpl; auto.
    - inversion ND; subst. constructor; auto. intro C. apply NI. now right.
    - inversion ND; subst. constructor.
      + intro C. apply upd_In in C. destruct C as [->|C]; [apply NI; now left|contradiction].
      + apply IH; auto. intro C. apply NI. now right.
  Qed.

  Lemma nonmembers_spec els s x : In x (nonmembers E eqb els s) <-> In x els /\ ~ In x s.
  Proof.
    unfold nonmembers. rewrite filter_In, negb_true_iff, mem_false. tauto.
  Qed.

  (* fewer members than declared elements => some declared element is a non-member *)
  Lemma nonmembers_nonempty els s : NoDup els -> (length s < length els)%nat ->
    (0 < length (nonmembers E eqb els s))%nat.
  Proof.
    intros ND L. destruct (nonmembers E eqb els s) as [|e r] eqn:En; [|simpl; lia].
    exfalso. assert (I : incl els s).
    { intros e He. destruct (mem e s) eqn:Em; [now apply mem_In|].
      assert (In e (nonmembers E eqb els s)) by (apply nonmembers_spec; split; auto; now apply mem_false).
      rewrite En in H. contradiction. }
    pose proof (NoDup_incl_length ND I). lia.
  Qed.

  Lemma replace_step_valid p : step_valid (replace_step E eqb p).
  Proof.
    intros ty v t v' t1 W V H. destruct ty as [| | |els k]; simpl in H; try (inversion H; fail).
    destruct (get_unif t) as [[u t0]|]; simpl in H; [|discriminate].
    destruct (xleb u p); [|inversion H].
    destruct v as [| | |s]; simpl in V; try contradiction. destruct V as (ND & Ls & Inc).
    destruct (Nat.ltb (length s) (length els)); [|inversion H].
    destruct (get_idx (length s) t0) as [[i t2]|]; simpl in H; [|discriminate].
    destruct (get_idx (length (nonmembers E eqb els s)) t2) as [[j t3]|]; simpl in H; [|discriminate].
    destruct (nth_res (nonmembers E eqb els s) j) as [x|] eqn:Ex; simpl in H; [|discriminate].
    inversion H; subst. apply nth_res_ok in Ex. apply nth_error_In in Ex.
    apply nonmembers_spec in Ex. destruct Ex as [Xe Xs]. simpl. split; [|split].
    - now apply NoDup_upd.
    - apply upd_length.
    - intros z Hz. apply upd_In in Hz. destruct Hz as [->|Hz]; auto.
  Qed.

  Lemma replace_step_safe p : step_safe (replace_step E eqb p).
  Proof.
    intros ty v t W V. destruct ty as [| | |els k]; simpl; try exact I.
    apply py_safe_bind; [apply get_unif_safe|]. intros [u t0] _.
    destruct (xleb u p); [|exact I].
    destruct v as [| | |s]; simpl in V; try contradiction. destruct V as (ND & Ls & Inc).
    destruct W as [NDe Kpos].
    destruct (Nat.ltb (length s) (length els)) eqn:El; [|exact I]. apply Nat.ltb_lt in El.
    apply py_safe_bind; [apply get_idx_safe; lia|]. intros [i t2] _.
    apply py_safe_bind; [apply get_idx_safe; now apply nonmembers_nonempty|]. intros [j t3] Ej.
    apply get_idx_ok in Ej. destruct Ej as [Lj _].
    destruct (nth_res_lt _ j Lj) as [x ->]. exact I.
  Qed.

  (* Replace: duplicate-free, of the declared size, drawn from the declared elements *)
  Theorem replace_valid p ts fresh s t c f t' :
    Forall wf_type ts -> valid_sol ts s -> replace E P eqb p ts fresh s t = Ok (c, f, t') ->
    valid_sol ts c /\ copied_from c s /\ sid c = fresh /\ f = S fresh.
  Proof. intros. eapply mutation_of_valid; eauto using replace_step_valid. Qed.

  Theorem replace_safe p ts fresh s t :
    Forall wf_type ts -> valid_sol ts s -> py_safe (replace E P eqb p ts fresh s t).
  Proof. intros. apply mutation_of_safe; auto using replace_step_safe. Qed.

  (* ================================================================ SSX *)
  Lemma ssx_loop_spec s1 s2 : forall size l1 l2 t r1 r2 t',
    ssx_loop E eqb s1 s2 size l1 l2 t = Ok (r1, r2, t') ->
    length r1 = length l1 /\ length r2 = length l2 /\
    (forall x, In x r1 -> In x l1 \/ (In x l2 /\ ~ In x s1)) /\
    (forall x, In x r2 -> In x l2 \/ (In x l1 /\ ~ In x s2)) /\
    (incl l1 s1 -> NoDup l1 -> NoDup l2 -> NoDup r1) /\
    (incl l2 s2 -> NoDup l1 -> NoDup l2 -> NoDup r2).
  Proof.
    induction size as [|k IH]; intros l1 l2 t r1 r2 t' H; simpl in H.
    - inversion H; subst. repeat split; auto.
    - destruct l1 as [|a q1]; [discriminate|]. destruct l2 as [|b q2]; [discriminate|].
      destruct (negb (mem b s1) && negb (mem a s2)) eqn:Ec.
      + apply andb_true_iff in Ec. destruct Ec as [Eb Ea].
        rewrite negb_true_iff, mem_false in Eb, Ea.
        destruct (get_unif t) as [[u t0]|]; simpl in H; [|discriminate].
        destruct (ssx_loop E eqb s1 s2 k q1 q2 t0) as [[[x1 x2] t2]|] eqn:El; simpl in H; [|discriminate].
        destruct (IH _ _ _ _ _ _ El) as (L1 & L2 & I1 & I2 & N1 & N2).
        inversion H; subst; clear H. simpl.
        split; [congruence|]. split; [congruence|].
        destruct (xltb u half).
        * split; [|split; [|split]].
          -- intros x [<-|Hx]; [right; split; auto; now left|].
             destruct (I1 _ Hx) as [?|[? ?]]; [left; now right|right; split; auto; now right].
          -- intros x [<-|Hx]; [right; split; auto; now left|].
             destruct (I2 _ Hx) as [?|[? ?]]; [left; now right|right; split; auto; now right].
          -- intros Inc ND1 ND2. inversion ND1; inversion ND2; subst.
             constructor; [|apply N1; auto; intros z Hz; apply Inc; now right].
             intro C. destruct (I1 _ C) as [C1|[C1 _]]; [|contradiction].
             apply Eb, Inc. now right.
          -- intros Inc ND1 ND2. inversion ND1; inversion ND2; subst.
             constructor; [|apply N2; auto; intros z Hz; apply Inc; now right].
             intro C. destruct (I2 _ C) as [C1|[C1 _]]; [|contradiction].
             apply Ea, Inc. now right.
        * split; [|split; [|split]].
          -- intros x [<-|Hx]; [left; now left|].
             destruct (I1 _ Hx) as [?|[? ?]]; [left; now right|right; split; auto; now right].
          -- intros x [<-|Hx]; [left; now left|].
             destruct (I2 _ Hx) as [?|[? ?]]; [left; now right|right; split; auto; now right].
          -- intros Inc ND1 ND2. inversion ND1; inversion ND2; subst.
             constructor; [|apply N1; auto; intros z Hz; apply Inc; now right].
             intro C. destruct (I1 _ C) as [C1|[_ C1]]; [contradiction|].
             apply C1, Inc. now left.
          -- intros Inc ND1 ND2. inversion ND1; inversion ND2; subst.
             constructor; [|apply N2; auto; intros z Hz; apply Inc; now right].
             intro C. destruct (I2 _ C) as [C1|[_ C1]]; [contradiction|].
             apply C1, Inc. now left.
      + simpl in H.
        destruct (ssx_loop E eqb s1 s2 k q1 q2 t) as [[[x1 x2] t2]|] eqn:El; simpl in H; [|discriminate].
        destruct (IH _ _ _ _ _ _ El) as (L1 & L2 & I1 & I2 & N1 & N2).
        inversion H; subst; clear H. simpl.
        split; [congruence|]. split; [congruence|].
        split; [|split; [|split]].
        * intros x [<-|Hx]; [left; now left|].
          destruct (I1 _ Hx) as [?|[? ?]]; [left; now right|right; split; auto; now right].
        * intros x [<-|Hx]; [left; now left|].
          destruct (I2 _ Hx) as [?|[? ?]]; [left; now right|right; split; auto; now right].
        * intros Inc ND1 ND2. inversion ND1; inversion ND2; subst.
          constructor; [|apply N1; auto; intros z Hz; apply Inc; now right].
          intro C. destruct (I1 _ C) as [C1|[_ C1]]; [contradiction|].
          apply C1, Inc. now left.
        * intros Inc ND1 ND2. inversion ND1; inversion ND2; subst.
          constructor; [|apply N2; auto; intros z Hz; apply Inc; now right].
          intro C. destruct (I2 _ C) as [C1|[_ C1]]; [contradiction|].
          apply C1, Inc. now left.
  Qed.

  Lemma ssx_loop_safe s1 s2 : forall size l1 l2 t, (size <= length l1)%nat -> (size <= length l2)%nat ->
    py_safe (ssx_loop E eqb s1 s2 size l1 l2 t).
  Proof.
    induction size as [|k IH]; intros l1 l2 t L1 L2; simpl; [exact I|].
    destruct l1 as [|a q1]; simpl in L1; [lia|]. destruct l2 as [|b q2]; simpl in L2; [lia|].
    apply py_safe_bind.
    - destruct (negb (mem b s1) && negb (mem a s2)); [|exact I].
      apply py_safe_bind; [apply get_unif_safe|]. intros [u t0] _. exact I.
    - intros [sw t1] _. apply py_safe_bind; [apply IH; lia|]. intros [[x1 x2] t2] _. exact I.
  Qed.

  Lemma ssx_step_valid p : xstep_valid (ssx_step E eqb p).
  Proof.
    intros ty a b t a' b' t1 W Va Vb H. destruct ty as [| | |els k]; simpl in H; try (inversion H; fail).
    destruct (get_unif t) as [[u t0]|]; simpl in H; [|discriminate].
    destruct (xleb u p); [|inversion H].
    destruct a as [| | |sa]; simpl in Va; try contradiction.
    destruct b as [| | |sb]; simpl in Vb; try contradiction.
    destruct Va as (NDa & La & Ia). destruct Vb as (NDb & Lb & Ib).
    destruct (ssx_loop E eqb sa sb k sa sb t0) as [[[x1 x2] t2]|] eqn:El; simpl in H; [|discriminate].
    inversion H; subst; clear H.
    destruct (ssx_loop_spec _ _ _ _ _ _ _ _ _ El) as (L1 & L2 & I1 & I2 & N1 & N2).
    simpl. split; (split; [|split]).
    - apply N1; auto. apply incl_refl.
    - congruence.
    - intros z Hz. destruct (I1 _ Hz) as [?|[? _]]; auto.
    - apply N2; auto. apply incl_refl.
    - congruence.
    - intros z Hz. destruct (I2 _ Hz) as [?|[? _]]; auto.
  Qed.

  Lemma ssx_step_safe p : xstep_safe (ssx_step E eqb p).
  Proof.
    intros ty a b t W Va Vb. destruct ty as [| | |els k]; simpl; try exact I.
    apply py_safe_bind; [apply get_unif_safe|]. intros [u t0] _.
    destruct (xleb u p); [|exact I].
    destruct a as [| | |sa]; simpl in Va; try contradiction.
    destruct b as [| | |sb]; simpl in Vb; try contradiction.
    destruct Va as (NDa & La & Ia). destruct Vb as (NDb & Lb & Ib).
    apply py_safe_bind; [apply ssx_loop_safe; lia|]. intros [[x1 x2] t2] _. exact I.
  Qed.

  (* SSX: both offspring subsets are duplicate-free, of the declared size, within the declared elements *)
  Theorem ssx_valid pr ts fresh p1 p2 t cs f t' :
    Forall wf_type ts -> valid_sol ts p1 -> valid_sol ts p2 ->
    ssx E P eqb pr ts fresh [p1; p2] t = Ok (cs, f, t') -> two_children_ok ts fresh p1 p2 cs f.
  Proof. intros. eapply crossover_of_valid; eauto using ssx_step_valid. Qed.

  Theorem ssx_safe pr ts fresh p1 p2 t :
    Forall wf_type ts -> valid_sol ts p1 -> valid_sol ts p2 -> py_safe (ssx E P eqb pr ts fresh [p1; p2] t).
  Proof. intros. apply crossover_of_safe; auto using ssx_step_safe. Qed.

  (* ================================================================ combinators
     generic over member operators that satisfy the same contract *)
  Definition flag_ok (ps cs : list sol) : Prop :=
    forall c, In c cs -> exists p, In p ps /\ copied_from c p.

  Lemma copied_from_refl p : copied_from p p.
  Proof. split; auto. intros _. repeat split. Qed.

  Lemma copied_from_trans c m p : copied_from c m -> copied_from m p -> copied_from c p.
  Proof.
    intros [P1 F1] [P2 F2]. split; [congruence|]. intro Ev.
    destruct (F1 Ev) as (A & B & C). assert (Em : evaluated m = true) by congruence.
    destruct (F2 Em) as (A' & B' & C'). repeat split; congruence.
  Qed.

  Lemma flag_ok_trans ps ms cs : flag_ok ps ms -> flag_ok ms cs -> flag_ok ps cs.
  Proof.
    intros F1 F2 c Hc. destruct (F2 c Hc) as (m & Hm & Cm). destruct (F1 m Hm) as (p & Hp & Cp).
    exists p. split; auto. eapply copied_from_trans; eauto.
  Qed.

  Section Contract.
    Variable valid : sol -> Prop.

    (* the contract of a variator of arity k and of a mutation *)
    Definition op_ok (k : nat) (op : operator E P) : Prop :=
      forall fresh ps t cs f t', length ps = k -> Forall valid ps -> op fresh ps t = Ok (cs, f, t') ->
        Forall valid cs /\ flag_ok ps cs.
    Definition mut_ok (m : mutation E P) : Prop :=
      forall fresh p t c f t', valid p -> m fresh p t = Ok (c, f, t') -> valid c /\ copied_from c p.

    Lemma map_mutate_ok m : mut_ok m ->
      forall ps fresh t cs f t', Forall valid ps -> map_mutate E P m fresh ps t = Ok (cs, f, t') ->
      Forall valid cs /\ flag_ok ps cs /\ length cs = length ps.
    Proof.
      intros M. induction ps as [|p r IH]; intros fresh t cs f t' V H; simpl in H.
      - inversion H; subst. repeat split; auto. intros c [].
      - inversion V as [|? ? Vp Vps]; subst.
        destruct (m fresh p t) as [[[c f1] t1]|] eqn:Em; simpl in H; [|discriminate].
        destruct (map_mutate E P m f1 r t1) as [[[cs' f2] t2]|] eqn:Er; simpl in H; [|discriminate].
        inversion H; subst; clear H.
        destruct (M _ _ _ _ _ _ Vp Em) as [Vc Cc]. destruct (IH _ _ _ _ _ Vps Er) as (Vr & Fr & Lr).
        split; [constructor; auto|]. split; [|simpl; congruence].
        intros x [<-|Hx]; [exists p; split; auto; now left|].
        destruct (Fr x Hx) as (q & Hq & Cq). exists q. split; auto. now right.
    Qed.

    (* Mutation.evolve on a list *)
    Theorem mutation_member_ok m k : mut_ok m -> op_ok k (map_mutate E P m).
    Proof. intros M fresh ps t cs f t' _ V H. destruct (map_mutate_ok m M _ _ _ _ _ _ V H) as (A & B & _). auto. Qed.

    Theorem ga_operator_ok k variation m : op_ok k variation -> mut_ok m -> op_ok k (ga_operator E P variation m).
    Proof.
      intros OV M fresh ps t cs f t' L V H. unfold ga_operator in H.
      destruct (variation fresh ps t) as [[[ms f1] t1]|] eqn:Ev; simpl in H; [|discriminate].
      destruct (OV _ _ _ _ _ _ L V Ev) as [Vm Fm].
      destruct (map_mutate_ok m M _ _ _ _ _ _ Vm H) as (Vc & Fc & _).
      split; auto. eapply flag_ok_trans; eauto.
    Qed.

    Theorem compound_mutation_ok ms : Forall mut_ok ms -> mut_ok (compound_mutation E P ms).
    Proof.
      induction ms as [|m r IH]; intros FM fresh p t c f t' V H; simpl in H.
      - inversion H; subst. split; auto using copied_from_refl.
      - inversion FM as [|? ? Mm Mr]; subst.
        destruct (m fresh p t) as [[[c1 f1] t1]|] eqn:Em; simpl in H; [|discriminate].
        destruct (Mm _ _ _ _ _ _ V Em) as [V1 C1].
        destruct (IH Mr _ _ _ _ _ _ V1 H) as [V2 C2]. split; auto. eapply copied_from_trans; eauto.
    Qed.

    Lemma map_each_ok op : op_ok 1 op ->
      forall ps fresh t cs f t', Forall valid ps -> map_each E P op fresh ps t = Ok (cs, f, t') ->
      Forall valid cs /\ flag_ok ps cs.
    Proof.
      intros O. induction ps as [|p r IH]; intros fresh t cs f t' V H; simpl in H.
      - inversion H; subst. split; auto. intros c [].
      - inversion V as [|? ? Vp Vps]; subst.
        destruct (op fresh [p] t) as [[[c f1] t1]|] eqn:Eo; simpl in H; [|discriminate].
        destruct (map_each E P op f1 r t1) as [[[cs' f2] t2]|] eqn:Er; simpl in H; [|discriminate].
        inversion H; subst; clear H.
        destruct (O fresh [p] _ _ _ _ eq_refl (Forall_cons _ Vp (Forall_nil _)) Eo) as [Vc Fc].
        destruct (IH _ _ _ _ _ Vps Er) as [Vr Fr].
        split; [apply Forall_app; auto|].
        intros x Hx. apply in_app_or in Hx. destruct Hx as [Hx|Hx].
        + destruct (Fc x Hx) as (q & [Eq|[]] & Cq). subst q. exists p. split; auto. now left.
        + destruct (Fr x Hx) as (q & Hq & Cq). exists q. split; auto. now right.
    Qed.

    Lemma flag_ok_refl ps : flag_ok ps ps.
    Proof. intros c Hc. exists c. split; auto using copied_from_refl. Qed.

    (* CompoundOperator with its arity-matching rules: valid in -> valid out, flags, for any
       number of incoming parents (an arity mismatch is the explicit error EArity) *)
    Theorem compound_operator_ok vs : Forall (fun v => op_ok (m_arity v) (m_evolve v)) vs ->
      forall fresh ps t cs f t', Forall valid ps -> compound_operator E P vs fresh ps t = Ok (cs, f, t') ->
      Forall valid cs /\ flag_ok ps cs.
    Proof.
      induction vs as [|v r IH]; intros FV fresh ps t cs f t' V H; cbn [compound_operator] in H.
      - inversion H; subst. split; auto using flag_ok_refl.
      - inversion FV as [|? ? H1 H2]; subst.
        destruct (Nat.eqb (m_arity v) (length ps)) eqn:Ea.
        + apply Nat.eqb_eq in Ea.
          destruct (m_evolve v fresh ps t) as [[[o f1] t1]|] eqn:Eo; cbn [bind] in H; [|discriminate].
          destruct (H1 _ _ _ _ _ _ (eq_sym Ea) V Eo) as [Vo Fo].
          destruct (IH H2 _ _ _ _ _ _ Vo H) as [Vc Fc]. split; auto. eapply flag_ok_trans; eauto.
        + destruct (Nat.eqb (m_arity v) 1 && Nat.leb 1 (length ps)) eqn:Eb; [|discriminate].
          apply andb_true_iff in Eb. destruct Eb as [Eb _]. apply Nat.eqb_eq in Eb.
          destruct (map_each E P (m_evolve v) fresh ps t) as [[[o f1] t1]|] eqn:Eo; cbn [bind] in H; [|discriminate].
          rewrite Eb in H1.
          destruct (map_each_ok _ H1 _ _ _ _ _ _ V Eo) as [Vo Fo].
          destruct (IH H2 _ _ _ _ _ _ Vo H) as [Vc Fc]. split; auto. eapply flag_ok_trans; eauto.
    Qed.

    (* Multimethod: the selected member's guarantees; the next selection is a valid index *)
    Theorem multimethod_ok vs next : Forall (fun v => op_ok (m_arity v) (m_evolve v)) vs ->
      forall fresh ps t cs nx f t' v, nth_error vs next = Some v -> length ps = m_arity v -> Forall valid ps ->
      multimethod E P vs next fresh ps t = Ok (cs, nx, f, t') ->
      Forall valid cs /\ flag_ok ps cs /\ (nx < length vs)%nat.
    Proof.
      intros FV fresh ps t cs nx f t' v Hv L V H. unfold multimethod in H.
      unfold nth_res in H. rewrite Hv in H. simpl in H.
      destruct (m_evolve v fresh ps t) as [[[o f1] t1]|] eqn:Eo; simpl in H; [|discriminate].
      destruct (get_idx (length vs) t1) as [[n2 t2]|] eqn:Eg; simpl in H; [|discriminate].
      inversion H; subst; clear H. apply get_idx_ok in Eg. destruct Eg as [Ln _].
      rewrite Forall_forall in FV. apply nth_error_In in Hv.
      destruct (FV v Hv _ _ _ _ _ _ L V Eo) as [A B]. auto.
    Qed.
  End Contract.

  (* the shipped discrete operators satisfy the contract (valid := valid for the declared types) *)
  Lemma mutation_of_mut_ok step ts : step_valid step -> Forall wf_type ts ->
    mut_ok (valid_sol ts) (mutation_of E P step ts).
  Proof. intros SV WF fresh p t c f t' V H. destruct (mutation_of_valid step ts SV _ _ _ _ _ _ WF V H) as (A & B & _). auto. Qed.

  Lemma two_children_contract ts fresh p1 p2 cs f :
    two_children_ok ts fresh p1 p2 cs f -> Forall (valid_sol ts) cs /\ flag_ok [p1; p2] cs.
  Proof.
    intros (c1 & c2 & -> & V1 & V2 & C1 & C2 & _). split; [repeat constructor; auto|].
    intros c [<-|[<-|[]]]; [exists p1|exists p2]; split; simpl; auto.
  Qed.

  Lemma crossover_of_op_ok step ts : xstep_valid step -> Forall wf_type ts ->
    op_ok (valid_sol ts) 2 (crossover_of E P step ts).
  Proof.
    intros SV WF fresh ps t cs f t' L V H.
    destruct ps as [|p1 [|p2 [|? ?]]]; simpl in L; try discriminate.
    inversion V as [|? ? V1 Vr]; subst. inversion Vr as [|? ? V2 _]; subst.
    apply two_children_contract with (fresh := fresh) (f := f). eapply crossover_of_valid; eauto.
  Qed.

  Lemma guarded_crossover_of_op_ok pr step ts : xstep_valid step -> Forall wf_type ts ->
    op_ok (valid_sol ts) 2 (guarded_crossover_of E P pr step ts).
  Proof.
    intros SV WF fresh ps t cs f t' L V H.
    destruct ps as [|p1 [|p2 [|? ?]]]; simpl in L; try discriminate.
    inversion V as [|? ? V1 Vr]; subst. inversion Vr as [|? ? V2 _]; subst.
    apply two_children_contract with (fresh := fresh) (f := f). eapply guarded_crossover_of_valid; eauto.
  Qed.

  (* ================================================================ symmetry
     exchanging the parents under the same tape exchanges the offspring (so the multiset of
     offspring values is the same) — HUX, SSX, PMX, for problems of any size *)
  Definition oswap (o : option (var * var)) : option (var * var) :=
    match o with Some (a, b) => Some (b, a) | None => None end.

  Definition xstep_sym (step : xstep E) : Prop :=
    forall ty a b t o t1, wf_type ty -> valid_var ty a -> valid_var ty b ->
      step ty a b t = Ok (o, t1) -> step ty b a t = Ok (oswap o, t1).

  Lemma cross_loop_sym step ts : xstep_sym step ->
    forall v1 v2 t r1 r2 w t', Forall wf_type ts -> valid_vars ts v1 -> valid_vars ts v2 ->
    cross_loop E step ts v1 v2 t = Ok (r1, r2, w, t') ->
    cross_loop E step ts v2 v1 t = Ok (r2, r1, w, t').
  Proof.
    intros SS. induction ts as [|ty ts IH]; intros v1 v2 t r1 r2 w t' WF V1 V2 H.
    - simpl in H. inversion V1; inversion V2; subst. inversion H; subst. reflexivity.
    - inversion V1 as [|? a ? ar Ha Har]; subst. inversion V2 as [|? b ? br Hb Hbr]; subst.
      inversion WF as [|? ? Wty Wts]; subst. simpl in H. simpl.
      destruct (step ty a b t) as [[o t1]|] eqn:Es; simpl in H; [|discriminate].
      rewrite (SS _ _ _ _ _ _ Wty Ha Hb Es). simpl.
      destruct (cross_loop E step ts ar br t1) as [[[[s1 s2] w2] t2]|] eqn:El; simpl in H; [|discriminate].
      rewrite (IH _ _ _ _ _ _ _ Wts Har Hbr El). simpl.
      inversion H; subst. destruct o as [[a' b']|]; reflexivity.
  Qed.

  Definition exchanged (cs ds : list sol) : Prop :=
    exists c1 c2 d1 d2, cs = [c1; c2] /\ ds = [d1; d2] /\
      vars d1 = vars c2 /\ vars d2 = vars c1 /\ evaluated d1 = evaluated c2 /\ evaluated d2 = evaluated c1.

  Theorem crossover_of_sym step ts : xstep_sym step ->
    forall fresh p1 p2 t cs f t', Forall wf_type ts -> valid_sol ts p1 -> valid_sol ts p2 ->
    crossover_of E P step ts fresh [p1; p2] t = Ok (cs, f, t') ->
    exists ds, crossover_of E P step ts fresh [p2; p1] t = Ok (ds, f, t') /\ exchanged cs ds.
  Proof.
    intros SS fresh p1 p2 t cs f t' WF V1 V2 H. unfold crossover_of in *. simpl in *.
    destruct (cross_loop E step ts (vars p1) (vars p2) t) as [[[[r1 r2] w] t1]|] eqn:El; simpl in H; [|discriminate].
    rewrite (cross_loop_sym step ts SS _ _ _ _ _ _ _ WF V1 V2 El). simpl.
    inversion H; subst. eexists. split; [reflexivity|].
    eexists _, _, _, _. repeat split; reflexivity.
  Qed.

  Theorem guarded_crossover_of_sym pr step ts : xstep_sym step ->
    forall fresh p1 p2 t cs f t', Forall wf_type ts -> valid_sol ts p1 -> valid_sol ts p2 ->
    guarded_crossover_of E P pr step ts fresh [p1; p2] t = Ok (cs, f, t') ->
    exists ds, guarded_crossover_of E P pr step ts fresh [p2; p1] t = Ok (ds, f, t') /\ exchanged cs ds.
  Proof.
    intros SS fresh p1 p2 t cs f t' WF V1 V2 H. unfold guarded_crossover_of in *. simpl in *.
    destruct (get_unif t) as [[u t0]|]; simpl in *; [|discriminate].
    destruct (xleb u pr).
    - destruct (cross_loop E step ts (vars p1) (vars p2) t0) as [[[[r1 r2] w] t1]|] eqn:El; simpl in H; [|discriminate].
      rewrite (cross_loop_sym step ts SS _ _ _ _ _ _ _ WF V1 V2 El). simpl.
      inversion H; subst. eexists. split; [reflexivity|].
      eexists _, _, _, _. repeat split; reflexivity.
    - inversion H; subst. eexists. split; [reflexivity|].
      eexists _, _, _, _. repeat split; reflexivity.
  Qed.

  (* exchanged offspring = the same multiset of offspring values *)
  Lemma exchanged_multiset cs ds : exchanged cs ds -> Permutation (map vars cs) (map vars ds).
  Proof.
    intros (c1 & c2 & d1 & d2 & -> & -> & A & B & _). simpl. rewrite A, B. apply perm_swap.
  Qed.

  (* ---- HUX *)
  Lemma hux_bits_sym : forall n b1 b2 t r1 r2 w t',
    hux_bits n b1 b2 t = Ok (r1, r2, w, t') -> hux_bits n b2 b1 t = Ok (r2, r1, w, t').
  Proof.
    induction n as [|n IH]; intros b1 b2 t r1 r2 w t' H; simpl in *.
    - now inversion H.
    - destruct b1 as [|x s1]; [discriminate|]. destruct b2 as [|y s2]; [discriminate|].
      replace (Bool.eqb y x) with (Bool.eqb x y) by (destruct x, y; reflexivity).
      destruct (negb (Bool.eqb x y)).
      + destruct (get_bit t) as [[c t1]|]; simpl in *; [|discriminate].
        destruct (hux_bits n s1 s2 t1) as [[[[q1 q2] w'] t2]|] eqn:El; simpl in H; [|discriminate].
        rewrite (IH _ _ _ _ _ _ _ El). simpl. destruct c; now inversion H.
      + destruct (hux_bits n s1 s2 t) as [[[[q1 q2] w'] t2]|] eqn:El; simpl in H; [|discriminate].
        rewrite (IH _ _ _ _ _ _ _ El). simpl. now inversion H.
  Qed.

  Lemma hux_step_sym : xstep_sym (hux_step E).
  Proof.
    intros ty a b t o t1 W Va Vb H. destruct ty; simpl in *; try (inversion H; subst; reflexivity).
    destruct a as [|b1| |]; simpl in Va; try contradiction.
    destruct b as [|b2| |]; simpl in Vb; try contradiction.
    destruct (hux_bits nbits b1 b2 t) as [[[[r1 r2] w] t2]|] eqn:Eb; simpl in H; [|discriminate].
    rewrite (hux_bits_sym _ _ _ _ _ _ _ _ Eb). simpl. inversion H; subst. destruct w; reflexivity.
  Qed.

  Theorem hux_symmetric pr ts fresh p1 p2 t cs f t' :
    Forall wf_type ts -> valid_sol ts p1 -> valid_sol ts p2 ->
    hux E P pr ts fresh [p1; p2] t = Ok (cs, f, t') ->
    exists ds, hux E P pr ts fresh [p2; p1] t = Ok (ds, f, t') /\ exchanged cs ds.
  Proof. intros. eapply guarded_crossover_of_sym; eauto using hux_step_sym. Qed.

  (* ---- SSX *)
  Lemma ssx_loop_sym s1 s2 : forall size l1 l2 t r1 r2 t',
    ssx_loop E eqb s1 s2 size l1 l2 t = Ok (r1, r2, t') ->
    ssx_loop E eqb s2 s1 size l2 l1 t = Ok (r2, r1, t').
  Proof.
    induction size as [|k IH]; intros l1 l2 t r1 r2 t' H; simpl in *.
    - now inversion H.
    - destruct l1 as [|a q1]; [discriminate|]. destruct l2 as [|b q2]; [discriminate|].
      rewrite (andb_comm (negb (mem a s2))).
      destruct (negb (mem b s1) && negb (mem a s2)).
      + destruct (get_unif t) as [[u t0]|]; simpl in *; [|discriminate].
        destruct (ssx_loop E eqb s1 s2 k q1 q2 t0) as [[[x1 x2] t2]|] eqn:El; simpl in H; [|discriminate].
        rewrite (IH _ _ _ _ _ _ El). simpl. inversion H; subst. destruct (xltb u half); reflexivity.
      + simpl in *.
        destruct (ssx_loop E eqb s1 s2 k q1 q2 t) as [[[x1 x2] t2]|] eqn:El; simpl in H; [|discriminate].
        rewrite (IH _ _ _ _ _ _ El). simpl. now inversion H.
  Qed.

  Lemma ssx_step_sym p : xstep_sym (ssx_step E eqb p).
  Proof.
    intros ty a b t o t1 W Va Vb H. destruct ty as [| | |els k]; simpl in *; try (inversion H; subst; reflexivity).
    destruct (get_unif t) as [[u t0]|]; simpl in *; [|discriminate].
    destruct (xleb u p); [|inversion H; subst; reflexivity].
    destruct a as [| | |sa]; simpl in Va; try contradiction.
    destruct b as [| | |sb]; simpl in Vb; try contradiction.
    destruct (ssx_loop E eqb sa sb k sa sb t0) as [[[x1 x2] t2]|] eqn:El; simpl in H; [|discriminate].
    rewrite (ssx_loop_sym _ _ _ _ _ _ _ _ _ El). simpl. now inversion H.
  Qed.

  Theorem ssx_symmetric pr ts fresh p1 p2 t cs f t' :
    Forall wf_type ts -> valid_sol ts p1 -> valid_sol ts p2 ->
    ssx E P eqb pr ts fresh [p1; p2] t = Ok (cs, f, t') ->
    exists ds, ssx E P eqb pr ts fresh [p2; p1] t = Ok (ds, f, t') /\ exchanged cs ds.
  Proof. intros. eapply crossover_of_sym; eauto using ssx_step_sym. Qed.

  (* ---- PMX *)
  Lemma pmx_maps_sym p1 p2 : forall cnt i r1 r2 m1 m2,
    pmx_maps E p1 p2 i cnt r1 r2 = Ok (m1, m2) -> pmx_maps E p2 p1 i cnt r2 r1 = Ok (m2, m1).
  Proof.
    induction cnt as [|c IH]; intros i r1 r2 m1 m2 H; simpl in *.
    - now inversion H.
    - destruct (nth_res p1 i) as [a|]; simpl in *; [|discriminate].
      destruct (nth_res p2 i) as [b|]; simpl in *; [|discriminate]. now apply IH.
  Qed.

  Lemma pmx_fill_sym p1 p2 cp1 cp2 n r1 r2 : forall cnt i o1 o2,
    pmx_fill E eqb p1 p2 cp1 cp2 n r1 r2 i cnt = Ok (o1, o2) ->
    pmx_fill E eqb p2 p1 cp1 cp2 n r2 r1 i cnt = Ok (o2, o1).
  Proof.
    induction cnt as [|c IH]; intros i o1 o2 H; cbn [pmx_fill] in *.
    - now inversion H.
    - destruct (nth_res p1 i) as [a|]; cbn [bind] in *; [|discriminate].
      destruct (nth_res p2 i) as [b|]; cbn [bind] in *; [|discriminate].
      destruct (Nat.ltb i cp1 || Nat.ltb cp2 i).
      + destruct (chase E eqb (S n) r1 a) as [n1|] eqn:E1; cbn [bind] in *; [|discriminate].
        destruct (chase E eqb (S n) r2 b) as [n2|] eqn:E2; cbn [bind] in *; [|discriminate].
        destruct (pmx_fill E eqb p1 p2 cp1 cp2 n r1 r2 (S i) c) as [[x1 x2]|] eqn:Ef; cbn [bind] in *; [|discriminate].
        rewrite (IH _ _ _ Ef). cbn [bind]. now inversion H.
      + cbn [bind] in *.
        destruct (pmx_fill E eqb p1 p2 cp1 cp2 n r1 r2 (S i) c) as [[x1 x2]|] eqn:Ef; cbn [bind] in *; [|discriminate].
        rewrite (IH _ _ _ Ef). cbn [bind]. now inversion H.
  Qed.

  Lemma pmx_lists_sym p1 p2 t o1 o2 t' : length p1 = length p2 ->
    pmx_lists E eqb p1 p2 t = Ok (o1, o2, t') -> pmx_lists E eqb p2 p1 t = Ok (o2, o1, t').
  Proof.
    intros L H. unfold pmx_lists, pmx_cut in *. rewrite <- L.
    destruct (draw_two (length p1) t) as [[[c1 c2] t1]|]; cbn [bind] in *; [|discriminate].
    set (cp1 := if Nat.ltb c2 c1 then c2 else c1) in *. set (cp2 := if Nat.ltb c2 c1 then c1 else c2) in *.
    destruct (pmx_maps E p1 p2 cp1 (S cp2 - cp1) [] []) as [[m1 m2]|] eqn:Em; cbn [bind] in *; [|discriminate].
    rewrite (pmx_maps_sym _ _ _ _ _ _ _ _ Em). cbn [bind].
    destruct (pmx_fill E eqb p1 p2 cp1 cp2 (length p1) m1 m2 0 (length p1)) as [[x1 x2]|] eqn:Ef; cbn [bind] in *; [|discriminate].
    rewrite (pmx_fill_sym _ _ _ _ _ _ _ _ _ _ _ Ef). cbn [bind]. now inversion H.
  Qed.

  Lemma pmx_step_sym p : xstep_sym (pmx_step E eqb p).
  Proof.
    intros ty a b t o t1 W Va Vb H. destruct ty as [| |els|]; simpl in *; try (inversion H; subst; reflexivity).
    destruct (get_unif t) as [[u t0]|]; simpl in *; [|discriminate].
    destruct (xleb u p); [|inversion H; subst; reflexivity].
    destruct a as [| |pa|]; simpl in Va; try contradiction.
    destruct b as [| |pb|]; simpl in Vb; try contradiction.
    assert (L : length pa = length pb).
    { apply Permutation_length in Va. apply Permutation_length in Vb. congruence. }
    destruct (pmx_lists E eqb pa pb t0) as [[[x1 x2] t2]|] eqn:El; cbn [bind] in H; [|discriminate].
    rewrite (pmx_lists_sym _ _ _ _ _ _ L El). cbn [bind]. now inversion H.
  Qed.

  Theorem pmx_symmetric pr ts fresh p1 p2 t cs f t' :
    Forall wf_type ts -> valid_sol ts p1 -> valid_sol ts p2 ->
    pmx E P eqb pr ts fresh [p1; p2] t = Ok (cs, f, t') ->
    exists ds, pmx E P eqb pr ts fresh [p2; p1] t = Ok (ds, f, t') /\ exchanged cs ds.
  Proof. intros. eapply crossover_of_sym; eauto using pmx_step_sym. Qed.

  (* ================================================================ PMX: permutation validity
     (termination of the replacement chains = injectivity of the segment map) *)
  Notation lookup := (lookup E eqb).
  Notation chase := (chase E eqb).
  Lemma eqb_refl x : eqb x x = true.
  Proof. now apply eqb_spec. Qed.
  Lemma eqb_neq x y : eqb x y = false <-> x <> y.
  Proof. rewrite <- eqb_spec. destruct (eqb x y); split; congruence. Qed.

  (* ---- association lists *)
  Definition inv (m : list (E * E)) : list (E * E) := map (fun ab => (snd ab, fst ab)) m.

  Lemma lookup_some_In x y m : lookup x m = Some y -> In (x, y) m.
  Proof.
    induction m as [|[k v] r IH]; simpl; [discriminate|].
    destruct (eqb x k) eqn:Ek.
    - intro H. inversion H; subst. apply eqb_spec in Ek. subst. now left.
    - intro H. right. auto.
  Qed.

  Lemma lookup_none x m : lookup x m = None <-> ~ In x (map fst m).
  Proof.
    induction m as [|[k v] r IH]; simpl; [tauto|].
    destruct (eqb x k) eqn:Ek.
    - apply eqb_spec in Ek. subst. split; [discriminate|]. intro H. exfalso. apply H. now left.
    - apply eqb_neq in Ek. rewrite IH. split; [intros H [C|C]; [congruence|auto]|tauto].
  Qed.

  Lemma In_lookup x y m : NoDup (map fst m) -> In (x, y) m -> lookup x m = Some y.
  Proof.
    induction m as [|[k v] r IH]; simpl; [tauto|]. intros ND [H|H].
    - inversion H; subst. now rewrite eqb_refl.
    - inversion ND; subst. destruct (eqb x k) eqn:Ek.
      + apply eqb_spec in Ek. subst. exfalso. apply H2. apply (in_map fst) in H. exact H.
      + auto.
  Qed.

  Inductive steps (m : list (E * E)) : nat -> E -> E -> Prop :=
    | st0 x : steps m 0 x x
    | stS k x z y : In (x, z) m -> steps m k z y -> steps m (S k) x y.

  Lemma chase_steps m : forall fuel x y, chase fuel m x = Ok y ->
    exists k, (k < fuel)%nat /\ steps m k x y /\ ~ In y (map fst m).
  Proof.
    induction fuel as [|f IH]; intros x y H; simpl in H; [discriminate|].
    destruct (lookup x m) as [z|] eqn:El.
    - destruct (IH _ _ H) as (k & Lk & St & N). exists (Datatypes.S k). repeat split; auto; [lia|].
      econstructor; eauto. now apply lookup_some_In.
    - inversion H; subst. exists 0%nat. repeat split; [lia|constructor|now apply lookup_none].
  Qed.

  Lemma steps_chase m : NoDup (map fst m) -> forall k x y, steps m k x y -> ~ In y (map fst m) ->
    forall fuel, (k < fuel)%nat -> chase fuel m x = Ok y.
  Proof.
    intros ND. induction 1 as [x|k x z y Hin Hs IH]; intros N fuel L.
    - destruct fuel; [lia|]. simpl. apply lookup_none in N. now rewrite N.
    - destruct fuel; [lia|]. simpl. rewrite (In_lookup _ _ _ ND Hin). apply IH; auto. lia.
  Qed.

  Lemma steps_snoc m : forall k x z y, steps m k x z -> In (z, y) m -> steps m (S k) x y.
  Proof.
    induction 1 as [x|k x w z Hin Hs IH]; intro H.
    - econstructor; eauto. constructor.
    - econstructor; eauto.
  Qed.

  Lemma In_inv a b m : In (a, b) m <-> In (b, a) (inv m).
  Proof.
    unfold inv. rewrite in_map_iff. split.
    - intro H. exists (a, b). auto.
    - intros ([x y] & H1 & H2). simpl in H1. inversion H1; subst. auto.
  Qed.

  Lemma steps_inv m : forall k x y, steps m k x y -> steps (inv m) k y x.
  Proof.
    induction 1 as [x|k x z y Hin Hs IH]; [constructor|].
    apply steps_snoc with (z := z); [exact IH|]. apply (proj1 (In_inv x z m)). exact Hin.
  Qed.

  Lemma steps_end m : forall k x y, steps m k x y -> y = x \/ In y (map snd m).
  Proof.
    induction 1 as [x|k x z y Hin Hs IH]; auto.
    destruct IH as [->|H]; auto. right. apply (in_map snd) in Hin. exact Hin.
  Qed.

  (* ---- termination: an injective map, started outside its image, never cycles *)
  Definition rm (x : E) (m : list (E * E)) := filter (fun ab => negb (eqb x (fst ab))) m.

  Lemma lookup_rm x z m : z <> x -> lookup z (rm x m) = lookup z m.
  Proof.
    intro N. induction m as [|[k v] r IH]; simpl; auto.
    destruct (eqb x k) eqn:Ek; simpl.
    - apply eqb_spec in Ek. subst k. destruct (eqb z x) eqn:Ez; [apply eqb_spec in Ez; congruence|auto].
    - now rewrite IH.
  Qed.

  Lemma chase_rm x m : ~ In x (map snd m) -> forall f z, z <> x -> chase f m z = chase f (rm x m) z.
  Proof.
    intros NI. induction f as [|f IH]; intros z N; simpl; auto.
    rewrite (lookup_rm x z m N). destruct (lookup z m) as [w|] eqn:El; auto.
    apply IH. intro C. subst w. apply NI. apply lookup_some_In in El. apply (in_map snd) in El. exact El.
  Qed.

  Lemma NoDup_map_filter {A B} (g : A -> B) (p : A -> bool) (l : list A) : NoDup (map g l) -> NoDup (map g (filter p l)).
  Proof.
    induction l as [|a r IH]; simpl; auto. intro ND. inversion ND; subst.
    destruct (p a); simpl; auto. constructor; auto.
    intro C. apply H1. apply in_map_iff in C. destruct C as (b & Hb & Hin). apply filter_In in Hin.
    apply in_map_iff. exists b. tauto.
  Qed.

  Lemma snd_inj (m : list (E * E)) a b y : NoDup (map snd m) -> In (a, y) m -> In (b, y) m -> a = b.
  Proof.
    induction m as [|[k v] r IH]; simpl; [tauto|]. intros ND [H1|H1] [H2|H2].
    - congruence.
    - inversion H1; subst. inversion ND; subst. exfalso. apply H3. apply (in_map snd) in H2. exact H2.
    - inversion H2; subst. inversion ND; subst. exfalso. apply H3. apply (in_map snd) in H1. exact H1.
    - inversion ND; subst. auto.
  Qed.

  Lemma filter_len_le {A} (p : A -> bool) (l : list A) : (length (filter p l) <= length l)%nat.
  Proof. induction l as [|a r IH]; simpl; auto. destruct (p a); simpl; lia. Qed.

  Lemma rm_length_lt x y (m : list (E * E)) : In (x, y) m -> (length (rm x m) < length m)%nat.
  Proof.
    induction m as [|[k v] r IH]; simpl; [tauto|]. intros [H|H].
    - inversion H; subst. rewrite eqb_refl. simpl.
      pose proof (filter_len_le (fun ab => negb (eqb x (fst ab))) r). unfold rm. lia.
    - specialize (IH H). unfold rm in *. destruct (eqb x k); simpl; lia.
  Qed.

  Lemma chase_total : forall n m, length m = n -> NoDup (map fst m) -> NoDup (map snd m) ->
    forall x, ~ In x (map snd m) -> forall fuel, (n < fuel)%nat -> exists y, chase fuel m x = Ok y.
  Proof.
    induction n as [n IH] using lt_wf_ind. intros m Lm ND1 ND2 x NI fuel Lf.
    destruct fuel as [|f]; [lia|]. simpl.
    destruct (lookup x m) as [y|] eqn:El; [|eauto].
    pose proof (lookup_some_In _ _ _ El) as Hin.
    assert (Nyx : y <> x).
    { intro C. subst y. apply NI. apply (in_map snd) in Hin. exact Hin. }
    rewrite (chase_rm x m NI f y Nyx).
    pose proof (rm_length_lt _ _ _ Hin) as Lr.
    apply (IH (length (rm x m))) with (m := rm x m); try lia; auto.
    - apply NoDup_map_filter; auto.
    - apply NoDup_map_filter; auto.
    - intro C. apply in_map_iff in C. destruct C as ([a b] & Hb & Hin2). simpl in Hb. subst b.
      apply filter_In in Hin2. destruct Hin2 as [Hin2 Hne]. simpl in Hne.
      assert (a = x) by (eapply snd_inj; eauto). subst a. rewrite eqb_refl in Hne. discriminate.
  Qed.

  (* ---- segments of a list *)
  Definition seg {A} (l : list A) (i c : nat) : list A := firstn c (skipn i l).

  Lemma skipn_nth {A} : forall (l : list A) i a, nth_error l i = Some a -> skipn i l = a :: skipn (S i) l.
  Proof.
    induction l as [|x r IH]; intros [|i] a H; simpl in *; try discriminate.
    - now inversion H.
    - now apply IH.
  Qed.

  Lemma seg_S {A} (l : list A) i c a : nth_error l i = Some a -> seg l i (S c) = a :: seg l (S i) c.
  Proof. intro H. unfold seg. rewrite (skipn_nth l i a H). reflexivity. Qed.

  Lemma nth_error_lt {A} (l : list A) i : (i < length l)%nat -> exists a, nth_error l i = Some a.
  Proof. intro H. destruct (nth_error l i) eqn:Eq; eauto. apply nth_error_None in Eq. lia. Qed.

  Lemma seg_length {A} (l : list A) : forall c i, (i + c <= length l)%nat -> length (seg l i c) = c.
  Proof. intros c i H. unfold seg. rewrite firstn_length, skipn_length. lia. Qed.

  Lemma In_seg {A} (l : list A) : forall c i x, (i + c <= length l)%nat ->
    (In x (seg l i c) <-> exists j, (i <= j < i + c)%nat /\ nth_error l j = Some x).
  Proof.
    induction c as [|c IH]; intros i x L.
    - unfold seg. simpl. split; [tauto|]. intros (j & Hj & _). lia.
    - destruct (nth_error_lt l i) as [a Ha]; [lia|]. rewrite (seg_S l i c a Ha). simpl. rewrite IH by lia. split.
      + intros [->|(j & Hj & Hn)]; [exists i; split; auto; lia|exists j; split; auto; lia].
      + intros (j & Hj & Hn). destruct (Nat.eq_dec j i) as [->|N]; [left; congruence|].
        right. exists j. split; auto. lia.
  Qed.

  Lemma NoDup_app_both {A} : forall (l l' : list A), NoDup (l ++ l') -> NoDup l /\ NoDup l'.
  Proof.
    induction l as [|a r IH]; intros l' H; simpl in *; [split; [constructor|auto]|].
    inversion H; subst. destruct (IH _ H3) as [X Y]. split; auto. constructor; auto.
    intro C. apply H2. apply in_or_app. now left.
  Qed.

  Lemma NoDup_seg {A} (l : list A) i c : NoDup l -> NoDup (seg l i c).
  Proof.
    intro ND. unfold seg. rewrite <- (firstn_skipn i l) in ND. apply NoDup_app_both in ND. destruct ND as [_ ND].
    rewrite <- (firstn_skipn c (skipn i l)) in ND. apply NoDup_app_both in ND. tauto.
  Qed.

  Lemma outside_not_in_seg {A} (l : list A) i c j x : NoDup l -> (i + c <= length l)%nat ->
    nth_error l j = Some x -> ~ (i <= j < i + c)%nat -> ~ In x (seg l i c).
  Proof.
    intros ND L Hj Out C. apply In_seg in C; auto. destruct C as (j' & Hj' & Hn).
    assert (j' = j).
    { apply (proj1 (NoDup_nth_error l) ND); [lia|congruence]. }
    lia.
  Qed.

  Lemma map_fst_combine {A B} : forall (a : list A) (b : list B), length a = length b -> map fst (combine a b) = a.
  Proof. induction a as [|x r IH]; intros [|y s] L; simpl in *; try discriminate; auto. f_equal. auto. Qed.
  Lemma map_snd_combine {A B} : forall (a : list A) (b : list B), length a = length b -> map snd (combine a b) = b.
  Proof. induction a as [|x r IH]; intros [|y s] L; simpl in *; try discriminate; auto. f_equal. auto. Qed.
  Lemma inv_combine : forall (a b : list E), inv (combine a b) = combine b a.
  Proof. induction a as [|x r IH]; intros [|y s]; simpl; auto. f_equal. apply IH. Qed.

  (* ---- the replacement maps *)
  Lemma pmx_maps_spec p1 p2 : length p1 = length p2 -> forall cnt i a1 a2, (i + cnt <= length p1)%nat ->
    pmx_maps E p1 p2 i cnt a1 a2 =
      Ok (rev (combine (seg p2 i cnt) (seg p1 i cnt)) ++ a1, rev (combine (seg p1 i cnt) (seg p2 i cnt)) ++ a2).
  Proof.
    intros Len. induction cnt as [|c IH]; intros i a1 a2 L; cbn [pmx_maps].
    - reflexivity.
    - destruct (nth_error_lt p1 i) as [a Ha]; [lia|]. destruct (nth_error_lt p2 i) as [b Hb]; [lia|].
      unfold nth_res. rewrite Ha, Hb. cbn [bind].
      rewrite IH by lia. rewrite (seg_S p1 i c a Ha), (seg_S p2 i c b Hb). simpl.
      now rewrite <- !app_assoc.
  Qed.

  Section Cut.
    Variables p1 p2 : list E.
    Variables cp1 cp2 : nat.
    Hypothesis ND1 : NoDup p1.
    Hypothesis ND2 : NoDup p2.
    Hypothesis Perm : Permutation p1 p2.
    Hypothesis Hcp : (cp1 <= cp2 < length p1)%nat.

    Let n := length p1.
    Let c := (S cp2 - cp1)%nat.
    Let A := seg p1 cp1 c.
    Let B := seg p2 cp1 c.
    Let r1 := rev (combine B A).
    Let r2 := rev (combine A B).
    Definition outside (j : nat) : bool := Nat.ltb j cp1 || Nat.ltb cp2 j.

    Lemma Len : length p1 = length p2.
    Proof. now apply Permutation_length. Qed.

    Lemma lenA : length A = c. Proof. apply seg_length. unfold c. lia. Qed.
    Lemma lenB : length B = c. Proof. apply seg_length. rewrite <- Len. unfold c. lia. Qed.

    Lemma fst_r1 x : In x (map fst r1) <-> In x B.
    Proof. unfold r1. rewrite map_rev, <- in_rev, map_fst_combine; [tauto|]. now rewrite lenA, lenB. Qed.
    Lemma snd_r1 x : In x (map snd r1) <-> In x A.
    Proof. unfold r1. rewrite map_rev, <- in_rev, map_snd_combine; [tauto|]. now rewrite lenA, lenB. Qed.
    Lemma fst_r2 x : In x (map fst r2) <-> In x A.
    Proof. unfold r2. rewrite map_rev, <- in_rev, map_fst_combine; [tauto|]. now rewrite lenA, lenB. Qed.
    Lemma snd_r2 x : In x (map snd r2) <-> In x B.
    Proof. unfold r2. rewrite map_rev, <- in_rev, map_snd_combine; [tauto|]. now rewrite lenA, lenB. Qed.

    Lemma nd_fst_r1 : NoDup (map fst r1).
    Proof. unfold r1. rewrite map_rev, map_fst_combine by (now rewrite lenA, lenB).
      eapply Permutation_NoDup; [apply Permutation_rev|]. now apply NoDup_seg. Qed.
    Lemma nd_snd_r1 : NoDup (map snd r1).
    Proof. unfold r1. rewrite map_rev, map_snd_combine by (now rewrite lenA, lenB).
      eapply Permutation_NoDup; [apply Permutation_rev|]. now apply NoDup_seg. Qed.
    Lemma nd_fst_r2 : NoDup (map fst r2).
    Proof. unfold r2. rewrite map_rev, map_fst_combine by (now rewrite lenA, lenB).
      eapply Permutation_NoDup; [apply Permutation_rev|]. now apply NoDup_seg. Qed.
    Lemma nd_snd_r2 : NoDup (map snd r2).
    Proof. unfold r2. rewrite map_rev, map_snd_combine by (now rewrite lenA, lenB).
      eapply Permutation_NoDup; [apply Permutation_rev|]. now apply NoDup_seg. Qed.

    Lemma len_r1 : (length r1 < S n)%nat.
    Proof. unfold r1. rewrite rev_length, combine_length, lenA, lenB. unfold c, n. lia. Qed.
    Lemma len_r2 : (length r2 < S n)%nat.
    Proof. unfold r2. rewrite rev_length, combine_length, lenA, lenB. unfold c, n. lia. Qed.

    Lemma inv_r2 : inv r2 = r1.
    Proof. unfold r1, r2, inv. rewrite map_rev. f_equal. apply inv_combine. Qed.

    Lemma outside_spec j : outside j = true <-> ~ (cp1 <= j < cp1 + c)%nat.
    Proof.
      unfold outside, c. rewrite orb_true_iff, !Nat.ltb_lt. lia.
    Qed.

    Lemma maps_eq : pmx_maps E p1 p2 cp1 c [] [] = Ok (r1, r2).
    Proof. rewrite (pmx_maps_spec p1 p2 Len) by (unfold c; lia). now rewrite !app_nil_r. Qed.

    (* outside the cut the chains terminate within the fuel *)
    Lemma chase1_total j a : nth_error p1 j = Some a -> outside j = true -> exists x, chase (S n) r1 a = Ok x.
    Proof.
      intros Ha Out. apply (chase_total (length r1) r1 eq_refl nd_fst_r1 nd_snd_r1); [|apply len_r1].
      rewrite snd_r1. apply (outside_not_in_seg p1 cp1 c j a ND1); auto; [unfold c; lia|now apply outside_spec].
    Qed.
    Lemma chase2_total j b : nth_error p2 j = Some b -> outside j = true -> exists y, chase (S n) r2 b = Ok y.
    Proof.
      intros Hb Out. apply (chase_total (length r2) r2 eq_refl nd_fst_r2 nd_snd_r2); [|apply len_r2].
      rewrite snd_r2. apply (outside_not_in_seg p2 cp1 c j b ND2); auto; [rewrite <- Len; unfold c; lia|now apply outside_spec].
    Qed.

    Lemma fill_ok : forall cnt i, (i + cnt <= n)%nat ->
      exists o1 o2, pmx_fill E eqb p1 p2 cp1 cp2 n r1 r2 i cnt = Ok (o1, o2) /\ length o1 = cnt /\
        forall k, (k < cnt)%nat -> exists a b x, nth_error p1 (i + k) = Some a /\ nth_error p2 (i + k) = Some b /\
          nth_error o1 k = Some x /\ (if outside (i + k) then chase (S n) r1 a = Ok x else x = b).
    Proof.
      induction cnt as [|m IH]; intros i L; cbn [pmx_fill].
      - exists [], []. repeat split; auto. intros k Hk. lia.
      - destruct (nth_error_lt p1 i) as [a Ha]; [unfold n in L; lia|].
        destruct (nth_error_lt p2 i) as [b Hb]; [rewrite <- Len; unfold n in L; lia|].
        unfold nth_res. rewrite Ha, Hb. cbn [bind].
        destruct (IH (S i)) as (o1 & o2 & Ef & Lo & Sp); [lia|].
        fold (outside i). destruct (outside i) eqn:Eo.
        + destruct (chase1_total i a Ha Eo) as [x Ex]. destruct (chase2_total i b Hb Eo) as [y Ey].
          rewrite Ex, Ey. cbn [bind]. rewrite Ef. cbn [bind].
          exists (x :: o1), (y :: o2). split; [reflexivity|]. split; [simpl; lia|].
          intros [|k] Hk.
          * exists a, b, x. rewrite Nat.add_0_r, Eo. auto.
          * destruct (Sp k) as (a' & b' & x' & H1 & H2 & H3 & H4); [lia|].
            exists a', b', x'. replace (i + S k)%nat with (S i + k)%nat by lia. auto.
        + cbn [bind]. rewrite Ef. cbn [bind].
          exists (b :: o1), (a :: o2). split; [reflexivity|]. split; [simpl; lia|].
          intros [|k] Hk.
          * exists a, b, b. rewrite Nat.add_0_r, Eo. auto.
          * destruct (Sp k) as (a' & b' & x' & H1 & H2 & H3 & H4); [lia|].
            exists a', b', x'. replace (i + S k)%nat with (S i + k)%nat by lia. auto.
    Qed.

    Theorem pmx_cut_half : exists o1 o2, pmx_cut E eqb p1 p2 cp1 cp2 = Ok (o1, o2) /\ Permutation p1 o1.
    Proof.
      unfold pmx_cut. fold n. fold c. rewrite maps_eq. cbn [bind].
      destruct (fill_ok n 0) as (o1 & o2 & Ef & Lo & Sp); [lia|].
      exists o1, o2. split; [exact Ef|].
      apply NoDup_Permutation_bis; auto; [fold n; lia|].
      intros z Hz.
      destruct (mem z B) eqn:Em.
      - (* z was exchanged into the cut *)
        apply mem_In in Em. apply In_seg in Em; [|rewrite <- Len; unfold c; lia].
        destruct Em as (j & Hj & Hn).
        destruct (Sp j) as (a & b & x & H1 & H2 & H3 & H4); [unfold n, c in *; lia|]. cbn [Nat.add] in H1, H2, H4.
        assert (Eo : outside j = false).
        { destruct (outside j) eqn:Eo; auto. apply outside_spec in Eo. lia. }
        rewrite Eo in H4. subst x. apply nth_error_In with (n := j). congruence.
      - (* z is the end of a chain started outside the cut: follow replacement2 backwards *)
        apply mem_false in Em.
        assert (NB : ~ In z (map snd r2)) by (now rewrite snd_r2).
        destruct (chase_total (length r2) r2 eq_refl nd_fst_r2 nd_snd_r2 z NB (S n) len_r2) as [w Ew].
        destruct (chase_steps r2 _ _ _ Ew) as (k & Lk & St & Nw).
        apply steps_inv in St. rewrite inv_r2 in St.
        assert (Cw : chase (S n) r1 w = Ok z).
        { apply (steps_chase r1 nd_fst_r1 k w z St); auto. now rewrite fst_r1. }
        assert (Hw : In w p1).
        { apply steps_inv in St. destruct (steps_end _ _ _ _ St) as [->|Hs]; auto.
          unfold inv in Hs. rewrite map_map in Hs. simpl in Hs.
          change (In w (map fst r1)) in Hs. apply fst_r1 in Hs.
          apply Permutation_in with (l := p2); [now symmetry|].
          apply In_seg in Hs; [|rewrite <- Len; unfold c; lia]. destruct Hs as (j & _ & Hn). eapply nth_error_In; eauto. }
        apply In_nth_error in Hw. destruct Hw as [j Hj].
        assert (Lj : (j < n)%nat) by (unfold n; apply nth_error_Some; congruence).
        destruct (Sp j Lj) as (a & b & x & H1 & H2 & H3 & H4). cbn [Nat.add] in H1, H2, H4.
        assert (a = w) by congruence. subst a.
        assert (Eo : outside j = true).
        { destruct (outside j) eqn:Eo; auto. exfalso. apply Nw. rewrite fst_r2.
          apply In_seg; [unfold c; lia|]. exists j. split; auto.
          assert (~ ~ (cp1 <= j < cp1 + c)%nat) by (intro C; apply outside_spec in C; congruence). lia. }
        rewrite Eo in H4. apply nth_error_In with (n := j). congruence.
    Qed.
  End Cut.

  Lemma pmx_cut_sym p1 p2 cp1 cp2 o1 o2 : length p1 = length p2 ->
    pmx_cut E eqb p1 p2 cp1 cp2 = Ok (o1, o2) -> pmx_cut E eqb p2 p1 cp1 cp2 = Ok (o2, o1).
  Proof.
    intros L H. unfold pmx_cut in *. rewrite <- L.
    destruct (pmx_maps E p1 p2 cp1 (S cp2 - cp1) [] []) as [[m1 m2]|] eqn:Em; cbn [bind] in *; [|discriminate].
    rewrite (pmx_maps_sym _ _ _ _ _ _ _ _ Em). cbn [bind]. now apply pmx_fill_sym.
  Qed.

  (* PMX on two duplicate-free parents over the same elements, any cut: the replacement chains end
     within fuel n+1 and both offspring are permutations of the parents' elements *)
  Theorem pmx_cut_perm p1 p2 cp1 cp2 : NoDup p1 -> NoDup p2 -> Permutation p1 p2 ->
    (cp1 <= cp2 < length p1)%nat ->
    exists o1 o2, pmx_cut E eqb p1 p2 cp1 cp2 = Ok (o1, o2) /\ Permutation p1 o1 /\ Permutation p2 o2.
  Proof.
    intros N1 N2 Pm Hc.
    destruct (pmx_cut_half p1 p2 cp1 cp2 N1 N2 Pm Hc) as (o1 & o2 & E1 & P1).
    assert (L : length p1 = length p2) by now apply Permutation_length.
    assert (Hc' : (cp1 <= cp2 < length p2)%nat) by lia.
    destruct (pmx_cut_half p2 p1 cp1 cp2 N2 N1 (Permutation_sym Pm) Hc') as (o2' & o1' & E2 & P2).
    rewrite (pmx_cut_sym _ _ _ _ _ _ L E1) in E2. inversion E2; subst.
    exists o1', o2'. auto.
  Qed.

  Lemma pmx_lists_ok p1 p2 t : NoDup p1 -> NoDup p2 -> Permutation p1 p2 -> (0 < length p1)%nat ->
    py_safe (pmx_lists E eqb p1 p2 t) /\
    forall o1 o2 t', pmx_lists E eqb p1 p2 t = Ok (o1, o2, t') -> Permutation p1 o1 /\ Permutation p2 o2.
  Proof.
    intros N1 N2 Pm L0. unfold pmx_lists.
    pose proof (draw_two_safe (length p1) t L0) as Sd.
    destruct (draw_two (length p1) t) as [[[c1 c2] t1]|e] eqn:Ed; cbn [bind].
    - apply draw_two_spec in Ed. destruct Ed as (L1 & L2 & _).
      set (cp1 := if Nat.ltb c2 c1 then c2 else c1). set (cp2 := if Nat.ltb c2 c1 then c1 else c2).
      assert (Hc : (cp1 <= cp2 < length p1)%nat).
      { unfold cp1, cp2. destruct (Nat.ltb c2 c1) eqn:El; [apply Nat.ltb_lt in El|apply Nat.ltb_ge in El]; lia. }
      destruct (pmx_cut_perm p1 p2 cp1 cp2 N1 N2 Pm Hc) as (o1 & o2 & Ec & P1 & P2).
      rewrite Ec. cbn [bind]. split; [exact I|]. intros x1 x2 t' H. inversion H; subst. auto.
    - split; [exact Sd|]. intros; discriminate.
  Qed.

  Lemma pmx_step_valid p : xstep_valid (pmx_step E eqb p).
  Proof.
    intros ty a b t a' b' t1 W Va Vb H. destruct ty as [| |els|]; simpl in H; try (inversion H; fail).
    destruct (get_unif t) as [[u t0]|]; simpl in H; [|discriminate].
    destruct (xleb u p); [|inversion H].
    destruct a as [| |pa|]; simpl in Va; try contradiction.
    destruct b as [| |pb|]; simpl in Vb; try contradiction.
    destruct W as [NDe Le].
    assert (N1 : NoDup pa) by (eapply Permutation_NoDup; eauto).
    assert (N2 : NoDup pb) by (eapply Permutation_NoDup; eauto).
    assert (Pm : Permutation pa pb) by (eapply perm_trans; [symmetry; exact Va|exact Vb]).
    assert (L0 : (0 < length pa)%nat) by (apply Permutation_length in Va; lia).
    destruct (pmx_lists_ok pa pb t0 N1 N2 Pm L0) as [_ Hok].
    destruct (pmx_lists E eqb pa pb t0) as [[[o1 o2] t2]|] eqn:El; cbn [bind] in H; [|discriminate].
    destruct (Hok _ _ _ eq_refl) as [P1 P2]. inversion H; subst. simpl.
    split; [exact (perm_trans Va P1)|exact (perm_trans Vb P2)].
  Qed.

  Lemma pmx_step_safe p : xstep_safe (pmx_step E eqb p).
  Proof.
    intros ty a b t W Va Vb. destruct ty as [| |els|]; simpl; try exact I.
    apply py_safe_bind; [apply get_unif_safe|]. intros [u t0] _.
    destruct (xleb u p); [|exact I].
    destruct a as [| |pa|]; simpl in Va; try contradiction.
    destruct b as [| |pb|]; simpl in Vb; try contradiction.
    destruct W as [NDe Le].
    assert (N1 : NoDup pa) by (eapply Permutation_NoDup; eauto).
    assert (N2 : NoDup pb) by (eapply Permutation_NoDup; eauto).
    assert (Pm : Permutation pa pb) by (eapply perm_trans; [symmetry; exact Va|exact Vb]).
    assert (L0 : (0 < length pa)%nat) by (apply Permutation_length in Va; lia).
    destruct (pmx_lists_ok pa pb t0 N1 N2 Pm L0) as [Sf _].
    apply py_safe_bind; [exact Sf|]. intros [[o1 o2] t2] _. exact I.
  Qed.

  (* PMX: both offspring are permutations of the declared elements, the chain-following loops
     never exhaust their fuel (no EFuel is a case of py_safe), flags, identities *)
  Theorem pmx_valid pr ts fresh p1 p2 t cs f t' :
    Forall wf_type ts -> valid_sol ts p1 -> valid_sol ts p2 ->
    pmx E P eqb pr ts fresh [p1; p2] t = Ok (cs, f, t') -> two_children_ok ts fresh p1 p2 cs f.
  Proof. intros. eapply crossover_of_valid; eauto using pmx_step_valid. Qed.

  Theorem pmx_safe pr ts fresh p1 p2 t :
    Forall wf_type ts -> valid_sol ts p1 -> valid_sol ts p2 -> py_safe (pmx E P eqb pr ts fresh [p1; p2] t).
  Proof. intros. apply crossover_of_safe; auto using pmx_step_safe. Qed.
End OpsProofs.

(* ================================================================ non-vacuity: concrete runs (E = Z, payload = unit) *)
Lemma Zeqb_spec : forall x y : Z, Z.eqb x y = true <-> x = y.
Proof. intros. apply Z.eqb_eq. Qed.

Definition exd_types : list (vtype Z) :=
  [TPerm [1; 2; 3; 4; 5]%Z; TSubset [10; 11; 12; 13]%Z 2; TBinary 3].
Definition exd_p1 : sol Z unit := mkSol 0 [VPerm [1; 2; 3; 4; 5]%Z; VSub [10; 11]%Z; VBits [true; false; true]] true tt.
Definition exd_p2 : sol Z unit := mkSol 1 [VPerm [3; 5; 1; 2; 4]%Z; VSub [12; 10]%Z; VBits [false; false; false]] true tt.

Ltac nodup_z := repeat (constructor; [simpl; intuition discriminate|]); constructor.
Ltac incl_z := let x := fresh "x" in let H := fresh "H" in intros x H; simpl in *; intuition.

Example exd_wf : Forall (wf_type Z) exd_types.
Proof.
  constructor; [split; [nodup_z|simpl; lia]|].
  constructor; [split; [nodup_z|lia]|].
  constructor; [exact I|constructor].
Qed.

Example exd_valid : valid_sol Z unit exd_types exd_p1 /\ valid_sol Z unit exd_types exd_p2.
Proof.
  split.
  - constructor; [apply Permutation_refl|].
    constructor; [split; [nodup_z|split; [reflexivity|incl_z]]|].
    constructor; [reflexivity|constructor].
  - constructor.
    { apply NoDup_Permutation_bis; [nodup_z|simpl; lia|incl_z]. }
    constructor; [split; [nodup_z|split; [reflexivity|incl_z]]|].
    constructor; [reflexivity|constructor].
Qed.

(* PMX with cut points 1..2 (the second index is redrawn once because it repeated the first):
   p1 = 1 2 3 4 5, p2 = 3 5 1 2 4 -> o1 = 3 5 1 4 2, o2 = 1 2 3 5 4 *)
Example exd_pmx_run :
  exists c1 c2, pmx Z unit Z.eqb (FZ 1) exd_types 2%nat [exd_p1; exd_p2]
                    [DUnif (FZ 0); DIdx 1; DIdx 1; DIdx 2; DUnif (FZ 2); DUnif (FZ 2)] = Ok ([c1; c2], 4%nat, [DUnif (FZ 2); DUnif (FZ 2)])
    /\ vars c1 = [VPerm [3; 5; 1; 4; 2]%Z; VSub [10; 11]%Z; VBits [true; false; true]]
    /\ vars c2 = [VPerm [1; 2; 3; 5; 4]%Z; VSub [12; 10]%Z; VBits [false; false; false]]
    /\ evaluated c1 = false /\ evaluated c2 = false.
Proof. eexists _, _. vm_compute. repeat split. Qed.

(* Insertion, both shift directions *)
Example exd_insertion_runs :
  (exists c, insertion Z unit (FZ 1) exd_types 2%nat exd_p1 [DUnif (FZ 0); DIdx 4; DIdx 1] = Ok (c, 3%nat, [])
     /\ vars c = [VPerm [1; 5; 2; 3; 4]%Z; VSub [10; 11]%Z; VBits [true; false; true]] /\ evaluated c = false)
  /\ (exists c, insertion Z unit (FZ 1) exd_types 2%nat exd_p1 [DUnif (FZ 0); DIdx 1; DIdx 4] = Ok (c, 3%nat, [])
     /\ vars c = [VPerm [1; 3; 4; 5; 2]%Z; VSub [10; 11]%Z; VBits [true; false; true]]).
Proof. split; eexists; vm_compute; repeat split. Qed.

(* Swap: i = 0, j = 0 redrawn twice (0, then 3) *)
Example exd_swap_redraw_run :
  exists c, swap Z unit (FZ 1) exd_types 2%nat exd_p1 [DUnif (FZ 0); DIdx 0; DIdx 0; DIdx 0; DIdx 3] = Ok (c, 3%nat, [])
    /\ vars c = [VPerm [4; 2; 3; 1; 5]%Z; VSub [10; 11]%Z; VBits [true; false; true]] /\ evaluated c = false.
Proof. eexists. vm_compute. repeat split. Qed.

(* a probability draw above the threshold leaves the child evaluated and field-equal to its parent *)
Example exd_swap_untouched :
  exists c, swap Z unit (F 1 (-2)) exd_types 2%nat exd_p1 [DUnif (F 1 (-1))] = Ok (c, 3%nat, [])
    /\ vars c = vars exd_p1 /\ evaluated c = true /\ sid c = 2%nat.
Proof. eexists. vm_compute. repeat split. Qed.

Example exd_replace_run :
  exists c, replace Z unit Z.eqb (FZ 1) exd_types 2%nat exd_p1 [DUnif (FZ 0); DIdx 1; DIdx 1] = Ok (c, 3%nat, [])
    /\ vars c = [VPerm [1; 2; 3; 4; 5]%Z; VSub [10; 13]%Z; VBits [true; false; true]] /\ evaluated c = false.
Proof. eexists. vm_compute. repeat split. Qed.

Example exd_hux_run :
  exists c1 c2, hux Z unit (FZ 1) exd_types 2%nat [exd_p1; exd_p2] [DUnif (FZ 0); DBit true; DBit false] = Ok ([c1; c2], 4%nat, [])
    /\ vars c1 = [VPerm [1; 2; 3; 4; 5]%Z; VSub [10; 11]%Z; VBits [false; false; true]]
    /\ vars c2 = [VPerm [3; 5; 1; 2; 4]%Z; VSub [12; 10]%Z; VBits [true; false; false]].
Proof. eexists _, _. vm_compute. repeat split. Qed.

Example exd_bitflip_run :
  exists c, bitflip Z unit (PInt 1) exd_types 2%nat exd_p1 [DUnif (FZ 0); DUnif (FZ 1); DUnif (F 1 (-2))] = Ok (c, 3%nat, [])
    /\ vars c = [VPerm [1; 2; 3; 4; 5]%Z; VSub [10; 11]%Z; VBits [false; false; false]].
Proof. eexists. vm_compute. repeat split. Qed.

(* SSX: position 0 is exchanged (12 not in s1, 10 not in s2, draw < 0.5), position 1 is not (draw >= 0.5) *)
Example exd_ssx_run :
  let ts := [TSubset [10; 11; 12; 13]%Z 2] in
  let a := mkSol 0 [VSub [10; 11]%Z] true tt in
  let b := mkSol 1 [VSub [12; 13]%Z] true tt in
  exists c1 c2, ssx Z unit Z.eqb (FZ 1) ts 2%nat [a; b] [DUnif (FZ 0); DUnif (FZ 0); DUnif (F 1 (-1))] = Ok ([c1; c2], 4%nat, [])
    /\ vars c1 = [VSub [12; 11]%Z] /\ vars c2 = [VSub [10; 13]%Z] /\ evaluated c1 = false.
Proof. eexists _, _. vm_compute. repeat split. Qed.
