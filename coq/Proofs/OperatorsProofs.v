(* Proofs about Model/Operators.v: validity of offspring, flag discipline, absence of Python
   errors, symmetry — for ALL tapes.

   "Parents unchanged" has no theorem: it is structural in a functional model (a model
   function cannot modify its arguments); the corresponding fact about the Python code is
   established by harness/translate/framecheck.py and by the driver's deep snapshots. *)
From Coq Require Import ZArith QArith Bool List Lia Permutation.
From PV Require Import Base.Num Base.FVal Base.Tape Model.Operators.
Import ListNotations.
Open Scope res_scope.

(* ------------------------------------------------------------------ small list facts *)
Lemma nth_res_ok {A} (l : list A) i x : nth_res l i = Ok x <-> nth_error l i = Some x.
Proof. unfold nth_res. destruct (nth_error l i); split; intro H; inversion H; subst; auto. Qed.

Lemma nth_res_lt {A} (l : list A) i : (i < length l)%nat -> exists x, nth_res l i = Ok x.
Proof.
  intro H. unfold nth_res. destruct (nth_error l i) eqn:E; eauto.
  apply nth_error_None in E. lia.
Qed.

Lemma nth_res_safe_lt {A} (l : list A) i : (i < length l)%nat -> py_safe (nth_res l i).
Proof. intro H. destruct (nth_res_lt l i H) as [x ->]. exact I. Qed.

Lemma upd_length {A} i (x : A) l : length (upd i x l) = length l.
Proof. revert i; induction l as [|y r IH]; intros [|i]; simpl; auto. Qed.

Lemma nth_error_upd_eq {A} i (x : A) l : (i < length l)%nat -> nth_error (upd i x l) i = Some x.
Proof. revert i; induction l as [|y r IH]; intros [|i] H; simpl in *; try lia; auto. apply IH. lia. Qed.

Lemma nth_error_upd_neq {A} i j (x : A) l : i <> j -> nth_error (upd i x l) j = nth_error l j.
Proof.
  revert i j; induction l as [|y r IH]; intros [|i] [|j] H; simpl; auto; try congruence.
Qed.

(* writing x at a position that held y: the multiset changes by exactly that *)
Lemma upd_perm {A} i (x y : A) l : nth_error l i = Some y -> Permutation (y :: upd i x l) (x :: l).
Proof.
  revert i; induction l as [|z r IH]; intros [|i] H; simpl in *; try discriminate.
  - inversion H; subst. apply perm_swap.
  - specialize (IH _ H).
    eapply perm_trans; [apply perm_swap|].
    eapply perm_trans; [apply perm_skip, IH|]. apply perm_swap.
Qed.

Lemma upd_In {A} i (x : A) l z : In z (upd i x l) -> z = x \/ In z l.
Proof.
  revert i; induction l as [|y r IH]; intros [|i]; simpl; auto.
  - intros [->|H]; auto.
  - intros [->|H]; auto. destruct (IH _ H); auto.
Qed.

Lemma upd_same {A} i (x : A) l : nth_error l i = Some x -> upd i x l = l.
Proof.
  revert i; induction l as [|y r IH]; intros [|i] H; simpl in *; try discriminate; auto.
  - now inversion H.
  - f_equal. auto.
Qed.

Section OpsProofs.
  Variable E : Type.
  Variable P : Type.
  Variable eqb : E -> E -> bool.
  Hypothesis eqb_spec : forall x y, eqb x y = true <-> x = y.

  Notation var := (var E).
  Notation vtype := (vtype E).
  Notation sol := (sol E P).
  Notation mem := (mem E eqb).

  Lemma mem_In x l : mem x l = true <-> In x l.
  Proof.
    unfold Operators.mem. rewrite existsb_exists. split.
    - intros (y & Hy & e). apply eqb_spec in e. now subst.
    - intro H. exists x. split; auto. now apply eqb_spec.
  Qed.
  Lemma mem_false x l : mem x l = false <-> ~ In x l.
  Proof. rewrite <- mem_In. destruct (mem x l); split; congruence. Qed.

  (* ---------------------------------------------------------------- validity *)
  (* a value valid for its declared type (the property's "valid offspring") *)
  Definition valid_var (ty : vtype) (v : var) : Prop :=
    match ty, v with
    | TReal lb ub, VReal x => in_bounds lb ub x                    (* inside the bounds, not NaN *)
    | TBinary n, VBits b => length b = n                           (* declared length *)
    | TPerm els, VPerm p => Permutation els p                      (* exactly the declared elements *)
    | TSubset els k, VSub s => NoDup s /\ length s = k /\ incl s els (* duplicate-free, declared size, declared elements *)
    | _, _ => False
    end.

  (* well-formed declarations (what a Problem may declare) *)
  Definition wf_type (ty : vtype) : Prop :=
    match ty with
    | TReal lb ub => xleb lb ub = true
    | TBinary _ => True
    | TPerm els => NoDup els
    | TSubset els k => NoDup els /\ (0 < k)%nat
    end.

  Definition valid_vars (ts : list vtype) (vs : list var) : Prop := Forall2 valid_var ts vs.
  Definition valid_sol (ts : list vtype) (s : sol) : Prop := valid_vars ts (vars s).

  (* flag discipline: a child still marked evaluated is field-equal to the parent it was copied from *)
  Definition same_fields (c p : sol) : Prop :=
    vars c = vars p /\ payload c = payload p /\ evaluated c = evaluated p.
  Definition copied_from (c p : sol) : Prop :=
    payload c = payload p /\ (evaluated c = true -> same_fields c p).

  Lemma copied_from_deepcopy fresh p : copied_from (deepcopy E P fresh p) p.
  Proof. split; [reflexivity|]. intros _. repeat split. Qed.

  Lemma copied_from_mk_child fresh p vs w :
    (w = false -> vs = vars p) -> copied_from (mk_child E P fresh p vs w) p.
  Proof.
    intro H. split; [reflexivity|]. simpl. destruct w; [discriminate|].
    intros _. repeat split; simpl; auto.
  Qed.

  (* ---------------------------------------------------------------- the generic mutation loop *)
  Definition step_valid (step : mstep E) : Prop :=
    forall ty v t v' t1, wf_type ty -> valid_var ty v -> step ty v t = Ok (Some v', t1) -> valid_var ty v'.
  Definition step_safe (step : mstep E) : Prop :=
    forall ty v t, wf_type ty -> valid_var ty v -> py_safe (step ty v t).

  Lemma mut_loop_valid step ts : step_valid step ->
    forall vs t vs' w t', Forall wf_type ts -> valid_vars ts vs ->
    mut_loop E step ts vs t = Ok (vs', w, t') ->
    valid_vars ts vs' /\ (w = false -> vs' = vs).
  Proof.
    intros SV. induction ts as [|ty ts IH]; intros vs t vs' w t' WF V H.
    - simpl in H. inversion H; subst. split; auto.
    - inversion V as [|? v ? vr Hv Hr]; subst. inversion WF as [|? ? Wty Wts]; subst.
      simpl in H.
      destruct (step ty v t) as [[o t1]|] eqn:Es; simpl in H; [|discriminate].
      destruct (mut_loop E step ts vr t1) as [[[vs2 w2] t2]|] eqn:El; simpl in H; [|discriminate].
      inversion H; subst; clear H.
      destruct (IH _ _ _ _ _ Wts Hr El) as [V2 F2].
      split.
      + constructor; auto. destruct o as [v'|]; auto. eapply SV; eauto.
      + destruct o; simpl; [discriminate|]. intro W. now rewrite (F2 W).
  Qed.

  Lemma mut_loop_safe step ts : step_safe step ->
    forall vs t, Forall wf_type ts -> valid_vars ts vs -> py_safe (mut_loop E step ts vs t).
  Proof.
    intros SS. induction ts as [|ty ts IH]; intros vs t WF V.
    - exact I.
    - inversion V as [|? v ? vr Hv Hr]; subst. inversion WF as [|? ? Wty Wts]; subst.
      simpl. apply py_safe_bind; [now apply SS|].
      intros [o t1] _. apply py_safe_bind; [now apply IH|].
      intros [[vs2 w2] t2] _. exact I.
  Qed.

  Theorem mutation_of_valid step ts : step_valid step ->
    forall fresh p t c f t', Forall wf_type ts -> valid_sol ts p ->
    mutation_of E P step ts fresh p t = Ok (c, f, t') ->
    valid_sol ts c /\ copied_from c p /\ sid c = fresh /\ f = S fresh.
  Proof.
    intros SV fresh p t c f t' WF V H. unfold mutation_of in H.
    destruct (mut_loop E step ts (vars p) t) as [[[vs w] t1]|] eqn:El; simpl in H; [|discriminate].
    inversion H; subst; clear H.
    destruct (mut_loop_valid step ts SV _ _ _ _ _ WF V El) as [V' F'].
    repeat split; auto. now apply copied_from_mk_child.
  Qed.

  Theorem mutation_of_safe step ts : step_safe step ->
    forall fresh p t, Forall wf_type ts -> valid_sol ts p -> py_safe (mutation_of E P step ts fresh p t).
  Proof.
    intros SS fresh p t WF V. unfold mutation_of.
    apply py_safe_bind; [now apply mut_loop_safe|]. intros [[vs w] t1] _. exact I.
  Qed.

  (* ---------------------------------------------------------------- the generic crossover loop *)
  Definition xstep_valid (step : xstep E) : Prop :=
    forall ty a b t a' b' t1, wf_type ty -> valid_var ty a -> valid_var ty b ->
      step ty a b t = Ok (Some (a', b'), t1) -> valid_var ty a' /\ valid_var ty b'.
  Definition xstep_safe (step : xstep E) : Prop :=
    forall ty a b t, wf_type ty -> valid_var ty a -> valid_var ty b -> py_safe (step ty a b t).

  Lemma cross_loop_valid step ts : xstep_valid step ->
    forall v1 v2 t r1 r2 w t', Forall wf_type ts -> valid_vars ts v1 -> valid_vars ts v2 ->
    cross_loop E step ts v1 v2 t = Ok (r1, r2, w, t') ->
    valid_vars ts r1 /\ valid_vars ts r2 /\ (w = false -> r1 = v1 /\ r2 = v2).
  Proof.
    intros SV. induction ts as [|ty ts IH]; intros v1 v2 t r1 r2 w t' WF V1 V2 H.
    - simpl in H. inversion H; subst. auto.
    - inversion V1 as [|? a ? ar Ha Har]; subst. inversion V2 as [|? b ? br Hb Hbr]; subst.
      inversion WF as [|? ? Wty Wts]; subst. simpl in H.
      destruct (step ty a b t) as [[o t1]|] eqn:Es; simpl in H; [|discriminate].
      destruct (cross_loop E step ts ar br t1) as [[[[s1 s2] w2] t2]|] eqn:El; simpl in H; [|discriminate].
      inversion H; subst; clear H.
      destruct (IH _ _ _ _ _ _ _ Wts Har Hbr El) as (A & B & F).
      destruct o as [[a' b']|].
      + destruct (SV _ _ _ _ _ _ _ Wty Ha Hb Es) as [Va Vb].
        repeat split; try constructor; auto; discriminate.
      + repeat split; try constructor; auto; simpl; intro W; destruct (F W); congruence.
  Qed.

  Lemma cross_loop_safe step ts : xstep_safe step ->
    forall v1 v2 t, Forall wf_type ts -> valid_vars ts v1 -> valid_vars ts v2 ->
    py_safe (cross_loop E step ts v1 v2 t).
  Proof.
    intros SS. induction ts as [|ty ts IH]; intros v1 v2 t WF V1 V2.
    - exact I.
    - inversion V1 as [|? a ? ar Ha Har]; subst. inversion V2 as [|? b ? br Hb Hbr]; subst.
      inversion WF as [|? ? Wty Wts]; subst. simpl.
      apply py_safe_bind; [now apply SS|]. intros [o t1] _.
      apply py_safe_bind; [now apply IH|]. intros [[[s1 s2] w2] t2] _. exact I.
  Qed.

  (* what a two-parent crossover guarantees *)
  Definition two_children_ok (ts : list vtype) (fresh : nat) (p1 p2 : sol) (cs : list sol) (f : nat) : Prop :=
    exists c1 c2, cs = [c1; c2] /\ valid_sol ts c1 /\ valid_sol ts c2 /\
                  copied_from c1 p1 /\ copied_from c2 p2 /\
                  sid c1 = fresh /\ sid c2 = S fresh /\ f = S (S fresh).

  Theorem crossover_of_valid step ts : xstep_valid step ->
    forall fresh p1 p2 t cs f t', Forall wf_type ts -> valid_sol ts p1 -> valid_sol ts p2 ->
    crossover_of E P step ts fresh [p1; p2] t = Ok (cs, f, t') ->
    two_children_ok ts fresh p1 p2 cs f.
  Proof.
    intros SV fresh p1 p2 t cs f t' WF V1 V2 H. unfold crossover_of in H. simpl in H.
    destruct (cross_loop E step ts (vars p1) (vars p2) t) as [[[[r1 r2] w] t1]|] eqn:El; simpl in H; [|discriminate].
    inversion H; subst; clear H.
    destruct (cross_loop_valid step ts SV _ _ _ _ _ _ _ WF V1 V2 El) as (A & B & F).
    eexists _, _. repeat split; try reflexivity; auto;
      apply copied_from_mk_child; intro W; now destruct (F W).
  Qed.

  Theorem crossover_of_safe step ts : xstep_safe step ->
    forall fresh p1 p2 t, Forall wf_type ts -> valid_sol ts p1 -> valid_sol ts p2 ->
    py_safe (crossover_of E P step ts fresh [p1; p2] t).
  Proof.
    intros SS fresh p1 p2 t WF V1 V2. unfold crossover_of. simpl.
    apply py_safe_bind; [now apply cross_loop_safe|]. intros [[[r1 r2] w] t1] _. exact I.
  Qed.

  Theorem guarded_crossover_of_valid pr step ts : xstep_valid step ->
    forall fresh p1 p2 t cs f t', Forall wf_type ts -> valid_sol ts p1 -> valid_sol ts p2 ->
    guarded_crossover_of E P pr step ts fresh [p1; p2] t = Ok (cs, f, t') ->
    two_children_ok ts fresh p1 p2 cs f.
  Proof.
    intros SV fresh p1 p2 t cs f t' WF V1 V2 H. unfold guarded_crossover_of in H. simpl in H.
    destruct (get_unif t) as [[u t0]|] eqn:Eu; simpl in H; [|discriminate].
    destruct (xleb u pr).
    - destruct (cross_loop E step ts (vars p1) (vars p2) t0) as [[[[r1 r2] w] t1]|] eqn:El; simpl in H; [|discriminate].
      inversion H; subst; clear H.
      destruct (cross_loop_valid step ts SV _ _ _ _ _ _ _ WF V1 V2 El) as (A & B & F).
      eexists _, _. repeat split; try reflexivity; auto;
        apply copied_from_mk_child; intro W; now destruct (F W).
    - inversion H; subst; clear H.
      eexists _, _. repeat split; try reflexivity; auto using copied_from_deepcopy.
  Qed.

  Theorem guarded_crossover_of_safe pr step ts : xstep_safe step ->
    forall fresh p1 p2 t, Forall wf_type ts -> valid_sol ts p1 -> valid_sol ts p2 ->
    py_safe (guarded_crossover_of E P pr step ts fresh [p1; p2] t).
  Proof.
    intros SS fresh p1 p2 t WF V1 V2. unfold guarded_crossover_of. simpl.
    apply py_safe_bind; [apply get_unif_safe|]. intros [u t0] _.
    destruct (xleb u pr); [|exact I].
    apply py_safe_bind; [now apply cross_loop_safe|]. intros [[[r1 r2] w] t1] _. exact I.
  Qed.

  (* ================================================================ BitFlip *)
  Lemma bitflip_bits_spec p : forall n bits t b' w t',
    bitflip_bits p n bits t = Ok (b', w, t') -> length b' = length bits /\ (w = false -> b' = bits).
  Proof.
    induction n as [|n IH]; intros bits t b' w t' H; simpl in H.
    - inversion H; subst. auto.
    - destruct bits as [|b r]; [discriminate|].
      destruct (get_unif t) as [[u t1]|]; simpl in H; [|discriminate].
      destruct (bitflip_bits p n r t1) as [[[r' w'] t2]|] eqn:E; simpl in H; [|discriminate].
      destruct (IH _ _ _ _ _ E) as [L F].
      destruct (xleb u p); inversion H; subst; simpl; split; auto; try discriminate.
      intro W. now rewrite (F W).
  Qed.

  Lemma bitflip_bits_safe p : forall n bits t, (n <= length bits)%nat -> py_safe (bitflip_bits p n bits t).
  Proof.
    induction n as [|n IH]; intros bits t L; simpl; [exact I|].
    destruct bits as [|b r]; simpl in L; [lia|].
    apply py_safe_bind; [apply get_unif_safe|]. intros [u t1] _.
    apply py_safe_bind; [apply IH; lia|]. intros [[r' w] t2] _. destruct (xleb u p); exact I.
  Qed.

  Lemma bitflip_step_valid p : step_valid (bitflip_step E p).
  Proof.
    intros ty v t v' t1 W V H. destruct ty; simpl in H; try (inversion H; fail).
    destruct v as [|bits| |]; simpl in V; try contradiction.
    destruct (bitflip_bits p nbits bits t) as [[[b' w] t2]|] eqn:Eb; simpl in H; [|discriminate].
    destruct (bitflip_bits_spec _ _ _ _ _ _ _ Eb) as [L _].
    destruct w; inversion H; subst. simpl. congruence.
  Qed.

  Lemma bitflip_step_safe p : step_safe (bitflip_step E p).
  Proof.
    intros ty v t W V. destruct ty; simpl; try exact I.
    destruct v as [|bits| |]; simpl in V; try contradiction.
    apply py_safe_bind; [apply bitflip_bits_safe; lia|]. intros [[b' w] t2] _. exact I.
  Qed.

  (* bit strings keep their declared length; flag discipline; fresh identity *)
  Theorem bitflip_valid pr ts fresh p t c f t' :
    Forall wf_type ts -> valid_sol ts p -> bitflip E P pr ts fresh p t = Ok (c, f, t') ->
    valid_sol ts c /\ copied_from c p /\ sid c = fresh /\ f = S fresh.
  Proof.
    intros WF V H. unfold bitflip in H.
    destruct (eff_prob pr (total_nbits E ts)) as [pe|]; simpl in H; [|discriminate].
    eapply mutation_of_valid; eauto using bitflip_step_valid.
  Qed.

  (* no Python error — except the ZeroDivisionError of an int probability on a problem without bits *)
  Theorem bitflip_safe pr ts fresh p t :
    Forall wf_type ts -> valid_sol ts p -> (forall z, pr = PInt z -> (0 < total_nbits E ts)%nat) ->
    py_safe (bitflip E P pr ts fresh p t).
  Proof.
    intros WF V HP. unfold bitflip.
    destruct pr as [z|q]; simpl.
    - specialize (HP z eq_refl). destruct (total_nbits E ts); [lia|]. simpl.
      apply mutation_of_safe; auto using bitflip_step_safe.
    - apply mutation_of_safe; auto using bitflip_step_safe.
  Qed.

  (* ================================================================ HUX *)
  Lemma hux_bits_spec : forall n b1 b2 t r1 r2 w t',
    hux_bits n b1 b2 t = Ok (r1, r2, w, t') ->
    length r1 = length b1 /\ length r2 = length b2 /\ (w = false -> r1 = b1 /\ r2 = b2).
  Proof.
    induction n as [|n IH]; intros b1 b2 t r1 r2 w t' H; simpl in H.
    - inversion H; subst. auto.
    - destruct b1 as [|x s1]; [discriminate|]. destruct b2 as [|y s2]; [discriminate|].
      destruct (negb (Bool.eqb x y)).
      + destruct (get_bit t) as [[c t1]|]; simpl in H; [|discriminate].
        destruct (hux_bits n s1 s2 t1) as [[[[q1 q2] w'] t2]|] eqn:El; simpl in H; [|discriminate].
        destruct (IH _ _ _ _ _ _ _ El) as (L1 & L2 & F).
        destruct c; inversion H; subst; simpl; repeat split; auto; try discriminate;
          intro W; destruct (F W); congruence.
      + destruct (hux_bits n s1 s2 t) as [[[[q1 q2] w'] t2]|] eqn:El; simpl in H; [|discriminate].
        destruct (IH _ _ _ _ _ _ _ El) as (L1 & L2 & F).
        inversion H; subst; simpl; repeat split; auto; intro W; destruct (F W); congruence.
  Qed.

  Lemma hux_bits_safe : forall n b1 b2 t, (n <= length b1)%nat -> (n <= length b2)%nat -> py_safe (hux_bits n b1 b2 t).
  Proof.
    induction n as [|n IH]; intros b1 b2 t L1 L2; simpl; [exact I|].
    destruct b1 as [|x s1]; simpl in L1; [lia|]. destruct b2 as [|y s2]; simpl in L2; [lia|].
    destruct (negb (Bool.eqb x y)).
    - apply py_safe_bind; [apply get_bit_safe|]. intros [c t1] _.
      apply py_safe_bind; [apply IH; lia|]. intros [[[q1 q2] w] t2] _. destruct c; exact I.
    - apply py_safe_bind; [apply IH; lia|]. intros [[[q1 q2] w] t2] _. exact I.
  Qed.

  Lemma hux_step_valid : xstep_valid (hux_step E).
  Proof.
    intros ty a b t a' b' t1 W Va Vb H. destruct ty; simpl in H; try (inversion H; fail).
    destruct a as [|b1| |]; simpl in Va; try contradiction.
    destruct b as [|b2| |]; simpl in Vb; try contradiction.
    destruct (hux_bits nbits b1 b2 t) as [[[[r1 r2] w] t2]|] eqn:Eb; simpl in H; [|discriminate].
    destruct (hux_bits_spec _ _ _ _ _ _ _ _ Eb) as (L1 & L2 & _).
    destruct w; inversion H; subst. simpl. split; congruence.
  Qed.

  Lemma hux_step_safe : xstep_safe (hux_step E).
  Proof.
    intros ty a b t W Va Vb. destruct ty; simpl; try exact I.
    destruct a as [|b1| |]; simpl in Va; try contradiction.
    destruct b as [|b2| |]; simpl in Vb; try contradiction.
    apply py_safe_bind; [apply hux_bits_safe; lia|]. intros [[[r1 r2] w] t2] _. exact I.
  Qed.

  Theorem hux_valid pr ts fresh p1 p2 t cs f t' :
    Forall wf_type ts -> valid_sol ts p1 -> valid_sol ts p2 ->
    hux E P pr ts fresh [p1; p2] t = Ok (cs, f, t') -> two_children_ok ts fresh p1 p2 cs f.
  Proof. intros. eapply guarded_crossover_of_valid; eauto using hux_step_valid. Qed.

  Theorem hux_safe pr ts fresh p1 p2 t :
    Forall wf_type ts -> valid_sol ts p1 -> valid_sol ts p2 -> py_safe (hux E P pr ts fresh [p1; p2] t).
  Proof. intros. apply guarded_crossover_of_safe; auto using hux_step_safe. Qed.
End OpsProofs.
