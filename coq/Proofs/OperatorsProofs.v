(* Proofs about Model/Operators.v: validity of offspring, flag discipline, absence of Python
   errors, symmetry — for ALL tapes.

   "Parents unchanged" has no theorem: it is structural in a functional model (a model
   function cannot modify its arguments); the corresponding fact about the Python code is
   established by harness/translate/framecheck.py and by the driver's deep snapshots. *)
From Coq Require Import ZArith QArith Bool List Lia Permutation.
From PV Require Import Base.Num Base.FVal Base.Tape Model.Operators.
Import ListNotations.
Open Scope res_scope.

(* ------------------------------------------------------------------ small list facts *)
Lemma nth_res_ok {A} (l : list A) i x : nth_res l i = Ok x <-> nth_error l i = Some x.
Proof. unfold nth_res. destruct (nth_error l i); split; intro H; inversion H; subst; auto. Qed.

Lemma nth_res_lt {A} (l : list A) i : (i < length l)%nat -> exists x, nth_res l i = Ok x.
Proof.
  intro H. unfold nth_res. destruct (nth_error l i) eqn:E; eauto.
  apply nth_error_None in E. lia.
Qed.

Lemma nth_res_safe_lt {A} (l : list A) i : (i < length l)%nat -> py_safe (nth_res l i).
Proof. intro H. destruct (nth_res_lt l i H) as [x ->]. exact I. Qed.

Lemma upd_length {A} i (x : A) l : length (upd i x l) = length l.
Proof. revert i; induction l as [|y r IH]; intros [|i]; simpl; auto. Qed.

Lemma nth_error_upd_eq {A} i (x : A) l : (i < length l)%nat -> nth_error (upd i x l) i = Some x.
Proof. revert i; induction l as [|y r IH]; intros [|i] H; simpl in *; try lia; auto. apply IH. lia. Qed.

Lemma nth_error_upd_neq {A} i j (x : A) l : i <> j -> nth_error (upd i x l) j = nth_error l j.
Proof.
  revert i j; induction l as [|y r IH]; intros [|i] [|j] H; simpl; auto; try congruence.
Qed.

(* writing x at a position that held y: the multiset changes by exactly that *)
Lemma upd_perm {A} i (x y : A) l : nth_error l i = Some y -> Permutation (y :: upd i x l) (x :: l).
Proof.
  revert i; induction l as [|z r IH]; intros [|i] H; simpl in *; try discriminate.
  - inversion H; subst. apply perm_swap.
  - specialize (IH _ H).
    eapply perm_trans; [apply perm_swap|].
    eapply perm_trans; [apply perm_skip, IH|]. apply perm_swap.
Qed.

Lemma upd_In {A} i (x : A) l z : In z (upd i x l) -> z = x \/ In z l.
Proof.
  revert i; induction l as [|y r IH]; intros [|i]; simpl; auto.
  - intros [->|H]; auto.
  - intros [->|H]; auto. destruct (IH _ H); auto.
Qed.

Lemma upd_same {A} i (x : A) l : nth_error l i = Some x -> upd i x l = l.
Proof.
  revert i; induction l as [|y r IH]; intros [|i] H; simpl in *; try discriminate; auto.
  - now inversion H.
  - f_equal. auto.
Qed.

Section OpsProofs.
  Variable E : Type.
  Variable P : Type.
  Variable eqb : E -> E -> bool.
  Hypothesis eqb_spec : forall x y, eqb x y = true <-> x = y.

  Notation var := (var E).
  Notation vtype := (vtype E).
  Notation sol := (sol E P).
  Notation mem := (mem E eqb).

  Lemma mem_In x l : mem x l = true <-> In x l.
  Proof.
    unfold Operators.mem. rewrite existsb_exists. split.
    - intros (y & Hy & e). apply eqb_spec in e. now subst.
    - intro H. exists x. split; auto. now apply eqb_spec.
  Qed.
  Lemma mem_false x l : mem x l = false <-> ~ In x l.
  Proof. rewrite <- mem_In. destruct (mem x l); split; congruence. Qed.

  (* ---------------------------------------------------------------- validity *)
  (* a value valid for its declared type (the property's "valid offspring") *)
  Definition valid_var (ty : vtype) (v : var) : Prop :=
    match ty, v with
    | TReal lb ub, VReal x => in_bounds lb ub x                    (* inside the bounds, not NaN *)
    | TBinary n, VBits b => length b = n                           (* declared length *)
    | TPerm els, VPerm p => Permutation els p                      (* exactly the declared elements *)
    | TSubset els k, VSub s => NoDup s /\ length s = k /\ incl s els (* duplicate-free, declared size, declared elements *)
    | _, _ => False
    end.

  (* well-formed declarations (what a Problem may declare) *)
  Definition wf_type (ty : vtype) : Prop :=
    match ty with
    | TReal lb ub => xleb lb ub = true
    | TBinary _ => True
    | TPerm els => NoDup els /\ (0 < length els)%nat      (* Permutation([]) makes randrange(0) raise: rejected *)
    | TSubset els k => NoDup els /\ (0 < k)%nat
    end.

  Definition valid_vars (ts : list vtype) (vs : list var) : Prop := Forall2 valid_var ts vs.
  Definition valid_sol (ts : list vtype) (s : sol) : Prop := valid_vars ts (vars s).

  (* flag discipline: a child still marked evaluated is field-equal to the parent it was copied from *)
  Definition same_fields (c p : sol) : Prop :=
    vars c = vars p /\ payload c = payload p /\ evaluated c = evaluated p.
  Definition copied_from (c p : sol) : Prop :=
    payload c = payload p /\ (evaluated c = true -> same_fields c p).

  Lemma copied_from_deepcopy fresh p : copied_from (deepcopy E P fresh p) p.
  Proof. split; [reflexivity|]. intros _. repeat split. Qed.

  Lemma copied_from_mk_child fresh p vs w :
    (w = false -> vs = vars p) -> copied_from (mk_child E P fresh p vs w) p.
  Proof.
    intro H. split; [reflexivity|]. simpl. destruct w; [discriminate|].
    intros _. repeat split; simpl; auto.
  Qed.

  (* ---------------------------------------------------------------- the generic mutation loop *)
  Definition step_valid (step : mstep E) : Prop :=
    forall ty v t v' t1, wf_type ty -> valid_var ty v -> step ty v t = Ok (Some v', t1) -> valid_var ty v'.
  Definition step_safe (step : mstep E) : Prop :=
    forall ty v t, wf_type ty -> valid_var ty v -> py_safe (step ty v t).

  Lemma mut_loop_valid step ts : step_valid step ->
    forall vs t vs' w t', Forall wf_type ts -> valid_vars ts vs ->
    mut_loop E step ts vs t = Ok (vs', w, t') ->
    valid_vars ts vs' /\ (w = false -> vs' = vs).
  Proof.
    intros SV. induction ts as [|ty ts IH]; intros vs t vs' w t' WF V H.
    - simpl in H. inversion H; subst. split; auto.
    - inversion V as [|? v ? vr Hv Hr]; subst. inversion WF as [|? ? Wty Wts]; subst.
      simpl in H.
      destruct (step ty v t) as [[o t1]|] eqn:Es; simpl in H; [|discriminate].
      destruct (mut_loop E step ts vr t1) as [[[vs2 w2] t2]|] eqn:El; simpl in H; [|discriminate].
      inversion H; subst; clear H.
      destruct (IH _ _ _ _ _ Wts Hr El) as [V2 F2].
      split.
      + constructor; auto. destruct o as [v'|]; auto. eapply SV; eauto.
      + destruct o; simpl; [discriminate|]. intro W. now rewrite (F2 W).
  Qed.

  Lemma mut_loop_safe step ts : step_safe step ->
    forall vs t, Forall wf_type ts -> valid_vars ts vs -> py_safe (mut_loop E step ts vs t).
  Proof.
    intros SS. induction ts as [|ty ts IH]; intros vs t WF V.
    - exact I.
    - inversion V as [|? v ? vr Hv Hr]; subst. inversion WF as [|? ? Wty Wts]; subst.
      simpl. apply py_safe_bind; [now apply SS|].
      intros [o t1] _. apply py_safe_bind; [now apply IH|].
      intros [[vs2 w2] t2] _. exact I.
  Qed.

  Theorem mutation_of_valid step ts : step_valid step ->
    forall fresh p t c f t', Forall wf_type ts -> valid_sol ts p ->
    mutation_of E P step ts fresh p t = Ok (c, f, t') ->
    valid_sol ts c /\ copied_from c p /\ sid c = fresh /\ f = S fresh.
  Proof.
    intros SV fresh p t c f t' WF V H. unfold mutation_of in H.
    destruct (mut_loop E step ts (vars p) t) as [[[vs w] t1]|] eqn:El; simpl in H; [|discriminate].
    inversion H; subst; clear H.
    destruct (mut_loop_valid step ts SV _ _ _ _ _ WF V El) as [V' F'].
    split; [exact V'|]. split; [now apply copied_from_mk_child|]. split; reflexivity.
  Qed.

  Theorem mutation_of_safe step ts : step_safe step ->
    forall fresh p t, Forall wf_type ts -> valid_sol ts p -> py_safe (mutation_of E P step ts fresh p t).
  Proof.
    intros SS fresh p t WF V. unfold mutation_of.
    apply py_safe_bind; [now apply mut_loop_safe|]. intros [[vs w] t1] _. exact I.
  Qed.

  (* ---------------------------------------------------------------- the generic crossover loop *)
  Definition xstep_valid (step : xstep E) : Prop :=
    forall ty a b t a' b' t1, wf_type ty -> valid_var ty a -> valid_var ty b ->
      step ty a b t = Ok (Some (a', b'), t1) -> valid_var ty a' /\ valid_var ty b'.
  Definition xstep_safe (step : xstep E) : Prop :=
    forall ty a b t, wf_type ty -> valid_var ty a -> valid_var ty b -> py_safe (step ty a b t).

  Lemma cross_loop_valid step ts : xstep_valid step ->
    forall v1 v2 t r1 r2 w t', Forall wf_type ts -> valid_vars ts v1 -> valid_vars ts v2 ->
    cross_loop E step ts v1 v2 t = Ok (r1, r2, w, t') ->
    valid_vars ts r1 /\ valid_vars ts r2 /\ (w = false -> r1 = v1 /\ r2 = v2).
  Proof.
    intros SV. induction ts as [|ty ts IH]; intros v1 v2 t r1 r2 w t' WF V1 V2 H.
    - simpl in H. inversion H; subst. auto.
    - inversion V1 as [|? a ? ar Ha Har]; subst. inversion V2 as [|? b ? br Hb Hbr]; subst.
      inversion WF as [|? ? Wty Wts]; subst. simpl in H.
      destruct (step ty a b t) as [[o t1]|] eqn:Es; simpl in H; [|discriminate].
      destruct (cross_loop E step ts ar br t1) as [[[[s1 s2] w2] t2]|] eqn:El; simpl in H; [|discriminate].
      inversion H; subst; clear H.
      destruct (IH _ _ _ _ _ _ _ Wts Har Hbr El) as (A & B & F).
      destruct o as [[a' b']|].
      + destruct (SV _ _ _ _ _ _ _ Wty Ha Hb Es) as [Va Vb].
        split; [constructor; auto|]. split; [constructor; auto|]. simpl. discriminate.
      + split; [constructor; auto|]. split; [constructor; auto|]. simpl.
        intro W; destruct (F W); split; congruence.
  Qed.

  Lemma cross_loop_safe step ts : xstep_safe step ->
    forall v1 v2 t, Forall wf_type ts -> valid_vars ts v1 -> valid_vars ts v2 ->
    py_safe (cross_loop E step ts v1 v2 t).
  Proof.
    intros SS. induction ts as [|ty ts IH]; intros v1 v2 t WF V1 V2.
    - exact I.
    - inversion V1 as [|? a ? ar Ha Har]; subst. inversion V2 as [|? b ? br Hb Hbr]; subst.
      inversion WF as [|? ? Wty Wts]; subst. simpl.
      apply py_safe_bind; [now apply SS|]. intros [o t1] _.
      apply py_safe_bind; [now apply IH|]. intros [[[s1 s2] w2] t2] _. exact I.
  Qed.

  (* what a two-parent crossover guarantees *)
  Definition two_children_ok (ts : list vtype) (fresh : nat) (p1 p2 : sol) (cs : list sol) (f : nat) : Prop :=
    exists c1 c2, cs = [c1; c2] /\ valid_sol ts c1 /\ valid_sol ts c2 /\
                  copied_from c1 p1 /\ copied_from c2 p2 /\
                  sid c1 = fresh /\ sid c2 = S fresh /\ f = S (S fresh).

  Lemma two_children_intro ts fresh p1 p2 r1 r2 w :
    valid_vars ts r1 -> valid_vars ts r2 -> (w = false -> r1 = vars p1 /\ r2 = vars p2) ->
    two_children_ok ts fresh p1 p2 [mk_child E P fresh p1 r1 w; mk_child E P (S fresh) p2 r2 w] (S (S fresh)).
  Proof.
    intros A B F. exists (mk_child E P fresh p1 r1 w), (mk_child E P (S fresh) p2 r2 w).
    split; [reflexivity|]. split; [exact A|]. split; [exact B|].
    split; [apply copied_from_mk_child; intro W; now destruct (F W)|].
    split; [apply copied_from_mk_child; intro W; now destruct (F W)|].
    repeat split.
  Qed.

  Lemma two_children_deepcopy ts fresh p1 p2 :
    valid_sol ts p1 -> valid_sol ts p2 ->
    two_children_ok ts fresh p1 p2 [deepcopy E P fresh p1; deepcopy E P (S fresh) p2] (S (S fresh)).
  Proof.
    intros A B. exists (deepcopy E P fresh p1), (deepcopy E P (S fresh) p2).
    split; [reflexivity|]. split; [exact A|]. split; [exact B|].
    split; [apply copied_from_deepcopy|]. split; [apply copied_from_deepcopy|]. repeat split.
  Qed.

  Theorem crossover_of_valid step ts : xstep_valid step ->
    forall fresh p1 p2 t cs f t', Forall wf_type ts -> valid_sol ts p1 -> valid_sol ts p2 ->
    crossover_of E P step ts fresh [p1; p2] t = Ok (cs, f, t') ->
    two_children_ok ts fresh p1 p2 cs f.
  Proof.
    intros SV fresh p1 p2 t cs f t' WF V1 V2 H. unfold crossover_of in H. simpl in H.
    destruct (cross_loop E step ts (vars p1) (vars p2) t) as [[[[r1 r2] w] t1]|] eqn:El; simpl in H; [|discriminate].
    inversion H; subst; clear H.
    destruct (cross_loop_valid step ts SV _ _ _ _ _ _ _ WF V1 V2 El) as (A & B & F).
    now apply two_children_intro.
  Qed.

  Theorem crossover_of_safe step ts : xstep_safe step ->
    forall fresh p1 p2 t, Forall wf_type ts -> valid_sol ts p1 -> valid_sol ts p2 ->
    py_safe (crossover_of E P step ts fresh [p1; p2] t).
  Proof.
    intros SS fresh p1 p2 t WF V1 V2. unfold crossover_of. simpl.
    apply py_safe_bind; [now apply cross_loop_safe|]. intros [[[r1 r2] w] t1] _. exact I.
  Qed.

  Theorem guarded_crossover_of_valid pr step ts : xstep_valid step ->
    forall fresh p1 p2 t cs f t', Forall wf_type ts -> valid_sol ts p1 -> valid_sol ts p2 ->
    guarded_crossover_of E P pr step ts fresh [p1; p2] t = Ok (cs, f, t') ->
    two_children_ok ts fresh p1 p2 cs f.
  Proof.
    intros SV fresh p1 p2 t cs f t' WF V1 V2 H. unfold guarded_crossover_of in H. simpl in H.
    destruct (get_unif t) as [[u t0]|] eqn:Eu; simpl in H; [|discriminate].
    destruct (xleb u pr).
    - destruct (cross_loop E step ts (vars p1) (vars p2) t0) as [[[[r1 r2] w] t1]|] eqn:El; simpl in H; [|discriminate].
      inversion H; subst; clear H.
      destruct (cross_loop_valid step ts SV _ _ _ _ _ _ _ WF V1 V2 El) as (A & B & F).
      now apply two_children_intro.
    - inversion H; subst; clear H. now apply two_children_deepcopy.
  Qed.

  Theorem guarded_crossover_of_safe pr step ts : xstep_safe step ->
    forall fresh p1 p2 t, Forall wf_type ts -> valid_sol ts p1 -> valid_sol ts p2 ->
    py_safe (guarded_crossover_of E P pr step ts fresh [p1; p2] t).
  Proof.
    intros SS fresh p1 p2 t WF V1 V2. unfold guarded_crossover_of. simpl.
    apply py_safe_bind; [apply get_unif_safe|]. intros [u t0] _.
    destruct (xleb u pr); [|exact I].
    apply py_safe_bind; [now apply cross_loop_safe|]. intros [[[r1 r2] w] t1] _. exact I.
  Qed.

  (* ================================================================ BitFlip *)
  Lemma bitflip_bits_spec p : forall n bits t b' w t',
    bitflip_bits p n bits t = Ok (b', w, t') -> length b' = length bits /\ (w = false -> b' = bits).
  Proof.
    induction n as [|n IH]; intros bits t b' w t' H; simpl in H.
    - inversion H; subst. auto.
    - destruct bits as [|b r]; [discriminate|].
      destruct (get_unif t) as [[u t1]|]; simpl in H; [|discriminate].
      destruct (bitflip_bits p n r t1) as [[[r' w'] t2]|] eqn:Er; simpl in H; [|discriminate].
      destruct (IH _ _ _ _ _ Er) as [L F].
      destruct (xleb u p); inversion H; subst; simpl; split; auto; try discriminate.
      intro W. now rewrite (F W).
  Qed.

  Lemma bitflip_bits_safe p : forall n bits t, (n <= length bits)%nat -> py_safe (bitflip_bits p n bits t).
  Proof.
    induction n as [|n IH]; intros bits t L; simpl; [exact I|].
    destruct bits as [|b r]; simpl in L; [lia|].
    apply py_safe_bind; [apply get_unif_safe|]. intros [u t1] _.
    apply py_safe_bind; [apply IH; lia|]. intros [[r' w] t2] _. destruct (xleb u p); exact I.
  Qed.

  Lemma bitflip_step_valid p : step_valid (bitflip_step E p).
  Proof.
    intros ty v t v' t1 W V H. destruct ty; simpl in H; try (inversion H; fail).
    destruct v as [|bits| |]; simpl in V; try contradiction.
    destruct (bitflip_bits p nbits bits t) as [[[b' w] t2]|] eqn:Eb; simpl in H; [|discriminate].
    destruct (bitflip_bits_spec _ _ _ _ _ _ _ Eb) as [L _].
    destruct w; inversion H; subst. simpl. congruence.
  Qed.

  Lemma bitflip_step_safe p : step_safe (bitflip_step E p).
  Proof.
    intros ty v t W V. destruct ty; simpl; try exact I.
    destruct v as [|bits| |]; simpl in V; try contradiction.
    apply py_safe_bind; [apply bitflip_bits_safe; lia|]. intros [[b' w] t2] _. exact I.
  Qed.

  (* bit strings keep their declared length; flag discipline; fresh identity *)
  Theorem bitflip_valid pr ts fresh p t c f t' :
    Forall wf_type ts -> valid_sol ts p -> bitflip E P pr ts fresh p t = Ok (c, f, t') ->
    valid_sol ts c /\ copied_from c p /\ sid c = fresh /\ f = S fresh.
  Proof.
    intros WF V H. unfold bitflip in H.
    destruct (eff_prob pr (total_nbits E ts)) as [pe|]; simpl in H; [|discriminate].
    eapply mutation_of_valid; eauto using bitflip_step_valid.
  Qed.

  (* no Python error — except the ZeroDivisionError of an int probability on a problem without bits *)
  Theorem bitflip_safe pr ts fresh p t :
    Forall wf_type ts -> valid_sol ts p -> (forall z, pr = PInt z -> (0 < total_nbits E ts)%nat) ->
    py_safe (bitflip E P pr ts fresh p t).
  Proof.
    intros WF V HP. unfold bitflip.
    destruct pr as [z|q]; simpl.
    - specialize (HP z eq_refl). destruct (total_nbits E ts); [lia|]. simpl.
      apply mutation_of_safe; auto using bitflip_step_safe.
    - apply mutation_of_safe; auto using bitflip_step_safe.
  Qed.

  (* ================================================================ HUX *)
  Lemma hux_bits_spec : forall n b1 b2 t r1 r2 w t',
    hux_bits n b1 b2 t = Ok (r1, r2, w, t') ->
    length r1 = length b1 /\ length r2 = length b2 /\ (w = false -> r1 = b1 /\ r2 = b2).
  Proof.
    induction n as [|n IH]; intros b1 b2 t r1 r2 w t' H; simpl in H.
    - inversion H; subst. auto.
    - destruct b1 as [|x s1]; [discriminate|]. destruct b2 as [|y s2]; [discriminate|].
      destruct (negb (Bool.eqb x y)).
      + destruct (get_bit t) as [[c t1]|]; simpl in H; [|discriminate].
        destruct (hux_bits n s1 s2 t1) as [[[[q1 q2] w'] t2]|] eqn:El; simpl in H; [|discriminate].
        destruct (IH _ _ _ _ _ _ _ El) as (L1 & L2 & F).
        destruct c; inversion H; subst; simpl; (split; [congruence|]); (split; [congruence|]);
          try discriminate. intro W; destruct (F W); split; congruence.
      + destruct (hux_bits n s1 s2 t) as [[[[q1 q2] w'] t2]|] eqn:El; simpl in H; [|discriminate].
        destruct (IH _ _ _ _ _ _ _ El) as (L1 & L2 & F).
        inversion H; subst; simpl; (split; [congruence|]); (split; [congruence|]).
        intro W; destruct (F W); split; congruence.
  Qed.

  Lemma hux_bits_safe : forall n b1 b2 t, (n <= length b1)%nat -> (n <= length b2)%nat -> py_safe (hux_bits n b1 b2 t).
  Proof.
    induction n as [|n IH]; intros b1 b2 t L1 L2; simpl; [exact I|].
    destruct b1 as [|x s1]; simpl in L1; [lia|]. destruct b2 as [|y s2]; simpl in L2; [lia|].
    destruct (negb (Bool.eqb x y)).
    - apply py_safe_bind; [apply get_bit_safe|]. intros [c t1] _.
      apply py_safe_bind; [apply IH; lia|]. intros [[[q1 q2] w] t2] _. destruct c; exact I.
    - apply py_safe_bind; [apply IH; lia|]. intros [[[q1 q2] w] t2] _. exact I.
  Qed.

  Lemma hux_step_valid : xstep_valid (hux_step E).
  Proof.
    intros ty a b t a' b' t1 W Va Vb H. destruct ty; simpl in H; try (inversion H; fail).
    destruct a as [|b1| |]; simpl in Va; try contradiction.
    destruct b as [|b2| |]; simpl in Vb; try contradiction.
    destruct (hux_bits nbits b1 b2 t) as [[[[r1 r2] w] t2]|] eqn:Eb; simpl in H; [|discriminate].
    destruct (hux_bits_spec _ _ _ _ _ _ _ _ Eb) as (L1 & L2 & _).
    destruct w; inversion H; subst. simpl. split; congruence.
  Qed.

  Lemma hux_step_safe : xstep_safe (hux_step E).
  Proof.
    intros ty a b t W Va Vb. destruct ty; simpl; try exact I.
    destruct a as [|b1| |]; simpl in Va; try contradiction.
    destruct b as [|b2| |]; simpl in Vb; try contradiction.
    apply py_safe_bind; [apply hux_bits_safe; lia|]. intros [[[r1 r2] w] t2] _. exact I.
  Qed.

  Theorem hux_valid pr ts fresh p1 p2 t cs f t' :
    Forall wf_type ts -> valid_sol ts p1 -> valid_sol ts p2 ->
    hux E P pr ts fresh [p1; p2] t = Ok (cs, f, t') -> two_children_ok ts fresh p1 p2 cs f.
  Proof. intros. eapply guarded_crossover_of_valid; eauto using hux_step_valid. Qed.

  Theorem hux_safe pr ts fresh p1 p2 t :
    Forall wf_type ts -> valid_sol ts p1 -> valid_sol ts p2 -> py_safe (hux E P pr ts fresh [p1; p2] t).
  Proof. intros. apply guarded_crossover_of_safe; auto using hux_step_safe. Qed.

  (* ================================================================ two distinct indices *)
  Lemma redraw_spec n i : forall fuel j t j' t',
    (j < n)%nat -> redraw fuel n i j t = Ok (j', t') -> (j' < n)%nat /\ j' <> i.
  Proof.
    induction fuel as [|f IH]; intros j t j' t' L H; simpl in H.
    - destruct (Nat.eqb i j) eqn:Eij; [discriminate|]. inversion H; subst.
      apply Nat.eqb_neq in Eij. auto.
    - destruct (Nat.eqb i j) eqn:Eij.
      + destruct (get_idx n t) as [[j1 t1]|] eqn:Eg; simpl in H; [|discriminate].
        apply get_idx_ok in Eg. destruct Eg as [L1 _]. eapply IH; eauto.
      + inversion H; subst. apply Nat.eqb_neq in Eij. auto.
  Qed.

  (* the loop consumes draws equal to i until one differs *)
  Lemma redraw_consumes n i : forall fuel j t j' t',
    redraw fuel n i j t = Ok (j', t') ->
    j' <> i /\ ((j = j' /\ t = t') \/ (j = i /\ exists m, t = repeat (DIdx i) m ++ DIdx j' :: t')).
  Proof.
    induction fuel as [|f IH]; intros j t j' t' H; simpl in H.
    - destruct (Nat.eqb i j) eqn:Eij; [discriminate|]. inversion H; subst.
      apply Nat.eqb_neq in Eij. split; auto.
    - destruct (Nat.eqb i j) eqn:Eij.
      + apply Nat.eqb_eq in Eij. subst j.
        destruct (get_idx n t) as [[j1 t1]|] eqn:Eg; simpl in H; [|discriminate].
        apply get_idx_ok in Eg. destruct Eg as [_ ->].
        destruct (IH _ _ _ _ H) as [N [[A B]|[A [m B]]]].
        * subst. split; auto. right. split; auto. exists 0%nat. reflexivity.
        * subst. split; auto. right. split; auto. exists (S m). reflexivity.
      + inversion H; subst. apply Nat.eqb_neq in Eij. split; auto.
  Qed.

  (* with fuel above the tape length the loop never runs out of fuel *)
  Lemma redraw_safe n i : (0 < n)%nat -> forall fuel j t, (length t < fuel)%nat -> py_safe (redraw fuel n i j t).
  Proof.
    intros Hn. induction fuel as [|f IH]; intros j t L; [lia|]. simpl.
    destruct (Nat.eqb i j); [|exact I].
    apply py_safe_bind; [now apply get_idx_safe|].
    intros [j1 t1] Eg. apply get_idx_ok in Eg. destruct Eg as [_ ->]. apply IH. simpl in L. lia.
  Qed.

  Lemma draw_two_spec n t i j t' :
    draw_two n t = Ok (i, j, t') -> (i < n)%nat /\ (j < n)%nat /\ ((1 < n)%nat -> i <> j).
  Proof.
    unfold draw_two. intro H.
    destruct (get_idx n t) as [[i0 t1]|] eqn:E1; cbn [bind] in H; [|discriminate].
    destruct (get_idx n t1) as [[j0 t2]|] eqn:E2; cbn [bind] in H; [|discriminate].
    apply get_idx_ok in E1. apply get_idx_ok in E2. destruct E1 as [L1 _], E2 as [L2 _].
    destruct (Nat.ltb 1 n) eqn:E1n.
    - destruct (redraw (S (length t2)) n i0 j0 t2) as [[j1 t3]|] eqn:Er; cbn [bind] in H; [|discriminate].
      inversion H; subst. destruct (redraw_spec _ _ _ _ _ _ _ L2 Er) as [A B]. repeat split; auto.
    - inversion H; subst. repeat split; auto. intro C. apply Nat.ltb_lt in C. congruence.
  Qed.

  Lemma draw_two_safe n t : (0 < n)%nat -> py_safe (draw_two n t).
  Proof.
    intro Hn. unfold draw_two.
    apply py_safe_bind; [now apply get_idx_safe|]. intros [i0 t1] _.
    apply py_safe_bind; [now apply get_idx_safe|]. intros [j0 t2] _.
    destruct (Nat.ltb 1 n); [|exact I].
    apply py_safe_bind; [apply redraw_safe; auto|]. intros [j1 t3] _. exact I.
  Qed.

  (* ================================================================ Swap *)
  Lemma swap_upd_perm : forall (l : list E) i j x y,
    nth_error l i = Some x -> nth_error l j = Some y -> Permutation (upd j x (upd i y l)) l.
  Proof.
    induction l as [|a l IH]; intros [|i] [|j] x y Hi Hj; simpl in *; try discriminate.
    - inversion Hi; inversion Hj; subst. reflexivity.
    - inversion Hi; subst. apply (upd_perm j x y l Hj).
    - inversion Hj; subst. apply (upd_perm i y x l Hi).
    - apply perm_skip. now apply IH.
  Qed.

  Lemma swap_step_valid p : step_valid (swap_step E p).
  Proof.
    intros ty v t v' t1 W V H. destruct ty as [| |els|]; simpl in H; try (inversion H; fail).
    destruct (get_unif t) as [[u t0]|]; simpl in H; [|discriminate].
    destruct (xleb u p); [|inversion H].
    destruct v as [| |perm|]; simpl in V; try contradiction.
    destruct (draw_two (length perm) t0) as [[[i j] t2]|]; simpl in H; [|discriminate].
    destruct (nth_res perm i) as [x|] eqn:Ei; simpl in H; [|discriminate].
    destruct (nth_res perm j) as [y|] eqn:Ej; simpl in H; [|discriminate].
    inversion H; subst. simpl. apply nth_res_ok in Ei. apply nth_res_ok in Ej.
    eapply perm_trans; [exact V|]. symmetry. now apply swap_upd_perm.
  Qed.

  Lemma swap_step_safe p : step_safe (swap_step E p).
  Proof.
    intros ty v t W V. destruct ty as [| |els|]; simpl; try exact I.
    apply py_safe_bind; [apply get_unif_safe|]. intros [u t0] _.
    destruct (xleb u p); [|exact I].
    destruct v as [| |perm|]; simpl in V; try contradiction.
    destruct W as [_ Wl]. apply Permutation_length in V.
    apply py_safe_bind; [apply draw_two_safe; lia|]. intros [[i j] t2] Ed.
    apply draw_two_spec in Ed. destruct Ed as (Li & Lj & _).
    destruct (nth_res_lt perm i Li) as [x ->]. destruct (nth_res_lt perm j Lj) as [y ->]. exact I.
  Qed.

  (* Swap: the offspring permutation is a permutation of the declared elements *)
  Theorem swap_valid p ts fresh s t c f t' :
    Forall wf_type ts -> valid_sol ts s -> swap E P p ts fresh s t = Ok (c, f, t') ->
    valid_sol ts c /\ copied_from c s /\ sid c = fresh /\ f = S fresh.
  Proof. intros. eapply mutation_of_valid; eauto using swap_step_valid. Qed.

  Theorem swap_safe p ts fresh s t :
    Forall wf_type ts -> valid_sol ts s -> py_safe (swap E P p ts fresh s t).
  Proof. intros. apply mutation_of_safe; auto using swap_step_safe. Qed.

  (* ================================================================ Insertion *)
  (* loop invariant: the list holds every element of l0 except that position h holds a stale
     copy (z) while tmp is held aside *)
  Definition hole (l0 : list E) (tmp : E) (h : nat) (lk : list E) : Prop :=
    length lk = length l0 /\ exists z, nth_error lk h = Some z /\ Permutation (tmp :: lk) (z :: l0).

  Lemma hole_init l i tmp : nth_error l i = Some tmp -> hole l tmp i l.
  Proof. intro H. split; auto. exists tmp. split; auto. Qed.

  Lemma hole_step l0 tmp h h' lk a :
    hole l0 tmp h lk -> h <> h' -> nth_error lk h' = Some a -> hole l0 tmp h' (upd h a lk).
  Proof.
    intros [L (z & Hz & Pz)] N Ha. split; [now rewrite upd_length|].
    exists a. split; [now rewrite nth_error_upd_neq|].
    pose proof (upd_perm h a z lk Hz) as Q.
    apply (Permutation_cons_inv (a := z)).
    eapply perm_trans; [apply perm_swap|].
    eapply perm_trans; [apply perm_skip, Q|].
    eapply perm_trans; [apply perm_swap|].
    eapply perm_trans; [apply perm_skip, Pz|]. apply perm_swap.
  Qed.

  Lemma hole_final l0 tmp h lk : hole l0 tmp h lk -> Permutation (upd h tmp lk) l0.
  Proof.
    intros [L (z & Hz & Pz)]. pose proof (upd_perm h tmp z lk Hz) as Q.
    apply (Permutation_cons_inv (a := z)). eapply perm_trans; eauto.
  Qed.

  Lemma shift_down_ok l0 tmp : forall cnt l h,
    hole l0 tmp h l -> (h + cnt < length l0)%nat ->
    exists l', shift_down E l (S h) cnt = Ok l' /\ hole l0 tmp (h + cnt) l'.
  Proof.
    induction cnt as [|c IH]; intros l h Hh L; cbn [shift_down].
    - exists l. split; auto. now rewrite Nat.add_0_r.
    - destruct Hh as [Ll Hz].
      assert (Lk : (S h < length l)%nat) by lia.
      destruct (nth_res_lt l (S h) Lk) as [x Ex]. rewrite Ex. cbn [bind].
      replace (S h - 1)%nat with h by lia.
      apply nth_res_ok in Ex.
      assert (H2 : hole l0 tmp (S h) (upd h x l)) by (apply hole_step; auto; split; auto).
      destruct (IH _ _ H2) as (l' & El & Hl'); [lia|].
      exists l'. split; [exact El|].
      replace (S h + c)%nat with (h + S c)%nat in Hl' by lia. exact Hl'.
  Qed.

  Lemma shift_up_ok l0 tmp : forall cnt l h,
    hole l0 tmp h l -> (cnt <= h)%nat -> (h < length l0)%nat ->
    exists l', shift_up E l (h - 1) cnt = Ok l' /\ hole l0 tmp (h - cnt) l'.
  Proof.
    induction cnt as [|c IH]; intros l h Hh C L; cbn [shift_up].
    - exists l. split; auto. now rewrite Nat.sub_0_r.
    - destruct Hh as [Ll Hz].
      assert (Lk : (h - 1 < length l)%nat) by lia.
      destruct (nth_res_lt l (h - 1) Lk) as [x Ex]. rewrite Ex. cbn [bind].
      apply nth_res_ok in Ex.
      replace (S (h - 1)) with h by lia.
      assert (H2 : hole l0 tmp (h - 1) (upd h x l)) by (apply hole_step; auto; [split; auto|lia]).
      destruct (IH _ _ H2) as (l' & El & Hl'); [lia|lia|].
      exists l'. split; [exact El|].
      replace (h - 1 - c)%nat with (h - S c)%nat in Hl' by lia. exact Hl'.
  Qed.

  Lemma insert_at_ok perm i j : (i < length perm)%nat -> (j < length perm)%nat ->
    exists l, insert_at E perm i j = Ok l /\ Permutation l perm.
  Proof.
    intros Li Lj. unfold insert_at.
    destruct (nth_res_lt perm i Li) as [tmp Et]. rewrite Et. simpl. apply nth_res_ok in Et.
    pose proof (hole_init perm i tmp Et) as H0.
    destruct (Nat.ltb i j) eqn:Eij; [|destruct (Nat.ltb j i) eqn:Eji].
    - apply Nat.ltb_lt in Eij.
      destruct (shift_down_ok perm tmp (j - i) perm i H0) as (l' & El & Hl); [lia|].
      rewrite El. simpl. eexists. split; [reflexivity|].
      replace (i + (j - i))%nat with j in Hl by lia. now apply hole_final in Hl.
    - apply Nat.ltb_lt in Eji.
      destruct (shift_up_ok perm tmp (i - j) perm i H0) as (l' & El & Hl); [lia|lia|].
      rewrite El. simpl. eexists. split; [reflexivity|].
      replace (i - (i - j))%nat with j in Hl by lia. now apply hole_final in Hl.
    - apply Nat.ltb_ge in Eij. apply Nat.ltb_ge in Eji. assert (i = j) by lia. subst j.
      simpl. eexists. split; [reflexivity|]. now apply hole_final in H0.
  Qed.

  Lemma insertion_step_valid p : step_valid (insertion_step E p).
  Proof.
    intros ty v t v' t1 W V H. destruct ty as [| |els|]; simpl in H; try (inversion H; fail).
    destruct (get_unif t) as [[u t0]|]; simpl in H; [|discriminate].
    destruct (xleb u p); [|inversion H].
    destruct v as [| |perm|]; simpl in V; try contradiction.
    destruct (draw_two (length perm) t0) as [[[i j] t2]|] eqn:Ed; cbn [bind] in H; [|discriminate].
    apply draw_two_spec in Ed. destruct Ed as (Li & Lj & _).
    destruct (insert_at_ok perm i j Li Lj) as (l & El & Pl). rewrite El in H. simpl in H.
    inversion H; subst. simpl. eapply perm_trans; [exact V|]. now symmetry.
  Qed.

  Lemma insertion_step_safe p : step_safe (insertion_step E p).
  Proof.
    intros ty v t W V. destruct ty as [| |els|]; simpl; try exact I.
    apply py_safe_bind; [apply get_unif_safe|]. intros [u t0] _.
    destruct (xleb u p); [|exact I].
    destruct v as [| |perm|]; simpl in V; try contradiction.
    destruct W as [_ Wl]. apply Permutation_length in V.
    apply py_safe_bind; [apply draw_two_safe; lia|]. intros [[i j] t2] Ed.
    apply draw_two_spec in Ed. destruct Ed as (Li & Lj & _).
    destruct (insert_at_ok perm i j Li Lj) as (l & -> & _). exact I.
  Qed.

  (* Insertion (both shift directions): a permutation of the declared elements *)
  Theorem insertion_valid p ts fresh s t c f t' :
    Forall wf_type ts -> valid_sol ts s -> insertion E P p ts fresh s t = Ok (c, f, t') ->
    valid_sol ts c /\ copied_from c s /\ sid c = fresh /\ f = S fresh.
  Proof. intros. eapply mutation_of_valid; eauto using insertion_step_valid. Qed.

  Theorem insertion_safe p ts fresh s t :
    Forall wf_type ts -> valid_sol ts s -> py_safe (insertion E P p ts fresh s t).
  Proof. intros. apply mutation_of_safe; auto using insertion_step_safe. Qed.

  (* ================================================================ Replace *)
  Lemma NoDup_upd : forall (l : list E) i x, NoDup l -> ~ In x l -> NoDup (upd i x l).
  Proof.
    induction l as [|y r IH]; intros [|i] x ND NI; simpl; auto.
    - inversion ND; subst. constructor; auto. intro C. apply NI. now right.
    - inversion ND; subst. constructor.
      + intro C. apply upd_In in C. destruct C as [->|C]; [apply NI; now left|contradiction].
      + apply IH; auto. intro C. apply NI. now right.
  Qed.

  Lemma nonmembers_spec els s x : In x (nonmembers E eqb els s) <-> In x els /\ ~ In x s.
  Proof.
    unfold nonmembers. rewrite filter_In, negb_true_iff, mem_false. tauto.
  Qed.

  (* fewer members than declared elements => some declared element is a non-member *)
  Lemma nonmembers_nonempty els s : NoDup els -> (length s < length els)%nat ->
    (0 < length (nonmembers E eqb els s))%nat.
  Proof.
    intros ND L. destruct (nonmembers E eqb els s) as [|e r] eqn:En; [|simpl; lia].
    exfalso. assert (I : incl els s).
    { intros e He. destruct (mem e s) eqn:Em; [now apply mem_In|].
      assert (In e (nonmembers E eqb els s)) by (apply nonmembers_spec; split; auto; now apply mem_false).
      rewrite En in H. contradiction. }
    pose proof (NoDup_incl_length ND I). lia.
  Qed.

  Lemma replace_step_valid p : step_valid (replace_step E eqb p).
  Proof.
    intros ty v t v' t1 W V H. destruct ty as [| | |els k]; simpl in H; try (inversion H; fail).
    destruct (get_unif t) as [[u t0]|]; simpl in H; [|discriminate].
    destruct (xleb u p); [|inversion H].
    destruct v as [| | |s]; simpl in V; try contradiction. destruct V as (ND & Ls & Inc).
    destruct (Nat.ltb (length s) (length els)); [|inversion H].
    destruct (get_idx (length s) t0) as [[i t2]|]; simpl in H; [|discriminate].
    destruct (get_idx (length (nonmembers E eqb els s)) t2) as [[j t3]|]; simpl in H; [|discriminate].
    destruct (nth_res (nonmembers E eqb els s) j) as [x|] eqn:Ex; simpl in H; [|discriminate].
    inversion H; subst. apply nth_res_ok in Ex. apply nth_error_In in Ex.
    apply nonmembers_spec in Ex. destruct Ex as [Xe Xs]. simpl. split; [|split].
    - now apply NoDup_upd.
    - apply upd_length.
    - intros z Hz. apply upd_In in Hz. destruct Hz as [->|Hz]; auto.
  Qed.

  Lemma replace_step_safe p : step_safe (replace_step E eqb p).
  Proof.
    intros ty v t W V. destruct ty as [| | |els k]; simpl; try exact I.
    apply py_safe_bind; [apply get_unif_safe|]. intros [u t0] _.
    destruct (xleb u p); [|exact I].
    destruct v as [| | |s]; simpl in V; try contradiction. destruct V as (ND & Ls & Inc).
    destruct W as [NDe Kpos].
    destruct (Nat.ltb (length s) (length els)) eqn:El; [|exact I]. apply Nat.ltb_lt in El.
    apply py_safe_bind; [apply get_idx_safe; lia|]. intros [i t2] _.
    apply py_safe_bind; [apply get_idx_safe; now apply nonmembers_nonempty|]. intros [j t3] Ej.
    apply get_idx_ok in Ej. destruct Ej as [Lj _].
    destruct (nth_res_lt _ j Lj) as [x ->]. exact I.
  Qed.

  (* Replace: duplicate-free, of the declared size, drawn from the declared elements *)
  Theorem replace_valid p ts fresh s t c f t' :
    Forall wf_type ts -> valid_sol ts s -> replace E P eqb p ts fresh s t = Ok (c, f, t') ->
    valid_sol ts c /\ copied_from c s /\ sid c = fresh /\ f = S fresh.
  Proof. intros. eapply mutation_of_valid; eauto using replace_step_valid. Qed.

  Theorem replace_safe p ts fresh s t :
    Forall wf_type ts -> valid_sol ts s -> py_safe (replace E P eqb p ts fresh s t).
  Proof. intros. apply mutation_of_safe; auto using replace_step_safe. Qed.

  (* ================================================================ SSX *)
  Lemma ssx_loop_spec s1 s2 : forall size l1 l2 t r1 r2 t',
    ssx_loop E eqb s1 s2 size l1 l2 t = Ok (r1, r2, t') ->
    length r1 = length l1 /\ length r2 = length l2 /\
    (forall x, In x r1 -> In x l1 \/ (In x l2 /\ ~ In x s1)) /\
    (forall x, In x r2 -> In x l2 \/ (In x l1 /\ ~ In x s2)) /\
    (incl l1 s1 -> NoDup l1 -> NoDup l2 -> NoDup r1) /\
    (incl l2 s2 -> NoDup l1 -> NoDup l2 -> NoDup r2).
  Proof.
    induction size as [|k IH]; intros l1 l2 t r1 r2 t' H; simpl in H.
    - inversion H; subst. repeat split; auto.
    - destruct l1 as [|a q1]; [discriminate|]. destruct l2 as [|b q2]; [discriminate|].
      destruct (negb (mem b s1) && negb (mem a s2)) eqn:Ec.
      + apply andb_true_iff in Ec. destruct Ec as [Eb Ea].
        rewrite negb_true_iff, mem_false in Eb, Ea.
        destruct (get_unif t) as [[u t0]|]; simpl in H; [|discriminate].
        destruct (ssx_loop E eqb s1 s2 k q1 q2 t0) as [[[x1 x2] t2]|] eqn:El; simpl in H; [|discriminate].
        destruct (IH _ _ _ _ _ _ El) as (L1 & L2 & I1 & I2 & N1 & N2).
        inversion H; subst; clear H. simpl.
        split; [congruence|]. split; [congruence|].
        destruct (xltb u half).
        * split; [|split; [|split]].
          -- intros x [<-|Hx]; [right; split; auto; now left|].
             destruct (I1 _ Hx) as [?|[? ?]]; [left; now right|right; split; auto; now right].
          -- intros x [<-|Hx]; [right; split; auto; now left|].
             destruct (I2 _ Hx) as [?|[? ?]]; [left; now right|right; split; auto; now right].
          -- intros Inc ND1 ND2. inversion ND1; inversion ND2; subst.
             constructor; [|apply N1; auto; intros z Hz; apply Inc; now right].
             intro C. destruct (I1 _ C) as [C1|[C1 _]]; [|contradiction].
             apply Eb, Inc. now right.
          -- intros Inc ND1 ND2. inversion ND1; inversion ND2; subst.
             constructor; [|apply N2; auto; intros z Hz; apply Inc; now right].
             intro C. destruct (I2 _ C) as [C1|[C1 _]]; [|contradiction].
             apply Ea, Inc. now right.
        * split; [|split; [|split]].
          -- intros x [<-|Hx]; [left; now left|].
             destruct (I1 _ Hx) as [?|[? ?]]; [left; now right|right; split; auto; now right].
          -- intros x [<-|Hx]; [left; now left|].
             destruct (I2 _ Hx) as [?|[? ?]]; [left; now right|right; split; auto; now right].
          -- intros Inc ND1 ND2. inversion ND1; inversion ND2; subst.
             constructor; [|apply N1; auto; intros z Hz; apply Inc; now right].
             intro C. destruct (I1 _ C) as [C1|[_ C1]]; [contradiction|].
             apply C1, Inc. now left.
          -- intros Inc ND1 ND2. inversion ND1; inversion ND2; subst.
             constructor; [|apply N2; auto; intros z Hz; apply Inc; now right].
             intro C. destruct (I2 _ C) as [C1|[_ C1]]; [contradiction|].
             apply C1, Inc. now left.
      + simpl in H.
        destruct (ssx_loop E eqb s1 s2 k q1 q2 t) as [[[x1 x2] t2]|] eqn:El; simpl in H; [|discriminate].
        destruct (IH _ _ _ _ _ _ El) as (L1 & L2 & I1 & I2 & N1 & N2).
        inversion H; subst; clear H. simpl.
        split; [congruence|]. split; [congruence|].
        split; [|split; [|split]].
        * intros x [<-|Hx]; [left; now left|].
          destruct (I1 _ Hx) as [?|[? ?]]; [left; now right|right; split; auto; now right].
        * intros x [<-|Hx]; [left; now left|].
          destruct (I2 _ Hx) as [?|[? ?]]; [left; now right|right; split; auto; now right].
        * intros Inc ND1 ND2. inversion ND1; inversion ND2; subst.
          constructor; [|apply N1; auto; intros z Hz; apply Inc; now right].
          intro C. destruct (I1 _ C) as [C1|[_ C1]]; [contradiction|].
          apply C1, Inc. now left.
        * intros Inc ND1 ND2. inversion ND1; inversion ND2; subst.
          constructor; [|apply N2; auto; intros z Hz; apply Inc; now right].
          intro C. destruct (I2 _ C) as [C1|[_ C1]]; [contradiction|].
          apply C1, Inc. now left.
  Qed.

  Lemma ssx_loop_safe s1 s2 : forall size l1 l2 t, (size <= length l1)%nat -> (size <= length l2)%nat ->
    py_safe (ssx_loop E eqb s1 s2 size l1 l2 t).
  Proof.
    induction size as [|k IH]; intros l1 l2 t L1 L2; simpl; [exact I|].
    destruct l1 as [|a q1]; simpl in L1; [lia|]. destruct l2 as [|b q2]; simpl in L2; [lia|].
    apply py_safe_bind.
    - destruct (negb (mem b s1) && negb (mem a s2)); [|exact I].
      apply py_safe_bind; [apply get_unif_safe|]. intros [u t0] _. exact I.
    - intros [sw t1] _. apply py_safe_bind; [apply IH; lia|]. intros [[x1 x2] t2] _. exact I.
  Qed.

  Lemma ssx_step_valid p : xstep_valid (ssx_step E eqb p).
  Proof.
    intros ty a b t a' b' t1 W Va Vb H. destruct ty as [| | |els k]; simpl in H; try (inversion H; fail).
    destruct (get_unif t) as [[u t0]|]; simpl in H; [|discriminate].
    destruct (xleb u p); [|inversion H].
    destruct a as [| | |sa]; simpl in Va; try contradiction.
    destruct b as [| | |sb]; simpl in Vb; try contradiction.
    destruct Va as (NDa & La & Ia). destruct Vb as (NDb & Lb & Ib).
    destruct (ssx_loop E eqb sa sb k sa sb t0) as [[[x1 x2] t2]|] eqn:El; simpl in H; [|discriminate].
    inversion H; subst; clear H.
    destruct (ssx_loop_spec _ _ _ _ _ _ _ _ _ El) as (L1 & L2 & I1 & I2 & N1 & N2).
    simpl. split; (split; [|split]).
    - apply N1; auto. apply incl_refl.
    - congruence.
    - intros z Hz. destruct (I1 _ Hz) as [?|[? _]]; auto.
    - apply N2; auto. apply incl_refl.
    - congruence.
    - intros z Hz. destruct (I2 _ Hz) as [?|[? _]]; auto.
  Qed.

  Lemma ssx_step_safe p : xstep_safe (ssx_step E eqb p).
  Proof.
    intros ty a b t W Va Vb. destruct ty as [| | |els k]; simpl; try exact I.
    apply py_safe_bind; [apply get_unif_safe|]. intros [u t0] _.
    destruct (xleb u p); [|exact I].
    destruct a as [| | |sa]; simpl in Va; try contradiction.
    destruct b as [| | |sb]; simpl in Vb; try contradiction.
    destruct Va as (NDa & La & Ia). destruct Vb as (NDb & Lb & Ib).
    apply py_safe_bind; [apply ssx_loop_safe; lia|]. intros [[x1 x2] t2] _. exact I.
  Qed.

  (* SSX: both offspring subsets are duplicate-free, of the declared size, within the declared elements *)
  Theorem ssx_valid pr ts fresh p1 p2 t cs f t' :
    Forall wf_type ts -> valid_sol ts p1 -> valid_sol ts p2 ->
    ssx E P eqb pr ts fresh [p1; p2] t = Ok (cs, f, t') -> two_children_ok ts fresh p1 p2 cs f.
  Proof. intros. eapply crossover_of_valid; eauto using ssx_step_valid. Qed.

  Theorem ssx_safe pr ts fresh p1 p2 t :
    Forall wf_type ts -> valid_sol ts p1 -> valid_sol ts p2 -> py_safe (ssx E P eqb pr ts fresh [p1; p2] t).
  Proof. intros. apply crossover_of_safe; auto using ssx_step_safe. Qed.

  (* ================================================================ combinators
     generic over member operators that satisfy the same contract *)
  Definition flag_ok (ps cs : list sol) : Prop :=
    forall c, In c cs -> exists p, In p ps /\ copied_from c p.

  Lemma copied_from_refl p : copied_from p p.
  Proof. split; auto. intros _. repeat split. Qed.

  Lemma copied_from_trans c m p : copied_from c m -> copied_from m p -> copied_from c p.
  Proof.
    intros [P1 F1] [P2 F2]. split; [congruence|]. intro Ev.
    destruct (F1 Ev) as (A & B & C). assert (Em : evaluated m = true) by congruence.
    destruct (F2 Em) as (A' & B' & C'). repeat split; congruence.
  Qed.

  Lemma flag_ok_trans ps ms cs : flag_ok ps ms -> flag_ok ms cs -> flag_ok ps cs.
  Proof.
    intros F1 F2 c Hc. destruct (F2 c Hc) as (m & Hm & Cm). destruct (F1 m Hm) as (p & Hp & Cp).
    exists p. split; auto. eapply copied_from_trans; eauto.
  Qed.

  Section Contract.
    Variable valid : sol -> Prop.

    (* the contract of a variator of arity k and of a mutation *)
    Definition op_ok (k : nat) (op : operator E P) : Prop :=
      forall fresh ps t cs f t', length ps = k -> Forall valid ps -> op fresh ps t = Ok (cs, f, t') ->
        Forall valid cs /\ flag_ok ps cs.
    Definition mut_ok (m : mutation E P) : Prop :=
      forall fresh p t c f t', valid p -> m fresh p t = Ok (c, f, t') -> valid c /\ copied_from c p.

    Lemma map_mutate_ok m : mut_ok m ->
      forall ps fresh t cs f t', Forall valid ps -> map_mutate E P m fresh ps t = Ok (cs, f, t') ->
      Forall valid cs /\ flag_ok ps cs /\ length cs = length ps.
    Proof.
      intros M. induction ps as [|p r IH]; intros fresh t cs f t' V H; simpl in H.
      - inversion H; subst. repeat split; auto. intros c [].
      - inversion V as [|? ? Vp Vps]; subst.
        destruct (m fresh p t) as [[[c f1] t1]|] eqn:Em; simpl in H; [|discriminate].
        destruct (map_mutate E P m f1 r t1) as [[[cs' f2] t2]|] eqn:Er; simpl in H; [|discriminate].
        inversion H; subst; clear H.
        destruct (M _ _ _ _ _ _ Vp Em) as [Vc Cc]. destruct (IH _ _ _ _ _ Vps Er) as (Vr & Fr & Lr).
        split; [constructor; auto|]. split; [|simpl; congruence].
        intros x [<-|Hx]; [exists p; split; auto; now left|].
        destruct (Fr x Hx) as (q & Hq & Cq). exists q. split; auto. now right.
    Qed.

    (* Mutation.evolve on a list *)
    Theorem mutation_member_ok m k : mut_ok m -> op_ok k (map_mutate E P m).
    Proof. intros M fresh ps t cs f t' _ V H. destruct (map_mutate_ok m M _ _ _ _ _ _ V H) as (A & B & _). auto. Qed.

    Theorem ga_operator_ok k variation m : op_ok k variation -> mut_ok m -> op_ok k (ga_operator E P variation m).
    Proof.
      intros OV M fresh ps t cs f t' L V H. unfold ga_operator in H.
      destruct (variation fresh ps t) as [[[ms f1] t1]|] eqn:Ev; simpl in H; [|discriminate].
      destruct (OV _ _ _ _ _ _ L V Ev) as [Vm Fm].
      destruct (map_mutate_ok m M _ _ _ _ _ _ Vm H) as (Vc & Fc & _).
      split; auto. eapply flag_ok_trans; eauto.
    Qed.

    Theorem compound_mutation_ok ms : Forall mut_ok ms -> mut_ok (compound_mutation E P ms).
    Proof.
      induction ms as [|m r IH]; intros FM fresh p t c f t' V H; simpl in H.
      - inversion H; subst. split; auto using copied_from_refl.
      - inversion FM as [|? ? Mm Mr]; subst.
        destruct (m fresh p t) as [[[c1 f1] t1]|] eqn:Em; simpl in H; [|discriminate].
        destruct (Mm _ _ _ _ _ _ V Em) as [V1 C1].
        destruct (IH Mr _ _ _ _ _ _ V1 H) as [V2 C2]. split; auto. eapply copied_from_trans; eauto.
    Qed.

    Lemma map_each_ok op : op_ok 1 op ->
      forall ps fresh t cs f t', Forall valid ps -> map_each E P op fresh ps t = Ok (cs, f, t') ->
      Forall valid cs /\ flag_ok ps cs.
    Proof.
      intros O. induction ps as [|p r IH]; intros fresh t cs f t' V H; simpl in H.
      - inversion H; subst. split; auto. intros c [].
      - inversion V as [|? ? Vp Vps]; subst.
        destruct (op fresh [p] t) as [[[c f1] t1]|] eqn:Eo; simpl in H; [|discriminate].
        destruct (map_each E P op f1 r t1) as [[[cs' f2] t2]|] eqn:Er; simpl in H; [|discriminate].
        inversion H; subst; clear H.
        destruct (O fresh [p] _ _ _ _ eq_refl (Forall_cons _ Vp (Forall_nil _)) Eo) as [Vc Fc].
        destruct (IH _ _ _ _ _ Vps Er) as [Vr Fr].
        split; [apply Forall_app; auto|].
        intros x Hx. apply in_app_or in Hx. destruct Hx as [Hx|Hx].
        + destruct (Fc x Hx) as (q & [Eq|[]] & Cq). subst q. exists p. split; auto. now left.
        + destruct (Fr x Hx) as (q & Hq & Cq). exists q. split; auto. now right.
    Qed.

    Lemma flag_ok_refl ps : flag_ok ps ps.
    Proof. intros c Hc. exists c. split; auto using copied_from_refl. Qed.

    (* CompoundOperator with its arity-matching rules: valid in -> valid out, flags, for any
       number of incoming parents (an arity mismatch is the explicit error EArity) *)
    Theorem compound_operator_ok vs : Forall (fun v => op_ok (m_arity v) (m_evolve v)) vs ->
      forall fresh ps t cs f t', Forall valid ps -> compound_operator E P vs fresh ps t = Ok (cs, f, t') ->
      Forall valid cs /\ flag_ok ps cs.
    Proof.
      induction vs as [|v r IH]; intros FV fresh ps t cs f t' V H; cbn [compound_operator] in H.
      - inversion H; subst. split; auto using flag_ok_refl.
      - inversion FV as [|? ? H1 H2]; subst.
        destruct (Nat.eqb (m_arity v) (length ps)) eqn:Ea.
        + apply Nat.eqb_eq in Ea.
          destruct (m_evolve v fresh ps t) as [[[o f1] t1]|] eqn:Eo; cbn [bind] in H; [|discriminate].
          destruct (H1 _ _ _ _ _ _ (eq_sym Ea) V Eo) as [Vo Fo].
          destruct (IH H2 _ _ _ _ _ _ Vo H) as [Vc Fc]. split; auto. eapply flag_ok_trans; eauto.
        + destruct (Nat.eqb (m_arity v) 1 && Nat.leb 1 (length ps)) eqn:Eb; [|discriminate].
          apply andb_true_iff in Eb. destruct Eb as [Eb _]. apply Nat.eqb_eq in Eb.
          destruct (map_each E P (m_evolve v) fresh ps t) as [[[o f1] t1]|] eqn:Eo; cbn [bind] in H; [|discriminate].
          rewrite Eb in H1.
          destruct (map_each_ok _ H1 _ _ _ _ _ _ V Eo) as [Vo Fo].
          destruct (IH H2 _ _ _ _ _ _ Vo H) as [Vc Fc]. split; auto. eapply flag_ok_trans; eauto.
    Qed.

    (* Multimethod: the selected member's guarantees; the next selection is a valid index *)
    Theorem multimethod_ok vs next : Forall (fun v => op_ok (m_arity v) (m_evolve v)) vs ->
      forall fresh ps t cs nx f t' v, nth_error vs next = Some v -> length ps = m_arity v -> Forall valid ps ->
      multimethod E P vs next fresh ps t = Ok (cs, nx, f, t') ->
      Forall valid cs /\ flag_ok ps cs /\ (nx < length vs)%nat.
    Proof.
      intros FV fresh ps t cs nx f t' v Hv L V H. unfold multimethod in H.
      unfold nth_res in H. rewrite Hv in H. simpl in H.
      destruct (m_evolve v fresh ps t) as [[[o f1] t1]|] eqn:Eo; simpl in H; [|discriminate].
      destruct (get_idx (length vs) t1) as [[n2 t2]|] eqn:Eg; simpl in H; [|discriminate].
      inversion H; subst; clear H. apply get_idx_ok in Eg. destruct Eg as [Ln _].
      rewrite Forall_forall in FV. apply nth_error_In in Hv.
      destruct (FV v Hv _ _ _ _ _ _ L V Eo) as [A B]. auto.
    Qed.
  End Contract.

  (* the shipped discrete operators satisfy the contract (valid := valid for the declared types) *)
  Lemma mutation_of_mut_ok step ts : step_valid step -> Forall wf_type ts ->
    mut_ok (valid_sol ts) (mutation_of E P step ts).
  Proof. intros SV WF fresh p t c f t' V H. destruct (mutation_of_valid step ts SV _ _ _ _ _ _ WF V H) as (A & B & _). auto. Qed.

  Lemma two_children_contract ts fresh p1 p2 cs f :
    two_children_ok ts fresh p1 p2 cs f -> Forall (valid_sol ts) cs /\ flag_ok [p1; p2] cs.
  Proof.
    intros (c1 & c2 & -> & V1 & V2 & C1 & C2 & _). split; [repeat constructor; auto|].
    intros c [<-|[<-|[]]]; [exists p1|exists p2]; split; simpl; auto.
  Qed.

  Lemma crossover_of_op_ok step ts : xstep_valid step -> Forall wf_type ts ->
    op_ok (valid_sol ts) 2 (crossover_of E P step ts).
  Proof.
    intros SV WF fresh ps t cs f t' L V H.
    destruct ps as [|p1 [|p2 [|? ?]]]; simpl in L; try discriminate.
    inversion V as [|? ? V1 Vr]; subst. inversion Vr as [|? ? V2 _]; subst.
    apply two_children_contract with (fresh := fresh) (f := f). eapply crossover_of_valid; eauto.
  Qed.

  Lemma guarded_crossover_of_op_ok pr step ts : xstep_valid step -> Forall wf_type ts ->
    op_ok (valid_sol ts) 2 (guarded_crossover_of E P pr step ts).
  Proof.
    intros SV WF fresh ps t cs f t' L V H.
    destruct ps as [|p1 [|p2 [|? ?]]]; simpl in L; try discriminate.
    inversion V as [|? ? V1 Vr]; subst. inversion Vr as [|? ? V2 _]; subst.
    apply two_children_contract with (fresh := fresh) (f := f). eapply guarded_crossover_of_valid; eauto.
  Qed.

  (* ================================================================ symmetry
     exchanging the parents under the same tape exchanges the offspring (so the multiset of
     offspring values is the same) — HUX, SSX, PMX, for problems of any size *)
  Definition oswap (o : option (var * var)) : option (var * var) :=
    match o with Some (a, b) => Some (b, a) | None => None end.

  Definition xstep_sym (step : xstep E) : Prop :=
    forall ty a b t o t1, wf_type ty -> valid_var ty a -> valid_var ty b ->
      step ty a b t = Ok (o, t1) -> step ty b a t = Ok (oswap o, t1).

  Lemma cross_loop_sym step ts : xstep_sym step ->
    forall v1 v2 t r1 r2 w t', Forall wf_type ts -> valid_vars ts v1 -> valid_vars ts v2 ->
    cross_loop E step ts v1 v2 t = Ok (r1, r2, w, t') ->
    cross_loop E step ts v2 v1 t = Ok (r2, r1, w, t').
  Proof.
    intros SS. induction ts as [|ty ts IH]; intros v1 v2 t r1 r2 w t' WF V1 V2 H.
    - simpl in H. inversion V1; inversion V2; subst. inversion H; subst. reflexivity.
    - inversion V1 as [|? a ? ar Ha Har]; subst. inversion V2 as [|? b ? br Hb Hbr]; subst.
      inversion WF as [|? ? Wty Wts]; subst. simpl in H. simpl.
      destruct (step ty a b t) as [[o t1]|] eqn:Es; simpl in H; [|discriminate].
      rewrite (SS _ _ _ _ _ _ Wty Ha Hb Es). simpl.
      destruct (cross_loop E step ts ar br t1) as [[[[s1 s2] w2] t2]|] eqn:El; simpl in H; [|discriminate].
      rewrite (IH _ _ _ _ _ _ _ Wts Har Hbr El). simpl.
      inversion H; subst. destruct o as [[a' b']|]; reflexivity.
  Qed.

  Definition exchanged (cs ds : list sol) : Prop :=
    exists c1 c2 d1 d2, cs = [c1; c2] /\ ds = [d1; d2] /\
      vars d1 = vars c2 /\ vars d2 = vars c1 /\ evaluated d1 = evaluated c2 /\ evaluated d2 = evaluated c1.

  Theorem crossover_of_sym step ts : xstep_sym step ->
    forall fresh p1 p2 t cs f t', Forall wf_type ts -> valid_sol ts p1 -> valid_sol ts p2 ->
    crossover_of E P step ts fresh [p1; p2] t = Ok (cs, f, t') ->
    exists ds, crossover_of E P step ts fresh [p2; p1] t = Ok (ds, f, t') /\ exchanged cs ds.
  Proof.
    intros SS fresh p1 p2 t cs f t' WF V1 V2 H. unfold crossover_of in *. simpl in *.
    destruct (cross_loop E step ts (vars p1) (vars p2) t) as [[[[r1 r2] w] t1]|] eqn:El; simpl in H; [|discriminate].
    rewrite (cross_loop_sym step ts SS _ _ _ _ _ _ _ WF V1 V2 El). simpl.
    inversion H; subst. eexists. split; [reflexivity|].
    eexists _, _, _, _. repeat split; reflexivity.
  Qed.

  Theorem guarded_crossover_of_sym pr step ts : xstep_sym step ->
    forall fresh p1 p2 t cs f t', Forall wf_type ts -> valid_sol ts p1 -> valid_sol ts p2 ->
    guarded_crossover_of E P pr step ts fresh [p1; p2] t = Ok (cs, f, t') ->
    exists ds, guarded_crossover_of E P pr step ts fresh [p2; p1] t = Ok (ds, f, t') /\ exchanged cs ds.
  Proof.
    intros SS fresh p1 p2 t cs f t' WF V1 V2 H. unfold guarded_crossover_of in *. simpl in *.
    destruct (get_unif t) as [[u t0]|]; simpl in *; [|discriminate].
    destruct (xleb u pr).
    - destruct (cross_loop E step ts (vars p1) (vars p2) t0) as [[[[r1 r2] w] t1]|] eqn:El; simpl in H; [|discriminate].
      rewrite (cross_loop_sym step ts SS _ _ _ _ _ _ _ WF V1 V2 El). simpl.
      inversion H; subst. eexists. split; [reflexivity|].
      eexists _, _, _, _. repeat split; reflexivity.
    - inversion H; subst. eexists. split; [reflexivity|].
      eexists _, _, _, _. repeat split; reflexivity.
  Qed.

  (* exchanged offspring = the same multiset of offspring values *)
  Lemma exchanged_multiset cs ds : exchanged cs ds -> Permutation (map vars cs) (map vars ds).
  Proof.
    intros (c1 & c2 & d1 & d2 & -> & -> & A & B & _). simpl. rewrite A, B. apply perm_swap.
  Qed.

  (* ---- HUX *)
  Lemma hux_bits_sym : forall n b1 b2 t r1 r2 w t',
    hux_bits n b1 b2 t = Ok (r1, r2, w, t') -> hux_bits n b2 b1 t = Ok (r2, r1, w, t').
  Proof.
    induction n as [|n IH]; intros b1 b2 t r1 r2 w t' H; simpl in *.
    - now inversion H.
    - destruct b1 as [|x s1]; [discriminate|]. destruct b2 as [|y s2]; [discriminate|].
      replace (Bool.eqb y x) with (Bool.eqb x y) by (destruct x, y; reflexivity).
      destruct (negb (Bool.eqb x y)).
      + destruct (get_bit t) as [[c t1]|]; simpl in *; [|discriminate].
        destruct (hux_bits n s1 s2 t1) as [[[[q1 q2] w'] t2]|] eqn:El; simpl in H; [|discriminate].
        rewrite (IH _ _ _ _ _ _ _ El). simpl. destruct c; now inversion H.
      + destruct (hux_bits n s1 s2 t) as [[[[q1 q2] w'] t2]|] eqn:El; simpl in H; [|discriminate].
        rewrite (IH _ _ _ _ _ _ _ El). simpl. now inversion H.
  Qed.

  Lemma hux_step_sym : xstep_sym (hux_step E).
  Proof.
    intros ty a b t o t1 W Va Vb H. destruct ty; simpl in *; try (inversion H; subst; reflexivity).
    destruct a as [|b1| |]; simpl in Va; try contradiction.
    destruct b as [|b2| |]; simpl in Vb; try contradiction.
    destruct (hux_bits nbits b1 b2 t) as [[[[r1 r2] w] t2]|] eqn:Eb; simpl in H; [|discriminate].
    rewrite (hux_bits_sym _ _ _ _ _ _ _ _ Eb). simpl. inversion H; subst. destruct w; reflexivity.
  Qed.

  Theorem hux_symmetric pr ts fresh p1 p2 t cs f t' :
    Forall wf_type ts -> valid_sol ts p1 -> valid_sol ts p2 ->
    hux E P pr ts fresh [p1; p2] t = Ok (cs, f, t') ->
    exists ds, hux E P pr ts fresh [p2; p1] t = Ok (ds, f, t') /\ exchanged cs ds.
  Proof. intros. eapply guarded_crossover_of_sym; eauto using hux_step_sym. Qed.

  (* ---- SSX *)
  Lemma ssx_loop_sym s1 s2 : forall size l1 l2 t r1 r2 t',
    ssx_loop E eqb s1 s2 size l1 l2 t = Ok (r1, r2, t') ->
    ssx_loop E eqb s2 s1 size l2 l1 t = Ok (r2, r1, t').
  Proof.
    induction size as [|k IH]; intros l1 l2 t r1 r2 t' H; simpl in *.
    - now inversion H.
    - destruct l1 as [|a q1]; [discriminate|]. destruct l2 as [|b q2]; [discriminate|].
      rewrite (andb_comm (negb (mem a s2))).
      destruct (negb (mem b s1) && negb (mem a s2)).
      + destruct (get_unif t) as [[u t0]|]; simpl in *; [|discriminate].
        destruct (ssx_loop E eqb s1 s2 k q1 q2 t0) as [[[x1 x2] t2]|] eqn:El; simpl in H; [|discriminate].
        rewrite (IH _ _ _ _ _ _ El). simpl. inversion H; subst. destruct (xltb u half); reflexivity.
      + simpl in *.
        destruct (ssx_loop E eqb s1 s2 k q1 q2 t) as [[[x1 x2] t2]|] eqn:El; simpl in H; [|discriminate].
        rewrite (IH _ _ _ _ _ _ El). simpl. now inversion H.
  Qed.

  Lemma ssx_step_sym p : xstep_sym (ssx_step E eqb p).
  Proof.
    intros ty a b t o t1 W Va Vb H. destruct ty as [| | |els k]; simpl in *; try (inversion H; subst; reflexivity).
    destruct (get_unif t) as [[u t0]|]; simpl in *; [|discriminate].
    destruct (xleb u p); [|inversion H; subst; reflexivity].
    destruct a as [| | |sa]; simpl in Va; try contradiction.
    destruct b as [| | |sb]; simpl in Vb; try contradiction.
    destruct (ssx_loop E eqb sa sb k sa sb t0) as [[[x1 x2] t2]|] eqn:El; simpl in H; [|discriminate].
    rewrite (ssx_loop_sym _ _ _ _ _ _ _ _ _ El). simpl. now inversion H.
  Qed.

  Theorem ssx_symmetric pr ts fresh p1 p2 t cs f t' :
    Forall wf_type ts -> valid_sol ts p1 -> valid_sol ts p2 ->
    ssx E P eqb pr ts fresh [p1; p2] t = Ok (cs, f, t') ->
    exists ds, ssx E P eqb pr ts fresh [p2; p1] t = Ok (ds, f, t') /\ exchanged cs ds.
  Proof. intros. eapply crossover_of_sym; eauto using ssx_step_sym. Qed.

  (* ---- PMX *)
  Lemma pmx_maps_sym p1 p2 : forall cnt i r1 r2 m1 m2,
    pmx_maps E p1 p2 i cnt r1 r2 = Ok (m1, m2) -> pmx_maps E p2 p1 i cnt r2 r1 = Ok (m2, m1).
  Proof.
    induction cnt as [|c IH]; intros i r1 r2 m1 m2 H; simpl in *.
    - now inversion H.
    - destruct (nth_res p1 i) as [a|]; simpl in *; [|discriminate].
      destruct (nth_res p2 i) as [b|]; simpl in *; [|discriminate]. now apply IH.
  Qed.

  Lemma pmx_fill_sym p1 p2 cp1 cp2 n r1 r2 : forall cnt i o1 o2,
    pmx_fill E eqb p1 p2 cp1 cp2 n r1 r2 i cnt = Ok (o1, o2) ->
    pmx_fill E eqb p2 p1 cp1 cp2 n r2 r1 i cnt = Ok (o2, o1).
  Proof.
    induction cnt as [|c IH]; intros i o1 o2 H; cbn [pmx_fill] in *.
    - now inversion H.
    - destruct (nth_res p1 i) as [a|]; cbn [bind] in *; [|discriminate].
      destruct (nth_res p2 i) as [b|]; cbn [bind] in *; [|discriminate].
      destruct (Nat.ltb i cp1 || Nat.ltb cp2 i).
      + destruct (chase E eqb (S n) r1 a) as [n1|] eqn:E1; cbn [bind] in *; [|discriminate].
        destruct (chase E eqb (S n) r2 b) as [n2|] eqn:E2; cbn [bind] in *; [|discriminate].
        destruct (pmx_fill E eqb p1 p2 cp1 cp2 n r1 r2 (S i) c) as [[x1 x2]|] eqn:Ef; cbn [bind] in *; [|discriminate].
        rewrite (IH _ _ _ Ef). cbn [bind]. now inversion H.
      + cbn [bind] in *.
        destruct (pmx_fill E eqb p1 p2 cp1 cp2 n r1 r2 (S i) c) as [[x1 x2]|] eqn:Ef; cbn [bind] in *; [|discriminate].
        rewrite (IH _ _ _ Ef). cbn [bind]. now inversion H.
  Qed.

  Lemma pmx_lists_sym p1 p2 t o1 o2 t' : length p1 = length p2 ->
    pmx_lists E eqb p1 p2 t = Ok (o1, o2, t') -> pmx_lists E eqb p2 p1 t = Ok (o2, o1, t').
  Proof.
    intros L H. unfold pmx_lists, pmx_cut in *. rewrite <- L.
    destruct (draw_two (length p1) t) as [[[c1 c2] t1]|]; cbn [bind] in *; [|discriminate].
    set (cp1 := if Nat.ltb c2 c1 then c2 else c1) in *. set (cp2 := if Nat.ltb c2 c1 then c1 else c2) in *.
    destruct (pmx_maps E p1 p2 cp1 (S cp2 - cp1) [] []) as [[m1 m2]|] eqn:Em; cbn [bind] in *; [|discriminate].
    rewrite (pmx_maps_sym _ _ _ _ _ _ _ _ Em). cbn [bind].
    destruct (pmx_fill E eqb p1 p2 cp1 cp2 (length p1) m1 m2 0 (length p1)) as [[x1 x2]|] eqn:Ef; cbn [bind] in *; [|discriminate].
    rewrite (pmx_fill_sym _ _ _ _ _ _ _ _ _ _ _ Ef). cbn [bind]. now inversion H.
  Qed.

  Lemma pmx_step_sym p : xstep_sym (pmx_step E eqb p).
  Proof.
    intros ty a b t o t1 W Va Vb H. destruct ty as [| |els|]; simpl in *; try (inversion H; subst; reflexivity).
    destruct (get_unif t) as [[u t0]|]; simpl in *; [|discriminate].
    destruct (xleb u p); [|inversion H; subst; reflexivity].
    destruct a as [| |pa|]; simpl in Va; try contradiction.
    destruct b as [| |pb|]; simpl in Vb; try contradiction.
    assert (L : length pa = length pb).
    { apply Permutation_length in Va. apply Permutation_length in Vb. congruence. }
    destruct (pmx_lists E eqb pa pb t0) as [[[x1 x2] t2]|] eqn:El; cbn [bind] in H; [|discriminate].
    rewrite (pmx_lists_sym _ _ _ _ _ _ L El). cbn [bind]. now inversion H.
  Qed.

  Theorem pmx_symmetric pr ts fresh p1 p2 t cs f t' :
    Forall wf_type ts -> valid_sol ts p1 -> valid_sol ts p2 ->
    pmx E P eqb pr ts fresh [p1; p2] t = Ok (cs, f, t') ->
    exists ds, pmx E P eqb pr ts fresh [p2; p1] t = Ok (ds, f, t') /\ exchanged cs ds.
  Proof. intros. eapply crossover_of_sym; eauto using pmx_step_sym. Qed.
End OpsProofs.
