(* Proofs/ProblemsWFGT.v — C18, part 5: range lemmas of the WFG transformation functions (each maps [0,1] into [0,1]),
   used to discharge the hypothesis of wfg_lower_partial from "z in bounds" for the translated WFG evaluate pipelines. *)
From Coq Require Import Reals List ZArith Lia Lra Bool.
Import ListNotations.
From PV Require Import Base.RList Gen.Problems Model.ProblemsRef Proofs.ProblemsProofs Proofs.ProblemsDTLZ Proofs.ProblemsWFG.
Open Scope R_scope.
Set Default Timeout 60.

(* ------------------------------------------------------------------ floor *)
Lemma floor_eq : forall r z, IZR z <= r < IZR z + 1 -> py_floor r = z.
Proof.
  intros r z [H1 H2]. unfold py_floor, Int_part.
  assert (E : (z + 1)%Z = up r). { apply tech_up; rewrite plus_IZR; simpl; lra. }
  lia.
Qed.
Lemma floor_0 : forall r, 0 <= r < 1 -> py_floor r = 0%Z.
Proof. intros r H. apply floor_eq. simpl. lra. Qed.
Lemma floor_m1 : forall r, -1 <= r < 0 -> py_floor r = (-1)%Z.
Proof. intros r H. apply floor_eq. simpl. lra. Qed.

Lemma correct_range : forall a, 0 <= a <= 1 -> 0 <= fn_correct_to_01_eval a <= 1.
Proof. intros a H. now rewrite correct_01_id. Qed.

(* ------------------------------------------------------------------ lists in [0,1] *)
Lemma in01_py_nth : forall y i, in01 y -> 0 <= py_nth y i <= 1.
Proof. intros y i H. unfold py_nth. now apply in01_nth. Qed.
Lemma in01_app : forall a b, in01 a -> in01 b -> in01 (a ++ b).
Proof. intros a b Ha Hb. unfold in01 in *. apply Forall_app. now split. Qed.
Lemma in01_single : forall v, 0 <= v <= 1 -> in01 [v].
Proof. intros v H. unfold in01. now constructor. Qed.
Lemma in01_map : forall (f : R -> R) l, (forall v, 0 <= v <= 1 -> 0 <= f v <= 1) -> in01 l -> in01 (map f l).
Proof.
  intros f l Hf Hl. unfold in01 in *. rewrite Forall_forall in *. intros t Ht. apply in_map_iff in Ht.
  destruct Ht as [v [<- Hv]]. apply Hf, Hl, Hv.
Qed.
Lemma in01_mapZ : forall (f : Z -> R) (l : list Z), (forall i, 0 <= f i <= 1) -> in01 (map f l).
Proof. intros f l Hf. unfold in01. rewrite Forall_forall. intros t Ht. apply in_map_iff in Ht. destruct Ht as [v [<- _]]. apply Hf. Qed.
Lemma in01_firstn : forall n l, in01 l -> in01 (firstn n l).
Proof. intros n l H. unfold in01 in *. rewrite Forall_forall in *. intros t Ht. apply H. rewrite <- (firstn_skipn n l). apply in_or_app. now left. Qed.
Lemma in01_skipn : forall n l, in01 l -> in01 (skipn n l).
Proof. intros n l H. unfold in01 in *. rewrite Forall_forall in *. intros t Ht. apply H. rewrite <- (firstn_skipn n l). apply in_or_app. now right. Qed.
Lemma in01_py_upto : forall l k, in01 l -> in01 (py_upto l k).
Proof. intros. now apply in01_firstn. Qed.
Lemma in01_py_from : forall l k, in01 l -> in01 (py_from l k).
Proof. intros. now apply in01_skipn. Qed.
Lemma in01_subvector : forall y a b, in01 y -> in01 (fn_subvector_eval y a b).
Proof. intros y a b H. unfold fn_subvector_eval. apply in01_mapZ. intros i. now apply in01_py_nth. Qed.

(* loops of the form  for i in range(..): t.append(g(i)) *)
Lemma fold_append : forall (g : Z -> R) (L : list Z) t0, fold_left (fun t i => app t [g i]) L t0 = t0 ++ map g L.
Proof.
  intros g L. induction L as [|h L IH]; intros t0; simpl; [now rewrite app_nil_r|].
  rewrite IH, <- app_assoc. reflexivity.
Qed.

(* ------------------------------------------------------------------ s_linear, A = 0.35 *)
Lemma s_linear_range : forall y, 0 <= y <= 1 -> 0 <= fn_s_linear_eval y (7 / 20) <= 1.
Proof.
  intros y Hy. unfold fn_s_linear_eval. apply correct_range.
  destruct (Rle_lt_dec y (7 / 20)) as [L|G].
  - rewrite floor_0 by lra. simpl IZR. rewrite Rplus_0_l. rewrite (Rabs_right (7 / 20)) by lra.
    rewrite Rabs_left1 by lra. split; [apply div_nonneg; lra|]. apply Rmult_le_reg_r with (7 / 20); [lra|]. field_simplify; lra.
  - rewrite floor_m1 by lra. replace (IZR (-1) + 7 / 20) with (- (13 / 20)) by (simpl; lra).
    rewrite Rabs_Ropp, (Rabs_right (13 / 20)) by lra. rewrite Rabs_right by lra.
    split; [apply div_nonneg; lra|]. apply Rmult_le_reg_r with (13 / 20); [lra|]. field_simplify; lra.
Qed.

Lemma div_le_1 : forall a b, 0 < b -> a <= b -> a / b <= 1.
Proof. intros a b Hb H. apply Rmult_le_reg_r with b; [assumption|]. unfold Rdiv. rewrite Rmult_assoc, Rinv_l by lra. lra. Qed.

(* ------------------------------------------------------------------ s_multi, C = 0.35, any A, any B >= 0 *)
Lemma s_multi_range : forall y A B, 0 <= y <= 1 -> 0 <= B -> 0 <= fn_s_multi_eval y A B (7 / 20) <= 1.
Proof.
  intros y A B Hy HB. unfold fn_s_multi_eval. cbv zeta. apply correct_range.
  assert (T : exists t1, Rabs (y - 7 / 20) / (2 * (IZR (py_floor (7 / 20 - y)) + 7 / 20)) = t1 /\ - (1 / 2) <= t1 <= 1 / 2).
  { destruct (Rle_lt_dec y (7 / 20)) as [L|G].
    - rewrite floor_0 by lra. simpl IZR. rewrite Rabs_left1 by lra. eexists; split; [reflexivity|].
      split; [assert (0 <= - (y - 7 / 20) / (2 * (0 + 7 / 20))) by (apply div_nonneg; lra); lra|].
      apply Rmult_le_reg_r with (2 * (0 + 7 / 20)); [lra|]. field_simplify; lra.
    - rewrite floor_m1 by lra. rewrite Rabs_right by lra. exists (- ((y - 7 / 20) / (13 / 10))). split; [simpl; field|].
      assert (0 <= (y - 7 / 20) / (13 / 10)) by (apply div_nonneg; lra).
      assert ((y - 7 / 20) / (13 / 10) <= 1 / 2). { apply Rmult_le_reg_r with (13 / 10); [lra|]. field_simplify; lra. }
      lra. }
  destruct T as [t1 [-> Ht1]].
  match goal with |- context [cos ?a] => pose proof (COS_bound a) as [C1 C2] end.
  assert (Q : 0 <= t1 ^ 2 <= 1 / 4) by nra.
  split.
  - apply div_nonneg; [|lra]. nra.
  - apply div_le_1; [lra|]. nra.
Qed.

(* ------------------------------------------------------------------ s_decept, A = 0.35, B = 0.001, C = 0.05 *)
Lemma s_decept_range : forall y, 0 <= y <= 1 -> 0 <= fn_s_decept_eval y (7 / 20) (1 / 1000) (1 / 20) <= 1.
Proof.
  intros y Hy. unfold fn_s_decept_eval. cbv zeta. apply correct_range.
  destruct (Rlt_le_dec y (349 / 1000)) as [R1|R1'].
  - rewrite (floor_m1 (y - 7 / 20 + 1 / 1000)) by lra. rewrite (floor_0 (7 / 20 + 1 / 1000 - y)) by lra.
    rewrite Rabs_left1 by lra. simpl IZR. split; field_simplify; lra.
  - destruct (Rle_lt_dec y (351 / 1000)) as [R2|R3].
    + rewrite (floor_0 (y - 7 / 20 + 1 / 1000)) by lra. rewrite (floor_0 (7 / 20 + 1 / 1000 - y)) by lra. simpl IZR.
      destruct (Rle_lt_dec y (7 / 20)).
      * rewrite Rabs_left1 by lra. split; field_simplify; lra.
      * rewrite Rabs_right by lra. split; field_simplify; lra.
    + rewrite (floor_0 (y - 7 / 20 + 1 / 1000)) by lra. rewrite (floor_m1 (7 / 20 + 1 / 1000 - y)) by lra.
      rewrite Rabs_right by lra. simpl IZR. split; field_simplify; lra.
Qed.

(* ------------------------------------------------------------------ powers of numbers in [0,1] *)
Lemma py_rpow_range : forall y e, 0 <= y <= 1 -> 0 <= e -> 0 <= py_rpow y e <= 1.
Proof.
  intros y e Hy He. unfold py_rpow. destruct (Req_EM_T y 0) as [Z|NZ].
  - destruct (Req_EM_T e 0); lra.
  - assert (Py : 0 < y) by lra. unfold Rpower. split; [apply Rlt_le, exp_pos|].
    assert (L : ln y <= 0). { destruct (Req_EM_T y 1) as [->|N1]; [rewrite ln_1; lra|]. rewrite <- ln_1. apply Rlt_le, ln_increasing; lra. }
    assert (X : e * ln y <= 0) by nra.
    destruct X as [X|X]; [|rewrite X, exp_0; lra].
    rewrite <- exp_0. apply Rlt_le, exp_increasing, X.
Qed.

(* ------------------------------------------------------------------ b_param with the WFG7-9 constants *)
Lemma b_param_range : forall y u, 0 <= y <= 1 -> 0 <= u <= 1 ->
  0 <= fn_b_param_eval y u (49 / 50 / (2499 / 50)) (1 / 50) 50 <= 1.
Proof.
  intros y u Hy Hu. unfold fn_b_param_eval. apply correct_range. apply py_rpow_range; [assumption|].
  assert (A0 : 0 < 49 / 50 / (2499 / 50) < 1) by (split; [apply Rdiv_lt_0_compat; lra|apply Rmult_lt_reg_r with (2499 / 50); [lra|field_simplify; lra]]).
  set (A := 49 / 50 / (2499 / 50)) in *.
  destruct (Rle_lt_dec u (1 / 2)) as [L|G].
  - rewrite floor_0 by lra. simpl IZR. rewrite Rplus_0_l, Rabs_right by lra. nra.
  - rewrite floor_m1 by lra. replace (IZR (-1) + A) with (- (1 - A)) by (simpl; lra). rewrite Rabs_Ropp, Rabs_right by lra. nra.
Qed.

(* ------------------------------------------------------------------ r_sum: weighted mean with non-negative weights *)
Lemma big_sum_le : forall n (f g : nat -> R), (forall i, (i < n)%nat -> f i <= g i) -> big_sum f n <= big_sum g n.
Proof.
  induction n as [|n IH]; intros f g H; cbn [big_sum]; [lra|].
  assert (f n <= g n) by (apply H; lia). assert (big_sum f n <= big_sum g n) by (apply IH; intros; apply H; lia). lra.
Qed.
Lemma r_sum_range : forall y w, in01 y -> (forall i, 0 <= py_nth w i) -> 0 <= fn_r_sum_eval y w <= 1.
Proof.
  intros y w Hy Hw. unfold fn_r_sum_eval. cbv zeta. apply correct_range.
  rewrite !(sum_list_map_zrange _ 0 (zlen y) (length y)) by (unfold zlen; lia).
  set (num := big_sum _ _). set (den := big_sum _ _).
  assert (N0 : 0 <= num). { apply big_sum_nonneg. intros i _. pose proof (Hw (0 + Z.of_nat i)%Z). pose proof (in01_py_nth y (0 + Z.of_nat i)%Z Hy). nra. }
  assert (ND : num <= den). { apply big_sum_le. intros i _. pose proof (Hw (0 + Z.of_nat i)%Z). pose proof (in01_py_nth y (0 + Z.of_nat i)%Z Hy). nra. }
  destruct (Req_EM_T den 0) as [Z|NZ].
  - rewrite Z. unfold Rdiv. rewrite Rinv_0, Rmult_0_r. lra.
  - assert (0 < den) by lra. split; [apply div_nonneg; lra|apply div_le_1; lra].
Qed.
Lemma nth_nonneg : forall (l : list R) k, Forall (fun t => 0 <= t) l -> 0 <= nth k l 0.
Proof.
  intros l k H. destruct (Nat.lt_ge_cases k (length l)) as [L|L]; [|rewrite nth_overflow by lia; lra].
  rewrite Forall_forall in H. apply H. now apply nth_In.
Qed.
Lemma ones_nonneg : forall n a b i, 0 <= py_nth (fn_subvector_eval (py_repeat 1 n) a b) i.
Proof.
  intros n a b i. unfold py_nth. apply nth_nonneg. unfold fn_subvector_eval. apply Forall_forall.
  intros t Ht. apply in_map_iff in Ht. destruct Ht as [j [<- _]]. unfold py_nth. apply nth_nonneg.
  unfold py_repeat. apply Forall_forall. intros v Hv. apply repeat_spec in Hv. subst. lra.
Qed.

(* ------------------------------------------------------------------ the scalar transformation functions raise no Python exception on [0,1] *)
Lemma b_param_exp_nonneg : forall u, 0 <= u <= 1 ->
  0 <= 1 / 50 + (50 - 1 / 50) * (49 / 50 / (2499 / 50) - (1 - 2 * u) * Rabs (IZR (py_floor (1 / 2 - u)) + 49 / 50 / (2499 / 50))).
Proof.
  intros u Hu.
  assert (A0 : 0 < 49 / 50 / (2499 / 50) < 1) by (split; [apply Rdiv_lt_0_compat; lra|apply Rmult_lt_reg_r with (2499 / 50); [lra|field_simplify; lra]]).
  set (A := 49 / 50 / (2499 / 50)) in *.
  destruct (Rle_lt_dec u (1 / 2)) as [L|G].
  - rewrite floor_0 by lra. simpl IZR. rewrite Rplus_0_l, Rabs_right by lra. nra.
  - rewrite floor_m1 by lra. replace (IZR (-1) + A) with (- (1 - A)) by (simpl; lra). rewrite Rabs_Ropp, Rabs_right by lra. nra.
Qed.
Lemma wfg_scalar_defined : forall y u, 0 <= y <= 1 -> 0 <= u <= 1 ->
  fn_s_linear_defined y (7 / 20) /\ (forall A B, 0 <= B -> fn_s_multi_defined y A B (7 / 20)) /\
  fn_s_decept_defined y (7 / 20) (1 / 1000) (1 / 20) /\ fn_b_param_defined y u (49 / 50 / (2499 / 50)) (1 / 50) 50.
Proof.
  intros y u Hy Hu. repeat split.
  - unfold fn_s_linear_defined. destruct (Rle_lt_dec y (7 / 20)).
    + rewrite floor_0 by lra. simpl IZR. rewrite Rplus_0_l, Rabs_right by lra. lra.
    + rewrite floor_m1 by lra. replace (IZR (-1) + 7 / 20) with (- (13 / 20)) by (simpl; lra). rewrite Rabs_Ropp, Rabs_right by lra. lra.
  - destruct (Rle_lt_dec y (7 / 20)); [rewrite floor_0 by lra|rewrite floor_m1 by lra]; simpl IZR; lra.
  - lra.
  - lra.
  - lra.
  - lra.
  - unfold fn_b_param_defined, rpow_ok. pose proof (b_param_exp_nonneg u Hu) as E.
    destruct Hy as [[P|Z] _]; [now left|right; split; [now symmetry|exact E]].
Qed.
