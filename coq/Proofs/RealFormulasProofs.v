(* Proofs about Model/RealFormulas.v: for valid inputs every guarded operation of the scalar
   formulas is safe — over exact rationals.

   Valid inputs: lb < ub (finite), lb <= x <= ub, distribution_index eta >= 0, draws
   0 <= u < 1 (CPython: random.uniform(0.0, 1.0) = 0.0 + 1.0*random() with random() a multiple
   of 2^-53 in [0, 1 - 2^-53]; the strict u < 1 is NEEDED by SBX: with rand = 1 and alpha = 2
   the divisor 2 - alpha*rand is zero), and the power functions map [0,1] into [0,1]
   (t ** e for 0 <= t <= 1, e >= 0).

   Float-rounding gaps (argued, and exercised by the driver's oracle, not proved):
   every range below is a chain of sign / monotonicity facts that survive correctly rounded
   + - * / :  x - lb <= ub - lb  ==>  fl(x-lb) <= fl(ub-lb) = dx  ==>  fl(fl(x-lb)/dx) <= 1 ;
   2u, 1-u, u-0.5, 1-2u are computed exactly or keep their sign; a sum/product of
   non-negative floats is non-negative;  y2 - y1 is the SAME float as the tested dx > EPSILON;
   1 + r >= 1 for r >= 0, so 0 <= beta <= 1 (beta may underflow to 0: harmless, alpha = 2);
   alpha*rand <= fl(2*(1-2^-53)) = 2 - 2^-52 < 2, so 2 - alpha*rand >= 2^-52 > 0.
   What is NOT covered: overflow of ub - lb or y1 + y2 to inf (then NaN candidates arise; clip
   maps them into the bounds — C06 clip_range) and math.pow's OverflowError, which cannot occur
   for bases in [0,1] with non-negative exponents. *)
From Coq Require Import ZArith QArith Qabs Qreduction Bool List Lia Lqa.
From PV Require Import Base.Num Base.Order Base.FVal Base.Tape Model.Operators Model.RealOps Model.RealFormulas.
Import ListNotations.
Open Scope res_scope.
Open Scope Q_scope.

Lemma qdiv_ok a b : ~ b == 0 -> exists q, qdiv a b = Ok q /\ q == a / b.
Proof.
  intro H. unfold qdiv. destruct (Qeq_bool b 0) eqn:Eb.
  - apply Qeq_bool_iff in Eb. contradiction.
  - eexists. split; [reflexivity|]. apply Qred_correct.
Qed.

Lemma nonneg_base_ok b : 0 <= b -> nonneg_base b = Ok b.
Proof.
  intro H. unfold nonneg_base. destruct (Qltb b 0) eqn:Eb; [|reflexivity].
  apply Qltb_lt in Eb. lra.
Qed.

Lemma div_range a d : 0 < d -> 0 <= a -> a <= d -> 0 <= a / d /\ a / d <= 1.
Proof.
  intros Hd Ha Had. split.
  - apply Qle_shift_div_l; lra.
  - apply Qle_shift_div_r; lra.
Qed.

Lemma EPSILON_pos' : 0 < EPSILON. Proof. reflexivity. Qed.

Section FormulaProofs.
  Variable pw : Q -> Q.
  Hypothesis pw01 : forall t, 0 <= t <= 1 -> 0 <= pw t <= 1.

  (* ---------------------------------------------------------------- PM *)
  Theorem pm_guards_safe x lb ub u eta :
    lb < ub -> lb <= x <= ub -> 0 <= u < 1 -> 0 <= eta ->
    exists g, pm_guards pw x lb ub u eta = Ok g /\
      0 < pm_dx g /\ 0 <= pm_frac g <= 1 /\ 0 <= pm_arg g <= 1 /\ 0 <= pm_b g <= 1.
  Proof.
    intros Hb Hx Hu He. unfold pm_guards, pm_fraction, pm_base_lo, pm_base_hi.
    assert (Hd : 0 < ub - lb) by lra.
    assert (Hd0 : ~ ub - lb == 0) by lra.
    assert (He0 : ~ eta + 1 == 0) by lra.
    destruct (qdiv_ok 1 (eta + 1) He0) as (ie & Eie & _).
    destruct (Qltb u (1 # 2)) eqn:Eu.
    - apply Qltb_lt in Eu.
      destruct (qdiv_ok (x - lb) (ub - lb) Hd0) as (bl & Ebl & Hbl). rewrite Ebl. cbn [bind].
      destruct (div_range (x - lb) (ub - lb) Hd) as [B0 B1]; try lra.
      assert (R : 0 <= 1 - bl <= 1) by (rewrite Hbl; lra).
      rewrite (nonneg_base_ok (1 - bl)) by lra. cbn [bind]. rewrite Eie. cbn [bind].
      pose proof (pw01 (1 - bl) R) as Hp.
      assert (Rb : 0 <= 2 * u + (1 - 2 * u) * pw (1 - bl) <= 1) by nra.
      rewrite nonneg_base_ok by lra. cbn [bind].
      eexists. split; [reflexivity|]. simpl. repeat split; try lra; rewrite Hbl; lra.
    - apply Qltb_false in Eu.
      destruct (qdiv_ok (ub - x) (ub - lb) Hd0) as (bu & Ebu & Hbu). rewrite Ebu. cbn [bind].
      destruct (div_range (ub - x) (ub - lb) Hd) as [B0 B1]; try lra.
      assert (R : 0 <= 1 - bu <= 1) by (rewrite Hbu; lra).
      rewrite (nonneg_base_ok (1 - bu)) by lra. cbn [bind]. rewrite Eie. cbn [bind].
      pose proof (pw01 (1 - bu) R) as Hp.
      assert (Rb : 0 <= 2 * (1 - u) + 2 * (u - (1 # 2)) * pw (1 - bu) <= 1) by nra.
      rewrite nonneg_base_ok by lra. cbn [bind].
      eexists. split; [reflexivity|]. simpl. repeat split; try lra; rewrite Hbu; lra.
  Qed.

  (* ---------------------------------------------------------------- SBX *)
  Theorem sbx_side_safe num dy rand eta :
    0 <= num -> 0 < dy -> 0 <= rand < 1 -> 0 <= eta ->
    exists g, sbx_side pw num dy rand eta = Ok g /\
      0 < s_beta g <= 1 /\ 1 <= s_alpha g <= 2 /\ 0 <= s_arand g < 2 /\ 0 <= s_base g /\
      (s_base g == s_arand g /\ s_arand g <= 1 \/ (s_base g == 1 / (2 - s_arand g) /\ 1 < s_arand g /\ 0 < s_base g)).
  Proof.
    intros Hn Hd Hr He. unfold sbx_side, sbx_beta, sbx_alpha, sbx_first_branch, sbx_arand, sbx_inv.
    assert (Hd0 : ~ dy == 0) by lra.
    destruct (qdiv_ok (2 * num) dy Hd0) as (r & Er & Hr0). rewrite Er. cbn [bind].
    assert (R0 : 0 <= r). { rewrite Hr0. apply Qle_shift_div_l; lra. }
    assert (H1r : ~ 1 + r == 0) by lra.
    destruct (qdiv_ok 1 (1 + r) H1r) as (beta & Eb & Hbeta). rewrite Eb. cbn [bind].
    assert (Rb : 0 < beta /\ beta <= 1).
    { rewrite Hbeta. split; [apply Qlt_shift_div_l; lra|apply Qle_shift_div_r; lra]. }
    rewrite nonneg_base_ok by lra. cbn [bind].
    pose proof (pw01 beta) as Hp. assert (Hp' : 0 <= pw beta <= 1) by (apply Hp; lra). clear Hp.
    set (alpha := 2 - pw beta) in *.
    assert (Ra : 1 <= alpha <= 2) by (unfold alpha; lra).
    assert (Ha0 : ~ alpha == 0) by lra.
    destruct (qdiv_ok 1 alpha Ha0) as (ia & Eia & Hia). rewrite Eia. cbn [bind].
    assert (He0 : ~ eta + 1 == 0) by lra.
    destruct (qdiv_ok 1 (eta + 1) He0) as (ie & Eie & _). rewrite Eie. cbn [bind].
    assert (Rar : 0 <= alpha * rand < 2) by nra.
    assert (Hk : alpha * (1 / alpha) == 1) by (field; lra).
    set (k := 1 / alpha) in *.
    destruct (Qle_bool rand ia) eqn:Ec.
    - apply Qle_bool_iff in Ec. rewrite Hia in Ec.
      assert (alpha * rand <= 1) by nra.
      rewrite nonneg_base_ok by lra. cbn [bind].
      eexists. split; [reflexivity|]. simpl. repeat split; try lra; try (left; split; [reflexivity|lra]).
    - assert (Hgt : ia < rand).
      { apply Qnot_le_lt. intro C. apply Qle_bool_iff in C. congruence. }
      rewrite Hia in Hgt.
      assert (1 < alpha * rand) by nra.
      assert (H2 : ~ 2 - alpha * rand == 0) by lra.
      destruct (qdiv_ok 1 (2 - alpha * rand) H2) as (inv & Einv & Hinv). rewrite Einv. cbn [bind].
      assert (0 < inv). { rewrite Hinv. apply Qlt_shift_div_l; lra. }
      rewrite nonneg_base_ok by lra. cbn [bind].
      eexists. split; [reflexivity|]. simpl. repeat split; try lra; try (right; split; [exact Hinv|lra]).
  Qed.

  Definition side_ok (g : side_g) : Prop :=
    0 < s_beta g <= 1 /\ 1 <= s_alpha g <= 2 /\ 0 <= s_arand g < 2 /\ 0 <= s_base g.

  (* SBX: no division by zero (y2 - y1 > EPSILON > 0; 1 + r >= 1; alpha >= 1; 2 - alpha*rand > 0
     because rand < 1) and every root base is non-negative, on both the lb and the ub side *)
  Theorem sbx_guards_safe x1 x2 lb ub rand eta :
    lb <= x1 <= ub -> lb <= x2 <= ub -> 0 <= rand < 1 -> 0 <= eta ->
    exists o, sbx_guards pw x1 x2 lb ub rand eta = Ok o /\
      match o with
      | Some (dy, s1, s2) => EPSILON < dy /\ side_ok s1 /\ side_ok s2
      | None => True
      end.
  Proof.
    intros H1 H2 Hr He. unfold sbx_guards.
    destruct (sbx_test x1 x2) eqn:Et; [|eexists; split; [reflexivity|exact I]].
    unfold sbx_test in Et. apply Qltb_lt in Et. pose proof EPSILON_pos' as Ep.
    set (y1 := if Qltb x1 x2 then x1 else x2). set (y2 := if Qltb x1 x2 then x2 else x1).
    assert (Hy : EPSILON < y2 - y1 /\ lb <= y1 /\ y2 <= ub).
    { unfold y1, y2. destruct (Qltb x1 x2) eqn:El.
      - apply Qltb_lt in El. rewrite Qabs_pos in Et by lra. lra.
      - apply Qltb_false in El. rewrite Qabs_neg in Et by lra. lra. }
    destruct Hy as (Hdy & Hl & Hu).
    destruct (sbx_side_safe (y1 - lb) (y2 - y1) rand eta) as (s1 & E1 & A1 & B1 & C1 & D1 & _); try lra.
    destruct (sbx_side_safe (ub - y2) (y2 - y1) rand eta) as (s2 & E2 & A2 & B2 & C2 & D2 & _); try lra.
    rewrite E1. cbn [bind]. rewrite E2. cbn [bind].
    eexists. split; [reflexivity|]. unfold side_ok. tauto.
  Qed.
End FormulaProofs.


(* ------------------------------------------------------------------ NonUniformMutation._delta *)
Theorem num_guards_safe (pw2 : Q -> Q) nfe swarm maxit u :
  (forall t, 0 <= t <= 1 -> 0 <= pw2 t <= 1) ->
  0 <= nfe -> 0 < swarm -> 0 < maxit -> 0 <= u < 1 ->
  exists g, num_guards pw2 nfe swarm maxit u = Ok g /\
    0 <= n_fraction g <= 1 /\ 0 <= n_base g <= 1 /\ 0 <= n_exp g <= 1.
Proof.
  intros Hp Hn Hs Hm Hu. unfold num_guards, num_fraction.
  assert (Hs0 : ~ swarm == 0) by lra. assert (Hm0 : ~ maxit == 0) by lra.
  destruct (qdiv_ok nfe swarm Hs0) as (cur & Ec & Hc). rewrite Ec. cbn [bind].
  assert (C0 : 0 <= cur). { rewrite Hc. apply Qle_shift_div_l; lra. }
  destruct (qdiv_ok cur maxit Hm0) as (f0 & Ef & Hf). rewrite Ef. cbn [bind].
  assert (F0 : 0 <= f0). { rewrite Hf. apply Qle_shift_div_l; lra. }
  set (fraction := if Qltb f0 1 then f0 else 1).
  assert (Rf : 0 <= fraction <= 1).
  { unfold fraction. destruct (Qltb f0 1) eqn:El; [apply Qltb_lt in El; lra|lra]. }
  rewrite nonneg_base_ok by lra. cbn [bind].
  assert (Rb : 0 <= 1 - fraction <= 1) by lra.
  pose proof (Hp _ Rb) as Re.
  rewrite nonneg_base_ok by lra. cbn [bind].
  destruct (Qeq_bool u 0 && Qltb (pw2 (1 - fraction)) 0) eqn:Ez.
  - apply andb_true_iff in Ez. destruct Ez as [_ Ez]. apply Qltb_lt in Ez. lra.
  - eexists. split; [reflexivity|]. simpl. repeat split; lra.
Qed.

(* ------------------------------------------------------------------ SPX exponents 1/(i+1), bases in [0,1) *)
Theorem spx_exponents_safe : forall us i, Forall (fun u => 0 <= u < 1) us ->
  exists l, spx_exponents i us = Ok l /\ length l = length us /\ Forall (fun e => 0 < e <= 1) l.
Proof.
  induction us as [|u r IH]; intros i H; simpl.
  - exists []. repeat split; constructor.
  - inversion H as [|? ? Hu Hr]; subst.
    assert (Hi : 0 <= inject_Z (Z.of_nat i)).
    { change 0 with (inject_Z 0). rewrite <- Zle_Qle. lia. }
    assert (Hi0 : ~ inject_Z (Z.of_nat i) + 1 == 0) by lra.
    destruct (qdiv_ok 1 (inject_Z (Z.of_nat i) + 1) Hi0) as (e & Ee & He). rewrite Ee. cbn [bind].
    rewrite nonneg_base_ok by lra. cbn [bind].
    destruct (IH (S i) Hr) as (l & El & Ll & Fl). rewrite El. cbn [bind].
    exists (e :: l). split; [reflexivity|]. split; [simpl; congruence|].
    constructor; auto. rewrite He. split; [apply Qlt_shift_div_l; lra|apply Qle_shift_div_r; lra].
Qed.

(* ------------------------------------------------------------------ what the guards are for (witnesses) *)
Definition pw_id (t : Q) : Q := t.                 (* eta = 0 *)
Definition pw_zero (t : Q) : Q := 0.               (* eta huge: t ** (eta+1) underflows to 0 for t < 1 *)

(* without the `dx > EPSILON` test identical parents divide by zero *)
Example sbx_unguarded_identical_parents_divide_by_zero :
  sbx_guards_unguarded pw_id (1#2) (1#2) 0 1 (1#4) 0 = Err EZeroDiv.
Proof. vm_compute. reflexivity. Qed.

Example sbx_guarded_identical_parents_ok :
  sbx_guards pw_id (1#2) (1#2) 0 1 (1#4) 0 = Ok None.
Proof. vm_compute. reflexivity. Qed.

(* rand = 1.0 (which CPython's uniform(0.0, 1.0) cannot return) with alpha = 2 makes 2 - alpha*rand zero *)
Example sbx_rand_one_divides_by_zero :
  sbx_side pw_zero (1#4) (1#2) 1 15 = Err EZeroDiv.
Proof. vm_compute. reflexivity. Qed.

(* ... and rand slightly above 1 makes the root base negative (complex result) *)
Example sbx_rand_above_one_leaves_the_reals :
  sbx_side pw_zero (1#4) (1#2) (11#10) 15 = Err EDomain.
Proof. vm_compute. reflexivity. Qed.

(* PM on the bounds, extreme draws: inside the proved ranges (non-vacuity) *)
Example pm_guards_on_bound :
  exists g, pm_guards pw_id 0 0 1 0 20 = Ok g /\ pm_b g == 1 /\ pm_arg g == 1.
Proof. eexists. split; [vm_compute; reflexivity|]. split; reflexivity. Qed.

Example pm_guards_upper :
  exists g, pm_guards pw_id 1 0 1 (3#4) 0 = Ok g /\ pm_frac g == 0 /\ pm_b g == 1.
Proof. eexists. split; [vm_compute; reflexivity|]. split; reflexivity. Qed.

(* PM with `bl - 1.0` in place of `1.0 - bl`: the power's base is negative *)
Example pm_wrong_sign_leaves_the_reals : nonneg_base ((1#4) - 1) = Err EDomain.
Proof. reflexivity. Qed.
