(* Proofs/RunLoopProofs.v — proofs about Model/RunLoop.v (C08). *)
From Coq Require Import Arith List Bool Lia.
Import ListNotations.
From PV Require Import Model.RunLoop.

(* ------------------------------------------------------------------------- *)
(* 1. The run loop                                                            *)
(* ------------------------------------------------------------------------- *)
Section RunProofs.
  Variable St : Type.
  Variable nfe calls : St -> nat.     (* counter; number of real calls of the problem function so far *)
  Variable start_run end_run pre_step post_step alg_step callback : St -> St.
  Variable Inv : St -> Prop.          (* what the algorithm's constructor establishes (sizes >= 1, ...) *)

  (* hooks (extensions, callback): keep the invariant, never decrease nfe, and whatever real calls they
     make are counted (they can only evaluate through evaluate_all) *)
  Definition tame (f : St -> St) : Prop :=
    forall s, Inv s -> Inv (f s) /\ nfe s <= nfe (f s) /\ calls (f s) + nfe s <= calls s + nfe (f s).

  (* every step of the algorithm submits at least one solution (and evaluates only through evaluate_all) *)
  Definition advances (f : St -> St) : Prop :=
    forall s, Inv s -> Inv (f s) /\ nfe s < nfe (f s) /\ calls (f s) + nfe s <= calls s + nfe (f s).

  Definition well_behaved : Prop :=
    tame start_run /\ tame end_run /\ tame pre_step /\ tame post_step /\ tame callback /\ advances alg_step.

  Hypothesis WB : well_behaved.

  Lemma H_start : tame start_run. Proof. apply WB. Qed.
  Lemma H_end : tame end_run. Proof. apply WB. Qed.
  Lemma H_pre : tame pre_step. Proof. apply WB. Qed.
  Lemma H_post : tame post_step. Proof. apply WB. Qed.
  Lemma H_cb : tame callback. Proof. apply WB. Qed.
  Lemma H_alg : advances alg_step. Proof. apply WB. Qed.

  Notation step := (step St pre_step post_step alg_step callback).
  Notation loop := (loop St nfe pre_step post_step alg_step callback).
  Notation run := (run St nfe start_run end_run pre_step post_step alg_step callback).
  Notation iter := (iter St pre_step post_step alg_step callback).

  Lemma step_spec : forall s, Inv s ->
    Inv (step s) /\ nfe s < nfe (step s) /\ calls (step s) + nfe s <= calls s + nfe (step s).
  Proof.
    intros s Hs. unfold RunLoop.step.
    destruct (H_pre s Hs) as [I1 [N1 C1]].
    destruct (H_alg _ I1) as [I2 [N2 C2]].
    destruct (H_post _ I2) as [I3 [N3 C3]].
    destruct (H_cb _ I3) as [I4 [N4 C4]].
    repeat split; [assumption | lia | lia].
  Qed.

  Lemma iter_S : forall k s, iter (S k) s = step (iter k s).
  Proof.
    induction k as [|k IH]; intros s; [reflexivity|].
    change (iter (S (S k)) s) with (iter (S k) (step s)).
    rewrite IH. reflexivity.
  Qed.

  Lemma iter_add : forall a b s, iter (a + b) s = iter b (iter a s).
  Proof. induction a as [|a IH]; intros b s; simpl; [reflexivity|apply IH]. Qed.

  Lemma iter_spec : forall k s, Inv s ->
    Inv (iter k s) /\ nfe s + k <= nfe (iter k s) /\ calls (iter k s) + nfe s <= calls s + nfe (iter k s).
  Proof.
    induction k as [|k IH]; intros s Hs.
    - simpl. repeat split; [assumption|lia|lia].
    - rewrite iter_S. destruct (IH s Hs) as [I [N C]].
      destruct (step_spec _ I) as [I' [N' C']]. repeat split; [assumption|lia|lia].
  Qed.

  (* the counter strictly increases with every step *)
  Lemma nfe_strict_mono : forall s, Inv s -> forall j j', j < j' -> nfe (iter j s) < nfe (iter j' s).
  Proof.
    intros s Hs j j' Hj. replace j' with (j + (j' - j)) by lia. rewrite iter_add.
    destruct (iter_spec j s Hs) as [I _].
    destruct (iter_spec (j' - j) _ I) as [_ [N _]]. lia.
  Qed.

  Lemma loop_spec : forall fuel start N s, Inv s -> start <= nfe s -> N <= (nfe s - start) + fuel ->
    exists k, loop fuel start N s = Some (iter k s)
              /\ k <= fuel
              /\ N <= nfe (iter k s) - start
              /\ (forall j, j < k -> nfe (iter j s) - start < N).
  Proof.
    induction fuel as [|f IH]; intros start N s Hs Hst Hf; simpl; unfold should_terminate.
    - destruct (N <=? nfe s - start) eqn:E.
      + apply Nat.leb_le in E. exists 0; simpl. repeat split; auto. intros j Hj; lia.
      + apply Nat.leb_gt in E. lia.
    - destruct (N <=? nfe s - start) eqn:E.
      + apply Nat.leb_le in E. exists 0; simpl. repeat split; auto; [lia|]. intros j Hj; lia.
      + apply Nat.leb_gt in E. destruct (step_spec s Hs) as [I [P _]].
        destruct (IH start N (step s) I) as [k [H1 [H0 [H2 H3]]]]; [lia|lia|].
        exists (S k); simpl. repeat split; auto; [lia|].
        intros j Hj. destruct j as [|j]; simpl; [assumption|apply H3; lia].
  Qed.

  (* run(N) terminates and stops at the FIRST step boundary at which the evaluations counted since
     the call reach N; the loop body ran exactly k times (callback and hooks once per step) *)
  Theorem run_stops_first : forall N s, Inv s ->
    exists k, run N s = Some (end_run (iter k (start_run s)))
              /\ k <= N
              /\ N <= nfe (iter k (start_run s)) - nfe s
              /\ (forall j, j < k -> nfe (iter j (start_run s)) - nfe s < N).
  Proof.
    intros N s Hs. unfold RunLoop.run.
    destruct (H_start s Hs) as [I [Hn _]].
    destruct (loop_spec N (nfe s) N (start_run s) I Hn) as [k [H1 [H0 [H2 H3]]]]; [lia|].
    exists k. rewrite H1. repeat split; assumption.
  Qed.

  Theorem run_terminates : forall N s, Inv s -> exists s', run N s = Some s' /\ Inv s'.
  Proof.
    intros N s Hs. destruct (run_stops_first N s Hs) as [k [H _]].
    exists (end_run (iter k (start_run s))). split; [assumption|].
    destruct (H_start s Hs) as [I _]. destruct (iter_spec k _ I) as [I' _].
    destruct (H_end _ I') as [I'' _]. assumption.
  Qed.

  (* the overshoot is smaller than the last step; with no step the budget was already met at the call *)
  Theorem run_overshoot : forall N s, Inv s ->
    exists k, run N s = Some (end_run (iter k (start_run s)))
      /\ match k with
         | 0 => N <= nfe (start_run s) - nfe s
         | S k' => (nfe (iter k (start_run s)) - nfe s) - N
                     < nfe (iter k (start_run s)) - nfe (iter k' (start_run s))
         end.
  Proof.
    intros N s Hs. destruct (run_stops_first N s Hs) as [k [H1 [_ [H2 H3]]]].
    exists k. split; [assumption|]. destruct k as [|k']; [exact H2|].
    destruct (H_start s Hs) as [I [Hn _]].
    pose proof (H3 k' (Nat.lt_succ_diag_r k')) as Hb.
    pose proof (nfe_strict_mono _ I k' (S k') (Nat.lt_succ_diag_r k')) as Hm.
    destruct (iter_spec k' _ I) as [_ [Hk _]]. lia.
  Qed.

  (* budget 0: no step, nothing evaluated by the loop *)
  Theorem run_zero : forall s, run 0 s = Some (end_run (start_run s)).
  Proof. intros s. reflexivity. Qed.

  (* the counter is never smaller than the number of real calls *)
  Theorem calls_le_nfe : forall N s s', Inv s -> run N s = Some s' ->
    calls s' + nfe s <= calls s + nfe s'.
  Proof.
    intros N s s' Hs Hr. destruct (run_stops_first N s Hs) as [k [H1 _]].
    rewrite H1 in Hr. injection Hr as <-.
    destruct (H_start s Hs) as [I [Hn Hc]].
    destruct (iter_spec k _ I) as [I' [Hn' Hc']].
    destruct (H_end _ I') as [_ [Hn'' Hc'']]. lia.
  Qed.

  Corollary calls_le_nfe_abs : forall N s s', Inv s -> calls s <= nfe s -> run N s = Some s' -> calls s' <= nfe s'.
  Proof. intros N s s' Hs H0 Hr. pose proof (calls_le_nfe N s s' Hs Hr). lia. Qed.

  (* a second run measures its budget from the state the first one left *)
  Theorem run_again : forall N1 N2 s, Inv s ->
    exists s1 k2, run N1 s = Some s1 /\ Inv s1
      /\ run N2 s1 = Some (end_run (iter k2 (start_run s1)))
      /\ N2 <= nfe (iter k2 (start_run s1)) - nfe s1
      /\ (forall j, j < k2 -> nfe (iter j (start_run s1)) - nfe s1 < N2).
  Proof.
    intros N1 N2 s Hs. destruct (run_terminates N1 s Hs) as [s1 [H1 I1]].
    destruct (run_stops_first N2 s1 I1) as [k2 [H2 [_ [H3 H4]]]].
    exists s1, k2. repeat split; assumption.
  Qed.
End RunProofs.

(* ------------------------------------------------------------------------- *)
(* 2. evaluate_all                                                            *)
(* ------------------------------------------------------------------------- *)
Lemma unevaluated_le : forall b, length (unevaluated b) <= length b.
Proof.
  intros b. unfold unevaluated. induction b as [|m b IH]; simpl; [lia|].
  destruct (negb (m_flag m)); simpl; lia.
Qed.

Lemma evaluate_all_nfe : forall b e, e_nfe (evaluate_all b e) = e_nfe e + length b.
Proof. reflexivity. Qed.

Lemma evaluate_all_calls : forall b e,
  e_calls (evaluate_all b e) = e_calls e ++ map m_sid (unevaluated b).
Proof. reflexivity. Qed.

(* the problem function is called only on members whose flag is clear, at most once each, and never
   on a member whose flag is set; afterwards every member is evaluated, so a repeated submission calls nothing *)
Theorem no_reevaluation : forall b e,
  (forall x, In x (map m_sid (unevaluated b)) -> In (x, false) b)
  /\ (NoDup (map m_sid b) -> NoDup (map m_sid (unevaluated b)))
  /\ (NoDup (map m_sid b) -> forall m, In m b -> m_flag m = true -> ~ In (m_sid m) (map m_sid (unevaluated b)))
  /\ length (e_calls (evaluate_all b e)) - length (e_calls e) <= e_nfe (evaluate_all b e) - e_nfe e
  /\ unevaluated (flags_after b) = [].
Proof.
  intros b e. repeat split.
  - intros x Hx. apply in_map_iff in Hx. destruct Hx as [[sid fl] [Hs Hin]].
    unfold unevaluated in Hin. apply filter_In in Hin. destruct Hin as [Hin Hf].
    simpl in *. subst. destruct fl; [discriminate|assumption].
  - intros Hnd. unfold unevaluated. induction b as [|m b IH]; simpl; [constructor|].
    inversion Hnd as [|? ? Hn Hnd']; subst.
    destruct (negb (m_flag m)); simpl; [|apply IH; assumption].
    constructor; [|apply IH; assumption].
    intros Hin. apply Hn. apply in_map_iff in Hin. destruct Hin as [m' [E Hin]].
    apply filter_In in Hin. destruct Hin as [Hin _]. apply in_map_iff. exists m'. split; assumption.
  - intros Hnd m Hin Hf Hc. apply in_map_iff in Hc. destruct Hc as [m' [E Hin']].
    unfold unevaluated in Hin'. apply filter_In in Hin'. destruct Hin' as [Hin' Hf'].
    assert (m' = m) as ->.
    { clear - Hnd Hin Hin' E. induction b as [|a b IH]; [contradiction|].
      simpl in Hnd. inversion Hnd as [|? ? Hn Hnd']; subst.
      destruct Hin as [->|Hin]; destruct Hin' as [->|Hin'].
      - reflexivity.
      - exfalso. apply Hn. rewrite <- E. apply in_map. assumption.
      - exfalso. apply Hn. rewrite E. apply in_map. assumption.
      - apply IH; assumption. }
    rewrite Hf in Hf'. discriminate.
  - rewrite evaluate_all_calls, evaluate_all_nfe, app_length, map_length.
    pose proof (unevaluated_le b). lia.
  - unfold unevaluated, flags_after. induction b as [|m b IH]; simpl; [reflexivity|assumption].
Qed.

Lemma eval_step_nfe : forall bs e, e_nfe (eval_step bs e) = e_nfe e + step_size bs.
Proof.
  induction bs as [|b bs IH]; intros e; simpl; [lia|].
  unfold eval_step in *. simpl. rewrite IH. simpl. lia.
Qed.

Lemma eval_step_calls : forall bs e, e_calls (eval_step bs e) = e_calls e ++ step_called bs.
Proof.
  induction bs as [|b bs IH]; intros e; simpl; [rewrite app_nil_r; reflexivity|].
  unfold eval_step in *. simpl. rewrite IH. simpl. rewrite <- app_assoc. reflexivity.
Qed.

Lemma step_called_length : forall bs, length (step_called bs) = step_calls bs.
Proof.
  induction bs as [|b bs IH]; simpl; [reflexivity|].
  rewrite app_length, map_length, IH. reflexivity.
Qed.

Lemma step_calls_le : forall bs, step_calls bs <= step_size bs.
Proof.
  induction bs as [|b bs IH]; simpl; [lia|]. pose proof (unevaluated_le b). lia.
Qed.

(* ------------------------------------------------------------------------- *)
(* 3. Every shipped algorithm's step submits at least one solution            *)
(* ------------------------------------------------------------------------- *)
Lemma fill_from_spec : forall target kids, 1 <= kids ->
  forall fuel len, target <= len + fuel -> len < target + kids -> (exists q, len = q * kids) ->
  exists m q, fill_from fuel len target kids = Some m /\ target <= m /\ m < target + kids /\ m = q * kids.
Proof.
  intros target kids Hk. induction fuel as [|f IH]; intros len Hf Hl [q Hq]; simpl.
  - destruct (target <=? len) eqn:E.
    + apply Nat.leb_le in E. exists len, q. repeat split; assumption.
    + apply Nat.leb_gt in E. lia.
  - destruct (target <=? len) eqn:E.
    + apply Nat.leb_le in E. exists len, q. repeat split; assumption.
    + apply Nat.leb_gt in E. apply IH; [lia|lia|]. exists (S q). simpl. lia.
Qed.

(* the offspring loop ends with the smallest multiple of `kids` that reaches the target *)
Lemma fill_spec : forall target kids, 1 <= kids ->
  exists m q, fill target kids = Some m /\ target <= m /\ m < target + kids /\ m = q * kids.
Proof.
  intros target kids Hk. unfold fill. apply fill_from_spec; [assumption|lia|lia|]. exists 0. reflexivity.
Qed.

Lemma cfg_ok_spec : forall c, cfg_ok c = true ->
  1 <= c_pop c /\ 1 <= c_off c /\ 1 <= c_kids c /\ 1 <= c_nsub c.
Proof.
  intros c H. unfold cfg_ok in H. repeat (apply andb_prop in H; destruct H as [H ?]).
  repeat match goal with X : (_ <=? _) = true |- _ => apply Nat.leb_le in X end. repeat split; assumption.
Qed.

Definition all_pos (l : list nat) : Prop := l <> [] /\ Forall (fun b => 1 <= b) l.

Lemma all_pos_one : forall n, 1 <= n -> all_pos [n].
Proof. intros n H. split; [discriminate|]. constructor; [assumption|constructor]. Qed.

Lemma all_pos_sum : forall l, all_pos l -> 1 <= sum_list l.
Proof.
  intros l [Hne Hall]. destruct l as [|a l]; [contradiction|]. inversion Hall; subst. simpl. lia.
Qed.

Lemma one_fill_pos : forall target kids, 1 <= target -> 1 <= kids ->
  exists l, one (fill target kids) = Some l /\ all_pos l.
Proof.
  intros target kids Ht Hk. destruct (fill_spec target kids Hk) as [m [q [E [H1 _]]]].
  rewrite E. simpl. exists [m]. split; [reflexivity|]. apply all_pos_one. lia.
Qed.

Theorem init_batches_nonempty : forall k c, cfg_ok c = true ->
  exists l, init_batches k c = Some l /\ all_pos l.
Proof.
  intros k c H. apply cfg_ok_spec in H. destruct H as [Hp [Ho [Hk Hn]]].
  destruct k; simpl; eexists; (split; [reflexivity|]); apply all_pos_one; lia.
Qed.

Theorem iterate_batches_nonempty : forall k c, cfg_ok c = true ->
  exists l, iterate_batches k c = Some l /\ all_pos l.
Proof.
  intros k c H. apply cfg_ok_spec in H. destruct H as [Hp [Ho [Hk Hn]]].
  destruct k; simpl;
    try (apply one_fill_pos; assumption);
    try (eexists; split; [reflexivity|]; apply all_pos_one; nia).
  (* MOEAD: c_nsub batches of c_kids *)
  eexists; split; [reflexivity|]. split.
  - destruct (c_nsub c); [lia|]. discriminate.
  - apply Forall_forall. intros x Hx. apply repeat_spec in Hx. lia.
Qed.

Theorem step_batches_nonempty : forall k c n, cfg_ok c = true ->
  exists l, step_batches k c n = Some l /\ all_pos l.
Proof.
  intros k c n H. unfold step_batches. destruct (n =? 0);
    [apply init_batches_nonempty|apply iterate_batches_nonempty]; assumption.
Qed.

Definition a_inv (s : astate) : Prop := cfg_ok (a_cfg s) = true.

(* discharges the `progress` hypothesis of the run loop for all 15 algorithms *)
Theorem a_progress : forall s, a_inv s -> a_inv (a_step s) /\ a_nfe s < a_nfe (a_step s).
Proof.
  intros s H. unfold a_step. destruct (step_batches_nonempty (a_kind s) (a_cfg s) (a_nfe s) H) as [l [E P]].
  rewrite E. split; [exact H|]. simpl. pose proof (all_pos_sum l P). lia.
Qed.

Lemma a_tame_id : tame astate a_nfe (fun _ => 0) a_inv (fun x => x).
Proof. intros s H. repeat split; [assumption|lia|lia]. Qed.

Lemma a_alg : advances astate a_nfe (fun _ => 0) a_inv a_step.
Proof. intros s H. destruct (a_progress s H) as [I P]. repeat split; [assumption|assumption|lia]. Qed.

Lemma a_wb : well_behaved astate a_nfe (fun _ => 0) (fun x => x) (fun x => x) (fun x => x) (fun x => x) a_step (fun x => x) a_inv.
Proof. exact (conj a_tame_id (conj a_tame_id (conj a_tame_id (conj a_tame_id (conj a_tame_id a_alg))))). Qed.

Theorem a_run_stops_first : forall N s, a_inv s ->
  exists k, a_run N s = Some (iter astate (fun x => x) (fun x => x) a_step (fun x => x) k s)
    /\ k <= N
    /\ N <= a_nfe (iter astate (fun x => x) (fun x => x) a_step (fun x => x) k s) - a_nfe s
    /\ (forall j, j < k -> a_nfe (iter astate (fun x => x) (fun x => x) a_step (fun x => x) j s) - a_nfe s < N).
Proof.
  intros N s H.
  exact (run_stops_first astate a_nfe (fun _ => 0) (fun x => x) (fun x => x) (fun x => x) (fun x => x) a_step (fun x => x)
           a_inv a_wb N s H).
Qed.

(* a size of 0 is a rejected configuration: the real loop spins (DESIGN.md section 7); in the model the step
   makes no progress, so the hypothesis of a_progress is necessary *)
Example zero_size_no_progress :
  a_nfe (a_step (mkA K_NSGAII (mkCfg 0 1 2 1) 0)) = 0 /\ a_nfe (a_step (mkA K_GA (mkCfg 3 0 2 1) 3)) = 3.
Proof. split; reflexivity. Qed.

Example a_run_example :
  a_run 10 (mkA K_NSGAII (mkCfg 3 1 2 1) 0) = Some (mkA K_NSGAII (mkCfg 3 1 2 1) 11)
  /\ a_run 7 (mkA K_NSGAII (mkCfg 3 1 2 1) 0) = Some (mkA K_NSGAII (mkCfg 3 1 2 1) 7)
  /\ a_run 1 (mkA K_MOEAD (mkCfg 3 1 2 3) 3) = Some (mkA K_MOEAD (mkCfg 3 1 2 3) 9).
Proof. repeat split; vm_compute; reflexivity. Qed.

(* ------------------------------------------------------------------------- *)
(* 4. The model played on a logged trace                                      *)
(* ------------------------------------------------------------------------- *)
Definition t_inv (s : tstate) : Prop := script_ok (t_script s) = true.
Definition t_calls (s : tstate) : nat := length (e_calls (t_e s)).

Lemma t_tame_id : tame tstate t_nfe t_calls t_inv (fun x => x).
Proof. intros s H. repeat split; [assumption|lia|lia]. Qed.

Lemma t_alg : advances tstate t_nfe t_calls t_inv t_step.
Proof.
  intros s H. unfold t_inv, t_step, t_nfe, t_calls in *. destruct (t_script s) as [|b r] eqn:E; simpl.
  - repeat split; [lia|lia].
  - unfold script_ok in H. cbn [forallb] in H. apply andb_prop in H. destruct H as [Hb Hr]. apply Nat.leb_le in Hb.
    rewrite eval_step_nfe, eval_step_calls, app_length, step_called_length.
    pose proof (step_calls_le b). repeat split; [assumption|lia|lia].
Qed.

Lemma t_wb : well_behaved tstate t_nfe t_calls (fun x => x) (fun x => x) (fun x => x) (fun x => x) t_step (fun x => x) t_inv.
Proof. exact (conj t_tame_id (conj t_tame_id (conj t_tame_id (conj t_tame_id (conj t_tame_id t_alg))))). Qed.

Theorem t_run_stops_first : forall N s, t_inv s ->
  exists k, t_run N s = Some (t_iter k s)
    /\ k <= N
    /\ N <= t_nfe (t_iter k s) - t_nfe s
    /\ (forall j, j < k -> t_nfe (t_iter j s) - t_nfe s < N).
Proof.
  intros N s H.
  exact (run_stops_first tstate t_nfe t_calls (fun x => x) (fun x => x) (fun x => x) (fun x => x) t_step (fun x => x)
           t_inv t_wb N s H).
Qed.

Lemma t_iter_S : forall k s, t_iter (S k) s = t_step (t_iter k s).
Proof. intros k s. unfold t_iter. rewrite iter_S. reflexivity. Qed.

(* playing j steps of a script that was not overrun: either j more entries are gone, or the log was overrun *)
Lemma t_iter_script : forall j s, t_over s = false ->
  (j <= length (t_script s) /\ t_over (t_iter j s) = false /\ length (t_script (t_iter j s)) + j = length (t_script s))
  \/ (length (t_script s) < j /\ t_over (t_iter j s) = true).
Proof.
  induction j as [|j IH]; intros s Ho.
  - left. simpl. repeat split; [lia|assumption|lia].
  - rewrite t_iter_S. destruct (IH s Ho) as [[H1 [H2 H3]]|[H1 H2]].
    + unfold t_step. destruct (t_script (t_iter j s)) as [|b r] eqn:E; simpl in *.
      * right. split; [lia|reflexivity].
      * left. repeat split; [lia|assumption|lia].
    + right. split; [lia|]. unfold t_step. destruct (t_script (t_iter j s)); simpl; [reflexivity|assumption].
Qed.

(* What an accepted call means: the implementation's run(N) performed exactly the logged number of steps,
   that number is the first step boundary at which the evaluations counted since the call reach N,
   and the logged counters are those of the model. *)
Theorem accepts_call_sound : forall k c s s', t_inv s -> t_over s = false ->
  accepts_call k c s = Some s' ->
  let n := length (k_steps c) in
  s' = t_iter n s
  /\ t_over s' = false
  /\ t_nfe s' = k_nfe_end c
  /\ k_N c <= k_nfe_end c - t_nfe s
  /\ (forall j, j < n -> t_nfe (t_iter j s) - t_nfe s < k_N c)
  /\ (forall j j', j < j' -> j' <= n -> t_nfe (t_iter j s) < t_nfe (t_iter j' s))
  /\ t_calls s' + t_nfe s <= t_calls s + t_nfe s'.
Proof.
  intros k c s s' Hi Ho Ha n. unfold accepts_call in Ha.
  destruct (t_run (k_N c) s) as [s1|] eqn:Er; [|discriminate].
  destruct (negb (t_over s1) && (length (t_script s1) + length (k_steps c) =? length (t_script s))
            && (t_nfe s1 =? k_nfe_end c) && check_steps k (k_steps c) s) eqn:Ec; [|discriminate].
  injection Ha as <-.
  apply andb_prop in Ec; destruct Ec as [Ec Hchk].
  apply andb_prop in Ec; destruct Ec as [Ec Hnfe].
  apply andb_prop in Ec; destruct Ec as [Hov Hlen].
  apply negb_true_iff in Hov. apply Nat.eqb_eq in Hnfe. apply Nat.eqb_eq in Hlen.
  destruct (t_run_stops_first (k_N c) s Hi) as [k' [H1 [_ [H2 H3]]]].
  rewrite Er in H1. injection H1 as H1.
  assert (k' = n) as Hk.
  { destruct (t_iter_script k' s Ho) as [[A [B C]]|[A B]].
    - rewrite <- H1 in C. unfold n. lia.
    - rewrite <- H1 in B. rewrite B in Hov. discriminate. }
  subst k'. split; [assumption|]. split; [assumption|]. split; [assumption|].
  split; [rewrite <- Hnfe; rewrite H1; assumption|]. split; [assumption|]. split.
  - intros j j' Hj Hj'.
    exact (nfe_strict_mono tstate t_nfe t_calls (fun x => x) (fun x => x) (fun x => x) (fun x => x) t_step (fun x => x) t_inv
             t_wb s Hi j j' Hj).
  - rewrite H1.
    destruct (iter_spec tstate t_nfe t_calls (fun x => x) (fun x => x) (fun x => x) (fun x => x) t_step (fun x => x) t_inv
                t_wb n s Hi) as [_ [_ Hc]]. exact Hc.
Qed.

(* the per-step counters in an accepted log are the model's counters *)
Lemma check_steps_nfe : forall k steps s, check_steps k steps s = true ->
  forall j d, j < length steps -> l_nfe (nth j steps d) = t_nfe (t_iter (S j) s).
Proof.
  intros k. induction steps as [|st r IH]; intros s H j d Hj; [simpl in Hj; lia|].
  cbn [check_steps] in H.
  apply andb_prop in H; destruct H as [H Hr].
  apply andb_prop in H; destruct H as [H _].
  apply andb_prop in H; destruct H as [Hn _].
  apply Nat.eqb_eq in Hn.
  destruct j as [|j]; [simpl; symmetry; exact Hn|].
  simpl in Hj. change (nth (S j) (st :: r) d) with (nth j r d).
  rewrite (IH (t_step s) Hr j d); [|lia]. reflexivity.
Qed.

(* the clauses of the property read off an accepted multi-call log *)
Fixpoint chain_ok (calls : list lcall) (s : tstate) : Prop :=
  match calls with
  | [] => True
  | c :: r =>
      let n := length (k_steps c) in
      let s' := t_iter n s in
      k_N c <= k_nfe_end c - t_nfe s                                        (* the budget is met at the stop *)
      /\ t_nfe s' = k_nfe_end c
      /\ (forall j, j < n -> t_nfe (t_iter j s) - t_nfe s < k_N c)           (* and was not met before any step that ran *)
      /\ (forall j j', j < j' -> j' <= n -> t_nfe (t_iter j s) < t_nfe (t_iter j' s))
      /\ (forall j d, j < n -> l_nfe (nth j (k_steps c) d) = t_nfe (t_iter (S j) s))
      /\ t_calls s' + t_nfe s <= t_calls s + t_nfe s'                       (* real calls never exceed the counter *)
      /\ chain_ok r s'                                                      (* the next call starts from the state left *)
  end.

Lemma accepts_from_sound : forall k calls s, t_inv s -> t_over s = false ->
  accepts_from k calls s = true -> chain_ok calls s.
Proof.
  intros k. induction calls as [|c r IH]; intros s Hi Ho H; [exact I|].
  cbn [accepts_from] in H. destruct (accepts_call k c s) as [s'|] eqn:Ea; [|discriminate].
  pose proof (accepts_call_sound k c s s' Hi Ho Ea) as [E [Ho' [Hn [Hb [Hf [Hm Hc]]]]]].
  cbn [chain_ok]. subst s'.
  split; [assumption|]. split; [assumption|]. split; [assumption|]. split; [assumption|]. split.
  - intros j d Hj. unfold accepts_call in Ea.
    destruct (t_run (k_N c) s) as [s1|]; [|discriminate].
    destruct (negb (t_over s1) && (length (t_script s1) + length (k_steps c) =? length (t_script s))
              && (t_nfe s1 =? k_nfe_end c) && check_steps k (k_steps c) s) eqn:Ec; [|discriminate].
    apply andb_prop in Ec; destruct Ec as [_ Hchk].
    exact (check_steps_nfe k (k_steps c) s Hchk j d Hj).
  - split; [assumption|]. apply IH; [|assumption|assumption].
    destruct (iter_spec tstate t_nfe t_calls (fun x => x) (fun x => x) (fun x => x) (fun x => x) t_step (fun x => x) t_inv
                t_wb (length (k_steps c)) s Hi) as [Hi' _]. exact Hi'.
Qed.

Theorem accepts_sound : forall k calls, accepts k calls = true ->
  chain_ok calls (mkT (mkE 0 []) (script_of calls) false).
Proof.
  intros k calls H. unfold accepts in H. apply andb_prop in H. destruct H as [Hs Ha].
  apply (accepts_from_sound k); [exact Hs|reflexivity|exact Ha].
Qed.

(* non-vacuity: a two-call trace (population 2, offspring in pairs, one already-evaluated offspring) *)
Example accepts_example :
  accepts K_NSGAII
    [ mkCall 3 [ mkStep [[(0,false);(1,false)]] 2 [0;1] (mkCfg 2 2 2 1) true;
                 mkStep [[(2,false);(3,true)]] 4 [2] (mkCfg 2 2 2 1) true ] 4;
      mkCall 0 [] 4;
      mkCall 1 [ mkStep [[(4,false);(5,false)]] 6 [4;5] (mkCfg 2 2 2 1) true ] 6 ] = true.
Proof. vm_compute. reflexivity. Qed.

(* ... and traces that must be rejected: one step too many, one step too few, a dishonest counter *)
Example rejects_extra_step :
  accepts K_NSGAII
    [ mkCall 2 [ mkStep [[(0,false);(1,false)]] 2 [0;1] (mkCfg 2 2 2 1) true;
                 mkStep [[(2,false);(3,false)]] 4 [2;3] (mkCfg 2 2 2 1) true ] 4 ] = false.
Proof. vm_compute. reflexivity. Qed.

Example rejects_early_stop :
  accepts K_NSGAII
    [ mkCall 3 [ mkStep [[(0,false);(1,false)]] 2 [0;1] (mkCfg 2 2 2 1) true ] 2 ] = false.
Proof. vm_compute. reflexivity. Qed.

Example rejects_counter_of_unevaluated_only :
  accepts K_NSGAII
    [ mkCall 2 [ mkStep [[(0,false);(1,true)]] 1 [0] (mkCfg 2 2 2 1) true;
                 mkStep [[(2,false);(3,false)]] 3 [2;3] (mkCfg 2 2 2 1) true ] 3 ] = false.
Proof. vm_compute. reflexivity. Qed.
