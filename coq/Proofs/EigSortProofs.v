(* Proofs/EigSortProofs.v — the ordering phase of tql2 (selection sort of the eigenvalues with the
   columns of V carried along), over an abstract strict weak order (floats without NaN, xq, ...). *)
From Coq Require Import ZArith List Bool Arith Lia Permutation.
Import ListNotations.
From PV Require Import Base.Num Base.Order Model.LSolve Model.EigSort Proofs.LSolveProofs.
Close Scope Q_scope.
Open Scope nat_scope.

Section EigSortProofs.
  Variable T : Type.
  Variable dflt : T.
  Variable ltb : T -> T -> bool.
  Notation at_ := (at_ T dflt).
  Notation find_min := (find_min T dflt ltb).
  Notation swap_row := (swap_row T dflt).
  Notation swap_cols := (swap_cols T dflt).
  Notation sort_step := (sort_step T dflt ltb).
  Notation eig_sort := (eig_sort T dflt ltb).
  Notation permute := (permute T dflt).

  (* exchange of entries i and k, as the code writes it for d *)
  Definition exch {X} (dx : X) (l : list X) (i k : nat) : list X :=
    upd (upd l k (nth i l dx)) i (nth k l dx).

  Lemma exch_length {X} (dx : X) l i k : length (exch dx l i k) = length l.
  Proof. unfold exch. now rewrite !upd_length. Qed.

  Lemma nth_exch {X} (dx : X) l i k t : i < length l -> k < length l ->
    nth t (exch dx l i k) dx = if Nat.eqb t i then nth k l dx else if Nat.eqb t k then nth i l dx else nth t l dx.
  Proof.
    intros Hi Hk. unfold exch.
    destruct (Nat.eqb_spec t i) as [->|Ni].
    - rewrite nth_upd_eq; auto. now rewrite upd_length.
    - rewrite nth_upd_neq by auto. destruct (Nat.eqb_spec t k) as [->|Nk].
      + now rewrite nth_upd_eq.
      + now rewrite nth_upd_neq.
  Qed.

  Lemma perm_aux {X} (dx a : X) : forall t k, k < length t ->
    Permutation (nth k t dx :: upd t k a) (a :: t).
  Proof.
    induction t as [|c t IH]; intros [|k] H; simpl in *; try lia.
    - apply perm_swap.
    - eapply perm_trans; [apply perm_swap|]. eapply perm_trans; [|apply perm_swap].
      apply perm_skip. apply IH. lia.
  Qed.

  Lemma exch_perm {X} (dx : X) : forall l i k, i < length l -> k < length l ->
    Permutation (exch dx l i k) l.
  Proof.
    unfold exch. induction l as [|a l IH]; intros [|i] [|k] Hi Hk; simpl in *; try lia.
    - apply Permutation_refl.
    - apply perm_aux. lia.
    - apply perm_aux. lia.
    - apply perm_skip. apply IH; lia.
  Qed.

  Lemma map_exch {X Y} (f : X -> Y) dx dy l i k : i < length l -> k < length l ->
    map f (exch dx l i k) = exch dy (map f l) i k.
  Proof.
    intros Hi Hk. unfold exch. rewrite !map_upd.
    rewrite (nth_indep (map f l) dy (f dx)) by (rewrite map_length; lia).
    rewrite (nth_indep (map f l) dy (f dx)) by (rewrite map_length; lia).
    now rewrite !map_nth.
  Qed.

  (* ---------------- the three loops ---------------- *)
  Lemma find_min_spec d n i : i < n ->
    i <= fst (find_min d n i) < n /\ snd (find_min d n i) = at_ d (fst (find_min d n i)) /\
    (forall (L : forall x, ltb x x = false)
            (C : forall x y z, ltb x y = true -> ltb x z = true \/ ltb z y = true)
            (Tr : forall x y z, ltb x y = true -> ltb y z = true -> ltb x z = true),
       forall j, i <= j < n -> ltb (at_ d j) (snd (find_min d n i)) = false).
  Proof.
    intro Hi. unfold EigSort.find_min.
    pose (P := fun (m : nat) (kp : nat * T) =>
       i <= fst kp < m /\ snd kp = at_ d (fst kp) /\
       ((forall x, ltb x x = false) ->
        (forall x y z, ltb x y = true -> ltb x z = true \/ ltb z y = true) ->
        (forall x y z, ltb x y = true -> ltb y z = true -> ltb x z = true) ->
        forall j, i <= j < m -> ltb (at_ d j) (snd kp) = false)).
    match goal with |- _ <= fst (fold_left ?f ?l ?s) < _ /\ _ => assert (H : P (S i + (n - S i)) (fold_left f l s)) end.
    { apply fold_seq_ind.
      - split; [simpl; lia|]. split; [reflexivity|]. simpl. intros L _ _ j Hj.
        assert (j = i) by lia. subst. apply L.
      - intros m [k p] Hm (Hk & Hp & Hmin). simpl in *.
        destruct (ltb (at_ d m) p) eqn:E; unfold P; simpl.
        + split; [lia|]. split; [reflexivity|]. intros L C Tr j Hj.
          destruct (Nat.eq_dec j m) as [->|Nj]; [apply L|].
          destruct (ltb (at_ d j) (at_ d m)) eqn:E2; auto.
          pose proof (Tr _ _ _ E2 E) as E3. rewrite (Hmin L C Tr j) in E3 by lia. discriminate.
        + split; [lia|]. split; [exact Hp|]. intros L C Tr j Hj.
          destruct (Nat.eq_dec j m) as [->|Nj]; [exact E|]. apply Hmin; auto. lia. }
    replace (S i + (n - S i)) with n in H by lia. exact H.
  Qed.

  Lemma swap_row_exch r i k : i <> k -> swap_row r i k = exch dflt r i k.
  Proof. intro H. unfold EigSort.swap_row, exch, EigSort.at_. apply upd_comm. exact H. Qed.

  Lemma swap_cols_spec n V i k : length V = n ->
    length (swap_cols n V i k) = n /\
    forall j, j < n -> nth j (swap_cols n V i k) [] = swap_row (nth j V []) i k.
  Proof.
    intro HV. unfold EigSort.swap_cols.
    pose (P := fun (m : nat) (W : list (list T)) => length W = n /\
       forall j, nth j W [] = if j <? m then swap_row (nth j V []) i k else nth j V []).
    assert (H : P (0 + n) (fold_left (fun V j => upd V j (swap_row (nth j V []) i k)) (seq 0 n) V)).
    { apply fold_seq_ind.
      - split; auto.
      - intros m W Hm [HW Hj]. split; [now rewrite upd_length|]. intro j.
        destruct (Nat.eq_dec j m) as [->|Nj].
        + rewrite nth_upd_eq by lia. rewrite Hj.
          destruct (Nat.ltb_spec m m), (Nat.ltb_spec m (S m)); try lia. reflexivity.
        + rewrite nth_upd_neq by auto. rewrite Hj.
          destruct (Nat.ltb_spec j m), (Nat.ltb_spec j (S m)); try lia; reflexivity. }
    destruct H as [HW Hj]. split; auto. intros j Hlt. rewrite Hj. simpl.
    destruct (Nat.ltb_spec j n); [reflexivity|lia].
  Qed.

  (* one iteration, as an exchange of two positions (or nothing) *)
  Lemma sort_step_spec n d V i : i < n -> length d = n -> length V = n ->
    exists k, i <= k < n /\
      fst (sort_step n (d, V) i) = exch dflt d i k /\
      length (snd (sort_step n (d, V) i)) = n /\
      (forall j, j < n -> nth j (snd (sort_step n (d, V) i)) [] = exch dflt (nth j V []) i k /\ True) /\
      (forall (L : forall x, ltb x x = false)
              (C : forall x y z, ltb x y = true -> ltb x z = true \/ ltb z y = true)
              (Tr : forall x y z, ltb x y = true -> ltb y z = true -> ltb x z = true),
         forall j, i <= j < n -> ltb (at_ d j) (at_ d k) = false).
  Proof.
    intros Hi Hd HV. unfold EigSort.sort_step.
    pose proof (find_min_spec d n i Hi) as F.
    destruct (find_min d n i) as [k p] eqn:Ef. simpl in F. destruct F as (Hk & Hp & Hmin). subst p.
    exists k. split; [exact Hk|].
    destruct (Nat.eqb_spec k i) as [->|Nk]; simpl.
    - assert (Eid : forall {X} (dx : X) (l : list X), i < length l -> exch dx l i i = l).
      { intros X dx l Hl. unfold exch.
        apply nth_ext with (d := dx) (d' := dx); [now rewrite !upd_length|].
        intros t Ht. rewrite !upd_length in Ht.
        destruct (Nat.eq_dec t i) as [->|Nt].
        - rewrite nth_upd_eq; auto. now rewrite upd_length.
        - now rewrite !nth_upd_neq. }
      split; [now rewrite Eid by lia|]. split; [exact HV|]. split; [|exact Hmin].
      intros j Hj. split; auto.
      destruct (Nat.lt_ge_cases i (length (nth j V []))) as [Hl|Hl].
      + now rewrite Eid.
      + unfold exch. now rewrite !upd_oob by (rewrite ?upd_length; lia).
    - split.
      + unfold exch, EigSort.at_. reflexivity.
      + destruct (swap_cols_spec n V i k HV) as [HL HR]. split; [exact HL|]. split; [|exact Hmin].
        intros j Hj. split; auto. rewrite HR by lia. apply swap_row_exch. lia.
  Qed.

  (* ---------------- consistency: one permutation for d and for every row of V ---------------- *)
  Definition is_perm (n : nat) (p : list nat) : Prop := Permutation p (seq 0 n).

  Definition rows_ok (n : nat) (V : list (list T)) : Prop :=
    length V = n /\ forall j, j < n -> length (nth j V []) = n.

  Lemma permute_id n l : length l = n -> permute (seq 0 n) l = l.
  Proof.
    intro H. unfold EigSort.permute, EigSort.at_.
    apply nth_ext with (d := dflt) (d' := dflt); [now rewrite map_length, seq_length|].
    intros t Ht. rewrite map_length, seq_length in Ht.
    rewrite (nth_indep _ dflt (nth 0 l dflt)) by (rewrite map_length, seq_length; lia).
    rewrite (map_nth (fun i => nth i l dflt) (seq 0 n) 0 t). now rewrite seq_nth by lia.
  Qed.

  Theorem eig_sort_consistent n d V : length d = n -> rows_ok n V ->
    exists p, is_perm n p /\
      fst (eig_sort n d V) = permute p d /\
      length (snd (eig_sort n d V)) = n /\
      forall j, j < n -> nth j (snd (eig_sort n d V)) [] = permute p (nth j V []).
  Proof.
    intros Hd [HV Hrows]. unfold EigSort.eig_sort.
    pose (P := fun (m : nat) (st : list T * list (list T)) =>
       exists p, is_perm n p /\ fst st = permute p d /\ length (snd st) = n /\
                 forall j, j < n -> nth j (snd st) [] = permute p (nth j V [])).
    assert (H : P (0 + (n - 1)) (fold_left (sort_step n) (seq 0 (n - 1)) (d, V))).
    { apply fold_seq_ind.
      - exists (seq 0 n). split; [apply Permutation_refl|]. simpl.
        split; [now rewrite permute_id|]. split; [exact HV|].
        intros j Hj. rewrite permute_id; auto.
      - intros i [d' V'] Hi (p & Hp & Ed & HV' & ER). simpl in Ed, HV', ER.
        assert (Hlp : length p = n).
        { rewrite (Permutation_length Hp). apply seq_length. }
        assert (Hd' : length d' = n).
        { rewrite Ed. unfold EigSort.permute. now rewrite map_length. }
        destruct (sort_step_spec n d' V' i ltac:(lia) Hd' HV') as (k & Hk & E1 & E2 & E3 & _).
        exists (exch 0 p i k). split; [|split; [|split]].
        + unfold is_perm. eapply perm_trans; [apply exch_perm; lia|exact Hp].
        + rewrite E1, Ed. unfold EigSort.permute. symmetry. apply map_exch; lia.
        + exact E2.
        + intros j Hj. destruct (E3 j Hj) as [E _]. rewrite E, (ER j Hj).
          unfold EigSort.permute. symmetry. apply map_exch; lia. }
    exact H.
  Qed.

  (* ---------------- ascending order ---------------- *)
  Variable neg : T -> T.
  Hypothesis L : OrdLaws T ltb neg.

  Theorem eig_sort_ascending n d V : length d = n -> length V = n ->
    forall a b, a <= b < n ->
      ltb (at_ (fst (eig_sort n d V)) b) (at_ (fst (eig_sort n d V)) a) = false.
  Proof.
    intros Hd HV. unfold EigSort.eig_sort.
    pose (P := fun (m : nat) (st : list T * list (list T)) =>
       length (fst st) = n /\ length (snd st) = n /\
       forall a b, a < m -> a <= b < n -> ltb (at_ (fst st) b) (at_ (fst st) a) = false).
    assert (H : P (0 + (n - 1)) (fold_left (sort_step n) (seq 0 (n - 1)) (d, V))).
    { apply fold_seq_ind.
      - split; [exact Hd|]. split; [exact HV|]. intros a b Ha; lia.
      - intros i [d' V'] Hi (Hd' & HV' & Hs). simpl in Hd', HV', Hs.
        destruct (sort_step_spec n d' V' i ltac:(lia) Hd' HV') as (k & Hk & E1 & E2 & _ & Hmin).
        specialize (Hmin (ol_irrefl _ _ _ L) (ol_cotrans _ _ _ L) (ol_trans _ _ _ L)).
        split; [rewrite E1; now rewrite exch_length|]. split; [exact E2|].
        intros a b Ha Hb. rewrite E1. unfold EigSort.at_ in *.
        rewrite !nth_exch by lia.
        assert (Hsig : forall t, i <= t < n ->
                  i <= (if Nat.eqb t i then k else if Nat.eqb t k then i else t) < n).
        { intros t Ht. destruct (Nat.eqb_spec t i), (Nat.eqb_spec t k); lia. }
        destruct (Nat.lt_ge_cases a i) as [Hai|Hai].
        + (* a is in the already sorted prefix, untouched by the exchange *)
          destruct (Nat.eqb_spec a i); [lia|]. destruct (Nat.eqb_spec a k); [lia|].
          destruct (Nat.lt_ge_cases b i) as [Hbi|Hbi].
          * destruct (Nat.eqb_spec b i); [lia|]. destruct (Nat.eqb_spec b k); [lia|].
            apply Hs; lia.
          * pose proof (Hsig b ltac:(lia)) as Hb'.
            destruct (Nat.eqb_spec b i); [apply Hs; lia|].
            destruct (Nat.eqb_spec b k); apply Hs; lia.
        + (* a = i : the minimum of the suffix was put there *)
          assert (a = i) by lia. subst a. rewrite Nat.eqb_refl.
          destruct (Nat.eqb_spec b i); [apply Hmin; lia|].
          destruct (Nat.eqb_spec b k); apply Hmin; lia. }
    destruct H as (Hd' & _ & Hs). intros a b Hab.
    destruct (Nat.lt_ge_cases a (n - 1)) as [Ha|Ha].
    - apply Hs; simpl; lia.
    - assert (b = a) by lia. subst. apply (ol_irrefl _ _ _ L).
  Qed.
End EigSortProofs.

(* ---------------- non-vacuity on the executable carrier ---------------- *)
Open Scope Z_scope.
Example eig_sort_nonvacuous :
  let d := [FZ 3; FZ (-1); FZ 2; FZ (-1)] in
  let V := [[FZ 1; FZ 2; FZ 3; FZ 4]; [FZ 5; FZ 6; FZ 7; FZ 8]; [FZ 9; FZ 10; FZ 11; FZ 12]; [FZ 13; FZ 14; FZ 15; FZ 16]] in
  length d = 4%nat /\ rows_ok xq 4%nat V /\
  eig_sort xq xzero xltb 4%nat d V =
    ([FZ (-1); FZ (-1); FZ 2; FZ 3],
     [[FZ 2; FZ 4; FZ 3; FZ 1]; [FZ 6; FZ 8; FZ 7; FZ 5]; [FZ 10; FZ 12; FZ 11; FZ 9]; [FZ 14; FZ 16; FZ 15; FZ 13]]).
Proof.
  split; [reflexivity|]. split.
  - split; [reflexivity|]. intros [|[|[|[|j]]]] H; try reflexivity; simpl in H; lia.
  - vm_compute. reflexivity.
Qed.

Close Scope Z_scope.
Lemma eig_decomposition_sort_part : forall (T : Type) (dflt : T) (ltb : T -> T -> bool) (neg : T -> T),
  OrdLaws T ltb neg -> forall n d V, length d = n -> rows_ok T n V ->
  (forall a b, (a <= b < n)%nat ->
      ltb (at_ T dflt (fst (eig_sort T dflt ltb n d V)) b) (at_ T dflt (fst (eig_sort T dflt ltb n d V)) a) = false) /\
  exists p, is_perm n p /\
    fst (eig_sort T dflt ltb n d V) = permute T dflt p d /\
    forall j, (j < n)%nat -> nth j (snd (eig_sort T dflt ltb n d V)) nil = permute T dflt p (nth j V nil).
Proof.
  intros T dflt ltb neg L n d V Hd HV. split.
  - apply (eig_sort_ascending T dflt ltb neg L); auto. apply HV.
  - destruct (eig_sort_consistent T dflt ltb n d V Hd HV) as (p & Hp & E1 & _ & E2).
    exists p. auto.
Qed.
