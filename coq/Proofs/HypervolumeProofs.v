(* Proofs about Model/Hypervolume.v.
   Part A: facts about min of lists.
   Part B: theory of the specification hv_spec (all dimensions): the master monotonicity
           lemma hv_cover (if every box of A lies in some box of B then hv A <= hv B), from
           which permutation / dominated / duplicate / repeated invariance, monotonicity
           and the range follow; single box; inclusion-exclusion recurrence.
   Part C: refinement: the literal array/swap model of calc_internal computes hv_spec
           (all dimensions >= 2, fuel suffices), and the calculate pipeline computes
           hv_spec of spec_points.
   All statements are about exact rational arithmetic. *)
From Coq Require Import ZArith QArith Qabs Bool List Lia Lqa Permutation Setoid Morphisms.
Import ListNotations.
From PV Require Import Base.Num Base.Order Model.Indicators Model.Hypervolume Proofs.IndicatorsProofs.
Open Scope Q_scope.

(* ================= Part A ================= *)

Lemma lastmin_le k P q : In q P -> lastmin k P <= coord q k.
Proof.
  destruct P as [|p r]; [contradiction|]. simpl.
  destruct (qmin_from_le (coord p k) (map (fun q => coord q k) r)) as [A B].
  intros [<-|Hq]; [exact A|]. apply B. now apply (in_map (fun q => coord q k)).
Qed.

Lemma lastmin_in k P : P <> [] -> exists q, In q P /\ lastmin k P = coord q k.
Proof.
  destruct P as [|p r]; [congruence|]. intros _. simpl.
  destruct (qmin_from_in (coord p k) (map (fun q => coord q k) r)) as [A|A].
  - exists p. split; [now left | exact A].
  - apply in_map_iff in A. destruct A as [q [E Hq]]. exists q. split; [now right | now rewrite E].
Qed.

Lemma Qeq_dec_strict (a b : Q) : {a = b} + {a <> b}.
Proof. decide equality; [apply Pos.eq_dec | apply Z.eq_dec]. Qed.

Lemma filter_all {A} (f : A -> bool) l : (forall x, In x l -> f x = true) -> filter f l = l.
Proof.
  induction l as [|a r IH]; intro Hall; simpl; [reflexivity|].
  rewrite (Hall a (or_introl eq_refl)). f_equal. apply IH. intros; apply Hall; now right.
Qed.

Lemma filter_length_le {A} (f : A -> bool) l : (length (filter f l) <= length l)%nat.
Proof. induction l as [|a r IH]; simpl; [lia|]. destruct (f a); simpl; lia. Qed.

Lemma filter_length_lt {A} (f : A -> bool) l x : In x l -> f x = false -> (length (filter f l) < length l)%nat.
Proof.
  induction l as [|a r IH]; simpl; [contradiction|].
  intros [->|Hx] Hf.
  - rewrite Hf. pose proof (filter_length_le f r). lia.
  - specialize (IH Hx Hf). destruct (f a); simpl; lia.
Qed.

(* ================= Part B: the specification ================= *)

(* all coordinates >= 0 *)
Definition nnpt (p : point) : Prop := forall i, 0 <= coord p i.
Definition nnP (P : list point) : Prop := forall p, In p P -> nnpt p.
(* every box of A is contained in some box of B (first d coordinates) *)
Definition cover (d : nat) (A B : list point) : Prop :=
  forall a, In a A -> exists b, In b B /\ forall i, (i < d)%nat -> coord a i <= coord b i.

Lemma nnP_filter f P : nnP P -> nnP (filter f P).
Proof. intros Hn p Hp. apply filter_In in Hp. now apply Hn. Qed.

Lemma nnP_cons p P : nnpt p -> nnP P -> nnP (p :: P).
Proof. intros A B q [<-|Hq]; auto. Qed.

Lemma cover_refl d A : cover d A A.
Proof. intros a Ha. exists a. split; [exact Ha | intros; lra]. Qed.

Lemma cover_incl d A B : incl A B -> cover d A B.
Proof. intros Hi a Ha. exists a. split; [now apply Hi | intros; lra]. Qed.

Lemma cover_trans d A B C : cover d A B -> cover d B C -> cover d A C.
Proof.
  intros H1 H2 a Ha. destruct (H1 a Ha) as [b [Hb L1]]. destruct (H2 b Hb) as [c [Hc L2]].
  exists c. split; [exact Hc|]. intros i Hi. specialize (L1 i Hi). specialize (L2 i Hi). lra.
Qed.

Lemma cover_weaken d d' A B : (d' <= d)%nat -> cover d A B -> cover d' A B.
Proof.
  intros Hd Hc a Ha. destruct (Hc a Ha) as [b [Hb L]]. exists b. split; [exact Hb|].
  intros i Hi. apply L. lia.
Qed.

Section Peel.
  Variable H : list point -> Q.
  Variable k : nat.

  (* b is a lower bound of coordinate k *)
  Definition lb (b : Q) (P : list point) : Prop := forall q, In q P -> b <= coord q k.
  Definition above (m : Q) (P : list point) : list point := filter (fun q => Qltb m (coord q k)) P.

  Lemma above_proper m m' P : m == m' -> above m P = above m' P.
  Proof. intro E. unfold above. apply filter_ext. intro q. now apply Qltb_proper_l. Qed.

  Lemma above_lastmin_lt P : P <> [] -> (length (above (lastmin k P) P) < length P)%nat.
  Proof.
    intro Hne. destruct (lastmin_in k P Hne) as [q [Hq E]].
    unfold above. apply filter_length_lt with q; [exact Hq|]. rewrite E. apply Qltb_irrefl.
  Qed.

  Lemma lb_above m P : lb m (above m P).
  Proof.
    intros q Hq. apply filter_In in Hq. destruct Hq as [_ Hq]. apply Qltb_lt in Hq. lra.
  Qed.

  Lemma lb_lastmin P : lb (lastmin k P) P.
  Proof. intros q Hq. now apply lastmin_le. Qed.

  Lemma lb_le_lastmin b P : P <> [] -> lb b P -> b <= lastmin k P.
  Proof. intros Hne Hl. destruct (lastmin_in k P Hne) as [q [Hq E]]. rewrite E. now apply Hl. Qed.

  Lemma peel_nil f b : peel H k f b [] = 0.
  Proof. destruct f; reflexivity. Qed.

  Lemma peel_cons f b p r :
    peel H k (S f) b (p :: r) =
    (lastmin k (p :: r) - b) * H (p :: r) + peel H k f (lastmin k (p :: r)) (above (lastmin k (p :: r)) (p :: r)).
  Proof. reflexivity. Qed.

  (* any fuel >= length gives the same value *)
  Lemma peel_fuel : forall f1 f2 b P, (length P <= f1)%nat -> (length P <= f2)%nat ->
    peel H k f1 b P = peel H k f2 b P.
  Proof.
    induction f1 as [|f1 IH]; intros f2 b P H1 H2.
    - destruct P; [|simpl in H1; lia]. now rewrite !peel_nil.
    - destruct P as [|p r]; [now rewrite !peel_nil|].
      destruct f2 as [|f2]; [simpl in H2; lia|].
      rewrite !peel_cons. f_equal.
      pose proof (above_lastmin_lt (p :: r) ltac:(congruence)) as Hlt.
      apply IH; simpl in *; lia.
  Qed.

  Lemma peel_base_eq f b b' P : b == b' -> peel H k f b P == peel H k f b' P.
  Proof.
    intro E. destruct f; [reflexivity|]. destruct P as [|p r]; [reflexivity|].
    rewrite !peel_cons. rewrite E. reflexivity.
  Qed.

  Hypothesis H_nil : H [] == 0.

  Lemma peel_S f b P : P <> [] ->
    peel H k (S f) b P = (lastmin k P - b) * H P + peel H k f (lastmin k P) (above (lastmin k P) P).
  Proof. destruct P; [congruence | reflexivity]. Qed.

  (* the integral may be cut at any level below the smallest coordinate *)
  Lemma peel_split f b m P : lb m P -> (length P <= f)%nat ->
    peel H k f b P == (m - b) * H P + peel H k f m (above m P).
  Proof.
    intros Hl Hf. destruct (list_eq_dec (list_eq_dec Qeq_dec_strict) P []) as [->|Hne].
    - unfold above. simpl filter. rewrite !peel_nil, H_nil. ring.
    - destruct f as [|f]; [destruct P; [exfalso; now apply Hne | simpl in Hf; lia]|].
      pose proof (lb_le_lastmin m P Hne Hl) as Hm.
      pose proof (above_lastmin_lt P Hne) as Hlt.
      rewrite (peel_S f b P Hne).
      destruct (Qlt_le_dec m (lastmin k P)) as [Lt|Le].
      + (* m strictly below the minimum: nothing is removed at m *)
        assert (E : above m P = P).
        { unfold above. apply filter_all. intros q Hq. apply Qltb_lt.
          pose proof (lastmin_le k P q Hq). lra. }
        rewrite E. rewrite (peel_S f m P Hne). ring.
      + (* m is the minimum *)
        assert (E : lastmin k P == m) by lra.
        rewrite (above_proper _ _ P E).
        rewrite (peel_fuel (S f) f m (above m P)).
        * rewrite (peel_base_eq f _ _ _ E). rewrite E. ring.
        * rewrite <- (above_proper _ _ P E). lia.
        * rewrite <- (above_proper _ _ P E). lia.
  Qed.

  Hypothesis H_nonneg : forall P, nnP P -> 0 <= H P.

  Lemma peel_nonneg : forall f b P, nnP P -> lb b P -> 0 <= peel H k f b P.
  Proof.
    induction f as [|f IH]; intros b P Hn Hl; [simpl; lra|].
    destruct P as [|p r]; [simpl; lra|].
    rewrite peel_cons.
    pose proof (lb_le_lastmin b (p :: r) ltac:(congruence) Hl) as Hm.
    pose proof (H_nonneg _ Hn) as HH.
    pose proof (IH (lastmin k (p :: r)) (above (lastmin k (p :: r)) (p :: r)) (nnP_filter _ _ Hn) (lb_above _ _)) as HR.
    nra.
  Qed.

  Hypothesis H_cover : forall A B, nnP A -> nnP B -> cover k A B -> H A <= H B.

  Lemma cover_above m A B : cover (S k) A B -> cover (S k) (above m A) (above m B).
  Proof.
    intros Hc a Ha. apply filter_In in Ha. destruct Ha as [Ha La].
    destruct (Hc a Ha) as [b [Hb L]]. exists b. split; [|exact L].
    apply filter_In. split; [exact Hb|]. apply Qltb_lt. apply Qltb_lt in La.
    specialize (L k (Nat.lt_succ_diag_r k)). lra.
  Qed.

  Lemma lb_above_mono m b P : lb b P -> lb b (above m P).
  Proof. intros Hl q Hq. apply filter_In in Hq. now apply Hl. Qed.

  (* master lemma: the integral is monotone under box inclusion *)
  Lemma peel_cover : forall n A B fa fb b,
    (length A + length B <= n)%nat -> (length A <= fa)%nat -> (length B <= fb)%nat ->
    nnP A -> nnP B -> lb b A -> lb b B -> cover (S k) A B ->
    peel H k fa b A <= peel H k fb b B.
  Proof.
    induction n as [|n IH]; intros A B fa fb b Hn Hfa Hfb HnA HnB HlA HlB Hc.
    - destruct A; [|simpl in Hn; lia]. rewrite peel_nil. now apply peel_nonneg.
    - destruct A as [|a0 A0].
      { rewrite peel_nil. now apply peel_nonneg. }
      set (A := a0 :: A0) in *.
      assert (HneA : A <> []) by (unfold A; congruence).
      assert (HneB : B <> []).
      { destruct (Hc a0 (or_introl eq_refl)) as [b0 [Hb0 _]]. intro E. now rewrite E in Hb0. }
      set (mA := lastmin k A). set (mB := lastmin k B).
      set (m := if Qltb mA mB then mA else mB).
      assert (HmA : m <= mA) by (unfold m; destruct (Qltb mA mB) eqn:E; [lra | apply Qltb_false in E; lra]).
      assert (HmB : m <= mB) by (unfold m; destruct (Qltb mA mB) eqn:E; [apply Qltb_lt in E; lra | lra]).
      assert (LA : lb m A) by (intros q Hq; pose proof (lastmin_le k A q Hq); fold mA in H0; lra).
      assert (LB : lb m B) by (intros q Hq; pose proof (lastmin_le k B q Hq); fold mB in H0; lra).
      rewrite (peel_split fa b m A LA Hfa), (peel_split fb b m B LB Hfb).
      assert (Hb : b <= m).
      { pose proof (lb_le_lastmin b A HneA HlA). pose proof (lb_le_lastmin b B HneB HlB).
        fold mA in H0. fold mB in H1. unfold m. destruct (Qltb mA mB); lra. }
      pose proof (H_cover A B HnA HnB (cover_weaken (S k) k A B (Nat.le_succ_diag_r k) Hc)) as HH.
      pose proof (H_nonneg A HnA) as H0A.
      assert (HR : peel H k fa m (above m A) <= peel H k fb m (above m B)).
      { apply IH.
        - pose proof (filter_length_le (fun q => Qltb m (coord q k)) A).
          pose proof (filter_length_le (fun q => Qltb m (coord q k)) B).
          unfold m in *. destruct (Qltb mA mB) eqn:E.
          + pose proof (above_lastmin_lt A HneA). fold mA in H2. unfold above in *. simpl in Hn. simpl in *. lia.
          + pose proof (above_lastmin_lt B HneB). fold mB in H2. unfold above in *. simpl in Hn. simpl in *. lia.
        - pose proof (filter_length_le (fun q => Qltb m (coord q k)) A). unfold above. lia.
        - pose proof (filter_length_le (fun q => Qltb m (coord q k)) B). unfold above. lia.
        - now apply nnP_filter.
        - now apply nnP_filter.
        - apply lb_above.
        - apply lb_above.
        - now apply cover_above. }
      nra.
  Qed.
End Peel.

(* ---------- hv_spec, all dimensions ---------- *)
Lemma hv_nil d : hv_spec d [] = 0.
Proof. destruct d; reflexivity. Qed.

Lemma hv_nil_eq d : hv_spec d [] == 0.
Proof. rewrite hv_nil. reflexivity. Qed.

Lemma nnP_lb0 k P : nnP P -> lb k 0 P.
Proof. intros Hn q Hq. now apply Hn. Qed.

Lemma hv_S d P : hv_spec (S d) P = peel (hv_spec d) d (length P) 0 P.
Proof. reflexivity. Qed.

Lemma hv_nonneg : forall d P, nnP P -> 0 <= hv_spec d P.
Proof.
  induction d as [|d IH]; intros P Hn.
  - simpl. destruct P; lra.
  - rewrite hv_S. apply peel_nonneg; [exact IH | exact Hn | now apply nnP_lb0].
Qed.

(* MASTER LEMMA: if every box of A lies inside some box of B, hv A <= hv B *)
Theorem hv_cover : forall d A B, nnP A -> nnP B -> cover d A B -> hv_spec d A <= hv_spec d B.
Proof.
  induction d as [|d IH]; intros A B HA HB Hc.
  - simpl. destruct A as [|a A]; [destruct B; lra|].
    destruct (Hc a (or_introl eq_refl)) as [b [Hb _]]. destruct B; [contradiction | lra].
  - rewrite !hv_S.
    apply (peel_cover (hv_spec d) d (hv_nil_eq d) (hv_nonneg d) IH (length A + length B)); auto;
      try lia; now apply nnP_lb0.
Qed.

Lemma hv_cover_eq d A B : nnP A -> nnP B -> cover d A B -> cover d B A -> hv_spec d A == hv_spec d B.
Proof. intros. apply Qle_antisym; now apply hv_cover. Qed.

Lemma nnP_perm A B : Permutation A B -> nnP A -> nnP B.
Proof. intros Hp Hn p Hpb. apply Hn. apply Permutation_in with B; [now apply Permutation_sym | exact Hpb]. Qed.

Lemma nnP_incl A B : incl B A -> nnP A -> nnP B.
Proof. intros Hi Hn p Hp. apply Hn. now apply Hi. Qed.

(* order invariance *)
Theorem hv_spec_perm d A B : nnP A -> Permutation A B -> hv_spec d A == hv_spec d B.
Proof.
  intros Hn Hp. apply hv_cover_eq; [exact Hn | now apply (nnP_perm A) | |].
  - apply cover_incl. intros x Hx. now apply Permutation_in with A.
  - apply cover_incl. intros x Hx. apply Permutation_in with B; [now apply Permutation_sym | exact Hx].
Qed.

(* hv depends only on the SET of points *)
Lemma hv_spec_seteq d A B : nnP A -> incl A B -> incl B A -> hv_spec d A == hv_spec d B.
Proof.
  intros Hn H1 H2. apply hv_cover_eq; [exact Hn | now apply (nnP_incl A) | now apply cover_incl | now apply cover_incl].
Qed.

Lemma nnP_insert P1 P2 p : nnP (P1 ++ P2) -> nnpt p -> nnP (P1 ++ p :: P2).
Proof.
  intros Hn Hp q Hq. apply in_app_or in Hq. destruct Hq as [Hq|[<-|Hq]]; [| exact Hp |];
    apply Hn; apply in_or_app; auto.
Qed.

(* adding (anywhere in the list) a point that is no better than some member in every
   coordinate changes nothing *)
Theorem hv_spec_dominated d P1 P2 p q :
  nnP (P1 ++ P2) -> nnpt p -> In q (P1 ++ P2) -> (forall i, (i < d)%nat -> coord p i <= coord q i) ->
  hv_spec d (P1 ++ p :: P2) == hv_spec d (P1 ++ P2).
Proof.
  intros Hn Hp Hq Hle. apply hv_cover_eq; [now apply nnP_insert | exact Hn | |].
  - intros a Ha. apply in_app_or in Ha. destruct Ha as [Ha|[<-|Ha]].
    + exists a. split; [apply in_or_app; now left | intros; lra].
    + exists q. split; [exact Hq | exact Hle].
    + exists a. split; [apply in_or_app; now right | intros; lra].
  - apply cover_incl. intros a Ha. apply in_app_or in Ha. apply in_or_app. destruct Ha; [now left | right; now right].
Qed.

(* a duplicate: a different list entry with the same coordinates *)
Theorem hv_spec_duplicate d P1 P2 p q :
  nnP (P1 ++ P2) -> In q (P1 ++ P2) -> (forall i, (i < d)%nat -> coord p i == coord q i) -> nnpt p ->
  hv_spec d (P1 ++ p :: P2) == hv_spec d (P1 ++ P2).
Proof.
  intros Hn Hq He Hp. apply (hv_spec_dominated d P1 P2 p q); auto. intros i Hi. rewrite (He i Hi). lra.
Qed.

(* the same entry listed once more *)
Theorem hv_spec_repeated d P1 P2 p :
  nnP (P1 ++ P2) -> In p (P1 ++ P2) -> hv_spec d (P1 ++ p :: P2) == hv_spec d (P1 ++ P2).
Proof.
  intros Hn Hp. apply (hv_spec_dominated d P1 P2 p p); auto. intros; lra.
Qed.

(* adding a point never decreases the value *)
Theorem hv_spec_monotone d P1 P2 p :
  nnP (P1 ++ P2) -> nnpt p -> hv_spec d (P1 ++ P2) <= hv_spec d (P1 ++ p :: P2).
Proof.
  intros Hn Hp. apply hv_cover; [exact Hn | now apply nnP_insert |].
  apply cover_incl. intros a Ha. apply in_app_or in Ha. apply in_or_app. destruct Ha; [now left | right; now right].
Qed.

(* one box: the product of its coordinates *)
Fixpoint boxvol (d : nat) (p : point) : Q :=
  match d with O => 1 | S k => boxvol k p * coord p k end.

Lemma hv_single : forall d p, hv_spec d [p] == boxvol d p.
Proof.
  induction d as [|d IH]; intro p; [reflexivity|].
  rewrite hv_S. simpl length. rewrite peel_cons. simpl peel. simpl boxvol.
  unfold lastmin. simpl qmin_from. rewrite IH. ring.
Qed.

Lemma boxvol_range : forall d p, (forall i, (i < d)%nat -> 0 <= coord p i <= 1) -> 0 <= boxvol d p <= 1.
Proof.
  induction d as [|d IH]; intros p Hr; simpl; [lra|].
  assert (0 <= boxvol d p <= 1) by (apply IH; intros; apply Hr; lia).
  pose proof (Hr d (Nat.lt_succ_diag_r d)). nra.
Qed.

Lemma coord_repeat : forall d i, coord (repeat 1 d) i = if (i <? d)%nat then 1 else 0.
Proof.
  induction d as [|d IH]; intro i; [destruct i; reflexivity|].
  destruct i; [reflexivity|]. simpl repeat. unfold coord. simpl nth.
  specialize (IH i). unfold coord in IH. rewrite IH. reflexivity.
Qed.

(* the value lies in [0,1] when the coordinates do *)
Theorem hv_spec_range d P :
  nnP P -> (forall p i, In p P -> (i < d)%nat -> coord p i <= 1) -> 0 <= hv_spec d P <= 1.
Proof.
  intros Hn H1. split; [now apply hv_nonneg|].
  set (u := repeat 1 d).
  assert (Hu : nnpt u).
  { intro i. unfold u. rewrite coord_repeat. destruct (i <? d)%nat; lra. }
  assert (Hc : cover d P [u]).
  { intros a Ha. exists u. split; [now left|]. intros i Hi. unfold u. rewrite coord_repeat.
    rewrite (proj2 (Nat.ltb_lt i d) Hi). now apply H1. }
  pose proof (hv_cover d P [u] Hn (nnP_cons u [] Hu (fun _ F => match F with end)) Hc) as HH.
  rewrite hv_single in HH.
  assert (0 <= boxvol d u <= 1).
  { apply boxvol_range. intros i Hi. unfold u. rewrite coord_repeat. rewrite (proj2 (Nat.ltb_lt i d) Hi). lra. }
  lra.
Qed.

(* ================= Part C: refinement ================= *)

(* ---------- the array ---------- *)
Lemma aset_length a : forall i v, length (aset a i v) = length a.
Proof. induction a as [|x r IH]; intros [|i] v; simpl; auto. Qed.

Lemma aget_aset a : forall i v t, (i < length a)%nat ->
  aget (aset a i v) t = if (t =? i)%nat then v else aget a t.
Proof.
  unfold aget. induction a as [|x r IH]; intros i v t Hi; simpl in Hi; [lia|].
  destruct i as [|i]; destruct t as [|t]; simpl; try reflexivity.
  apply IH. lia.
Qed.

Lemma swap_length a i j : length (swap a i j) = length a.
Proof. unfold swap. now rewrite !aset_length. Qed.

Lemma aget_swap a i j t : (i < length a)%nat -> (j < length a)%nat ->
  aget (swap a i j) t = if (t =? j)%nat then aget a i else if (t =? i)%nat then aget a j else aget a t.
Proof.
  intros Hi Hj. unfold swap. rewrite aget_aset by (now rewrite aset_length).
  destruct (t =? j)%nat; [reflexivity|]. now rewrite aget_aset.
Qed.

Lemma nnpt_nil : nnpt [].
Proof. intro i. unfold coord. destruct i; simpl; lra. Qed.

(* x occurs among the first n entries *)
Definition inz (a : list point) (n : nat) (x : point) : Prop := exists t, (t < n)%nat /\ aget a t = x.
Definition same_zone (a a' : list point) (n : nat) : Prop := forall x, inz a n x <-> inz a' n x.
Definition frame (a a' : list point) (n : nat) : Prop :=
  length a' = length a /\ forall t, (n <= t)%nat -> aget a' t = aget a t.
Definition nnA (a : list point) : Prop := forall t, nnpt (aget a t).

Lemma same_zone_refl a n : same_zone a a n.
Proof. intro x. reflexivity. Qed.
Lemma same_zone_trans a b c n : same_zone a b n -> same_zone b c n -> same_zone a c n.
Proof. intros H1 H2 x. rewrite (H1 x). apply H2. Qed.
Lemma same_zone_sym a b n : same_zone a b n -> same_zone b a n.
Proof. intros H1 x. symmetry. apply H1. Qed.
Lemma frame_refl a n : frame a a n.
Proof. split; auto. Qed.
Lemma frame_trans a b c n : frame a b n -> frame b c n -> frame a c n.
Proof. intros [L1 F1] [L2 F2]. split; [congruence|]. intros t Ht. rewrite F2, F1; auto. Qed.

Lemma inz_S a n x : inz a (S n) x <-> inz a n x \/ aget a n = x.
Proof.
  split.
  - intros [t [Ht E]]. destruct (Nat.eq_dec t n) as [->|Hne]; [now right|]. left. exists t. split; [lia | exact E].
  - intros [[t [Ht E]]|E]; [exists t; split; [lia | exact E] | exists n; split; [lia | exact E]].
Qed.

Lemma inz_mono a n m x : (n <= m)%nat -> inz a n x -> inz a m x.
Proof. intros Hnm [t [Ht E]]. exists t. split; [lia | exact E]. Qed.

(* a change confined to the first m entries is also a change confined to the first n >= m *)
Lemma zone_extend a a' m n : (m <= n)%nat -> frame a a' m -> same_zone a a' m -> frame a a' n /\ same_zone a a' n.
Proof.
  intros Hmn [L F] Z. split.
  - split; [exact L|]. intros t Ht. apply F. lia.
  - intro x. split; intros [t [Ht E]].
    + destruct (Nat.lt_ge_cases t m) as [Lt|Ge].
      * assert (Hi : inz a m x) by (exists t; auto). apply Z in Hi. now apply inz_mono with m.
      * exists t. split; [exact Ht|]. now rewrite F.
    + destruct (Nat.lt_ge_cases t m) as [Lt|Ge].
      * assert (Hi : inz a' m x) by (exists t; auto). apply Z in Hi. now apply inz_mono with m.
      * exists t. split; [exact Ht|]. now rewrite <- F.
Qed.

Lemma swap_zone a i j n : (i < n)%nat -> (j < n)%nat -> (n <= length a)%nat ->
  frame a (swap a i j) n /\ same_zone a (swap a i j) n.
Proof.
  intros Hi Hj Hn. split.
  - split; [apply swap_length|]. intros t Ht. rewrite aget_swap by lia.
    destruct (Nat.eqb_spec t j); [lia|]. destruct (Nat.eqb_spec t i); [lia|]. reflexivity.
  - intro x. split; intros [t [Ht E]].
    + destruct (Nat.eq_dec t i) as [->|Hti]; [|destruct (Nat.eq_dec t j) as [->|Htj]].
      * exists j. split; [exact Hj|]. rewrite aget_swap by lia. rewrite Nat.eqb_refl. exact E.
      * exists i. split; [exact Hi|]. rewrite aget_swap by lia.
        destruct (Nat.eqb_spec i j) as [e|e]; [rewrite e; exact E|]. rewrite Nat.eqb_refl. exact E.
      * exists t. split; [exact Ht|]. rewrite aget_swap by lia.
        destruct (Nat.eqb_spec t j); [lia|]. destruct (Nat.eqb_spec t i); [lia|]. exact E.
    + rewrite aget_swap in E by lia.
      destruct (Nat.eqb_spec t j); [exists i; auto|]. destruct (Nat.eqb_spec t i); [exists j; auto|]. exists t; auto.
Qed.

Lemma nnA_preserved a a' n : nnA a -> frame a a' n -> same_zone a a' n -> nnA a'.
Proof.
  intros Hn [L F] Z t. destruct (Nat.lt_ge_cases t n) as [Lt|Ge].
  - assert (Hi : inz a' n (aget a' t)) by (exists t; auto). apply Z in Hi. destruct Hi as [s [_ E]].
    rewrite <- E. apply Hn.
  - rewrite F by exact Ge. apply Hn.
Qed.

Lemma in_firstn_inz a : forall n x, (n <= length a)%nat -> (In x (firstn n a) <-> inz a n x).
Proof.
  unfold inz, aget. induction a as [|y r IH]; intros n x Hn; simpl in Hn.
  - assert (n = 0)%nat by lia. subst. simpl. split; [contradiction | intros [t [Ht _]]; lia].
  - destruct n as [|n]; simpl.
    + split; [contradiction | intros [t [Ht _]]; lia].
    + rewrite IH by lia. split.
      * intros [<-|[t [Ht E]]]; [exists 0%nat; split; [lia | reflexivity] | exists (S t); split; [lia | exact E]].
      * intros [[|t] [Ht E]]; [now left | right; exists t; split; [lia | exact E]].
Qed.

Lemma nnP_firstn a n : nnA a -> (n <= length a)%nat -> nnP (firstn n a).
Proof.
  intros Hn Hl p Hp. apply in_firstn_inz in Hp; [|exact Hl]. destruct Hp as [t [_ E]]. rewrite <- E. apply Hn.
Qed.

(* ---------- dominates ---------- *)
Lemma dom_scan_spec p q : forall n s b,
  dom_scan p q (seq s n) b = true <->
  ((b = true \/ (0 < n)%nat) /\ forall i, (s <= i < s + n)%nat -> coord q i < coord p i).
Proof.
  induction n as [|n IH]; intros s b; simpl.
  - split.
    + intro E. split; [now left | intros; lia].
    + intros [[E|E] _]; [exact E | lia].
  - destruct (Qltb (coord q s) (coord p s)) eqn:E.
    + rewrite IH. apply Qltb_lt in E. split.
      * intros [_ Hall]. split; [right; lia|]. intros i Hi.
        destruct (Nat.eq_dec i s) as [->|Hne]; [exact E | apply Hall; lia].
      * intros [_ Hall]. split; [now left|]. intros i Hi. apply Hall. lia.
    + apply Qltb_false in E. split; [discriminate|].
      intros [_ Hall]. specialize (Hall s ltac:(lia)). lra.
Qed.

Lemma dominates_spec p q k :
  dominates p q k = true <-> ((0 < k)%nat /\ forall i, (i < k)%nat -> coord q i < coord p i).
Proof.
  unfold dominates. rewrite dom_scan_spec. split.
  - intros [[E|E] Hall]; [discriminate|]. split; [exact E|]. intros i Hi. apply Hall. lia.
  - intros [E Hall]. split; [now right|]. intros i Hi. apply Hall. lia.
Qed.

Lemma dominates_trans p q r k : dominates p q k = true -> dominates q r k = true -> dominates p r k = true.
Proof.
  rewrite !dominates_spec. intros [K H1] [_ H2]. split; [exact K|]. intros i Hi.
  specialize (H1 i Hi). specialize (H2 i Hi). lra.
Qed.

(* ---------- reduce_set ---------- *)
Lemma Qle_bool_false a b : Qle_bool a b = false -> b < a.
Proof.
  intro E. apply Qnot_le_lt. intro C. apply Qle_bool_iff in C. congruence.
Qed.

Lemma rs_loop_spec obj thr : forall fuel a i n, (n - i < fuel)%nat -> (n <= length a)%nat ->
  exists n' a', rs_loop fuel obj thr a i n = Ok (n', a') /\ (n' <= n)%nat /\
    frame a a' n /\ same_zone a a' n /\
    (forall t, (n' <= t < n)%nat -> coord (aget a' t) obj <= thr) /\
    (n' = n -> forall t, (i <= t < n)%nat -> thr < coord (aget a t) obj).
Proof.
  induction fuel as [|f IH]; intros a i n Hf Hn; [lia|].
  simpl. destruct (Nat.ltb_spec i n) as [Lt|Ge].
  - destruct (Qle_bool (coord (aget a i) obj) thr) eqn:E.
    + apply Qle_bool_iff in E.
      destruct (swap_zone a i (n - 1) n ltac:(lia) ltac:(lia) Hn) as [F0 Z0].
      destruct (IH (swap a i (n - 1)) (S i) (n - 1)%nat ltac:(lia) ltac:(rewrite swap_length; lia))
        as [n' [a' [R [Hle [F1 [Z1 [Rem _]]]]]]].
      destruct (zone_extend _ _ (n - 1) n ltac:(lia) F1 Z1) as [F2 Z2].
      exists n', a'. split; [exact R|]. split; [lia|]. split; [now apply frame_trans with (swap a i (n - 1))|].
      split; [now apply same_zone_trans with (swap a i (n - 1))|]. split; [|lia].
      intros t Ht. destruct (Nat.eq_dec t (n - 1)) as [->|Hne].
      * destruct F1 as [_ F1]. rewrite F1 by lia. rewrite aget_swap by lia. rewrite Nat.eqb_refl. exact E.
      * apply Rem. lia.
    + apply Qle_bool_false in E.
      destruct (IH a (S i) n ltac:(lia) Hn) as [n' [a' [R [Hle [F1 [Z1 [Rem Keep]]]]]]].
      exists n', a'. repeat split; try assumption; try apply F1; try apply Z1.
      intros En t Ht. destruct (Nat.eq_dec t i) as [->|Hne]; [exact E | apply Keep; [exact En | lia]].
  - exists n, a. split; [reflexivity|]. split; [lia|]. split; [apply frame_refl|]. split; [apply same_zone_refl|].
    split; intros; lia.
Qed.

Lemma reduce_set_spec a n obj thr : (n <= length a)%nat ->
  (exists t, (t < n)%nat /\ coord (aget a t) obj <= thr) ->
  exists n' a', reduce_set a n obj thr = Ok (n', a') /\ (n' < n)%nat /\
    frame a a' n /\ same_zone a a' n /\
    (forall x, inz a n x -> thr < coord x obj -> inz a' n' x).
Proof.
  intros Hn [t0 [Ht0 Hle0]]. unfold reduce_set.
  destruct (rs_loop_spec obj thr (S n) a 0 n ltac:(lia) Hn) as [n' [a' [R [Hle [F [Z [Rem Keep]]]]]]].
  exists n', a'. split; [exact R|].
  assert (Hlt : (n' < n)%nat).
  { destruct (Nat.eq_dec n' n) as [En|Hne]; [|lia]. specialize (Keep En t0 ltac:(lia)). lra. }
  split; [exact Hlt|]. split; [exact F|]. split; [exact Z|].
  intros x Hx Hgt. apply Z in Hx. destruct Hx as [t [Ht E]].
  destruct (Nat.lt_ge_cases t n') as [L|G]; [exists t; auto|].
  specialize (Rem t ltac:(lia)). rewrite E in Rem. lra.
Qed.

(* ---------- filter_nondominated ---------- *)
Ltac sw := repeat (rewrite aget_swap by lia);
           repeat match goal with |- context [(?x =? ?y)%nat] => destruct (Nat.eqb_spec x y); try lia end.

Section FND.
  Variable k : nat.   (* number of coordinates compared *)
  Definition domz (a : list point) (s t : nat) : bool := dominates (aget a s) (aget a t) k.
  (* every removed entry (positions n..n0-1) is dominated by an active one *)
  Definition domd (a : list point) (n n0 : nat) : Prop :=
    forall t, (n <= t < n0)%nat -> exists s, (s < n)%nat /\ domz a s t = true.
  Definition ndp (a : list point) (s t : nat) : Prop := domz a s t = false /\ domz a t s = false.
  Definition ndI (a : list point) (i n : nat) : Prop :=
    forall s t, (s < i)%nat -> (t < n)%nat -> s <> t -> ndp a s t.
  Definition ndJ (a : list point) (i j : nat) : Prop := forall t, (i < t < j)%nat -> ndp a i t.

  Lemma domd_swap_j a i j n n0 : (i < j)%nat -> (j < n)%nat -> (n <= n0)%nat -> (n0 <= length a)%nat ->
    domz a i j = true -> domd a n n0 -> domd (swap a j (n - 1)) (n - 1) n0.
  Proof.
    intros Hij Hjn Hn0 Hl D Hd t Ht. unfold domz in *.
    destruct (Nat.eq_dec t (n - 1)) as [->|Hne].
    - exists i. split; [lia|]. sw. exact D.
    - destruct (Hd t ltac:(lia)) as [s [Hs Ds]].
      destruct (Nat.eq_dec s j) as [->|Hsj]; [|destruct (Nat.eq_dec s (n - 1)) as [->|Hsn]].
      + exists i. split; [lia|]. sw. now apply dominates_trans with (aget a j).
      + exists j. split; [lia|]. sw. exact Ds.
      + exists s. split; [lia|]. sw. exact Ds.
  Qed.

  Lemma ndI_swap_j a i j n : (i < j)%nat -> (j < n)%nat -> (n <= length a)%nat ->
    ndI a i n -> ndI (swap a j (n - 1)) i (n - 1).
  Proof.
    intros Hij Hjn Hl HI s t Hs Ht Hst. unfold ndp, domz in *.
    destruct (Nat.eq_dec t j) as [->|Htj].
    - specialize (HI s (n - 1)%nat Hs ltac:(lia) ltac:(lia)). sw. exact HI.
    - specialize (HI s t Hs ltac:(lia) Hst). sw. exact HI.
  Qed.

  Lemma ndJ_swap_j a i j n : (i < j)%nat -> (j < n)%nat -> (n <= length a)%nat ->
    ndJ a i j -> ndJ (swap a j (n - 1)) i j.
  Proof.
    intros Hij Hjn Hl HJ t Ht. unfold ndp, domz in *. specialize (HJ t Ht). sw. exact HJ.
  Qed.

  Lemma domd_swap_i a i j n n0 : (i < j)%nat -> (j < n)%nat -> (n <= n0)%nat -> (n0 <= length a)%nat ->
    domz a j i = true -> domd a n n0 -> domd (swap a i (n - 1)) (n - 1) n0.
  Proof.
    intros Hij Hjn Hn0 Hl D Hd t Ht. unfold domz in *.
    (* where the dominating entry a[j] sits after the swap *)
    assert (Hw : exists w, (w < n - 1)%nat /\ aget (swap a i (n - 1)) w = aget a j).
    { destruct (Nat.eq_dec j (n - 1)) as [->|Hne].
      - exists i. split; [lia|]. sw. reflexivity.
      - exists j. split; [lia|]. sw. reflexivity. }
    destruct Hw as [w [Hw Ew]].
    destruct (Nat.eq_dec t (n - 1)) as [->|Hne].
    - exists w. split; [exact Hw|]. rewrite Ew. sw. exact D.
    - destruct (Hd t ltac:(lia)) as [s [Hs Ds]].
      destruct (Nat.eq_dec s i) as [->|Hsi]; [|destruct (Nat.eq_dec s (n - 1)) as [->|Hsn]].
      + exists w. split; [exact Hw|]. rewrite Ew. sw. now apply dominates_trans with (aget a i).
      + exists i. split; [lia|]. sw. exact Ds.
      + exists s. split; [lia|]. sw. exact Ds.
  Qed.

  Lemma ndI_swap_i a i n : (i < n - 1)%nat -> (n <= length a)%nat ->
    ndI a i n -> ndI (swap a i (n - 1)) i (n - 1).
  Proof.
    intros Hin Hl HI s t Hs Ht Hst. unfold ndp, domz in *.
    destruct (Nat.eq_dec t i) as [->|Hti].
    - specialize (HI s (n - 1)%nat Hs ltac:(lia) ltac:(lia)). sw. exact HI.
    - specialize (HI s t Hs ltac:(lia) Hst). sw. exact HI.
  Qed.

  Lemma fnd_inner_spec n0 : forall fuel a i j n,
    (n - j < fuel)%nat -> (i < j)%nat -> (j <= n)%nat -> (n <= n0)%nat -> (n0 <= length a)%nat ->
    domd a n n0 -> ndI a i n -> ndJ a i j ->
    exists brk n' a', fnd_inner fuel k a i j n = Ok (brk, n', a') /\
      (i < n')%nat /\ (n' <= n)%nat /\ (brk = true -> (n' < n)%nat) /\
      frame a a' n0 /\ same_zone a a' n0 /\
      domd a' n' n0 /\ ndI a' i n' /\ (brk = false -> ndJ a' i n').
  Proof.
    induction fuel as [|f IH]; intros a i j n Hf Hij Hjn Hn0 Hl Hd HI HJ; [lia|].
    simpl. destruct (Nat.ltb_spec j n) as [Lt|Ge].
    - destruct (dominates (aget a i) (aget a j) k) eqn:D1.
      + destruct (swap_zone a j (n - 1) n ltac:(lia) ltac:(lia) ltac:(lia)) as [F0 Z0].
        destruct (zone_extend _ _ n n0 Hn0 F0 Z0) as [F0' Z0'].
        destruct (IH (swap a j (n - 1)) i j (n - 1)%nat ltac:(lia) Hij ltac:(lia) ltac:(lia)
                    ltac:(rewrite swap_length; lia)
                    (domd_swap_j a i j n n0 Hij Lt Hn0 Hl D1 Hd)
                    (ndI_swap_j a i j n Hij Lt ltac:(lia) HI)
                    (ndJ_swap_j a i j n Hij Lt ltac:(lia) HJ))
          as [brk [n' [a' [R [A1 [A2 [A3 [F1 [Z1 [B1 [B2 B3]]]]]]]]]]].
        exists brk, n', a'. split; [exact R|]. split; [exact A1|]. split; [lia|]. split; [intro; lia|].
        split; [now apply frame_trans with (swap a j (n - 1))|].
        split; [now apply same_zone_trans with (swap a j (n - 1))|]. auto.
      + destruct (dominates (aget a j) (aget a i) k) eqn:D2.
        * destruct (swap_zone a i (n - 1) n ltac:(lia) ltac:(lia) ltac:(lia)) as [F0 Z0].
          destruct (zone_extend _ _ n n0 Hn0 F0 Z0) as [F0' Z0'].
          exists true, (n - 1)%nat, (swap a i (n - 1)). split; [reflexivity|].
          split; [lia|]. split; [lia|]. split; [intro; lia|]. split; [exact F0'|]. split; [exact Z0'|].
          split; [exact (domd_swap_i a i j n n0 Hij Lt Hn0 Hl D2 Hd)|].
          split; [apply ndI_swap_i; [lia | lia | exact HI] | discriminate].
        * apply IH; try lia; try assumption.
          intros t Ht. destruct (Nat.eq_dec t j) as [->|Hne]; [split; assumption | apply HJ; lia].
    - exists false, n, a. split; [reflexivity|]. split; [lia|]. split; [lia|]. split; [discriminate|].
      split; [apply frame_refl|]. split; [apply same_zone_refl|]. split; [exact Hd|]. split; [exact HI|].
      intros _ t Ht. apply HJ. lia.
  Qed.

  Lemma fnd_outer_spec n0 : forall fuel a i n,
    (2 * n - i < fuel)%nat -> (i <= n)%nat -> (n <= n0)%nat -> (n0 <= length a)%nat -> (1 <= n)%nat ->
    domd a n n0 -> ndI a i n ->
    exists n' a', fnd_outer fuel k a i n = Ok (n', a') /\
      (1 <= n')%nat /\ (n' <= n)%nat /\ frame a a' n0 /\ same_zone a a' n0 /\
      domd a' n' n0 /\ ndI a' n' n'.
  Proof.
    induction fuel as [|f IH]; intros a i n Hf Hin Hn0 Hl H1 Hd HI; [lia|].
    cbn [fnd_outer]. destruct (Nat.ltb_spec i n) as [Lt|Ge].
    - destruct (fnd_inner_spec n0 (S n) a i (S i) n ltac:(lia) ltac:(lia) ltac:(lia) Hn0 Hl Hd HI
                  ltac:(intros t Ht; lia))
        as [brk [n1 [a1 [R [A1 [A2 [A3 [F1 [Z1 [B1 [B2 B3]]]]]]]]]]].
      rewrite R. cbn [bind].
      assert (Hl1 : (n0 <= length a1)%nat) by (destruct F1 as [L _]; lia).
      destruct brk.
      + specialize (A3 eq_refl).
        destruct (IH a1 i n1 ltac:(lia) ltac:(lia) ltac:(lia) Hl1 ltac:(lia) B1 B2)
          as [n' [a' [R' [C1 [C2 [F2 [Z2 [D1 D2]]]]]]]].
        exists n', a'. split; [exact R'|]. split; [exact C1|]. split; [lia|].
        split; [now apply frame_trans with a1|]. split; [now apply same_zone_trans with a1 | auto].
      + specialize (B3 eq_refl).
        assert (HI' : ndI a1 (S i) n1).
        { intros s t Hs Ht Hst. destruct (Nat.eq_dec s i) as [->|Hne].
          - destruct (Nat.lt_ge_cases i t) as [L|G]; [apply B3; lia|].
            assert (Hti : (t < i)%nat) by lia.
            destruct (B2 t i Hti ltac:(lia) ltac:(lia)) as [X Y]. split; assumption.
          - apply B2; [lia | exact Ht | exact Hst]. }
        destruct (IH a1 (S i) n1 ltac:(lia) ltac:(lia) ltac:(lia) Hl1 ltac:(lia) B1 HI')
          as [n' [a' [R' [C1 [C2 [F2 [Z2 [D1 D2]]]]]]]].
        exists n', a'. split; [exact R'|]. split; [exact C1|]. split; [lia|].
        split; [now apply frame_trans with a1|]. split; [now apply same_zone_trans with a1 | auto].
    - exists n, a. split; [reflexivity|]. split; [exact H1|]. split; [lia|]. split; [apply frame_refl|].
      split; [apply same_zone_refl|]. split; [exact Hd|].
      assert (i = n) by lia. subst. exact HI.
  Qed.

  Lemma filter_nondominated_spec a n : (1 <= n)%nat -> (n <= length a)%nat ->
    exists n' a', filter_nondominated a n k = Ok (n', a') /\
      (1 <= n')%nat /\ (n' <= n)%nat /\ frame a a' n /\ same_zone a a' n /\
      domd a' n' n /\ ndI a' n' n'.
  Proof.
    intros H1 Hl. unfold filter_nondominated.
    apply (fnd_outer_spec n (2 * n + 1) a 0 n); try lia.
    - intros t Ht. lia.
    - intros s t Hs. lia.
  Qed.
End FND.

(* ---------- surface_unchanged_to ---------- *)
Lemma surface_spec a n k : (1 <= n)%nat ->
  exists m, surface_unchanged_to a n k = Ok m /\
    (forall t, (t < n)%nat -> m <= coord (aget a t) k) /\
    (exists t, (t < n)%nat /\ m = coord (aget a t) k).
Proof.
  intro H1. unfold surface_unchanged_to. destruct n as [|n]; [lia|].
  simpl seq. simpl map. simpl qminl.
  set (f := fun i : nat => coord (aget a i) k).
  exists (qmin_from (f 0%nat) (map f (seq 1 n))). split; [reflexivity|].
  destruct (qmin_from_le (f 0%nat) (map f (seq 1 n))) as [A B]. split.
  - intros t Ht. destruct t as [|t]; [exact A|]. apply B. apply (in_map f _ (S t)). apply in_seq. lia.
  - destruct (qmin_from_in (f 0%nat) (map f (seq 1 n))) as [E|E].
    + exists 0%nat. split; [lia | exact E].
    + apply in_map_iff in E. destruct E as [t [E Ht]]. apply in_seq in Ht. exists t. split; [lia | symmetry; exact E].
Qed.

(* ---------- calc_internal ---------- *)
(* what the `temp_volume = ...` branch must deliver: on a prefix whose entries are mutually
   non-dominated (first k coordinates) it returns hv_spec k of the prefix and only permutes it *)
Definition rec_ok (rec : list point -> nat -> res (Q * list point)) (k : nat) : Prop :=
  forall a n, (1 <= n)%nat -> (n <= length a)%nat -> nnA a -> ndI k a n n ->
    exists v a', rec a n = Ok (v, a') /\ v == hv_spec k (firstn n a) /\ frame a a' n /\ same_zone a a' n.

Definition lbz (k : nat) (a : list point) (n : nat) (b : Q) : Prop :=
  forall t, (t < n)%nat -> b <= coord (aget a t) k.

Lemma frame_length a a' n : frame a a' n -> length a' = length a.
Proof. now intros [L _]. Qed.

Lemma ci_loop_ok rec k (Hrec : rec_ok rec k) : forall fuel vol dist a n,
  (n <= fuel)%nat -> (n <= length a)%nat -> nnA a -> lbz k a n dist ->
  exists v a', ci_loop rec k fuel vol dist a n = Ok (v, a') /\
    v == vol + peel (hv_spec k) k n dist (firstn n a) /\ frame a a' n /\ same_zone a a' n.
Proof.
  induction fuel as [|f IH]; intros vol dist a n Hf Hl Hnn Hlb.
  - assert (n = 0)%nat by lia. subst. exists vol, a. split; [reflexivity|]. simpl.
    split; [ring|]. split; [apply frame_refl | apply same_zone_refl].
  - destruct n as [|n'].
    { exists vol, a. split; [reflexivity|]. simpl. split; [ring|]. split; [apply frame_refl | apply same_zone_refl]. }
    set (n := S n') in *.
    cbn [ci_loop]. replace (Nat.ltb 0 n) with true by (symmetry; apply Nat.ltb_lt; unfold n; lia).
    (* filter_nondominated *)
    destruct (filter_nondominated_spec k a n ltac:(unfold n; lia) Hl)
      as [n1 [a1 [R1 [N1 [N1' [F1 [Z1 [D1 I1]]]]]]]].
    rewrite R1. cbn [bind].
    pose proof (nnA_preserved a a1 n Hnn F1 Z1) as Hnn1.
    pose proof (frame_length _ _ _ F1) as L1.
    (* temp_volume *)
    destruct (Hrec a1 n1 N1 ltac:(lia) Hnn1 I1) as [tv [a2 [R2 [Etv [F2 Z2]]]]].
    rewrite R2. cbn [bind].
    destruct (zone_extend a1 a2 n1 n N1' F2 Z2) as [F2' Z2'].
    pose proof (nnA_preserved a1 a2 n Hnn1 F2' Z2') as Hnn2.
    pose proof (frame_length _ _ _ F2) as L2.
    (* surface_unchanged_to *)
    destruct (surface_spec a2 n k ltac:(unfold n; lia)) as [m [R3 [Lm [tm [Htm Em]]]]].
    rewrite R3. cbn [bind].
    (* reduce_set *)
    destruct (reduce_set_spec a2 n k m ltac:(lia) ltac:(exists tm; split; [exact Htm | rewrite Em; lra]))
      as [n3 [a3 [R4 [Hlt [F3 [Z3 Keep]]]]]].
    rewrite R4. cbn [bind].
    pose proof (nnA_preserved a2 a3 n Hnn2 F3 Z3) as Hnn3.
    pose proof (frame_length _ _ _ F3) as L3.
    assert (Z02 : same_zone a a2 n) by (apply same_zone_trans with a1; assumption).
    assert (Hlb3 : lbz k a3 n3 m).
    { intros t Ht. assert (Hi : inz a3 n (aget a3 t)) by (exists t; split; [lia | reflexivity]).
      apply Z3 in Hi. destruct Hi as [s [Hs E]]. rewrite <- E. now apply Lm. }
    destruct (IH (vol + tv * (m - dist)) m a3 n3 ltac:(lia) ltac:(lia) Hnn3 Hlb3)
      as [v [a' [R5 [Ev [F4 Z4]]]]].
    destruct (zone_extend a3 a' n3 n ltac:(lia) F4 Z4) as [F4' Z4'].
    exists v, a'. split; [exact R5|]. split.
    + (* the value *)
      set (A := firstn n a). set (A3 := firstn n3 a3).
      assert (LA : length A = n) by (apply firstn_length_le; exact Hl).
      assert (LA3 : length A3 = n3) by (apply firstn_length_le; lia).
      assert (SA : forall x, In x A <-> inz a2 n x).
      { intro x. unfold A. rewrite (in_firstn_inz a n x Hl). apply Z02. }
      assert (SA3 : forall x, In x A3 <-> inz a3 n3 x).
      { intro x. unfold A3. apply in_firstn_inz. lia. }
      assert (HnA : nnP A) by (apply nnP_firstn; assumption).
      assert (HnA3 : nnP A3) by (apply nnP_firstn; [assumption | lia]).
      assert (LbA : lb k m A).
      { intros x Hx. apply SA in Hx. destruct Hx as [t [Ht E]]. rewrite <- E. now apply Lm. }
      assert (LbA3 : lb k m A3).
      { intros x Hx. apply SA3 in Hx. destruct Hx as [t [Ht E]]. rewrite <- E. now apply Hlb3. }
      (* (i) cut the integral at m *)
      pose proof (peel_split (hv_spec k) k (hv_nil_eq k) n dist m A LbA ltac:(lia)) as S1.
      (* (ii) temp_volume = hv_spec k of all active points *)
      assert (S2 : tv == hv_spec k A).
      { rewrite Etv. apply hv_cover_eq.
        - apply nnP_firstn; [assumption | lia].
        - exact HnA.
        - apply cover_incl. intros x Hx. apply in_firstn_inz in Hx; [|lia].
          apply SA. apply Z2'. now apply inz_mono with n1.
        - intros x Hx. apply SA in Hx. apply Z2' in Hx. destruct Hx as [t [Ht E]].
          destruct (Nat.lt_ge_cases t n1) as [L|G].
          + exists x. split; [apply in_firstn_inz; [lia | exists t; auto] | intros; lra].
          + destruct (D1 t ltac:(lia)) as [s [Hs Ds]]. unfold domz in Ds. rewrite E in Ds.
            apply dominates_spec in Ds. destruct Ds as [_ Ds].
            exists (aget a1 s). split; [apply in_firstn_inz; [lia | exists s; auto]|].
            intros i Hi. specialize (Ds i Hi). lra. }
      (* (iii) what is left after reduce_set *)
      pose proof (peel_split (hv_spec k) k (hv_nil_eq k) n3 m m A3 LbA3 ltac:(lia)) as S3.
      assert (S4 : peel (hv_spec k) k n3 m (above k m A3) == peel (hv_spec k) k n m (above k m A)).
      { assert (I1' : incl (above k m A3) (above k m A)).
        { intros x Hx. apply filter_In in Hx. destruct Hx as [Hx Gx]. apply filter_In. split; [|exact Gx].
          apply SA. apply Z3. apply inz_mono with n3; [lia|]. now apply SA3. }
        assert (I2' : incl (above k m A) (above k m A3)).
        { intros x Hx. apply filter_In in Hx. destruct Hx as [Hx Gx]. apply filter_In. split; [|exact Gx].
          apply SA3. apply Keep; [now apply SA | now apply Qltb_lt]. }
        pose proof (filter_length_le (fun q => Qltb m (coord q k)) A3) as LL3.
        pose proof (filter_length_le (fun q => Qltb m (coord q k)) A) as LL.
        apply Qle_antisym.
        - apply (peel_cover (hv_spec k) k (hv_nil_eq k) (hv_nonneg k) (hv_cover k)
                   (length (above k m A3) + length (above k m A))); unfold above in *; try lia;
            try (now apply nnP_filter); try apply lb_above. now apply cover_incl.
        - apply (peel_cover (hv_spec k) k (hv_nil_eq k) (hv_nonneg k) (hv_cover k)
                   (length (above k m A) + length (above k m A3))); unfold above in *; try lia;
            try (now apply nnP_filter); try apply lb_above. now apply cover_incl. }
      rewrite Ev. fold A3. rewrite S3, S4, S1, S2. ring.
    + split.
      * apply frame_trans with a3; [|exact F4']. apply frame_trans with a2; [|exact F3].
        apply frame_trans with a1; assumption.
      * apply same_zone_trans with a3; [|exact Z4']. apply same_zone_trans with a2; assumption.
Qed.

Lemma dominates1_false p q : dominates p q 1 = false -> coord p 0 <= coord q 0.
Proof.
  intro E. destruct (Qlt_le_dec (coord q 0) (coord p 0)) as [L|G]; [|exact G].
  assert (T : dominates p q 1 = true).
  { apply dominates_spec. split; [lia|]. intros i Hi. assert (i = 0)%nat by lia. now subst. }
  congruence.
Qed.

(* base of the recursion (nobjs = 2): after filter_nondominated on coordinate 0 every active
   entry carries the maximal coordinate 0, so solutions[0][0] is the 1-dimensional measure *)
Lemma rec_base_ok : rec_ok (fun a1 _ => Ok (coord (aget a1 0) 0, a1)) 1.
Proof.
  intros a n H1 Hl Hnn Hnd. exists (coord (aget a 0) 0), a. split; [reflexivity|].
  split; [|split; [apply frame_refl | apply same_zone_refl]].
  assert (E : hv_spec 1 (firstn n a) == hv_spec 1 [aget a 0%nat]).
  { apply hv_cover_eq.
    - now apply nnP_firstn.
    - intros p [<-|[]]. apply Hnn.
    - intros x Hx. apply in_firstn_inz in Hx; [|exact Hl]. destruct Hx as [t [Ht Ex]].
      exists (aget a 0%nat). split; [now left|]. intros i Hi. assert (i = 0)%nat by lia. subst i.
      destruct (Nat.eq_dec t 0) as [->|Hne]; [rewrite Ex; lra|].
      destruct (Hnd 0%nat t ltac:(lia) Ht ltac:(lia)) as [_ X]. unfold domz in X.
      apply dominates1_false in X. rewrite Ex in X. exact X.
    - apply cover_incl. intros x [<-|[]]. apply in_firstn_inz; [exact Hl|]. exists 0%nat. split; [lia | reflexivity]. }
  rewrite E, hv_single. simpl. ring.
Qed.

(* REFINEMENT of the recursive slicing: for every number of objectives >= 2 the literal
   array model returns hv_spec of the active prefix (fuel suffices), permuting only it *)
Theorem calc_internal_ok : forall D a n, (2 <= D)%nat -> (n <= length a)%nat -> nnA a ->
  exists v a', calc_internal D a n = Ok (v, a') /\ v == hv_spec D (firstn n a) /\
               frame a a' n /\ same_zone a a' n.
Proof.
  induction D as [|k IH]; intros a n HD Hl Hnn; [lia|].
  destruct k as [|k']; [lia|].
  assert (Hrec : rec_ok (if Nat.ltb (S (S k')) 3
                         then (fun a1 _ => Ok (coord (aget a1 0) 0, a1))
                         else calc_internal (S k')) (S k')).
  { destruct k' as [|k'']; [exact rec_base_ok|].
    intros a0 n0 _ Hl0 Hnn0 _. apply IH; [lia | exact Hl0 | exact Hnn0]. }
  cbn [calc_internal].
  destruct (ci_loop_ok _ (S k') Hrec n 0 0 a n (Nat.le_refl n) Hl Hnn ltac:(intros t Ht; apply Hnn))
    as [v [a' [R [Ev [F Z]]]]].
  exists v, a'. split; [exact R|]. split; [|split; assumption].
  rewrite Ev, hv_S. rewrite (firstn_length_le a Hl). ring.
Qed.

(* ---------- the calculate pipeline ---------- *)
Lemma filterM_ok {A} (f : A -> res bool) (g : A -> bool) l :
  (forall x, In x l -> f x = Ok (g x)) -> filterM f l = Ok (filter g l).
Proof.
  induction l as [|a r IH]; intro Hf; [reflexivity|].
  simpl. rewrite (Hf a (or_introl eq_refl)). simpl. rewrite IH by (intros x Hx; apply Hf; now right).
  simpl. reflexivity.
Qed.

Definition keepb (dirs : list bool) (v : list Q) : bool :=
  forallb (fun b : bool => b) (zip2 not_worse_than_nadir dirs v).
Definition goodv (dirs : list bool) (v : list Q) : list Q := zip2 goodness dirs v.

Lemma keep_scan_ok : forall v pre ds, length ds = length v ->
  keep_scan repaired (pre ++ ds) (length pre) v = Ok (keepb ds v).
Proof.
  induction v as [|o r IH]; intros pre ds Hl.
  - destruct ds; [reflexivity | discriminate].
  - destruct ds as [|mx ds]; [discriminate|]. simpl in Hl.
    cbn [keep_scan repaired fx_dirs].
    unfold nth_res. rewrite nth_error_app2 by lia. rewrite Nat.sub_diag. cbn [nth_error bind].
    replace (pre ++ mx :: ds) with ((pre ++ [mx]) ++ ds) by (rewrite <- app_assoc; reflexivity).
    replace (S (length pre)) with (length (pre ++ [mx])) by (rewrite app_length; simpl; lia).
    rewrite IH by lia. cbn [bind]. reflexivity.
Qed.

Lemma zip2_as_map {A B C} (f : A -> B -> C) da db : forall n a b,
  length a = n -> length b = n ->
  zip2 f a b = map (fun i => f (nth i a da) (nth i b db)) (seq 0 n).
Proof.
  induction n as [|n IH]; intros a b Ha Hb.
  - destruct a; [reflexivity | discriminate].
  - destruct a as [|x a]; [discriminate|]. destruct b as [|y b]; [discriminate|].
    simpl. f_equal. rewrite <- seq_shift, map_map. apply IH; simpl in *; lia.
Qed.

Lemma invert_vec_ok nobjs dirs v : length dirs = nobjs -> length v = nobjs ->
  invert_vec repaired nobjs dirs v = Ok (goodv dirs v).
Proof.
  intros Hd Hv. unfold invert_vec, goodv. rewrite (zip2_as_map goodness false 0 nobjs dirs v Hd Hv).
  apply mapM_ok_map. intros i Hi. apply in_seq in Hi.
  rewrite (nth_res_ok dirs i false) by lia. rewrite (nth_res_ok v i 0) by lia. reflexivity.
Qed.

Lemma goodv_length dirs v n : length dirs = n -> length v = n -> length (goodv dirs v) = n.
Proof.
  intros Hd Hv. unfold goodv. rewrite (zip2_as_map goodness false 0 n dirs v Hd Hv).
  now rewrite map_length, seq_length.
Qed.

Lemma clip01_range x : 0 <= clip01 x <= 1.
Proof.
  unfold clip01. destruct (Qltb x 1) eqn:E1.
  - apply Qltb_lt in E1. destruct (Qltb 0 x) eqn:E2; [apply Qltb_lt in E2; lra | lra].
  - destruct (Qltb 0 1) eqn:E2; [lra | apply Qltb_false in E2; lra].
Qed.

Lemma goodness_range mx x : 0 <= goodness mx x <= 1.
Proof. unfold goodness. pose proof (clip01_range x). destruct mx; lra. Qed.

Lemma coord_goodv : forall dirs v i, 0 <= coord (goodv dirs v) i <= 1.
Proof.
  unfold coord, goodv. induction dirs as [|mx ds IH]; intros v i.
  - simpl. destruct i; simpl; lra.
  - destruct v as [|x r]; [simpl; destruct i; simpl; lra|].
    destruct i as [|i]; simpl; [apply goodness_range | apply IH].
Qed.

Lemma nnA_goodv {A} dirs (f : A -> list Q) l : nnA (map (fun s => goodv dirs (f s)) l).
Proof.
  unfold nnA, aget. induction l as [|x r IH]; intro t.
  - destruct t; apply nnpt_nil.
  - destruct t as [|t]; simpl; [intro i; apply coord_goodv | apply IH].
Qed.

(* {id(s): s for s in feasible}.values() *)
Lemma dedup_sid_spec : forall l seen,
  incl (dedup_sid seen l) l /\
  (forall s, In s (dedup_sid seen l) -> ~ In (s_sid s) seen) /\
  NoDup (map s_sid (dedup_sid seen l)) /\
  (forall s, In s l -> ~ In (s_sid s) seen -> exists s', In s' (dedup_sid seen l) /\ s_sid s' = s_sid s).
Proof.
  induction l as [|x r IH]; intro seen; simpl.
  - split; [apply incl_refl|]. split; [contradiction|]. split; [constructor | contradiction].
  - destruct (existsb (Nat.eqb (s_sid x)) seen) eqn:E.
    + destruct (IH seen) as [A [B [C D]]]. split; [now apply incl_tl|]. split; [exact B|]. split; [exact C|].
      intros s [<-|Hs] Hns; [|now apply D].
      exfalso. apply Hns. apply existsb_exists in E. destruct E as [k [Hk Ek]]. apply Nat.eqb_eq in Ek. now rewrite Ek.
    + assert (Hx : ~ In (s_sid x) seen).
      { intro Hin. assert (existsb (Nat.eqb (s_sid x)) seen = true).
        { apply existsb_exists. exists (s_sid x). split; [exact Hin | apply Nat.eqb_refl]. } congruence. }
      destruct (IH (s_sid x :: seen)) as [A [B [C D]]]. split.
      { intros s [<-|Hs]; [now left | right; now apply A]. }
      split.
      { intros s [<-|Hs]; [exact Hx|]. intro Hin. apply (B s Hs). now right. }
      split.
      { simpl. constructor; [|exact C]. intro Hin. apply in_map_iff in Hin. destruct Hin as [s [Es Hs]].
        apply (B s Hs). left. now symmetry. }
      intros s [<-|Hs] Hns; [exists x; split; [now left | reflexivity]|].
      destruct (Nat.eq_dec (s_sid s) (s_sid x)) as [Ee|Ne].
      * exists x. split; [now left | now symmetry].
      * destruct (D s Hs) as [s' [Hs' Es']].
        { intros [Hc|Hc]; [now apply Ne | now apply Hns]. }
        exists s'. split; [now right | exact Es'].
Qed.

Lemma invert_all_ok nobjs dirs (N : isol -> list Q) : forall l st,
  NoDup (map s_sid l) -> (forall s, In s l -> store_get st (s_sid s) = Ok (N s)) ->
  (forall s, In s l -> length (N s) = nobjs) -> length dirs = nobjs ->
  exists st', invert_all repaired nobjs dirs st l = Ok st' /\
    (forall s, In s l -> store_get st' (s_sid s) = Ok (goodv dirs (N s))) /\
    (forall k, ~ In k (map s_sid l) -> store_get st' k = store_get st k).
Proof.
  induction l as [|x r IH]; intros st Hnd Hget Hlen Hd.
  - exists st. split; [reflexivity|]. split; [contradiction | reflexivity].
  - simpl in Hnd. inversion_clear Hnd as [|? ? Hnx Hndr].
    cbn [invert_all]. rewrite (Hget x (or_introl eq_refl)). cbn [bind].
    rewrite (invert_vec_ok nobjs dirs (N x) Hd (Hlen x (or_introl eq_refl))). cbn [bind].
    destruct (IH (store_set st (s_sid x) (goodv dirs (N x))) Hndr) as [st' [R [G O]]].
    + intros s Hs. rewrite store_get_set. destruct (Nat.eqb_spec (s_sid s) (s_sid x)) as [E|E].
      * exfalso. apply Hnx. rewrite <- E. now apply in_map.
      * apply Hget. now right.
    + intros s Hs. apply Hlen. now right.
    + exact Hd.
    + exists st'. split; [exact R|]. split.
      * intros s [<-|Hs]; [|now apply G]. rewrite (O (s_sid x) Hnx). rewrite store_get_set. now rewrite Nat.eqb_refl.
      * intros k Hk. rewrite O by (intro C; apply Hk; now right). rewrite store_get_set.
        destruct (Nat.eqb_spec k (s_sid x)) as [E|E]; [|reflexivity]. exfalso. apply Hk. left. now symmetry.
Qed.

(* spec_points as map/filter over the feasible members *)
Lemma spec_points_eq dirs mins maxs set :
  spec_points dirs mins maxs set =
  map (fun s => goodv dirs (normv mins maxs (s_objs s)))
      (filter (fun s => keepb dirs (normv mins maxs (s_objs s))) (feasible set)).
Proof.
  unfold spec_points, spec_norm. rewrite filter_map_comm, map_map. reflexivity.
Qed.

Lemma nnP_spec_points dirs mins maxs set : nnP (spec_points dirs mins maxs set).
Proof.
  rewrite spec_points_eq. intros p Hp. apply in_map_iff in Hp. destruct Hp as [s [<- _]].
  intro i. apply coord_goodv.
Qed.

Lemma spec_points_le1 dirs mins maxs set p i : In p (spec_points dirs mins maxs set) -> coord p i <= 1.
Proof.
  rewrite spec_points_eq. intro Hp. apply in_map_iff in Hp. destruct Hp as [s [<- _]]. apply coord_goodv.
Qed.

(* THE REFINEMENT THEOREM.  For every number of objectives >= 2, all direction vectors,
   all bounds that normalize accepts, every initial content of the objects'
   normalized_objectives attributes and every well-formed set (ties, duplicates, the same
   object listed several times, infeasible members, points beyond both bounds), the literal
   model of Hypervolume.calculate returns (never an error, never out of fuel) the measure
   of the union of the boxes of the points selected by the English statement. *)
Theorem hv_exact nobjs dirs mins maxs st set :
  (2 <= nobjs)%nat -> length dirs = nobjs -> length mins = nobjs -> length maxs = nobjs ->
  empty_range nobjs mins maxs = Ok false -> wf_set nobjs (feasible set) ->
  exists v st', hv_calculate repaired nobjs dirs mins maxs st set = Ok (v, st') /\
                v == hv_spec nobjs (spec_points dirs mins maxs set).
Proof.
  intros HD Hd Hlo Hhi He Hwf. unfold hv_calculate.
  set (N := fun s => normv mins maxs (s_objs s)).
  destruct (feasible set) as [|s0 r0] eqn:Efeas.
  - (* no feasible member *)
    rewrite normalize_nil. cbn [bind snd filterM].
    exists 0, st. split; [reflexivity|]. rewrite spec_points_eq. rewrite Efeas. simpl.
    now rewrite hv_nil.
  - set (feas := s0 :: r0) in *.
    assert (Hfeas : feasible feas = feas) by (rewrite <- Efeas; apply feasible_idem).
    destruct Hwf as [Hlen Hfun].
    rewrite (normalize_explicit_ok nobjs st feas mins maxs); auto;
      [| unfold feas; discriminate | rewrite Hfeas; exact Hlen].
    cbn [bind snd]. rewrite Hfeas. fold N.
    set (st1 := writes N st feas).
    assert (G1 : forall s, In s feas -> store_get st1 (s_sid s) = Ok (N s)).
    { intros s Hs. apply (writes_get N nobjs feas st s); [split; assumption | exact Hs]. }
    assert (LN : forall s, In s feas -> length (N s) = nobjs).
    { intros s Hs. apply normv_length; auto. }
    (* the worse-than-nadir filter *)
    rewrite (filterM_ok _ (fun s => keepb dirs (N s)) feas).
    2:{ intros s Hs. cbv beta. rewrite (G1 s Hs). cbn [bind].
        pose proof (keep_scan_ok (N s) [] dirs) as K. simpl in K. apply K. rewrite LN; auto. }
    cbn [bind].
    destruct (filter (fun s => keepb dirs (N s)) feas) as [|s1 r1] eqn:E2.
    + exists 0, st1. split; [reflexivity|]. rewrite spec_points_eq. rewrite Efeas. unfold N in E2. rewrite E2.
      simpl. now rewrite hv_nil.
    + set (feas2 := s1 :: r1) in *. cbn [repaired fx_once].
      assert (I2 : incl feas2 feas) by (intros s Hs; rewrite <- E2 in Hs; apply filter_In in Hs; tauto).
      destruct (dedup_sid_spec feas2 []) as [DA [_ [DC DD]]].
      destruct (invert_all_ok nobjs dirs N (dedup_sid [] feas2) st1 DC) as [st2 [R2 [G2 _]]].
      * intros s Hs. apply G1. apply I2. now apply DA.
      * intros s Hs. apply LN. apply I2. now apply DA.
      * exact Hd.
      * rewrite R2. cbn [bind].
        assert (G2' : forall s, In s feas2 -> store_get st2 (s_sid s) = Ok (goodv dirs (N s))).
        { intros s Hs. destruct (DD s Hs ltac:(intros [])) as [s' [Hs' Es']].
          assert (s' = s) by (apply Hfun; [apply I2; now apply DA | now apply I2 | exact Es']). subst s'.
          now apply G2. }
        rewrite (mapM_ok_map _ (fun s => goodv dirs (N s)) feas2) by exact G2'.
        cbn [bind].
        set (arr := map (fun s => goodv dirs (N s)) feas2).
        assert (Hnn : nnA arr) by (unfold arr; apply nnA_goodv).
        assert (Hla : length feas2 = length arr) by (unfold arr; now rewrite map_length).
        rewrite Hla.
        destruct (calc_internal_ok nobjs arr (length arr) HD (Nat.le_refl _) Hnn) as [v [a' [R [Ev _]]]].
        rewrite R. cbn [bind fst].
        exists v, st2. split; [reflexivity|].
        rewrite Ev, firstn_all. rewrite spec_points_eq. rewrite Efeas. unfold arr, feas2. unfold N in E2. rewrite E2. reflexivity.
Qed.

(* ---------- user-facing corollaries about `calculate` ---------- *)
Definition hv_pre (nobjs : nat) (dirs : list bool) (mins maxs : list Q) : Prop :=
  (2 <= nobjs)%nat /\ length dirs = nobjs /\ length mins = nobjs /\ length maxs = nobjs /\
  empty_range nobjs mins maxs = Ok false.

Lemma hv_exact' nobjs dirs mins maxs st set :
  hv_pre nobjs dirs mins maxs -> wf_set nobjs (feasible set) ->
  exists v st', hv_calculate repaired nobjs dirs mins maxs st set = Ok (v, st') /\
                v == hv_spec nobjs (spec_points dirs mins maxs set).
Proof. intros [A [B [C [D E]]]] W. now apply hv_exact. Qed.

Lemma spec_points_app dirs mins maxs l1 l2 :
  spec_points dirs mins maxs (l1 ++ l2) = spec_points dirs mins maxs l1 ++ spec_points dirs mins maxs l2.
Proof. rewrite !spec_points_eq. now rewrite feasible_app, filter_app, map_app. Qed.

Lemma spec_points_one dirs mins maxs s :
  spec_points dirs mins maxs [s] =
  if feasibleb s && keepb dirs (normv mins maxs (s_objs s)) then [goodv dirs (normv mins maxs (s_objs s))] else [].
Proof.
  rewrite spec_points_eq. unfold feasible. simpl. destruct (feasibleb s); simpl; [|reflexivity].
  destruct (keepb dirs (normv mins maxs (s_objs s))); reflexivity.
Qed.

Lemma spec_points_insert dirs mins maxs l1 s l2 :
  spec_points dirs mins maxs (l1 ++ s :: l2) =
  spec_points dirs mins maxs l1 ++ spec_points dirs mins maxs [s] ++ spec_points dirs mins maxs l2.
Proof.
  replace (l1 ++ s :: l2) with (l1 ++ [s] ++ l2) by reflexivity. now rewrite !spec_points_app.
Qed.

Lemma spec_points_perm dirs mins maxs l l' :
  Permutation l l' -> Permutation (spec_points dirs mins maxs l) (spec_points dirs mins maxs l').
Proof.
  intro Hp. rewrite !spec_points_eq. apply Permutation_map.
  assert (Hf : forall (p : isol -> bool) a b, Permutation a b -> Permutation (filter p a) (filter p b)).
  { intros p a b Hab. induction Hab; simpl.
    - constructor.
    - destruct (p x); [now constructor | assumption].
    - destruct (p x), (p y); [apply perm_swap | apply Permutation_refl | apply Permutation_refl | apply Permutation_refl].
    - now apply Permutation_trans with (filter p l'0). }
  apply Hf. unfold feasible. now apply Hf.
Qed.

Lemma nnP_app A B : nnP A -> nnP B -> nnP (A ++ B).
Proof. intros HA HB p Hp. apply in_app_or in Hp. destruct Hp; auto. Qed.

(* range *)
Theorem hv_calc_range nobjs dirs mins maxs st set :
  hv_pre nobjs dirs mins maxs -> wf_set nobjs (feasible set) ->
  exists v st', hv_calculate repaired nobjs dirs mins maxs st set = Ok (v, st') /\ 0 <= v <= 1.
Proof.
  intros Hp Hw. destruct (hv_exact' nobjs dirs mins maxs st set Hp Hw) as [v [st' [R E]]].
  exists v, st'. split; [exact R|]. rewrite E. apply hv_spec_range; [apply nnP_spec_points|].
  intros p i Hin _. now apply spec_points_le1 with dirs mins maxs set.
Qed.

(* order independence *)
Theorem hv_calc_perm nobjs dirs mins maxs st st0 set set' :
  hv_pre nobjs dirs mins maxs -> wf_set nobjs (feasible set) -> Permutation set set' ->
  exists v st1 v' st1', hv_calculate repaired nobjs dirs mins maxs st set = Ok (v, st1) /\
    hv_calculate repaired nobjs dirs mins maxs st0 set' = Ok (v', st1') /\ v == v'.
Proof.
  intros Hp Hw Hperm.
  assert (Hw' : wf_set nobjs (feasible set')).
  { apply wf_set_incl with (feasible set); [|exact Hw]. intros x Hx. apply feasible_in in Hx. apply feasible_in.
    split; [|tauto]. apply Permutation_in with set'; [now apply Permutation_sym | tauto]. }
  destruct (hv_exact' nobjs dirs mins maxs st set Hp Hw) as [v [st1 [R E]]].
  destruct (hv_exact' nobjs dirs mins maxs st0 set' Hp Hw') as [v' [st1' [R' E']]].
  exists v, st1, v', st1'. split; [exact R|]. split; [exact R'|]. rewrite E, E'.
  apply hv_spec_perm; [apply nnP_spec_points | now apply spec_points_perm].
Qed.

(* adding a solution (anywhere) never decreases the value *)
Theorem hv_calc_monotone nobjs dirs mins maxs st st0 l1 l2 s :
  hv_pre nobjs dirs mins maxs -> wf_set nobjs (feasible (l1 ++ s :: l2)) ->
  exists v st1 v' st1', hv_calculate repaired nobjs dirs mins maxs st (l1 ++ l2) = Ok (v, st1) /\
    hv_calculate repaired nobjs dirs mins maxs st0 (l1 ++ s :: l2) = Ok (v', st1') /\ v <= v'.
Proof.
  intros Hp Hw'.
  assert (Hw : wf_set nobjs (feasible (l1 ++ l2))).
  { apply wf_set_incl with (feasible (l1 ++ s :: l2)); [|exact Hw']. intros x Hx. apply feasible_in in Hx.
    apply feasible_in. split; [|tauto]. destruct Hx as [Hx _]. apply in_app_or in Hx. apply in_or_app.
    destruct Hx; [now left | right; now right]. }
  destruct (hv_exact' nobjs dirs mins maxs st _ Hp Hw) as [v [st1 [R E]]].
  destruct (hv_exact' nobjs dirs mins maxs st0 _ Hp Hw') as [v' [st1' [R' E']]].
  exists v, st1, v', st1'. split; [exact R|]. split; [exact R'|]. rewrite E, E'.
  rewrite spec_points_insert, spec_points_app, spec_points_one.
  destruct (feasibleb s && keepb dirs (normv mins maxs (s_objs s))); simpl.
  - apply hv_spec_monotone.
    + apply nnP_app; apply nnP_spec_points.
    + intro i. apply coord_goodv.
  - lra.
Qed.

(* coordinates of the vectors built by zipping *)
Lemma coord_goodv_normv nobjs dirs mins maxs o i :
  length dirs = nobjs -> length mins = nobjs -> length maxs = nobjs -> length o = nobjs -> (i < nobjs)%nat ->
  coord (goodv dirs (normv mins maxs o)) i =
  goodness (nth i dirs false) ((nth i o 0 - nth i mins 0) / (nth i maxs 0 - nth i mins 0)).
Proof.
  intros Hd Hlo Hhi Ho Hi. unfold coord, goodv.
  rewrite (zip2_as_map goodness false 0 nobjs dirs (normv mins maxs o) Hd (normv_length _ _ _ _ Ho Hlo Hhi)).
  rewrite nth_map_seq by exact Hi. f_equal.
  unfold normv. rewrite (zip3_as_map _ 0 0 0 nobjs o mins maxs Ho Hlo Hhi). now rewrite nth_map_seq.
Qed.

Lemma keepb_spec nobjs dirs mins maxs o :
  length dirs = nobjs -> length mins = nobjs -> length maxs = nobjs -> length o = nobjs ->
  (keepb dirs (normv mins maxs o) = true <->
   forall i, (i < nobjs)%nat ->
     not_worse_than_nadir (nth i dirs false) ((nth i o 0 - nth i mins 0) / (nth i maxs 0 - nth i mins 0)) = true).
Proof.
  intros Hd Hlo Hhi Ho. unfold keepb.
  rewrite (zip2_as_map not_worse_than_nadir false 0 nobjs dirs (normv mins maxs o) Hd (normv_length _ _ _ _ Ho Hlo Hhi)).
  rewrite forallb_forall. unfold normv. rewrite (zip3_as_map _ 0 0 0 nobjs o mins maxs Ho Hlo Hhi). split.
  - intros Hall i Hi. specialize (Hall (not_worse_than_nadir (nth i dirs false)
        (nth i (map (fun i0 => (nth i0 o 0 - nth i0 mins 0) / (nth i0 maxs 0 - nth i0 mins 0)) (seq 0 nobjs)) 0))).
    rewrite nth_map_seq in Hall by exact Hi. apply Hall. apply in_map_iff. exists i. split; [|apply in_seq; lia].
    now rewrite nth_map_seq.
  - intros Hall b Hb. apply in_map_iff in Hb. destruct Hb as [i [<- Hi]]. apply in_seq in Hi.
    rewrite nth_map_seq by lia. apply Hall. lia.
Qed.

Lemma clip01_mono x y : x <= y -> clip01 x <= clip01 y.
Proof.
  intro Hxy. unfold clip01.
  destruct (Qltb x 1) eqn:Ex; destruct (Qltb y 1) eqn:Ey;
    try apply Qltb_lt in Ex; try apply Qltb_lt in Ey; try apply Qltb_false in Ex; try apply Qltb_false in Ey.
  - destruct (Qltb 0 x) eqn:Fx; destruct (Qltb 0 y) eqn:Fy;
      try apply Qltb_lt in Fx; try apply Qltb_lt in Fy; try apply Qltb_false in Fx; try apply Qltb_false in Fy; lra.
  - destruct (Qltb 0 x) eqn:Fx; destruct (Qltb 0 1) eqn:Fy;
      try apply Qltb_lt in Fx; try apply Qltb_lt in Fy; try apply Qltb_false in Fx; try apply Qltb_false in Fy; lra.
  - lra.
  - lra.
Qed.

(* "s is no better than q in objective i" in the declared direction *)
Definition no_better (dirs : list bool) (s q : isol) : Prop :=
  forall i, (i < length dirs)%nat ->
    if nth i dirs false then nth i (s_objs s) 0 <= nth i (s_objs q) 0
    else nth i (s_objs q) 0 <= nth i (s_objs s) 0.

(* adding (anywhere) a solution that is no better than a feasible member in every objective,
   a duplicate of a member, or a member once more, changes nothing *)
Theorem hv_calc_dominated nobjs dirs mins maxs st st0 l1 l2 s q :
  hv_pre nobjs dirs mins maxs -> (forall i, (i < nobjs)%nat -> nth i mins 0 < nth i maxs 0) ->
  wf_set nobjs (feasible (l1 ++ s :: l2)) ->
  In q (feasible (l1 ++ l2)) -> no_better dirs s q ->
  exists v st1 v' st1', hv_calculate repaired nobjs dirs mins maxs st (l1 ++ l2) = Ok (v, st1) /\
    hv_calculate repaired nobjs dirs mins maxs st0 (l1 ++ s :: l2) = Ok (v', st1') /\ v == v'.
Proof.
  intros Hp Hpos Hw' Hq Hnb.
  assert (Hw : wf_set nobjs (feasible (l1 ++ l2))).
  { apply wf_set_incl with (feasible (l1 ++ s :: l2)); [|exact Hw']. intros x Hx. apply feasible_in in Hx.
    apply feasible_in. split; [|tauto]. destruct Hx as [Hx _]. apply in_app_or in Hx. apply in_or_app.
    destruct Hx; [now left | right; now right]. }
  destruct (hv_exact' nobjs dirs mins maxs st _ Hp Hw) as [v [st1 [R E]]].
  destruct (hv_exact' nobjs dirs mins maxs st0 _ Hp Hw') as [v' [st1' [R' E']]].
  exists v, st1, v', st1'. split; [exact R|]. split; [exact R'|]. rewrite E, E'.
  rewrite spec_points_insert, spec_points_app, spec_points_one.
  destruct (feasibleb s && keepb dirs (normv mins maxs (s_objs s))) eqn:Es; simpl; [|reflexivity].
  apply andb_true_iff in Es. destruct Es as [Fs Ks].
  destruct Hp as [HD [Hd [Hlo [Hhi He]]]].
  assert (Ls : length (s_objs s) = nobjs).
  { apply (proj1 Hw'). apply feasible_in. split; [apply in_or_app; right; now left | exact Fs]. }
  assert (Lq : length (s_objs q) = nobjs) by (apply (proj1 Hw); exact Hq).
  (* normalised coordinates compare like the raw ones *)
  assert (Hcmp : forall i, (i < nobjs)%nat ->
    let zs := (nth i (s_objs s) 0 - nth i mins 0) / (nth i maxs 0 - nth i mins 0) in
    let zq := (nth i (s_objs q) 0 - nth i mins 0) / (nth i maxs 0 - nth i mins 0) in
    if nth i dirs false then zs <= zq else zq <= zs).
  { intros i Hi. specialize (Hnb i ltac:(lia)). specialize (Hpos i Hi). cbv zeta.
    destruct (nth i dirs false); apply Qdiv_le_mono; lra. }
  (* q passes the nadir filter because s does *)
  assert (Kq : keepb dirs (normv mins maxs (s_objs q)) = true).
  { apply (keepb_spec nobjs); auto. intros i Hi.
    pose proof (proj1 (keepb_spec nobjs dirs mins maxs (s_objs s) Hd Hlo Hhi Ls) Ks i Hi) as Ksi.
    specialize (Hcmp i Hi). cbv zeta in Hcmp. unfold not_worse_than_nadir in *.
    destruct (nth i dirs false); apply Qle_bool_iff; apply Qle_bool_iff in Ksi; lra. }
  symmetry. apply (hv_spec_dominated nobjs _ _ _ (goodv dirs (normv mins maxs (s_objs q)))).
  - apply nnP_app; apply nnP_spec_points.
  - intro i. apply coord_goodv.
  - rewrite <- spec_points_app. rewrite spec_points_eq. apply in_map_iff. exists q. split; [reflexivity|].
    apply filter_In. split; [exact Hq | exact Kq].
  - intros i Hi. rewrite !(coord_goodv_normv nobjs) by auto.
    specialize (Hcmp i Hi). cbv zeta in Hcmp. unfold goodness.
    destruct (nth i dirs false).
    + now apply clip01_mono.
    + pose proof (clip01_mono _ _ Hcmp). lra.
Qed.

Lemma spec_points_in dirs mins maxs l s : In s l -> incl (spec_points dirs mins maxs [s]) (spec_points dirs mins maxs l).
Proof.
  intros Hs p Hp. rewrite spec_points_one in Hp.
  destruct (feasibleb s && keepb dirs (normv mins maxs (s_objs s))) eqn:E; [|contradiction].
  destruct Hp as [<-|[]]. apply andb_true_iff in E. destruct E as [F K].
  rewrite spec_points_eq. apply in_map_iff. exists s. split; [reflexivity|].
  apply filter_In. split; [|exact K]. apply feasible_in. now split.
Qed.

(* a duplicate (another object with the same objectives and violation) of a listed solution *)
Theorem hv_calc_duplicate nobjs dirs mins maxs st st0 l1 l2 s s' :
  hv_pre nobjs dirs mins maxs -> wf_set nobjs (feasible (l1 ++ s' :: l2)) ->
  In s (l1 ++ l2) -> s_objs s' = s_objs s -> s_cv s' = s_cv s ->
  exists v st1 v' st1', hv_calculate repaired nobjs dirs mins maxs st (l1 ++ l2) = Ok (v, st1) /\
    hv_calculate repaired nobjs dirs mins maxs st0 (l1 ++ s' :: l2) = Ok (v', st1') /\ v == v'.
Proof.
  intros Hp Hw' Hs Eo Ec.
  assert (Hw : wf_set nobjs (feasible (l1 ++ l2))).
  { apply wf_set_incl with (feasible (l1 ++ s' :: l2)); [|exact Hw']. intros x Hx. apply feasible_in in Hx.
    apply feasible_in. split; [|tauto]. destruct Hx as [Hx _]. apply in_app_or in Hx. apply in_or_app.
    destruct Hx; [now left | right; now right]. }
  destruct (hv_exact' nobjs dirs mins maxs st _ Hp Hw) as [v [st1 [R E]]].
  destruct (hv_exact' nobjs dirs mins maxs st0 _ Hp Hw') as [v' [st1' [R' E']]].
  exists v, st1, v', st1'. split; [exact R|]. split; [exact R'|]. rewrite E, E'.
  assert (E1 : spec_points dirs mins maxs [s'] = spec_points dirs mins maxs [s]).
  { rewrite !spec_points_one. unfold feasibleb. now rewrite Eo, Ec. }
  pose proof (spec_points_in dirs mins maxs (l1 ++ l2) s Hs) as Hin. rewrite <- E1 in Hin.
  rewrite spec_points_insert. rewrite spec_points_app in *.
  apply hv_spec_seteq.
  - apply nnP_app; apply nnP_spec_points.
  - intros p Hp'. apply in_app_or in Hp'. apply in_or_app. destruct Hp'; [now left | right; apply in_or_app; now right].
  - intros p Hp'. apply in_app_or in Hp'. destruct Hp' as [Hp'|Hp']; [apply in_or_app; now left|].
    apply in_app_or in Hp'. destruct Hp' as [Hp'|Hp']; [now apply Hin | apply in_or_app; now right].
Qed.

(* the same object listed once more *)
Theorem hv_calc_repeated nobjs dirs mins maxs st st0 l1 l2 s :
  hv_pre nobjs dirs mins maxs -> wf_set nobjs (feasible (l1 ++ l2)) -> In s (l1 ++ l2) ->
  exists v st1 v' st1', hv_calculate repaired nobjs dirs mins maxs st (l1 ++ l2) = Ok (v, st1) /\
    hv_calculate repaired nobjs dirs mins maxs st0 (l1 ++ s :: l2) = Ok (v', st1') /\ v == v'.
Proof.
  intros Hp Hw Hs. apply hv_calc_duplicate with s; auto.
  apply wf_set_incl with (feasible (l1 ++ l2)); [|exact Hw]. intros x Hx. apply feasible_in in Hx.
  apply feasible_in. split; [|tauto]. destruct Hx as [Hx _]. apply in_app_or in Hx.
  destruct Hx as [Hx|[<-|Hx]]; [apply in_or_app; now left | exact Hs | apply in_or_app; now right].
Qed.

(* ---------- inclusion-exclusion: hv_spec IS the measure of the union of boxes ---------- *)
(* box(p) n box(q) = box(pmin p q) *)
Definition qmin2 (a b : Q) : Q := if Qltb b a then b else a.
Fixpoint pmin (p q : point) : point :=
  match p, q with
  | a :: p', b :: q' => qmin2 a b :: pmin p' q'
  | _, _ => []
  end.

Lemma nnpt_tail a p : nnpt (a :: p) -> nnpt p.
Proof. intros H i. exact (H (S i)). Qed.

Lemma coord_pmin : forall p q i, nnpt p -> nnpt q -> coord (pmin p q) i == qmin2 (coord p i) (coord q i).
Proof.
  induction p as [|a p IH]; intros q i Hp Hq.
  - simpl. unfold qmin2. assert (coord [] i = 0) by (unfold coord; destruct i; reflexivity). rewrite H.
    specialize (Hq i). destruct (Qltb (coord q i) 0) eqn:E; [apply Qltb_lt in E; lra | reflexivity].
  - destruct q as [|b q].
    + simpl. unfold qmin2. assert (coord [] i = 0) by (unfold coord; destruct i; reflexivity). rewrite H.
      specialize (Hp i). destruct (Qltb 0 (coord (a :: p) i)) eqn:E; [reflexivity | apply Qltb_false in E; lra].
    + destruct i as [|i]; [reflexivity|]. simpl pmin. unfold coord. simpl nth.
      apply (IH q i (nnpt_tail a p Hp) (nnpt_tail b q Hq)).
Qed.

Lemma qmin2_le_l a b : qmin2 a b <= a.
Proof. unfold qmin2. destruct (Qltb b a) eqn:E; [apply Qltb_lt in E; lra | lra]. Qed.
Lemma qmin2_le_r a b : qmin2 a b <= b.
Proof. unfold qmin2. destruct (Qltb b a) eqn:E; [lra | apply Qltb_false in E; lra]. Qed.
Lemma qmin2_glb a b c : c <= a -> c <= b -> c <= qmin2 a b.
Proof. unfold qmin2. destruct (Qltb b a); auto. Qed.

Lemma nnpt_pmin p q : nnpt p -> nnpt q -> nnpt (pmin p q).
Proof. intros Hp Hq i. rewrite coord_pmin by assumption. apply qmin2_glb; auto. Qed.

Lemma nnP_map_pmin p P : nnpt p -> nnP P -> nnP (map (pmin p) P).
Proof. intros Hp HP x Hx. apply in_map_iff in Hx. destruct Hx as [q [<- Hq]]. apply nnpt_pmin; auto. Qed.

Lemma filter_none {A} (f : A -> bool) l : (forall x, In x l -> f x = false) -> filter f l = [].
Proof.
  induction l as [|a r IH]; intro Hall; simpl; [reflexivity|].
  rewrite (Hall a (or_introl eq_refl)). apply IH. intros; apply Hall; now right.
Qed.

Section IE.
  Variable k : nat.
  Hypothesis IHk : forall p P, nnpt p -> nnP P ->
    hv_spec k (p :: P) == hv_spec k P + boxvol k p - hv_spec k (map (pmin p) P).

  Lemma coord_pmin_k p q : nnpt p -> nnpt q ->
    coord (pmin p q) k <= coord p k /\ coord (pmin p q) k <= coord q k /\
    (forall m, m < coord p k -> m < coord q k -> m < coord (pmin p q) k).
  Proof.
    intros Hp Hq. pose proof (coord_pmin p q k Hp Hq) as E.
    pose proof (qmin2_le_l (coord p k) (coord q k)). pose proof (qmin2_le_r (coord p k) (coord q k)).
    split; [lra|]. split; [lra|]. intros m A B. rewrite E. unfold qmin2. destruct (Qltb (coord q k) (coord p k)); assumption.
  Qed.

  Lemma ie_peel : forall n p P b, (length P <= n)%nat -> nnpt p -> nnP P -> lb k b (p :: P) ->
    peel (hv_spec k) k (S n) b (p :: P) ==
    peel (hv_spec k) k n b P + (coord p k - b) * boxvol k p - peel (hv_spec k) k n b (map (pmin p) P).
  Proof.
    induction n as [|n IH]; intros p P b Hn Hp HP Hb.
    - destruct P; [|simpl in Hn; lia]. rewrite peel_cons. simpl map. rewrite !peel_nil.
      unfold lastmin. simpl qmin_from. rewrite hv_single. simpl peel. ring.
    - set (A := p :: P). set (m := lastmin k A).
      assert (HmA : lb k m A) by apply lb_lastmin.
      assert (HmP : lb k m P) by (intros q Hq; apply HmA; now right).
      assert (Hmp : m <= coord p k) by (apply HmA; now left).
      assert (HmM : lb k m (map (pmin p) P)).
      { intros x Hx. apply in_map_iff in Hx. destruct Hx as [q [<- Hq]].
        destruct (Qlt_le_dec (coord (pmin p q) k) m) as [L|G]; [|exact G]. exfalso.
        pose proof (HmP q Hq) as Hq'.
        destruct (coord_pmin_k p q Hp (HP q Hq)) as [_ [_ Hglb]].
        (* m <= both, so the minimum cannot be below m unless it equals... use glb on any m' < m *)
        pose proof (coord_pmin p q k Hp (HP q Hq)) as E. rewrite E in L. unfold qmin2 in L.
        destruct (Qltb (coord q k) (coord p k)); lra. }
      unfold A at 1. rewrite peel_cons. fold A. fold m.
      rewrite (peel_split (hv_spec k) k (hv_nil_eq k) (S n) b m P HmP Hn).
      rewrite (peel_split (hv_spec k) k (hv_nil_eq k) (S n) b m (map (pmin p) P) HmM ltac:(rewrite map_length; exact Hn)).
      pose proof (IHk p P Hp HP) as EH. fold A in EH. rewrite EH. clear EH.
      assert (Key : peel (hv_spec k) k (S n) m (above k m A) ==
                    peel (hv_spec k) k (S n) m (above k m P) + (coord p k - m) * boxvol k p
                    - peel (hv_spec k) k (S n) m (above k m (map (pmin p) P))).
      { destruct (Qlt_le_dec m (coord p k)) as [Lt|Le].
        - (* p survives the cut *)
          assert (EA : above k m A = p :: above k m P).
          { unfold above, A. simpl. replace (Qltb m (coord p k)) with true by (symmetry; now apply Qltb_lt). reflexivity. }
          assert (EM : above k m (map (pmin p) P) = map (pmin p) (above k m P)).
          { unfold above. rewrite filter_map_comm. f_equal. apply filter_ext_in. intros q Hq.
            destruct (coord_pmin_k p q Hp (HP q Hq)) as [_ [H2 H3]].
            destruct (Qltb m (coord q k)) eqn:E.
            - apply Qltb_lt in E. apply Qltb_lt. now apply H3.
            - apply Qltb_false in E. apply Qltb_false. lra. }
          assert (Hlt : (length (above k m P) < length P)%nat).
          { destruct (lastmin_in k A ltac:(unfold A; congruence)) as [q [Hq Eq]]. fold m in Eq.
            destruct Hq as [<-|Hq]; [exfalso; rewrite Eq in Lt; exact (Qlt_irrefl _ Lt)|].
            unfold above. apply filter_length_lt with q; [exact Hq|]. rewrite <- Eq. apply Qltb_irrefl. }
          rewrite EA, EM.
          assert (Hl' : (length (above k m P) <= n)%nat) by lia.
          rewrite (IH p (above k m P) m Hl' Hp (nnP_filter _ _ HP)).
          + rewrite (peel_fuel (hv_spec k) k (S n) n m (above k m P)) by lia.
            rewrite (peel_fuel (hv_spec k) k (S n) n m (map (pmin p) (above k m P))) by (rewrite map_length; lia).
            reflexivity.
          + intros q [<-|Hq]; [lra | exact (lb_above k m P q Hq)].
        - (* p is removed by the cut, and so is every min with p *)
          assert (EA : above k m A = above k m P).
          { unfold above, A. simpl. replace (Qltb m (coord p k)) with false by (symmetry; now apply Qltb_false). reflexivity. }
          assert (EM : above k m (map (pmin p) P) = []).
          { unfold above. apply filter_none. intros x Hx. apply in_map_iff in Hx. destruct Hx as [q [<- Hq]].
            apply Qltb_false. destruct (coord_pmin_k p q Hp (HP q Hq)) as [H1 _]. lra. }
          rewrite EA, EM, peel_nil. assert (coord p k - m == 0) by lra. rewrite H. ring. }
      rewrite Key. ring.
  Qed.
End IE.

(* mu(A u B) = mu(A) + mu(B) - mu(A n B) with B one box: together with hv_spec d [] = 0 this
   recurrence determines hv_spec (induction on the number of points), and it is exactly the
   inclusion-exclusion definition of the measure of a union of boxes *)
Theorem hv_incl_excl : forall d p P, nnpt p -> nnP P ->
  hv_spec d (p :: P) == hv_spec d P + boxvol d p - hv_spec d (map (pmin p) P).
Proof.
  induction d as [|d IH]; intros p P Hp HP.
  - simpl. destruct P; simpl; ring.
  - rewrite !hv_S. simpl length. rewrite map_length.
    rewrite (ie_peel d IH (length P) p P 0 (Nat.le_refl _) Hp HP).
    + simpl boxvol. ring.
    + apply nnP_lb0. now apply nnP_cons.
Qed.

(* ---------- bounds through a reference set ---------- *)
Lemma ind_make_bounds nobjs st ref c st' : ind_make nobjs st ref = Ok (c, st') ->
  length (i_min c) = nobjs /\ length (i_max c) = nobjs /\ empty_range nobjs (i_min c) (i_max c) = Ok false.
Proof.
  unfold ind_make, normalize. destruct ref as [|r0 rr]; [discriminate|].
  destruct (mapM (fun i => do c0 <- column (feasible (r0 :: rr)) i; qminl c0) (seq 0 nobjs)) as [mins|] eqn:Emin;
    cbn [bind]; [|discriminate].
  destruct (mapM (fun i => do c0 <- column (feasible (r0 :: rr)) i; qmaxl c0) (seq 0 nobjs)) as [maxs|] eqn:Emax;
    cbn [bind]; [|discriminate].
  destruct (empty_range nobjs mins maxs) as [e|] eqn:Ee; cbn [bind]; [|discriminate].
  destruct e; [discriminate|].
  destruct (write_normalized nobjs mins maxs st (feasible (r0 :: rr))) as [stw|] eqn:Ew; cbn [bind]; [|discriminate].
  intro H. inversion H; subst. simpl.
  apply mapM_length in Emin. apply mapM_length in Emax. rewrite seq_length in *. auto.
Qed.

Theorem hv_exact_refset nobjs dirs ref set c st0 :
  (2 <= nobjs)%nat -> length dirs = nobjs -> ind_make nobjs [] ref = Ok (c, st0) ->
  wf_set nobjs (feasible set) ->
  exists v, hv_indicator repaired nobjs dirs (inr ref) set = Ok v /\
            v == hv_spec nobjs (spec_points dirs (i_min c) (i_max c) set).
Proof.
  intros HD Hd Hm Hw. destruct (ind_make_bounds _ _ _ _ _ Hm) as [A [B C]].
  destruct (hv_exact nobjs dirs (i_min c) (i_max c) st0 set HD Hd A B C Hw) as [v [st' [R E]]].
  exists v. split; [|exact E]. unfold hv_indicator. rewrite Hm. cbn [bind fst snd]. rewrite R. reflexivity.
Qed.

Theorem hv_exact_bounds nobjs dirs mins maxs set :
  hv_pre nobjs dirs mins maxs -> wf_set nobjs (feasible set) ->
  exists v, hv_indicator repaired nobjs dirs (inl (mins, maxs)) set = Ok v /\
            v == hv_spec nobjs (spec_points dirs mins maxs set).
Proof.
  intros Hp Hw. destruct (hv_exact' nobjs dirs mins maxs [] set Hp Hw) as [v [st' [R E]]].
  exists v. split; [|exact E]. unfold hv_indicator. rewrite R. reflexivity.
Qed.

(* ---------- concrete instances (non-vacuity) and the pre-repair code ---------- *)
Definition res_is (r : res Q) (q : Q) : bool := match r with Ok v => Qeq_bool v q | Err _ => false end.

Lemma nnpt_forallb p : forallb (fun x => Qle_bool 0 x) p = true -> nnpt p.
Proof.
  intros H i. unfold coord. destruct (nth_in_or_default i p 0) as [Hin|Hd].
  - rewrite forallb_forall in H. apply Qle_bool_iff. now apply H.
  - rewrite Hd. lra.
Qed.

Lemma nnP_forallb P : forallb (fun p => forallb (fun x => Qle_bool 0 x) p) P = true -> nnP P.
Proof. intros H p Hp. apply nnpt_forallb. rewrite forallb_forall in H. now apply H. Qed.

(* three objectives (min, max, min), bounds [0,1]^3; a repeated object (sid 0 twice), a
   maximised objective beyond the ideal (3/2, clipped), an infeasible member, a member worse
   than the nadir (3/2 in a minimised objective, dropped), ties in single coordinates *)
Definition ex_dirs : list bool := [false; true; false].
Definition ex_set : list isol :=
  [ISol 0 [1#4; 1#2; 1#4] 0; ISol 1 [1#2; 3#4; 1#8] 0; ISol 0 [1#4; 1#2; 1#4] 0; ISol 2 [1#2; 3#2; 1#4] 0;
   ISol 3 [0; 1; 0] (1#2); ISol 4 [3#2; 1#2; 1#2] 0; ISol 5 [1#4; 1#4; 1#2] 0].
Definition ex_pts : list point := spec_points ex_dirs [0;0;0] [1;1;1] ex_set.

Example ex_hv_exact_hypotheses :
  hv_pre 3 ex_dirs [0;0;0] [1;1;1] /\ wf_set 3 (feasible ex_set) /\
  res_is (hv_indicator repaired 3 ex_dirs (inl ([0;0;0], [1;1;1])) ex_set) (33 # 64) = true /\
  hv_spec 3 ex_pts == 33 # 64 /\ length ex_pts = 5%nat.
Proof.
  split; [unfold hv_pre; split; [lia|]; split; [reflexivity|]; split; [reflexivity|]; split; [reflexivity|]; vm_compute; reflexivity|]. split.
  - assert (E : feasible ex_set =
      [ISol 0 [1#4; 1#2; 1#4] 0; ISol 1 [1#2; 3#4; 1#8] 0; ISol 0 [1#4; 1#2; 1#4] 0; ISol 2 [1#2; 3#2; 1#4] 0;
       ISol 4 [3#2; 1#2; 1#2] 0; ISol 5 [1#4; 1#4; 1#2] 0]) by (vm_compute; reflexivity).
    rewrite E. split.
    + intros s Hs. simpl in Hs. repeat (destruct Hs as [<-|Hs]; [reflexivity|]). contradiction.
    + intros s s' Hs Hs' Es. simpl in Hs, Hs'.
      repeat (destruct Hs as [<-|Hs]; [repeat (destruct Hs' as [<-|Hs']; [first [reflexivity | discriminate]|]); contradiction|]).
      contradiction.
  - split; [vm_compute; reflexivity|]. split; [vm_compute; reflexivity | vm_compute; reflexivity].
Qed.

Example ex_spec_theorems_nonvacuous :
  nnP ex_pts /\
  (* strict growth when a non-dominated point is added, no change for a dominated one *)
  hv_spec 3 (firstn 1 ex_pts) < hv_spec 3 (firstn 2 ex_pts) /\
  hv_spec 3 ([1#2; 1#2; 1#2] :: ex_pts) == hv_spec 3 ex_pts /\
  hv_spec 3 (rev ex_pts) == hv_spec 3 ex_pts /\
  hv_spec 3 [[1#2; 1#4; 3#4]] == (1#2) * (1#4) * (3#4).
Proof.
  split; [apply nnP_forallb; vm_compute; reflexivity|].
  repeat split; vm_compute; reflexivity.
Qed.

(* the code before fixes/9c6b890.diff: a maximised objective better than the ideal is dropped
   (value 0 instead of 1/2), one worse than the nadir is kept unclipped (NEGATIVE volume) *)
Example prerepair_direction_differs :
  res_is (hv_indicator (HvFlags false true) 2 [true; true] (inl ([0;0], [1;1])) [ISol 0 [2; 1#2] 0]) 0 = true /\
  hv_spec 2 (spec_points [true; true] [0;0] [1;1] [ISol 0 [2; 1#2] 0]) == 1 # 2 /\
  res_is (hv_indicator repaired 2 [true; true] (inl ([0;0], [1;1])) [ISol 0 [2; 1#2] 0]) (1 # 2) = true /\
  res_is (hv_indicator (HvFlags false true) 2 [true; true] (inl ([0;0], [1;1]))
            [ISol 0 [-1#2; 1#2] 0; ISol 1 [1#4; 1#4] 0]) (-1 # 16) = true /\
  hv_spec 2 (spec_points [true; true] [0;0] [1;1] [ISol 0 [-1#2; 1#2] 0; ISol 1 [1#4; 1#4] 0]) == 1 # 16.
Proof. repeat split; vm_compute; reflexivity. Qed.

(* the code before fixes/32527cc.diff: the same object listed twice is inverted twice *)
Example prerepair_repeated_differs :
  res_is (hv_indicator (HvFlags true false) 2 [false; false] (inl ([0;0], [1;1]))
            [ISol 0 [1#4; 1#4] 0; ISol 0 [1#4; 1#4] 0]) (1 # 16) = true /\
  hv_spec 2 (spec_points [false; false] [0;0] [1;1] [ISol 0 [1#4; 1#4] 0; ISol 0 [1#4; 1#4] 0]) == 9 # 16 /\
  res_is (hv_indicator repaired 2 [false; false] (inl ([0;0], [1;1]))
            [ISol 0 [1#4; 1#4] 0; ISol 0 [1#4; 1#4] 0]) (9 # 16) = true.
Proof. repeat split; vm_compute; reflexivity. Qed.
