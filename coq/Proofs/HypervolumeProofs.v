(* Proofs about Model/Hypervolume.v.
   Part A: facts about min of lists.
   Part B: theory of the specification hv_spec (all dimensions): the master monotonicity
           lemma hv_cover (if every box of A lies in some box of B then hv A <= hv B), from
           which permutation / dominated / duplicate / repeated invariance, monotonicity
           and the range follow; single box; inclusion-exclusion recurrence.
   Part C: refinement: the literal array/swap model of calc_internal computes hv_spec
           (all dimensions >= 2, fuel suffices), and the calculate pipeline computes
           hv_spec of spec_points.
   All statements are about exact rational arithmetic. *)
From Coq Require Import ZArith QArith Qabs Bool List Lia Lqa Permutation Setoid Morphisms.
Import ListNotations.
From PV Require Import Base.Num Base.Order Model.Indicators Model.Hypervolume.
Open Scope Q_scope.

(* ================= Part A ================= *)

Lemma Qltb_proper_l a a' b : a == a' -> Qltb a b = Qltb a' b.
Proof.
  intro E. destruct (Qltb a b) eqn:E1, (Qltb a' b) eqn:E2; try reflexivity.
  - apply Qltb_lt in E1. apply Qltb_false in E2. lra.
  - apply Qltb_false in E1. apply Qltb_lt in E2. lra.
Qed.

Lemma Qltb_proper_r a b b' : b == b' -> Qltb a b = Qltb a b'.
Proof.
  intro E. destruct (Qltb a b) eqn:E1, (Qltb a b') eqn:E2; try reflexivity.
  - apply Qltb_lt in E1. apply Qltb_false in E2. lra.
  - apply Qltb_false in E1. apply Qltb_lt in E2. lra.
Qed.

Lemma Qltb_irrefl a : Qltb a a = false.
Proof. apply Qltb_false. lra. Qed.

Lemma qmin_from_le m l : qmin_from m l <= m /\ forall x, In x l -> qmin_from m l <= x.
Proof.
  revert m. induction l as [|y r IH]; intro m; simpl.
  - split; [lra | contradiction].
  - destruct (Qltb y m) eqn:E.
    + apply Qltb_lt in E. destruct (IH y) as [A B]. split; [lra|].
      intros x [<-|Hx]; auto.
    + apply Qltb_false in E. destruct (IH m) as [A B]. split; [exact A|].
      intros x [<-|Hx]; [lra|auto].
Qed.

Lemma qmin_from_in m l : qmin_from m l = m \/ In (qmin_from m l) l.
Proof.
  revert m. induction l as [|y r IH]; intro m; simpl; [now left|].
  destruct (Qltb y m).
  - destruct (IH y) as [A|A]; [right; left; now rewrite A | right; right; exact A].
  - destruct (IH m) as [A|A]; [now left | right; right; exact A].
Qed.

Lemma lastmin_le k P q : In q P -> lastmin k P <= coord q k.
Proof.
  destruct P as [|p r]; [contradiction|]. simpl.
  destruct (qmin_from_le (coord p k) (map (fun q => coord q k) r)) as [A B].
  intros [<-|Hq]; [exact A|]. apply B. now apply (in_map (fun q => coord q k)).
Qed.

Lemma lastmin_in k P : P <> [] -> exists q, In q P /\ lastmin k P = coord q k.
Proof.
  destruct P as [|p r]; [congruence|]. intros _. simpl.
  destruct (qmin_from_in (coord p k) (map (fun q => coord q k) r)) as [A|A].
  - exists p. split; [now left | exact A].
  - apply in_map_iff in A. destruct A as [q [E Hq]]. exists q. split; [now right | now rewrite E].
Qed.

Lemma Qeq_dec_strict (a b : Q) : {a = b} + {a <> b}.
Proof. decide equality; [apply Pos.eq_dec | apply Z.eq_dec]. Qed.

Lemma filter_all {A} (f : A -> bool) l : (forall x, In x l -> f x = true) -> filter f l = l.
Proof.
  induction l as [|a r IH]; intro Hall; simpl; [reflexivity|].
  rewrite (Hall a (or_introl eq_refl)). f_equal. apply IH. intros; apply Hall; now right.
Qed.

Lemma filter_length_le {A} (f : A -> bool) l : (length (filter f l) <= length l)%nat.
Proof. induction l as [|a r IH]; simpl; [lia|]. destruct (f a); simpl; lia. Qed.

Lemma filter_length_lt {A} (f : A -> bool) l x : In x l -> f x = false -> (length (filter f l) < length l)%nat.
Proof.
  induction l as [|a r IH]; simpl; [contradiction|].
  intros [->|Hx] Hf.
  - rewrite Hf. pose proof (filter_length_le f r). lia.
  - specialize (IH Hx Hf). destruct (f a); simpl; lia.
Qed.

(* ================= Part B: the specification ================= *)

(* all coordinates >= 0 *)
Definition nnpt (p : point) : Prop := forall i, 0 <= coord p i.
Definition nnP (P : list point) : Prop := forall p, In p P -> nnpt p.
(* every box of A is contained in some box of B (first d coordinates) *)
Definition cover (d : nat) (A B : list point) : Prop :=
  forall a, In a A -> exists b, In b B /\ forall i, (i < d)%nat -> coord a i <= coord b i.

Lemma nnP_filter f P : nnP P -> nnP (filter f P).
Proof. intros Hn p Hp. apply filter_In in Hp. now apply Hn. Qed.

Lemma nnP_cons p P : nnpt p -> nnP P -> nnP (p :: P).
Proof. intros A B q [<-|Hq]; auto. Qed.

Lemma cover_refl d A : cover d A A.
Proof. intros a Ha. exists a. split; [exact Ha | intros; lra]. Qed.

Lemma cover_incl d A B : incl A B -> cover d A B.
Proof. intros Hi a Ha. exists a. split; [now apply Hi | intros; lra]. Qed.

Lemma cover_trans d A B C : cover d A B -> cover d B C -> cover d A C.
Proof.
  intros H1 H2 a Ha. destruct (H1 a Ha) as [b [Hb L1]]. destruct (H2 b Hb) as [c [Hc L2]].
  exists c. split; [exact Hc|]. intros i Hi. specialize (L1 i Hi). specialize (L2 i Hi). lra.
Qed.

Lemma cover_weaken d d' A B : (d' <= d)%nat -> cover d A B -> cover d' A B.
Proof.
  intros Hd Hc a Ha. destruct (Hc a Ha) as [b [Hb L]]. exists b. split; [exact Hb|].
  intros i Hi. apply L. lia.
Qed.

Section Peel.
  Variable H : list point -> Q.
  Variable k : nat.

  (* b is a lower bound of coordinate k *)
  Definition lb (b : Q) (P : list point) : Prop := forall q, In q P -> b <= coord q k.
  Definition above (m : Q) (P : list point) : list point := filter (fun q => Qltb m (coord q k)) P.

  Lemma above_proper m m' P : m == m' -> above m P = above m' P.
  Proof. intro E. unfold above. apply filter_ext. intro q. now apply Qltb_proper_l. Qed.

  Lemma above_lastmin_lt P : P <> [] -> (length (above (lastmin k P) P) < length P)%nat.
  Proof.
    intro Hne. destruct (lastmin_in k P Hne) as [q [Hq E]].
    unfold above. apply filter_length_lt with q; [exact Hq|]. rewrite E. apply Qltb_irrefl.
  Qed.

  Lemma lb_above m P : lb m (above m P).
  Proof.
    intros q Hq. apply filter_In in Hq. destruct Hq as [_ Hq]. apply Qltb_lt in Hq. lra.
  Qed.

  Lemma lb_lastmin P : lb (lastmin k P) P.
  Proof. intros q Hq. now apply lastmin_le. Qed.

  Lemma lb_le_lastmin b P : P <> [] -> lb b P -> b <= lastmin k P.
  Proof. intros Hne Hl. destruct (lastmin_in k P Hne) as [q [Hq E]]. rewrite E. now apply Hl. Qed.

  Lemma peel_nil f b : peel H k f b [] = 0.
  Proof. destruct f; reflexivity. Qed.

  Lemma peel_cons f b p r :
    peel H k (S f) b (p :: r) =
    (lastmin k (p :: r) - b) * H (p :: r) + peel H k f (lastmin k (p :: r)) (above (lastmin k (p :: r)) (p :: r)).
  Proof. reflexivity. Qed.

  (* any fuel >= length gives the same value *)
  Lemma peel_fuel : forall f1 f2 b P, (length P <= f1)%nat -> (length P <= f2)%nat ->
    peel H k f1 b P = peel H k f2 b P.
  Proof.
    induction f1 as [|f1 IH]; intros f2 b P H1 H2.
    - destruct P; [|simpl in H1; lia]. now rewrite !peel_nil.
    - destruct P as [|p r]; [now rewrite !peel_nil|].
      destruct f2 as [|f2]; [simpl in H2; lia|].
      rewrite !peel_cons. f_equal.
      pose proof (above_lastmin_lt (p :: r) ltac:(congruence)) as Hlt.
      apply IH; simpl in *; lia.
  Qed.

  Lemma peel_base_eq f b b' P : b == b' -> peel H k f b P == peel H k f b' P.
  Proof.
    intro E. destruct f; [reflexivity|]. destruct P as [|p r]; [reflexivity|].
    rewrite !peel_cons. rewrite E. reflexivity.
  Qed.

  Hypothesis H_nil : H [] == 0.

  Lemma peel_S f b P : P <> [] ->
    peel H k (S f) b P = (lastmin k P - b) * H P + peel H k f (lastmin k P) (above (lastmin k P) P).
  Proof. destruct P; [congruence | reflexivity]. Qed.

  (* the integral may be cut at any level below the smallest coordinate *)
  Lemma peel_split f b m P : lb m P -> (length P <= f)%nat ->
    peel H k f b P == (m - b) * H P + peel H k f m (above m P).
  Proof.
    intros Hl Hf. destruct (list_eq_dec (list_eq_dec Qeq_dec_strict) P []) as [->|Hne].
    - unfold above. simpl filter. rewrite !peel_nil, H_nil. ring.
    - destruct f as [|f]; [destruct P; [exfalso; now apply Hne | simpl in Hf; lia]|].
      pose proof (lb_le_lastmin m P Hne Hl) as Hm.
      pose proof (above_lastmin_lt P Hne) as Hlt.
      rewrite (peel_S f b P Hne).
      destruct (Qlt_le_dec m (lastmin k P)) as [Lt|Le].
      + (* m strictly below the minimum: nothing is removed at m *)
        assert (E : above m P = P).
        { unfold above. apply filter_all. intros q Hq. apply Qltb_lt.
          pose proof (lastmin_le k P q Hq). lra. }
        rewrite E. rewrite (peel_S f m P Hne). ring.
      + (* m is the minimum *)
        assert (E : lastmin k P == m) by lra.
        rewrite (above_proper _ _ P E).
        rewrite (peel_fuel (S f) f m (above m P)).
        * rewrite (peel_base_eq f _ _ _ E). rewrite E. ring.
        * rewrite <- (above_proper _ _ P E). lia.
        * rewrite <- (above_proper _ _ P E). lia.
  Qed.

  Hypothesis H_nonneg : forall P, nnP P -> 0 <= H P.

  Lemma peel_nonneg : forall f b P, nnP P -> lb b P -> 0 <= peel H k f b P.
  Proof.
    induction f as [|f IH]; intros b P Hn Hl; [simpl; lra|].
    destruct P as [|p r]; [simpl; lra|].
    rewrite peel_cons.
    pose proof (lb_le_lastmin b (p :: r) ltac:(congruence) Hl) as Hm.
    pose proof (H_nonneg _ Hn) as HH.
    pose proof (IH (lastmin k (p :: r)) (above (lastmin k (p :: r)) (p :: r)) (nnP_filter _ _ Hn) (lb_above _ _)) as HR.
    nra.
  Qed.

  Hypothesis H_cover : forall A B, nnP A -> nnP B -> cover k A B -> H A <= H B.

  Lemma cover_above m A B : cover (S k) A B -> cover (S k) (above m A) (above m B).
  Proof.
    intros Hc a Ha. apply filter_In in Ha. destruct Ha as [Ha La].
    destruct (Hc a Ha) as [b [Hb L]]. exists b. split; [|exact L].
    apply filter_In. split; [exact Hb|]. apply Qltb_lt. apply Qltb_lt in La.
    specialize (L k (Nat.lt_succ_diag_r k)). lra.
  Qed.

  Lemma lb_above_mono m b P : lb b P -> lb b (above m P).
  Proof. intros Hl q Hq. apply filter_In in Hq. now apply Hl. Qed.

  (* master lemma: the integral is monotone under box inclusion *)
  Lemma peel_cover : forall n A B fa fb b,
    (length A + length B <= n)%nat -> (length A <= fa)%nat -> (length B <= fb)%nat ->
    nnP A -> nnP B -> lb b A -> lb b B -> cover (S k) A B ->
    peel H k fa b A <= peel H k fb b B.
  Proof.
    induction n as [|n IH]; intros A B fa fb b Hn Hfa Hfb HnA HnB HlA HlB Hc.
    - destruct A; [|simpl in Hn; lia]. rewrite peel_nil. now apply peel_nonneg.
    - destruct A as [|a0 A0].
      { rewrite peel_nil. now apply peel_nonneg. }
      set (A := a0 :: A0) in *.
      assert (HneA : A <> []) by (unfold A; congruence).
      assert (HneB : B <> []).
      { destruct (Hc a0 (or_introl eq_refl)) as [b0 [Hb0 _]]. intro E. now rewrite E in Hb0. }
      set (mA := lastmin k A). set (mB := lastmin k B).
      set (m := if Qltb mA mB then mA else mB).
      assert (HmA : m <= mA) by (unfold m; destruct (Qltb mA mB) eqn:E; [lra | apply Qltb_false in E; lra]).
      assert (HmB : m <= mB) by (unfold m; destruct (Qltb mA mB) eqn:E; [apply Qltb_lt in E; lra | lra]).
      assert (LA : lb m A) by (intros q Hq; pose proof (lastmin_le k A q Hq); fold mA in H0; lra).
      assert (LB : lb m B) by (intros q Hq; pose proof (lastmin_le k B q Hq); fold mB in H0; lra).
      rewrite (peel_split fa b m A LA Hfa), (peel_split fb b m B LB Hfb).
      assert (Hb : b <= m).
      { pose proof (lb_le_lastmin b A HneA HlA). pose proof (lb_le_lastmin b B HneB HlB).
        fold mA in H0. fold mB in H1. unfold m. destruct (Qltb mA mB); lra. }
      pose proof (H_cover A B HnA HnB (cover_weaken (S k) k A B (Nat.le_succ_diag_r k) Hc)) as HH.
      pose proof (H_nonneg A HnA) as H0A.
      assert (HR : peel H k fa m (above m A) <= peel H k fb m (above m B)).
      { apply IH.
        - pose proof (filter_length_le (fun q => Qltb m (coord q k)) A).
          pose proof (filter_length_le (fun q => Qltb m (coord q k)) B).
          unfold m in *. destruct (Qltb mA mB) eqn:E.
          + pose proof (above_lastmin_lt A HneA). fold mA in H2. unfold above in *. simpl in Hn. simpl in *. lia.
          + pose proof (above_lastmin_lt B HneB). fold mB in H2. unfold above in *. simpl in Hn. simpl in *. lia.
        - pose proof (filter_length_le (fun q => Qltb m (coord q k)) A). unfold above. lia.
        - pose proof (filter_length_le (fun q => Qltb m (coord q k)) B). unfold above. lia.
        - now apply nnP_filter.
        - now apply nnP_filter.
        - apply lb_above.
        - apply lb_above.
        - now apply cover_above. }
      nra.
  Qed.
End Peel.

(* ---------- hv_spec, all dimensions ---------- *)
Lemma hv_nil d : hv_spec d [] = 0.
Proof. destruct d; reflexivity. Qed.

Lemma hv_nil_eq d : hv_spec d [] == 0.
Proof. rewrite hv_nil. reflexivity. Qed.

Lemma nnP_lb0 k P : nnP P -> lb k 0 P.
Proof. intros Hn q Hq. now apply Hn. Qed.

Lemma hv_S d P : hv_spec (S d) P = peel (hv_spec d) d (length P) 0 P.
Proof. reflexivity. Qed.

Lemma hv_nonneg : forall d P, nnP P -> 0 <= hv_spec d P.
Proof.
  induction d as [|d IH]; intros P Hn.
  - simpl. destruct P; lra.
  - rewrite hv_S. apply peel_nonneg; [exact IH | exact Hn | now apply nnP_lb0].
Qed.

(* MASTER LEMMA: if every box of A lies inside some box of B, hv A <= hv B *)
Theorem hv_cover : forall d A B, nnP A -> nnP B -> cover d A B -> hv_spec d A <= hv_spec d B.
Proof.
  induction d as [|d IH]; intros A B HA HB Hc.
  - simpl. destruct A as [|a A]; [destruct B; lra|].
    destruct (Hc a (or_introl eq_refl)) as [b [Hb _]]. destruct B; [contradiction | lra].
  - rewrite !hv_S.
    apply (peel_cover (hv_spec d) d (hv_nil_eq d) (hv_nonneg d) IH (length A + length B)); auto;
      try lia; now apply nnP_lb0.
Qed.

Lemma hv_cover_eq d A B : nnP A -> nnP B -> cover d A B -> cover d B A -> hv_spec d A == hv_spec d B.
Proof. intros. apply Qle_antisym; now apply hv_cover. Qed.

Lemma nnP_perm A B : Permutation A B -> nnP A -> nnP B.
Proof. intros Hp Hn p Hpb. apply Hn. apply Permutation_in with B; [now apply Permutation_sym | exact Hpb]. Qed.

Lemma nnP_incl A B : incl B A -> nnP A -> nnP B.
Proof. intros Hi Hn p Hp. apply Hn. now apply Hi. Qed.

(* order invariance *)
Theorem hv_spec_perm d A B : nnP A -> Permutation A B -> hv_spec d A == hv_spec d B.
Proof.
  intros Hn Hp. apply hv_cover_eq; [exact Hn | now apply (nnP_perm A) | |].
  - apply cover_incl. intros x Hx. now apply Permutation_in with A.
  - apply cover_incl. intros x Hx. apply Permutation_in with B; [now apply Permutation_sym | exact Hx].
Qed.

(* hv depends only on the SET of points *)
Lemma hv_spec_seteq d A B : nnP A -> incl A B -> incl B A -> hv_spec d A == hv_spec d B.
Proof.
  intros Hn H1 H2. apply hv_cover_eq; [exact Hn | now apply (nnP_incl A) | now apply cover_incl | now apply cover_incl].
Qed.

Lemma nnP_insert P1 P2 p : nnP (P1 ++ P2) -> nnpt p -> nnP (P1 ++ p :: P2).
Proof.
  intros Hn Hp q Hq. apply in_app_or in Hq. destruct Hq as [Hq|[<-|Hq]]; [| exact Hp |];
    apply Hn; apply in_or_app; auto.
Qed.

(* adding (anywhere in the list) a point that is no better than some member in every
   coordinate changes nothing *)
Theorem hv_spec_dominated d P1 P2 p q :
  nnP (P1 ++ P2) -> nnpt p -> In q (P1 ++ P2) -> (forall i, (i < d)%nat -> coord p i <= coord q i) ->
  hv_spec d (P1 ++ p :: P2) == hv_spec d (P1 ++ P2).
Proof.
  intros Hn Hp Hq Hle. apply hv_cover_eq; [now apply nnP_insert | exact Hn | |].
  - intros a Ha. apply in_app_or in Ha. destruct Ha as [Ha|[<-|Ha]].
    + exists a. split; [apply in_or_app; now left | intros; lra].
    + exists q. split; [exact Hq | exact Hle].
    + exists a. split; [apply in_or_app; now right | intros; lra].
  - apply cover_incl. intros a Ha. apply in_app_or in Ha. apply in_or_app. destruct Ha; [now left | right; now right].
Qed.

(* a duplicate: a different list entry with the same coordinates *)
Theorem hv_spec_duplicate d P1 P2 p q :
  nnP (P1 ++ P2) -> In q (P1 ++ P2) -> (forall i, (i < d)%nat -> coord p i == coord q i) -> nnpt p ->
  hv_spec d (P1 ++ p :: P2) == hv_spec d (P1 ++ P2).
Proof.
  intros Hn Hq He Hp. apply (hv_spec_dominated d P1 P2 p q); auto. intros i Hi. rewrite (He i Hi). lra.
Qed.

(* the same entry listed once more *)
Theorem hv_spec_repeated d P1 P2 p :
  nnP (P1 ++ P2) -> In p (P1 ++ P2) -> hv_spec d (P1 ++ p :: P2) == hv_spec d (P1 ++ P2).
Proof.
  intros Hn Hp. apply (hv_spec_dominated d P1 P2 p p); auto. intros; lra.
Qed.

(* adding a point never decreases the value *)
Theorem hv_spec_monotone d P1 P2 p :
  nnP (P1 ++ P2) -> nnpt p -> hv_spec d (P1 ++ P2) <= hv_spec d (P1 ++ p :: P2).
Proof.
  intros Hn Hp. apply hv_cover; [exact Hn | now apply nnP_insert |].
  apply cover_incl. intros a Ha. apply in_app_or in Ha. apply in_or_app. destruct Ha; [now left | right; now right].
Qed.

(* one box: the product of its coordinates *)
Fixpoint boxvol (d : nat) (p : point) : Q :=
  match d with O => 1 | S k => boxvol k p * coord p k end.

Lemma hv_single : forall d p, hv_spec d [p] == boxvol d p.
Proof.
  induction d as [|d IH]; intro p; [reflexivity|].
  rewrite hv_S. simpl length. rewrite peel_cons. simpl peel. simpl boxvol.
  unfold lastmin. simpl qmin_from. rewrite IH. ring.
Qed.

Lemma boxvol_range : forall d p, (forall i, (i < d)%nat -> 0 <= coord p i <= 1) -> 0 <= boxvol d p <= 1.
Proof.
  induction d as [|d IH]; intros p Hr; simpl; [lra|].
  assert (0 <= boxvol d p <= 1) by (apply IH; intros; apply Hr; lia).
  pose proof (Hr d (Nat.lt_succ_diag_r d)). nra.
Qed.

Lemma coord_repeat : forall d i, coord (repeat 1 d) i = if (i <? d)%nat then 1 else 0.
Proof.
  induction d as [|d IH]; intro i; [destruct i; reflexivity|].
  destruct i; [reflexivity|]. simpl repeat. unfold coord. simpl nth.
  specialize (IH i). unfold coord in IH. rewrite IH. reflexivity.
Qed.

(* the value lies in [0,1] when the coordinates do *)
Theorem hv_spec_range d P :
  nnP P -> (forall p i, In p P -> (i < d)%nat -> coord p i <= 1) -> 0 <= hv_spec d P <= 1.
Proof.
  intros Hn H1. split; [now apply hv_nonneg|].
  set (u := repeat 1 d).
  assert (Hu : nnpt u).
  { intro i. unfold u. rewrite coord_repeat. destruct (i <? d)%nat; lra. }
  assert (Hc : cover d P [u]).
  { intros a Ha. exists u. split; [now left|]. intros i Hi. unfold u. rewrite coord_repeat.
    rewrite (proj2 (Nat.ltb_lt i d) Hi). now apply H1. }
  pose proof (hv_cover d P [u] Hn (nnP_cons u [] Hu (fun _ F => match F with end)) Hc) as HH.
  rewrite hv_single in HH.
  assert (0 <= boxvol d u <= 1).
  { apply boxvol_range. intros i Hi. unfold u. rewrite coord_repeat. rewrite (proj2 (Nat.ltb_lt i d) Hi). lra. }
  lra.
Qed.

(* ================= Part C: refinement ================= *)

(* ---------- the array ---------- *)
Lemma aset_length a : forall i v, length (aset a i v) = length a.
Proof. induction a as [|x r IH]; intros [|i] v; simpl; auto. Qed.

Lemma aget_aset a : forall i v t, (i < length a)%nat ->
  aget (aset a i v) t = if (t =? i)%nat then v else aget a t.
Proof.
  unfold aget. induction a as [|x r IH]; intros i v t Hi; simpl in Hi; [lia|].
  destruct i as [|i]; destruct t as [|t]; simpl; try reflexivity.
  apply IH. lia.
Qed.

Lemma swap_length a i j : length (swap a i j) = length a.
Proof. unfold swap. now rewrite !aset_length. Qed.

Lemma aget_swap a i j t : (i < length a)%nat -> (j < length a)%nat ->
  aget (swap a i j) t = if (t =? j)%nat then aget a i else if (t =? i)%nat then aget a j else aget a t.
Proof.
  intros Hi Hj. unfold swap. rewrite aget_aset by (now rewrite aset_length).
  destruct (t =? j)%nat; [reflexivity|]. now rewrite aget_aset.
Qed.

Lemma nnpt_nil : nnpt [].
Proof. intro i. unfold coord. destruct i; simpl; lra. Qed.

(* x occurs among the first n entries *)
Definition inz (a : list point) (n : nat) (x : point) : Prop := exists t, (t < n)%nat /\ aget a t = x.
Definition same_zone (a a' : list point) (n : nat) : Prop := forall x, inz a n x <-> inz a' n x.
Definition frame (a a' : list point) (n : nat) : Prop :=
  length a' = length a /\ forall t, (n <= t)%nat -> aget a' t = aget a t.
Definition nnA (a : list point) : Prop := forall t, nnpt (aget a t).

Lemma same_zone_refl a n : same_zone a a n.
Proof. intro x. reflexivity. Qed.
Lemma same_zone_trans a b c n : same_zone a b n -> same_zone b c n -> same_zone a c n.
Proof. intros H1 H2 x. rewrite (H1 x). apply H2. Qed.
Lemma same_zone_sym a b n : same_zone a b n -> same_zone b a n.
Proof. intros H1 x. symmetry. apply H1. Qed.
Lemma frame_refl a n : frame a a n.
Proof. split; auto. Qed.
Lemma frame_trans a b c n : frame a b n -> frame b c n -> frame a c n.
Proof. intros [L1 F1] [L2 F2]. split; [congruence|]. intros t Ht. rewrite F2, F1; auto. Qed.

Lemma inz_S a n x : inz a (S n) x <-> inz a n x \/ aget a n = x.
Proof.
  split.
  - intros [t [Ht E]]. destruct (Nat.eq_dec t n) as [->|Hne]; [now right|]. left. exists t. split; [lia | exact E].
  - intros [[t [Ht E]]|E]; [exists t; split; [lia | exact E] | exists n; split; [lia | exact E]].
Qed.

Lemma inz_mono a n m x : (n <= m)%nat -> inz a n x -> inz a m x.
Proof. intros Hnm [t [Ht E]]. exists t. split; [lia | exact E]. Qed.

(* a change confined to the first m entries is also a change confined to the first n >= m *)
Lemma zone_extend a a' m n : (m <= n)%nat -> frame a a' m -> same_zone a a' m -> frame a a' n /\ same_zone a a' n.
Proof.
  intros Hmn [L F] Z. split.
  - split; [exact L|]. intros t Ht. apply F. lia.
  - intro x. split; intros [t [Ht E]].
    + destruct (Nat.lt_ge_cases t m) as [Lt|Ge].
      * assert (Hi : inz a m x) by (exists t; auto). apply Z in Hi. now apply inz_mono with m.
      * exists t. split; [exact Ht|]. now rewrite F.
    + destruct (Nat.lt_ge_cases t m) as [Lt|Ge].
      * assert (Hi : inz a' m x) by (exists t; auto). apply Z in Hi. now apply inz_mono with m.
      * exists t. split; [exact Ht|]. now rewrite <- F.
Qed.

Lemma swap_zone a i j n : (i < n)%nat -> (j < n)%nat -> (n <= length a)%nat ->
  frame a (swap a i j) n /\ same_zone a (swap a i j) n.
Proof.
  intros Hi Hj Hn. split.
  - split; [apply swap_length|]. intros t Ht. rewrite aget_swap by lia.
    destruct (Nat.eqb_spec t j); [lia|]. destruct (Nat.eqb_spec t i); [lia|]. reflexivity.
  - intro x. split; intros [t [Ht E]].
    + destruct (Nat.eq_dec t i) as [->|Hti]; [|destruct (Nat.eq_dec t j) as [->|Htj]].
      * exists j. split; [exact Hj|]. rewrite aget_swap by lia. rewrite Nat.eqb_refl. exact E.
      * exists i. split; [exact Hi|]. rewrite aget_swap by lia.
        destruct (Nat.eqb_spec i j) as [e|e]; [rewrite e; exact E|]. rewrite Nat.eqb_refl. exact E.
      * exists t. split; [exact Ht|]. rewrite aget_swap by lia.
        destruct (Nat.eqb_spec t j); [lia|]. destruct (Nat.eqb_spec t i); [lia|]. exact E.
    + rewrite aget_swap in E by lia.
      destruct (Nat.eqb_spec t j); [exists i; auto|]. destruct (Nat.eqb_spec t i); [exists j; auto|]. exists t; auto.
Qed.

Lemma nnA_preserved a a' n : nnA a -> frame a a' n -> same_zone a a' n -> nnA a'.
Proof.
  intros Hn [L F] Z t. destruct (Nat.lt_ge_cases t n) as [Lt|Ge].
  - assert (Hi : inz a' n (aget a' t)) by (exists t; auto). apply Z in Hi. destruct Hi as [s [_ E]].
    rewrite <- E. apply Hn.
  - rewrite F by exact Ge. apply Hn.
Qed.

Lemma in_firstn_inz a : forall n x, (n <= length a)%nat -> (In x (firstn n a) <-> inz a n x).
Proof.
  unfold inz, aget. induction a as [|y r IH]; intros n x Hn; simpl in Hn.
  - assert (n = 0)%nat by lia. subst. simpl. split; [contradiction | intros [t [Ht _]]; lia].
  - destruct n as [|n]; simpl.
    + split; [contradiction | intros [t [Ht _]]; lia].
    + rewrite IH by lia. split.
      * intros [<-|[t [Ht E]]]; [exists 0%nat; split; [lia | reflexivity] | exists (S t); split; [lia | exact E]].
      * intros [[|t] [Ht E]]; [now left | right; exists t; split; [lia | exact E]].
Qed.

Lemma nnP_firstn a n : nnA a -> (n <= length a)%nat -> nnP (firstn n a).
Proof.
  intros Hn Hl p Hp. apply in_firstn_inz in Hp; [|exact Hl]. destruct Hp as [t [_ E]]. rewrite <- E. apply Hn.
Qed.

(* ---------- dominates ---------- *)
Lemma dom_scan_spec p q : forall n s b,
  dom_scan p q (seq s n) b = true <->
  ((b = true \/ (0 < n)%nat) /\ forall i, (s <= i < s + n)%nat -> coord q i < coord p i).
Proof.
  induction n as [|n IH]; intros s b; simpl.
  - split.
    + intro E. split; [now left | intros; lia].
    + intros [[E|E] _]; [exact E | lia].
  - destruct (Qltb (coord q s) (coord p s)) eqn:E.
    + rewrite IH. apply Qltb_lt in E. split.
      * intros [_ Hall]. split; [right; lia|]. intros i Hi.
        destruct (Nat.eq_dec i s) as [->|Hne]; [exact E | apply Hall; lia].
      * intros [_ Hall]. split; [now left|]. intros i Hi. apply Hall. lia.
    + apply Qltb_false in E. split; [discriminate|].
      intros [_ Hall]. specialize (Hall s ltac:(lia)). lra.
Qed.

Lemma dominates_spec p q k :
  dominates p q k = true <-> ((0 < k)%nat /\ forall i, (i < k)%nat -> coord q i < coord p i).
Proof.
  unfold dominates. rewrite dom_scan_spec. split.
  - intros [[E|E] Hall]; [discriminate|]. split; [exact E|]. intros i Hi. apply Hall. lia.
  - intros [E Hall]. split; [now right|]. intros i Hi. apply Hall. lia.
Qed.

Lemma dominates_trans p q r k : dominates p q k = true -> dominates q r k = true -> dominates p r k = true.
Proof.
  rewrite !dominates_spec. intros [K H1] [_ H2]. split; [exact K|]. intros i Hi.
  specialize (H1 i Hi). specialize (H2 i Hi). lra.
Qed.

(* ---------- reduce_set ---------- *)
Lemma Qle_bool_false a b : Qle_bool a b = false -> b < a.
Proof.
  intro E. apply Qnot_le_lt. intro C. apply Qle_bool_iff in C. congruence.
Qed.

Lemma rs_loop_spec obj thr : forall fuel a i n, (n - i < fuel)%nat -> (n <= length a)%nat ->
  exists n' a', rs_loop fuel obj thr a i n = Ok (n', a') /\ (n' <= n)%nat /\
    frame a a' n /\ same_zone a a' n /\
    (forall t, (n' <= t < n)%nat -> coord (aget a' t) obj <= thr) /\
    (n' = n -> forall t, (i <= t < n)%nat -> thr < coord (aget a t) obj).
Proof.
  induction fuel as [|f IH]; intros a i n Hf Hn; [lia|].
  simpl. destruct (Nat.ltb_spec i n) as [Lt|Ge].
  - destruct (Qle_bool (coord (aget a i) obj) thr) eqn:E.
    + apply Qle_bool_iff in E.
      destruct (swap_zone a i (n - 1) n ltac:(lia) ltac:(lia) Hn) as [F0 Z0].
      destruct (IH (swap a i (n - 1)) (S i) (n - 1)%nat ltac:(lia) ltac:(rewrite swap_length; lia))
        as [n' [a' [R [Hle [F1 [Z1 [Rem _]]]]]]].
      destruct (zone_extend _ _ (n - 1) n ltac:(lia) F1 Z1) as [F2 Z2].
      exists n', a'. split; [exact R|]. split; [lia|]. split; [now apply frame_trans with (swap a i (n - 1))|].
      split; [now apply same_zone_trans with (swap a i (n - 1))|]. split; [|lia].
      intros t Ht. destruct (Nat.eq_dec t (n - 1)) as [->|Hne].
      * destruct F1 as [_ F1]. rewrite F1 by lia. rewrite aget_swap by lia. rewrite Nat.eqb_refl. exact E.
      * apply Rem. lia.
    + apply Qle_bool_false in E.
      destruct (IH a (S i) n ltac:(lia) Hn) as [n' [a' [R [Hle [F1 [Z1 [Rem Keep]]]]]]].
      exists n', a'. repeat split; try assumption; try apply F1; try apply Z1.
      intros En t Ht. destruct (Nat.eq_dec t i) as [->|Hne]; [exact E | apply Keep; [exact En | lia]].
  - exists n, a. split; [reflexivity|]. split; [lia|]. split; [apply frame_refl|]. split; [apply same_zone_refl|].
    split; intros; lia.
Qed.

Lemma reduce_set_spec a n obj thr : (n <= length a)%nat ->
  (exists t, (t < n)%nat /\ coord (aget a t) obj <= thr) ->
  exists n' a', reduce_set a n obj thr = Ok (n', a') /\ (n' < n)%nat /\
    frame a a' n /\ same_zone a a' n /\
    (forall x, inz a n x -> thr < coord x obj -> inz a' n' x).
Proof.
  intros Hn [t0 [Ht0 Hle0]]. unfold reduce_set.
  destruct (rs_loop_spec obj thr (S n) a 0 n ltac:(lia) Hn) as [n' [a' [R [Hle [F [Z [Rem Keep]]]]]]].
  exists n', a'. split; [exact R|].
  assert (Hlt : (n' < n)%nat).
  { destruct (Nat.eq_dec n' n) as [En|Hne]; [|lia]. specialize (Keep En t0 ltac:(lia)). lra. }
  split; [exact Hlt|]. split; [exact F|]. split; [exact Z|].
  intros x Hx Hgt. apply Z in Hx. destruct Hx as [t [Ht E]].
  destruct (Nat.lt_ge_cases t n') as [L|G]; [exists t; auto|].
  specialize (Rem t ltac:(lia)). rewrite E in Rem. lra.
Qed.

(* ---------- filter_nondominated ---------- *)
Ltac sw := repeat (rewrite aget_swap by lia);
           repeat match goal with |- context [(?x =? ?y)%nat] => destruct (Nat.eqb_spec x y); try lia end.

Section FND.
  Variable k : nat.   (* number of coordinates compared *)
  Definition domz (a : list point) (s t : nat) : bool := dominates (aget a s) (aget a t) k.
  (* every removed entry (positions n..n0-1) is dominated by an active one *)
  Definition domd (a : list point) (n n0 : nat) : Prop :=
    forall t, (n <= t < n0)%nat -> exists s, (s < n)%nat /\ domz a s t = true.
  Definition ndp (a : list point) (s t : nat) : Prop := domz a s t = false /\ domz a t s = false.
  Definition ndI (a : list point) (i n : nat) : Prop :=
    forall s t, (s < i)%nat -> (t < n)%nat -> s <> t -> ndp a s t.
  Definition ndJ (a : list point) (i j : nat) : Prop := forall t, (i < t < j)%nat -> ndp a i t.

  Lemma domd_swap_j a i j n n0 : (i < j)%nat -> (j < n)%nat -> (n <= n0)%nat -> (n0 <= length a)%nat ->
    domz a i j = true -> domd a n n0 -> domd (swap a j (n - 1)) (n - 1) n0.
  Proof.
    intros Hij Hjn Hn0 Hl D Hd t Ht. unfold domz in *.
    destruct (Nat.eq_dec t (n - 1)) as [->|Hne].
    - exists i. split; [lia|]. sw. exact D.
    - destruct (Hd t ltac:(lia)) as [s [Hs Ds]].
      destruct (Nat.eq_dec s j) as [->|Hsj]; [|destruct (Nat.eq_dec s (n - 1)) as [->|Hsn]].
      + exists i. split; [lia|]. sw. now apply dominates_trans with (aget a j).
      + exists j. split; [lia|]. sw. exact Ds.
      + exists s. split; [lia|]. sw. exact Ds.
  Qed.

  Lemma ndI_swap_j a i j n : (i < j)%nat -> (j < n)%nat -> (n <= length a)%nat ->
    ndI a i n -> ndI (swap a j (n - 1)) i (n - 1).
  Proof.
    intros Hij Hjn Hl HI s t Hs Ht Hst. unfold ndp, domz in *.
    destruct (Nat.eq_dec t j) as [->|Htj].
    - specialize (HI s (n - 1)%nat Hs ltac:(lia) ltac:(lia)). sw. exact HI.
    - specialize (HI s t Hs ltac:(lia) Hst). sw. exact HI.
  Qed.

  Lemma ndJ_swap_j a i j n : (i < j)%nat -> (j < n)%nat -> (n <= length a)%nat ->
    ndJ a i j -> ndJ (swap a j (n - 1)) i j.
  Proof.
    intros Hij Hjn Hl HJ t Ht. unfold ndp, domz in *. specialize (HJ t Ht). sw. exact HJ.
  Qed.

  Lemma domd_swap_i a i j n n0 : (i < j)%nat -> (j < n)%nat -> (n <= n0)%nat -> (n0 <= length a)%nat ->
    domz a j i = true -> domd a n n0 -> domd (swap a i (n - 1)) (n - 1) n0.
  Proof.
    intros Hij Hjn Hn0 Hl D Hd t Ht. unfold domz in *.
    (* where the dominating entry a[j] sits after the swap *)
    assert (Hw : exists w, (w < n - 1)%nat /\ aget (swap a i (n - 1)) w = aget a j).
    { destruct (Nat.eq_dec j (n - 1)) as [->|Hne].
      - exists i. split; [lia|]. sw. reflexivity.
      - exists j. split; [lia|]. sw. reflexivity. }
    destruct Hw as [w [Hw Ew]].
    destruct (Nat.eq_dec t (n - 1)) as [->|Hne].
    - exists w. split; [exact Hw|]. rewrite Ew. sw. exact D.
    - destruct (Hd t ltac:(lia)) as [s [Hs Ds]].
      destruct (Nat.eq_dec s i) as [->|Hsi]; [|destruct (Nat.eq_dec s (n - 1)) as [->|Hsn]].
      + exists w. split; [exact Hw|]. rewrite Ew. sw. now apply dominates_trans with (aget a i).
      + exists i. split; [lia|]. sw. exact Ds.
      + exists s. split; [lia|]. sw. exact Ds.
  Qed.

  Lemma ndI_swap_i a i n : (i < n - 1)%nat -> (n <= length a)%nat ->
    ndI a i n -> ndI (swap a i (n - 1)) i (n - 1).
  Proof.
    intros Hin Hl HI s t Hs Ht Hst. unfold ndp, domz in *.
    destruct (Nat.eq_dec t i) as [->|Hti].
    - specialize (HI s (n - 1)%nat Hs ltac:(lia) ltac:(lia)). sw. exact HI.
    - specialize (HI s t Hs ltac:(lia) Hst). sw. exact HI.
  Qed.

  Lemma fnd_inner_spec n0 : forall fuel a i j n,
    (n - j < fuel)%nat -> (i < j)%nat -> (j <= n)%nat -> (n <= n0)%nat -> (n0 <= length a)%nat ->
    domd a n n0 -> ndI a i n -> ndJ a i j ->
    exists brk n' a', fnd_inner fuel k a i j n = Ok (brk, n', a') /\
      (i < n')%nat /\ (n' <= n)%nat /\ (brk = true -> (n' < n)%nat) /\
      frame a a' n0 /\ same_zone a a' n0 /\
      domd a' n' n0 /\ ndI a' i n' /\ (brk = false -> ndJ a' i n').
  Proof.
    induction fuel as [|f IH]; intros a i j n Hf Hij Hjn Hn0 Hl Hd HI HJ; [lia|].
    simpl. destruct (Nat.ltb_spec j n) as [Lt|Ge].
    - destruct (dominates (aget a i) (aget a j) k) eqn:D1.
      + destruct (swap_zone a j (n - 1) n ltac:(lia) ltac:(lia) ltac:(lia)) as [F0 Z0].
        destruct (zone_extend _ _ n n0 Hn0 F0 Z0) as [F0' Z0'].
        destruct (IH (swap a j (n - 1)) i j (n - 1)%nat ltac:(lia) Hij ltac:(lia) ltac:(lia)
                    ltac:(rewrite swap_length; lia)
                    (domd_swap_j a i j n n0 Hij Lt Hn0 Hl D1 Hd)
                    (ndI_swap_j a i j n Hij Lt ltac:(lia) HI)
                    (ndJ_swap_j a i j n Hij Lt ltac:(lia) HJ))
          as [brk [n' [a' [R [A1 [A2 [A3 [F1 [Z1 [B1 [B2 B3]]]]]]]]]]].
        exists brk, n', a'. split; [exact R|]. split; [exact A1|]. split; [lia|]. split; [intro; lia|].
        split; [now apply frame_trans with (swap a j (n - 1))|].
        split; [now apply same_zone_trans with (swap a j (n - 1))|]. auto.
      + destruct (dominates (aget a j) (aget a i) k) eqn:D2.
        * destruct (swap_zone a i (n - 1) n ltac:(lia) ltac:(lia) ltac:(lia)) as [F0 Z0].
          destruct (zone_extend _ _ n n0 Hn0 F0 Z0) as [F0' Z0'].
          exists true, (n - 1)%nat, (swap a i (n - 1)). split; [reflexivity|].
          split; [lia|]. split; [lia|]. split; [intro; lia|]. split; [exact F0'|]. split; [exact Z0'|].
          split; [exact (domd_swap_i a i j n n0 Hij Lt Hn0 Hl D2 Hd)|].
          split; [apply ndI_swap_i; [lia | lia | exact HI] | discriminate].
        * apply IH; try lia; try assumption.
          intros t Ht. destruct (Nat.eq_dec t j) as [->|Hne]; [split; assumption | apply HJ; lia].
    - exists false, n, a. split; [reflexivity|]. split; [lia|]. split; [lia|]. split; [discriminate|].
      split; [apply frame_refl|]. split; [apply same_zone_refl|]. split; [exact Hd|]. split; [exact HI|].
      intros _ t Ht. apply HJ. lia.
  Qed.

  Lemma fnd_outer_spec n0 : forall fuel a i n,
    (2 * n - i < fuel)%nat -> (i <= n)%nat -> (n <= n0)%nat -> (n0 <= length a)%nat -> (1 <= n)%nat ->
    domd a n n0 -> ndI a i n ->
    exists n' a', fnd_outer fuel k a i n = Ok (n', a') /\
      (1 <= n')%nat /\ (n' <= n)%nat /\ frame a a' n0 /\ same_zone a a' n0 /\
      domd a' n' n0 /\ ndI a' n' n'.
  Proof.
    induction fuel as [|f IH]; intros a i n Hf Hin Hn0 Hl H1 Hd HI; [lia|].
    cbn [fnd_outer]. destruct (Nat.ltb_spec i n) as [Lt|Ge].
    - destruct (fnd_inner_spec n0 (S n) a i (S i) n ltac:(lia) ltac:(lia) ltac:(lia) Hn0 Hl Hd HI
                  ltac:(intros t Ht; lia))
        as [brk [n1 [a1 [R [A1 [A2 [A3 [F1 [Z1 [B1 [B2 B3]]]]]]]]]]].
      rewrite R. cbn [bind].
      assert (Hl1 : (n0 <= length a1)%nat) by (destruct F1 as [L _]; lia).
      destruct brk.
      + specialize (A3 eq_refl).
        destruct (IH a1 i n1 ltac:(lia) ltac:(lia) ltac:(lia) Hl1 ltac:(lia) B1 B2)
          as [n' [a' [R' [C1 [C2 [F2 [Z2 [D1 D2]]]]]]]].
        exists n', a'. split; [exact R'|]. split; [exact C1|]. split; [lia|].
        split; [now apply frame_trans with a1|]. split; [now apply same_zone_trans with a1 | auto].
      + specialize (B3 eq_refl).
        assert (HI' : ndI a1 (S i) n1).
        { intros s t Hs Ht Hst. destruct (Nat.eq_dec s i) as [->|Hne].
          - destruct (Nat.lt_ge_cases i t) as [L|G]; [apply B3; lia|].
            assert (Hti : (t < i)%nat) by lia.
            destruct (B2 t i Hti ltac:(lia) ltac:(lia)) as [X Y]. split; assumption.
          - apply B2; [lia | exact Ht | exact Hst]. }
        destruct (IH a1 (S i) n1 ltac:(lia) ltac:(lia) ltac:(lia) Hl1 ltac:(lia) B1 HI')
          as [n' [a' [R' [C1 [C2 [F2 [Z2 [D1 D2]]]]]]]].
        exists n', a'. split; [exact R'|]. split; [exact C1|]. split; [lia|].
        split; [now apply frame_trans with a1|]. split; [now apply same_zone_trans with a1 | auto].
    - exists n, a. split; [reflexivity|]. split; [exact H1|]. split; [lia|]. split; [apply frame_refl|].
      split; [apply same_zone_refl|]. split; [exact Hd|].
      assert (i = n) by lia. subst. exact HI.
  Qed.

  Lemma filter_nondominated_spec a n : (1 <= n)%nat -> (n <= length a)%nat ->
    exists n' a', filter_nondominated a n k = Ok (n', a') /\
      (1 <= n')%nat /\ (n' <= n)%nat /\ frame a a' n /\ same_zone a a' n /\
      domd a' n' n /\ ndI a' n' n'.
  Proof.
    intros H1 Hl. unfold filter_nondominated.
    apply (fnd_outer_spec n (2 * n + 1) a 0 n); try lia.
    - intros t Ht. lia.
    - intros s t Hs. lia.
  Qed.
End FND.

(* ---------- surface_unchanged_to ---------- *)
Lemma surface_spec a n k : (1 <= n)%nat ->
  exists m, surface_unchanged_to a n k = Ok m /\
    (forall t, (t < n)%nat -> m <= coord (aget a t) k) /\
    (exists t, (t < n)%nat /\ m = coord (aget a t) k).
Proof.
  intro H1. unfold surface_unchanged_to. destruct n as [|n]; [lia|].
  simpl seq. simpl map. simpl qminl.
  set (f := fun i : nat => coord (aget a i) k).
  exists (qmin_from (f 0%nat) (map f (seq 1 n))). split; [reflexivity|].
  destruct (qmin_from_le (f 0%nat) (map f (seq 1 n))) as [A B]. split.
  - intros t Ht. destruct t as [|t]; [exact A|]. apply B. apply (in_map f _ (S t)). apply in_seq. lia.
  - destruct (qmin_from_in (f 0%nat) (map f (seq 1 n))) as [E|E].
    + exists 0%nat. split; [lia | exact E].
    + apply in_map_iff in E. destruct E as [t [E Ht]]. apply in_seq in Ht. exists t. split; [lia | symmetry; exact E].
Qed.

(* ---------- calc_internal ---------- *)
(* what the `temp_volume = ...` branch must deliver: on a prefix whose entries are mutually
   non-dominated (first k coordinates) it returns hv_spec k of the prefix and only permutes it *)
Definition rec_ok (rec : list point -> nat -> res (Q * list point)) (k : nat) : Prop :=
  forall a n, (1 <= n)%nat -> (n <= length a)%nat -> nnA a -> ndI k a n n ->
    exists v a', rec a n = Ok (v, a') /\ v == hv_spec k (firstn n a) /\ frame a a' n /\ same_zone a a' n.

Definition lbz (k : nat) (a : list point) (n : nat) (b : Q) : Prop :=
  forall t, (t < n)%nat -> b <= coord (aget a t) k.

Lemma frame_length a a' n : frame a a' n -> length a' = length a.
Proof. now intros [L _]. Qed.

Lemma ci_loop_ok rec k (Hrec : rec_ok rec k) : forall fuel vol dist a n,
  (n <= fuel)%nat -> (n <= length a)%nat -> nnA a -> lbz k a n dist ->
  exists v a', ci_loop rec k fuel vol dist a n = Ok (v, a') /\
    v == vol + peel (hv_spec k) k n dist (firstn n a) /\ frame a a' n /\ same_zone a a' n.
Proof.
  induction fuel as [|f IH]; intros vol dist a n Hf Hl Hnn Hlb.
  - assert (n = 0)%nat by lia. subst. exists vol, a. split; [reflexivity|]. simpl.
    split; [ring|]. split; [apply frame_refl | apply same_zone_refl].
  - destruct n as [|n'].
    { exists vol, a. split; [reflexivity|]. simpl. split; [ring|]. split; [apply frame_refl | apply same_zone_refl]. }
    set (n := S n') in *.
    cbn [ci_loop]. replace (Nat.ltb 0 n) with true by (symmetry; apply Nat.ltb_lt; unfold n; lia).
    (* filter_nondominated *)
    destruct (filter_nondominated_spec k a n ltac:(unfold n; lia) Hl)
      as [n1 [a1 [R1 [N1 [N1' [F1 [Z1 [D1 I1]]]]]]]].
    rewrite R1. cbn [bind].
    pose proof (nnA_preserved a a1 n Hnn F1 Z1) as Hnn1.
    pose proof (frame_length _ _ _ F1) as L1.
    (* temp_volume *)
    destruct (Hrec a1 n1 N1 ltac:(lia) Hnn1 I1) as [tv [a2 [R2 [Etv [F2 Z2]]]]].
    rewrite R2. cbn [bind].
    destruct (zone_extend a1 a2 n1 n N1' F2 Z2) as [F2' Z2'].
    pose proof (nnA_preserved a1 a2 n Hnn1 F2' Z2') as Hnn2.
    pose proof (frame_length _ _ _ F2) as L2.
    (* surface_unchanged_to *)
    destruct (surface_spec a2 n k ltac:(unfold n; lia)) as [m [R3 [Lm [tm [Htm Em]]]]].
    rewrite R3. cbn [bind].
    (* reduce_set *)
    destruct (reduce_set_spec a2 n k m ltac:(lia) ltac:(exists tm; split; [exact Htm | rewrite Em; lra]))
      as [n3 [a3 [R4 [Hlt [F3 [Z3 Keep]]]]]].
    rewrite R4. cbn [bind].
    pose proof (nnA_preserved a2 a3 n Hnn2 F3 Z3) as Hnn3.
    pose proof (frame_length _ _ _ F3) as L3.
    assert (Z02 : same_zone a a2 n) by (apply same_zone_trans with a1; assumption).
    assert (Hlb3 : lbz k a3 n3 m).
    { intros t Ht. assert (Hi : inz a3 n (aget a3 t)) by (exists t; split; [lia | reflexivity]).
      apply Z3 in Hi. destruct Hi as [s [Hs E]]. rewrite <- E. now apply Lm. }
    destruct (IH (vol + tv * (m - dist)) m a3 n3 ltac:(lia) ltac:(lia) Hnn3 Hlb3)
      as [v [a' [R5 [Ev [F4 Z4]]]]].
    destruct (zone_extend a3 a' n3 n ltac:(lia) F4 Z4) as [F4' Z4'].
    exists v, a'. split; [exact R5|]. split.
    + (* the value *)
      set (A := firstn n a). set (A3 := firstn n3 a3).
      assert (LA : length A = n) by (apply firstn_length_le; exact Hl).
      assert (LA3 : length A3 = n3) by (apply firstn_length_le; lia).
      assert (SA : forall x, In x A <-> inz a2 n x).
      { intro x. unfold A. rewrite (in_firstn_inz a n x Hl). apply Z02. }
      assert (SA3 : forall x, In x A3 <-> inz a3 n3 x).
      { intro x. unfold A3. apply in_firstn_inz. lia. }
      assert (HnA : nnP A) by (apply nnP_firstn; assumption).
      assert (HnA3 : nnP A3) by (apply nnP_firstn; [assumption | lia]).
      assert (LbA : lb k m A).
      { intros x Hx. apply SA in Hx. destruct Hx as [t [Ht E]]. rewrite <- E. now apply Lm. }
      assert (LbA3 : lb k m A3).
      { intros x Hx. apply SA3 in Hx. destruct Hx as [t [Ht E]]. rewrite <- E. now apply Hlb3. }
      (* (i) cut the integral at m *)
      pose proof (peel_split (hv_spec k) k (hv_nil_eq k) n dist m A LbA ltac:(lia)) as S1.
      (* (ii) temp_volume = hv_spec k of all active points *)
      assert (S2 : tv == hv_spec k A).
      { rewrite Etv. apply hv_cover_eq.
        - apply nnP_firstn; [assumption | lia].
        - exact HnA.
        - apply cover_incl. intros x Hx. apply in_firstn_inz in Hx; [|lia].
          apply SA. apply Z2'. now apply inz_mono with n1.
        - intros x Hx. apply SA in Hx. apply Z2' in Hx. destruct Hx as [t [Ht E]].
          destruct (Nat.lt_ge_cases t n1) as [L|G].
          + exists x. split; [apply in_firstn_inz; [lia | exists t; auto] | intros; lra].
          + destruct (D1 t ltac:(lia)) as [s [Hs Ds]]. unfold domz in Ds. rewrite E in Ds.
            apply dominates_spec in Ds. destruct Ds as [_ Ds].
            exists (aget a1 s). split; [apply in_firstn_inz; [lia | exists s; auto]|].
            intros i Hi. specialize (Ds i Hi). lra. }
      (* (iii) what is left after reduce_set *)
      pose proof (peel_split (hv_spec k) k (hv_nil_eq k) n3 m m A3 LbA3 ltac:(lia)) as S3.
      assert (S4 : peel (hv_spec k) k n3 m (above k m A3) == peel (hv_spec k) k n m (above k m A)).
      { assert (I1' : incl (above k m A3) (above k m A)).
        { intros x Hx. apply filter_In in Hx. destruct Hx as [Hx Gx]. apply filter_In. split; [|exact Gx].
          apply SA. apply Z3. apply inz_mono with n3; [lia|]. now apply SA3. }
        assert (I2' : incl (above k m A) (above k m A3)).
        { intros x Hx. apply filter_In in Hx. destruct Hx as [Hx Gx]. apply filter_In. split; [|exact Gx].
          apply SA3. apply Keep; [now apply SA | now apply Qltb_lt]. }
        pose proof (filter_length_le (fun q => Qltb m (coord q k)) A3) as LL3.
        pose proof (filter_length_le (fun q => Qltb m (coord q k)) A) as LL.
        apply Qle_antisym.
        - apply (peel_cover (hv_spec k) k (hv_nil_eq k) (hv_nonneg k) (hv_cover k)
                   (length (above k m A3) + length (above k m A))); unfold above in *; try lia;
            try (now apply nnP_filter); try apply lb_above. now apply cover_incl.
        - apply (peel_cover (hv_spec k) k (hv_nil_eq k) (hv_nonneg k) (hv_cover k)
                   (length (above k m A) + length (above k m A3))); unfold above in *; try lia;
            try (now apply nnP_filter); try apply lb_above. now apply cover_incl. }
      rewrite Ev. fold A3. rewrite S3, S4, S1, S2. ring.
    + split.
      * apply frame_trans with a3; [|exact F4']. apply frame_trans with a2; [|exact F3].
        apply frame_trans with a1; assumption.
      * apply same_zone_trans with a3; [|exact Z4']. apply same_zone_trans with a2; assumption.
Qed.

Lemma dominates1_false p q : dominates p q 1 = false -> coord p 0 <= coord q 0.
Proof.
  intro E. destruct (Qlt_le_dec (coord q 0) (coord p 0)) as [L|G]; [|exact G].
  assert (T : dominates p q 1 = true).
  { apply dominates_spec. split; [lia|]. intros i Hi. assert (i = 0)%nat by lia. now subst. }
  congruence.
Qed.

(* base of the recursion (nobjs = 2): after filter_nondominated on coordinate 0 every active
   entry carries the maximal coordinate 0, so solutions[0][0] is the 1-dimensional measure *)
Lemma rec_base_ok : rec_ok (fun a1 _ => Ok (coord (aget a1 0) 0, a1)) 1.
Proof.
  intros a n H1 Hl Hnn Hnd. exists (coord (aget a 0) 0), a. split; [reflexivity|].
  split; [|split; [apply frame_refl | apply same_zone_refl]].
  assert (E : hv_spec 1 (firstn n a) == hv_spec 1 [aget a 0%nat]).
  { apply hv_cover_eq.
    - now apply nnP_firstn.
    - intros p [<-|[]]. apply Hnn.
    - intros x Hx. apply in_firstn_inz in Hx; [|exact Hl]. destruct Hx as [t [Ht Ex]].
      exists (aget a 0%nat). split; [now left|]. intros i Hi. assert (i = 0)%nat by lia. subst i.
      destruct (Nat.eq_dec t 0) as [->|Hne]; [rewrite Ex; lra|].
      destruct (Hnd 0%nat t ltac:(lia) Ht ltac:(lia)) as [_ X]. unfold domz in X.
      apply dominates1_false in X. rewrite Ex in X. exact X.
    - apply cover_incl. intros x [<-|[]]. apply in_firstn_inz; [exact Hl|]. exists 0%nat. split; [lia | reflexivity]. }
  rewrite E, hv_single. simpl. ring.
Qed.

(* REFINEMENT of the recursive slicing: for every number of objectives >= 2 the literal
   array model returns hv_spec of the active prefix (fuel suffices), permuting only it *)
Theorem calc_internal_ok : forall D a n, (2 <= D)%nat -> (n <= length a)%nat -> nnA a ->
  exists v a', calc_internal D a n = Ok (v, a') /\ v == hv_spec D (firstn n a) /\
               frame a a' n /\ same_zone a a' n.
Proof.
  induction D as [|k IH]; intros a n HD Hl Hnn; [lia|].
  destruct k as [|k']; [lia|].
  assert (Hrec : rec_ok (if Nat.ltb (S (S k')) 3
                         then (fun a1 _ => Ok (coord (aget a1 0) 0, a1))
                         else calc_internal (S k')) (S k')).
  { destruct k' as [|k'']; [exact rec_base_ok|].
    intros a0 n0 _ Hl0 Hnn0 _. apply IH; [lia | exact Hl0 | exact Hnn0]. }
  cbn [calc_internal].
  destruct (ci_loop_ok _ (S k') Hrec n 0 0 a n (Nat.le_refl n) Hl Hnn ltac:(intros t Ht; apply Hnn))
    as [v [a' [R [Ev [F Z]]]]].
  exists v, a'. split; [exact R|]. split; [|split; assumption].
  rewrite Ev, hv_S. rewrite (firstn_length_le a Hl). ring.
Qed.
