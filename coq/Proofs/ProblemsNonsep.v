(* Proofs/ProblemsNonsep.v — C18, part 7: r_nonsep(y, |y|) maps [0,1]^n into [0,1].
   numerator  N = sum_j (y_j + sum_{k<n-1} |y_j - y_{(j+k+1) mod n}|) = S + sum_{i<>j} |y_i - y_j|   (cyclic reindexing)
   |a-b| <= a + b - 2ab on [0,1]        =>  N <= (2n+1) S - 2 S^2 - 2 G,   S = sum y_j,  G = sum y_j (1 - y_j)
   G >= r (1 - r), r = frac(S)          =>  N <= f(m) + r (f(m+1) - f(m)),  m = floor S, f(k) = k (2n+1-2k)
   f(k) <= f(ceil(n/2)) for integers k  =>  N <= ceil(n/2) (1 + 2n - 2 ceil(n/2)) = the denominator. *)
From Coq Require Import Reals List ZArith Lia Lra Bool.
Import ListNotations.
From PV Require Import Base.RList Gen.Problems Model.ProblemsRef Proofs.ProblemsProofs Proofs.ProblemsWFG Proofs.ProblemsWFGT.
Open Scope R_scope.
Set Default Timeout 60.

(* ------------------------------------------------------------------ sums *)
Lemma big_sum_split : forall (f : nat -> R) a b, big_sum f (a + b) = big_sum f a + big_sum (fun i => f (a + i)%nat) b.
Proof.
  intros f a b. induction b as [|b IH]; [rewrite Nat.add_0_r; simpl; lra|].
  replace (a + S b)%nat with (S (a + b)) by lia. cbn [big_sum]. rewrite IH. lra.
Qed.
Lemma big_sum_plus : forall (f g : nat -> R) n, big_sum (fun i => f i + g i) n = big_sum f n + big_sum g n.
Proof. intros f g n. induction n as [|n IH]; cbn [big_sum]; [lra|]. rewrite IH. lra. Qed.
Lemma big_sum_const : forall c n, big_sum (fun _ => c) n = INR n * c.
Proof. intros c n. induction n as [|n IH]; [simpl; lra|]. rewrite S_INR. cbn [big_sum]. rewrite IH. lra. Qed.

(* the cyclic walk j+1, j+2, ..., j+n-1 (mod n) visits every index except j *)
Lemma cyclic_sum : forall (g : nat -> R) n j, (j < n)%nat ->
  big_sum (fun k => g ((j + k) mod n)%nat) n = big_sum g n.
Proof.
  intros g n j Hj.
  pose proof (big_sum_split (fun k => g ((j + k) mod n)%nat) (n - j) j) as E1.
  pose proof (big_sum_split g j (n - j)) as E2.
  replace (n - j + j)%nat with n in E1 by lia. replace (j + (n - j))%nat with n in E2 by lia.
  rewrite E1, E2, Rplus_comm. f_equal.
  - apply big_sum_ext. intros i Hi. replace (j + (n - j + i))%nat with (i + 1 * n)%nat by lia.
    rewrite Nat.mod_add by lia. rewrite Nat.mod_small by lia. reflexivity.
  - apply big_sum_ext. intros i Hi. rewrite Nat.mod_small by lia. reflexivity.
Qed.
Lemma cyclic_sum_others : forall (g : nat -> R) n j, (j < n)%nat ->
  big_sum (fun k => g ((j + k + 1) mod n)%nat) (n - 1) = big_sum g n - g j.
Proof.
  intros g n j Hj. pose proof (cyclic_sum g n j Hj) as C.
  pose proof (big_sum_shift (n - 1) (fun k => g ((j + k) mod n)%nat)) as Sh.
  replace (S (n - 1)) with n in Sh by lia. cbv beta in Sh.
  replace (j + 0)%nat with j in Sh by lia. rewrite (Nat.mod_small j n) in Sh by lia.
  rewrite (big_sum_ext (n - 1) _ (fun k => g ((j + S k) mod n)%nat)); [lra|].
  intros i Hi. f_equal. f_equal. lia.
Qed.

(* ------------------------------------------------------------------ the pair bound and the quadratic form *)
Lemma abs_pair : forall a b, 0 <= a <= 1 -> 0 <= b <= 1 -> Rabs (a - b) <= a + b - 2 * a * b.
Proof. intros a b Ha Hb. apply Rabs_le. split; nra. Qed.

Section Nonsep.
  Variable Y : nat -> R.
  Variable n : nat.
  Hypothesis HY : forall i, 0 <= Y i <= 1.

  Let S := big_sum Y n.
  Let G := big_sum (fun i => Y i * (1 - Y i)) n.
  Definition nonsep_num : R := big_sum (fun j => Y j + big_sum (fun k => Rabs (Y j - Y ((j + k + 1) mod n)%nat)) (n - 1)) n.

  Lemma num_nonneg : 0 <= nonsep_num.
  Proof.
    unfold nonsep_num. apply big_sum_nonneg. intros j _.
    assert (0 <= big_sum (fun k => Rabs (Y j - Y ((j + k + 1) mod n)%nat)) (n - 1)) by (apply big_sum_nonneg; intros; apply Rabs_pos).
    pose proof (HY j). lra.
  Qed.

  Lemma num_le_quadratic : nonsep_num <= (2 * INR n + 1) * S - 2 * S ^ 2 - 2 * G.
  Proof.
    unfold nonsep_num.
    apply Rle_trans with (big_sum (fun j => Y j + (INR (n - 1) * Y j + (S - Y j) - 2 * Y j * (S - Y j))) n).
    - apply big_sum_le. intros j Hj. apply Rplus_le_compat_l.
      apply Rle_trans with (big_sum (fun k => Y j + Y ((j + k + 1) mod n)%nat - 2 * Y j * Y ((j + k + 1) mod n)%nat) (n - 1)).
      + apply big_sum_le. intros k _. apply abs_pair; apply HY.
      + apply Req_le.
        rewrite (big_sum_ext (n - 1) _ (fun k => Y j + (1 - 2 * Y j) * Y ((j + k + 1) mod n)%nat)) by (intros; ring).
        rewrite big_sum_plus, big_sum_const, big_sum_scal, (cyclic_sum_others Y n j Hj). fold S. ring.
    - apply Req_le.
      rewrite (big_sum_ext n _ (fun j => (INR n - 1 - 2 * S) * Y j + (S + (2 * Y j + (-2) * (Y j * (1 - Y j)))))).
      2:{ intros j Hj. rewrite minus_INR by lia. simpl (INR 1). ring. }
      rewrite big_sum_plus, big_sum_scal. fold S.
      rewrite big_sum_plus, big_sum_const, big_sum_plus, !big_sum_scal. fold S. fold G. ring.
  Qed.
End Nonsep.

(* ------------------------------------------------------------------ fractional parts *)
Definition frac (s : R) : R := s - IZR (py_floor s).
Lemma frac_range : forall s, 0 <= frac s < 1.
Proof. intros s. unfold frac, py_floor. destruct (base_Int_part s) as [A B]. lra. Qed.

Lemma phi_step : forall s t, 0 <= t <= 1 ->
  frac (s + t) * (1 - frac (s + t)) <= frac s * (1 - frac s) + t * (1 - t).
Proof.
  intros s t Ht. pose proof (frac_range s) as Hr. unfold frac in *. set (z := py_floor s) in *. set (r := s - IZR z) in *.
  destruct (Rlt_le_dec (r + t) 1) as [L|G].
  - rewrite (floor_eq (s + t) z) by (unfold r in *; lra). replace (s + t - IZR z) with (r + t) by (unfold r; ring). nra.
  - rewrite (floor_eq (s + t) (z + 1)) by (rewrite plus_IZR; simpl; unfold r in *; lra).
    rewrite plus_IZR. simpl (IZR 1). replace (s + t - (IZR z + 1)) with (r + t - 1) by (unfold r; ring). nra.
Qed.

Lemma G_ge_phi : forall (Y : nat -> R) n, (forall i, 0 <= Y i <= 1) ->
  frac (big_sum Y n) * (1 - frac (big_sum Y n)) <= big_sum (fun i => Y i * (1 - Y i)) n.
Proof.
  intros Y n HY. induction n as [|n IH]; cbn [big_sum].
  - unfold frac. rewrite (floor_eq 0 0) by (simpl; lra). simpl. lra.
  - pose proof (phi_step (big_sum Y n) (Y n) (HY n)). lra.
Qed.

(* ------------------------------------------------------------------ the integer maximisation: k (2n+1-2k) is largest at k = ceil(n/2) *)
Lemma f_max : forall n c k : Z, (n = 2 * c \/ n = 2 * c - 1)%Z -> (k * (2 * n + 1 - 2 * k) <= c * (2 * n + 1 - 2 * c))%Z.
Proof.
  intros n c k [E|E]; subst n.
  - assert (0 <= (c - k) * (1 + 2 * (c - k)))%Z by (destruct (Z_le_gt_dec k c); [apply Z.mul_nonneg_nonneg; lia|apply Z.mul_nonpos_nonpos; lia]).
    assert (c * (2 * (2 * c) + 1 - 2 * c) - k * (2 * (2 * c) + 1 - 2 * k) = (c - k) * (1 + 2 * (c - k)))%Z by ring. lia.
  - assert (0 <= (c - k) * (2 * (c - k) - 1))%Z by (destruct (Z.eq_dec k c); [subst; lia|destruct (Z_le_gt_dec k c); [apply Z.mul_nonneg_nonneg; lia|apply Z.mul_nonpos_nonpos; lia]]).
    assert (c * (2 * (2 * c - 1) + 1 - 2 * c) - k * (2 * (2 * c - 1) + 1 - 2 * k) = (c - k) * (2 * (c - k) - 1))%Z by ring. lia.
Qed.

Lemma nonsep_bound : forall (Y : nat -> R) (n : nat) (c : Z), (forall i, 0 <= Y i <= 1) ->
  (Z.of_nat n = 2 * c \/ Z.of_nat n = 2 * c - 1)%Z ->
  nonsep_num Y n <= IZR c * (1 + 2 * INR n - 2 * IZR c).
Proof.
  intros Y n c HY Hc. pose proof (num_le_quadratic Y n HY) as Q. pose proof (G_ge_phi Y n HY) as GP.
  set (S := big_sum Y n) in *. set (G := big_sum (fun i => Y i * (1 - Y i)) n) in *.
  pose proof (frac_range S) as Hr. unfold frac in *. set (m := py_floor S) in *. set (r := S - IZR m) in *.
  rewrite INR_IZR_INZ in *. set (N := Z.of_nat n) in *.
  assert (F1 : IZR m * (2 * IZR N + 1 - 2 * IZR m) <= IZR c * (2 * IZR N + 1 - 2 * IZR c)).
  { pose proof (f_max N c m Hc) as H. apply IZR_le in H. rewrite !mult_IZR, !minus_IZR, !plus_IZR, !mult_IZR in H. simpl in H. lra. }
  assert (F2 : (IZR m + 1) * (2 * IZR N + 1 - 2 * (IZR m + 1)) <= IZR c * (2 * IZR N + 1 - 2 * IZR c)).
  { pose proof (f_max N c (m + 1) Hc) as H. apply IZR_le in H. rewrite !mult_IZR, !minus_IZR, !plus_IZR, !mult_IZR, !plus_IZR in H. simpl in H. lra. }
  assert (ES : S = IZR m + r) by (unfold r; ring).
  assert (T : (2 * IZR N + 1) * S - 2 * S ^ 2 - 2 * G <=
              (1 - r) * (IZR m * (2 * IZR N + 1 - 2 * IZR m)) + r * ((IZR m + 1) * (2 * IZR N + 1 - 2 * (IZR m + 1)))).
  { rewrite ES. nra. }
  nra.
Qed.

(* ------------------------------------------------------------------ the generated _r_nonsep at A = len(y) *)
Lemma ceil_half_Z : forall N c : Z, (N = 2 * c \/ N = 2 * c - 1)%Z -> py_ceil (IZR N / 2) = c.
Proof.
  intros N c H. unfold py_ceil. change Int_part with py_floor.
  rewrite (floor_eq (- (IZR N / 2)) (- c)); [lia|].
  rewrite opp_IZR. destruct H as [-> | ->].
  - rewrite mult_IZR. simpl (IZR 2). lra.
  - rewrite minus_IZR, mult_IZR. simpl. lra.
Qed.

Lemma nonsep_num_gen : forall y, (1 <= length y)%nat ->
  sum_list (map (fun j => py_nth y j + sum_list (map (fun k => Rabs (py_nth y j - py_nth y ((j + k + 1) mod zlen y)%Z)) (zrange 0 (zlen y - 1))))
                (zrange 0 (zlen y)))
  = nonsep_num (fun i => nth i y 0) (length y).
Proof.
  intros y Hn. unfold nonsep_num, zlen. set (n := length y) in *.
  rewrite (sum_list_map_zrange _ 0 (Z.of_nat n) n) by lia.
  apply big_sum_ext. intros t Ht. rewrite Z.add_0_l. rewrite py_nth_nat. f_equal.
  rewrite (sum_list_map_zrange _ 0 (Z.of_nat n - 1) (n - 1)) by lia.
  apply big_sum_ext. intros k Hk. rewrite Z.add_0_l. f_equal. f_equal.
  apply py_nth_eq. rewrite Nat2Z.inj_mod. f_equal. lia.
Qed.

Definition r_nonsep_full_range : Prop := forall y, in01 y -> 0 <= fn_r_nonsep_eval y (zlen y) <= 1.

Theorem r_nonsep_full_range_proved : r_nonsep_full_range.
Proof.
  intros y Hy. unfold fn_r_nonsep_eval. cbv zeta. apply correct_range.
  destruct (Nat.eq_dec (length y) 0) as [E0|NE].
  - (* empty list: 0 / 0 *)
    unfold zlen. rewrite E0. change (zrange 0 (Z.of_nat 0)) with (@nil Z). cbn [map]. rewrite sum_list_nil.
    unfold Rdiv at 1. rewrite Rmult_0_l. lra.
  - rewrite nonsep_num_gen by lia.
    set (n := length y) in *. set (N := Z.of_nat n).
    set (c := ((N + 1) / 2)%Z).
    assert (Hc : (N = 2 * c \/ N = 2 * c - 1)%Z) by (unfold c; Z.div_mod_to_equations; lia).
    unfold zlen. fold n. fold N. rewrite (ceil_half_Z N c Hc).
    assert (HY : forall i, 0 <= (fun i => nth i y 0) i <= 1) by (intros i; apply in01_nth, Hy).
    pose proof (nonsep_bound _ n c HY Hc) as B. pose proof (num_nonneg _ n HY) as B0.
    rewrite INR_IZR_INZ in B. fold N in B.
    assert (N1 : 1 <= IZR N) by (apply (IZR_le 1); unfold N; lia).
    assert (C1 : 1 <= IZR c) by (apply (IZR_le 1); lia).
    assert (C2 : 2 * IZR c <= IZR N + 1). { assert (2 * c <= N + 1)%Z by lia. apply IZR_le in H. rewrite mult_IZR, plus_IZR in H. simpl in H. lra. }
    assert (D : IZR (N * c) * (1 + 2 * IZR N - 2 * IZR c) / IZR N = IZR c * (1 + 2 * IZR N - 2 * IZR c)) by (rewrite mult_IZR; field; lra).
    rewrite D.
    assert (P : 0 < IZR c * (1 + 2 * IZR N - 2 * IZR c)) by nra.
    split; [apply div_nonneg; lra|apply div_le_1; lra].
Qed.
