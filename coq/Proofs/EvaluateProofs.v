(* Proofs/EvaluateProofs.v — lemmas about Model/Evaluate.v (C01 theorems 1, 2, 4). *)
From Coq Require Import ZArith Bool List Lia.
Import ListNotations.
From PV Require Import Model.Evaluate Model.AlgSkeleton.
Open Scope Z_scope.

Section EvaluateProofs.
  Variable Val : Type.
  Variable Num : Type.
  Variable Ty  : Type.
  Variable decode : Ty -> Val -> Val.
  Variable encode : Ty -> Val -> Val.
  Variable F : list Val -> list Num * list Num.
  Variable C : list (Num -> Num).
  Variable nabs : Num -> Num.
  Variable nadd : Num -> Num -> Num.
  Variable nzero : Num.
  Variable niszero : Num -> bool.
  Variable types : list Ty.

  (* re-encoding what decode returned and decoding again gives the same value:
     identity for Real/Binary/Permutation/Subset, C17's round trip for Integer
     (proved for the executable carrier below: ev_roundtrip) *)
  Hypothesis roundtrip : forall t v, In t types -> decode t (encode t (decode t v)) = decode t v.

  Notation sol := (sol Val Num).
  Notation problem_call := (problem_call Val Num Ty decode encode F C nabs nadd nzero niszero types).
  Notation evaluate_all := (evaluate_all Val Num).
  Notation ev_inplace := (ev_inplace Val Num Ty decode encode F C nabs nadd nzero niszero types).
  Notation ev_marked := (ev_marked Val Num Ty decode encode F C nabs nadd nzero niszero types).
  Notation run_marked := (run_marked Val Num Ty decode encode F C nabs nadd nzero niszero types).
  Notation deepcopy := (deepcopy Val Num).
  Notation merge := (merge Val Num).
  Notation fill := (fill Val Num).
  Notation decode_vars := (decode_vars Val Ty decode types).
  Notation encode_vars := (encode_vars Val Ty encode types).
  Notation viol := (viol Num C nabs nadd nzero).
  Notation Good := (Good Val Num Ty decode F C nabs nadd nzero niszero types).
  Notation Safe := (Safe Val Num Ty decode F C nabs nadd nzero niszero types).
  Notation same_fields := (same_fields Val Num).

  Lemma map2_roundtrip : forall (ts : list Ty) vs, incl ts types ->
    ev_map2 decode ts (ev_map2 encode ts (ev_map2 decode ts vs)) = ev_map2 decode ts vs.
  Proof.
    induction ts as [|t ts IH]; intros [|v vs] I; simpl; try reflexivity.
    rewrite roundtrip by (apply I; now left). rewrite IH; [reflexivity|].
    intros x Hx. apply I. now right.
  Qed.

  Lemma decode_encode_vars vs : decode_vars (encode_vars (decode_vars vs)) = decode_vars vs.
  Proof. apply map2_roundtrip, incl_refl. Qed.

  (* (1) Problem.__call__ leaves the solution consistent *)
  Lemma problem_call_good s : Good (problem_call s).
  Proof.
    unfold AlgSkeleton.Good, Evaluate.problem_call; cbn [evaluated objs cons cv feasible vars].
    fold (decode_vars (vars s)). fold (encode_vars (decode_vars (vars s))).
    rewrite decode_encode_vars. repeat split; reflexivity.
  Qed.

  Lemma problem_call_sid s : sid (problem_call s) = sid s.
  Proof. reflexivity. Qed.

  Lemma problem_call_decoded s : decode_vars (vars (problem_call s)) = decode_vars (vars s).
  Proof. unfold Evaluate.problem_call; cbn [vars]. apply decode_encode_vars. Qed.

  (* evaluating twice changes nothing but is harmless: same decoded variables *)
  Lemma problem_call_idem s : problem_call (problem_call s) = problem_call s.
  Proof.
    unfold Evaluate.problem_call; cbn [vars sid].
    fold (decode_vars (vars s)). fold (encode_vars (decode_vars (vars s))).
    fold (decode_vars (encode_vars (decode_vars (vars s)))).
    now rewrite decode_encode_vars.
  Qed.

  (* (4) deepcopy carries objectives and flag together *)
  Lemma deepcopy_same_fields k s : same_fields (deepcopy k s) s.
  Proof. repeat split. Qed.

  Lemma same_fields_good a b : same_fields a b -> Good b -> Good a.
  Proof.
    intros (Hv & Ho & Hc & Hcv & Hf & He) (G1 & G2 & G3 & G4 & G5).
    unfold AlgSkeleton.Good. rewrite Hv, Ho, Hc, Hcv, Hf, He. repeat split; assumption.
  Qed.

  Lemma deepcopy_good k s : Good s -> Good (deepcopy k s).
  Proof. apply same_fields_good, deepcopy_same_fields. Qed.

  Lemma deepcopy_safe k s : Safe s -> Safe (deepcopy k s).
  Proof. intros H E. apply deepcopy_good, H, E. Qed.

  (* a worker's evaluated copy, copied back field by field, is the in-place result *)
  Lemma merge_run_marked s m : merge s (run_marked s m) = problem_call s.
  Proof. destruct m; reflexivity. Qed.

  Lemma merge_marked : forall jobs marks, length marks = length jobs ->
    ev_map2 merge jobs (ev_marked marks jobs) = map problem_call jobs.
  Proof.
    unfold Evaluate.ev_marked.
    induction jobs as [|s jobs IH]; intros [|m marks] L; simpl in *; try discriminate; try reflexivity.
    f_equal; [apply merge_run_marked|apply IH; lia].
  Qed.

  Lemma fill_map : forall sols,
    fill sols (map problem_call (filter (fun s => negb (evaluated s)) sols)) =
    map (fun s => if evaluated s then s else problem_call s) sols.
  Proof.
    induction sols as [|s sols IH]; simpl; [reflexivity|].
    destruct (evaluated s) eqn:E; simpl; now rewrite IH.
  Qed.

  (* the contract of an evaluator: finished jobs come back in job order, each
     either the submitted object evaluated in place or an evaluated copy (C12) *)
  Definition ev_spec (ev : list sol -> list (jobres Val Num)) : Prop :=
    forall jobs, exists marks, length marks = length jobs /\ ev jobs = ev_marked marks jobs.

  Lemma ev_inplace_spec : ev_spec ev_inplace.
  Proof.
    intro jobs. exists (map (fun _ => None) jobs). split; [apply map_length|].
    unfold Evaluate.ev_inplace, Evaluate.ev_marked. induction jobs as [|s jobs IH]; simpl; [reflexivity|now f_equal].
  Qed.

  (* characterisation of evaluate_all: every solution whose flag is clear is
     replaced by its evaluation, the others are untouched — whatever the
     evaluator copies *)
  Theorem evaluate_all_char ev sols : ev_spec ev ->
    evaluate_all ev sols = map (fun s => if evaluated s then s else problem_call s) sols.
  Proof.
    intro S. unfold Evaluate.evaluate_all.
    destruct (S (filter (fun s => negb (evaluated s)) sols)) as (marks & L & E).
    rewrite E, merge_marked by exact L. apply fill_map.
  Qed.

  Corollary evaluate_all_copy_irrelevant ev sols : ev_spec ev ->
    evaluate_all ev sols = evaluate_all ev_inplace sols.
  Proof. intro S. rewrite (evaluate_all_char ev) by exact S. symmetry. apply evaluate_all_char, ev_inplace_spec. Qed.

  (* (2) evaluate_all_good *)
  Definition eval_rel (s s' : sol) : Prop :=
    sid s' = sid s /\
    decode_vars (vars s') = decode_vars (vars s) /\
    (evaluated s = true -> s' = s) /\
    (evaluated s = false -> Good s').

  Theorem evaluate_all_rel ev sols : ev_spec ev -> Forall2 eval_rel sols (evaluate_all ev sols).
  Proof.
    intro S. rewrite evaluate_all_char by exact S.
    induction sols as [|s sols IH]; simpl; constructor; [|exact IH].
    unfold eval_rel. destruct (evaluated s) eqn:E.
    - split; [reflexivity|]. split; [reflexivity|]. split; [reflexivity|discriminate].
    - split; [reflexivity|]. split; [apply problem_call_decoded|]. split; [discriminate|].
      intros _. apply problem_call_good.
  Qed.

  Theorem evaluate_all_good ev sols : ev_spec ev ->
    Forall Safe sols -> Forall Good (evaluate_all ev sols).
  Proof.
    intros S H. rewrite evaluate_all_char by exact S.
    induction H as [|s sols Hs _ IH]; simpl; constructor; [|exact IH].
    destruct (evaluated s) eqn:E; [apply Hs, E|apply problem_call_good].
  Qed.

  Theorem evaluate_all_length ev sols : ev_spec ev -> length (evaluate_all ev sols) = length sols.
  Proof. intro S. rewrite evaluate_all_char by exact S. apply map_length. Qed.
End EvaluateProofs.

(* ------------------------------------------------------------------------- *)
(* the executable carrier satisfies the hypotheses                           *)
(* ------------------------------------------------------------------------- *)

Lemma ev_num_eqb_eq a b : ev_num_eqb a b = true <-> a = b.
Proof.
  destruct a, b; simpl; split; intro H; try discriminate; try reflexivity.
  - apply andb_true_iff in H as [H1 H2]. apply Z.eqb_eq in H1, H2. now subst.
  - injection H as -> ->. now rewrite !Z.eqb_refl.
Qed.

Lemma ev_bits_eqb_eq : forall a b, ev_bits_eqb a b = true <-> a = b.
Proof.
  induction a as [|x a IH]; intros [|y b]; simpl; split; intro H; try discriminate; try reflexivity.
  - apply andb_true_iff in H as [H1 H2]. apply eqb_prop in H1. apply IH in H2. now subst.
  - injection H as -> ->. rewrite eqb_reflx. simpl. now apply IH.
Qed.

Lemma ev_zs_eqb_eq : forall a b, ev_zs_eqb a b = true <-> a = b.
Proof.
  induction a as [|x a IH]; intros [|y b]; simpl; split; intro H; try discriminate; try reflexivity.
  - apply andb_true_iff in H as [H1 H2]. apply Z.eqb_eq in H1. apply IH in H2. now subst.
  - injection H as -> ->. rewrite Z.eqb_refl. simpl. now apply IH.
Qed.

Lemma ev_val_eqb_eq a b : ev_val_eqb a b = true <-> a = b.
Proof.
  destruct a, b; simpl; split; intro H; try discriminate.
  - apply ev_num_eqb_eq in H. now subst.
  - injection H as ->. now apply ev_num_eqb_eq.
  - apply ev_bits_eqb_eq in H. now subst.
  - injection H as ->. now apply ev_bits_eqb_eq.
  - apply Z.eqb_eq in H. now subst.
  - injection H as ->. apply Z.eqb_refl.
  - apply ev_zs_eqb_eq in H. now subst.
  - injection H as ->. now apply ev_zs_eqb_eq.
Qed.

(* ---- the Gray-coded integer: range and round trip (local forms of C17's theorems) ---- *)
Lemma ev_bin2int_acc : forall l a,
  fold_left (fun i b => i * 2 + ev_b2z b) l a = a * 2 ^ Z.of_nat (length l) + ev_bin2int l.
Proof.
  unfold ev_bin2int.
  induction l as [|b l IH]; intro a.
  - simpl. lia.
  - cbn [fold_left length]. rewrite IH. rewrite (IH (0 * 2 + ev_b2z b)).
    rewrite Nat2Z.inj_succ, Z.pow_succ_r by lia. lia.
Qed.

Lemma ev_bin2int_cons b l : ev_bin2int (b :: l) = ev_b2z b * 2 ^ Z.of_nat (length l) + ev_bin2int l.
Proof. unfold ev_bin2int at 1. cbn [fold_left]. rewrite ev_bin2int_acc. ring. Qed.

Lemma ev_bin2int_app l b : ev_bin2int (l ++ [b]) = 2 * ev_bin2int l + ev_b2z b.
Proof. unfold ev_bin2int. rewrite fold_left_app. cbn [fold_left]. lia. Qed.

Lemma ev_b2z_range b : 0 <= ev_b2z b <= 1.
Proof. destruct b; simpl; lia. Qed.

Lemma ev_bin2int_bound : forall l, 0 <= ev_bin2int l < 2 ^ Z.of_nat (length l).
Proof.
  induction l as [|b l IH].
  - unfold ev_bin2int. simpl. lia.
  - rewrite ev_bin2int_cons. simpl length. rewrite Nat2Z.inj_succ, Z.pow_succ_r by lia.
    pose proof (ev_b2z_range b). nia.
Qed.

Lemma ev_ungray_length : forall g p, length (ev_ungray p g) = length g.
Proof. induction g; intro p; simpl; [reflexivity|now rewrite IHg]. Qed.

Lemma ev_gray_length : forall b p, length (ev_gray p b) = length b.
Proof. induction b; intro p; simpl; [reflexivity|now rewrite IHb]. Qed.

Lemma ev_ungray_gray : forall b p, ev_ungray p (ev_gray p b) = b.
Proof.
  induction b as [|x b IH]; intro p; simpl; [reflexivity|].
  replace (xorb p (xorb p x)) with x by (destruct p, x; reflexivity). now rewrite IH.
Qed.

Lemma ev_bitsk_length : forall k n, length (ev_bitsk k n) = k.
Proof. induction k; intro n; simpl; [reflexivity|]. rewrite app_length, IHk. simpl. lia. Qed.

Lemma ev_bitsk_value : forall k n, 0 <= n < 2 ^ Z.of_nat k -> ev_bin2int (ev_bitsk k n) = n.
Proof.
  induction k as [|k IH]; intros n H.
  - simpl in *. unfold ev_bin2int. simpl. lia.
  - simpl ev_bitsk. rewrite ev_bin2int_app. rewrite Nat2Z.inj_succ, Z.pow_succ_r in H by lia.
    rewrite IH.
    + rewrite (Z.div_mod n 2) at 3 by lia. rewrite Zmod_odd. destruct (Z.odd n); simpl; lia.
    + split; [apply Z.div_pos; lia|]. apply Z.div_lt_upper_bound; lia.
Qed.

(* decode_in_domain for Integer: EVERY bit list of the declared length decodes into [min,max] *)
Lemma ev_decode_integer_range mn mx k g :
  ev_wf_ty (TInteger mn mx k) -> length g = k ->
  exists z, ev_decode (TInteger mn mx k) (VBits g) = VInt z /\ mn <= z <= mx.
Proof.
  intros (Hk & Hlo & Hhi) L. simpl ev_decode. rewrite L, Nat.eqb_refl. eexists. split; [reflexivity|].
  pose proof (ev_bin2int_bound (ev_gray2bin g)) as B.
  unfold ev_gray2bin in B. rewrite ev_ungray_length, L in B. fold (ev_gray2bin g) in B.
  assert (2 ^ Z.of_nat k = 2 * 2 ^ (Z.of_nat k - 1)) as P.
  { rewrite <- Z.pow_succ_r by lia. f_equal. lia. }
  destruct (ev_bin2int (ev_gray2bin g) >? mx - mn) eqn:E.
  - apply Z.gtb_lt in E. lia.
  - rewrite Z.gtb_ltb in E. apply Z.ltb_ge in E. lia.
Qed.

Lemma ev_encode_integer_length mn mx k z :
  exists g, ev_encode (TInteger mn mx k) (VInt z) = VBits g /\ length g = k.
Proof.
  simpl. eexists. split; [reflexivity|]. unfold ev_bin2gray. now rewrite ev_gray_length, ev_bitsk_length.
Qed.

Lemma ev_decode_encode_integer mn mx k z :
  ev_wf_ty (TInteger mn mx k) -> mn <= z <= mx ->
  ev_decode (TInteger mn mx k) (ev_encode (TInteger mn mx k) (VInt z)) = VInt z.
Proof.
  intros (Hk & Hlo & Hhi) Hz. simpl. unfold ev_bin2gray at 1. rewrite ev_gray_length, ev_bitsk_length, Nat.eqb_refl.
  unfold ev_gray2bin, ev_bin2gray. rewrite ev_ungray_gray.
  rewrite ev_bitsk_value by lia.
  replace (z - mn >? mx - mn) with false by (symmetry; rewrite Z.gtb_ltb; apply Z.ltb_ge; lia).
  f_equal. lia.
Qed.

(* decode(encode(decode v)) = decode v for every well-formed type and EVERY value *)
Lemma ev_roundtrip t v : ev_wf_ty t ->
  ev_decode t (ev_encode t (ev_decode t v)) = ev_decode t v.
Proof.
  intros W. destruct t as [lb ub|n|mn mx k|els|els k0]; try (destruct v; reflexivity).
  destruct v as [x|g|z|l]; try reflexivity.
  destruct (Nat.eqb (length g) k) eqn:L.
  - apply Nat.eqb_eq in L. destruct (ev_decode_integer_range mn mx k g W L) as (z & E & R).
    rewrite E. now apply ev_decode_encode_integer.
  - simpl. rewrite L. reflexivity.
Qed.
