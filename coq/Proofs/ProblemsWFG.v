(* Proofs/ProblemsWFG.v — C18, part 4: the WFG4-9 shape stage (_WFG4_shape and the helpers it calls), every M >= 1:
   generated = published concave shape with f_m = x_M + 2m h_m, sum_m concave_m^2 = 1, and the front statement
   sum_m (f_m/2m)^2 >= 1 GIVEN the transformed vector t in [0,1]^M (wfg_lower_partial: the range lemmas of the nine
   WFG transformation functions, which would give that hypothesis from an in-bounds decision vector, are not proved;
   the WFG evaluate methods themselves use map/functools.partial and are outside the translated subset). *)
From Coq Require Import Reals List ZArith Lia Lra Bool.
Import ListNotations.
From PV Require Import Base.RList Gen.Problems Model.ProblemsRef Proofs.ProblemsProofs Proofs.ProblemsDTLZ.
Open Scope R_scope.
Set Default Timeout 60.

Lemma correct_01_id : forall a, 0 <= a <= 1 -> fn_correct_to_01_eval a = a.
Proof.
  intros a [H0 H1]. unfold fn_correct_to_01_eval, Rleb.
  repeat match goal with |- context [Rle_dec ?p ?q] => destruct (Rle_dec p q) end; cbn [andb]; try lra.
Qed.

Lemma big_prod_01 : forall f n, (forall i, (i < n)%nat -> 0 <= f i <= 1) -> 0 <= big_prod f n <= 1.
Proof.
  intros f n H. induction n as [|n IH]; cbn [big_prod]; [lra|].
  assert (0 <= big_prod f n <= 1) by (apply IH; intros; apply H; lia). assert (0 <= f n <= 1) by (apply H; lia). nra.
Qed.
Lemma sin_quarter : forall t, 0 <= t <= 1 -> 0 <= sin (t * PI / 2) <= 1.
Proof.
  intros t Ht. pose proof PI_RGT_0. split; [|apply SIN_bound].
  apply sin_ge_0; nra.
Qed.
Lemma cos_quarter : forall t, 0 <= t <= 1 -> 0 <= cos (t * PI / 2) <= 1.
Proof.
  intros t Ht. pose proof PI_RGT_0. split; [|apply COS_bound].
  apply cos_ge_0; nra.
Qed.

Lemma snoc_last : forall l : list R, (1 <= length l)%nat ->
  map (fun k => X l k) (seq 0 (length l - 1)) ++ [X l (length l - 1)] = l.
Proof.
  intros l H. symmetry. rewrite (list_as_map_nth l) at 1.
  replace (length l) with (S (length l - 1)) at 1 by lia. rewrite seq_S, map_app. reflexivity.
Qed.

Section WFG4.
  Variable t : list R.
  Let M := length t.
  Hypothesis HM : (1 <= M)%nat.
  Hypothesis Ht : in01 t.

  Lemma concave_01 : forall m0, (m0 < M)%nat -> 0 <= wfg_concave M t m0 <= 1.
  Proof.
    intros m0 Hm. unfold wfg_concave.
    assert (P : 0 <= big_prod (fun j => sin (X t j * PI / 2)) (M - 1 - m0) <= 1).
    { apply big_prod_01. intros i _. apply sin_quarter, in01_nth, Ht. }
    destruct (Nat.eqb m0 0); [lra|].
    pose proof (cos_quarter (X t (M - 1 - m0)) (in01_nth t _ Ht)). nra.
  Qed.

  Lemma last_idx : py_nth t (-1) = X t (M - 1).
  Proof. apply py_nth_last. Qed.

  Lemma calc_x_id : fn_calculate_x_eval t (fn_create_A_eval (zlen t) false) = t.
  Proof.
    unfold fn_calculate_x_eval, fn_create_A_eval. cbv iota. rewrite last_idx.
    rewrite (zrange_from 0 (zlen t - 1) (M - 1)) by (unfold zlen; fold M; lia). rewrite map_map.
    rewrite (map_ext_in _ (fun k => X t k)).
    - apply snoc_last. exact HM.
    - intros k Hk. apply in_seq in Hk. rewrite Z.add_0_l.
      rewrite !py_nth_nat. unfold py_repeat. replace (Z.to_nat (zlen t - 1)) with (M - 1)%nat by (unfold zlen; fold M; lia).
      rewrite nth_repeat_lt by lia. pose proof (in01_nth t (M - 1) Ht) as B. unfold X.
      rewrite Rmax_right by lra. ring.
  Qed.

  (* fn_concave_eval on x = t at m = m0 + 1 is the published concave_m *)
  Lemma concave_norm : forall m0, (m0 < M)%nat -> fn_concave_eval t (1 + Z.of_nat m0) = wfg_concave M t m0.
  Proof.
    intros m0 Hm. unfold fn_concave_eval. cbv zeta.
    rewrite (prod_list_map_zrange _ 1 (zlen t - (1 + Z.of_nat m0) + 1) (M - 1 - m0)) by (unfold zlen; fold M; lia).
    rewrite (big_prod_ext _ _ (fun j => sin (X t j * PI / 2))).
    2:{ intros j Hj. rewrite (py_nth_eq t _ j) by lia. unfold X. real_eq. }
    assert (C : (if negb (1 + Z.of_nat m0 =? 1)%Z
                 then big_prod (fun j => sin (X t j * PI / 2)) (M - 1 - m0) * cos (py_nth t (zlen t - (1 + Z.of_nat m0)) * PI / 2)
                 else big_prod (fun j => sin (X t j * PI / 2)) (M - 1 - m0)) = wfg_concave M t m0).
    { unfold wfg_concave. destruct (Z.eqb_spec (1 + Z.of_nat m0) 1); destruct (Nat.eqb_spec m0 0); try lia; cbn [negb].
      - ring.
      - rewrite (py_nth_eq t _ (M - 1 - m0)) by (unfold zlen; fold M; lia). reflexivity. }
    match goal with |- fn_correct_to_01_eval ?e = _ =>
      replace e with (wfg_concave M t m0) by (rewrite <- C; destruct (negb (1 + Z.of_nat m0 =? 1)%Z); real_eq) end.
    apply correct_01_id, concave_01, Hm.
  Qed.

  Lemma wfg4_shape_gen_eq_ref : fn_WFG4_shape_eval t = wfg4_shape_ref t.
  Proof.
    unfold fn_WFG4_shape_eval. cbv zeta. rewrite calc_x_id.
    unfold fn_WFG_calculate_f_eval, fn_calculate_f_eval, wfg4_shape_ref. cbv zeta. fold M.
    assert (Hh : map (fun m => fn_concave_eval t m) (zrange 1 (zlen t + 1)) = map (fun m0 => wfg_concave M t m0) (seq 0 M)).
    { rewrite (zrange_from 1 (zlen t + 1) M) by (unfold zlen; fold M; lia). rewrite map_map.
      apply map_ext_in. intros k Hk. apply in_seq in Hk. apply concave_norm. lia. }
    rewrite Hh.
    assert (Lh : zlen (map (fun m0 => wfg_concave M t m0) (seq 0 M)) = Z.of_nat M) by (unfold zlen; now rewrite map_length, seq_length).
    rewrite !Lh.
    rewrite (zrange_from 0 (Z.of_nat M) M) by lia. rewrite map_map.
    apply map_ext_in. intros i Hi. apply in_seq in Hi. rewrite Z.add_0_l.
    rewrite last_idx. rewrite !py_nth_nat.
    rewrite (nth_map_lt _ _ _ 0%nat) by (rewrite seq_length; lia). rewrite seq_nth by lia. cbn [Nat.add].
    rewrite (zrange_from 1 (Z.of_nat M + 1) M) by lia. rewrite map_map.
    rewrite (nth_map_lt _ _ _ 0%nat) by (rewrite seq_length; lia). rewrite seq_nth by lia. cbn [Nat.add].
    replace (IZR (1 + Z.of_nat i)) with (INR (S i)) by (rewrite INR_IZR_INZ; f_equal; lia).
    ring.
  Qed.

  Lemma wfg4_shape_out_length : length (fn_WFG4_shape_eval t) = M.
  Proof. rewrite wfg4_shape_gen_eq_ref. unfold wfg4_shape_ref. cbv zeta. now rewrite map_length, seq_length. Qed.

  (* sum_m concave_m^2 = 1 : the same telescope as DTLZ2 with sin and cos exchanged *)
  Lemma concave_sumsq : big_sum (fun m0 => wfg_concave M t m0 ^ 2) M = 1.
  Proof.
    rewrite (big_sum_ext M _ (shape (fun j => sin (X t j * PI / 2) ^ 2) (fun j => cos (X t j * PI / 2) ^ 2) M)).
    - apply shape_sum; [exact HM|]. intros j. rewrite <- (sin2_cos2 (X t j * PI / 2)). unfold Rsqr. ring.
    - intros i Hi. unfold wfg_concave, shape. rewrite big_prod_sq. destruct (Nat.eqb i 0); ring.
  Qed.

  (* WFG4-9 front statement for the shape stage: GIVEN the transformed vector t in [0,1]^M *)
  Lemma wfg_lower_partial : 1 <= wfg_scaled_sumsq (fn_WFG4_shape_eval t).
  Proof.
    rewrite wfg4_shape_gen_eq_ref. unfold wfg_scaled_sumsq, wfg4_shape_ref. cbv zeta. fold M.
    rewrite map_length, seq_length.
    apply Rle_trans with (big_sum (fun m0 => wfg_concave M t m0 ^ 2) M); [rewrite concave_sumsq; lra|].
    assert (G : forall n (f g : nat -> R), (forall i, (i < n)%nat -> f i <= g i) -> big_sum f n <= big_sum g n).
    { induction n as [|n IH]; intros f g H; cbn [big_sum]; [lra|].
      assert (f n <= g n) by (apply H; lia). assert (big_sum f n <= big_sum g n) by (apply IH; intros; apply H; lia). lra. }
    apply G. intros i Hi.
    rewrite (nth_map_lt _ _ _ 0%nat) by (rewrite seq_length; lia). rewrite seq_nth by lia. cbn [Nat.add].
    pose proof (concave_01 i Hi) as [H0 _]. pose proof (in01_nth t (M - 1) Ht) as [L0 _]. fold (X t (M - 1)) in L0.
    assert (Si : 1 <= INR (S i)) by (apply (le_INR 1); lia).
    set (h := wfg_concave M t i) in *. set (l := X t (M - 1)) in *.
    assert (E : (1 * l + 2 * INR (S i) * h) / (2 * INR (S i)) = l / (2 * INR (S i)) + h) by (field; lra).
    rewrite E. assert (0 <= l / (2 * INR (S i))) by (apply div_nonneg; lra). nra.
  Qed.
End WFG4.

Example wfg4_hyps_3 : (1 <= length [1 / 4; 3 / 4; 0])%nat /\ in01 [1 / 4; 3 / 4; 0].
Proof. split; [simpl; lia|]. unfold in01. repeat constructor; lra. Qed.

