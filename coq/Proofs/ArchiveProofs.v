(* Proofs about Model/Archive.v.
   Generic part: any comparator [cmp] with range {-1,0,1}, antisymmetry, and a
   transitive, irreflexive "dominates" relation on the solutions satisfying a
   well-formedness predicate [P].  Instance part: C02's pareto_compare satisfies
   these hypotheses on well-formed solutions, for every carrier with OrdLaws, hence
   for the executable carrier xq. *)
From Coq Require Import ZArith Bool List Lia Permutation.
Import ListNotations.
From PV Require Import Base.Num Base.Order Model.Dominance Proofs.DominanceProofs Model.Archive.
Open Scope Z_scope.

(* ---------- list helpers ---------- *)
Lemma compress_map_filter {A} (f : A -> bool) (a : list A) :
  compress a (map f a) = filter f a.
Proof. induction a as [|m a IH]; simpl; [reflexivity|]. destruct (f m); now rewrite IH. Qed.

Lemma existsb_id_map {A} (f : A -> bool) (a : list A) :
  existsb (fun b : bool => b) (map f a) = existsb f a.
Proof. induction a as [|m a IH]; simpl; [reflexivity|]. now rewrite IH. Qed.

Lemma filter_filter {A} (f g : A -> bool) l :
  filter f (filter g l) = filter (fun x => g x && f x) l.
Proof.
  induction l as [|x l IH]; simpl; [reflexivity|].
  destruct (g x); simpl; [destruct (f x); simpl; now rewrite IH | exact IH].
Qed.

Lemma Forall_app_inv {A} (Q : A -> Prop) l1 l2 : Forall Q (l1 ++ l2) -> Forall Q l1 /\ Forall Q l2.
Proof. intro H. apply Forall_app in H. exact H. Qed.

Lemma Forall_filter {A} (Q : A -> Prop) f (l : list A) : Forall Q l -> Forall Q (filter f l).
Proof.
  intro H. apply Forall_forall. intros x Hx. apply filter_In in Hx.
  rewrite Forall_forall in H. apply H. tauto.
Qed.

Lemma existsb_perm {A} (f : A -> bool) l l' : Permutation l l' -> existsb f l = existsb f l'.
Proof.
  intro HP. induction HP; simpl.
  - reflexivity.
  - now rewrite IHHP.
  - destruct (f x), (f y); reflexivity.
  - congruence.
Qed.

Lemma filter_perm {A} (f : A -> bool) l l' : Permutation l l' -> Permutation (filter f l) (filter f l').
Proof.
  intro HP. induction HP; simpl.
  - constructor.
  - destruct (f x); [now constructor|assumption].
  - destruct (f x), (f y); try reflexivity. apply perm_swap.
  - eapply perm_trans; eauto.
Qed.

Section ArchiveProofs.
  Variable T : Type.
  Variable cmp : T -> T -> Z.
  Variable P : T -> Prop.           (* well-formedness of a solution *)
  Notation dom := (dom T cmp).
  Notation add := (add T cmp).
  Notation archive := (archive T cmp).
  Notation nd := (nd T cmp).
  Notation step := (step T cmp).
  Notation run_ops := (run_ops T cmp).
  Notation offered := (offered T).
  Notation offered_op := (offered_op T).
  Notation extend := (extend T cmp).
  Notation append := (append T cmp).
  Notation iadd_list := (iadd_list T cmp).
  Notation iadd_one := (iadd_one T cmp).
  Notation nondominated := (nondominated T cmp).

  Hypothesis cmp_range : forall x y, cmp x y = -1 \/ cmp x y = 0 \/ cmp x y = 1.
  Hypothesis cmp_antisym : forall x y, P x -> P y -> cmp y x = - cmp x y.
  Hypothesis dom_trans : forall x y z, P x -> P y -> P z ->
                                       dom x y = true -> dom y z = true -> dom x z = true.
  Hypothesis dom_irrefl : forall x, P x -> dom x x = false.

  (* all members pairwise incomparable (the state invariant of Archive._contents) *)
  Definition pairwise_nd (a : list T) : Prop := forall x y, In x a -> In y a -> cmp x y = 0.

  (* ---------- add, unfolded ---------- *)
  Lemma add_unfold a s :
    add a s = if existsb (fun m => cmp s m >? 0) a then (a, false)
              else (filter (fun m => cmp s m =? 0) a ++ [s], true).
  Proof.
    unfold Archive.add. rewrite !map_map, existsb_id_map.
    rewrite (compress_map_filter (fun m => cmp s m =? 0)). reflexivity.
  Qed.

  Lemma flag_pos_dom s m : P s -> P m -> (cmp s m >? 0) = dom m s.
  Proof.
    intros Hs Hm. unfold Archive.dom. rewrite (cmp_antisym s m Hs Hm).
    destruct (cmp_range s m) as [H|[H|H]]; rewrite H; reflexivity.
  Qed.

  Lemma rejected_iff a s : Forall P a -> P s ->
    existsb (fun m => cmp s m >? 0) a = existsb (fun m => dom m s) a.
  Proof.
    intros Ha Hs. induction Ha as [|m a Hm Ha IH]; simpl; [reflexivity|].
    rewrite IH. f_equal. apply flag_pos_dom; assumption.
  Qed.

  Lemma add_reject_unchanged a s : snd (add a s) = false -> fst (add a s) = a.
  Proof. rewrite add_unfold. destruct (existsb _ _); simpl; congruence. Qed.

  Lemma add_snd a s : Forall P a -> P s -> snd (add a s) = nd a s.
  Proof.
    intros Ha Hs. rewrite add_unfold, (rejected_iff a s Ha Hs). unfold Archive.nd.
    destruct (existsb _ a); reflexivity.
  Qed.

  (* acceptance is reported iff no current member dominates the newcomer *)
  Theorem add_accept_iff a s : Forall P a -> P s ->
    (snd (add a s) = true <-> forall m, In m a -> dom m s = false).
  Proof.
    intros Ha Hs. rewrite (add_snd a s Ha Hs). unfold Archive.nd. rewrite negb_true_iff. split.
    - intros H m Hm. destruct (dom m s) eqn:E; [|reflexivity].
      assert (existsb (fun y => dom y s) a = true) by (apply existsb_exists; eauto). congruence.
    - intro H. destruct (existsb (fun y => dom y s) a) eqn:E; [|reflexivity].
      apply existsb_exists in E. destruct E as [m [Hm Hd]]. rewrite (H m Hm) in Hd. discriminate.
  Qed.

  (* an accepted newcomer evicts exactly the members it dominates and is appended last *)
  Lemma add_accept_contents a s : Forall P a -> P s -> snd (add a s) = true ->
    fst (add a s) = filter (fun m => negb (dom s m)) a ++ [s].
  Proof.
    intros Ha Hs. rewrite add_unfold.
    destruct (existsb (fun m => cmp s m >? 0) a) eqn:E; simpl; [discriminate|]. intros _.
    f_equal. apply filter_ext_in. intros m Hm.
    assert (F : (cmp s m >? 0) = false).
    { destruct (cmp s m >? 0) eqn:F; [|reflexivity].
      assert (existsb (fun m => cmp s m >? 0) a = true) by (apply existsb_exists; eauto). congruence. }
    unfold Archive.dom. destruct (cmp_range s m) as [H|[H|H]]; rewrite H in *; try reflexivity; discriminate.
  Qed.

  Lemma add_P a s : Forall P a -> P s -> Forall P (fst (add a s)).
  Proof.
    intros Ha Hs. rewrite add_unfold. destruct (existsb _ _); simpl; [assumption|].
    apply Forall_app. split; [now apply Forall_filter|now constructor].
  Qed.

  Lemma cmp_self x : P x -> cmp x x = 0.
  Proof. intro Hx. pose proof (cmp_antisym x x Hx Hx). lia. Qed.

  (* the invariant is preserved by one insertion *)
  Lemma add_pairwise a s : Forall P a -> P s -> pairwise_nd a -> pairwise_nd (fst (add a s)).
  Proof.
    intros Ha Hs Hinv. rewrite add_unfold. destruct (existsb _ _); simpl; [assumption|].
    rewrite Forall_forall in Ha.
    intros x y Hx Hy. apply in_app_or in Hx. apply in_app_or in Hy.
    destruct Hx as [Hx|[<-|[]]], Hy as [Hy|[<-|[]]].
    - apply filter_In in Hx, Hy. apply Hinv; tauto.
    - apply filter_In in Hx. destruct Hx as [Hx E]. apply Z.eqb_eq in E.
      rewrite (cmp_antisym s x Hs (Ha x Hx)). lia.
    - apply filter_In in Hy. destruct Hy as [Hy E]. now apply Z.eqb_eq in E.
    - now apply cmp_self.
  Qed.

  (* ---------- the characterisation ---------- *)
  Lemma nd_cons a l z : nd (a :: l) z = negb (dom a z) && nd l z.
  Proof. unfold Archive.nd; simpl. now rewrite negb_orb. Qed.

  Lemma nd_app l s x : nd (l ++ [s]) x = nd l x && negb (dom s x).
  Proof. unfold Archive.nd. rewrite existsb_app. simpl. rewrite orb_false_r. now rewrite negb_orb. Qed.

  Lemma nd_true_iff l x : nd l x = true <-> forall y, In y l -> dom y x = false.
  Proof.
    unfold Archive.nd. rewrite negb_true_iff. split.
    - intros H y Hy. destruct (dom y x) eqn:E; [|reflexivity].
      assert (existsb (fun y => dom y x) l = true) by (apply existsb_exists; eauto). congruence.
    - intro H. destruct (existsb (fun y => dom y x) l) eqn:E; [|reflexivity].
      apply existsb_exists in E. destruct E as [m [Hm Hd]]. rewrite (H m Hm) in Hd. discriminate.
  Qed.

  (* every dominated x is dominated by a non-dominated member of the (finite) list *)
  Lemma dominated_by_nd : forall l x, Forall P l -> P x -> existsb (fun y => dom y x) l = true ->
     exists z, In z l /\ nd l z = true /\ dom z x = true.
  Proof.
    induction l as [|a l IH]; intros x Hl Hx Hex; [discriminate|].
    inversion Hl as [|a' l' Pa Pl]; subst. pose proof Pl as Pl'. rewrite Forall_forall in Pl'.
    assert (Hup : forall z, In z l -> nd l z = true -> dom z a = true ->
                  In z (a :: l) /\ nd (a :: l) z = true).
    { intros z Hz Hnd Hza. split; [now right|]. rewrite nd_cons, Hnd, andb_true_r.
      destruct (dom a z) eqn:E; [|reflexivity].
      pose proof (dom_trans _ _ _ Pa (Pl' z Hz) Pa E Hza) as C. now rewrite (dom_irrefl a Pa) in C. }
    assert (Ha : forall x0, P x0 -> dom a x0 = true ->
                 exists z, In z (a :: l) /\ nd (a :: l) z = true /\ dom z x0 = true).
    { intros x0 Px0 Hax. destruct (existsb (fun y => dom y a) l) eqn:Ea.
      - destruct (IH a Pl Pa Ea) as [z [Hz [Hnd Hza]]]. exists z.
        destruct (Hup z Hz Hnd Hza) as [H1 H2]. repeat split; auto.
        eapply (dom_trans z a x0); eauto.
      - exists a. repeat split; [now left| |assumption].
        rewrite nd_cons, (dom_irrefl a Pa). simpl. unfold Archive.nd. now rewrite Ea. }
    simpl in Hex. destruct (existsb (fun y => dom y x) l) eqn:El.
    - destruct (IH x Pl Hx El) as [z [Hz [Hnd Hzx]]].
      destruct (dom a z) eqn:Eaz.
      + apply Ha; [assumption|]. eapply (dom_trans a z x); eauto.
      + exists z. repeat split; [now right| |assumption]. now rewrite nd_cons, Eaz, Hnd.
    - rewrite orb_false_r in Hex. now apply Ha.
  Qed.

  (* a non-empty finite list has a non-dominated member *)
  Lemma exists_nd l : Forall P l -> l <> [] -> exists z, In z l /\ nd l z = true.
  Proof.
    intros Hl Hne. destruct l as [|a l]; [congruence|].
    destruct (nd (a :: l) a) eqn:E.
    - exists a. split; [now left|assumption].
    - unfold Archive.nd in E. apply negb_false_iff in E.
      inversion Hl; subst.
      destruct (dominated_by_nd (a :: l) a Hl ltac:(assumption) E) as [z [Hz [Hnd _]]]. eauto.
  Qed.

  Theorem archive_char : forall l, Forall P l -> archive l = filter (nd l) l.
  Proof.
    induction l as [|s l IH] using rev_ind; intro HP; [reflexivity|].
    apply Forall_app_inv in HP. destruct HP as [Pl Ps']. inversion Ps' as [|s' l' Ps _]; subst.
    pose proof Pl as Pl'. rewrite Forall_forall in Pl'.
    unfold Archive.archive in *. rewrite fold_left_app. simpl. rewrite (IH Pl).
    rewrite filter_app. simpl.
    rewrite add_unfold, (rejected_iff _ s (Forall_filter P _ l Pl) Ps).
    destruct (existsb (fun m => dom m s) (filter (nd l) l)) eqn:Erej; simpl.
    - (* rejected: some non-dominated earlier member dominates s *)
      apply existsb_exists in Erej. destruct Erej as [m [Hm Hms]].
      apply filter_In in Hm. destruct Hm as [Hml Hmnd].
      assert (Hs : nd (l ++ [s]) s = false).
      { unfold Archive.nd. apply negb_false_iff. apply existsb_exists. exists m.
        split; [apply in_or_app; now left|assumption]. }
      rewrite Hs, app_nil_r. apply filter_ext_in. intros x Hx. rewrite nd_app.
      destruct (nd l x) eqn:Ex; [|reflexivity]. simpl.
      destruct (dom s x) eqn:Esx; [|reflexivity]. exfalso.
      pose proof (dom_trans _ _ _ (Pl' m Hml) Ps (Pl' x Hx) Hms Esx) as Hmx.
      unfold Archive.nd in Ex. apply negb_true_iff in Ex.
      assert (existsb (fun y => dom y x) l = true) by (apply existsb_exists; eauto). congruence.
    - (* accepted *)
      assert (Hno : existsb (fun y => dom y s) l = false).
      { destruct (existsb (fun y => dom y s) l) eqn:E; [|reflexivity].
        destruct (dominated_by_nd l s Pl Ps E) as [z [Hz [Hnd Hzs]]].
        assert (existsb (fun m => dom m s) (filter (nd l) l) = true).
        { apply existsb_exists. exists z. split; [apply filter_In; auto|assumption]. } congruence. }
      assert (Hs : nd (l ++ [s]) s = true).
      { rewrite nd_app. unfold Archive.nd at 1. rewrite Hno, (dom_irrefl s Ps). reflexivity. }
      rewrite Hs. f_equal.
      rewrite filter_filter.
      apply filter_ext_in. intros x Hx. rewrite nd_app.
      destruct (nd l x) eqn:Ex; simpl; [|reflexivity].
      assert (Hxs : dom x s = false).
      { destruct (dom x s) eqn:E; [|reflexivity].
        assert (existsb (fun y => dom y s) l = true) by (apply existsb_exists; eauto). congruence. }
      unfold Archive.dom in *. rewrite (cmp_antisym s x Ps (Pl' x Hx)) in Hxs.
      destruct (cmp_range s x) as [H|[H|H]]; rewrite H in *; simpl in *; try reflexivity; discriminate.
  Qed.

  (* ---------- corollaries ---------- *)
  Corollary archive_In l x : Forall P l ->
    (In x (archive l) <-> In x l /\ forall y, In y l -> dom y x = false).
  Proof. intro Hl. rewrite (archive_char l Hl), filter_In, nd_true_iff. tauto. Qed.

  Corollary archive_pairwise l : Forall P l -> pairwise_nd (archive l).
  Proof.
    intros Hl x y Hx Hy. pose proof Hl as Hl'. rewrite Forall_forall in Hl'.
    apply (archive_In l x Hl) in Hx. apply (archive_In l y Hl) in Hy.
    destruct Hx as [Hx Nx], Hy as [Hy Ny].
    pose proof (Ny x Hx) as A. pose proof (Nx y Hy) as B. unfold Archive.dom in *.
    rewrite (cmp_antisym x y (Hl' x Hx) (Hl' y Hy)) in B.
    destruct (cmp_range x y) as [H|[H|H]]; rewrite H in *; simpl in *; try reflexivity; discriminate.
  Qed.

  (* solutions with the same dominators as a kept one are all kept (twins) *)
  Corollary archive_twins l x x' : Forall P l -> In x (archive l) -> In x' l ->
    (forall y, In y l -> dom y x' = dom y x) -> In x' (archive l).
  Proof.
    intros Hl Hx Hx' Hsame. apply (archive_In l x' Hl). apply (archive_In l x Hl) in Hx.
    split; [assumption|]. intros y Hy. rewrite (Hsame y Hy). now apply Hx.
  Qed.

  (* multiplicities are preserved: the archive is the offered list with the dominated entries deleted *)
  Corollary archive_order_independent l l' : Forall P l -> Permutation l l' ->
    Permutation (archive l) (archive l').
  Proof.
    intros Hl HP.
    assert (Hl' : Forall P l').
    { apply Forall_forall. intros x Hx. rewrite Forall_forall in Hl. apply Hl.
      eapply Permutation_in; [apply Permutation_sym; eassumption|assumption]. }
    rewrite (archive_char l Hl), (archive_char l' Hl').
    eapply perm_trans; [apply (filter_perm (nd l) _ _ HP)|].
    erewrite filter_ext; [reflexivity|].
    intro x. unfold Archive.nd. f_equal. now apply existsb_perm.
  Qed.

  Lemma nondominated_eq l : nondominated l = archive l.
  Proof. reflexivity. Qed.

  Corollary nondominated_char l : Forall P l -> nondominated l = filter (nd l) l.
  Proof. intro Hl. rewrite nondominated_eq. now apply archive_char. Qed.

  (* after any offered list, add reports acceptance iff nothing offered so far dominates the newcomer *)
  Corollary add_accept_offered l s : Forall P l -> P s -> snd (add (archive l) s) = nd l s.
  Proof.
    intros Hl Hs.
    assert (Ha : Forall P (archive l)) by (rewrite (archive_char l Hl); now apply Forall_filter).
    rewrite (add_snd _ s Ha Hs), (archive_char l Hl).
    destruct (nd l s) eqn:E.
    - apply nd_true_iff. intros y Hy. apply filter_In in Hy.
      rewrite nd_true_iff in E. apply E. tauto.
    - unfold Archive.nd in *. apply negb_false_iff in E. apply negb_false_iff.
      destruct (dominated_by_nd l s Hl Hs E) as [z [Hz [Hnd Hzs]]].
      apply existsb_exists. exists z. split; [apply filter_In; auto|assumption].
  Qed.

  (* ---------- bulk forms and histories ---------- *)
  Lemma extend_fold a l : extend a l = fold_left (fun a s => fst (add a s)) l a.
  Proof. reflexivity. Qed.

  Lemma iadd_list_fold a l : iadd_list a l = fold_left (fun a s => fst (add a s)) l a.
  Proof. reflexivity. Qed.

  Lemma step_fold a o : fst (step a o) = fold_left (fun a s => fst (add a s)) (offered_op o) a.
  Proof. destruct o; reflexivity. Qed.

  Lemma run_ops_fold ops : forall a,
    run_ops ops a = fold_left (fun a s => fst (add a s)) (offered ops) a.
  Proof.
    induction ops as [|o ops IH]; intro a; [reflexivity|].
    unfold Archive.run_ops, Archive.offered in *. simpl. rewrite fold_left_app.
    rewrite IH. f_equal. apply step_fold.
  Qed.

  Corollary run_ops_archive ops : run_ops ops [] = archive (offered ops).
  Proof. apply run_ops_fold. Qed.

  (* the property, for every history over the five entry points *)
  Theorem history_char ops : Forall P (offered ops) ->
    run_ops ops [] = filter (nd (offered ops)) (offered ops).
  Proof. intro H. rewrite run_ops_archive. now apply archive_char. Qed.

  Theorem history_pairwise ops : Forall P (offered ops) -> pairwise_nd (run_ops ops []).
  Proof. intro H. rewrite run_ops_archive. now apply archive_pairwise. Qed.
End ArchiveProofs.

(* ---------- instance: Pareto dominance on well-formed solutions ---------- *)
Section ParetoInstance.
  Variable V : Type.
  Variable ltb : V -> V -> bool.
  Variable neg : V -> V.
  Variable zero : V.
  Hypothesis L : OrdLaws V ltb neg.
  Variable c : bool.
  Variable dirs : list bool.

  Notation scmp := (sol_cmp V ltb neg zero c dirs).

  (* as many objectives as the problem has, and a non-negative violation *)
  Definition sol_wf (x : sol V) : Prop := wf V ltb zero dirs (dsol_of x).

  Lemma scmp_range x y : scmp x y = -1 \/ scmp x y = 0 \/ scmp x y = 1.
  Proof. apply (compare_range V ltb neg zero L). Qed.

  Lemma scmp_antisym x y : sol_wf x -> sol_wf y -> scmp y x = - scmp x y.
  Proof. intros Hx Hy. apply (compare_antisym V ltb neg zero L); assumption. Qed.

  Lemma sdom_trans x y z : sol_wf x -> sol_wf y -> sol_wf z ->
    dom (sol V) scmp x y = true -> dom (sol V) scmp y z = true -> dom (sol V) scmp x z = true.
  Proof.
    unfold dom. rewrite !Z.eqb_eq. intros Hx Hy Hz.
    apply (dominates_trans V ltb neg zero L); assumption.
  Qed.

  Lemma sdom_irrefl x : sol_wf x -> dom (sol V) scmp x x = false.
  Proof.
    intro Hx. unfold dom, sol_cmp. rewrite (compare_irrefl V ltb neg zero L c dirs _ Hx). reflexivity.
  Qed.

  (* twins: pointwise-equivalent objectives and equivalent violation *)
  Definition twin (x x' : sol V) : bool :=
    vec_eqv V ltb (s_objs x) (s_objs x') && veq V ltb (s_cv x) (s_cv x').

  Notation adj := (adj V neg).

  Lemma veq_split a b : veq V ltb a b = true -> ltb a b = false /\ ltb b a = false.
  Proof. unfold veq. rewrite andb_true_iff, !negb_true_iff. tauto. Qed.

  Lemma adj_eqv mx a b : veq V ltb a b = true -> veq V ltb (adj mx a) (adj mx b) = true.
  Proof.
    intro H. destruct (veq_split a b H) as [A B]. unfold veq.
    rewrite !(adj_ltb V ltb neg L). destruct mx; rewrite ?A, ?B; reflexivity.
  Qed.

  Lemma all_le_twin_r ds : forall o o1 o2, vec_eqv V ltb o1 o2 = true ->
    all_le V ltb neg ds o o2 = all_le V ltb neg ds o o1.
  Proof.
    induction ds as [|mx dr IH]; intros [|a r] [|b1 r1] [|b2 r2] H; simpl in *; try reflexivity; try discriminate.
    apply andb_true_iff in H. destruct H as [E R]. rewrite (IH r r1 r2 R). f_equal. f_equal.
    apply (adj_eqv mx) in E. symmetry. apply (ltb_eqv_l L _ _ _ E).
  Qed.

  Lemma all_le_twin_l ds : forall o o1 o2, vec_eqv V ltb o1 o2 = true ->
    all_le V ltb neg ds o2 o = all_le V ltb neg ds o1 o.
  Proof.
    induction ds as [|mx dr IH]; intros [|a r] [|b1 r1] [|b2 r2] H; simpl in *; try reflexivity; try discriminate.
    apply andb_true_iff in H. destruct H as [E R]. rewrite (IH r r1 r2 R). f_equal. f_equal.
    apply (adj_eqv mx) in E. symmetry. apply (ltb_eqv_r L _ _ _ E).
  Qed.

  Lemma some_lt_twin_r ds : forall o o1 o2, vec_eqv V ltb o1 o2 = true ->
    some_lt V ltb neg ds o o2 = some_lt V ltb neg ds o o1.
  Proof.
    induction ds as [|mx dr IH]; intros [|a r] [|b1 r1] [|b2 r2] H; simpl in *; try reflexivity; try discriminate.
    apply andb_true_iff in H. destruct H as [E R]. rewrite (IH r r1 r2 R). f_equal.
    apply (adj_eqv mx) in E. symmetry. apply (ltb_eqv_r L _ _ _ E).
  Qed.

  Lemma some_lt_twin_l ds : forall o o1 o2, vec_eqv V ltb o1 o2 = true ->
    some_lt V ltb neg ds o2 o = some_lt V ltb neg ds o1 o.
  Proof.
    induction ds as [|mx dr IH]; intros [|a r] [|b1 r1] [|b2 r2] H; simpl in *; try reflexivity; try discriminate.
    apply andb_true_iff in H. destruct H as [E R]. rewrite (IH r r1 r2 R). f_equal.
    apply (adj_eqv mx) in E. symmetry. apply (ltb_eqv_l L _ _ _ E).
  Qed.

  Lemma vec_eqv_length : forall o1 o2, vec_eqv V ltb o1 o2 = true -> length o1 = length o2.
  Proof.
    induction o1 as [|a r IH]; intros [|b r2] H; simpl in *; try discriminate; [reflexivity|].
    apply andb_true_iff in H. f_equal. apply IH. tauto.
  Qed.

  (* a twin is dominated by / dominates exactly the same solutions *)
  Lemma twin_same_cmp x x' y : sol_wf x -> sol_wf x' -> sol_wf y -> twin x x' = true ->
    scmp y x' = scmp y x.
  Proof.
    intros Wx Wx' Wy Ht. unfold twin in Ht. apply andb_true_iff in Ht. destruct Ht as [HO HC].
    unfold sol_cmp.
    rewrite (compare_spec V ltb neg zero L c dirs _ _ Wy Wx'), (compare_spec V ltb neg zero L c dirs _ _ Wy Wx).
    unfold better, pdom. simpl.
    rewrite (all_le_twin_r dirs _ _ _ HO), (some_lt_twin_r dirs _ _ _ HO).
    rewrite (all_le_twin_l dirs _ _ _ HO), (some_lt_twin_l dirs _ _ _ HO).
    assert (E1 : ltb (s_cv y) (s_cv x') = ltb (s_cv y) (s_cv x)) by (symmetry; apply (ltb_eqv_r L _ _ _ HC)).
    assert (E2 : ltb (s_cv x') (s_cv y) = ltb (s_cv x) (s_cv y)) by (symmetry; apply (ltb_eqv_l L _ _ _ HC)).
    unfold veq. rewrite E1, E2. reflexivity.
  Qed.

  (* --- the generic theorems at the Pareto instance --- *)
  Notation T := (sol V).
  Ltac inst lem :=
    intros; eapply (lem T scmp sol_wf);
    eauto using scmp_range, scmp_antisym, sdom_trans, sdom_irrefl.

  Theorem pareto_add_accept_iff a s : Forall sol_wf a -> sol_wf s ->
    (snd (add T scmp a s) = true <-> forall m, In m a -> dom T scmp m s = false).
  Proof. inst add_accept_iff. Qed.

  Theorem pareto_add_accept_contents a s : Forall sol_wf a -> sol_wf s -> snd (add T scmp a s) = true ->
    fst (add T scmp a s) = filter (fun m => negb (dom T scmp s m)) a ++ [s].
  Proof. inst add_accept_contents. Qed.

  Theorem pareto_add_pairwise a s : Forall sol_wf a -> sol_wf s ->
    pairwise_nd T scmp a -> pairwise_nd T scmp (fst (add T scmp a s)).
  Proof. inst add_pairwise. Qed.

  Theorem pareto_archive_char l : Forall sol_wf l -> archive T scmp l = filter (nd T scmp l) l.
  Proof. inst archive_char. Qed.

  Theorem pareto_history_char ops : Forall sol_wf (offered T ops) ->
    run_ops T scmp ops [] = filter (nd T scmp (offered T ops)) (offered T ops).
  Proof. inst history_char. Qed.

  Theorem pareto_history_pairwise ops : Forall sol_wf (offered T ops) ->
    pairwise_nd T scmp (run_ops T scmp ops []).
  Proof. inst history_pairwise. Qed.

  Theorem pareto_archive_In l x : Forall sol_wf l ->
    (In x (archive T scmp l) <-> In x l /\ forall y, In y l -> dom T scmp y x = false).
  Proof. inst archive_In. Qed.

  Theorem pareto_order_independent l l' : Forall sol_wf l -> Permutation l l' ->
    Permutation (archive T scmp l) (archive T scmp l').
  Proof. inst archive_order_independent. Qed.

  Theorem pareto_nondominated_char l : Forall sol_wf l ->
    nondominated T scmp l = filter (nd T scmp l) l.
  Proof. inst nondominated_char. Qed.

  Theorem pareto_add_accept_offered l s : Forall sol_wf l -> sol_wf s ->
    snd (add T scmp (archive T scmp l) s) = nd T scmp l s.
  Proof. inst add_accept_offered. Qed.

  (* twins (equal objective vectors and violation, different identity) of a kept solution are kept *)
  Theorem pareto_twins_kept l x x' : Forall sol_wf l -> In x (archive T scmp l) -> In x' l ->
    twin x x' = true -> In x' (archive T scmp l).
  Proof.
    intros Hl Hx Hx' Ht.
    apply (archive_twins T scmp sol_wf) with (x := x);
      eauto using scmp_range, scmp_antisym, sdom_trans, sdom_irrefl.
    intros y Hy. unfold dom. f_equal.
    pose proof Hl as Hl'. rewrite Forall_forall in Hl'.
    apply (pareto_archive_In l x Hl) in Hx. destruct Hx as [Hx _].
    apply twin_same_cmp; auto.
  Qed.
End ParetoInstance.

(* ---------- non-vacuity: a concrete history on the executable instance ---------- *)
Definition ex_s (i : nat) (a b : Z) : xsol := Build_sol i [FZ a; FZ b] xzero.
Definition ex_hist : list (op xsol) :=
  [ OAdd (ex_s 0 2 2); OExtend [ex_s 1 1 3; ex_s 2 2 2]; OIaddOne (ex_s 3 1 1);
    OAppend (ex_s 0 2 2); OIaddList [ex_s 4 1 1; ex_s 5 0 5; ex_s 3 1 1] ].

Example ex_hist_wf : Forall (sol_wf xq xltb xzero [false; false]) (offered xsol ex_hist).
Proof. repeat constructor. Qed.

(* (1,1) evicts (2,2), its twin and (1,3); the twin of (1,1), the same object offered again and the
   incomparable (0,5) are kept; the re-offered (2,2) is rejected *)
Example ex_hist_result :
  map sid (x_run_ops false [false; false] ex_hist []) = [3; 4; 5; 3]%nat.
Proof. vm_compute. reflexivity. Qed.

Example ex_hist_char :
  x_run_ops false [false; false] ex_hist [] =
  filter (nd xsol (x_sol_cmp false [false; false]) (offered xsol ex_hist)) (offered xsol ex_hist).
Proof. exact (pareto_history_char xq xltb xneg xzero xq_laws false [false; false] ex_hist ex_hist_wf). Qed.

Example ex_add_reject :
  snd (x_add false [false; false] [ex_s 3 1 1] (ex_s 0 2 2)) = false /\
  snd (x_add false [false; false] [ex_s 3 1 1] (ex_s 4 1 1)) = true.
Proof. split; vm_compute; reflexivity. Qed.
