(* Proofs about Model/Constraint.v.  All arithmetic statements are about EXACT
   rational arithmetic (Q); float rounding of  x - y  and  + delta  is not modelled. *)
From Coq Require Import ZArith NArith QArith Qabs Bool List Ascii Lia Lqa.
Import ListNotations.
From PV Require Import Base.Num Base.Order Model.Dominance Proofs.DominanceProofs Model.Constraint.
Open Scope Q_scope.

(* ------------------------------------------------------------------ *)
(* helpers                                                             *)
(* ------------------------------------------------------------------ *)
Lemma delta0_pos : 0 < delta0.
Proof. reflexivity. Qed.

Lemma Qle_bool_false a b : Qle_bool a b = false -> b < a.
Proof. intro H. apply Qnot_le_lt. intro C. apply Qle_bool_iff in C. congruence. Qed.

Lemma Qabs_cases z : (0 <= z /\ Qabs z == z) \/ (z <= 0 /\ Qabs z == - z).
Proof.
  apply (Qabs_case z (fun a => (0 <= z /\ a == z) \/ (z <= 0 /\ a == - z))); intro H.
  - left. split; [exact H|reflexivity].
  - right. split; [exact H|reflexivity].
Qed.

Lemma Qabs_zero_iff z : Qabs z == 0 <-> z == 0.
Proof. destruct (Qabs_cases z) as [[A B]|[A B]]; split; intro H; lra. Qed.

Ltac qb :=
  repeat match goal with
  | H : Qle_bool _ _ = true |- _ => apply Qle_bool_iff in H
  | H : Qle_bool _ _ = false |- _ => apply Qle_bool_false in H
  | H : Qltb _ _ = true |- _ => apply Qltb_lt in H
  | H : Qltb _ _ = false |- _ => apply Qltb_false in H
  | H : Qeq_bool _ _ = true |- _ => apply Qeq_bool_iff in H
  | H : Qeq_bool _ _ = false |- _ => apply Qeq_bool_neq in H
  end.

(* ------------------------------------------------------------------ *)
(* the relation each operator stands for                               *)
(* ------------------------------------------------------------------ *)
Definition holds (op : cop) (x y : Q) : Prop :=
  match op with
  | OpEq => x == y
  | OpLeq => x <= y
  | OpGeq => y <= x
  | OpNeq => ~ x == y
  | OpLt => x < y
  | OpGt => y < x
  end.

Section Delta.
  Variable d : Q.
  Hypothesis dpos : 0 < d.

  Lemma c_eq_zero x y : c_eq x y == 0 <-> x == y.
  Proof. unfold c_eq. rewrite Qabs_zero_iff. split; intro; lra. Qed.

  Lemma c_leq_zero x y : c_leq x y == 0 <-> x <= y.
  Proof.
    unfold c_leq. destruct (Qle_bool x y) eqn:E; qb.
    - split; [auto|reflexivity].
    - rewrite Qabs_zero_iff. split; intro; lra.
  Qed.

  Lemma c_geq_zero x y : c_geq x y == 0 <-> y <= x.
  Proof.
    unfold c_geq. destruct (Qle_bool y x) eqn:E; qb.
    - split; [auto|reflexivity].
    - rewrite Qabs_zero_iff. split; intro; lra.
  Qed.

  Lemma c_neq_zero x y : c_neq x y == 0 <-> ~ x == y.
  Proof.
    unfold c_neq. destruct (Qeq_bool x y) eqn:E; qb; cbn [negb].
    - split; intro H; [discriminate H|contradiction].
    - split; [auto|reflexivity].
  Qed.

  Lemma c_lt_zero x y : c_lt d x y == 0 <-> x < y.
  Proof.
    unfold c_lt. destruct (Qltb x y) eqn:E; qb.
    - split; [auto|reflexivity].
    - pose proof (Qabs_nonneg (x - y)). split; intro; lra.
  Qed.

  Lemma c_gt_zero x y : c_gt d x y == 0 <-> y < x.
  Proof.
    unfold c_gt. destruct (Qltb y x) eqn:E; qb.
    - split; [auto|reflexivity].
    - pose proof (Qabs_nonneg (x - y)). split; intro; lra.
  Qed.

  Lemma c_lt_nonneg x y : 0 <= c_lt d x y.
  Proof. unfold c_lt. destruct (Qltb x y); [lra|]. pose proof (Qabs_nonneg (x - y)). lra. Qed.

  Lemma c_gt_nonneg x y : 0 <= c_gt d x y.
  Proof. unfold c_gt. destruct (Qltb y x); [lra|]. pose proof (Qabs_nonneg (x - y)). lra. Qed.

  (* at the threshold itself the strict operators report exactly delta *)
  Lemma c_lt_at_threshold y : c_lt d y y == d.
  Proof.
    unfold c_lt. destruct (Qltb y y) eqn:E; qb; [lra|].
    destruct (Qabs_cases (y - y)) as [[A B]|[A B]]; lra.
  Qed.

  Lemma c_lt_mono x x' y : x <= x' -> c_lt d x y <= c_lt d x' y.
  Proof.
    intro H. unfold c_lt. destruct (Qltb x y) eqn:E1, (Qltb x' y) eqn:E2; qb; try lra.
    - pose proof (Qabs_nonneg (x' - y)). lra.
    - destruct (Qabs_cases (x - y)) as [[? ?]|[? ?]], (Qabs_cases (x' - y)) as [[? ?]|[? ?]]; lra.
  Qed.

  Lemma c_gt_mono x x' y : x' <= x -> c_gt d x y <= c_gt d x' y.
  Proof.
    intro H. unfold c_gt. destruct (Qltb y x) eqn:E1, (Qltb y x') eqn:E2; qb; try lra.
    - pose proof (Qabs_nonneg (x' - y)). lra.
    - destruct (Qabs_cases (x - y)) as [[? ?]|[? ?]], (Qabs_cases (x' - y)) as [[? ?]|[? ?]]; lra.
  Qed.
End Delta.

Lemma c_leq_nonneg x y : 0 <= c_leq x y.
Proof. unfold c_leq. destruct (Qle_bool x y); [lra|apply Qabs_nonneg]. Qed.
Lemma c_geq_nonneg x y : 0 <= c_geq x y.
Proof. unfold c_geq. destruct (Qle_bool y x); [lra|apply Qabs_nonneg]. Qed.
Lemma c_neq_nonneg x y : 0 <= c_neq x y.
Proof. unfold c_neq. destruct (negb _); lra. Qed.

Lemma c_eq_mono x x' y : (y <= x /\ x <= x') \/ (x' <= x /\ x <= y) -> c_eq x y <= c_eq x' y.
Proof.
  intro H. unfold c_eq.
  destruct (Qabs_cases (x - y)) as [[? ?]|[? ?]], (Qabs_cases (x' - y)) as [[? ?]|[? ?]]; lra.
Qed.

Lemma c_leq_mono x x' y : x <= x' -> c_leq x y <= c_leq x' y.
Proof.
  intro H. unfold c_leq. destruct (Qle_bool x y) eqn:E1, (Qle_bool x' y) eqn:E2; qb; try lra.
  - apply Qabs_nonneg.
  - destruct (Qabs_cases (x - y)) as [[? ?]|[? ?]], (Qabs_cases (x' - y)) as [[? ?]|[? ?]]; lra.
Qed.

Lemma c_geq_mono x x' y : x' <= x -> c_geq x y <= c_geq x' y.
Proof.
  intro H. unfold c_geq. destruct (Qle_bool y x) eqn:E1, (Qle_bool y x') eqn:E2; qb; try lra.
  - apply Qabs_nonneg.
  - destruct (Qabs_cases (x - y)) as [[? ?]|[? ?]], (Qabs_cases (x' - y)) as [[? ?]|[? ?]]; lra.
Qed.

(* ------------------------------------------------------------------ *)
(* per-operator theorems                                               *)
(* ------------------------------------------------------------------ *)
Theorem viol_zero_iff : forall op x y, op_fun op x y == 0 <-> holds op x y.
Proof.
  intros [] x y; cbn [op_fun holds].
  - apply c_eq_zero.
  - apply c_leq_zero.
  - apply c_geq_zero.
  - apply c_neq_zero.
  - apply (c_lt_zero delta0 delta0_pos).
  - apply (c_gt_zero delta0 delta0_pos).
Qed.

Theorem viol_nonneg : forall op x y, 0 <= op_fun op x y.
Proof.
  intros [] x y; cbn [op_fun].
  - apply Qabs_nonneg.
  - apply c_leq_nonneg.
  - apply c_geq_nonneg.
  - apply c_neq_nonneg.
  - apply (c_lt_nonneg delta0 delta0_pos).
  - apply (c_gt_nonneg delta0 delta0_pos).
Qed.

Theorem viol_pos : forall op x y, ~ holds op x y -> 0 < op_fun op x y.
Proof.
  intros op x y H. pose proof (viol_nonneg op x y) as N.
  destruct (Qlt_le_dec 0 (op_fun op x y)) as [L|L]; [exact L|].
  exfalso. apply H. apply viol_zero_iff. lra.
Qed.

(* strict operators: a value sitting on the threshold is violated by at least delta *)
Theorem viol_strict_at_least_delta : forall x y,
  (~ x < y -> delta0 <= op_fun OpLt x y) /\ (~ y < x -> delta0 <= op_fun OpGt x y).
Proof.
  intros x y. cbn [op_fun]. unfold c_lt, c_gt. split; intro H.
  - destruct (Qltb x y) eqn:E; qb; [contradiction|]. pose proof (Qabs_nonneg (x - y)). lra.
  - destruct (Qltb y x) eqn:E; qb; [contradiction|]. pose proof (Qabs_nonneg (x - y)). lra.
Qed.

(* x' is at least as far from the feasible side of [op y] as x *)
Definition further (op : cop) (y x x' : Q) : Prop :=
  match op with
  | OpEq => (y <= x /\ x <= x') \/ (x' <= x /\ x <= y)
  | OpLeq | OpLt => x <= x'
  | OpGeq | OpGt => x' <= x
  | OpNeq => False
  end.

Theorem viol_monotone : forall op x x' y, further op y x x' -> op_fun op x y <= op_fun op x' y.
Proof.
  intros [] x x' y H; cbn [op_fun further] in *.
  - apply c_eq_mono; exact H.
  - apply c_leq_mono; exact H.
  - apply c_geq_mono; exact H.
  - contradiction.
  - apply (c_lt_mono delta0 delta0_pos); exact H.
  - apply (c_gt_mono delta0 delta0_pos); exact H.
Qed.

(* ------------------------------------------------------------------ *)
(* aggregation (Problem.__call__)                                      *)
(* ------------------------------------------------------------------ *)
Fixpoint qsum (l : list Q) : Q := match l with [] => 0 | v :: r => v + qsum r end.

Lemma fold_Qplus_acc : forall l a, fold_left Qplus l a == a + qsum l.
Proof.
  induction l as [|v l IH]; intro a; cbn [fold_left qsum].
  - lra.
  - rewrite IH. lra.
Qed.

(* what a constraint object demands of a value *)
Definition sat (c : constr) (x : Q) : Prop :=
  match c with
  | CPartial op y => holds op x y
  | CFun f => f x == 0            (* "returns 0 if feasible and non-zero if not feasible" *)
  end.

Theorem call_zero_iff : forall c x, call c x == 0 <-> sat c x.
Proof. intros [op y|f] x; cbn [call sat]; [apply viol_zero_iff|reflexivity]. Qed.

Theorem total_viol_sum : forall cs xs, total_viol cs xs == qsum (abs_viols cs xs).
Proof. intros. unfold total_viol. rewrite fold_Qplus_acc. lra. Qed.

Theorem total_viol_nil : forall xs, total_viol [] xs = 0.
Proof. reflexivity. Qed.

Theorem total_viol_cons : forall c cs x xs,
  total_viol (c :: cs) (x :: xs) == Qabs (call c x) + total_viol cs xs.
Proof.
  intros. rewrite !total_viol_sum. unfold abs_viols. cbn [combine map qsum fst snd]. reflexivity.
Qed.

Lemma qsum_abs_nonneg : forall cs xs, 0 <= qsum (abs_viols cs xs).
Proof.
  induction cs as [|c cs IH]; intros [|x xs]; unfold abs_viols; cbn [combine map qsum fst snd]; try lra.
  pose proof (Qabs_nonneg (call c x)). specialize (IH xs). unfold abs_viols in IH. lra.
Qed.

Theorem total_viol_nonneg : forall cs xs, 0 <= total_viol cs xs.
Proof. intros. rewrite total_viol_sum. apply qsum_abs_nonneg. Qed.

Theorem total_zero_iff : forall cs xs,
  total_viol cs xs == 0 <-> Forall (fun p => sat (fst p) (snd p)) (combine cs xs).
Proof.
  induction cs as [|c cs IH]; intros [|x xs]; cbn [combine].
  - split; [constructor|reflexivity].
  - split; [constructor|reflexivity].
  - split; [constructor|reflexivity].
  - rewrite total_viol_cons.
    pose proof (Qabs_nonneg (call c x)) as N1. pose proof (total_viol_nonneg cs xs) as N2. split.
    + intro H. constructor.
      * cbn [fst snd]. apply call_zero_iff. apply Qabs_zero_iff. lra.
      * apply IH. lra.
    + intro H. inversion H as [|p l S R]; subst. cbn [fst snd] in S.
      apply call_zero_iff in S. apply Qabs_zero_iff in S. apply IH in R. lra.
Qed.

Theorem feasible_iff_all_hold : forall cs xs,
  feasible cs xs = true <-> Forall (fun p => sat (fst p) (snd p)) (combine cs xs).
Proof. intros. unfold feasible. rewrite Qeq_bool_iff. apply total_zero_iff. Qed.

Theorem infeasible_positive : forall cs xs, feasible cs xs = false -> 0 < total_viol cs xs.
Proof.
  intros cs xs H. unfold feasible in H. qb. pose proof (total_viol_nonneg cs xs).
  destruct (Qlt_le_dec 0 (total_viol cs xs)) as [L|L]; [exact L|]. exfalso. apply H. lra.
Qed.

(* ------------------------------------------------------------------ *)
(* a feasible solution always beats an infeasible one (C02 model)      *)
(* ------------------------------------------------------------------ *)
Definition sol_of (objs : list xq) (cs : list constr) (xs : list Q) : xdsol :=
  Build_dsol objs (Fin (total_viol cs xs)).

Lemma sol_wf dirs objs cs xs : length objs = length dirs -> wf xq xltb xzero dirs (sol_of objs cs xs).
Proof.
  intro H. split; [exact H|]. unfold cv_ok, sol_of. cbn [d_cv xltb xzero].
  apply Qltb_false. apply total_viol_nonneg.
Qed.

Theorem feasible_beats_infeasible : forall dirs cs o1 xs1 o2 xs2,
  length o1 = length dirs -> length o2 = length dirs ->
  feasible cs xs1 = true -> feasible cs xs2 = false ->
  x_pareto_compare true dirs (sol_of o1 cs xs1) (sol_of o2 cs xs2) = (-1)%Z /\
  x_pareto_compare true dirs (sol_of o2 cs xs2) (sol_of o1 cs xs1) = 1%Z.
Proof.
  intros dirs cs o1 xs1 o2 xs2 L1 L2 F1 F2.
  pose proof (sol_wf dirs o1 cs xs1 L1) as W1. pose proof (sol_wf dirs o2 cs xs2 L2) as W2.
  assert (B : better xq xltb xneg true dirs (sol_of o1 cs xs1) (sol_of o2 cs xs2) = true).
  { unfold better, sol_of. cbn [d_cv andb xltb].
    assert (Qltb (total_viol cs xs1) (total_viol cs xs2) = true) as ->; [|reflexivity].
    apply Qltb_lt. pose proof (infeasible_positive cs xs2 F2). unfold feasible in F1. qb. lra. }
  split.
  - apply (compare_iff_first xq xltb xneg xzero xq_laws true dirs _ _ W1 W2). exact B.
  - apply (compare_iff_second xq xltb xneg xzero xq_laws true dirs _ _ W2 W1). exact B.
Qed.

(* ------------------------------------------------------------------ *)
(* the xq layer is the Q layer on finite values; +-inf values           *)
(* ------------------------------------------------------------------ *)
Lemma x_op_fun_fin : forall op q y, x_op_fun op (Fin q) y = Fin (op_fun op q y).
Proof.
  intros [] q y; cbn [x_op_fun op_fun x_abs_sub x_leb x_neqb xltb x_plus];
    unfold c_eq, c_leq, c_geq, c_neq, c_lt, c_gt; try reflexivity.
  - destruct (Qle_bool q y); reflexivity.
  - destruct (Qle_bool y q); reflexivity.
  - destruct (negb (Qeq_bool q y)); reflexivity.
  - destruct (Qltb q y); reflexivity.
  - destruct (Qltb y q); reflexivity.
Qed.

Theorem x_call_fin : forall c q, x_call c (Fin q) = Some (Fin (call c q)).
Proof. intros [op y|f] q; cbn [x_call call]; [rewrite x_op_fun_fin|]; reflexivity. Qed.

Lemma x_total_fin_acc : forall cs xs a,
  fold_left x_sum_step (map (fun p => x_call (fst p) (snd p)) (combine cs (map Fin xs))) (Some (Fin a))
  = Some (Fin (fold_left Qplus (abs_viols cs xs) a)).
Proof.
  induction cs as [|c cs IH]; intros [|x xs] a; try reflexivity.
  unfold abs_viols. cbn [map combine fold_left fst snd]. rewrite x_call_fin.
  cbn [x_sum_step x_abs xadd]. apply IH.
Qed.

Theorem x_total_fin : forall cs xs, x_total cs (map Fin xs) = Some (Fin (total_viol cs xs)).
Proof. intros. apply x_total_fin_acc. Qed.

(* the relation on extended values, decided with the float comparisons *)
Definition x_holds (op : cop) (x : xq) (y : Q) : bool :=
  match op with
  | OpEq => negb (x_neqb x (Fin y))
  | OpLeq => x_leb x (Fin y)
  | OpGeq => x_leb (Fin y) x
  | OpNeq => x_neqb x (Fin y)
  | OpLt => xltb x (Fin y)
  | OpGt => xltb (Fin y) x
  end.

Lemma x_holds_fin op q y : x_holds op (Fin q) y = true <-> holds op q y.
Proof.
  destruct op; cbn [x_holds holds x_neqb x_leb xltb].
  - rewrite negb_involutive. apply Qeq_bool_iff.
  - apply Qle_bool_iff.
  - apply Qle_bool_iff.
  - rewrite negb_true_iff. split; intro H.
    + apply Qeq_bool_neq. exact H.
    + destruct (Qeq_bool q y) eqn:E; [|reflexivity]. qb. contradiction.
  - apply Qltb_lt.
  - apply Qltb_lt.
Qed.

(* zero violation exactly when the relation holds, also for values -inf / +inf *)
Theorem x_viol_zero_iff : forall op x y, x_is_zero (x_op_fun op x y) = x_holds op x y.
Proof.
  intros op [|q|] y.
  - destruct op; reflexivity.
  - rewrite x_op_fun_fin. unfold x_is_zero. cbn [x_neqb]. rewrite negb_involutive.
    apply eq_true_iff_eq. rewrite Qeq_bool_iff, x_holds_fin. apply viol_zero_iff.
  - destruct op; reflexivity.
Qed.

(* ------------------------------------------------------------------ *)
(* parser                                                              *)
(* ------------------------------------------------------------------ *)
Definition all_of (p : ascii -> bool) (s : list ascii) : Prop := Forall (fun c => p c = true) s.

Lemma span_app p a b : all_of p a ->
  match b with [] => True | c :: _ => p c = false end -> span p (a ++ b) = (a, b).
Proof.
  induction a as [|x a IH]; intros HA HB.
  - cbn [app]. destruct b as [|c r]; [reflexivity|]. cbn [span]. rewrite HB. reflexivity.
  - inversion HA as [|? ? Hx Ha]; subst. cbn [app span]. rewrite Hx, (IH Ha HB). reflexivity.
Qed.

Lemma space_not_op c : is_space c = true -> is_opch c = false.
Proof. destruct c as [[] [] [] [] [] [] [] []]; vm_compute; congruence. Qed.
Lemma tok_not_op c : is_tokch c = true -> is_opch c = false.
Proof. unfold is_tokch. destruct (is_opch c); [rewrite andb_false_r; discriminate|reflexivity]. Qed.
Lemma tok_not_space c : is_tokch c = true -> is_space c = false.
Proof. unfold is_tokch. destruct (is_space c); [discriminate|reflexivity]. Qed.
Lemma space_not_tok c : is_space c = true -> is_tokch c = false.
Proof. unfold is_tokch. intros ->. reflexivity. Qed.
Lemma op_not_tok c : is_opch c = true -> is_tokch c = false.
Proof. unfold is_tokch. intros ->. apply andb_false_r. Qed.

Lemma head_of_rest_not_op ws tok : all_of is_space ws -> all_of is_tokch tok ->
  match ws ++ tok with [] => True | c :: _ => is_opch c = false end.
Proof.
  intros HW HT. destruct ws as [|w ws]; cbn [app].
  - destruct tok as [|t tok]; [exact I|]. inversion HT; subst. apply tok_not_op. assumption.
  - inversion HW; subst. apply space_not_op. assumption.
Qed.

(* the regex accepts operator-run, whitespace-run, token — and returns the two groups *)
Lemma re_match_ok : forall o ws tok,
  o <> [] -> all_of is_opch o -> all_of is_space ws -> tok <> [] -> all_of is_tokch tok ->
  re_match (o ++ ws ++ tok) = Some (o, tok).
Proof.
  intros o ws tok NO HO HW NT HT. unfold re_match.
  rewrite (span_app is_opch o (ws ++ tok) HO (head_of_rest_not_op ws tok HW HT)).
  destruct o as [|o1 o']; [congruence|].
  rewrite (span_app is_space ws tok HW).
  2:{ destruct tok as [|t tok]; [exact I|]. inversion HT; subst. apply tok_not_space. assumption. }
  rewrite <- (app_nil_r tok) at 1. rewrite (span_app is_tokch tok [] HT I).
  destruct tok; [congruence|reflexivity].
Qed.

(* Python's "$" also matches just before a final newline *)
Lemma re_match_trailing_newline : forall o ws tok,
  o <> [] -> all_of is_opch o -> all_of is_space ws -> tok <> [] -> all_of is_tokch tok ->
  re_match (o ++ ws ++ tok ++ ["010"%char]) = Some (o, tok).
Proof.
  intros o ws tok NO HO HW NT HT. unfold re_match.
  rewrite (span_app is_opch o (ws ++ tok ++ ["010"%char]) HO).
  2:{ destruct ws as [|w ws]; cbn [app].
      - destruct tok as [|t tok]; [congruence|]. inversion HT; subst. apply tok_not_op. assumption.
      - inversion HW; subst. apply space_not_op. assumption. }
  destruct o as [|o1 o']; [congruence|].
  rewrite (span_app is_space ws (tok ++ ["010"%char]) HW).
  2:{ destruct tok as [|t tok]; [congruence|]. inversion HT; subst. apply tok_not_space. assumption. }
  rewrite (span_app is_tokch tok ["010"%char] HT eq_refl).
  destruct tok; [congruence|reflexivity].
Qed.

(* anything else after a (non-empty) token is rejected: "<=5 ", "<= 5 6", "<=5<" *)
Lemma re_match_trailing_rejected : forall o ws tok c rest,
  o <> [] -> all_of is_opch o -> all_of is_space ws -> tok <> [] -> all_of is_tokch tok ->
  is_tokch c = false -> c :: rest <> ["010"%char] ->
  re_match (o ++ ws ++ tok ++ c :: rest) = None.
Proof.
  intros o ws tok c rest NO HO HW NT HT HC NN. unfold re_match.
  destruct tok as [|t tok]; [congruence|]. inversion HT as [|? ? Ht Htok]; subst.
  rewrite (span_app is_opch o (ws ++ (t :: tok) ++ c :: rest) HO).
  2:{ destruct ws as [|w ws]; cbn [app].
      - apply tok_not_op. assumption.
      - inversion HW; subst. apply space_not_op. assumption. }
  destruct o as [|o1 o']; [congruence|].
  rewrite (span_app is_space ws ((t :: tok) ++ c :: rest) HW).
  2:{ cbn [app]. apply tok_not_space. assumption. }
  rewrite (span_app is_tokch (t :: tok) (c :: rest) HT HC).
  destruct rest as [|r rs];
    destruct c as [[] [] [] [] [] [] [] []]; try reflexivity; exfalso; apply NN; reflexivity.
Qed.

(* ---- the operator table ---- *)
Definition op_string (op : cop) : list ascii :=
  match op with
  | OpEq => ["="; "="] | OpLeq => ["<"; "="] | OpGeq => [">"; "="]
  | OpNeq => ["!"; "="] | OpLt => ["<"] | OpGt => [">"]
  end%char.

Lemma str_eqb_eq : forall a b, str_eqb a b = true -> a = b.
Proof.
  induction a as [|x a IH]; intros [|y b] H; cbn [str_eqb] in H; try discriminate; [reflexivity|].
  apply andb_true_iff in H. destruct H as [H1 H2]. apply Ascii.eqb_eq in H1. subst. f_equal. apply IH. exact H2.
Qed.

Ltac lookup_case :=
  match goal with
  | |- context [str_eqb ?k ?o] =>
      let E := fresh "E" in
      destruct (str_eqb k o) eqn:E;
      [apply str_eqb_eq in E; subst o; let H := fresh "H" in intro H; injection H as <-; reflexivity|]
  end.

Lemma lookup_op_string : forall o op, lookup_op o = Some op -> o = op_string op.
Proof.
  intros o op. unfold lookup_op, OPERATORS. cbn [find fst snd].
  do 6 lookup_case. discriminate.
Qed.

Lemma lookup_op_of_string : forall op, lookup_op (op_string op) = Some op.
Proof. intros []; reflexivity. Qed.

Lemma op_string_shape : forall op, op_string op <> [] /\ all_of is_opch (op_string op).
Proof. intros []; (split; [discriminate|repeat constructor]). Qed.

(* ---- parse_tokens: accepted spellings ---- *)
Definition well_formed_token (tok : list ascii) : Prop := tok <> [] /\ all_of is_tokch tok.

Theorem parse_ok : forall op ws tok, all_of is_space ws -> well_formed_token tok ->
  parse_tokens (op_string op ++ ws ++ tok) = Some (op, tok).
Proof.
  intros op ws tok HW [NT HT]. unfold parse_tokens.
  destruct (op_string_shape op) as [NO HO].
  rewrite (re_match_ok _ ws tok NO HO HW NT HT), lookup_op_of_string. reflexivity.
Qed.

Theorem parse_ok_trailing_newline : forall op ws tok, all_of is_space ws -> well_formed_token tok ->
  parse_tokens (op_string op ++ ws ++ tok ++ ["010"%char]) = Some (op, tok).
Proof.
  intros op ws tok HW [NT HT]. unfold parse_tokens.
  destruct (op_string_shape op) as [NO HO].
  rewrite (re_match_trailing_newline _ ws tok NO HO HW NT HT), lookup_op_of_string. reflexivity.
Qed.

(* ---- parse_tokens: rejected strings ---- *)
Theorem parse_empty : parse_tokens [] = None.
Proof. reflexivity. Qed.

(* the string does not start with an operator character: "5", " <=5", "x<=5" *)
Theorem parse_missing_operator : forall c s, is_opch c = false -> parse_tokens (c :: s) = None.
Proof. intros c s H. unfold parse_tokens, re_match. cbn [span]. rewrite H. reflexivity. Qed.

(* operator characters and whitespace only: "<=", "<= ", "==\n" *)
Theorem parse_missing_value : forall o ws, all_of is_opch o -> all_of is_space ws ->
  parse_tokens (o ++ ws) = None.
Proof.
  intros o ws HO HW. unfold parse_tokens, re_match.
  rewrite (span_app is_opch o ws HO).
  2:{ destruct ws as [|w ws]; [exact I|]. inversion HW; subst. apply space_not_op. assumption. }
  destruct o as [|o1 o']; [reflexivity|].
  rewrite <- (app_nil_r ws). rewrite (span_app is_space ws [] HW I). reflexivity.
Qed.

(* an operator run that is not a key of the table: "=<5", "<<5", "=5", "!5", "<>5" *)
Theorem parse_unknown_operator : forall o ws tok,
  o <> [] -> all_of is_opch o -> lookup_op o = None -> all_of is_space ws -> well_formed_token tok ->
  parse_tokens (o ++ ws ++ tok) = None.
Proof.
  intros o ws tok NO HO HL HW [NT HT]. unfold parse_tokens.
  rewrite (re_match_ok o ws tok NO HO HW NT HT), HL. reflexivity.
Qed.

(* something after the value: "<=5 ", "<= 5 6", "<=5<" *)
Theorem parse_trailing_rejected : forall op ws tok c rest,
  all_of is_space ws -> well_formed_token tok -> is_tokch c = false -> c :: rest <> ["010"%char] ->
  parse_tokens (op_string op ++ ws ++ tok ++ c :: rest) = None.
Proof.
  intros op ws tok c rest HW [NT HT] HC NN. unfold parse_tokens.
  destruct (op_string_shape op) as [NO HO].
  rewrite (re_match_trailing_rejected _ ws tok c rest NO HO HW NT HT HC NN). reflexivity.
Qed.

(* parse_tokens only ever answers with a table operator and a well-formed token *)
Lemma span_spec p : forall s a b, span p s = (a, b) ->
  s = a ++ b /\ all_of p a /\ match b with [] => True | c :: _ => p c = false end.
Proof.
  induction s as [|x s IH]; intros a b; cbn [span].
  - intro H; injection H as <- <-. repeat split. constructor.
  - destruct (p x) eqn:E.
    + destruct (span p s) as [a' b'] eqn:E'. intro H; injection H as <- <-.
      destruct (IH a' b' eq_refl) as [-> [HA HB]]. repeat split; [constructor; assumption|exact HB].
    + intro H; injection H as <- <-. repeat split; [constructor|exact E].
Qed.

Theorem parse_sound : forall s op tok, parse_tokens s = Some (op, tok) ->
  well_formed_token tok /\
  exists ws, all_of is_space ws /\
    (s = op_string op ++ ws ++ tok \/ s = op_string op ++ ws ++ tok ++ ["010"%char]).
Proof.
  intros s op tok. unfold parse_tokens, re_match.
  destruct (span is_opch s) as [o r1] eqn:E1.
  destruct o as [|o1 o']; [discriminate|].
  destruct (span is_space r1) as [ws r2] eqn:E2.
  destruct (span is_tokch r2) as [tk r3] eqn:E3.
  destruct tk as [|t tk]; [discriminate|].
  destruct (span_spec _ _ _ _ E1) as [-> [HO _]].
  destruct (span_spec _ _ _ _ E2) as [-> [HW _]].
  destruct (span_spec _ _ _ _ E3) as [-> [HT _]].
  destruct r3 as [|c r3].
  - destruct (lookup_op (o1 :: o')) eqn:L; [|discriminate].
    intro H; injection H as <- <-. apply lookup_op_string in L. rewrite L.
    split; [split; [discriminate|exact HT]|]. exists ws. split; [exact HW|]. left. rewrite app_nil_r. reflexivity.
  - destruct r3 as [|c2 r3];
      destruct c as [[] [] [] [] [] [] [] []]; try discriminate.
    destruct (lookup_op (o1 :: o')) eqn:L; [|discriminate].
    intro H; injection H as <- <-. apply lookup_op_string in L. rewrite L.
    split; [split; [discriminate|exact HT]|]. exists ws. split; [exact HW|]. right. reflexivity.
Qed.

(* ---- Constraint.__init__ ---- *)
Section CtorProofs.
  Variable parse_float : list ascii -> option Q.

  (* "<=5", "<= 5", "<=   5": same object as long as float() reads the token *)
  Theorem construct_string_ok : forall op ws tok y,
    all_of is_space ws -> well_formed_token tok -> parse_float tok = Some y ->
    construct parse_float (AStr (op_string op ++ ws ++ tok)) = Some (CPartial op y).
  Proof.
    intros op ws tok y HW HT HF. cbn [construct]. rewrite (parse_ok op ws tok HW HT), HF. reflexivity.
  Qed.

  (* the token is not a number: "<=abc" *)
  Theorem construct_string_bad_number : forall op ws tok,
    all_of is_space ws -> well_formed_token tok -> parse_float tok = None ->
    construct parse_float (AStr (op_string op ++ ws ++ tok)) = None.
  Proof.
    intros op ws tok HW HT HF. cbn [construct]. rewrite (parse_ok op ws tok HW HT), HF. reflexivity.
  Qed.

  Theorem construct_string_rejected : forall s, parse_tokens s = None ->
    construct parse_float (AStr s) = None.
  Proof. intros s H. cbn [construct]. rewrite H. reflexivity. Qed.

  (* ("<=", 5) *)
  Theorem construct_pair_ok : forall op v,
    construct parse_float (APair (op_string op) v) = Some (CPartial op v).
  Proof. intros. cbn [construct]. rewrite lookup_op_of_string. reflexivity. Qed.

  Theorem construct_pair_unknown : forall o v, lookup_op o = None ->
    construct parse_float (APair o v) = None.
  Proof. intros o v H. cbn [construct]. rewrite H. reflexivity. Qed.

  (* the .op string of the two-argument form parses back to the same operator and token *)
  Theorem pair_op_string_reparses : forall op strv, well_formed_token strv ->
    parse_tokens (pair_op_string (op_string op) strv) = Some (op, strv).
  Proof. intros op strv H. unfold pair_op_string. apply (parse_ok op [] strv); [constructor|exact H]. Qed.

  Theorem construct_copy : forall c, construct parse_float (ACopy c) = Some c.
  Proof. reflexivity. Qed.

  Theorem construct_callable : forall f, construct parse_float (ACallable f) = Some (CFun f).
  Proof. reflexivity. Qed.

  (* the predefined constants *)
  Theorem constants_parse :
    parse_tokens EQUALS_ZERO = Some (OpEq, ["0"%char]) /\ parse_tokens LEQ_ZERO = Some (OpLeq, ["0"%char]) /\
    parse_tokens GEQ_ZERO = Some (OpGeq, ["0"%char]) /\ parse_tokens LESS_THAN_ZERO = Some (OpLt, ["0"%char]) /\
    parse_tokens GREATER_THAN_ZERO = Some (OpGt, ["0"%char]).
  Proof. repeat split. Qed.

  (* end to end: a declared string constraint is violated exactly when its relation is false *)
  Theorem declared_string_zero_iff : forall op ws tok y c x,
    all_of is_space ws -> well_formed_token tok -> parse_float tok = Some y ->
    construct parse_float (AStr (op_string op ++ ws ++ tok)) = Some c ->
    (call c x == 0 <-> holds op x y).
  Proof.
    intros op ws tok y c x HW HT HF HC.
    rewrite (construct_string_ok op ws tok y HW HT HF) in HC. injection HC as <-.
    cbn [call]. apply viol_zero_iff.
  Qed.
End CtorProofs.

(* ------------------------------------------------------------------ *)
(* non-vacuity                                                         *)
(* ------------------------------------------------------------------ *)
Example ex_lt_threshold : op_fun OpLt 5 5 == delta0 /\ op_fun OpLt (9 # 2) 5 == 0 /\ ~ holds OpLt 5 5.
Proof. split; [|split]; [reflexivity|reflexivity|cbn; lra]. Qed.

Example ex_monotone : further OpLeq 5 6 8 /\ op_fun OpLeq 6 5 == 1 /\ op_fun OpLeq 8 5 == 3.
Proof. split; [|split]; [cbn; lra|reflexivity|reflexivity]. Qed.

Example ex_further_eq : further OpEq 0 (-1) (-3) /\ op_fun OpEq (-1) 0 == 1 /\ op_fun OpEq (-3) 0 == 3.
Proof. split; [|split]; [cbn; right; lra|reflexivity|reflexivity]. Qed.

Example ex_total : total_viol [CPartial OpLeq 0; CPartial OpGt 2; CFun (fun x => x - 1)] [3; 2; -1]
                   == 3 + delta0 + 2.
Proof. vm_compute. reflexivity. Qed.

Example ex_feasible : feasible [CPartial OpLeq 0; CPartial OpNeq 2] [-1; 3] = true
                      /\ feasible [CPartial OpLeq 0; CPartial OpNeq 2] [-1; 2] = false.
Proof. split; reflexivity. Qed.

Example ex_beats :
  x_pareto_compare true [false] (sol_of [FZ 100] [CPartial OpLeq 0] [-1]) (sol_of [FZ 0] [CPartial OpLeq 0] [1]) = (-1)%Z.
Proof. reflexivity. Qed.

Example ex_parse : parse_tokens ["<"; "="; " "; " "; "-"; "1"; "e"; "-"; "3"]%char = Some (OpLeq, ["-"; "1"; "e"; "-"; "3"]%char)
                   /\ well_formed_token ["-"; "1"; "e"; "-"; "3"]%char /\ all_of is_space [" "; " "]%char.
Proof. split; [reflexivity|split; [split; [discriminate|repeat constructor]|repeat constructor]]. Qed.

Example ex_parse_rejects :
  parse_tokens ["="; "<"; "5"]%char = None /\ parse_tokens ["<"; "="]%char = None /\ parse_tokens ["5"]%char = None
  /\ parse_tokens ["<"; "="; "5"; " "]%char = None /\ lookup_op ["="; "<"]%char = None.
Proof. repeat split. Qed.

Example ex_x_inf : x_op_fun OpLeq PInf 5 = PInf /\ x_op_fun OpLeq NInf 5 = Fin 0 /\ x_op_fun OpEq NInf 5 = PInf.
Proof. repeat split. Qed.
