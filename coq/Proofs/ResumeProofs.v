(* Proofs/ResumeProofs.v — proofs about Model/Resume.v (C13). *)
From Coq Require Import Arith List Bool Lia.
Import ListNotations.
From PV Require Import Model.RunLoop Proofs.RunLoopProofs Model.Resume.

Section ResumeProofs.
  Variable A R F : Type.
  Variable nfe_a : A -> nat.
  Variable step_p start_p end_p : proc A R -> proc A R.
  Variable save : proc A R -> F.
  Variable load : F -> R -> proc A R.

  (* observational equality: agreement on everything a step (and the result) reads.  Fields such as
     LoggingExtension.start_time or the pickle memo are outside it. *)
  Variable eqv : proc A R -> proc A R -> Prop.
  Infix "~~" := eqv (at level 70).

  Notation nfe := (p_nfe A R nfe_a).
  Notation run := (p_run A R nfe_a step_p start_p end_p).
  Notation run2 := (p_run2 A R nfe_a step_p start_p end_p).
  Notation consumed := (p_consumed A R nfe_a step_p start_p end_p).
  Notation piter := (p_iter A R step_p).
  Notation resume := (resume A R F nfe_a step_p start_p end_p save load).

  Definition oeqv (a b : option (proc A R)) : Prop :=
    match a, b with
    | Some x, Some y => x ~~ y
    | None, None => True
    | _, _ => False
    end.

  (* determinism frame: hooks and step are functions of the observable part of (alg, rng) *)
  Record frame : Prop := mkFrame {
    f_refl : forall p, p ~~ p;
    f_sym : forall p q, p ~~ q -> q ~~ p;
    f_trans : forall p q r, p ~~ q -> q ~~ r -> p ~~ r;
    f_nfe : forall p q, p ~~ q -> nfe p = nfe q;
    f_step : forall p q, p ~~ q -> step_p p ~~ step_p q;
    f_start : forall p q, p ~~ q -> start_p p ~~ start_p q;
    f_end : forall p q, p ~~ q -> end_p p ~~ end_p q;
    f_progress : forall p, nfe p < nfe (step_p p);
    f_start_nfe : forall p, nfe p <= nfe (start_p p);
    f_end_nfe : forall p, nfe p <= nfe (end_p p)
  }.

  Hypothesis FR : frame.

  (* load_state(save_state(s)) gives back s whatever the loading process did with its generator *)
  Definition load_restores : Prop := forall p r', load (save p) r' ~~ p.

  (* start_run / end_run hooks are neutral on what a step reads (LoggingExtension; not a restart window) *)
  Definition hooks_neutral : Prop := (forall p, start_p p ~~ p) /\ (forall p, end_p p ~~ p).

  Let pInv (p : proc A R) : Prop := True.
  Let pcalls (p : proc A R) : nat := 0.

  Lemma p_wb : well_behaved (proc A R) nfe pcalls start_p end_p (id_p A R) (id_p A R) step_p (id_p A R) pInv.
  Proof.
    unfold well_behaved, tame, advances, pInv, pcalls, id_p.
    repeat split; try lia.
    - apply (f_start_nfe FR).
    - pose proof (f_start_nfe FR s). lia.
    - apply (f_end_nfe FR).
    - pose proof (f_end_nfe FR s). lia.
    - apply (f_progress FR).
    - pose proof (f_progress FR s). lia.
  Qed.

  Lemma oeqv_refl : forall a, oeqv a a.
  Proof. intros [x|]; simpl; [apply (f_refl FR)|exact I]. Qed.

  Lemma oeqv_sym : forall a b, oeqv a b -> oeqv b a.
  Proof. intros [x|] [y|]; simpl; auto. apply (f_sym FR). Qed.

  Lemma oeqv_trans : forall a b c, oeqv a b -> oeqv b c -> oeqv a c.
  Proof. intros [x|] [y|] [z|]; simpl; auto; try contradiction. apply (f_trans FR). Qed.

  Lemma loop_proper : forall fuel start N p q, p ~~ q ->
    oeqv (loop (proc A R) nfe (id_p A R) (id_p A R) step_p (id_p A R) fuel start N p)
         (loop (proc A R) nfe (id_p A R) (id_p A R) step_p (id_p A R) fuel start N q).
  Proof.
    induction fuel as [|f IH]; intros start N p q H; simpl; unfold should_terminate;
      rewrite (f_nfe FR p q H); destruct (N <=? nfe q - start); simpl; try exact H; try exact I.
    apply IH. unfold RunLoop.step, id_p. apply (f_step FR). exact H.
  Qed.

  (* run is a function of the observable state *)
  Lemma run_proper : forall N p q, p ~~ q -> oeqv (run N p) (run N q).
  Proof.
    intros N p q H. unfold p_run, RunLoop.run. rewrite (f_nfe FR p q H).
    pose proof (loop_proper N (nfe q) N (start_p p) (start_p q) (f_start FR p q H)) as L.
    destruct (loop (proc A R) nfe (id_p A R) (id_p A R) step_p (id_p A R) N (nfe q) N (start_p p)) as [x|];
    destruct (loop (proc A R) nfe (id_p A R) (id_p A R) step_p (id_p A R) N (nfe q) N (start_p q)) as [y|];
      simpl in *; try contradiction; try exact I.
    apply (f_end FR). exact L.
  Qed.

  (* Saving at a step boundary, loading in a process whose generator was used in between, and continuing gives
     what continuing in memory gives. *)
  Theorem resume_exact : load_restores -> forall N p r', oeqv (resume N p r') (run N p).
  Proof. intros HL N p r'. unfold Resume.resume. apply run_proper. apply HL. Qed.

  (* ----- composition of consecutive calls ----- *)
  Lemma piter_proper : forall k p q, p ~~ q -> piter k p ~~ piter k q.
  Proof.
    induction k as [|k IH]; intros p q H; simpl; [exact H|].
    apply IH. unfold RunLoop.step, id_p. apply (f_step FR). exact H.
  Qed.

  Definition first_k (N : nat) (p : proc A R) (k : nat) : Prop :=
    N <= nfe (piter k p) - nfe p /\ (forall j, j < k -> nfe (piter j p) - nfe p < N).

  Lemma piter_mono : forall p j j', j < j' -> nfe (piter j p) < nfe (piter j' p).
  Proof.
    intros p j j' H.
    exact (nfe_strict_mono (proc A R) nfe pcalls start_p end_p (id_p A R) (id_p A R) step_p (id_p A R) pInv p_wb p I j j' H).
  Qed.

  Lemma piter_ge : forall p k, nfe p <= nfe (piter k p).
  Proof.
    intros p k. destruct k as [|k]; [simpl; lia|].
    pose proof (piter_mono p 0 (S k) (Nat.lt_0_succ k)) as H. simpl in H. simpl. lia.
  Qed.

  Lemma first_k_unique : forall N p k k', first_k N p k -> first_k N p k' -> k = k'.
  Proof.
    intros N p k k' [H1 H2] [H1' H2'].
    destruct (Nat.lt_trichotomy k k') as [L|[E|L]]; [|assumption|].
    - specialize (H2' k L). lia.
    - specialize (H2 k' L). lia.
  Qed.

  Lemma run_char : hooks_neutral -> forall N p,
    exists k r, run N p = Some r /\ r ~~ piter k p /\ first_k N p k.
  Proof.
    intros [HS HE] N p.
    destruct (run_stops_first (proc A R) nfe pcalls start_p end_p (id_p A R) (id_p A R) step_p (id_p A R) pInv p_wb N p I)
      as [k [H1 [_ [H2 H3]]]].
    exists k, (end_p (piter k (start_p p))). split; [exact H1|].
    assert (forall j, nfe (piter j (start_p p)) = nfe (piter j p)) as Hn.
    { intros j. apply (f_nfe FR). apply piter_proper. apply HS. }
    split.
    - apply (f_trans FR) with (piter k (start_p p)); [apply HE|]. apply piter_proper. apply HS.
    - split.
      + unfold p_iter in *. rewrite <- Hn. exact H2.
      + intros j Hj. unfold p_iter in *. rewrite <- Hn. apply H3. exact Hj.
  Qed.

  (* Consecutive calls split at a step boundary equal the single call: if the start_run / end_run hooks are
     neutral on what a step reads, run N2 after run N1 is run (consumed N1 + N2). *)
  Theorem run_compose : hooks_neutral -> forall N1 N2 p,
    oeqv (run2 N1 N2 p) (run (consumed N1 p + N2) p).
  Proof.
    intros HN N1 N2 p. unfold p_run2, p_consumed.
    destruct (run_char HN N1 p) as [k1 [p1 [E1 [Q1 [F1 G1]]]]].
    rewrite E1.
    set (c := nfe p1 - nfe p).
    assert (nfe p1 = nfe (piter k1 p)) as Hn1 by (apply (f_nfe FR); exact Q1).
    (* second call, moved to the model state piter k1 p *)
    destruct (run_char HN N2 (piter k1 p)) as [k2 [r2 [E2 [Q2 [F2 G2]]]]].
    pose proof (run_proper N2 p1 (piter k1 p) Q1) as P2. rewrite E2 in P2.
    (* single call *)
    destruct (run_char HN (c + N2) p) as [k3 [r3 [E3 [Q3 F3]]]].
    rewrite E3.
    assert (piter (k1 + k2) p = piter k2 (piter k1 p)) as Hadd.
    { unfold p_iter. apply iter_add. }
    assert (first_k (c + N2) p (k1 + k2)) as F12.
    { pose proof (piter_ge p k1) as Ge1. pose proof (piter_ge (piter k1 p) k2) as Ge2.
      split.
      - rewrite Hadd. unfold c. rewrite Hn1. lia.
      - intros j Hj. destruct (Nat.lt_ge_cases j k1) as [L|L].
        + pose proof (piter_mono p j k1 L) as M. pose proof (piter_ge p j) as Gj. unfold c. rewrite Hn1. lia.
        + replace j with (k1 + (j - k1)) by lia.
          assert (piter (k1 + (j - k1)) p = piter (j - k1) (piter k1 p)) as -> by (unfold p_iter; apply iter_add).
          assert (j - k1 < k2) as L2 by lia. specialize (G2 (j - k1) L2).
          pose proof (piter_ge (piter k1 p) (j - k1)) as Gj. unfold c. rewrite Hn1. lia. }
    pose proof (first_k_unique _ _ _ _ F3 F12) as ->.
    destruct (run N2 p1) as [x|] eqn:Ex; simpl in P2; [|contradiction]. simpl.
    apply (f_trans FR) with r2; [exact P2|].
    apply (f_trans FR) with (piter k2 (piter k1 p)); [exact Q2|].
    rewrite <- Hadd. apply (f_sym FR). exact Q3.
  Qed.
End ResumeProofs.

(* ------------------------------------------------------------------------- *)
(* Non-vacuity: the toy algorithm satisfies the frame with eqv := eq          *)
(* ------------------------------------------------------------------------- *)
Lemma toy_frame : frame toy nat y_nfe toy_step (fun p => p) (fun p => p) eq.
Proof.
  constructor; try (intros; subst; reflexivity); try (intros; congruence); try (intros; lia).
  intros [a r]. unfold p_nfe, toy_step.
  destruct (draw (Nat.max 1 (y_pop a)) (y_acc a) r) as [acc r'] eqn:E. cbn [fst y_nfe]. lia.
Qed.

Lemma toy_load_restores : load_restores toy nat (toy * nat) toy_save toy_load eq.
Proof. intros p r'. reflexivity. Qed.

Example resume_example :
  let s := (mkToy 6 3 11, 9) in
  toy_run 7 s = Some (mkToy 15 3 35, 8)
  /\ toy_resume 7 s 4 = toy_run 7 s                  (* generator of the loading process was at 4, not 9 *)
  /\ toy_resume 7 s 0 = toy_run 7 s.
Proof. repeat split; vm_compute; reflexivity. Qed.

(* a load that does not restore the generator does not resume exactly: the hypothesis of resume_exact is needed *)
Theorem resume_needs_rng_refuted :
  exists N s r', toy_resume_norng N s r' <> toy_run N s.
Proof.
  exists 7, (mkToy 6 3 11, 9), 4. vm_compute. intros H. discriminate H.
Qed.

(* ------------------------------------------------------------------------- *)
(* A window measured from start_run breaks composition                        *)
(* ------------------------------------------------------------------------- *)
(* frequency 2, population 2: the single call run(8) restarts after steps 2 and 4; split as run(2) then run(6)
   the window is re-based at the second call and the restarts fall after steps 3 and 5 *)
Theorem run_compose_refuted_window :
  exists N1 N2 s, w_run2 N1 N2 s <> w_run (w_consumed N1 s + N2) s.
Proof.
  exists 2, 6, (mkW 0 2 0 0 2, tt). vm_compute. intros H. discriminate H.
Qed.

Lemma w_frame : frame wstate unit w_nfe w_step w_start (fun p => p) eq.
Proof.
  constructor; try (intros; subst; reflexivity); try (intros; congruence); try (intros; lia).
  - intros [w u]. unfold p_nfe, w_step. destruct (w_freq w <=? S (w_iter w) - w_last w); cbn [fst w_nfe]; lia.
  - intros [w u]. unfold p_nfe, w_start. simpl. lia.
Qed.

(* ... so the only hypothesis of run_compose this extension violates is the neutrality of start_run *)
Lemma w_start_not_neutral : ~ hooks_neutral wstate unit w_start (fun p => p) eq.
Proof. intros [H _]. specialize (H (mkW 0 2 1 0 2, tt)). vm_compute in H. discriminate H. Qed.

Example window_values :
  let s := (mkW 0 2 0 0 2, tt) in
  w_run 8 s = Some (mkW 10 4 4 4 2, tt)
  /\ w_run2 2 6 s = Some (mkW 9 3 4 3 2, tt)
  /\ w_consumed 2 s = 2.
Proof. repeat split; vm_compute; reflexivity. Qed.

(* with a window that never closes (frequency larger than the run) the same extension composes on everything a
   step reads (counter, population size, iteration); only the re-based last_invocation differs *)
Definition w_obs (o : option (wstate * unit)) : option (nat * nat * nat) :=
  match o with Some (w, _) => Some (w_nfe w, w_pop w, w_iter w) | None => None end.

Example window_inactive_composes :
  let s := (mkW 0 2 0 0 100, tt) in
  w_obs (w_run2 2 6 s) = w_obs (w_run (w_consumed 2 s + 6) s)
  /\ w_obs (w_run2 3 5 s) = w_obs (w_run (w_consumed 3 s + 5) s).
Proof. split; vm_compute; reflexivity. Qed.

(* ------------------------------------------------------------------------- *)
(* The model on logged step sizes satisfies the frame: the harness's check     *)
(* evaluates an instance of run_compose                                       *)
(* ------------------------------------------------------------------------- *)
Lemma z_frame : frame zstate unit z_nfe z_step (fun p => p) (fun p => p) eq.
Proof.
  constructor; try (intros; subst; reflexivity); try (intros; congruence); try (intros; lia).
  intros [z u]. unfold p_nfe, z_step. destruct (z_script z); cbn [fst z_nfe]; lia.
Qed.

(* the composition law holds for every budget pair and every logged script (instance of run_compose) *)
Theorem z_compose : forall N1 N2 s, z_run2 N1 N2 s = z_run (z_consumed N1 s + N2) s.
Proof.
  intros N1 N2 s.
  pose proof (run_compose zstate unit z_nfe z_step (fun p => p) (fun p => p) eq z_frame
                (conj (fun p => eq_refl) (fun p => eq_refl)) N1 N2 s) as H.
  unfold z_run2, z_run, z_consumed.
  destruct (p_run2 zstate unit z_nfe z_step (fun p => p) (fun p => p) N1 N2 s) as [x|];
  destruct (p_run zstate unit z_nfe z_step (fun p => p) (fun p => p)
              (p_consumed zstate unit z_nfe z_step (fun p => p) (fun p => p) N1 s + N2) s) as [y|];
    simpl in H; try contradiction; [subst; reflexivity|reflexivity].
Qed.

Example compose_check_example :
  compose_check 4 5 [4; 4] [4; 2] [4; 4; 4; 2] true = false         (* run(4) stops after ONE step of 4 *)
  /\ compose_check 8 5 [4; 4] [4; 2] [4; 4; 4; 2] true = true
  /\ compose_check 7 6 [4; 4] [4; 2] [4; 4; 4; 2] true = true
  /\ compose_check 8 5 [4; 4] [4; 2] [4; 4; 5; 2] true = false        (* single call took different steps *)
  /\ compose_check 8 5 [4; 4] [4; 2] [4; 4; 5; 2] false = true.
Proof. repeat split; vm_compute; reflexivity. Qed.
