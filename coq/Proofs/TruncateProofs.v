(* Proofs about Model/Truncate.v: filters.truncate, nondominated_sort_cmp,
   nondominated_truncate / split / prune and truncate_fitness. *)
From Coq Require Import ZArith QArith Bool List Lia Permutation Sorted.
Import ListNotations.
From PV Require Import Base.Num Base.Order Base.StableSort Model.Dominance Model.Archive
     Proofs.ArchiveProofs Model.NDSort Proofs.NDSortProofs Model.Truncate.
Open Scope nat_scope.

(* ---------- filters.truncate, any key order ---------- *)
Section TruncateGeneric.
  Variable A : Type.
  Variable lt : A -> A -> bool.

  Definition eff_lt (reverse : bool) : A -> A -> bool := if reverse then (fun a b => lt b a) else lt.

  Lemma sorted_by_eq reverse l : sorted_by lt reverse l = ssort (eff_lt reverse) l.
  Proof. unfold sorted_by, eff_lt. destruct reverse; reflexivity. Qed.

  Lemma sorted_by_perm reverse l : Permutation (sorted_by lt reverse l) l.
  Proof. rewrite sorted_by_eq. apply ssort_perm. Qed.

  Theorem truncate_length reverse l k : length (truncate lt reverse l k) = min k (length l).
  Proof.
    unfold truncate. rewrite firstn_length. f_equal.
    apply Permutation_length, sorted_by_perm.
  Qed.

  (* the result together with what was cut off is a rearrangement of the input *)
  Theorem truncate_perm reverse l k :
    Permutation (truncate lt reverse l k ++ skipn k (sorted_by lt reverse l)) l.
  Proof. unfold truncate. rewrite firstn_skipn. apply sorted_by_perm. Qed.

  Theorem truncate_zero reverse l : truncate lt reverse l 0 = [].
  Proof. reflexivity. Qed.

  Theorem truncate_all reverse l k : length l <= k ->
    truncate lt reverse l k = sorted_by lt reverse l /\ Permutation (truncate lt reverse l k) l.
  Proof.
    intro H. assert (E : truncate lt reverse l k = sorted_by lt reverse l).
    { unfold truncate. apply firstn_all2. rewrite (Permutation_length (sorted_by_perm reverse l)). exact H. }
    split; [exact E|]. rewrite E. apply sorted_by_perm.
  Qed.

  Lemma truncate_incl reverse l k x : In x (truncate lt reverse l k) -> In x l.
  Proof.
    intro H. eapply Permutation_in; [apply (truncate_perm reverse l k)|]. apply in_or_app. now left.
  Qed.

  (* no repeated identity in, no repeated identity out *)
  Theorem truncate_NoDup (f : A -> nat) reverse l k :
    NoDup (map f l) -> NoDup (map f (truncate lt reverse l k)).
  Proof.
    intro H.
    assert (H' : NoDup (map f (truncate lt reverse l k ++ skipn k (sorted_by lt reverse l)))).
    { eapply Permutation_NoDup; [apply Permutation_sym, Permutation_map, truncate_perm|exact H]. }
    rewrite map_app in H'. clear H. revert H'.
    generalize (map f (truncate lt reverse l k)) as p, (map f (skipn k (sorted_by lt reverse l))) as q.
    induction p as [|a p IH]; intros q H; [constructor|].
    simpl in H. inversion H as [|a' r Hn Hr]; subst. constructor.
    - intro Hin. apply Hn. apply in_or_app. now left.
    - eapply IH; eauto.
  Qed.

  Hypothesis SW : StrictWeak lt.

  Lemma eff_lt_sw reverse : StrictWeak (eff_lt reverse).
  Proof. unfold eff_lt. destruct reverse; [now apply StrictWeak_flip|assumption]. Qed.

  (* nothing that was cut off sorts strictly before anything that was kept *)
  Theorem truncate_cut reverse l k x y :
    In x (truncate lt reverse l k) -> In y (skipn k (sorted_by lt reverse l)) -> eff_lt reverse y x = false.
  Proof.
    unfold truncate. rewrite sorted_by_eq. apply ssort_cut_le. apply eff_lt_sw.
  Qed.

  (* with distinct identities "cut off" = "member of the input that is not in the result" *)
  Lemma dropped_in_skipn (f : A -> nat) reverse l k y : NoDup (map f l) ->
    In y l -> ~ In (f y) (map f (truncate lt reverse l k)) -> In y (skipn k (sorted_by lt reverse l)).
  Proof.
    intros _ Hy Hn.
    assert (In y (truncate lt reverse l k ++ skipn k (sorted_by lt reverse l))).
    { eapply Permutation_in; [apply Permutation_sym, truncate_perm|exact Hy]. }
    apply in_app_or in H. destruct H as [H|H]; [|exact H].
    exfalso. apply Hn. now apply in_map.
  Qed.
End TruncateGeneric.

(* ---------- nondominated_sort_cmp ---------- *)
Lemma xneg_lt a b : xltb (xneg a) (xneg b) = xltb b a.
Proof. apply (ol_neg _ _ _ xq_laws). Qed.

(* x sorts strictly before y: smaller rank, or equal rank and larger crowding distance *)
Lemma nd_lt_iff x y : nd_lt x y = true <->
  a_rank x < a_rank y \/ (a_rank x = a_rank y /\ xltb (a_crowd y) (a_crowd x) = true).
Proof.
  unfold nd_lt, cmp_key_lt, nd_sort_cmp. rewrite !xneg_lt.
  destruct (Nat.eqb (a_rank x) (a_rank y)) eqn:E.
  - apply Nat.eqb_eq in E. destruct (xltb (a_crowd y) (a_crowd x)) eqn:C; simpl.
    + split; [intros _; right; auto|reflexivity].
    + destruct (xltb (a_crowd x) (a_crowd y)); simpl; split; try discriminate; intros [H|[_ H]]; try lia; discriminate.
  - apply Nat.eqb_neq in E. destruct (Nat.ltb (a_rank x) (a_rank y)) eqn:L1.
    + apply Nat.ltb_lt in L1. simpl. split; [intros _; now left|reflexivity].
    + apply Nat.ltb_ge in L1. destruct (Nat.ltb (a_rank y) (a_rank x)); simpl; split; try discriminate; intros [H|[H _]]; lia.
Qed.

Lemma nd_lt_false x y : nd_lt x y = false <->
  a_rank y <= a_rank x /\ (a_rank x = a_rank y -> xltb (a_crowd y) (a_crowd x) = false).
Proof.
  split.
  - intro H. split.
    + destruct (Nat.le_gt_cases (a_rank y) (a_rank x)) as [|G]; [assumption|].
      assert (nd_lt x y = true) by (apply nd_lt_iff; now left). congruence.
    + intro E. destruct (xltb (a_crowd y) (a_crowd x)) eqn:C; [|reflexivity].
      assert (nd_lt x y = true) by (apply nd_lt_iff; right; auto). congruence.
  - intros [H1 H2]. destruct (nd_lt x y) eqn:E; [|reflexivity].
    apply nd_lt_iff in E. destruct E as [E|[E C]]; [lia|]. rewrite (H2 E) in C. discriminate.
Qed.

Lemma nd_lt_sw : StrictWeak nd_lt.
Proof.
  split.
  - intro x. apply nd_lt_false. split; [lia|]. intros _. apply (ol_irrefl _ _ _ xq_laws).
  - intros x y z H1 H2. apply nd_lt_iff in H1, H2. apply nd_lt_iff.
    destruct H1 as [H1|[E1 C1]], H2 as [H2|[E2 C2]]; try (left; lia).
    right. split; [lia|]. eapply (ol_trans _ _ _ xq_laws); eauto.
  - intros x y z H. apply nd_lt_iff in H.
    destruct (nd_lt x z) eqn:A; [now left|]. right. apply nd_lt_false in A. destruct A as [A1 A2].
    apply nd_lt_iff. destruct H as [H|[E C]].
    + destruct (Nat.eq_dec (a_rank z) (a_rank y)) as [Ezy|]; [|left; lia].
      left. lia.
    + destruct (Nat.eq_dec (a_rank x) (a_rank z)) as [Exz|]; [|left; lia].
      right. split; [lia|]. specialize (A2 Exz).
      destruct (ol_cotrans _ _ _ xq_laws _ _ (a_crowd z) C) as [G|G]; [assumption|congruence].
Qed.

(* ---------- nondominated_truncate ---------- *)
Definition asid (a : asol) : nat := sid (a_sol a).

Theorem nd_truncate_length l k : length (nondominated_truncate l k) = min k (length l).
Proof. apply truncate_length. Qed.

Theorem nd_truncate_sub l k : NoDup (map asid l) ->
  NoDup (map asid (nondominated_truncate l k)) /\
  exists dropped, Permutation (nondominated_truncate l k ++ dropped) l.
Proof.
  intro H. split; [now apply truncate_NoDup|]. eexists. apply truncate_perm.
Qed.

(* kept x, dropped y: rank x <= rank y, and at equal rank crowding x >= crowding y *)
Theorem nd_truncate_rank_mono l k x y : NoDup (map asid l) ->
  In x (nondominated_truncate l k) -> In y l -> ~ In (asid y) (map asid (nondominated_truncate l k)) ->
  a_rank x <= a_rank y /\ (a_rank x = a_rank y -> xltb (a_crowd x) (a_crowd y) = false).
Proof.
  intros Hnd Hx Hy Hn.
  pose proof (dropped_in_skipn asol nd_lt asid false l k y Hnd Hy Hn) as Hd.
  pose proof (truncate_cut asol nd_lt nd_lt_sw false l k x y Hx Hd) as Hc. simpl in Hc.
  apply nd_lt_false in Hc. destruct Hc as [H1 H2]. split; [assumption|]. intro E. apply H2. now symmetry.
Qed.

Theorem nd_truncate_zero l : nondominated_truncate l 0 = [].
Proof. reflexivity. Qed.

Theorem nd_truncate_all l k : length l <= k -> Permutation (nondominated_truncate l k) l.
Proof. intro H. now apply truncate_all. Qed.

(* ---------- truncate_fitness ---------- *)
Section Fitness.
  Variable A : Type.
  Variable fitness : A -> xq.
  Variable ident : A -> nat.
  Notation flt := (fun a b : A => xltb (fitness a) (fitness b)).

  Lemma flt_sw : StrictWeak flt.
  Proof. apply (StrictWeak_key xltb fitness), xltb_sw. Qed.

  Theorem truncate_fitness_length l k larger : length (truncate_fitness fitness l k larger) = min k (length l).
  Proof. apply truncate_length. Qed.

  Theorem truncate_fitness_sub l k larger : NoDup (map ident l) ->
    NoDup (map ident (truncate_fitness fitness l k larger)) /\
    exists dropped, Permutation (truncate_fitness fitness l k larger ++ dropped) l.
  Proof. intro H. split; [now apply truncate_NoDup|]. eexists. apply truncate_perm. Qed.

  (* kept x, dropped y: fitness x >= fitness y when larger is preferred, <= otherwise *)
  Theorem truncate_fitness_mono l k larger x y : NoDup (map ident l) ->
    In x (truncate_fitness fitness l k larger) -> In y l ->
    ~ In (ident y) (map ident (truncate_fitness fitness l k larger)) ->
    if larger then xltb (fitness x) (fitness y) = false else xltb (fitness y) (fitness x) = false.
  Proof.
    intros Hnd Hx Hy Hn.
    pose proof (dropped_in_skipn A flt ident larger l k y Hnd Hy Hn) as Hd.
    pose proof (truncate_cut A flt flt_sw larger l k x y Hx Hd) as Hc.
    destruct larger; exact Hc.
  Qed.
End Fitness.

(* ---------- nondominated_split ---------- *)
Section SplitProofs.
  Variable A : Type.
  Variable rank : A -> nat.
  Notation matches := (matches rank).

  (* all fronts 0 .. r-1, front by front, members in population order *)
  Definition fronts_upto (l : list A) (r : nat) : list A := flat_map (fun j => matches l j) (seq 0 r).

  Lemma fronts_upto_S l r : fronts_upto l (S r) = fronts_upto l r ++ matches l r.
  Proof.
    unfold fronts_upto. rewrite seq_S, flat_map_app. simpl. now rewrite app_nil_r.
  Qed.

  Lemma filter_disjoint_perm (f g : A -> bool) l : (forall a, f a = true -> g a = false) ->
    Permutation (filter f l ++ filter g l) (filter (fun a => f a || g a) l).
  Proof.
    intro D. induction l as [|a l IH]; [constructor|]. simpl.
    destruct (f a) eqn:F; simpl.
    - rewrite (D a F). now constructor.
    - destruct (g a); [|assumption].
      eapply perm_trans; [apply Permutation_sym, Permutation_middle|]. now constructor.
  Qed.

  (* they are exactly the members with rank < r *)
  Lemma fronts_upto_perm l r : Permutation (fronts_upto l r) (filter (fun a => Nat.ltb (rank a) r) l).
  Proof.
    induction r as [|r IH].
    - unfold fronts_upto. simpl. induction l as [|a l IHl]; [constructor|exact IHl].
    - rewrite fronts_upto_S.
      eapply perm_trans; [apply Permutation_app_tail, IH|].
      eapply perm_trans; [apply filter_disjoint_perm|].
      + intros a H. apply Nat.ltb_lt in H. apply Nat.eqb_neq. lia.
      + erewrite filter_ext; [reflexivity|]. intro a. cbn beta.
        destruct (Nat.ltb_spec (rank a) r), (Nat.eqb_spec (rank a) r), (Nat.ltb_spec (rank a) (S r)); simpl; try reflexivity; lia.
  Qed.

  Lemma fronts_upto_In l r x : In x (fronts_upto l r) <-> In x l /\ rank x < r.
  Proof.
    split.
    - intro H. apply (Permutation_in _ (fronts_upto_perm l r)) in H. apply filter_In in H.
      destruct H as [H1 H2]. apply Nat.ltb_lt in H2. tauto.
    - intros [H1 H2]. apply (Permutation_in _ (Permutation_sym (fronts_upto_perm l r))).
      apply filter_In. split; [assumption|now apply Nat.ltb_lt].
  Qed.

  Lemma filter_length_le (f : A -> bool) l : length (filter f l) <= length l.
  Proof. induction l as [|a l IH]; simpl; [lia|]. destruct (f a); simpl; lia. Qed.

  Lemma fronts_upto_length l r : length (fronts_upto l r) <= length l.
  Proof. rewrite (Permutation_length (fronts_upto_perm l r)). apply filter_length_le. Qed.

  Lemma fronts_upto_all l m : (forall a, In a l -> rank a < m) -> Permutation (fronts_upto l m) l.
  Proof.
    intro H. eapply perm_trans; [apply fronts_upto_perm|].
    assert (E : filter (fun a => Nat.ltb (rank a) m) l = l).
    { induction l as [|a l IH]; [reflexivity|]. simpl.
      assert (Nat.ltb (rank a) m = true) by (apply Nat.ltb_lt, H; now left). rewrite H0. f_equal.
      apply IH. intros b Hb. apply H. now right. }
    now rewrite E.
  Qed.

  (* what nondominated_split returns: the fronts below r, and the front r to cut (or nothing) *)
  Definition split_post (l : list A) (size : nat) (r : nat) (last : list A) : Prop :=
    (forall j, j < r -> matches l j <> []) /\
    length (fronts_upto l r) <= size /\
    ((last = [] /\ (length (fronts_upto l r) = size \/ matches l r = [])) \/
     (last = matches l r /\ size < length (fronts_upto l r) + length (matches l r))).

  Lemma split_loop_spec : forall fuel l size rk,
    size - length (fronts_upto l rk) <= fuel ->
    length (fronts_upto l rk) <= size ->
    (forall j, j < rk -> matches l j <> []) ->
    exists r last, split_loop rank fuel l size (fronts_upto l rk) rk = Some (fronts_upto l r, last)
                   /\ split_post l size r last.
  Proof.
    induction fuel as [|fuel IH]; intros l size rk Hf Hle Hne.
    - simpl. assert (E : Nat.ltb (length (fronts_upto l rk)) size = false) by (apply Nat.ltb_ge; lia).
      rewrite E. exists rk, []. split; [reflexivity|]. repeat split; auto. left. split; [reflexivity|left; lia].
    - simpl. destruct (Nat.ltb (length (fronts_upto l rk)) size) eqn:E.
      + apply Nat.ltb_lt in E.
        destruct (Nat.eqb (length (matches l rk)) 0) eqn:E0.
        * apply Nat.eqb_eq in E0. exists rk, []. split; [reflexivity|]. repeat split; auto.
          left. split; [reflexivity|]. right. now apply length_zero_iff_nil.
        * apply Nat.eqb_neq in E0.
          destruct (Nat.leb (length (fronts_upto l rk) + length (matches l rk)) size) eqn:E1.
          -- apply Nat.leb_le in E1. rewrite <- fronts_upto_S.
             apply IH.
             ++ rewrite fronts_upto_S, app_length. lia.
             ++ rewrite fronts_upto_S, app_length. lia.
             ++ intros j Hj. destruct (Nat.eq_dec j rk) as [->|]; [|apply Hne; lia].
                intro C. rewrite C in E0. simpl in E0. lia.
          -- apply Nat.leb_gt in E1. exists rk, (matches l rk). split; [reflexivity|]. repeat split; auto.
      + apply Nat.ltb_ge in E. exists rk, []. split; [reflexivity|]. repeat split; auto.
        left. split; [reflexivity|left; lia].
  Qed.

  (* fuel = size is enough, and the result is as specified *)
  Theorem split_spec l size : exists r last, split_by rank l size = Some (fronts_upto l r, last) /\ split_post l size r last.
  Proof.
    unfold split_by. change (@nil A) with (fronts_upto l 0).
    apply split_loop_spec; simpl; try lia.
  Qed.

  Theorem split_zero l : split_by rank l 0 = Some ([], []).
  Proof. reflexivity. Qed.

  (* ranks 0..m-1 all occupied and everything fits: (all fronts in rank order, []) *)
  Theorem split_all l size m : (forall a, In a l -> rank a < m) -> (forall j, j < m -> matches l j <> []) ->
    length l <= size -> split_by rank l size = Some (fronts_upto l m, []) /\ Permutation (fronts_upto l m) l.
  Proof.
    intros Hr Hocc Hfit. split; [|now apply fronts_upto_all].
    destruct (split_spec l size) as [r [last [Hs [Hne [Hle Hcase]]]]].
    assert (Hempty : forall j, m <= j -> matches l j = []).
    { intros j Hj. destruct (matches l j) as [|x r'] eqn:E; [reflexivity|]. exfalso.
      assert (H : In x (matches l j)) by (rewrite E; now left).
      unfold Truncate.matches in H. apply filter_In in H. destruct H as [H1 H2].
      apply Nat.eqb_eq in H2. specialize (Hr x H1). lia. }
    assert (r = m).
    { destruct (Nat.lt_trichotomy r m) as [Hlt|[->|Hgt]]; [|reflexivity|].
      - exfalso. pose proof (fronts_upto_length l (S r)) as B. rewrite fronts_upto_S, app_length in B.
        assert (matches l r <> []) by now apply Hocc.
        assert (0 < length (matches l r)) by (destruct (matches l r); [congruence|simpl; lia]).
        destruct Hcase as [[_ [C|C]]|[_ C]]; [lia|congruence|lia].
      - exfalso. apply (Hne m Hgt). apply Hempty. lia. }
    subst r. rewrite Hs. f_equal. f_equal.
    destruct Hcase as [[-> _]|[-> C]]; [reflexivity|]. apply Hempty. lia.
  Qed.
End SplitProofs.

Arguments fronts_upto {A} _ _ _.
Arguments split_post {A} _ _ _ _ _.

(* ---------- nondominated_split on annotated solutions ---------- *)
Theorem nd_split_spec l size : exists r last,
  nondominated_split l size = Some (fronts_upto a_rank l r, last) /\ split_post a_rank l size r last.
Proof. apply split_spec. Qed.

(* ---------- nondominated_prune ---------- *)
(* what pruning must preserve of a member: the solution and its rank (crowding is rewritten) *)
Definition core (a : asol) : xsol * nat := (a_sol a, a_rank a).

Lemma reannotate_core : forall cs l l', reannotate cs l = Some l' -> map core l' = map core l.
Proof.
  induction l as [|a l IH]; intros l' H; simpl in H.
  - now injection H as <-.
  - destruct (cget cs (sid (a_sol a))) as [v|]; [|discriminate].
    destruct (reannotate cs l) as [r'|]; [|discriminate]. injection H as <-. simpl. f_equal. now apply IH.
Qed.

Lemma filter_partition_perm {A} (f : A -> bool) l :
  Permutation (filter f l ++ filter (fun a => negb (f a)) l) l.
Proof.
  induction l as [|a l IH]; [constructor|]. simpl. destruct (f a); simpl.
  - now constructor.
  - eapply perm_trans; [apply Permutation_sym, Permutation_middle|]. now constructor.
Qed.

Lemma prune_loop_spec nobjs : forall fuel nres rem size out,
  prune_loop fuel nobjs nres rem size = Some out -> nres <= size ->
  (exists rest, Permutation (map core out ++ rest) (map core rem)) /\
  length out = min (length rem) (size - nres).
Proof.
  induction fuel as [|fuel IH]; intros nres rem size out H Hle; simpl in H.
  - destruct (Nat.ltb size (nres + length rem)) eqn:E; [discriminate|]. injection H as <-.
    apply Nat.ltb_ge in E. split; [exists []; now rewrite app_nil_r|lia].
  - destruct (Nat.ltb size (nres + length rem)) eqn:E.
    + apply Nat.ltb_lt in E.
      destruct (crowding nobjs (map a_sol rem)) as [cs|]; [|discriminate].
      destruct (reannotate cs rem) as [rem'|] eqn:Er; [|discriminate].
      pose proof (reannotate_core _ _ _ Er) as Hc.
      assert (Hl : length rem' = length rem).
      { rewrite <- (map_length core rem'), Hc. apply map_length. }
      destruct (IH _ _ _ _ H Hle) as [[rest HP] Hlen].
      rewrite truncate_length in Hlen. split.
      * pose proof (truncate_perm asol crowd_lt true rem' (length rem' - 1)) as TP.
        apply (Permutation_map core) in TP. rewrite map_app, Hc in TP.
        exists (rest ++ map core (skipn (length rem' - 1) (sorted_by crowd_lt true rem'))).
        rewrite app_assoc. eapply perm_trans; [apply Permutation_app_tail, HP|exact TP].
      * lia.
    + injection H as <-. apply Nat.ltb_ge in E. split; [exists []; now rewrite app_nil_r|lia].
Qed.

Section PruneProofs.
  Variable nobjs : nat.
  Variable l : list asol.
  Variable size : nat.
  Variable out : list asol.
  Hypothesis Hrun : nondominated_prune nobjs l size = Some out.

  Notation upto := (fronts_upto a_rank l).

  (* result = the fronts that fit, followed by the survivors of the front that had to be cut *)
  Lemma prune_shape : exists r last rem',
    out = upto r ++ rem' /\ split_post a_rank l size r last /\
    (exists rest, Permutation (map core rem' ++ rest) (map core last)) /\
    length rem' = min (length last) (size - length (upto r)).
  Proof.
    unfold nondominated_prune in Hrun.
    destruct (nd_split_spec l size) as [r [last [Hs Hpost]]]. rewrite Hs in Hrun.
    destruct (prune_loop (length last) nobjs (length (upto r)) last size) as [rem'|] eqn:E; [|discriminate].
    injection Hrun as <-. exists r, last, rem'. split; [reflexivity|]. split; [assumption|].
    apply (prune_loop_spec _ _ _ _ _ _ E). now destruct Hpost as [_ [H _]].
  Qed.

  Theorem prune_length_le : length out <= size.
  Proof.
    destruct prune_shape as [r [last [rem' [-> [[_ [Hle _]] [_ Hlen]]]]]]. rewrite app_length. lia.
  Qed.

  (* ranks 0..m-1 all occupied (as after nondominated_sort): exactly min(size, n) members *)
  Theorem prune_length m : (forall a, In a l -> a_rank a < m) -> (forall j, j < m -> matches a_rank l j <> []) ->
    length out = min size (length l).
  Proof.
    intros Hr Hocc. destruct prune_shape as [r [last [rem' [-> [[Hne [Hle Hcase]] [_ Hlen]]]]]].
    rewrite app_length. pose proof (fronts_upto_length asol a_rank l r) as B.
    destruct Hcase as [[-> [C|C]]|[-> C]].
    - simpl in Hlen. lia.
    - simpl in Hlen.
      assert (m <= r).
      { destruct (Nat.le_gt_cases m r) as [|G]; [assumption|]. exfalso. now apply (Hocc r G). }
      assert (length (upto r) = length l).
      { apply Permutation_length, fronts_upto_all. intros a Ha. specialize (Hr a Ha). lia. }
      lia.
    - pose proof (fronts_upto_length asol a_rank l (S r)) as B'. rewrite fronts_upto_S, app_length in B'. lia.
  Qed.

  (* the members of the result are members of the input (solution and rank unchanged), each at most as often *)
  Theorem prune_sub : exists rest, Permutation (map core out ++ rest) (map core l).
  Proof.
    destruct prune_shape as [r [last [rem' [-> [[Hne [Hle Hcase]] [[rest HP] Hlen]]]]]].
    rewrite map_app. destruct Hcase as [[-> _]|[-> C]].
    - assert (rem' = []) by (destruct rem'; [reflexivity|simpl in Hlen; lia]). subst rem'. simpl. rewrite app_nil_r.
      exists (map core (filter (fun a => negb (Nat.ltb (a_rank a) r)) l)).
      rewrite <- map_app. apply Permutation_map.
      eapply perm_trans; [apply Permutation_app_tail, fronts_upto_perm|]. apply filter_partition_perm.
    - exists (rest ++ map core (filter (fun a => negb (Nat.ltb (a_rank a) (S r))) l)).
      rewrite <- app_assoc, (app_assoc (map core rem')).
      eapply perm_trans; [apply Permutation_app_head, Permutation_app_tail, HP|].
      rewrite app_assoc, <- map_app, <- fronts_upto_S, <- map_app. apply Permutation_map.
      eapply perm_trans; [apply Permutation_app_tail, fronts_upto_perm|]. apply filter_partition_perm.
  Qed.

  Theorem prune_NoDup : NoDup (map asid l) -> NoDup (map asid out).
  Proof.
    intro H. destruct prune_sub as [rest HP].
    apply (Permutation_map (fun c : xsol * nat => sid (fst c))) in HP.
    rewrite map_app, !map_map in HP. simpl in HP.
    change (map (fun x => sid (a_sol x)) l) with (map asid l) in HP.
    change (map (fun x => sid (a_sol x)) out) with (map asid out) in HP.
    assert (H' : NoDup (map asid out ++ map (fun c : xsol * nat => sid (fst c)) rest)).
    { eapply Permutation_NoDup; [apply Permutation_sym; exact HP|exact H]. }
    clear - H'. revert H'. generalize (map (fun c : xsol * nat => sid (fst c)) rest) as q.
    induction (map asid out) as [|a p IH]; intros q H; [constructor|].
    simpl in H. inversion H as [|a' r Hn Hr]; subst. constructor.
    - intro Hin. apply Hn. apply in_or_app. now left.
    - eapply IH; eauto.
  Qed.

  (* kept x, dropped y (a member of the input that is not in the result): rank x <= rank y *)
  Theorem prune_rank_mono x y : In x out -> In y l -> ~ In y out -> a_rank x <= a_rank y.
  Proof.
    intros Hx Hy Hn.
    destruct prune_shape as [r [last [rem' [-> [[Hne [Hle Hcase]] [[rest HP] Hlen]]]]]].
    assert (Hyr : r <= a_rank y).
    { destruct (Nat.le_gt_cases r (a_rank y)) as [|G]; [assumption|]. exfalso. apply Hn.
      apply in_or_app. left. apply fronts_upto_In. auto. }
    apply in_app_or in Hx. destruct Hx as [Hx|Hx].
    - apply fronts_upto_In in Hx. lia.
    - assert (Hc : In (core x) (map core last)).
      { eapply Permutation_in; [exact HP|]. apply in_or_app. left. now apply in_map. }
      apply in_map_iff in Hc. destruct Hc as [z [Ez Hz]].
      destruct Hcase as [[-> _]|[-> _]]; [contradiction|].
      unfold Truncate.matches in Hz. apply filter_In in Hz. destruct Hz as [_ Hz]. apply Nat.eqb_eq in Hz.
      unfold core in Ez. injection Ez as _ Er. lia.
  Qed.
End PruneProofs.

Theorem prune_zero nobjs l : nondominated_prune nobjs l 0 = Some [].
Proof. reflexivity. Qed.

(* ---------- nondominated_prune never fails (fuel suffices, crowding_distance does not raise) ---------- *)
Definition prunable (nobjs : nat) (rem : list asol) : Prop :=
  NoDup (map asid rem) /\ forall a, In a rem -> finite_objs (a_sol a) /\ nobjs <= length (s_objs (a_sol a)).

Lemma reannotate_total cs : forall rem, (forall a, In a rem -> cget cs (asid a) <> None) ->
  exists rem', reannotate cs rem = Some rem'.
Proof.
  induction rem as [|a rem IH]; intro H; [simpl; eauto|]. simpl.
  destruct (cget cs (sid (a_sol a))) as [v|] eqn:E; [|exfalso; apply (H a); [now left|exact E]].
  destruct IH as [r' Hr]; [intros b Hb; apply H; now right|]. rewrite Hr. eauto.
Qed.

Lemma reannotate_sols : forall cs l l', reannotate cs l = Some l' -> map a_sol l' = map a_sol l.
Proof.
  intros cs l l' H. apply reannotate_core in H.
  apply (f_equal (map fst)) in H. rewrite !map_map in H. exact H.
Qed.

Lemma prune_loop_total nobjs : forall fuel nres rem size, nres <= size ->
  length rem <= fuel + (size - nres) -> prunable nobjs rem ->
  exists out, prune_loop fuel nobjs nres rem size = Some out.
Proof.
  induction fuel as [|fuel IH]; intros nres rem size Hle Hlen [Hnd Hfin]; simpl.
  - assert (E : Nat.ltb size (nres + length rem) = false) by (apply Nat.ltb_ge; lia). rewrite E. eauto.
  - destruct (Nat.ltb size (nres + length rem)) eqn:E; [|eauto]. apply Nat.ltb_lt in E.
    destruct (crowding_total nobjs (map a_sol rem)) as [cs Hcs].
    { intros x Hx. apply in_map_iff in Hx. destruct Hx as [a [<- Ha]]. now apply Hfin. }
    rewrite Hcs.
    assert (Hinj : sid_inj (map a_sol rem)).
    { apply NoDup_sid_inj. rewrite map_map. exact Hnd. }
    destruct (reannotate_total cs rem) as [rem' Hr].
    { intros a Ha. destruct (crowding_binds _ _ _ Hinj Hcs (a_sol a) (in_map a_sol _ _ Ha)) as [v Hv].
      unfold asid. rewrite Hv. discriminate. }
    rewrite Hr. pose proof (reannotate_sols _ _ _ Hr) as Hs.
    assert (Hl' : length rem' = length rem) by (rewrite <- (map_length a_sol rem'), Hs; apply map_length).
    assert (Hasid : map asid rem' = map asid rem).
    { change asid with (fun a => sid (a_sol a)). rewrite <- !(map_map a_sol sid). now rewrite Hs. }
    apply IH; [assumption| |].
    + rewrite truncate_length. lia.
    + split.
      * apply truncate_NoDup. now rewrite Hasid.
      * intros a Ha. apply truncate_incl in Ha.
        assert (In (a_sol a) (map a_sol rem)) by (rewrite <- Hs; now apply in_map).
        apply in_map_iff in H. destruct H as [b [Eb Hb]]. rewrite <- Eb. now apply Hfin.
Qed.

Theorem prune_total nobjs l size : prunable nobjs l -> exists out, nondominated_prune nobjs l size = Some out.
Proof.
  intros [Hnd Hfin]. unfold nondominated_prune.
  destruct (nd_split_spec l size) as [r [last [Hs [_ [Hle Hcase]]]]]. rewrite Hs.
  destruct (prune_loop_total nobjs (length last) (length (fronts_upto a_rank l r)) last size Hle) as [rem' Hr]; [lia| |].
  - destruct Hcase as [[-> _]|[-> _]]; [split; [constructor|intros a []]|].
    split.
    + unfold Truncate.matches. clear - Hnd. induction l as [|a l IH]; [constructor|]. simpl in *.
      inversion Hnd as [|s m Hn Hnd']; subst. destruct (Nat.eqb (a_rank a) r); [|now apply IH].
      simpl. constructor; [|now apply IH]. intro Hin. apply Hn.
      apply in_map_iff in Hin. destruct Hin as [b [Eb Hb]]. apply filter_In in Hb. rewrite <- Eb. apply in_map. tauto.
    + intros a Ha. unfold Truncate.matches in Ha. apply filter_In in Ha. apply Hfin. tauto.
  - rewrite Hr. eauto.
Qed.

(* ---------- non-vacuity ---------- *)
Definition ex_pop : list xsol :=
  [ Build_sol 0 [FZ 0; FZ 4] xzero; Build_sol 1 [FZ 4; FZ 0] xzero; Build_sol 2 [FZ 1; FZ 2] xzero;
    Build_sol 3 [FZ 3; FZ 1] xzero; Build_sol 4 [FZ 1; FZ 2] xzero; Build_sol 5 [FZ 2; FZ 3] xzero;
    Build_sol 6 [FZ 4; FZ 4] xzero ].

(* front 0 = {0,1,2,3,4}: 0 and 1 are the extremes, 4 repeats the objective vector of 2; front 1 = {5}; front 2 = {6} *)
Example ex_sort_ranks : option_map (map (fun a => (asid a, a_rank a))) (x_nd_sort false [false; false] ex_pop)
  = Some [ (0, 0); (1, 0); (2, 0); (3, 0); (4, 0); (5, 1); (6, 2) ].
Proof. vm_compute. reflexivity. Qed.

Example ex_sort_crowding :
  option_map (fun ann => forallb (fun p => xsame (a_crowd (fst p)) (snd p))
                                 (combine ann [PInf; PInf; Fin (3 # 2); Fin (5 # 4); xzero; PInf; PInf]))
             (x_nd_sort false [false; false] ex_pop) = Some true.
Proof. vm_compute. reflexivity. Qed.

Definition ex_ann : list asol :=
  match x_nd_sort false [false; false] ex_pop with Some a => a | None => [] end.

(* size 3 cuts inside front 0: the two extremes and the less crowded interior point survive *)
Example ex_truncate : map asid (nondominated_truncate ex_ann 3) = [0; 1; 2].
Proof. vm_compute. reflexivity. Qed.

Example ex_split :
  (option_map (fun p => (map asid (fst p), map asid (snd p))) (nondominated_split ex_ann 6)
   = Some ([0; 1; 2; 3; 4; 5], [])) /\
  (option_map (fun p => (map asid (fst p), map asid (snd p))) (nondominated_split ex_ann 3)
   = Some ([], [0; 1; 2; 3; 4])).
Proof. split; vm_compute; reflexivity. Qed.

Example ex_prune : option_map (map asid) (nondominated_prune 2 ex_ann 3) = Some [0; 1; 2].
Proof. vm_compute. reflexivity. Qed.

(* ---------- a population that has just been sorted by nondominated_sort ---------- *)
Section SortedPopulation.
  Variable c : bool.
  Variable dirs : list bool.
  Variable l : list xsol.
  Variable ann : list asol.
  Hypothesis Hwf : Forall (sol_wf xq xltb xzero dirs) l.
  Hypothesis Hinj : sid_inj l.
  Hypothesis Hsort : x_nd_sort c dirs l = Some ann.

  Lemma sorted_asid : map asid ann = map sid l.
  Proof. rewrite <- (ann_sols c dirs l ann Hsort), map_map. reflexivity. Qed.

  Lemma sorted_length : length ann = length l.
  Proof. rewrite <- (ann_sols c dirs l ann Hsort). now rewrite map_length. Qed.

  (* pruning returns exactly min(size, n) members *)
  Theorem sorted_prune_length nobjs size out : nondominated_prune nobjs ann size = Some out ->
    length out = min size (length l).
  Proof.
    intro H. destruct (x_ranks_contiguous c dirs l ann Hwf Hinj Hsort) as [m [_ [Hr Hocc]]].
    rewrite <- sorted_length. apply (prune_length nobjs ann size out H m Hr Hocc).
  Qed.

  (* everything fits: split returns (all fronts in rank order, []) *)
  Theorem sorted_split_all size : length l <= size -> exists first,
    nondominated_split ann size = Some (first, []) /\ Permutation first ann.
  Proof.
    intro H. destruct (x_ranks_contiguous c dirs l ann Hwf Hinj Hsort) as [m [_ [Hr Hocc]]].
    rewrite <- sorted_length in H.
    destruct (split_all asol a_rank ann size m Hr Hocc H) as [E P]. eauto.
  Qed.
End SortedPopulation.

(* the hypotheses of the rank / crowding / totality theorems hold for this population *)
Example ex_pop_wf : Forall (sol_wf xq xltb xzero [false; false]) ex_pop.
Proof. repeat constructor. Qed.

Example ex_pop_inj : sid_inj ex_pop.
Proof.
  apply NoDup_sid_inj. simpl.
  repeat (constructor; [simpl; intuition discriminate|]). constructor.
Qed.

Example ex_pop_finite : forall x, In x ex_pop -> finite_objs x.
Proof.
  intros x H. simpl in H.
  repeat (destruct H as [<-|H]; [repeat constructor; discriminate|]). contradiction.
Qed.

Example ex_pop_sorts : exists ann, x_nd_sort false [false; false] ex_pop = Some ann.
Proof. exact (x_nd_sort_total false [false; false] ex_pop ex_pop_wf ex_pop_inj ex_pop_finite). Qed.

(* member 6 = (4,4) has rank 2: its dominators have ranks <= 1 and member 5 = (2,3), of rank 1, dominates it *)
Example ex_rank_depth_instance :
  forall a, In a ex_ann -> asid a = 6 -> a_rank a = 2.
Proof.
  intros a Ha. vm_compute in Ha.
  repeat (destruct Ha as [<-|Ha]; [vm_compute; intro E; try discriminate E; reflexivity|]). contradiction.
Qed.
